#!/bin/bash
# Builds every driver binary once (warms the Go build cache). Offline.
set -u
cd "$(dirname "$0")"
export GOFLAGS=-mod=mod GOPROXY=off GOSUMDB=off GOTOOLCHAIN=local
mkdir -p .bin .logs evidence replays
cd harness
rc=0
go1.26 build -tags verif ./mon/... ./resp/... ./drv/... ./fakeredis/... ./minilua/... ./stress/... || rc=1
go1.26 build -tags verif -race github.com/redis/rueidis ./fakeredis/... ./mon/... ./resp/... ./drv/... 2>/dev/null
for p in props/*/; do
  p=$(basename $p)
  go1.26 test -tags verif -vet=off -c -o ../.bin/$p.test ./props/$p || rc=1
done
exit $rc
