package fakeredis

import (
	"fmt"
	"math"
	"sort"
	"strconv"
	"strings"
	"time"

	"verifh/resp"
)

type entry struct {
	typ      byte // 's' string, 'h' hash, 'l' list, 'S' set, 'z' zset, 'x' stream, 'j' json
	str      []byte
	hash     map[string]string
	horder   []string
	list     []string
	set      map[string]struct{}
	zset     map[string]float64
	stream   []streamEntry
	lastID   [2]int64
	json     any
	expireAt time.Time
	timer    *time.Timer
}

type streamEntry struct {
	id     [2]int64
	fields []string
}

type dbkey struct {
	db  int
	key string
}

type keyspace struct {
	m     map[dbkey]*entry
	vers  map[dbkey]int64
	track map[string]map[*Conn]struct{}
}

func newKeyspace() *keyspace {
	return &keyspace{m: map[dbkey]*entry{}, vers: map[dbkey]int64{}, track: map[string]map[*Conn]struct{}{}}
}

var wrongType = resp.Err("WRONGTYPE Operation against a key holding the wrong kind of value")

func errArity(cmd string) resp.V {
	return resp.Err("ERR wrong number of arguments for '" + strings.ToLower(cmd) + "' command")
}

var errNotInt = resp.Err("ERR value is not an integer or out of range")
var errSyntax = resp.Err("ERR syntax error")

// lookup returns the live entry (expired keys are removed lazily).
func (c *Conn) lookup(key string) *entry {
	ks := c.node.dbs
	k := dbkey{c.db, key}
	e := ks.m[k]
	if e != nil && !e.expireAt.IsZero() && !time.Now().Before(e.expireAt) {
		c.s.expireKey(c.node, k)
		return nil
	}
	return e
}

func (c *Conn) lookupTyped(key string, typ byte) (*entry, bool) {
	e := c.lookup(key)
	if e != nil && e.typ != typ {
		return nil, false
	}
	return e, true
}

// create makes (or returns) an entry of the given type.
func (c *Conn) create(key string, typ byte) (*entry, bool) {
	e := c.lookup(key)
	if e != nil {
		return e, e.typ == typ
	}
	e = &entry{typ: typ}
	switch typ {
	case 'h':
		e.hash = map[string]string{}
	case 'S':
		e.set = map[string]struct{}{}
	case 'z':
		e.zset = map[string]float64{}
	}
	c.node.dbs.m[dbkey{c.db, key}] = e
	return e, true
}

// touched records a modification of key: WATCH versions, invalidations, blocked clients.
func (c *Conn) touched(key string) {
	ks := c.node.dbs
	ks.vers[dbkey{c.db, key}]++
	c.s.invalidate(ks, key, c)
}

func (c *Conn) remove(key string) bool {
	ks := c.node.dbs
	k := dbkey{c.db, key}
	e := ks.m[k]
	if e == nil {
		return false
	}
	c.s.stopTimer(e.timer)
	delete(ks.m, k)
	c.touched(key)
	return true
}

// removeIfEmpty deletes aggregate keys that became empty.
func (c *Conn) removeIfEmpty(key string, e *entry) {
	empty := false
	switch e.typ {
	case 'h':
		empty = len(e.hash) == 0
	case 'l':
		empty = len(e.list) == 0
	case 'S':
		empty = len(e.set) == 0
	case 'z':
		empty = len(e.zset) == 0
	}
	if empty {
		c.s.stopTimer(e.timer)
		delete(c.node.dbs.m, dbkey{c.db, key})
	}
}

func (s *Server) expireKey(n *Node, k dbkey) {
	ks := n.dbs
	e := ks.m[k]
	if e == nil {
		return
	}
	s.stopTimer(e.timer)
	delete(ks.m, k)
	ks.vers[k]++
	s.logEvent(Event{Node: n.Addr, Kind: "expire", Argv: []string{k.key}})
	s.invalidate(ks, k.key, nil)
}

// setExpire sets (or clears, with zero) the expiry and arms the active-expiry timer.
func (c *Conn) setExpire(key string, e *entry, at time.Time) {
	c.s.stopTimer(e.timer)
	e.timer = nil
	e.expireAt = at
	if at.IsZero() {
		return
	}
	k := dbkey{c.db, key}
	n := c.node
	d := time.Until(at)
	if d < 0 {
		d = 0
	}
	e.timer = c.s.afterFunc(d, func() {
		if cur := n.dbs.m[k]; cur == e && !e.expireAt.IsZero() && !time.Now().Before(e.expireAt) {
			c.s.expireKey(n, k)
		}
	})
}

func parseInt(s string) (int64, bool) {
	v, err := strconv.ParseInt(s, 10, 64)
	return v, err == nil
}

func fmtFloat(f float64) string {
	if math.IsInf(f, 1) {
		return "inf"
	}
	if math.IsInf(f, -1) {
		return "-inf"
	}
	return strconv.FormatFloat(f, 'g', 17, 64)
}

func bulkOrNil(s string, ok bool) resp.V {
	if !ok {
		return resp.NullBulk()
	}
	return resp.Bulk(s)
}

// ------------------------------------------------------------------- strings

func cmdGet(c *Conn, a []string) resp.V {
	e, ok := c.lookupTyped(a[1], 's')
	if !ok {
		return wrongType
	}
	if e == nil {
		return resp.NullBulk()
	}
	return resp.Bulk(string(e.str))
}

func cmdSet(c *Conn, a []string) resp.V {
	key, val := a[1], a[2]
	var nx, xx, get, keepttl bool
	var at time.Time
	for i := 3; i < len(a); i++ {
		switch up(a[i]) {
		case "NX":
			nx = true
		case "XX":
			xx = true
		case "GET":
			get = true
		case "KEEPTTL":
			keepttl = true
		case "EX", "PX", "EXAT", "PXAT":
			if i+1 >= len(a) {
				return errSyntax
			}
			n, ok := parseInt(a[i+1])
			if !ok {
				return errNotInt
			}
			opt := up(a[i])
			if n <= 0 && (opt == "EX" || opt == "PX") {
				return resp.Err("ERR invalid expire time in 'set' command")
			}
			switch opt {
			case "EX":
				at = time.Now().Add(time.Duration(n) * time.Second)
			case "PX":
				at = time.Now().Add(time.Duration(n) * time.Millisecond)
			case "EXAT":
				at = time.Unix(n, 0)
			case "PXAT":
				at = time.UnixMilli(n)
			}
			i++
		default:
			return errSyntax
		}
	}
	old := c.lookup(key)
	var prev resp.V = resp.NullBulk()
	if get {
		if old != nil && old.typ != 's' {
			return wrongType
		}
		if old != nil {
			prev = resp.Bulk(string(old.str))
		}
	}
	if (nx && old != nil) || (xx && old == nil) {
		if get {
			return prev
		}
		return resp.NullBulk()
	}
	var keepAt time.Time
	if old != nil {
		keepAt = old.expireAt
		c.s.stopTimer(old.timer)
	}
	e := &entry{typ: 's', str: []byte(val)}
	c.node.dbs.m[dbkey{c.db, key}] = e
	if !at.IsZero() {
		c.setExpire(key, e, at)
	} else if keepttl && !keepAt.IsZero() {
		c.setExpire(key, e, keepAt)
	}
	c.touched(key)
	if get {
		return prev
	}
	return resp.Simple("OK")
}

func cmdSetnx(c *Conn, a []string) resp.V {
	if r := cmdSet(c, []string{"SET", a[1], a[2], "NX"}); r.T == '+' {
		return resp.Int(1)
	}
	return resp.Int(0)
}

func cmdSetex(c *Conn, a []string) resp.V {
	unit := "EX"
	if up(a[0]) == "PSETEX" {
		unit = "PX"
	}
	return cmdSet(c, []string{"SET", a[1], a[3], unit, a[2]})
}

func cmdGetset(c *Conn, a []string) resp.V { return cmdSet(c, []string{"SET", a[1], a[2], "GET"}) }

func cmdGetdel(c *Conn, a []string) resp.V {
	r := cmdGet(c, a)
	if r.T == '$' && !r.Null2 {
		c.remove(a[1])
	}
	return r
}

func cmdMget(c *Conn, a []string) resp.V {
	out := make([]resp.V, 0, len(a)-1)
	for _, k := range a[1:] {
		e := c.lookup(k)
		if e == nil || e.typ != 's' {
			out = append(out, resp.NullBulk())
		} else {
			out = append(out, resp.Bulk(string(e.str)))
		}
	}
	return resp.Arr(out...)
}

func cmdMset(c *Conn, a []string) resp.V {
	if len(a)%2 != 1 {
		return errArity(a[0])
	}
	if up(a[0]) == "MSETNX" {
		for i := 1; i < len(a); i += 2 {
			if c.lookup(a[i]) != nil {
				return resp.Int(0)
			}
		}
	}
	for i := 1; i < len(a); i += 2 {
		cmdSet(c, []string{"SET", a[i], a[i+1]})
	}
	if up(a[0]) == "MSETNX" {
		return resp.Int(1)
	}
	return resp.Simple("OK")
}

func cmdAppend(c *Conn, a []string) resp.V {
	e, ok := c.create(a[1], 's')
	if !ok {
		return wrongType
	}
	e.str = append(e.str, a[2]...)
	c.touched(a[1])
	return resp.Int(int64(len(e.str)))
}

func cmdStrlen(c *Conn, a []string) resp.V {
	e, ok := c.lookupTyped(a[1], 's')
	if !ok {
		return wrongType
	}
	if e == nil {
		return resp.Int(0)
	}
	return resp.Int(int64(len(e.str)))
}

func cmdIncr(c *Conn, a []string) resp.V {
	var delta int64 = 1
	switch up(a[0]) {
	case "DECR":
		delta = -1
	case "INCRBY", "DECRBY":
		if len(a) < 3 {
			return errArity(a[0])
		}
		d, ok := parseInt(a[2])
		if !ok {
			return errNotInt
		}
		delta = d
		if up(a[0]) == "DECRBY" {
			delta = -d
		}
	}
	e, ok := c.create(a[1], 's')
	if !ok {
		return wrongType
	}
	var cur int64
	if len(e.str) > 0 {
		v, ok := parseInt(string(e.str))
		if !ok {
			return errNotInt
		}
		cur = v
	}
	if (delta > 0 && cur > math.MaxInt64-delta) || (delta < 0 && cur < math.MinInt64-delta) {
		return resp.Err("ERR increment or decrement would overflow")
	}
	cur += delta
	e.str = []byte(strconv.FormatInt(cur, 10))
	c.touched(a[1])
	return resp.Int(cur)
}

func cmdIncrbyfloat(c *Conn, a []string) resp.V {
	d, err := strconv.ParseFloat(a[2], 64)
	if err != nil {
		return resp.Err("ERR value is not a valid float")
	}
	e, ok := c.create(a[1], 's')
	if !ok {
		return wrongType
	}
	var cur float64
	if len(e.str) > 0 {
		if cur, err = strconv.ParseFloat(string(e.str), 64); err != nil {
			return resp.Err("ERR value is not a valid float")
		}
	}
	cur += d
	e.str = []byte(fmtFloat(cur))
	c.touched(a[1])
	return resp.Bulk(string(e.str))
}

func cmdGetrange(c *Conn, a []string) resp.V {
	e, ok := c.lookupTyped(a[1], 's')
	if !ok {
		return wrongType
	}
	st, ok1 := parseInt(a[2])
	en, ok2 := parseInt(a[3])
	if !ok1 || !ok2 {
		return errNotInt
	}
	if e == nil {
		return resp.Bulk("")
	}
	n := int64(len(e.str))
	if st < 0 {
		st += n
	}
	if en < 0 {
		en += n
	}
	if st < 0 {
		st = 0
	}
	if en >= n {
		en = n - 1
	}
	if st > en || n == 0 {
		return resp.Bulk("")
	}
	return resp.Bulk(string(e.str[st : en+1]))
}

func (e *entry) growBits(byteLen int) {
	for len(e.str) < byteLen {
		e.str = append(e.str, make([]byte, byteLen-len(e.str))...)
	}
}

func cmdSetbit(c *Conn, a []string) resp.V {
	off, ok := parseInt(a[2])
	if !ok || off < 0 || off >= 1<<32 {
		return resp.Err("ERR bit offset is not an integer or out of range")
	}
	if a[3] != "0" && a[3] != "1" {
		return resp.Err("ERR bit is not an integer or out of range")
	}
	e, ok := c.create(a[1], 's')
	if !ok {
		return wrongType
	}
	e.growBits(int(off/8) + 1)
	mask := byte(1) << (7 - uint(off%8))
	old := int64(0)
	if e.str[off/8]&mask != 0 {
		old = 1
	}
	if a[3] == "1" {
		e.str[off/8] |= mask
	} else {
		e.str[off/8] &^= mask
	}
	c.touched(a[1])
	return resp.Int(old)
}

func getBit(e *entry, off int64) int64 {
	if e == nil || off/8 >= int64(len(e.str)) {
		return 0
	}
	if e.str[off/8]&(byte(1)<<(7-uint(off%8))) != 0 {
		return 1
	}
	return 0
}

func cmdGetbit(c *Conn, a []string) resp.V {
	off, ok := parseInt(a[2])
	if !ok || off < 0 {
		return resp.Err("ERR bit offset is not an integer or out of range")
	}
	e, ok := c.lookupTyped(a[1], 's')
	if !ok {
		return wrongType
	}
	return resp.Int(getBit(e, off))
}

func cmdBitcount(c *Conn, a []string) resp.V {
	e, ok := c.lookupTyped(a[1], 's')
	if !ok {
		return wrongType
	}
	if e == nil {
		return resp.Int(0)
	}
	n := int64(0)
	for _, b := range e.str {
		for ; b != 0; b &= b - 1 {
			n++
		}
	}
	return resp.Int(n)
}

// cmdBitfield supports GET/SET/INCRBY of unsigned/signed fields up to 63 bits, with # offsets.
func cmdBitfield(c *Conn, a []string) resp.V {
	ro := up(a[0]) == "BITFIELD_RO"
	var out []resp.V
	var e *entry
	if ee, ok := c.lookupTyped(a[1], 's'); !ok {
		return wrongType
	} else {
		e = ee
	}
	dirty := false
	parseType := func(s string) (signed bool, bits int, ok bool) {
		if len(s) < 2 {
			return
		}
		n, err := strconv.Atoi(s[1:])
		if err != nil || n < 1 || n > 64 {
			return
		}
		switch s[0] {
		case 'u', 'U':
			return false, n, n <= 63
		case 'i', 'I':
			return true, n, true
		}
		return
	}
	parseOff := func(s string, bits int) (int64, bool) {
		mul := int64(1)
		if strings.HasPrefix(s, "#") {
			mul = int64(bits)
			s = s[1:]
		}
		v, ok := parseInt(s)
		if !ok || v < 0 {
			return 0, false
		}
		return v * mul, true
	}
	get := func(off int64, bits int, signed bool) int64 {
		var v uint64
		for i := 0; i < bits; i++ {
			v = v<<1 | uint64(getBit(e, off+int64(i)))
		}
		if signed && bits < 64 && v&(1<<(uint(bits)-1)) != 0 {
			return int64(v) - (1 << uint(bits))
		}
		return int64(v)
	}
	set := func(off int64, bits int, val int64) {
		if e == nil {
			e, _ = c.create(a[1], 's')
		}
		e.growBits(int((off+int64(bits)-1)/8) + 1)
		for i := 0; i < bits; i++ {
			bit := (uint64(val) >> uint(bits-1-i)) & 1
			p := off + int64(i)
			mask := byte(1) << (7 - uint(p%8))
			if bit == 1 {
				e.str[p/8] |= mask
			} else {
				e.str[p/8] &^= mask
			}
		}
		dirty = true
	}
	for i := 2; i < len(a); {
		switch up(a[i]) {
		case "GET":
			if i+2 >= len(a) {
				return errSyntax
			}
			sg, bits, ok := parseType(a[i+1])
			off, ok2 := parseOff(a[i+2], bits)
			if !ok || !ok2 {
				return resp.Err("ERR Invalid bitfield type. Use something like i16 u8. Note that u64 is not supported but i64 is.")
			}
			out = append(out, resp.Int(get(off, bits, sg)))
			i += 3
		case "SET", "INCRBY":
			if ro {
				return resp.Err("ERR BITFIELD_RO only supports the GET subcommand")
			}
			if i+3 >= len(a) {
				return errSyntax
			}
			sg, bits, ok := parseType(a[i+1])
			off, ok2 := parseOff(a[i+2], bits)
			val, ok3 := parseInt(a[i+3])
			if !ok || !ok2 || !ok3 {
				return resp.Err("ERR Invalid bitfield type. Use something like i16 u8. Note that u64 is not supported but i64 is.")
			}
			old := get(off, bits, sg)
			if up(a[i]) == "SET" {
				set(off, bits, val)
				out = append(out, resp.Int(old))
			} else {
				nv := old + val
				if bits < 64 {
					nv &= (1 << uint(bits)) - 1
				}
				set(off, bits, nv)
				out = append(out, resp.Int(get(off, bits, sg)))
			}
			i += 4
		case "OVERFLOW":
			i += 2
		default:
			return errSyntax
		}
	}
	if dirty {
		c.touched(a[1])
	}
	return resp.Arr(out...)
}

// ---------------------------------------------------------------------- keys

func cmdDel(c *Conn, a []string) resp.V {
	n := int64(0)
	for _, k := range a[1:] {
		if c.lookup(k) != nil && c.remove(k) {
			n++
		}
	}
	return resp.Int(n)
}

func cmdExists(c *Conn, a []string) resp.V {
	n := int64(0)
	for _, k := range a[1:] {
		if c.lookup(k) != nil {
			n++
		}
	}
	return resp.Int(n)
}

func cmdExpire(c *Conn, a []string) resp.V {
	n, ok := parseInt(a[2])
	if !ok {
		return errNotInt
	}
	e := c.lookup(a[1])
	if e == nil {
		return resp.Int(0)
	}
	var at time.Time
	switch up(a[0]) {
	case "EXPIRE":
		at = time.Now().Add(time.Duration(n) * time.Second)
	case "PEXPIRE":
		at = time.Now().Add(time.Duration(n) * time.Millisecond)
	case "EXPIREAT":
		at = time.Unix(n, 0)
	case "PEXPIREAT":
		at = time.UnixMilli(n)
	}
	if !at.After(time.Now()) {
		c.remove(a[1])
		return resp.Int(1)
	}
	c.setExpire(a[1], e, at)
	c.node.dbs.vers[dbkey{c.db, a[1]}]++
	return resp.Int(1)
}

func cmdTTL(c *Conn, a []string) resp.V {
	e := c.lookup(a[1])
	if e == nil {
		return resp.Int(-2)
	}
	if e.expireAt.IsZero() {
		return resp.Int(-1)
	}
	switch up(a[0]) {
	case "PEXPIRETIME":
		return resp.Int(e.expireAt.UnixMilli())
	case "EXPIRETIME":
		return resp.Int(e.expireAt.Unix())
	}
	ms := e.expireAt.Sub(time.Now()).Milliseconds()
	if ms < 0 {
		ms = 0
	}
	if up(a[0]) == "TTL" {
		return resp.Int((ms + 500) / 1000)
	}
	return resp.Int(ms)
}

func cmdPersist(c *Conn, a []string) resp.V {
	e := c.lookup(a[1])
	if e == nil || e.expireAt.IsZero() {
		return resp.Int(0)
	}
	c.setExpire(a[1], e, time.Time{})
	return resp.Int(1)
}

func cmdType(c *Conn, a []string) resp.V {
	e := c.lookup(a[1])
	if e == nil {
		return resp.Simple("none")
	}
	return resp.Simple(map[byte]string{'s': "string", 'h': "hash", 'l': "list", 'S': "set", 'z': "zset", 'x': "stream", 'j': "ReJSON-RL"}[e.typ])
}

func cmdRename(c *Conn, a []string) resp.V {
	e := c.lookup(a[1])
	if e == nil {
		return resp.Err("ERR no such key")
	}
	if a[1] == a[2] {
		return resp.Simple("OK")
	}
	ks := c.node.dbs
	if old := ks.m[dbkey{c.db, a[2]}]; old != nil {
		c.s.stopTimer(old.timer)
	}
	at := e.expireAt
	c.s.stopTimer(e.timer)
	e.timer = nil
	delete(ks.m, dbkey{c.db, a[1]})
	ks.m[dbkey{c.db, a[2]}] = e
	if !at.IsZero() {
		c.setExpire(a[2], e, at)
	}
	c.touched(a[1])
	c.touched(a[2])
	return resp.Simple("OK")
}

func (c *Conn) allKeys() []string {
	var ks []string
	for k, e := range c.node.dbs.m {
		if k.db == c.db && (e.expireAt.IsZero() || time.Now().Before(e.expireAt)) {
			ks = append(ks, k.key)
		}
	}
	sort.Strings(ks)
	return ks
}

func cmdKeys(c *Conn, a []string) resp.V {
	var out []string
	for _, k := range c.allKeys() {
		if globMatch(a[1], k) {
			out = append(out, k)
		}
	}
	return resp.Strs(out...)
}

// scanPage pages through items with a numeric cursor (= index); COUNT and MATCH supported.
func scanPage(items []string, a []string, optStart int, stride int) (string, []string, resp.V) {
	cur, ok := parseInt(a[optStart-1])
	if !ok || cur < 0 {
		return "", nil, resp.Err("ERR invalid cursor")
	}
	count, match := int64(10), ""
	for i := optStart; i+1 < len(a); i += 2 {
		switch up(a[i]) {
		case "COUNT":
			count, _ = parseInt(a[i+1])
		case "MATCH":
			match = a[i+1]
		}
	}
	if count < 1 {
		count = 10
	}
	n := int64(len(items) / stride)
	var out []string
	i := cur
	for ; i < n && i < cur+count; i++ {
		if match == "" || globMatch(match, items[i*int64(stride)]) {
			out = append(out, items[i*int64(stride):(i+1)*int64(stride)]...)
		}
	}
	next := "0"
	if i < n {
		next = strconv.FormatInt(i, 10)
	}
	return next, out, resp.V{}
}

func cmdScan(c *Conn, a []string) resp.V {
	next, out, e := scanPage(c.allKeys(), a, 2, 1)
	if e.T != 0 {
		return e
	}
	return resp.Arr(resp.Bulk(next), resp.Strs(out...))
}

func globMatch(p, s string) bool {
	if p == "*" {
		return true
	}
	// minimal glob: * ? and literal
	var rec func(pi, si int) bool
	rec = func(pi, si int) bool {
		for pi < len(p) {
			switch p[pi] {
			case '*':
				for k := si; k <= len(s); k++ {
					if rec(pi+1, k) {
						return true
					}
				}
				return false
			case '?':
				if si >= len(s) {
					return false
				}
			case '\\':
				pi++
				if pi >= len(p) || si >= len(s) || p[pi] != s[si] {
					return false
				}
			default:
				if si >= len(s) || p[pi] != s[si] {
					return false
				}
			}
			pi++
			si++
		}
		return si == len(s)
	}
	return rec(0, 0)
}

func cmdFlush(c *Conn, a []string) resp.V {
	ks := c.node.dbs
	for k, e := range ks.m {
		if up(a[0]) == "FLUSHALL" || k.db == c.db {
			c.s.stopTimer(e.timer)
			delete(ks.m, k)
			ks.vers[k]++
		}
	}
	c.s.invalidateAll(ks, c)
	return resp.Simple("OK")
}

func cmdDbsize(c *Conn, a []string) resp.V { return resp.Int(int64(len(c.allKeys()))) }

// -------------------------------------------------------------------- hashes

func cmdHset(c *Conn, a []string) resp.V {
	if len(a) < 4 || len(a)%2 != 0 {
		return errArity(a[0])
	}
	e, ok := c.create(a[1], 'h')
	if !ok {
		return wrongType
	}
	n := int64(0)
	for i := 2; i < len(a); i += 2 {
		if _, had := e.hash[a[i]]; !had {
			e.horder = append(e.horder, a[i])
			n++
		}
		e.hash[a[i]] = a[i+1]
	}
	c.touched(a[1])
	if up(a[0]) == "HMSET" {
		return resp.Simple("OK")
	}
	return resp.Int(n)
}

func cmdHsetnx(c *Conn, a []string) resp.V {
	e, ok := c.create(a[1], 'h')
	if !ok {
		return wrongType
	}
	if _, had := e.hash[a[2]]; had {
		return resp.Int(0)
	}
	e.hash[a[2]] = a[3]
	e.horder = append(e.horder, a[2])
	c.touched(a[1])
	return resp.Int(1)
}

func cmdHget(c *Conn, a []string) resp.V {
	e, ok := c.lookupTyped(a[1], 'h')
	if !ok {
		return wrongType
	}
	if e == nil {
		return resp.NullBulk()
	}
	v, had := e.hash[a[2]]
	return bulkOrNil(v, had)
}

func cmdHmget(c *Conn, a []string) resp.V {
	e, ok := c.lookupTyped(a[1], 'h')
	if !ok {
		return wrongType
	}
	out := make([]resp.V, 0, len(a)-2)
	for _, f := range a[2:] {
		if e == nil {
			out = append(out, resp.NullBulk())
			continue
		}
		v, had := e.hash[f]
		out = append(out, bulkOrNil(v, had))
	}
	return resp.Arr(out...)
}

func cmdHgetall(c *Conn, a []string) resp.V {
	e, ok := c.lookupTyped(a[1], 'h')
	if !ok {
		return wrongType
	}
	var out []resp.V
	if e != nil {
		for _, f := range e.horder {
			switch up(a[0]) {
			case "HKEYS":
				out = append(out, resp.Bulk(f))
			case "HVALS":
				out = append(out, resp.Bulk(e.hash[f]))
			default:
				out = append(out, resp.Bulk(f), resp.Bulk(e.hash[f]))
			}
		}
	}
	if up(a[0]) == "HGETALL" {
		return resp.Map(out...)
	}
	return resp.Arr(out...)
}

func cmdHdel(c *Conn, a []string) resp.V {
	e, ok := c.lookupTyped(a[1], 'h')
	if !ok {
		return wrongType
	}
	if e == nil {
		return resp.Int(0)
	}
	n := int64(0)
	for _, f := range a[2:] {
		if _, had := e.hash[f]; had {
			delete(e.hash, f)
			for i, o := range e.horder {
				if o == f {
					e.horder = append(e.horder[:i], e.horder[i+1:]...)
					break
				}
			}
			n++
		}
	}
	if n > 0 {
		c.removeIfEmpty(a[1], e)
		c.touched(a[1])
	}
	return resp.Int(n)
}

func cmdHexists(c *Conn, a []string) resp.V {
	e, ok := c.lookupTyped(a[1], 'h')
	if !ok {
		return wrongType
	}
	if e != nil {
		if _, had := e.hash[a[2]]; had {
			return resp.Int(1)
		}
	}
	return resp.Int(0)
}

func cmdHlen(c *Conn, a []string) resp.V {
	e, ok := c.lookupTyped(a[1], 'h')
	if !ok {
		return wrongType
	}
	if e == nil {
		return resp.Int(0)
	}
	return resp.Int(int64(len(e.hash)))
}

func cmdHincrby(c *Conn, a []string) resp.V {
	d, ok := parseInt(a[3])
	if !ok {
		return errNotInt
	}
	e, okt := c.create(a[1], 'h')
	if !okt {
		return wrongType
	}
	cur := int64(0)
	if v, had := e.hash[a[2]]; had {
		if cur, ok = parseInt(v); !ok {
			return resp.Err("ERR hash value is not an integer")
		}
	} else {
		e.horder = append(e.horder, a[2])
	}
	cur += d
	e.hash[a[2]] = strconv.FormatInt(cur, 10)
	c.touched(a[1])
	return resp.Int(cur)
}

func cmdHscan(c *Conn, a []string) resp.V {
	e, ok := c.lookupTyped(a[1], 'h')
	if !ok {
		return wrongType
	}
	var items []string
	if e != nil {
		for _, f := range e.horder {
			items = append(items, f, e.hash[f])
		}
	}
	next, out, er := scanPage(items, a, 3, 2)
	if er.T != 0 {
		return er
	}
	return resp.Arr(resp.Bulk(next), resp.Strs(out...))
}

// --------------------------------------------------------------------- lists

func cmdPush(c *Conn, a []string) resp.V {
	if len(a) < 3 {
		return errArity(a[0])
	}
	e, ok := c.create(a[1], 'l')
	if !ok {
		return wrongType
	}
	for _, v := range a[2:] {
		if up(a[0]) == "LPUSH" {
			e.list = append([]string{v}, e.list...)
		} else {
			e.list = append(e.list, v)
		}
	}
	n := int64(len(e.list))
	c.touched(a[1])
	c.s.serveBlocked(c.node, c.db, a[1])
	return resp.Int(n)
}

func (c *Conn) popOne(key string, left bool) (string, bool) {
	e, ok := c.lookupTyped(key, 'l')
	if !ok || e == nil || len(e.list) == 0 {
		return "", false
	}
	var v string
	if left {
		v, e.list = e.list[0], e.list[1:]
	} else {
		v, e.list = e.list[len(e.list)-1], e.list[:len(e.list)-1]
	}
	c.removeIfEmpty(key, e)
	c.touched(key)
	return v, true
}

func cmdPop(c *Conn, a []string) resp.V {
	if _, ok := c.lookupTyped(a[1], 'l'); !ok {
		return wrongType
	}
	left := up(a[0]) == "LPOP"
	if len(a) >= 3 {
		n, ok := parseInt(a[2])
		if !ok || n < 0 {
			return resp.Err("ERR value is out of range, must be positive")
		}
		var out []string
		for i := int64(0); i < n; i++ {
			v, ok := c.popOne(a[1], left)
			if !ok {
				break
			}
			out = append(out, v)
		}
		if out == nil {
			return resp.NullArr()
		}
		return resp.Strs(out...)
	}
	v, ok := c.popOne(a[1], left)
	return bulkOrNil(v, ok)
}

func cmdLrange(c *Conn, a []string) resp.V {
	e, ok := c.lookupTyped(a[1], 'l')
	if !ok {
		return wrongType
	}
	st, ok1 := parseInt(a[2])
	en, ok2 := parseInt(a[3])
	if !ok1 || !ok2 {
		return errNotInt
	}
	if e == nil {
		return resp.Arr()
	}
	n := int64(len(e.list))
	if st < 0 {
		st += n
	}
	if en < 0 {
		en += n
	}
	if st < 0 {
		st = 0
	}
	if en >= n {
		en = n - 1
	}
	if st > en {
		return resp.Arr()
	}
	return resp.Strs(e.list[st : en+1]...)
}

func cmdLlen(c *Conn, a []string) resp.V {
	e, ok := c.lookupTyped(a[1], 'l')
	if !ok {
		return wrongType
	}
	if e == nil {
		return resp.Int(0)
	}
	return resp.Int(int64(len(e.list)))
}

func cmdLindex(c *Conn, a []string) resp.V {
	e, ok := c.lookupTyped(a[1], 'l')
	if !ok {
		return wrongType
	}
	i, oki := parseInt(a[2])
	if !oki {
		return errNotInt
	}
	if e == nil {
		return resp.NullBulk()
	}
	if i < 0 {
		i += int64(len(e.list))
	}
	if i < 0 || i >= int64(len(e.list)) {
		return resp.NullBulk()
	}
	return resp.Bulk(e.list[i])
}

// ---------------------------------------------------------------------- sets

func cmdSadd(c *Conn, a []string) resp.V {
	e, ok := c.create(a[1], 'S')
	if !ok {
		return wrongType
	}
	n := int64(0)
	for _, m := range a[2:] {
		if _, had := e.set[m]; !had {
			e.set[m] = struct{}{}
			n++
		}
	}
	c.touched(a[1])
	return resp.Int(n)
}

func cmdSrem(c *Conn, a []string) resp.V {
	e, ok := c.lookupTyped(a[1], 'S')
	if !ok {
		return wrongType
	}
	if e == nil {
		return resp.Int(0)
	}
	n := int64(0)
	for _, m := range a[2:] {
		if _, had := e.set[m]; had {
			delete(e.set, m)
			n++
		}
	}
	if n > 0 {
		c.removeIfEmpty(a[1], e)
		c.touched(a[1])
	}
	return resp.Int(n)
}

func sortedSet(e *entry) []string {
	var out []string
	if e != nil {
		for m := range e.set {
			out = append(out, m)
		}
	}
	sort.Strings(out)
	return out
}

func cmdSmembers(c *Conn, a []string) resp.V {
	e, ok := c.lookupTyped(a[1], 'S')
	if !ok {
		return wrongType
	}
	v := resp.Strs(sortedSet(e)...)
	v.T = '~'
	return v
}

func cmdSismember(c *Conn, a []string) resp.V {
	e, ok := c.lookupTyped(a[1], 'S')
	if !ok {
		return wrongType
	}
	if e != nil {
		if _, had := e.set[a[2]]; had {
			return resp.Int(1)
		}
	}
	return resp.Int(0)
}

func cmdScard(c *Conn, a []string) resp.V {
	e, ok := c.lookupTyped(a[1], 'S')
	if !ok {
		return wrongType
	}
	if e == nil {
		return resp.Int(0)
	}
	return resp.Int(int64(len(e.set)))
}

// ----------------------------------------------------------------- sorted sets

func cmdZadd(c *Conn, a []string) resp.V {
	if len(a) < 4 || len(a)%2 != 0 {
		return errArity(a[0])
	}
	e, ok := c.create(a[1], 'z')
	if !ok {
		return wrongType
	}
	n := int64(0)
	for i := 2; i < len(a); i += 2 {
		sc, err := strconv.ParseFloat(a[i], 64)
		if err != nil {
			return resp.Err("ERR value is not a valid float")
		}
		if _, had := e.zset[a[i+1]]; !had {
			n++
		}
		e.zset[a[i+1]] = sc
	}
	c.touched(a[1])
	return resp.Int(n)
}

type zpair struct {
	m string
	s float64
}

func sortedZ(e *entry) []zpair {
	var out []zpair
	if e != nil {
		for m, s := range e.zset {
			out = append(out, zpair{m, s})
		}
	}
	sort.Slice(out, func(i, j int) bool {
		if out[i].s != out[j].s {
			return out[i].s < out[j].s
		}
		return out[i].m < out[j].m
	})
	return out
}

func cmdZrange(c *Conn, a []string) resp.V {
	e, ok := c.lookupTyped(a[1], 'z')
	if !ok {
		return wrongType
	}
	st, ok1 := parseInt(a[2])
	en, ok2 := parseInt(a[3])
	if !ok1 || !ok2 {
		return errNotInt
	}
	withScores := false
	for _, o := range a[4:] {
		if up(o) == "WITHSCORES" {
			withScores = true
		}
	}
	zs := sortedZ(e)
	n := int64(len(zs))
	if st < 0 {
		st += n
	}
	if en < 0 {
		en += n
	}
	if st < 0 {
		st = 0
	}
	if en >= n {
		en = n - 1
	}
	var out []resp.V
	for i := st; i <= en && i < n; i++ {
		if !withScores {
			out = append(out, resp.Bulk(zs[i].m))
		} else if c.proto >= 3 {
			out = append(out, resp.Arr(resp.Bulk(zs[i].m), resp.Double(fmtFloat(zs[i].s))))
		} else {
			out = append(out, resp.Bulk(zs[i].m), resp.Bulk(fmtFloat(zs[i].s)))
		}
	}
	return resp.Arr(out...)
}

func cmdZscore(c *Conn, a []string) resp.V {
	e, ok := c.lookupTyped(a[1], 'z')
	if !ok {
		return wrongType
	}
	if e != nil {
		if s, had := e.zset[a[2]]; had {
			return resp.Double(fmtFloat(s))
		}
	}
	return resp.NullBulk()
}

func cmdZrem(c *Conn, a []string) resp.V {
	e, ok := c.lookupTyped(a[1], 'z')
	if !ok {
		return wrongType
	}
	if e == nil {
		return resp.Int(0)
	}
	n := int64(0)
	for _, m := range a[2:] {
		if _, had := e.zset[m]; had {
			delete(e.zset, m)
			n++
		}
	}
	if n > 0 {
		c.removeIfEmpty(a[1], e)
		c.touched(a[1])
	}
	return resp.Int(n)
}

func cmdZcard(c *Conn, a []string) resp.V {
	e, ok := c.lookupTyped(a[1], 'z')
	if !ok {
		return wrongType
	}
	if e == nil {
		return resp.Int(0)
	}
	return resp.Int(int64(len(e.zset)))
}

// -------------------------------------------------------------------- streams

func cmdXadd(c *Conn, a []string) resp.V {
	if len(a) < 5 || (len(a)-3)%2 != 0 {
		return errArity(a[0])
	}
	e, ok := c.create(a[1], 'x')
	if !ok {
		return wrongType
	}
	var id [2]int64
	if a[2] == "*" {
		id[0] = time.Now().UnixMilli()
		if id[0] <= e.lastID[0] {
			id = [2]int64{e.lastID[0], e.lastID[1] + 1}
		}
	} else {
		p := strings.SplitN(a[2], "-", 2)
		id[0], _ = parseInt(p[0])
		if len(p) > 1 {
			id[1], _ = parseInt(p[1])
		}
		if id[0] < e.lastID[0] || (id[0] == e.lastID[0] && id[1] <= e.lastID[1]) {
			return resp.Err("ERR The ID specified in XADD is equal or smaller than the target stream top item")
		}
	}
	e.lastID = id
	e.stream = append(e.stream, streamEntry{id: id, fields: append([]string{}, a[3:]...)})
	c.touched(a[1])
	c.s.serveBlocked(c.node, c.db, a[1])
	return resp.Bulk(fmt.Sprintf("%d-%d", id[0], id[1]))
}

func streamEntryV(se streamEntry) resp.V {
	return resp.Arr(resp.Bulk(fmt.Sprintf("%d-%d", se.id[0], se.id[1])), resp.Strs(se.fields...))
}

func parseStreamID(s string, def int64) [2]int64 {
	switch s {
	case "-":
		return [2]int64{0, 0}
	case "+":
		return [2]int64{math.MaxInt64, math.MaxInt64}
	}
	p := strings.SplitN(s, "-", 2)
	var id [2]int64
	id[0], _ = parseInt(p[0])
	id[1] = def
	if len(p) > 1 {
		id[1], _ = parseInt(p[1])
	}
	return id
}

func idLess(a, b [2]int64) bool { return a[0] < b[0] || (a[0] == b[0] && a[1] < b[1]) }

func cmdXrange(c *Conn, a []string) resp.V {
	e, ok := c.lookupTyped(a[1], 'x')
	if !ok {
		return wrongType
	}
	lo, hi := parseStreamID(a[2], 0), parseStreamID(a[3], math.MaxInt64)
	var out []resp.V
	if e != nil {
		for _, se := range e.stream {
			if !idLess(se.id, lo) && !idLess(hi, se.id) {
				out = append(out, streamEntryV(se))
			}
		}
	}
	return resp.Arr(out...)
}

func cmdXlen(c *Conn, a []string) resp.V {
	e, ok := c.lookupTyped(a[1], 'x')
	if !ok {
		return wrongType
	}
	if e == nil {
		return resp.Int(0)
	}
	return resp.Int(int64(len(e.stream)))
}
