package fakeredis

import (
	"bytes"
	"encoding/json"
	"fmt"
	"sort"
	"strconv"
	"strings"

	"verifh/resp"
)

// ------------------------------------------------------------------- cluster

type clusterState struct {
	owner     [16384]*Node
	migrating map[int]*Node // slot -> target; applies on the slot's owner
	importing map[int]*Node // slot -> importing node (the target)
	Down      bool
}

// Slot is the fake server's own CRC16-XMODEM hash slot (bitwise implementation).
func Slot(key string) int {
	if i := strings.IndexByte(key, '{'); i >= 0 {
		if j := strings.IndexByte(key[i+1:], '}'); j > 0 {
			key = key[i+1 : i+1+j]
		}
	}
	crc := uint16(0)
	for _, b := range []byte(key) {
		crc ^= uint16(b) << 8
		for i := 0; i < 8; i++ {
			if crc&0x8000 != 0 {
				crc = crc<<1 ^ 0x1021
			} else {
				crc <<= 1
			}
		}
	}
	return int(crc & 16383)
}

// EnableCluster turns the server into a cluster and spreads all slots evenly over the current primaries.
func (s *Server) EnableCluster() {
	s.mu.Lock()
	defer s.mu.Unlock()
	s.cluster = &clusterState{migrating: map[int]*Node{}, importing: map[int]*Node{}}
	var prim []*Node
	for _, a := range s.order {
		if n := s.nodes[a]; n.Role == "master" {
			prim = append(prim, n)
		}
	}
	for i := 0; i < 16384; i++ {
		s.cluster.owner[i] = prim[i*len(prim)/16384]
	}
}

// SetSlotOwner assigns slots [from,to] to the node at addr (nil addr "" leaves the range unassigned).
func (s *Server) SetSlotOwner(from, to int, addr string) {
	s.mu.Lock()
	defer s.mu.Unlock()
	for i := from; i <= to; i++ {
		s.cluster.owner[i] = s.nodes[addr]
		delete(s.cluster.migrating, i)
		delete(s.cluster.importing, i)
	}
}

// SlotOwner returns the address of the primary owning slot.
func (s *Server) SlotOwner(slot int) string {
	s.mu.Lock()
	defer s.mu.Unlock()
	if n := s.cluster.owner[slot]; n != nil {
		return n.Addr
	}
	return ""
}

// Migrate marks a slot MIGRATING on its owner and IMPORTING on target.
func (s *Server) Migrate(slot int, target string) {
	s.mu.Lock()
	defer s.mu.Unlock()
	s.cluster.migrating[slot] = s.nodes[target]
	s.cluster.importing[slot] = s.nodes[target]
}

// MoveKey moves one key's data from the slot owner to the migration target (as MIGRATE does).
func (s *Server) MoveKey(key string) {
	s.mu.Lock()
	defer s.mu.Unlock()
	slot := Slot(key)
	src, dst := s.cluster.owner[slot], s.cluster.migrating[slot]
	if src == nil || dst == nil {
		return
	}
	k := dbkey{0, key}
	if e := src.dbs.m[k]; e != nil {
		delete(src.dbs.m, k)
		dst.dbs.m[k] = e
	}
}

// FinishMigration hands the slot to the target, moving the remaining keys.
func (s *Server) FinishMigration(slot int) {
	s.mu.Lock()
	defer s.mu.Unlock()
	src, dst := s.cluster.owner[slot], s.cluster.migrating[slot]
	if dst == nil {
		return
	}
	for k, e := range src.dbs.m {
		if Slot(k.key) == slot {
			delete(src.dbs.m, k)
			dst.dbs.m[k] = e
		}
	}
	s.cluster.owner[slot] = dst
	delete(s.cluster.migrating, slot)
	delete(s.cluster.importing, slot)
}

// SetClusterDown makes every keyed command answer CLUSTERDOWN.
func (s *Server) SetClusterDown(down bool) { s.mu.Lock(); s.cluster.Down = down; s.mu.Unlock() }

// Promote makes a replica the primary of its shard (fail-over): roles swap, slots follow.
func (s *Server) Promote(replicaAddr string) {
	s.mu.Lock()
	defer s.mu.Unlock()
	r := s.nodes[replicaAddr]
	old := r.primary
	if old == nil {
		return
	}
	r.Role, r.primary = "master", nil
	old.Role, old.primary = "slave", r
	for _, n := range s.nodes {
		if n.primary == old {
			n.primary = r
		}
	}
	if s.cluster != nil {
		for i := range s.cluster.owner {
			if s.cluster.owner[i] == old {
				s.cluster.owner[i] = r
			}
		}
	}
}

func (s *Server) clusterCheck(c *Conn, name string, def *cmdDef, a []string) (resp.V, bool) {
	cs := s.cluster
	if def.keys == nil {
		return resp.V{}, true
	}
	keys := def.keys(a)
	if len(keys) == 0 {
		return resp.V{}, true
	}
	slot := Slot(keys[0])
	for _, k := range keys[1:] {
		if Slot(k) != slot {
			return resp.Err("CROSSSLOT Keys in request don't hash to the same slot"), false
		}
	}
	if cs.Down {
		return resp.Err("CLUSTERDOWN The cluster is down"), false
	}
	owner := cs.owner[slot]
	if owner == nil {
		return resp.Err("CLUSTERDOWN Hash slot not served"), false
	}
	n := c.node
	missing, present := 0, 0
	countKeys := func(node *Node) {
		missing, present = 0, 0
		for _, k := range keys {
			if node.dbs.m[dbkey{0, k}] == nil {
				missing++
			} else {
				present++
			}
		}
	}
	if owner == n {
		if tgt := cs.migrating[slot]; tgt != nil {
			countKeys(n)
			if missing > 0 {
				if present > 0 {
					return resp.Err("TRYAGAIN Multiple keys request during rehashing of slot"), false
				}
				return errReply("ASK %d %s", slot, tgt.Addr), false
			}
		}
		return resp.V{}, true
	}
	if cs.importing[slot] == n && (c.asking || (c.scriptFor != nil && c.scriptFor.asking)) {
		countKeys(n)
		if len(keys) > 1 && missing > 0 {
			return resp.Err("TRYAGAIN Multiple keys request during rehashing of slot"), false
		}
		return resp.V{}, true
	}
	if n.primary == owner && c.readonly && !def.write {
		return resp.V{}, true
	}
	return errReply("MOVED %d %s", slot, owner.Addr), false
}

// NodeView customises how a node is announced in CLUSTER SLOTS / SHARDS.
type NodeView struct {
	Endpoint *string // nil = the node's IP; "" and "?" are the special forms
	Health   string  // "" = online
	TLSPort  int64
	Hidden   bool // not listed at all
}

func (n *Node) view() NodeView {
	if n.View != nil {
		return *n.View
	}
	return NodeView{}
}

func nodeID(n *Node) string { return fmt.Sprintf("%040x", n.idx+1) }

// shardList returns primaries in address order with their contiguous slot ranges and replicas.
func (s *Server) shardList() (prims []*Node, ranges map[*Node][][2]int, reps map[*Node][]*Node) {
	ranges = map[*Node][][2]int{}
	reps = map[*Node][]*Node{}
	start := 0
	for i := 1; i <= 16384; i++ {
		if i == 16384 || s.cluster.owner[i] != s.cluster.owner[start] {
			if o := s.cluster.owner[start]; o != nil {
				ranges[o] = append(ranges[o], [2]int{start, i - 1})
			}
			start = i
		}
	}
	for _, a := range s.order {
		n := s.nodes[a]
		if n.Role == "master" && n.sentinel == nil {
			prims = append(prims, n)
		} else if n.primary != nil {
			reps[n.primary] = append(reps[n.primary], n)
		}
	}
	return
}

func cmdCluster(c *Conn, a []string) resp.V {
	s := c.s
	if s.cluster == nil {
		return resp.Err("ERR This instance has cluster support disabled")
	}
	if s.ClusterReply != nil {
		if v, ok := s.ClusterReply(c.node.Addr, up(a[1])); ok {
			return v
		}
	}
	switch up(a[1]) {
	case "SLOTS":
		prims, ranges, reps := s.shardList()
		var out []resp.V
		nodeV := func(n *Node) resp.V {
			host, port := splitHostPort(n.Addr)
			v := n.view()
			ep := host
			if v.Endpoint != nil {
				ep = *v.Endpoint
			}
			var epv resp.V = resp.Bulk(ep)
			if v.Endpoint != nil && *v.Endpoint == "" {
				epv = resp.NullBulk()
			}
			return resp.Arr(epv, resp.Int(port), resp.Bulk(nodeID(n)), resp.Arr())
		}
		for _, p := range prims {
			for _, r := range ranges[p] {
				row := []resp.V{resp.Int(int64(r[0])), resp.Int(int64(r[1])), nodeV(p)}
				for _, rp := range reps[p] {
					if !rp.view().Hidden && rp.view().Health == "" {
						row = append(row, nodeV(rp))
					}
				}
				out = append(out, resp.Arr(row...))
			}
		}
		return resp.Arr(out...)
	case "SHARDS":
		prims, ranges, reps := s.shardList()
		var out []resp.V
		nodeV := func(n *Node, role string) resp.V {
			host, port := splitHostPort(n.Addr)
			v := n.view()
			ep := host
			if v.Endpoint != nil {
				ep = *v.Endpoint
			}
			health := v.Health
			if health == "" {
				health = "online"
			}
			kv := []resp.V{resp.Bulk("id"), resp.Bulk(nodeID(n)), resp.Bulk("port"), resp.Int(port)}
			if v.TLSPort > 0 {
				kv = append(kv, resp.Bulk("tls-port"), resp.Int(v.TLSPort))
			}
			kv = append(kv, resp.Bulk("ip"), resp.Bulk(host), resp.Bulk("endpoint"), resp.Bulk(ep), resp.Bulk("role"), resp.Bulk(role),
				resp.Bulk("replication-offset"), resp.Int(0), resp.Bulk("health"), resp.Bulk(health))
			return resp.Map(kv...)
		}
		for _, p := range prims {
			var sl []resp.V
			for _, r := range ranges[p] {
				sl = append(sl, resp.Int(int64(r[0])), resp.Int(int64(r[1])))
			}
			var ns []resp.V
			// replicas first, so that "the first node" is not always the primary
			for _, rp := range reps[p] {
				if !rp.view().Hidden {
					ns = append(ns, nodeV(rp, "replica"))
				}
			}
			if !p.view().Hidden {
				ns = append(ns, nodeV(p, "master"))
			}
			out = append(out, resp.Map(resp.Bulk("slots"), resp.Arr(sl...), resp.Bulk("nodes"), resp.Arr(ns...)))
		}
		return resp.Arr(out...)
	case "KEYSLOT":
		return resp.Int(int64(Slot(a[2])))
	case "MYID":
		return resp.Bulk(nodeID(c.node))
	case "INFO":
		return resp.Bulk("cluster_state:ok\r\n")
	}
	return resp.Err("ERR unknown subcommand '" + a[1] + "'. Try CLUSTER HELP.")
}

// ------------------------------------------------------------------ sentinel

type sentinelState struct {
	MasterSet string
	Master    string            // address reported by GET-MASTER-ADDR-BY-NAME
	Replicas  []SentinelReplica // reported by SENTINEL REPLICAS
	Others    []string          // other sentinels
	subs      map[*Conn]map[string]struct{}
}

// SentinelReplica is one row of SENTINEL REPLICAS.
type SentinelReplica struct {
	Addr  string
	SDown bool
}

// ConfigureSentinel sets what a sentinel node reports.
func (n *Node) ConfigureSentinel(masterSet, master string, replicas []SentinelReplica, others []string) {
	n.s.mu.Lock()
	defer n.s.mu.Unlock()
	n.sentinel.MasterSet, n.sentinel.Master, n.sentinel.Replicas, n.sentinel.Others = masterSet, master, replicas, others
}

// SentinelEvent publishes an event on the sentinel's pub/sub to the clients subscribed on this sentinel.
func (n *Node) SentinelEvent(channel, msg string) int {
	s := n.s
	s.mu.Lock()
	defer s.mu.Unlock()
	cnt := 0
	var ts []*Conn
	for t := range s.ps().chans[channel] {
		if t.node == n && !t.closed.Load() { // closed connections stay in the registry; they receive (and count for) nothing
			ts = append(ts, t)
		}
	}
	sort.Slice(ts, func(i, j int) bool { return ts[i].ID < ts[j].ID })
	s.logEvent(Event{Node: n.Addr, Kind: "exec", Argv: []string{"SENTINEL-EVENT", channel, msg}})
	for _, t := range ts {
		t.enqueuePubSub(resp.Push(resp.Bulk("message"), resp.Bulk(channel), resp.Bulk(msg)))
		cnt++
	}
	return cnt
}

func cmdSentinel(c *Conn, a []string) resp.V {
	st := c.node.sentinel
	if st == nil {
		return errReply("ERR unknown command 'SENTINEL', with args beginning with: ")
	}
	if !c.authed {
		return resp.Err("NOAUTH Authentication required.")
	}
	sub := up(a[1])
	if len(a) < 3 || a[2] != st.MasterSet {
		if sub == "GET-MASTER-ADDR-BY-NAME" {
			return resp.NullArr()
		}
		return resp.Err("ERR No such master with that name")
	}
	switch sub {
	case "GET-MASTER-ADDR-BY-NAME":
		if st.Master == "" {
			return resp.NullArr()
		}
		h, p := splitHostPort(st.Master)
		return resp.Strs(h, strconv.FormatInt(p, 10))
	case "SENTINELS":
		var out []resp.V
		for _, o := range st.Others {
			h, p := splitHostPort(o)
			out = append(out, resp.Map(resp.Bulk("name"), resp.Bulk(o), resp.Bulk("ip"), resp.Bulk(h), resp.Bulk("port"), resp.Bulk(strconv.FormatInt(p, 10))))
		}
		return resp.Arr(out...)
	case "REPLICAS", "SLAVES":
		var out []resp.V
		for _, r := range st.Replicas {
			h, p := splitHostPort(r.Addr)
			kv := []resp.V{resp.Bulk("name"), resp.Bulk(r.Addr), resp.Bulk("ip"), resp.Bulk(h), resp.Bulk("port"), resp.Bulk(strconv.FormatInt(p, 10)), resp.Bulk("flags"), resp.Bulk("slave")}
			if r.SDown {
				kv = append(kv, resp.Bulk("s-down-time"), resp.Bulk("12345"))
			}
			out = append(out, resp.Map(kv...))
		}
		return resp.Arr(out...)
	}
	return resp.Err("ERR Unknown sentinel subcommand '" + a[1] + "'")
}

// ---------------------------------------------------------------------- JSON

// minimal RedisJSON: paths "$", ".", "$.field", ".field", "field".

func jsonField(path string) (string, bool, bool) { // field, isRoot, legacy
	switch path {
	case "$":
		return "", true, false
	case ".", "":
		return "", true, true
	}
	if strings.HasPrefix(path, "$.") {
		return path[2:], false, false
	}
	return strings.TrimPrefix(path, "."), false, true
}

func jsonMarshal(v any) string {
	var buf bytes.Buffer
	enc := json.NewEncoder(&buf)
	enc.SetEscapeHTML(false)
	_ = enc.Encode(v)
	return strings.TrimSuffix(buf.String(), "\n")
}

func jsonParse(s string) (any, bool) {
	dec := json.NewDecoder(strings.NewReader(s))
	dec.UseNumber()
	var v any
	if err := dec.Decode(&v); err != nil {
		return nil, false
	}
	return v, true
}

func cmdJSONSet(c *Conn, a []string) resp.V {
	field, root, _ := jsonField(a[2])
	v, ok := jsonParse(a[3])
	if !ok {
		return resp.Err("ERR invalid JSON")
	}
	e := c.lookup(a[1])
	if e != nil && e.typ != 'j' {
		return wrongType
	}
	if root {
		if e == nil {
			e, _ = c.create(a[1], 'j')
		}
		e.json = v
		c.touched(a[1])
		return resp.Simple("OK")
	}
	if e == nil {
		return resp.Err("ERR new objects must be created at the root")
	}
	obj, isObj := e.json.(map[string]any)
	if !isObj {
		return resp.NullBulk()
	}
	obj[field] = v
	c.touched(a[1])
	return resp.Simple("OK")
}

func jsonGetPath(e *entry, path string) (string, bool) {
	field, root, legacy := jsonField(path)
	var v any = e.json
	if !root {
		obj, isObj := e.json.(map[string]any)
		if !isObj {
			return "", false
		}
		var had bool
		if v, had = obj[field]; !had {
			if legacy {
				return "", false
			}
			return "[]", true
		}
	}
	if legacy {
		return jsonMarshal(v), true
	}
	return "[" + jsonMarshal(v) + "]", true
}

func cmdJSONGet(c *Conn, a []string) resp.V {
	e, ok := c.lookupTyped(a[1], 'j')
	if !ok {
		return wrongType
	}
	if e == nil {
		return resp.NullBulk()
	}
	path := "."
	if len(a) > 2 {
		path = a[2]
	}
	s, ok := jsonGetPath(e, path)
	if !ok {
		return resp.Err("ERR Path '" + path + "' does not exist")
	}
	return resp.Bulk(s)
}

func cmdJSONMGet(c *Conn, a []string) resp.V {
	path := a[len(a)-1]
	var out []resp.V
	for _, k := range a[1 : len(a)-1] {
		e := c.lookup(k)
		if e == nil || e.typ != 'j' {
			out = append(out, resp.NullBulk())
			continue
		}
		s, ok := jsonGetPath(e, path)
		out = append(out, bulkOrNil(s, ok))
	}
	return resp.Arr(out...)
}

func cmdJSONMSet(c *Conn, a []string) resp.V {
	if (len(a)-1)%3 != 0 {
		return errArity(a[0])
	}
	for i := 1; i < len(a); i += 3 {
		if r := cmdJSONSet(c, []string{"JSON.SET", a[i], a[i+1], a[i+2]}); r.T == '-' {
			return r
		}
	}
	return resp.Simple("OK")
}

func cmdJSONNumIncrBy(c *Conn, a []string) resp.V {
	e, ok := c.lookupTyped(a[1], 'j')
	if !ok {
		return wrongType
	}
	if e == nil {
		return resp.Err("ERR could not perform this operation on a key that doesn't exist")
	}
	field, root, legacy := jsonField(a[2])
	d, err := strconv.ParseFloat(a[3], 64)
	if err != nil || root {
		return resp.Err("ERR value is not a number")
	}
	obj, isObj := e.json.(map[string]any)
	if !isObj {
		return resp.Err("ERR wrong static path")
	}
	cur, had := obj[field]
	if !had {
		if legacy {
			return resp.Err("ERR Path '" + a[2] + "' does not exist")
		}
		return resp.Bulk("[]")
	}
	num, isNum := cur.(json.Number)
	if !isNum {
		if legacy {
			return resp.Err("ERR wrong type of path value - expected a number but found " + fmt.Sprintf("%T", cur))
		}
		return resp.Bulk("[null]")
	}
	f, _ := num.Float64()
	f += d
	var nv json.Number
	if f == float64(int64(f)) {
		nv = json.Number(strconv.FormatInt(int64(f), 10))
	} else {
		nv = json.Number(strconv.FormatFloat(f, 'g', -1, 64))
	}
	obj[field] = nv
	c.touched(a[1])
	if legacy {
		return resp.Bulk(string(nv))
	}
	return resp.Bulk("[" + string(nv) + "]")
}

func cmdJSONDel(c *Conn, a []string) resp.V {
	e, ok := c.lookupTyped(a[1], 'j')
	if !ok {
		return wrongType
	}
	if e == nil {
		return resp.Int(0)
	}
	c.remove(a[1])
	return resp.Int(1)
}
