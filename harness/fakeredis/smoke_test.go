package fakeredis_test

import (
	"context"
	"testing"
	"testing/synctest"
	"time"

	"github.com/redis/rueidis"
	"verifh/drv"
	"verifh/fakeredis"
)

func TestSmokeBasic(t *testing.T) {
	s := fakeredis.New(fakeredis.Options{ChunkWrites: true}, "127.0.0.1:6379")
	defer s.Close()
	c, err := rueidis.NewClient(drv.Option(s, "127.0.0.1:6379"))
	if err != nil {
		t.Fatal(err)
	}
	defer c.Close()
	ctx := context.Background()
	if err := c.Do(ctx, c.B().Set().Key("k").Value("v").Build()).Error(); err != nil {
		t.Fatal(err)
	}
	v, err := c.Do(ctx, c.B().Get().Key("k").Build()).ToString()
	if err != nil || v != "v" {
		t.Fatal(v, err)
	}
	r := c.DoCache(ctx, c.B().Get().Key("k").Cache(), time.Minute)
	if s, _ := r.ToString(); s != "v" || r.IsCacheHit() {
		t.Fatal(r)
	}
	r = c.DoCache(ctx, c.B().Get().Key("k").Cache(), time.Minute)
	if s, _ := r.ToString(); s != "v" || !r.IsCacheHit() {
		t.Fatal("expected hit", r)
	}
	s.Node("127.0.0.1:6379").Exec("SET", "k", "v2")
	time.Sleep(50 * time.Millisecond)
	r = c.DoCache(ctx, c.B().Get().Key("k").Cache(), time.Minute)
	if s, _ := r.ToString(); s != "v2" || r.IsCacheHit() {
		t.Fatal("expected miss v2", r)
	}
	// pubsub
	got := make(chan rueidis.PubSubMessage, 1)
	cctx, cancel := context.WithCancel(ctx)
	go c.Receive(cctx, c.B().Subscribe().Channel("ch").Build(), func(m rueidis.PubSubMessage) { got <- m })
	for i := 0; i < 100 && s.Publish("ch", "hello") == 0; i++ {
		time.Sleep(5 * time.Millisecond)
	}
	if m := <-got; m.Message != "hello" {
		t.Fatal(m)
	}
	cancel()
	// lua
	sc := rueidis.NewLuaScript("return redis.call('INCRBY', KEYS[1], ARGV[1])")
	if n, err := sc.Exec(ctx, c, []string{"cnt"}, []string{"5"}).AsInt64(); err != nil || n != 5 {
		t.Fatal(n, err)
	}
	// blocking
	go func() { time.Sleep(20 * time.Millisecond); s.Node("127.0.0.1:6379").Exec("RPUSH", "q", "x") }()
	kv, err := c.Do(ctx, c.B().Blpop().Key("q").Timeout(2).Build()).AsStrSlice()
	if err != nil || len(kv) != 2 || kv[1] != "x" {
		t.Fatal(kv, err)
	}
	for _, e := range s.Log()[:12] {
		t.Log(e.Seq, e.Conn, e.Kind, e.Argv, e.Note)
	}
}

func TestSmokeBubble(t *testing.T) {
	synctest.Test(t, func(t *testing.T) {
		s := fakeredis.New(fakeredis.Options{}, "n1:1")
		c, err := rueidis.NewClient(drv.Option(s, "n1:1"))
		if err != nil {
			t.Fatal(err)
		}
		ctx := context.Background()
		start := time.Now()
		s.Plan(&fakeredis.Rule{Match: fakeredis.MatchCmd("GET"), Times: 1, Action: fakeredis.Action{DelayReply: 3 * time.Second}})
		dctx, cancel := context.WithTimeout(ctx, time.Second)
		err = c.Do(dctx, c.B().Get().Key("k").Build()).Error()
		cancel()
		t.Log("err", err, "virtual elapsed", time.Since(start))
		c.Do(ctx, c.B().Set().Key("k").Value("v").Px(500*time.Millisecond).Build())
		time.Sleep(600 * time.Millisecond)
		if err := c.Do(ctx, c.B().Get().Key("k").Build()).Error(); !rueidis.IsRedisNil(err) {
			t.Fatal("expected nil", err)
		}
		c.Close()
		s.Close()
	})
}
