// Package fakeredis is an in-process Redis-compatible server written for the
// verification harness. The real rueidis client talks to it through
// ClientOption.DialCtxFn; it is the workload's other half and the ground-truth
// observer (execution log), and it injects faults (fault rules).
//
// One mutex (Server.mu) serialises every command of every node, so the log is
// totally ordered and "the order in which replies and pushes were queued on a
// connection" is exactly the order in which they reach the wire.
package fakeredis

import (
	"bufio"
	"context"
	"errors"
	"fmt"
	"io"
	"math/rand"
	"net"
	"sort"
	"strings"
	"sync"
	"sync/atomic"
	"time"

	"verifh/mon"
	"verifh/resp"
)

// Event is one entry of the execution log.
type Event struct {
	Seq   int64
	Node  string
	Conn  int64
	Kind  string // accept | recv | exec | reply | push | close | expire | fault
	Argv  []string
	Reply resp.V // reply / push value (Kind reply, push)
	Note  string
}

// Options configure a Server.
type Options struct {
	Version     string            // announced version, default "7.4.0"
	NoHello     bool              // HELLO is an unknown command (old server)
	Users       map[string]string // ACL users: name -> password ("default" for requirepass)
	Seed        int64
	ChunkWrites bool // split replies at random byte boundaries
	NoLog       bool // do not record recv/exec/reply events (stress runs that only need counters)
	LogReplies  bool // record reply values in the log (off by default to save memory)
	NoTracking  bool // CLIENT TRACKING is rejected (server without client side caching)
}

// Server is a set of nodes sharing one lock, one log and one fault plan.
type Server struct {
	mu           sync.Mutex
	opts         Options
	nodes        map[string]*Node
	order        []string
	log          []Event
	rules        []*Rule
	connSeq      atomic.Int64
	conns        map[int64]*Conn
	wg           sync.WaitGroup
	closed       bool
	rng          *rand.Rand
	allScripts   map[string]*scriptEntry
	scriptRuns   int64
	pubsub       *pubsubState
	cluster      *clusterState
	ClusterReply func(node, sub string) (resp.V, bool) // optional override of CLUSTER SLOTS / SHARDS replies (hostile topologies)
	OnExec       func(e Event)                         // called under the server lock after a command has been executed; must not call into the server
	OnEvent      func(e Event)                         // called under the server lock for every event
	Counters     map[string]int64
	timers       map[*time.Timer]struct{}
}

// Node is one Redis instance (or a sentinel).
type Node struct {
	s            *Server
	Addr         string
	Role         string // "master" | "slave" | "sentinel"
	AZ           string
	dbs          *keyspace // shared between a primary and its replicas
	primary      *Node     // for replicas
	Down         bool      // refuses dials
	sentinel     *sentinelState
	blocked      []*blockedClient
	idx          int
	RoleOverride string // what ROLE answers, when different from Role
	scripts      map[string]*scriptEntry
	View         *NodeView
	Loading      bool // every command except a few answers LOADING
}

// New creates a server with one standalone master at addr.
func New(opts Options, addrs ...string) *Server {
	if opts.Version == "" {
		opts.Version = "7.4.0"
	}
	s := &Server{opts: opts, nodes: map[string]*Node{}, conns: map[int64]*Conn{}, rng: rand.New(rand.NewSource(opts.Seed + 12345)),
		allScripts: map[string]*scriptEntry{}, Counters: map[string]int64{}, timers: map[*time.Timer]struct{}{}}
	for _, a := range addrs {
		s.AddNode(a, "master", nil)
	}
	return s
}

// AddNode adds a node. A replica shares its primary's keyspace.
func (s *Server) AddNode(addr, role string, primary *Node) *Node {
	s.mu.Lock()
	defer s.mu.Unlock()
	n := &Node{s: s, Addr: addr, Role: role, primary: primary, idx: len(s.order)}
	if primary != nil {
		n.dbs = primary.dbs
	} else {
		n.dbs = newKeyspace()
	}
	if role == "sentinel" {
		n.sentinel = &sentinelState{}
	}
	s.nodes[addr] = n
	s.order = append(s.order, addr)
	return n
}

func (s *Server) Node(addr string) *Node {
	s.mu.Lock()
	defer s.mu.Unlock()
	return s.nodes[addr]
}

// Lock / Unlock let a driver take a consistent look at server state or change topology atomically.
func (s *Server) Lock()   { s.mu.Lock() }
func (s *Server) Unlock() { s.mu.Unlock() }

func (s *Server) logEvent(e Event) Event {
	e.Seq = mon.Stamp()
	if !s.opts.NoLog || (e.Kind != "recv" && e.Kind != "exec" && e.Kind != "reply") {
		if !s.opts.LogReplies && e.Kind == "reply" {
			e.Reply = resp.V{}
		}
		s.log = append(s.log, e)
	}
	s.Counters[e.Kind]++
	if s.OnEvent != nil {
		s.OnEvent(e)
	}
	return e
}

// Log returns a snapshot of the execution log.
func (s *Server) Log() []Event {
	s.mu.Lock()
	defer s.mu.Unlock()
	return append([]Event(nil), s.log...)
}

// LogLen returns the current log length (to slice Log() later).
func (s *Server) LogLen() int { s.mu.Lock(); defer s.mu.Unlock(); return len(s.log) }

// ResetLog drops the log.
func (s *Server) ResetLog() { s.mu.Lock(); s.log = nil; s.mu.Unlock() }

func (s *Server) Counter(kind string) int64 {
	s.mu.Lock()
	defer s.mu.Unlock()
	return s.Counters[kind]
}

// ---------------------------------------------------------------- connections

// Conn is the server side of one client connection.
type Conn struct {
	s                *Server
	node             *Node
	ID               int64
	nc               net.Conn
	proto            int
	user             string
	authed           bool
	name             string
	db               int
	libName, libVer  string
	readonly         bool
	noTouch, noEvict bool
	capaRedirect     bool
	asking           bool
	tracking         trackingState
	multi            *multiState
	watch            map[watchKey]int64
	watchDirty       bool
	subs             map[string]struct{}
	psubs            map[string]struct{}
	ssubs            map[string]struct{}

	outMu         sync.Mutex
	outCond       *sync.Cond
	out           [][]byte
	outClose      bool // close the connection once the queue is drained
	closed        atomic.Bool
	closeCh       chan struct{}
	stallCh       chan struct{} // non-nil while the processor is stalled
	rng           *rand.Rand
	Setup         []string // names of session commands seen, for C47
	cutAfter      int      // >=0: close after that many more bytes were written
	inExec        int
	pending       []resp.V // pushes caused by this connection's own command, queued after its reply
	scriptFor     *Conn    // set on the shadow connection a script runs on
	AbortNextExec bool     // test control: the next EXEC answers a nil array (as a WATCH abort would)
}

// clientConn is the client's end: a net.Conn that knows the connection id.
type ClientConn struct {
	net.Conn
	ID   int64
	Addr string
}

func (c *ClientConn) RemoteAddr() net.Addr { return fakeAddr(c.Addr) }

type fakeAddr string

func (a fakeAddr) Network() string { return "tcp" }
func (a fakeAddr) String() string  { return string(a) }

var ErrRefused = errors.New("fakeredis: connection refused")

// Dial is to be plugged into ClientOption.DialCtxFn (adapt the signature with DialFn).
func (s *Server) Dial(ctx context.Context, addr string) (net.Conn, error) {
	if err := ctx.Err(); err != nil {
		return nil, err
	}
	s.mu.Lock()
	n := s.nodes[addr]
	if s.closed || n == nil || n.Down {
		s.logEvent(Event{Node: addr, Kind: "fault", Note: "dial refused"})
		s.mu.Unlock()
		return nil, fmt.Errorf("dial %s: %w", addr, ErrRefused)
	}
	// dial-time fault rules
	for _, r := range s.rules {
		if r.OnDial != nil && r.remaining() && r.OnDial(addr) {
			r.fire()
			s.logEvent(Event{Node: addr, Kind: "fault", Note: "dial refused by rule " + r.Name})
			s.mu.Unlock()
			return nil, fmt.Errorf("dial %s: %w", addr, ErrRefused)
		}
	}
	cli, srv := net.Pipe()
	c := &Conn{s: s, node: n, ID: s.connSeq.Add(1), nc: srv, proto: 2, closeCh: make(chan struct{}), cutAfter: -1,
		subs: map[string]struct{}{}, psubs: map[string]struct{}{}, ssubs: map[string]struct{}{}}
	c.outCond = sync.NewCond(&c.outMu)
	c.rng = rand.New(rand.NewSource(s.opts.Seed*1000003 + c.ID))
	_, defaultHasPass := s.opts.Users["default"]
	c.authed = !defaultHasPass // no password for "default" (Redis: "user default on nopass"): a session starts authenticated as default, even when other ACL users exist
	c.user = "default"
	s.conns[c.ID] = c
	s.logEvent(Event{Node: addr, Conn: c.ID, Kind: "accept"})
	s.wg.Add(2)
	s.mu.Unlock()
	go c.readLoop()
	go c.writeLoop()
	return &ClientConn{Conn: cli, ID: c.ID, Addr: addr}, nil
}

// DialFn adapts Dial to rueidis's DialCtxFn signature.
func (s *Server) DialFn() func(context.Context, string, *net.Dialer, any) (net.Conn, error) {
	return func(ctx context.Context, addr string, _ *net.Dialer, _ any) (net.Conn, error) {
		return s.Dial(ctx, addr)
	}
}

// ConnID extracts the connection id from a client-side conn (as returned by Dial), 0 if unknown.
func ConnID(c net.Conn) int64 {
	if cc, ok := c.(*ClientConn); ok {
		return cc.ID
	}
	return 0
}

func (c *Conn) readLoop() {
	defer c.s.wg.Done()
	r := bufio.NewReaderSize(c.nc, 1<<16)
	for {
		argv, err := resp.DecodeCmd(r)
		if err != nil {
			if !errors.Is(err, io.EOF) && !errors.Is(err, io.ErrClosedPipe) && !c.closed.Load() {
				c.s.mu.Lock()
				c.s.logEvent(Event{Node: c.node.Addr, Conn: c.ID, Kind: "fault", Note: "protocol error from client: " + err.Error()})
				c.s.Counters["client_protocol_errors"]++
				c.s.mu.Unlock()
			}
			c.shutdown("client closed")
			return
		}
		if len(argv) == 0 {
			continue
		}
		c.process(argv)
		if c.closed.Load() {
			return
		}
	}
}

// shutdown closes the connection from the server side (idempotent).
func (c *Conn) shutdown(why string) {
	if c.closed.Swap(true) {
		return
	}
	close(c.closeCh)
	_ = c.nc.Close()
	c.outMu.Lock()
	c.outCond.Broadcast()
	c.outMu.Unlock()
	c.s.mu.Lock()
	c.s.logEvent(Event{Node: c.node.Addr, Conn: c.ID, Kind: "close", Note: why})
	c.dropStateLocked()
	delete(c.s.conns, c.ID)
	c.s.mu.Unlock()
}

func (c *Conn) dropStateLocked() {
	c.s.untrackConnLocked(c)
	n := c.node
	for i := 0; i < len(n.blocked); i++ {
		if n.blocked[i].c == c {
			n.blocked = append(n.blocked[:i], n.blocked[i+1:]...)
			i--
		}
	}
	if n.sentinel != nil {
		delete(n.sentinel.subs, c)
	}
}

func (c *Conn) writeLoop() {
	defer c.s.wg.Done()
	for {
		c.outMu.Lock()
		for len(c.out) == 0 && !c.closed.Load() && !c.outClose {
			c.outCond.Wait()
		}
		if c.closed.Load() {
			c.outMu.Unlock()
			return
		}
		if len(c.out) == 0 && c.outClose {
			c.outMu.Unlock()
			c.shutdown("server closed")
			return
		}
		bufs := c.out
		c.out = nil
		c.outMu.Unlock()
		for _, b := range bufs {
			for len(b) > 0 {
				n := len(b)
				if c.s.opts.ChunkWrites && n > 1 && c.rng.Intn(3) != 0 {
					n = 1 + c.rng.Intn(n)
				}
				c.outMu.Lock() // cutAfter is set by process() under outMu
				cut := c.cutAfter
				c.outMu.Unlock()
				if cut >= 0 && n >= cut {
					n = cut
					if n > 0 {
						_, _ = c.nc.Write(b[:n])
					}
					c.shutdown("cut after bytes")
					return
				}
				if _, err := c.nc.Write(b[:n]); err != nil {
					c.shutdown("write error")
					return
				}
				if cut >= 0 {
					c.outMu.Lock()
					if c.cutAfter >= 0 {
						c.cutAfter -= n
					}
					c.outMu.Unlock()
				}
				b = b[n:]
			}
		}
	}
}

// enqueue queues a reply or push on the connection (server lock held: defines the wire order).
func (c *Conn) enqueue(kind string, v resp.V, argv []string) {
	if c.closed.Load() {
		return
	}
	c.s.logEvent(Event{Node: c.node.Addr, Conn: c.ID, Kind: kind, Argv: argv, Reply: v})
	var b []byte
	if c.proto < 3 {
		b = resp.Encode(nil, resp.ToRESP2(v))
	} else {
		b = resp.Encode(nil, toRESP3(v))
	}
	c.outMu.Lock()
	c.out = append(c.out, b)
	c.outCond.Signal()
	c.outMu.Unlock()
}

// enqueueRaw queues raw bytes (fault injection: malformed frames, partial replies).
func (c *Conn) enqueueRaw(b []byte) {
	c.outMu.Lock()
	c.out = append(c.out, b)
	c.outCond.Signal()
	c.outMu.Unlock()
}

// toRESP3 turns the canonical RESP2-style nulls into '_'.
func toRESP3(v resp.V) resp.V {
	if v.Null2 {
		return resp.V{T: '_', Attr: v.Attr}
	}
	if v.A != nil {
		a := make([]resp.V, len(v.A))
		for i, e := range v.A {
			a[i] = toRESP3(e)
		}
		v.A = a
	}
	return v
}

// closeAfterDrain closes the connection after everything queued so far has been written.
func (c *Conn) closeAfterDrain() {
	c.outMu.Lock()
	c.outClose = true
	c.outCond.Signal()
	c.outMu.Unlock()
}

// Kill closes the connection with the given id immediately (server side), as if the network dropped it.
func (s *Server) Kill(id int64) bool {
	s.mu.Lock()
	c := s.conns[id]
	s.mu.Unlock()
	if c == nil {
		return false
	}
	c.shutdown("killed")
	return true
}

// KillAll closes every connection of a node ("" = all nodes).
func (s *Server) KillAll(addr string) int {
	s.mu.Lock()
	var cs []*Conn
	for _, c := range s.conns {
		if addr == "" || c.node.Addr == addr {
			cs = append(cs, c)
		}
	}
	s.mu.Unlock()
	for _, c := range cs {
		c.shutdown("killed")
	}
	return len(cs)
}

// Conns returns the ids of the open connections of a node ("" = all), sorted.
func (s *Server) Conns(addr string) []int64 {
	s.mu.Lock()
	defer s.mu.Unlock()
	var ids []int64
	for id, c := range s.conns {
		if addr == "" || c.node.Addr == addr {
			ids = append(ids, id)
		}
	}
	sort.Slice(ids, func(i, j int) bool { return ids[i] < ids[j] })
	return ids
}

// Close shuts every connection and waits for all server goroutines.
func (s *Server) Close() {
	s.mu.Lock()
	s.closed = true
	var cs []*Conn
	for _, c := range s.conns {
		cs = append(cs, c)
	}
	for t := range s.timers {
		t.Stop()
	}
	s.timers = map[*time.Timer]struct{}{}
	for _, n := range s.nodes {
		for _, b := range n.blocked {
			b.cancel()
		}
	}
	s.mu.Unlock()
	for _, c := range cs {
		c.shutdown("server shutdown")
	}
	s.wg.Wait()
}

// ------------------------------------------------------------------ fault plan

// Action says what a matching fault rule does to a command.
type Action struct {
	Reply       *resp.V       // reply with this instead of executing
	Raw         []byte        // write these raw bytes instead of a reply (after executing when ExecFirst)
	ExecFirst   bool          // with Raw / Close / Stall: execute the command before the fault
	Close       bool          // close the connection (before executing unless ExecFirst; no reply is sent)
	CloseAfter  int           // >0: execute, start sending the reply, close after that many bytes of it
	Stall       bool          // stop processing this connection until Server.Resume (or forever)
	DelayBefore time.Duration // sleep before executing
	DelayReply  time.Duration // execute, then sleep before queuing the reply
	PushBefore  []resp.V      // push frames queued before the reply
	PushAfter   []resp.V      // push frames queued after the reply
	Then        func()        // called (without the server lock) after the action was applied
}

// Rule is a fault rule: the first rule that matches a received command applies.
type Rule struct {
	Name   string
	Match  func(c *Conn, argv []string) bool
	OnDial func(addr string) bool
	Times  int // how many times it may fire; 0 = unlimited
	Skip   int // ignore the first Skip matches
	Action Action
	fired  int
	seen   int
}

func (r *Rule) remaining() bool { return r.Times == 0 || r.fired < r.Times }
func (r *Rule) fire()           { r.fired++ }
func (r *Rule) Fired() int      { return r.fired }

// Plan installs a rule and returns it.
func (s *Server) Plan(r *Rule) *Rule {
	s.mu.Lock()
	s.rules = append(s.rules, r)
	s.mu.Unlock()
	return r
}

// ClearPlan removes all rules.
func (s *Server) ClearPlan() { s.mu.Lock(); s.rules = nil; s.mu.Unlock() }

// RuleFired reads a rule's fire count under the lock.
func (s *Server) RuleFired(r *Rule) int { s.mu.Lock(); defer s.mu.Unlock(); return r.fired }

// Resume releases every stalled connection.
func (s *Server) Resume() {
	s.mu.Lock()
	for _, c := range s.conns {
		if c.stallCh != nil {
			close(c.stallCh)
			c.stallCh = nil
		}
	}
	s.mu.Unlock()
}

func (s *Server) matchRule(c *Conn, argv []string) *Rule {
	for _, r := range s.rules {
		if r.Match == nil || !r.remaining() {
			continue
		}
		if r.Match(c, argv) {
			r.seen++
			if r.seen <= r.Skip {
				continue
			}
			r.fire()
			return r
		}
	}
	return nil
}

// MatchCmd matches a command name (upper-cased) and optionally an argument substring anywhere in argv.
func MatchCmd(name string, contains ...string) func(*Conn, []string) bool {
	return func(_ *Conn, argv []string) bool {
		if !strings.EqualFold(argv[0], name) {
			return false
		}
		for _, sub := range contains {
			found := false
			for _, a := range argv[1:] {
				if strings.Contains(a, sub) {
					found = true
				}
			}
			if !found {
				return false
			}
		}
		return true
	}
}

// MatchArg matches any command having an argument containing sub.
func MatchArg(sub string) func(*Conn, []string) bool {
	return func(_ *Conn, argv []string) bool {
		for _, a := range argv {
			if strings.Contains(a, sub) {
				return true
			}
		}
		return false
	}
}

// Node returns the node address the connection belongs to.
func (c *Conn) NodeAddr() string { return c.node.Addr }

// ------------------------------------------------------------ command processing

func sleepOrClosed(c *Conn, d time.Duration) bool {
	t := time.NewTimer(d)
	defer t.Stop()
	select {
	case <-t.C:
		return true
	case <-c.closeCh:
		return false
	}
}

// process handles one received command: fault rules, execution, replies.
func (c *Conn) process(argv []string) {
	s := c.s
	s.mu.Lock()
	s.logEvent(Event{Node: c.node.Addr, Conn: c.ID, Kind: "recv", Argv: argv})
	var act Action
	if r := s.matchRule(c, argv); r != nil {
		act = r.Action
		s.logEvent(Event{Node: c.node.Addr, Conn: c.ID, Kind: "fault", Argv: argv, Note: r.Name})
	}
	s.mu.Unlock()

	if act.DelayBefore > 0 {
		if !sleepOrClosed(c, act.DelayBefore) {
			return
		}
	}
	if act.Close && !act.ExecFirst {
		c.shutdown("fault: close before exec")
		return
	}
	if act.Stall && !act.ExecFirst {
		if !c.stall() {
			return
		}
	}

	s.mu.Lock()
	var reply resp.V
	hasReply := true
	var blocked *blockedClient
	if act.Reply != nil {
		reply = *act.Reply
		// a scripted error reply stands for a command rejected before execution (MOVED, ASK, TRYAGAIN, LOADING, ...):
		// like Redis (rejectCommand -> flagTransaction) that flags an open transaction, so its EXEC answers EXECABORT
		if (reply.T == '-' || reply.T == '!') && c.multi != nil {
			if n := up(argv[0]); n != "EXEC" && n != "DISCARD" && n != "MULTI" {
				c.multi.dirty = true
			}
		}
	} else if act.Raw != nil && !act.ExecFirst {
		hasReply = false
	} else {
		reply, hasReply, blocked = c.execute(argv)
	}
	if blocked != nil {
		s.mu.Unlock()
		reply, hasReply = blocked.wait()
		s.mu.Lock()
	}
	if act.Close && act.ExecFirst {
		s.mu.Unlock()
		c.shutdown("fault: close after exec")
		return
	}
	if act.Stall && act.ExecFirst {
		s.mu.Unlock()
		if !c.stall() {
			return
		}
		s.mu.Lock()
	}
	if act.DelayReply > 0 {
		s.mu.Unlock()
		if !sleepOrClosed(c, act.DelayReply) {
			return
		}
		s.mu.Lock()
	}
	for _, p := range act.PushBefore {
		c.enqueue("push", p, nil)
	}
	if act.Raw != nil {
		s.logEvent(Event{Node: c.node.Addr, Conn: c.ID, Kind: "reply", Argv: argv, Note: "raw"})
		c.enqueueRaw(act.Raw)
	} else {
		if act.CloseAfter > 0 { // also cuts the confirmation pushes of commands without a reply (SUBSCRIBE)
			c.outMu.Lock()
			pending := 0
			for _, b := range c.out {
				pending += len(b)
			}
			c.cutAfter = pending + act.CloseAfter
			c.outMu.Unlock()
		}
		if hasReply {
			c.enqueue("reply", reply, argv)
		}
	}
	c.flushPendingPushes()
	for _, p := range act.PushAfter {
		c.enqueue("push", p, nil)
	}
	s.mu.Unlock()
	if act.Then != nil {
		act.Then()
	}
}

func (c *Conn) stall() bool {
	c.s.mu.Lock()
	ch := make(chan struct{})
	c.stallCh = ch
	c.s.mu.Unlock()
	select {
	case <-ch:
		return true
	case <-c.closeCh:
		return false
	}
}

func errReply(format string, a ...any) resp.V { return resp.Err(fmt.Sprintf(format, a...)) }

func up(s string) string { return strings.ToUpper(s) }

// Exec runs a command directly on a node on behalf of the driver (a writer or publisher that is not a
// rueidis connection). It is logged with Conn 0.
func (n *Node) Exec(argv ...string) resp.V {
	s := n.s
	s.mu.Lock()
	defer s.mu.Unlock()
	c := n.driverConn()
	s.logEvent(Event{Node: n.Addr, Conn: 0, Kind: "recv", Argv: argv})
	v, _, b := c.execute(argv)
	if b != nil {
		b.cancel()
		return resp.NullArr()
	}
	return v
}

func (n *Node) driverConn() *Conn {
	c := &Conn{s: n.s, node: n, ID: 0, proto: 3, authed: true, user: "default", closeCh: make(chan struct{}),
		subs: map[string]struct{}{}, psubs: map[string]struct{}{}, ssubs: map[string]struct{}{}, cutAfter: -1}
	c.closed.Store(true) // never enqueue anything
	return c
}

func (s *Server) afterFunc(d time.Duration, f func()) *time.Timer {
	var t *time.Timer
	t = time.AfterFunc(d, func() {
		s.mu.Lock()
		if _, ok := s.timers[t]; !ok || s.closed {
			s.mu.Unlock()
			return
		}
		delete(s.timers, t)
		f()
		s.mu.Unlock()
	})
	s.timers[t] = struct{}{}
	return t
}

func (s *Server) stopTimer(t *time.Timer) {
	if t != nil {
		t.Stop()
		delete(s.timers, t)
	}
}
