package fakeredis

import (
	"crypto/sha1"
	"encoding/hex"
	"fmt"
	"sort"
	"strconv"
	"strings"
	"time"

	"verifh/minilua"
	"verifh/resp"
)

type cmdDef struct {
	fn    func(c *Conn, a []string) resp.V
	arity int // >0 exact, <0 at least -arity
	keys  func(a []string) []string
	write bool
	ro    bool // read-only data command (tracked by client side caching)
	admin bool // allowed before AUTH / while LOADING
}

func k1(a []string) []string {
	if len(a) > 1 {
		return a[1:2]
	}
	return nil
}
func kall(a []string) []string { return a[1:] }
func kodd(a []string) []string {
	var ks []string
	for i := 1; i < len(a); i += 2 {
		ks = append(ks, a[i])
	}
	return ks
}
func k12(a []string) []string {
	if len(a) > 2 {
		return a[1:3]
	}
	return nil
}
func knum(pos int) func(a []string) []string {
	return func(a []string) []string {
		if len(a) <= pos {
			return nil
		}
		n, err := strconv.Atoi(a[pos])
		if err != nil || n < 0 || pos+1+n > len(a) {
			return nil
		}
		return a[pos+1 : pos+1+n]
	}
}
func kblock(a []string) []string {
	if len(a) > 2 {
		return a[1 : len(a)-1]
	}
	return nil
}

var noReply = resp.V{T: 0}

var commands map[string]*cmdDef

func init() {
	w := func(fn func(*Conn, []string) resp.V, arity int, keys func([]string) []string) *cmdDef {
		return &cmdDef{fn: fn, arity: arity, keys: keys, write: true}
	}
	r := func(fn func(*Conn, []string) resp.V, arity int, keys func([]string) []string) *cmdDef {
		return &cmdDef{fn: fn, arity: arity, keys: keys, ro: true}
	}
	o := func(fn func(*Conn, []string) resp.V, arity int) *cmdDef { return &cmdDef{fn: fn, arity: arity} }
	adm := func(fn func(*Conn, []string) resp.V, arity int) *cmdDef {
		return &cmdDef{fn: fn, arity: arity, admin: true}
	}
	commands = map[string]*cmdDef{
		"GET": r(cmdGet, 2, k1), "SET": w(cmdSet, -3, k1), "SETNX": w(cmdSetnx, 3, k1), "SETEX": w(cmdSetex, 4, k1), "PSETEX": w(cmdSetex, 4, k1),
		"GETSET": w(cmdGetset, 3, k1), "GETDEL": w(cmdGetdel, 2, k1), "MGET": r(cmdMget, -2, kall), "MSET": w(cmdMset, -3, kodd), "MSETNX": w(cmdMset, -3, kodd),
		"APPEND": w(cmdAppend, 3, k1), "STRLEN": r(cmdStrlen, 2, k1), "INCR": w(cmdIncr, 2, k1), "DECR": w(cmdIncr, 2, k1), "INCRBY": w(cmdIncr, 3, k1), "DECRBY": w(cmdIncr, 3, k1),
		"INCRBYFLOAT": w(cmdIncrbyfloat, 3, k1), "GETRANGE": r(cmdGetrange, 4, k1), "SETBIT": w(cmdSetbit, 4, k1), "GETBIT": r(cmdGetbit, 3, k1), "BITCOUNT": r(cmdBitcount, -2, k1),
		"BITFIELD": w(cmdBitfield, -2, k1), "BITFIELD_RO": r(cmdBitfield, -2, k1),
		"DEL": w(cmdDel, -2, kall), "UNLINK": w(cmdDel, -2, kall), "EXISTS": r(cmdExists, -2, kall), "EXPIRE": w(cmdExpire, -3, k1), "PEXPIRE": w(cmdExpire, -3, k1),
		"EXPIREAT": w(cmdExpire, -3, k1), "PEXPIREAT": w(cmdExpire, -3, k1), "TTL": r(cmdTTL, 2, k1), "PTTL": r(cmdTTL, 2, k1), "PEXPIRETIME": r(cmdTTL, 2, k1), "EXPIRETIME": r(cmdTTL, 2, k1),
		"PERSIST": w(cmdPersist, 2, k1), "TYPE": r(cmdType, 2, k1), "RENAME": w(cmdRename, 3, k12), "KEYS": o(cmdKeys, 2), "SCAN": o(cmdScan, -2),
		"FLUSHALL": {fn: cmdFlush, arity: -1, write: true}, "FLUSHDB": {fn: cmdFlush, arity: -1, write: true}, "DBSIZE": o(cmdDbsize, 1),
		"HSET": w(cmdHset, -4, k1), "HMSET": w(cmdHset, -4, k1), "HSETNX": w(cmdHsetnx, 4, k1), "HGET": r(cmdHget, 3, k1), "HMGET": r(cmdHmget, -3, k1), "HGETALL": r(cmdHgetall, 2, k1),
		"HKEYS": r(cmdHgetall, 2, k1), "HVALS": r(cmdHgetall, 2, k1), "HDEL": w(cmdHdel, -3, k1), "HEXISTS": r(cmdHexists, 3, k1), "HLEN": r(cmdHlen, 2, k1), "HINCRBY": w(cmdHincrby, 4, k1), "HSCAN": r(cmdHscan, -3, k1),
		"LPUSH": w(cmdPush, -3, k1), "RPUSH": w(cmdPush, -3, k1), "LPOP": w(cmdPop, -2, k1), "RPOP": w(cmdPop, -2, k1), "LRANGE": r(cmdLrange, 4, k1), "LLEN": r(cmdLlen, 2, k1), "LINDEX": r(cmdLindex, 3, k1),
		"BLPOP": w(nil, -3, kblock), "BRPOP": w(nil, -3, kblock),
		"SADD": w(cmdSadd, -3, k1), "SREM": w(cmdSrem, -3, k1), "SMEMBERS": r(cmdSmembers, 2, k1), "SISMEMBER": r(cmdSismember, 3, k1), "SCARD": r(cmdScard, 2, k1),
		"ZADD": w(cmdZadd, -4, k1), "ZRANGE": r(cmdZrange, -4, k1), "ZSCORE": r(cmdZscore, 3, k1), "ZREM": w(cmdZrem, -3, k1), "ZCARD": r(cmdZcard, 2, k1),
		"XADD": w(cmdXadd, -5, k1), "XRANGE": r(cmdXrange, -4, k1), "XLEN": r(cmdXlen, 2, k1),
		"PING": adm(cmdPing, -1), "ECHO": o(cmdEcho, 2), "TIME": o(cmdTime, 1), "QUIT": adm(cmdQuit, -1), "HELLO": adm(cmdHello, -1), "AUTH": adm(cmdAuth, -2),
		"SELECT": o(cmdSelect, 2), "CLIENT": adm(cmdClient, -2), "READONLY": o(cmdReadonly, 1), "READWRITE": o(cmdReadonly, 1), "ROLE": o(cmdRole, 1), "INFO": adm(cmdInfo, -1),
		"ASKING": o(cmdAsking, 1), "COMMAND": o(func(*Conn, []string) resp.V { return resp.Arr() }, -1), "WAIT": o(func(*Conn, []string) resp.V { return resp.Int(0) }, 3),
		"MULTI": o(cmdMulti, 1), "EXEC": o(cmdExec, 1), "DISCARD": o(cmdDiscard, 1), "WATCH": {fn: cmdWatch, arity: -2, keys: kall}, "UNWATCH": o(cmdUnwatch, 1),
		"SUBSCRIBE": o(cmdSubscribe, -2), "PSUBSCRIBE": o(cmdSubscribe, -2), "SSUBSCRIBE": {fn: cmdSubscribe, arity: -2, keys: kall},
		"UNSUBSCRIBE": o(cmdUnsubscribe, -1), "PUNSUBSCRIBE": o(cmdUnsubscribe, -1), "SUNSUBSCRIBE": o(cmdUnsubscribe, -1),
		"PUBLISH": o(cmdPublish, 3), "SPUBLISH": {fn: cmdPublish, arity: 3, keys: k1},
		"EVAL": {fn: cmdEval, arity: -3, keys: knum(2), write: true}, "EVALSHA": {fn: cmdEval, arity: -3, keys: knum(2), write: true},
		"EVAL_RO": {fn: cmdEval, arity: -3, keys: knum(2), ro: true}, "EVALSHA_RO": {fn: cmdEval, arity: -3, keys: knum(2), ro: true}, "SCRIPT": o(cmdScript, -2),
		"CLUSTER": o(cmdCluster, -2), "SENTINEL": adm(cmdSentinel, -2),
		"VERIF.ECHO": {fn: cmdVerifEcho, arity: -3, keys: k1, ro: true}, "VERIF.WRITE": {fn: cmdVerifEcho, arity: -3, keys: k1, write: true},
		"JSON.SET": w(cmdJSONSet, -4, k1), "JSON.GET": r(cmdJSONGet, -2, k1), "JSON.MGET": {fn: cmdJSONMGet, arity: -3, keys: func(a []string) []string { return a[1 : len(a)-1] }, ro: true},
		"JSON.MSET": {fn: cmdJSONMSet, arity: -4, keys: func(a []string) []string {
			var ks []string
			for i := 1; i+2 < len(a)+0 && i < len(a); i += 3 {
				ks = append(ks, a[i])
			}
			return ks
		}, write: true}, "JSON.NUMINCRBY": w(cmdJSONNumIncrBy, 4, k1), "JSON.DEL": w(cmdJSONDel, -2, k1),
	}
}

// execute runs one command (server lock held). It returns the reply, whether a reply is to be sent,
// and a blockedClient when the command has to wait.
func (c *Conn) execute(a []string) (resp.V, bool, *blockedClient) {
	name := up(a[0])
	def := commands[name]
	n := c.node
	if n.Role == "sentinel" && name != "SENTINEL" && name != "PING" && name != "HELLO" && name != "AUTH" && name != "CLIENT" && name != "SUBSCRIBE" && name != "PSUBSCRIBE" && name != "UNSUBSCRIBE" && name != "PUNSUBSCRIBE" && name != "INFO" && name != "QUIT" && name != "ROLE" && name != "SELECT" {
		return errReply("ERR unknown command '%s', with args beginning with: ", a[0]), true, nil
	}
	if !c.authed && (def == nil || !def.admin || name == "CLIENT" || name == "INFO" || name == "SENTINEL") {
		return resp.Err("NOAUTH Authentication required."), true, nil
	}
	if n.Loading && (def == nil || !def.admin) {
		return resp.Err("LOADING Redis is loading the dataset in memory"), true, nil
	}
	if def == nil {
		if c.multi != nil {
			c.multi.dirty = true
		}
		var sb strings.Builder
		for _, x := range a[1:] {
			fmt.Fprintf(&sb, "'%s' ", x)
		}
		return errReply("ERR unknown command '%s', with args beginning with: %s", a[0], sb.String()), true, nil
	}
	if (def.arity > 0 && len(a) != def.arity) || (def.arity < 0 && len(a) < -def.arity) {
		if c.multi != nil {
			c.multi.dirty = true
		}
		return errArity(a[0]), true, nil
	}
	if c.proto < 3 && c.subCount() > 0 {
		switch name {
		case "SUBSCRIBE", "PSUBSCRIBE", "SSUBSCRIBE", "UNSUBSCRIBE", "PUNSUBSCRIBE", "SUNSUBSCRIBE", "PING", "QUIT", "RESET":
		default:
			return errReply("ERR Can't execute '%s': only (P|S)SUBSCRIBE / (P|S)UNSUBSCRIBE / PING / QUIT / RESET are allowed in this context", strings.ToLower(a[0])), true, nil
		}
	}
	// cluster redirection, also at queue time inside MULTI
	if c.s.cluster != nil && def.keys != nil && name != "WATCH" || (c.s.cluster != nil && name == "WATCH") {
		if red, ok := c.s.clusterCheck(c, name, def, a); !ok {
			if c.multi != nil {
				c.multi.dirty = true
			}
			c.asking = false
			return red, true, nil
		}
	}
	if def.write && n.Role == "slave" {
		if c.multi != nil {
			c.multi.dirty = true
		}
		if c.capaRedirect && n.primary != nil {
			return errReply("REDIRECT %s", n.primary.Addr), true, nil
		}
		return resp.Err("READONLY You can't write against a read only replica."), true, nil
	}
	if c.multi != nil && name != "EXEC" && name != "DISCARD" && name != "MULTI" && name != "WATCH" && name != "QUIT" {
		if name == "SUBSCRIBE" || name == "PSUBSCRIBE" || name == "SSUBSCRIBE" || name == "UNSUBSCRIBE" || name == "PUNSUBSCRIBE" || name == "SUNSUBSCRIBE" {
			// Redis allows them in RESP3; rueidis forbids; keep Redis' behaviour: queue
		}
		c.multi.queue = append(c.multi.queue, a)
		return resp.Simple("QUEUED"), true, nil
	}
	if name == "BLPOP" || name == "BRPOP" {
		v, b := c.blockingPop(a)
		if b != nil {
			return resp.V{}, false, b
		}
		c.afterCommand(name, def, a, false)
		c.s.logEvent(Event{Node: n.Addr, Conn: c.ID, Kind: "exec", Argv: a})
		return v, true, nil
	}
	v := c.run(name, def, a)
	return v, v.T != 0, nil
}

// run executes a non-blocking command body and the bookkeeping that follows every executed command.
func (c *Conn) run(name string, def *cmdDef, a []string) resp.V {
	v := def.fn(c, a)
	c.afterCommand(name, def, a, v.T == '-' || v.T == '!')
	e := c.s.logEvent(Event{Node: c.node.Addr, Conn: c.ID, Kind: "exec", Argv: a, Reply: v})
	if c.s.OnExec != nil {
		c.s.OnExec(e)
	}
	return v
}

func (c *Conn) afterCommand(name string, def *cmdDef, a []string, failed bool) {
	// client side caching: remember the keys of read-only commands
	caller := c
	if def.ro && !failed && def.keys != nil && name != "EVAL_RO" && name != "EVALSHA_RO" {
		t := &caller.tracking
		if t.on && !t.bcast && !(t.optin && !t.caching) && !(t.optout && t.caching) {
			for _, k := range def.keys(a) {
				c.s.remember(c.node.dbs, k, caller)
			}
		}
	}
	if c.multi == nil && c.inExec == 0 {
		if name != "CLIENT" {
			c.tracking.caching = false
		}
		if name != "ASKING" {
			c.asking = false
		}
	}
}

func (c *Conn) subCount() int { return len(c.subs) + len(c.psubs) + len(c.ssubs) }

// ----------------------------------------------------------------- connection

func cmdPing(c *Conn, a []string) resp.V {
	if c.proto < 3 && c.subCount() > 0 {
		msg := ""
		if len(a) > 1 {
			msg = a[1]
		}
		return resp.Arr(resp.Bulk("pong"), resp.Bulk(msg))
	}
	if len(a) > 1 {
		return resp.Bulk(a[1])
	}
	return resp.Simple("PONG")
}

func cmdEcho(c *Conn, a []string) resp.V { return resp.Bulk(a[1]) }

func cmdTime(c *Conn, a []string) resp.V {
	now := time.Now()
	return resp.Strs(strconv.FormatInt(now.Unix(), 10), strconv.FormatInt(int64(now.Nanosecond()/1000), 10))
}

func cmdQuit(c *Conn, a []string) resp.V {
	c.closeAfterDrain()
	return resp.Simple("OK")
}

func (c *Conn) checkAuth(user, pass string) bool {
	users := c.s.opts.Users
	if len(users) == 0 {
		return false // AUTH without configured password is an error in Redis
	}
	p, ok := users[user]
	return ok && p == pass
}

func cmdAuth(c *Conn, a []string) resp.V {
	c.Setup = append(c.Setup, "AUTH")
	user, pass := "default", a[1]
	if len(a) >= 3 {
		user, pass = a[1], a[2]
	}
	if len(c.s.opts.Users) == 0 {
		return resp.Err("ERR AUTH <password> called without any password configured for the default user. Are you sure your configuration is correct?")
	}
	if !c.checkAuth(user, pass) {
		return resp.Err("WRONGPASS invalid username-password pair or user is disabled.")
	}
	c.authed, c.user = true, user
	return resp.Simple("OK")
}

func cmdHello(c *Conn, a []string) resp.V {
	if c.s.opts.NoHello {
		return errReply("ERR unknown command 'HELLO', with args beginning with: ")
	}
	c.Setup = append(c.Setup, "HELLO")
	proto := c.proto
	i := 1
	if len(a) > 1 {
		p, ok := parseInt(a[1])
		if !ok || p < 2 || p > 3 {
			return resp.Err("NOPROTO unsupported protocol version")
		}
		proto = int(p)
		i = 2
	}
	for i < len(a) {
		switch up(a[i]) {
		case "AUTH":
			if i+2 >= len(a) {
				return errSyntax
			}
			if len(c.s.opts.Users) == 0 && !(a[i+1] == "default") {
				return resp.Err("WRONGPASS invalid username-password pair or user is disabled.")
			}
			if len(c.s.opts.Users) != 0 && !c.checkAuth(a[i+1], a[i+2]) {
				return resp.Err("WRONGPASS invalid username-password pair or user is disabled.")
			}
			if len(c.s.opts.Users) == 0 {
				return resp.Err("WRONGPASS invalid username-password pair or user is disabled.")
			}
			c.authed, c.user = true, a[i+1]
			i += 3
		case "SETNAME":
			if i+1 >= len(a) {
				return errSyntax
			}
			c.name = a[i+1]
			i += 2
		default:
			return errSyntax
		}
	}
	if !c.authed {
		return resp.Err("NOAUTH HELLO must be called with the client already authenticated, otherwise the HELLO <proto> AUTH <user> <pass> option can be used to authenticate the client and select the RESP protocol version at the same time")
	}
	c.proto = proto
	mode := "standalone"
	if c.s.cluster != nil {
		mode = "cluster"
	}
	if c.node.Role == "sentinel" {
		mode = "sentinel"
	}
	role := c.node.Role
	if role == "slave" {
		role = "replica"
	}
	kv := []resp.V{resp.Bulk("server"), resp.Bulk("redis"), resp.Bulk("version"), resp.Bulk(c.s.opts.Version), resp.Bulk("proto"), resp.Int(int64(proto)),
		resp.Bulk("id"), resp.Int(c.ID), resp.Bulk("mode"), resp.Bulk(mode), resp.Bulk("role"), resp.Bulk(role), resp.Bulk("modules"), resp.Arr()}
	if c.node.AZ != "" {
		kv = append(kv, resp.Bulk("availability_zone"), resp.Bulk(c.node.AZ))
	}
	return resp.Map(kv...)
}

func cmdSelect(c *Conn, a []string) resp.V {
	n, ok := parseInt(a[1])
	if !ok || n < 0 || n > 15 {
		return resp.Err("ERR DB index is out of range")
	}
	if c.s.cluster != nil && n != 0 {
		return resp.Err("ERR SELECT is not allowed in cluster mode")
	}
	c.Setup = append(c.Setup, "SELECT")
	c.db = int(n)
	return resp.Simple("OK")
}

func cmdReadonly(c *Conn, a []string) resp.V {
	if c.s.cluster == nil {
		return resp.Err("ERR This instance has cluster support disabled")
	}
	c.readonly = up(a[0]) == "READONLY"
	c.Setup = append(c.Setup, up(a[0]))
	return resp.Simple("OK")
}

func cmdAsking(c *Conn, a []string) resp.V {
	if c.s.cluster == nil {
		return resp.Err("ERR This instance has cluster support disabled")
	}
	c.asking = true
	return resp.Simple("OK")
}

func cmdRole(c *Conn, a []string) resp.V {
	role := c.node.Role
	if c.node.RoleOverride != "" {
		role = c.node.RoleOverride
	}
	switch role {
	case "master":
		return resp.Arr(resp.Bulk("master"), resp.Int(0), resp.Arr())
	case "sentinel":
		return resp.Arr(resp.Bulk("sentinel"), resp.Arr())
	}
	host, port := "127.0.0.1", int64(0)
	if c.node.primary != nil {
		h, p := splitHostPort(c.node.primary.Addr)
		host, port = h, p
	}
	return resp.Arr(resp.Bulk("slave"), resp.Bulk(host), resp.Int(port), resp.Bulk("connected"), resp.Int(0))
}

func splitHostPort(addr string) (string, int64) {
	i := strings.LastIndexByte(addr, ':')
	if i < 0 {
		return addr, 0
	}
	p, _ := strconv.ParseInt(addr[i+1:], 10, 64)
	return strings.Trim(addr[:i], "[]"), p
}

func cmdInfo(c *Conn, a []string) resp.V {
	var sb strings.Builder
	fmt.Fprintf(&sb, "# Server\r\nredis_version:%s\r\nredis_mode:standalone\r\n", c.s.opts.Version)
	if c.node.AZ != "" {
		fmt.Fprintf(&sb, "availability_zone:%s\r\n", c.node.AZ)
	}
	fmt.Fprintf(&sb, "# Replication\r\nrole:%s\r\n", c.node.Role)
	return resp.Bulk(sb.String())
}

func cmdClient(c *Conn, a []string) resp.V {
	sub := up(a[1])
	if !c.authed {
		return resp.Err("NOAUTH Authentication required.")
	}
	switch sub {
	case "SETNAME":
		if len(a) != 3 {
			return errArity("client|setname")
		}
		c.name = a[2]
		c.Setup = append(c.Setup, "SETNAME")
		return resp.Simple("OK")
	case "GETNAME":
		return bulkOrNil(c.name, c.name != "")
	case "ID":
		return resp.Int(c.ID)
	case "SETINFO":
		if len(a) != 4 {
			return errArity("client|setinfo")
		}
		switch up(a[2]) {
		case "LIB-NAME":
			c.libName = a[3]
		case "LIB-VER":
			c.libVer = a[3]
		default:
			return resp.Err("ERR Unrecognized option '" + a[2] + "'")
		}
		c.Setup = append(c.Setup, "SETINFO")
		return resp.Simple("OK")
	case "NO-EVICT", "NO-TOUCH":
		if len(a) != 3 || (up(a[2]) != "ON" && up(a[2]) != "OFF") {
			return errSyntax
		}
		if sub == "NO-EVICT" {
			c.noEvict = up(a[2]) == "ON"
		} else {
			c.noTouch = up(a[2]) == "ON"
		}
		c.Setup = append(c.Setup, sub)
		return resp.Simple("OK")
	case "CAPA":
		for _, x := range a[2:] {
			if strings.EqualFold(x, "redirect") {
				c.capaRedirect = true
			}
		}
		c.Setup = append(c.Setup, "CAPA")
		return resp.Simple("OK")
	case "TRACKING":
		return c.clientTracking(a)
	case "CACHING":
		if len(a) != 3 {
			return errSyntax
		}
		t := &c.tracking
		switch up(a[2]) {
		case "YES":
			if !t.on || !t.optin {
				return resp.Err("ERR CLIENT CACHING YES is only valid when tracking is enabled in OPTIN mode.")
			}
			t.caching = true
		case "NO":
			if !t.on || !t.optout {
				return resp.Err("ERR CLIENT CACHING NO is only valid when tracking is enabled in OPTOUT mode.")
			}
			t.caching = true
		default:
			return errSyntax
		}
		return resp.Simple("OK")
	case "INFO", "LIST":
		return resp.Bulk(fmt.Sprintf("id=%d name=%s db=%d user=%s resp=%d lib-name=%s lib-ver=%s\n", c.ID, c.name, c.db, c.user, c.proto, c.libName, c.libVer))
	case "KILL":
		return resp.Simple("OK")
	}
	return resp.Err("ERR unknown subcommand '" + a[1] + "'. Try CLIENT HELP.")
}

// SessionInfo is a snapshot of a connection's session settings (what C47 reads back).
type SessionInfo struct {
	ID                         int64
	Node                       string
	Proto                      int
	User, Name                 string
	DB                         int
	Authed                     bool
	LibName, LibVer            string
	Tracking, OptIn, OptOut    bool
	BCast, NoLoop              bool
	Prefixes                   []string
	ReadOnly, NoTouch, NoEvict bool
	CapaRedirect               bool
	Setup                      []string
	Subs                       int
}

// Session returns the session settings of an open connection.
func (s *Server) Session(id int64) (SessionInfo, bool) {
	s.mu.Lock()
	defer s.mu.Unlock()
	c := s.conns[id]
	if c == nil {
		return SessionInfo{}, false
	}
	return c.sessionLocked(), true
}

func (c *Conn) sessionLocked() SessionInfo {
	t := c.tracking
	return SessionInfo{ID: c.ID, Node: c.node.Addr, Proto: c.proto, User: c.user, Name: c.name, DB: c.db, Authed: c.authed, LibName: c.libName, LibVer: c.libVer,
		Tracking: t.on, OptIn: t.optin, OptOut: t.optout, BCast: t.bcast, NoLoop: t.noloop, Prefixes: append([]string{}, t.prefixes...),
		ReadOnly: c.readonly, NoTouch: c.noTouch, NoEvict: c.noEvict, CapaRedirect: c.capaRedirect, Setup: append([]string{}, c.Setup...), Subs: c.subCount()}
}

// Sessions returns the settings of every open connection.
func (s *Server) Sessions() []SessionInfo {
	s.mu.Lock()
	defer s.mu.Unlock()
	var out []SessionInfo
	for _, c := range s.conns {
		out = append(out, c.sessionLocked())
	}
	sort.Slice(out, func(i, j int) bool { return out[i].ID < out[j].ID })
	return out
}

// ------------------------------------------------------------ client tracking

type trackingState struct {
	on, optin, optout, bcast, noloop bool
	caching                          bool
	prefixes                         []string
}

func (c *Conn) clientTracking(a []string) resp.V {
	if len(a) < 3 {
		return errSyntax
	}
	if c.s.opts.NoTracking {
		return resp.Err("ERR unknown subcommand 'TRACKING'. Try CLIENT HELP.")
	}
	on := up(a[2])
	if on != "ON" && on != "OFF" {
		return errSyntax
	}
	var t trackingState
	t.on = on == "ON"
	redirect := false
	for i := 3; i < len(a); i++ {
		switch up(a[i]) {
		case "OPTIN":
			t.optin = true
		case "OPTOUT":
			t.optout = true
		case "BCAST":
			t.bcast = true
		case "NOLOOP":
			t.noloop = true
		case "PREFIX":
			if i+1 >= len(a) {
				return errSyntax
			}
			t.prefixes = append(t.prefixes, a[i+1])
			i++
		case "REDIRECT":
			redirect = true
			i++
		default:
			return errSyntax
		}
	}
	if !t.on {
		c.s.untrackConnLocked(c)
		c.tracking = trackingState{}
		c.Setup = append(c.Setup, "TRACKING-OFF")
		return resp.Simple("OK")
	}
	if c.proto < 3 && !redirect {
		return resp.Err("ERR Client tracking is only supported in RESP3 mode or with redirection")
	}
	if t.optin && t.optout {
		return resp.Err("ERR You can't specify both OPTIN mode and OPTOUT mode")
	}
	if (t.optin || t.optout) && t.bcast {
		return resp.Err("ERR OPTIN and OPTOUT are not compatible with BCAST")
	}
	if len(t.prefixes) > 0 && !t.bcast {
		return resp.Err("ERR PREFIX option requires BCAST mode to be enabled")
	}
	if c.tracking.on && c.tracking.bcast != t.bcast {
		return resp.Err("ERR You can't switch BCAST mode on/off before disabling tracking for this client, and then re-enabling it with a different mode.")
	}
	c.tracking = t
	c.Setup = append(c.Setup, "TRACKING")
	return resp.Simple("OK")
}

func (s *Server) remember(ks *keyspace, key string, c *Conn) {
	m := ks.track[key]
	if m == nil {
		m = map[*Conn]struct{}{}
		ks.track[key] = m
	}
	m[c] = struct{}{}
}

func (s *Server) untrackConnLocked(c *Conn) {
	if !c.tracking.on {
		return
	}
	ks := c.node.dbs
	for k, m := range ks.track {
		delete(m, c)
		if len(m) == 0 {
			delete(ks.track, k)
		}
	}
}

func invalidatePush(key string, null bool) resp.V {
	if null {
		return resp.Push(resp.Bulk("invalidate"), resp.Null())
	}
	return resp.Push(resp.Bulk("invalidate"), resp.Arr(resp.Bulk(key)))
}

// pushTo queues a push for target; pushes caused by target's own command are deferred until its reply is queued.
func (s *Server) pushTo(target, cause *Conn, v resp.V) {
	if target.closed.Load() || target.proto < 3 {
		return
	}
	if cause != nil && (target == cause || (cause.scriptFor == target)) {
		target.pending = append(target.pending, v)
		return
	}
	target.enqueue("push", v, nil)
}

func (c *Conn) flushPendingPushes() {
	if c.inExec > 0 {
		return
	}
	for _, p := range c.pending {
		c.enqueue("push", p, nil)
	}
	c.pending = nil
}

// invalidate sends invalidation pushes for a modified key (cause = the connection whose command modified it, nil for expiry).
func (s *Server) invalidate(ks *keyspace, key string, cause *Conn) {
	writer := cause
	if writer != nil && writer.scriptFor != nil {
		writer = writer.scriptFor
	}
	if m := ks.track[key]; m != nil {
		var targets []*Conn
		for t := range m {
			targets = append(targets, t)
		}
		sort.Slice(targets, func(i, j int) bool { return targets[i].ID < targets[j].ID })
		for _, t := range targets {
			if t == writer && t.tracking.noloop {
				continue
			}
			s.pushTo(t, cause, invalidatePush(key, false))
		}
		delete(ks.track, key)
	}
	// broadcasting clients
	for _, t := range s.sortedConns() {
		if !t.tracking.on || !t.tracking.bcast || t.node.dbs != ks {
			continue
		}
		if t == writer && t.tracking.noloop {
			continue
		}
		match := len(t.tracking.prefixes) == 0
		for _, p := range t.tracking.prefixes {
			if strings.HasPrefix(key, p) {
				match = true
			}
		}
		if match {
			s.pushTo(t, cause, invalidatePush(key, false))
		}
	}
}

func (s *Server) sortedConns() []*Conn {
	cs := make([]*Conn, 0, len(s.conns))
	for _, c := range s.conns {
		cs = append(cs, c)
	}
	sort.Slice(cs, func(i, j int) bool { return cs[i].ID < cs[j].ID })
	return cs
}

func (s *Server) invalidateAll(ks *keyspace, cause *Conn) {
	for _, t := range s.sortedConns() {
		if t.tracking.on && t.node.dbs == ks {
			s.pushTo(t, cause, invalidatePush("", true))
		}
	}
	for k := range ks.track {
		delete(ks.track, k)
	}
}

// EvictHint simulates the server dropping a key from its tracking table (table full): it invalidates it for everyone.
func (n *Node) EvictHint(key string) {
	n.s.mu.Lock()
	n.s.invalidate(n.dbs, key, nil)
	n.s.mu.Unlock()
}

// --------------------------------------------------------------- transactions

type multiState struct {
	queue [][]string
	dirty bool
}

type watchKey = dbkey

func cmdMulti(c *Conn, a []string) resp.V {
	if c.multi != nil {
		return resp.Err("ERR MULTI calls can not be nested")
	}
	c.multi = &multiState{}
	return resp.Simple("OK")
}

func cmdDiscard(c *Conn, a []string) resp.V {
	if c.multi == nil {
		return resp.Err("ERR DISCARD without MULTI")
	}
	c.multi = nil
	c.watch = nil
	return resp.Simple("OK")
}

func cmdWatch(c *Conn, a []string) resp.V {
	if c.multi != nil {
		return resp.Err("ERR WATCH inside MULTI is not allowed")
	}
	if c.watch == nil {
		c.watch = map[watchKey]int64{}
	}
	for _, k := range a[1:] {
		c.lookup(k) // expire lazily first
		wk := dbkey{c.db, k}
		if _, ok := c.watch[wk]; !ok {
			c.watch[wk] = c.node.dbs.vers[wk]
		}
	}
	return resp.Simple("OK")
}

func cmdUnwatch(c *Conn, a []string) resp.V {
	c.watch = nil
	return resp.Simple("OK")
}

func cmdExec(c *Conn, a []string) resp.V {
	if c.multi == nil {
		return resp.Err("ERR EXEC without MULTI")
	}
	m := c.multi
	c.multi = nil
	watch := c.watch
	c.watch = nil
	if m.dirty {
		return resp.Err("EXECABORT Transaction discarded because of previous errors.")
	}
	for wk, ver := range watch {
		if e := c.node.dbs.m[wk]; e != nil && !e.expireAt.IsZero() && !time.Now().Before(e.expireAt) {
			c.s.expireKey(c.node, wk)
		}
		if c.node.dbs.vers[wk] != ver {
			return resp.NullArr()
		}
	}
	if c.AbortNextExec {
		c.AbortNextExec = false
		return resp.NullArr()
	}
	c.inExec++
	out := make([]resp.V, 0, len(m.queue))
	for _, q := range m.queue {
		name := up(q[0])
		def := commands[name]
		var v resp.V
		if name == "BLPOP" || name == "BRPOP" {
			v, _ = c.blockingPopNow(q)
			c.s.logEvent(Event{Node: c.node.Addr, Conn: c.ID, Kind: "exec", Argv: q})
		} else {
			v = c.run(name, def, q)
		}
		if v.T == 0 {
			v = resp.Simple("OK")
		}
		out = append(out, v)
	}
	c.inExec--
	return resp.Arr(out...)
}

// ------------------------------------------------------------------- pub/sub

type pubsubState struct {
	chans    map[string]map[*Conn]struct{}
	patterns map[string]map[*Conn]struct{}
	shards   map[string]map[*Conn]struct{}
}

func (s *Server) ps() *pubsubState {
	if s.pubsub == nil {
		s.pubsub = &pubsubState{chans: map[string]map[*Conn]struct{}{}, patterns: map[string]map[*Conn]struct{}{}, shards: map[string]map[*Conn]struct{}{}}
	}
	return s.pubsub
}

func (c *Conn) subMaps(name string) (kind string, mine map[string]struct{}, reg map[string]map[*Conn]struct{}) {
	ps := c.s.ps()
	switch name[0] {
	case 'P':
		return "p", c.psubs, ps.patterns
	case 'S':
		if strings.HasPrefix(name, "SS") || strings.HasPrefix(name, "SU") && name != "SUBSCRIBE" {
			return "s", c.ssubs, ps.shards
		}
	}
	return "", c.subs, ps.chans
}

func cmdSubscribe(c *Conn, a []string) resp.V {
	name := up(a[0])
	kind, mine, reg := c.subMaps(name)
	if c.node.sentinel != nil {
		if c.node.sentinel.subs == nil {
			c.node.sentinel.subs = map[*Conn]map[string]struct{}{}
		}
	}
	for _, ch := range a[1:] {
		mine[ch] = struct{}{}
		if reg[ch] == nil {
			reg[ch] = map[*Conn]struct{}{}
		}
		reg[ch][c] = struct{}{}
		n := int64(len(c.subs) + len(c.psubs))
		if kind == "s" {
			n = int64(len(c.ssubs))
		}
		c.pending = append(c.pending, resp.Push(resp.Bulk(kind+"subscribe"), resp.Bulk(ch), resp.Int(n)))
	}
	c.s.logEvent(Event{Node: c.node.Addr, Conn: c.ID, Kind: "exec", Argv: a})
	return noReply
}

func cmdUnsubscribe(c *Conn, a []string) resp.V {
	name := up(a[0])
	kind, mine, reg := c.subMaps(name)
	chans := a[1:]
	if len(chans) == 0 {
		for ch := range mine {
			chans = append(chans, ch)
		}
		sort.Strings(chans)
		if len(chans) == 0 {
			n := int64(len(c.subs) + len(c.psubs))
			if kind == "s" {
				n = int64(len(c.ssubs))
			}
			c.pending = append(c.pending, resp.Push(resp.Bulk(kind+"unsubscribe"), resp.Null(), resp.Int(n)))
		}
	}
	for _, ch := range chans {
		delete(mine, ch)
		if reg[ch] != nil {
			delete(reg[ch], c)
			if len(reg[ch]) == 0 {
				delete(reg, ch)
			}
		}
		n := int64(len(c.subs) + len(c.psubs))
		if kind == "s" {
			n = int64(len(c.ssubs))
		}
		c.pending = append(c.pending, resp.Push(resp.Bulk(kind+"unsubscribe"), resp.Bulk(ch), resp.Int(n)))
	}
	c.s.logEvent(Event{Node: c.node.Addr, Conn: c.ID, Kind: "exec", Argv: a})
	return noReply
}

// publishLocked delivers a message; returns the number of receivers.
func (s *Server) publishLocked(kind, channel, msg string, cause *Conn) int64 {
	ps := s.ps()
	n := int64(0)
	deliver := func(m map[*Conn]struct{}, v resp.V) {
		var ts []*Conn
		for t := range m {
			ts = append(ts, t)
		}
		sort.Slice(ts, func(i, j int) bool { return ts[i].ID < ts[j].ID })
		for _, t := range ts {
			if t.closed.Load() {
				continue
			}
			if t == cause {
				t.pending = append(t.pending, v)
			} else {
				t.enqueuePubSub(v)
			}
			n++
		}
	}
	if kind == "s" {
		deliver(ps.shards[channel], resp.Push(resp.Bulk("smessage"), resp.Bulk(channel), resp.Bulk(msg)))
		return n
	}
	deliver(ps.chans[channel], resp.Push(resp.Bulk("message"), resp.Bulk(channel), resp.Bulk(msg)))
	var pats []string
	for p := range ps.patterns {
		pats = append(pats, p)
	}
	sort.Strings(pats)
	for _, p := range pats {
		if globMatch(p, channel) {
			deliver(ps.patterns[p], resp.Push(resp.Bulk("pmessage"), resp.Bulk(p), resp.Bulk(channel), resp.Bulk(msg)))
		}
	}
	return n
}

// enqueuePubSub queues a pub/sub frame; RESP2 connections get it as a plain array.
func (c *Conn) enqueuePubSub(v resp.V) { c.enqueue("push", v, nil) }

func cmdPublish(c *Conn, a []string) resp.V {
	kind := ""
	if up(a[0]) == "SPUBLISH" {
		kind = "s"
	}
	return resp.Int(c.s.publishLocked(kind, a[1], a[2], c))
}

// Publish publishes from the driver (not a client connection).
func (s *Server) Publish(channel, msg string) int64 {
	s.mu.Lock()
	defer s.mu.Unlock()
	s.logEvent(Event{Kind: "exec", Argv: []string{"PUBLISH", channel, msg}})
	return s.publishLocked("", channel, msg, nil)
}

// SPublish publishes to a shard channel from the driver.
func (s *Server) SPublish(channel, msg string) int64 {
	s.mu.Lock()
	defer s.mu.Unlock()
	s.logEvent(Event{Kind: "exec", Argv: []string{"SPUBLISH", channel, msg}})
	return s.publishLocked("s", channel, msg, nil)
}

// ForceUnsubscribe makes the server drop a connection's (shard) subscription proactively, as on slot migration.
func (s *Server) ForceUnsubscribe(id int64, kind, channel string) {
	s.mu.Lock()
	defer s.mu.Unlock()
	c := s.conns[id]
	if c == nil {
		return
	}
	name := map[string]string{"": "UNSUBSCRIBE", "p": "PUNSUBSCRIBE", "s": "SUNSUBSCRIBE"}[kind]
	_, mine, reg := c.subMaps(name)
	if _, ok := mine[channel]; !ok {
		return
	}
	delete(mine, channel)
	if reg[channel] != nil {
		delete(reg[channel], c)
	}
	n := int64(len(c.subs) + len(c.psubs))
	if kind == "s" {
		n = int64(len(c.ssubs))
	}
	c.enqueue("push", resp.Push(resp.Bulk(kind+"unsubscribe"), resp.Bulk(channel), resp.Int(n)), nil)
}

// ------------------------------------------------------------------ blocking

type blockedClient struct {
	c       *Conn
	db      int
	keys    []string
	left    bool
	timeout time.Duration
	ch      chan resp.V
	argv    []string
}

func (c *Conn) blockingPopNow(a []string) (resp.V, bool) {
	left := up(a[0]) == "BLPOP"
	for _, k := range a[1 : len(a)-1] {
		if e := c.lookup(k); e != nil && e.typ != 'l' {
			return wrongType, true
		}
		if v, ok := c.popOne(k, left); ok {
			return resp.Strs(k, v), true
		}
	}
	return resp.NullArr(), false
}

func (c *Conn) blockingPop(a []string) (resp.V, *blockedClient) {
	to, err := strconv.ParseFloat(a[len(a)-1], 64)
	if err != nil || to < 0 {
		return resp.Err("ERR timeout is not a float or out of range"), nil
	}
	if v, ok := c.blockingPopNow(a); ok {
		return v, nil
	}
	b := &blockedClient{c: c, db: c.db, keys: a[1 : len(a)-1], left: up(a[0]) == "BLPOP", timeout: time.Duration(to * float64(time.Second)), ch: make(chan resp.V, 1), argv: a}
	c.node.blocked = append(c.node.blocked, b)
	return resp.V{}, b
}

func (b *blockedClient) cancel() {
	select {
	case b.ch <- resp.NullArr():
	default:
	}
}

// wait parks the connection's processor until data arrives, the timeout elapses or the connection closes.
func (b *blockedClient) wait() (resp.V, bool) {
	var tc <-chan time.Time
	if b.timeout > 0 {
		t := time.NewTimer(b.timeout)
		defer t.Stop()
		tc = t.C
	}
	var v resp.V
	ok := true
	select {
	case v = <-b.ch:
	case <-tc:
		v = resp.NullArr()
	case <-b.c.closeCh:
		ok = false
	}
	s := b.c.s
	s.mu.Lock()
	n := b.c.node
	for i, o := range n.blocked {
		if o == b {
			n.blocked = append(n.blocked[:i], n.blocked[i+1:]...)
			break
		}
	}
	// a value may have been delivered concurrently with the timeout
	select {
	case vv := <-b.ch:
		if ok && v.Null2 {
			v = vv
		}
	default:
	}
	if ok {
		s.logEvent(Event{Node: n.Addr, Conn: b.c.ID, Kind: "exec", Argv: b.argv, Reply: v})
	}
	s.mu.Unlock()
	return v, ok
}

func (s *Server) serveBlocked(n *Node, db int, key string) {
	for i := 0; i < len(n.blocked); i++ {
		b := n.blocked[i]
		if b.db != db || b.c.node.dbs != n.dbs {
			continue
		}
		for _, k := range b.keys {
			if k != key {
				continue
			}
			saved := b.c.db
			if v, ok := b.c.popOne(key, b.left); ok {
				n.blocked = append(n.blocked[:i], n.blocked[i+1:]...)
				i--
				b.ch <- resp.Strs(key, v)
			}
			b.c.db = saved
			break
		}
	}
}

// ----------------------------------------------------------------- scripting

type scriptEntry struct {
	src    string
	script *minilua.Script
	Runs   int64
}

func sha1hex(s string) string {
	h := sha1.Sum([]byte(s))
	return hex.EncodeToString(h[:])
}

// ScriptRuns returns how many times the body of the script with the given source was executed.
func (s *Server) ScriptRuns(src string) int64 {
	s.mu.Lock()
	defer s.mu.Unlock()
	if e := s.allScripts[sha1hex(src)]; e != nil {
		return e.Runs
	}
	return 0
}

// TotalScriptRuns returns the number of script body executions on the server so far.
func (s *Server) TotalScriptRuns() int64 { s.mu.Lock(); defer s.mu.Unlock(); return s.scriptRuns }

func replyToV(r minilua.Reply) resp.V {
	switch r.Kind {
	case '+':
		return resp.Simple(r.Str)
	case '-':
		return resp.Err(r.Str)
	case ':':
		return resp.Int(r.Int)
	case '$':
		return resp.Bulk(r.Str)
	case '*':
		a := make([]resp.V, len(r.Elems))
		for i, e := range r.Elems {
			a[i] = replyToV(e)
		}
		return resp.Arr(a...)
	}
	return resp.NullBulk()
}

func vToReply(v resp.V) minilua.Reply {
	if v.IsNull() {
		return minilua.Reply{Kind: '_'}
	}
	switch v.T {
	case '+':
		return minilua.Reply{Kind: '+', Str: v.S}
	case '-', '!':
		return minilua.Reply{Kind: '-', Str: v.S}
	case ':':
		return minilua.Reply{Kind: ':', Int: v.I}
	case '#':
		if v.I != 0 {
			return minilua.Reply{Kind: ':', Int: 1}
		}
		return minilua.Reply{Kind: '_'}
	case '$', '=', ',', '(':
		return minilua.Reply{Kind: '$', Str: v.S}
	case '*', '~', '%', '>':
		r := minilua.Reply{Kind: '*', Elems: make([]minilua.Reply, len(v.A))}
		for i, e := range v.A {
			r.Elems[i] = vToReply(e)
		}
		return r
	}
	return minilua.Reply{Kind: '_'}
}

func cmdEval(c *Conn, a []string) resp.V {
	name := up(a[0])
	ro := strings.HasSuffix(name, "_RO")
	bySha := strings.HasPrefix(name, "EVALSHA")
	nk, ok := parseInt(a[2])
	if !ok || nk < 0 || int(nk) > len(a)-3 {
		return resp.Err("ERR Number of keys can't be greater than number of args")
	}
	var se *scriptEntry
	if bySha {
		se = c.node.scriptCache()[strings.ToLower(a[1])]
		if se == nil {
			return resp.Err("NOSCRIPT No matching script. Please use EVAL.")
		}
	} else {
		var err resp.V
		if se, err = c.s.loadScript(c.node, a[1]); se == nil {
			return err
		}
	}
	keys, args := a[3:3+nk], a[3+nk:]
	se.Runs++
	c.s.scriptRuns++
	c.s.logEvent(Event{Node: c.node.Addr, Conn: c.ID, Kind: "script", Argv: []string{sha1hex(se.src)}})
	// the script runs on a shadow connection sharing the caller's session; effects are attributed to the caller
	sc := &Conn{s: c.s, node: c.node, ID: c.ID, proto: 2, authed: true, user: c.user, db: c.db, closeCh: c.closeCh, cutAfter: -1,
		subs: map[string]struct{}{}, psubs: map[string]struct{}{}, ssubs: map[string]struct{}{}, scriptFor: c, asking: c.asking, readonly: c.readonly}
	sc.closed.Store(true)
	sc.inExec = 1
	call := func(argv []string) minilua.Reply {
		if len(argv) == 0 {
			return minilua.Reply{Kind: '-', Str: "ERR Please specify at least one argument for this redis lib call"}
		}
		n := up(argv[0])
		def := commands[n]
		if def == nil || def.fn == nil || n == "EVAL" || n == "EVALSHA" || n == "MULTI" || n == "EXEC" || n == "SUBSCRIBE" || n == "WATCH" {
			return minilua.Reply{Kind: '-', Str: "ERR Unknown Redis command called from script"}
		}
		if (def.arity > 0 && len(argv) != def.arity) || (def.arity < 0 && len(argv) < -def.arity) {
			return minilua.Reply{Kind: '-', Str: "ERR Wrong number of args calling Redis command from script"}
		}
		if ro && def.write {
			return minilua.Reply{Kind: '-', Str: "ERR Write commands are not allowed from read-only scripts."}
		}
		if def.write && c.node.Role == "slave" {
			return minilua.Reply{Kind: '-', Str: "READONLY You can't write against a read only replica."}
		}
		v := def.fn(sc, argv)
		c.s.logEvent(Event{Node: c.node.Addr, Conn: c.ID, Kind: "exec", Argv: argv, Reply: v, Note: "script"})
		if def.ro && v.T != '-' && def.keys != nil {
			t := &c.tracking
			if t.on && !t.bcast && !(t.optin && !t.caching) && !(t.optout && t.caching) {
				for _, k := range def.keys(argv) {
					c.s.remember(c.node.dbs, k, c)
				}
			}
		}
		return vToReply(v)
	}
	r := se.script.Run(keys, args, call, 2_000_000)
	return replyToV(r)
}

func (n *Node) scriptCache() map[string]*scriptEntry {
	if n.scripts == nil {
		n.scripts = map[string]*scriptEntry{}
	}
	return n.scripts
}

func (s *Server) loadScript(n *Node, src string) (*scriptEntry, resp.V) {
	sha := sha1hex(src)
	if se := n.scriptCache()[sha]; se != nil {
		return se, resp.V{}
	}
	se := s.allScripts[sha]
	if se == nil {
		sc, err := minilua.Compile(src)
		if err != nil {
			s.Counters["lua_compile_errors"]++
			return nil, resp.Err(err.Error())
		}
		se = &scriptEntry{src: src, script: sc}
		if s.allScripts == nil {
			s.allScripts = map[string]*scriptEntry{}
		}
		s.allScripts[sha] = se
	}
	n.scriptCache()[sha] = se
	return se, resp.V{}
}

func cmdScript(c *Conn, a []string) resp.V {
	switch up(a[1]) {
	case "LOAD":
		if len(a) != 3 {
			return errArity("script|load")
		}
		se, err := c.s.loadScript(c.node, a[2])
		if se == nil {
			return err
		}
		return resp.Bulk(sha1hex(a[2]))
	case "FLUSH":
		c.node.scripts = nil
		return resp.Simple("OK")
	case "EXISTS":
		var out []resp.V
		for _, h := range a[2:] {
			if c.node.scriptCache()[strings.ToLower(h)] != nil {
				out = append(out, resp.Int(1))
			} else {
				out = append(out, resp.Int(0))
			}
		}
		return resp.Arr(out...)
	}
	return resp.Err("ERR unknown subcommand '" + a[1] + "'. Try SCRIPT HELP.")
}

// ScriptFlush drops the script cache of a node (as SCRIPT FLUSH or a restart would).
func (n *Node) ScriptFlush() { n.s.mu.Lock(); n.scripts = nil; n.s.mu.Unlock() }

// ------------------------------------------------------------------ VERIF.ECHO

// EchoValue is the deterministic reply of VERIF.ECHO for (uid, shape); the oracle computes it the same way.
func EchoValue(uid, shape string) resp.V {
	switch shape {
	case "", "str":
		return resp.Bulk("echo:" + uid)
	case "simple":
		return resp.Simple("echo:" + uid)
	case "int":
		h := int64(0)
		for _, b := range []byte(uid) {
			h = h*131 + int64(b)
		}
		return resp.Int(h & 0xffffffffffff)
	case "err":
		return resp.Err("ERR echo:" + uid)
	case "nil":
		return resp.NullBulk()
	case "arr":
		return resp.Arr(resp.Bulk("echo:"+uid), resp.Int(int64(len(uid))), resp.Arr(resp.Bulk(uid)))
	case "map":
		return resp.Map(resp.Bulk("uid"), resp.Bulk(uid), resp.Bulk("n"), resp.Int(int64(len(uid))))
	case "set":
		return resp.Set(resp.Bulk("echo:" + uid))
	case "double":
		return resp.Double(strconv.Itoa(len(uid)) + ".5")
	case "bool":
		return resp.Bool(len(uid)%2 == 0)
	case "attr":
		v := resp.Bulk("echo:" + uid)
		v.Attr = []resp.V{resp.Bulk("ttl"), resp.Int(int64(len(uid)))}
		return v
	case "stream":
		v := resp.Bulk("echo:" + uid)
		v.Stream = true
		v.Chunks = []int{1, 2}
		return v
	case "big":
		return resp.Bulk("echo:" + uid + ":" + strings.Repeat("x", 70000))
	case "nested":
		return resp.Arr(resp.Arr(resp.Arr(resp.Bulk("echo:"+uid))), resp.Map(resp.Bulk("k"), resp.Arr(resp.Bulk(uid), resp.Null())))
	}
	return resp.Bulk("echo:" + uid + ":" + shape)
}

// VERIF.ECHO <key> <uid> [shape]
func cmdVerifEcho(c *Conn, a []string) resp.V {
	shape := ""
	if len(a) > 3 {
		shape = a[3]
	}
	return EchoValue(a[2], shape)
}
