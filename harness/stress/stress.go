// Package stress is the shared hostile workload over one rueidis client: many
// callers issuing uid-carrying commands of every call kind on shared
// connections, with cancellation, pub/sub pushes and invalidations interleaved.
// C01 decides reply routing with it, C33 the integrity of what reaches the wire.
package stress

import (
	"context"
	"fmt"
	"os"
	"runtime"
	"sort"
	"strconv"
	"strings"
	"sync"
	"sync/atomic"
	"time"

	"github.com/redis/rueidis"
	"verifh/drv"
	"verifh/fakeredis"
	"verifh/mon"
	"verifh/resp"
)

// Config is one client/server configuration of the workload.
type Config struct {
	Name      string
	Queue     string // "ring" | "flowbuffer"
	RESP2     bool
	Multiplex int
	RingScale int
	Always    bool // AlwaysPipelining
	Flush     time.Duration
	Callers   int
	Ops       int // operations per caller
	CancelPct int // percentage of calls whose context is cancelled at a random moment
	Deadline  bool
	NoCache   bool
	Latency   bool // the server delays some replies (virtual-time runs)
	Cluster   bool // three-node cluster and a cluster client (keys of one caller share a slot)
	Seed      int64
}

func (c Config) String() string {
	return fmt.Sprintf("%s queue=%s resp2=%v mux=%d ring=%d always=%v flush=%v callers=%d ops=%d cancel=%d%% deadline=%v", c.Name, c.Queue, c.RESP2, c.Multiplex, c.RingScale, c.Always, c.Flush, c.Callers, c.Ops, c.CancelPct, c.Deadline)
}

var shapes = []string{"str", "simple", "int", "err", "nil", "arr", "map", "set", "double", "bool", "attr", "stream", "nested", "str", "str", "int"}

// Stats is what the monitor observed in one run.
type Stats struct {
	Calls, Cmds, OK, CtxErr, OtherErr  int64
	CancelledButExecuted               int64
	Overlapped                         int64
	WireInversions                     int64 // adjacent commands on one connection whose issue order was the opposite
	Pushes, PubSubDelivered, CacheHits int64
	ReceiveCalls                       int64
	BadFrames                          int64
	Conns                              int64
}

type issued struct {
	key, shape string
	done       atomic.Bool
}

// Run executes the workload and reports violations on run under the given property id semantics.
// checkFrames enables the C33 wire-integrity monitor (every received VERIF.* frame must be exactly what was issued).
func Run(run *mon.Run, cfg Config, checkFrames bool) Stats {
	var st Stats
	const addr = "127.0.0.1:6379"
	rueidis.VerifSetQueueType(cfg.Queue)
	defer rueidis.VerifSetQueueType("")
	addrs := []string{addr}
	if cfg.Cluster {
		addrs = []string{addr, "127.0.0.1:6380", "127.0.0.1:6381"}
	}
	srv := fakeredis.New(fakeredis.Options{ChunkWrites: true, NoLog: true, Seed: cfg.Seed}, addrs...)
	if cfg.Cluster {
		srv.EnableCluster()
	}

	var regMu sync.Mutex
	registry := map[string]*issued{} // uid -> what was issued
	execs := map[string]int{}        // uid -> executions seen by the server
	lastStamp := map[int64]int64{}   // conn -> issue stamp of the previous command on that wire
	srv.OnEvent = func(e fakeredis.Event) {
		switch e.Kind {
		case "accept":
			atomic.AddInt64(&st.Conns, 1)
		case "push":
			atomic.AddInt64(&st.Pushes, 1)
		case "close", "fault":
			if os.Getenv("VERIF_DEBUG") != "" {
				fmt.Printf("DEBUG server event %s conn=%d note=%q argv=%v\n", e.Kind, e.Conn, e.Note, e.Argv)
			}
		case "recv":
			if len(e.Argv) == 0 || !strings.HasPrefix(e.Argv[0], "VERIF.") {
				return
			}
			regMu.Lock()
			defer regMu.Unlock()
			if checkFrames {
				bad := ""
				if len(e.Argv) != 4 {
					bad = "argument count"
				} else if is := registry[e.Argv[2]]; is == nil {
					bad = "unknown uid"
				} else if is.key != e.Argv[1] || is.shape != e.Argv[3] {
					bad = "arguments differ from what was issued"
				}
				if bad != "" {
					atomic.AddInt64(&st.BadFrames, 1)
					run.Violation("frame-modified", bad+"|"+cfg.Name, map[string]any{"config": cfg.String(), "frame": e.Argv, "conn": e.Conn, "why": bad})
					return
				}
			}
			if len(e.Argv) >= 3 {
				if p := strings.LastIndexByte(e.Argv[2], '.'); p > 0 {
					if stamp, err := strconv.ParseInt(e.Argv[2][p+1:], 10, 64); err == nil {
						if stamp < lastStamp[e.Conn] {
							atomic.AddInt64(&st.WireInversions, 1)
						}
						lastStamp[e.Conn] = stamp
					}
				}
			}
		case "exec":
			if len(e.Argv) >= 3 && strings.HasPrefix(e.Argv[0], "VERIF.") {
				regMu.Lock()
				execs[e.Argv[2]]++
				regMu.Unlock()
			}
		}
	}

	if cfg.Latency {
		srv.Plan(&fakeredis.Rule{Name: "latency", Match: func(_ *fakeredis.Conn, a []string) bool {
			return len(a) > 2 && strings.HasPrefix(a[0], "VERIF.") && len(a[2])%3 == 0
		}, Action: fakeredis.Action{DelayReply: 200 * time.Microsecond}})
	}
	opt := drv.Option(srv, addr)
	opt.AlwaysRESP2 = cfg.RESP2
	opt.DisableCache = cfg.RESP2 || cfg.NoCache
	opt.PipelineMultiplex = cfg.Multiplex
	opt.RingScaleEachConn = cfg.RingScale
	opt.AlwaysPipelining = cfg.Always
	opt.MaxFlushDelay = cfg.Flush
	opt.BlockingPoolSize = 4
	opt.ForceSingleClient = !cfg.Cluster
	opt.DisableRetry = true
	client, err := rueidis.NewClient(opt)
	if err != nil {
		run.Inconclusive("client setup failed: " + err.Error())
		srv.Close()
		return st
	}

	// dial every multiplexed wire up front with an uncancellable context: wires are dialled lazily with the context of
	// whichever caller needs them first, and a dial that fails because that caller was cancelled is shared with the
	// callers queued behind it (they would see a context error that is not theirs).
	wires := 1
	if cfg.Multiplex >= 0 {
		wires = 1 << rueidisSingleMultiplex(cfg.Multiplex)
	}
	if cfg.Cluster {
		wires *= len(addrs)
	}
	for i := 0; i < 20000 && len(srv.Conns("")) < wires; i++ {
		client.Do(context.Background(), client.B().Arbitrary("PING").Keys("warm"+strconv.Itoa(i)).Build())
	}
	// the driver's own writes go to the node that owns the key
	nodeFor := func(key string) *fakeredis.Node {
		if cfg.Cluster {
			return srv.Node(srv.SlotOwner(fakeredis.Slot(key)))
		}
		return srv.Node(addr)
	}
	const nkeys = 6
	for i := 0; i < nkeys; i++ {
		nodeFor(fmt.Sprintf("shared%d", i)).Exec("SET", fmt.Sprintf("shared%d", i), fmt.Sprintf("val:shared%d:0", i))
		nodeFor(fmt.Sprintf("hash%d", i)).Exec("HSET", fmt.Sprintf("hash%d", i), "f", fmt.Sprintf("val:hash%d:0", i))
	}

	// background writer (invalidations) and publisher (pub/sub pushes)
	stop := make(chan struct{})
	var bg sync.WaitGroup
	bg.Add(2)
	// In a bubble the two background loops end by themselves after 30 virtual seconds (a history lasts a fraction of one):
	// while they run the bubble is never idle, so a wedged history would neither be a synctest deadlock nor reach
	// drv.Bubble's virtual-time guard within any reasonable real time; once they have ended, it is a deadlock.
	bgRounds := -1
	if drv.InBubble() {
		bgRounds = 150000
	}
	go func() {
		defer bg.Done()
		for v := 1; v != bgRounds; v++ {
			select {
			case <-stop:
				return
			default:
			}
			k := v % nkeys
			nodeFor(fmt.Sprintf("shared%d", k)).Exec("SET", fmt.Sprintf("shared%d", k), fmt.Sprintf("val:shared%d:%d", k, v))
			nodeFor(fmt.Sprintf("hash%d", k)).Exec("HSET", fmt.Sprintf("hash%d", k), "f", fmt.Sprintf("val:hash%d:%d", k, v))
			time.Sleep(200 * time.Microsecond)
		}
	}()
	var actMu sync.Mutex
	active := map[string]int{} // channel -> last published number; every Receive uses channels of its own
	go func() {
		defer bg.Done()
		for round := 1; round != 2*bgRounds; round++ {
			select {
			case <-stop:
				return
			default:
			}
			actMu.Lock()
			chans := make([]string, 0, len(active))
			for c := range active {
				chans = append(chans, c)
			}
			actMu.Unlock()
			for _, c := range chans {
				actMu.Lock()
				n, ok := active[c]
				if ok {
					active[c] = n + 1
				}
				actMu.Unlock()
				if ok {
					srv.Publish(c, strconv.Itoa(n+1))
				}
			}
			time.Sleep(100 * time.Microsecond)
		}
	}()

	conv := func(v resp.V) rueidis.VerifNode {
		if cfg.RESP2 {
			return drv.ExpectNode(resp.ToRESP2(v))
		}
		return drv.ExpectNode(v)
	}
	var inflight atomic.Int64

	// checkEcho verifies one result against the reply function of its own uid.
	checkEcho := func(kind, uid, shape string, res rueidis.RedisResult) (ok bool) {
		if err := res.NonRedisError(); err != nil {
			return false
		}
		regMu.Lock()
		registry[uid].done.Store(true)
		regMu.Unlock()
		msg, _ := res.ToMessage()
		got := rueidis.VerifDump(msg)
		want := conv(fakeredis.EchoValue(uid, shape))
		if !drv.NodeEqual(got, want) {
			run.Violation("wrong-reply", kind+"|"+shape+"|"+cfg.Name, map[string]any{"config": cfg.String(), "kind": kind, "uid": uid, "shape": shape,
				"got": drv.NodeString(got), "want": drv.NodeString(want)})
		}
		return true
	}

	var wg sync.WaitGroup
	for ci := 0; ci < cfg.Callers; ci++ {
		wg.Add(1)
		go func(ci int) {
			defer wg.Done()
			rng := run.Rand(fmt.Sprintf("%s/caller%d", cfg.Name, ci))
			key := fmt.Sprintf("k%d", ci)
			seq := 0
			newCmd := func(blocking bool) (rueidis.Completed, string, string) {
				seq++
				shape := shapes[rng.Intn(len(shapes))]
				uid := fmt.Sprintf("%d.%d.%d", ci, seq, mon.Stamp())
				regMu.Lock()
				registry[uid] = &issued{key: key, shape: shape}
				regMu.Unlock()
				b := client.B().Arbitrary("VERIF.ECHO").Keys(key).Args(uid, shape)
				if blocking {
					return b.Blocking(), uid, shape
				}
				return b.Build(), uid, shape
			}
			for op := 0; op < cfg.Ops; op++ {
				ctx := context.Background()
				cancel := func() {}
				cancelled := false
				if rng.Intn(100) < cfg.CancelPct {
					cancelled = true
					if cfg.Deadline {
						ctx, cancel = context.WithTimeout(ctx, time.Duration(rng.Intn(300))*time.Microsecond)
					} else {
						var cf context.CancelFunc
						ctx, cf = context.WithCancel(ctx)
						spins := rng.Intn(60)
						go func() {
							for i := 0; i < spins; i++ {
								runtime.Gosched()
							}
							cf()
						}()
						cancel = cf
					}
				}
				if inflight.Add(1) > 1 {
					atomic.AddInt64(&st.Overlapped, 1)
				}
				kind := rng.Intn(12)
				if sk := os.Getenv("VERIF_SKIP_KINDS"); sk != "" && strings.Contains(sk, fmt.Sprintf(",%d,", kind)) {
					kind = 0
				}
				atomic.AddInt64(&st.Calls, 1)
				fp := ""
				switch {
				case kind <= 3: // Do
					cmd, uid, shape := newCmd(false)
					res := client.Do(ctx, cmd)
					atomic.AddInt64(&st.Cmds, 1)
					ok := checkEcho("Do", uid, shape, res)
					outcome(&st, run, cfg, "Do", ok, res.NonRedisError(), cancelled, ctx)
					fp = "Do/" + shape
				case kind <= 6: // DoMulti
					n := 1 + rng.Intn(8)
					if rng.Intn(6) == 0 {
						n = 20 + rng.Intn(21)
					}
					cmds := make(rueidis.Commands, n)
					uids := make([]string, n)
					shs := make([]string, n)
					for i := range cmds {
						cmds[i], uids[i], shs[i] = newCmd(false)
					}
					rs := client.DoMulti(ctx, cmds...)
					atomic.AddInt64(&st.Cmds, int64(n))
					if len(rs) != n {
						run.Violation("wrong-result-count", "DoMulti|"+cfg.Name, map[string]any{"config": cfg.String(), "sent": n, "results": len(rs)})
					}
					allOK := true
					var e1 error
					for i := range rs {
						if !checkEcho("DoMulti", uids[i], shs[i], rs[i]) {
							allOK = false
							e1 = rs[i].NonRedisError()
						}
					}
					outcome(&st, run, cfg, "DoMulti", allOK, e1, cancelled, ctx)
					fp = "DoMulti/" + strconv.Itoa(min(n, 9))
				case kind == 7 && !opt.DisableCache && !cfg.Cluster && rng.Intn(2) == 0: // DoCache(MGET): per-key entries shared with the GET flights of other callers
					n := 2 + rng.Intn(3)
					ks := make([]string, n)
					for i := range ks {
						ks[i] = fmt.Sprintf("shared%d", rng.Intn(nkeys))
					}
					res := client.DoCache(ctx, client.B().Mget().Key(ks...).Cache(), time.Minute)
					arr, err := res.ToArray()
					if err == nil && len(arr) != n {
						run.Violation("wrong-result-count", "DoCache-MGET|"+cfg.Name, map[string]any{"config": cfg.String(), "keys": ks, "results": len(arr)})
					}
					for i := 0; err == nil && i < len(arr) && i < n; i++ {
						if s, e := arr[i].ToString(); e != nil || !strings.HasPrefix(s, "val:"+ks[i]+":") {
							run.Violation("wrong-reply", "DoCache-MGET|"+cfg.Name, map[string]any{"config": cfg.String(), "keys": ks, "pos": i, "got": arr[i].String()})
						}
					}
					outcome(&st, run, cfg, "DoCache", err == nil, res.NonRedisError(), cancelled, ctx)
					fp = "DoCacheMGET/" + strconv.Itoa(n)
				case kind == 7 && !opt.DisableCache: // DoCache
					k := fmt.Sprintf("shared%d", rng.Intn(nkeys))
					res := client.DoCache(ctx, client.B().Get().Key(k).Cache(), time.Minute)
					s, err := res.ToString()
					if err == nil && !strings.HasPrefix(s, "val:"+k+":") {
						run.Violation("wrong-reply", "DoCache|"+cfg.Name, map[string]any{"config": cfg.String(), "key": k, "got": s})
					}
					if res.IsCacheHit() {
						atomic.AddInt64(&st.CacheHits, 1)
					}
					outcome(&st, run, cfg, "DoCache", err == nil, res.NonRedisError(), cancelled, ctx)
					fp = "DoCache/" + strconv.FormatBool(res.IsCacheHit())
				case kind == 8 && !opt.DisableCache: // DoMultiCache
					n := 1 + rng.Intn(5)
					cts := make([]rueidis.CacheableTTL, n)
					ks := make([]string, n)
					for i := range cts {
						if rng.Intn(2) == 0 {
							ks[i] = fmt.Sprintf("shared%d", rng.Intn(nkeys))
							cts[i] = rueidis.CT(client.B().Get().Key(ks[i]).Cache(), time.Minute)
						} else {
							ks[i] = fmt.Sprintf("hash%d", rng.Intn(nkeys))
							cts[i] = rueidis.CT(client.B().Hget().Key(ks[i]).Field("f").Cache(), time.Minute)
						}
					}
					rs := client.DoMultiCache(ctx, cts...)
					allOK := true
					var e1 error
					for i, r := range rs {
						s, err := r.ToString()
						if err != nil {
							allOK = false
							e1 = r.NonRedisError()
							continue
						}
						if !strings.HasPrefix(s, "val:"+ks[i]+":") {
							run.Violation("wrong-reply", "DoMultiCache|"+cfg.Name, map[string]any{"config": cfg.String(), "key": ks[i], "pos": i, "got": s})
						}
					}
					outcome(&st, run, cfg, "DoMultiCache", allOK, e1, cancelled, ctx)
					fp = "DoMultiCache/" + strconv.Itoa(n)
				case kind == 9: // blocking-tagged command (goes through the dedicated pool)
					cmd, uid, shape := newCmd(true)
					res := client.Do(ctx, cmd)
					atomic.AddInt64(&st.Cmds, 1)
					ok := checkEcho("DoBlocking", uid, shape, res)
					outcome(&st, run, cfg, "DoBlocking", ok, res.NonRedisError(), cancelled, ctx)
					fp = "DoBlocking/" + shape
				case kind == 10: // Receive
					atomic.AddInt64(&st.ReceiveCalls, 1)
					rctx, rcancel := context.WithCancel(context.Background())
					// channels private to this Receive: a second Receive on a channel that is already delivering
					// messages on the connection can wedge the pipe (known finding C26-K1), which would hide everything else
					seq++
					chans := []string{fmt.Sprintf("ch.%d.%d.a", ci, seq)}
					if rng.Intn(2) == 0 {
						chans = append(chans, fmt.Sprintf("ch.%d.%d.b", ci, seq))
					}
					actMu.Lock()
					for _, c := range chans {
						active[c] = 0
					}
					actMu.Unlock()
					want := 1 + rng.Intn(20)
					last := map[string]int{}
					got := 0
					err := client.Receive(rctx, client.B().Subscribe().Channel(chans...).Build(), func(m rueidis.PubSubMessage) {
						n, _ := strconv.Atoi(m.Message)
						okch := false
						for _, c := range chans {
							okch = okch || c == m.Channel
						}
						if !okch {
							run.Violation("pubsub-foreign-message", cfg.Name, map[string]any{"config": cfg.String(), "subscribed": chans, "message": m})
						}
						if l, seen := last[m.Channel]; seen && n != l+1 {
							run.Violation("pubsub-gap-or-duplicate", cfg.Name, map[string]any{"config": cfg.String(), "channel": m.Channel, "previous": l, "got": n})
						}
						last[m.Channel] = n
						atomic.AddInt64(&st.PubSubDelivered, 1)
						if got++; got >= want {
							rcancel()
						}
					})
					actMu.Lock()
					for _, c := range chans {
						delete(active, c)
					}
					actMu.Unlock()
					rcancel()
					if err != context.Canceled {
						atomic.AddInt64(&st.OtherErr, 1)
					} else {
						atomic.AddInt64(&st.OK, 1)
					}
					fp = "Receive/" + strconv.Itoa(len(chans))
				default: // DoMulti with a MULTI/EXEC block
					c1, u1, s1 := newCmd(false)
					c2, u2, s2 := newCmd(false)
					rs := client.DoMulti(ctx, client.B().Multi().Build(), c1, c2, client.B().Exec().Build())
					atomic.AddInt64(&st.Cmds, 4)
					ok := len(rs) == 4 && rs[3].NonRedisError() == nil
					if ok {
						arr, err := rs[3].ToArray()
						if err != nil || len(arr) != 2 {
							run.Violation("wrong-reply", "Exec|"+cfg.Name, map[string]any{"config": cfg.String(), "err": fmt.Sprint(err), "len": len(arr)})
						} else {
							checkEcho("Exec", u1, s1, rueidis.NewResult(arr[0], nil))
							checkEcho("Exec", u2, s2, rueidis.NewResult(arr[1], nil))
						}
						for i := 1; i <= 2; i++ {
							if s, _ := rs[i].ToString(); rs[i].NonRedisError() == nil && s != "QUEUED" {
								run.Violation("wrong-reply", "Queued|"+cfg.Name, map[string]any{"config": cfg.String(), "pos": i, "got": rs[i].String()})
							}
						}
					}
					var e1 error
					if len(rs) == 4 {
						e1 = rs[3].NonRedisError()
					}
					outcome(&st, run, cfg, "DoMultiExec", ok, e1, cancelled, ctx)
					fp = "DoMultiExec"
				}
				inflight.Add(-1)
				cancel()
				run.Case(fmt.Sprintf("%s|%s|cancel=%v", cfg.Name, fp, cancelled), true)
			}
		}(ci)
	}
	callersDone := make(chan struct{})
	go func() { wg.Wait(); close(callersDone) }()
	if drv.InBubble() {
		<-callersDone // virtual time: a hang is a synctest deadlock, reported by drv.Bubble
	} else if frames, snap, frozen := waitOrFrozen(callersDone, srv, &st, &inflight); frozen {
		// Real time: nothing at all has happened for several inspection windows in a row (no call completed, the server
		// neither received, executed, answered nor pushed anything) while calls are in flight, and callers are parked
		// inside rueidis. The wall clock only triggers the inspections; what is judged is the frozen state itself.
		run.Violation("hang", cfg.Name+"|"+strings.Join(frames, ";"), map[string]any{"config": cfg.String(), "calls_in_flight": inflight.Load(),
			"frozen_counters": snap, "parked_in_rueidis": frames})
		close(stop)
		srv.Close() // releases whoever waits for the server; the callers of a wedged connection stay parked and are abandoned
		client.Close()
		return st
	}
	close(stop)
	bg.Wait()
	client.Close()
	srv.Close()

	// exactly-once accounting: a call that returned success was executed exactly once; nothing is executed twice
	regMu.Lock()
	for uid, n := range execs {
		if n > 1 {
			run.Violation("executed-more-than-once", cfg.Name, map[string]any{"config": cfg.String(), "uid": uid, "executions": n})
		}
	}
	for uid, is := range registry {
		if is.done.Load() && execs[uid] != 1 {
			run.Violation("successful-call-not-executed-once", cfg.Name, map[string]any{"config": cfg.String(), "uid": uid, "executions": execs[uid]})
		}
	}
	regMu.Unlock()
	return st
}

func outcome(st *Stats, run *mon.Run, cfg Config, kind string, ok bool, err error, cancelled bool, ctx context.Context) {
	switch {
	case ok:
		atomic.AddInt64(&st.OK, 1)
	case err != nil && (err == context.Canceled || err == context.DeadlineExceeded):
		atomic.AddInt64(&st.CtxErr, 1)
		if !cancelled && kind != "DoCache" && kind != "DoMultiCache" && !cfg.Deadline {
			// (with deadlines a timed-out synchronous call breaks its connection; the re-dial runs under whichever
			// caller's context comes first and its failure is shared with the callers queued behind it)
			// (cached reads legitimately inherit the error of the flight owner they waited for)
			run.Violation("ctx-error-without-cancel", kind+"|"+cfg.Name, map[string]any{"config": cfg.String(), "err": err.Error(), "connections_so_far": atomic.LoadInt64(&st.Conns)})
		}
	default:
		atomic.AddInt64(&st.OtherErr, 1)
		if !cfg.Deadline {
			// without deadlines nothing in this workload may break a connection: an error here is a lost or mangled reply
			run.Violation("unexpected-error", kind+"|"+cfg.Name, map[string]any{"config": cfg.String(), "kind": kind, "err": fmt.Sprint(err)})
		}
	}
}

// rueidisSingleMultiplex mirrors how a single-node client interprets PipelineMultiplex (0 = automatic, capped at 2).
func rueidisSingleMultiplex(m int) int {
	if m == 0 {
		n := 0
		for p := runtime.GOMAXPROCS(0); p > 1; p >>= 1 {
			n++
		}
		if n >= 2 {
			n = 2
		}
		return n
	}
	return m
}

// waitOrFrozen waits for the callers. Every window it compares a snapshot of everything that can move (completed calls,
// issued commands, the server's receive / exec / reply / push counters, connections); after stallWindows identical
// snapshots in a row with calls in flight it dumps the goroutines and returns the rueidis frames they are parked in.
func waitOrFrozen(done chan struct{}, srv *fakeredis.Server, st *Stats, inflight *atomic.Int64) (frames []string, snap string, frozen bool) {
	const window, stallWindows = 20 * time.Second, 4
	prev, same := "", 0
	for {
		select {
		case <-done:
			return nil, "", false
		case <-time.After(window):
		}
		cur := fmt.Sprintf("calls=%d cmds=%d ok=%d ctxerr=%d othererr=%d recv=%d exec=%d reply=%d push=%d accept=%d close=%d",
			atomic.LoadInt64(&st.Calls), atomic.LoadInt64(&st.Cmds), atomic.LoadInt64(&st.OK), atomic.LoadInt64(&st.CtxErr), atomic.LoadInt64(&st.OtherErr),
			srv.Counter("recv"), srv.Counter("exec"), srv.Counter("reply"), srv.Counter("push"), srv.Counter("accept"), srv.Counter("close"))
		if cur == prev && inflight.Load() > 0 {
			same++
		} else {
			same = 0
		}
		prev = cur
		if same >= stallWindows {
			buf := make([]byte, 64<<20)
			buf = buf[:runtime.Stack(buf, true)]
			seen := map[string]bool{}
			for _, f := range drv.RueidisFrames(string(buf)) {
				if !seen[f] {
					seen[f] = true
					frames = append(frames, f)
				}
			}
			sort.Strings(frames)
			if len(frames) == 0 {
				same = 0 // nobody is parked inside rueidis: not a verdict, keep waiting (check.sh's watchdog ends the run)
				continue
			}
			return frames, cur, true
		}
	}
}

