// Package resp is an independent RESP2/RESP3 encoder and decoder written from
// the protocol specification. It shares no code with rueidis's resp.go, so that
// comparing the two is a comparison of two implementations.
package resp

import (
	"bufio"
	"errors"
	"fmt"
	"io"
	"strconv"
	"strings"
)

// V is a protocol value.
type V struct {
	T      byte   // '$' '+' '-' ':' '_' ',' '#' '!' '=' '(' '*' '%' '~' '>'
	S      string // payload of string-like types ('$' '+' '-' ',' '!' '=' '(')
	I      int64  // ':' value, '#' 0/1
	A      []V    // elements; for '%' (and attributes) flattened key,value,...
	Attr   []V    // attribute map preceding the value, flattened k,v (nil = none)
	Null2  bool   // with T '$' or '*': RESP2 null ("$-1" / "*-1")
	Stream bool   // streamed encoding ("$?" + chunks, "*?" ... ".")
	Chunks []int  // chunk sizes for a streamed string (sum may be < len(S): remainder is one more chunk)
}

func Bulk(s string) V   { return V{T: '$', S: s} }
func Simple(s string) V { return V{T: '+', S: s} }
func Err(s string) V    { return V{T: '-', S: s} }
func Int(i int64) V     { return V{T: ':', I: i} }
func Null() V           { return V{T: '_'} }
func NullBulk() V       { return V{T: '$', Null2: true} }
func NullArr() V        { return V{T: '*', Null2: true} }
func Double(s string) V { return V{T: ',', S: s} }
func Bool(b bool) V {
	if b {
		return V{T: '#', I: 1}
	}
	return V{T: '#'}
}
func Arr(a ...V) V  { return V{T: '*', A: append([]V{}, a...)} }
func Map(a ...V) V  { return V{T: '%', A: append([]V{}, a...)} }
func Set(a ...V) V  { return V{T: '~', A: append([]V{}, a...)} }
func Push(a ...V) V { return V{T: '>', A: append([]V{}, a...)} }
func Strs(ss ...string) V {
	v := V{T: '*', A: make([]V, len(ss))}
	for i, s := range ss {
		v.A[i] = Bulk(s)
	}
	return v
}

// IsNull reports whether v is any spelling of null.
func (v V) IsNull() bool { return v.T == '_' || v.Null2 }

// Encode appends the wire form of v.
func Encode(b []byte, v V) []byte {
	if v.Attr != nil {
		b = append(b, '|')
		b = strconv.AppendInt(b, int64(len(v.Attr)/2), 10)
		b = append(b, '\r', '\n')
		for _, e := range v.Attr {
			b = Encode(b, e)
		}
	}
	switch v.T {
	case '$', '!', '=':
		if v.Null2 {
			return append(b, v.T, '-', '1', '\r', '\n')
		}
		if v.Stream && v.T == '$' {
			b = append(b, '$', '?', '\r', '\n')
			s := v.S
			for _, n := range v.Chunks {
				if n <= 0 || n > len(s) {
					continue
				}
				b = appendChunk(b, s[:n])
				s = s[n:]
			}
			if len(s) > 0 {
				b = appendChunk(b, s)
			}
			return append(b, ';', '0', '\r', '\n')
		}
		b = append(b, v.T)
		b = strconv.AppendInt(b, int64(len(v.S)), 10)
		b = append(b, '\r', '\n')
		b = append(b, v.S...)
		return append(b, '\r', '\n')
	case '+', '-', ',', '(':
		b = append(b, v.T)
		b = append(b, v.S...)
		return append(b, '\r', '\n')
	case ':':
		b = append(b, ':')
		b = strconv.AppendInt(b, v.I, 10)
		return append(b, '\r', '\n')
	case '_':
		return append(b, '_', '\r', '\n')
	case '#':
		if v.I != 0 {
			return append(b, '#', 't', '\r', '\n')
		}
		return append(b, '#', 'f', '\r', '\n')
	case '*', '~', '>', '%':
		if v.Null2 {
			return append(b, v.T, '-', '1', '\r', '\n')
		}
		if v.Stream {
			b = append(b, v.T, '?', '\r', '\n')
			for _, e := range v.A {
				b = Encode(b, e)
			}
			return append(b, '.', '\r', '\n')
		}
		n := len(v.A)
		if v.T == '%' {
			n /= 2
		}
		b = append(b, v.T)
		b = strconv.AppendInt(b, int64(n), 10)
		b = append(b, '\r', '\n')
		for _, e := range v.A {
			b = Encode(b, e)
		}
		return b
	}
	panic(fmt.Sprintf("resp.Encode: unknown type %q", v.T))
}

func appendChunk(b []byte, s string) []byte {
	b = append(b, ';')
	b = strconv.AppendInt(b, int64(len(s)), 10)
	b = append(b, '\r', '\n')
	b = append(b, s...)
	return append(b, '\r', '\n')
}

// EncodeCmd encodes a command as an array of bulk strings.
func EncodeCmd(b []byte, argv ...string) []byte { return Encode(b, Strs(argv...)) }

var ErrProto = errors.New("resp: protocol error")

func readLine(r *bufio.Reader) (string, error) {
	var sb strings.Builder
	for {
		frag, err := r.ReadSlice('\n')
		sb.Write(frag)
		if err == bufio.ErrBufferFull {
			continue
		}
		if err != nil {
			return "", err
		}
		break
	}
	s := sb.String()
	if len(s) < 2 || s[len(s)-2] != '\r' {
		return "", fmt.Errorf("%w: line without CRLF %q", ErrProto, s)
	}
	return s[:len(s)-2], nil
}

// Decode reads one value (with its attributes, if any).
func Decode(r *bufio.Reader) (V, error) {
	var attr []V
	for {
		t, err := r.ReadByte()
		if err != nil {
			return V{}, err
		}
		line, err := readLine(r)
		if err != nil {
			return V{}, err
		}
		var v V
		v.T = t
		switch t {
		case '+', '-', ',', '(':
			v.S = line
		case ':':
			if v.I, err = strconv.ParseInt(line, 10, 64); err != nil {
				return V{}, fmt.Errorf("%w: bad integer %q", ErrProto, line)
			}
		case '_':
		case '#':
			if line == "t" {
				v.I = 1
			} else if line != "f" {
				return V{}, fmt.Errorf("%w: bad bool %q", ErrProto, line)
			}
		case '$', '!', '=':
			if line == "?" {
				v.Stream = true
				var sb strings.Builder
				for {
					c, err := r.ReadByte()
					if err != nil {
						return V{}, err
					}
					if c != ';' {
						return V{}, fmt.Errorf("%w: expected chunk", ErrProto)
					}
					l, err := readLine(r)
					if err != nil {
						return V{}, err
					}
					n, err := strconv.Atoi(l)
					if err != nil || n < 0 {
						return V{}, fmt.Errorf("%w: bad chunk len %q", ErrProto, l)
					}
					if n == 0 {
						break
					}
					buf := make([]byte, n+2)
					if _, err = io.ReadFull(r, buf); err != nil {
						return V{}, err
					}
					sb.Write(buf[:n])
					v.Chunks = append(v.Chunks, n)
				}
				v.S = sb.String()
				break
			}
			n, err := strconv.Atoi(line)
			if err != nil || n < -1 {
				return V{}, fmt.Errorf("%w: bad bulk len %q", ErrProto, line)
			}
			if n == -1 {
				v.Null2 = true
				break
			}
			buf := make([]byte, n+2)
			if _, err = io.ReadFull(r, buf); err != nil {
				return V{}, err
			}
			if buf[n] != '\r' || buf[n+1] != '\n' {
				return V{}, fmt.Errorf("%w: bulk without CRLF", ErrProto)
			}
			v.S = string(buf[:n])
		case '*', '~', '>', '%', '|':
			if line == "?" {
				v.Stream = true
				v.A = []V{}
				for {
					p, err := r.Peek(1)
					if err != nil {
						return V{}, err
					}
					if p[0] == '.' {
						if _, err = readLine(r); err != nil {
							return V{}, err
						}
						break
					}
					e, err := Decode(r)
					if err != nil {
						return V{}, err
					}
					v.A = append(v.A, e)
				}
			} else {
				n, err := strconv.Atoi(line)
				if err != nil || n < -1 {
					return V{}, fmt.Errorf("%w: bad aggregate len %q", ErrProto, line)
				}
				if n == -1 {
					v.Null2 = true
				} else {
					if t == '%' || t == '|' {
						n *= 2
					}
					v.A = make([]V, 0, min(n, 1024))
					for i := 0; i < n; i++ {
						e, err := Decode(r)
						if err != nil {
							return V{}, err
						}
						v.A = append(v.A, e)
					}
				}
			}
			if t == '|' {
				attr = v.A
				if attr == nil {
					attr = []V{}
				}
				continue
			}
		default:
			return V{}, fmt.Errorf("%w: unknown type byte %q", ErrProto, t)
		}
		v.Attr = attr
		return v, nil
	}
}

// DecodeCmd reads one command (array of bulk strings) and returns its argv.
func DecodeCmd(r *bufio.Reader) ([]string, error) {
	v, err := Decode(r)
	if err != nil {
		return nil, err
	}
	if v.T != '*' || v.Null2 || v.Stream || v.Attr != nil {
		return nil, fmt.Errorf("%w: command is not a plain array (type %q)", ErrProto, v.T)
	}
	argv := make([]string, len(v.A))
	for i, e := range v.A {
		if e.T != '$' || e.Null2 || e.Stream || e.Attr != nil {
			return nil, fmt.Errorf("%w: command argument %d is not a bulk string (type %q)", ErrProto, i, e.T)
		}
		argv[i] = e.S
	}
	return argv, nil
}

// ToRESP2 converts a RESP3 value to the form a RESP2 connection would get.
func ToRESP2(v V) V {
	o := V{T: v.T, S: v.S, I: v.I}
	switch v.T {
	case '_':
		return NullBulk()
	case ',', '(':
		o.T = '$'
	case '#':
		o.T = ':'
	case '=':
		o.T = '$'
	case '!':
		o.T = '-'
	case '%', '~', '>', '*':
		o.T = '*'
		if v.Null2 {
			o.Null2 = true
			return o
		}
		o.A = make([]V, len(v.A))
		for i, e := range v.A {
			o.A[i] = ToRESP2(e)
		}
	case '$':
		o.Null2 = v.Null2
	}
	return o
}

func (v V) String() string {
	switch v.T {
	case '*', '%', '~', '>':
		if v.Null2 {
			return "nil"
		}
		var sb strings.Builder
		sb.WriteByte(v.T)
		sb.WriteByte('[')
		for i, e := range v.A {
			if i > 0 {
				sb.WriteByte(' ')
			}
			sb.WriteString(e.String())
		}
		sb.WriteByte(']')
		return sb.String()
	case ':':
		return ":" + strconv.FormatInt(v.I, 10)
	case '#':
		if v.I != 0 {
			return "#t"
		}
		return "#f"
	case '_':
		return "nil"
	case '$':
		if v.Null2 {
			return "nil"
		}
		return strconv.Quote(v.S)
	}
	return string(v.T) + strconv.Quote(v.S)
}
