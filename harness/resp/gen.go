package resp

import (
	"math/rand"
	"strconv"
)

// GenOpts controls random value generation.
type GenOpts struct {
	MaxDepth  int
	MaxWidth  int
	RESP2     bool // only RESP2 types
	Attrs     bool // attributes may precede any value
	Streams   bool // streamed strings and aggregates
	Push      bool // push frames allowed (top level only)
	BigBlobs  bool // occasionally payloads around buffer boundaries
	NoErrors  bool // no error types
	Cacheable bool // only types that the cache serializer supports distinctly
}

var payloadAlphabet = []string{"", "a", "OK", "OKAY", "O", "\r\n", "\r", "\n", "\x00", "x\r\ny", "hello world", "-1", "12345678901234567890",
	"$5\r\nhello\r\n", "*2\r\n", "txt:some", "é☃", "\xff\xfe"}

// GenBytes returns a random binary-safe payload.
func GenBytes(r *rand.Rand, big bool) string {
	switch r.Intn(10) {
	case 0, 1, 2:
		return payloadAlphabet[r.Intn(len(payloadAlphabet))]
	case 3:
		if big {
			sizes := []int{15, 16, 17, 30, 31, 32, 33, 34, 62, 63, 64, 65, 127, 128, 129, 4094, 4095, 4096, 4097, 4098, 9000}
			n := sizes[r.Intn(len(sizes))]
			b := make([]byte, n)
			for i := range b {
				b[i] = byte(r.Intn(256))
			}
			return string(b)
		}
		fallthrough
	default:
		n := r.Intn(24)
		b := make([]byte, n)
		for i := range b {
			switch r.Intn(6) {
			case 0:
				b[i] = "\r\n\x00$*:+-"[r.Intn(8)]
			default:
				b[i] = byte(r.Intn(256))
			}
		}
		return string(b)
	}
}

// genLine returns a payload valid for line-based types (no CR or LF).
func genLine(r *rand.Rand) string {
	s := []byte(GenBytes(r, false))
	for i := range s {
		if s[i] == '\r' || s[i] == '\n' {
			s[i] = '_'
		}
	}
	return string(s)
}

var doubles = []string{"0", "1", "-1", "3.14", "-0.5", "1e10", "inf", "-inf", "nan", "1.7976931348623157e+308", "5e-324", "10"}
var ints = []int64{0, 1, -1, 9, 10, 99, 100, 1 << 31, -(1 << 31), 1<<63 - 1, -(1 << 63), 42}

// Gen returns a random well-formed value.
func Gen(r *rand.Rand, o GenOpts) V { return gen(r, o, 0, true) }

func gen(r *rand.Rand, o GenOpts, depth int, top bool) V {
	var v V
	scalar := depth >= o.MaxDepth || r.Intn(3) != 0
	if scalar {
		k := r.Intn(13)
		if o.RESP2 {
			k = r.Intn(6)
		}
		switch k {
		case 0, 6:
			v = Bulk(GenBytes(r, o.BigBlobs))
			if o.Streams && !o.RESP2 && r.Intn(4) == 0 {
				v.Stream = true
				rem := len(v.S)
				for rem > 0 && len(v.Chunks) < 20 {
					n := 1 + r.Intn(rem)
					v.Chunks = append(v.Chunks, n)
					rem -= n
				}
			}
		case 1:
			v = Simple(genLine(r))
		case 2:
			if o.NoErrors {
				v = Simple(genLine(r))
			} else {
				v = Err(genLine(r))
			}
		case 3:
			if r.Intn(2) == 0 {
				v = Int(ints[r.Intn(len(ints))])
			} else {
				v = Int(r.Int63n(2000) - 1000)
			}
		case 4:
			v = NullBulk()
		case 5:
			v = NullArr()
		case 7:
			v = Null()
		case 8:
			v = Double(doubles[r.Intn(len(doubles))])
		case 9:
			v = Bool(r.Intn(2) == 0)
		case 10:
			if o.NoErrors {
				v = Bulk(GenBytes(r, false))
			} else {
				v = V{T: '!', S: GenBytes(r, false)}
			}
		case 11:
			v = V{T: '=', S: "txt:" + GenBytes(r, false)}
		case 12:
			v = V{T: '(', S: strconv.FormatInt(r.Int63(), 10) + strconv.FormatInt(r.Int63(), 10)}
		}
		if o.Cacheable {
			// the cache serializer does not distinguish the two RESP2 nulls from '_'
			if v.Null2 {
				v = Null()
			}
			v.Stream, v.Chunks = false, nil
		}
	} else {
		n := r.Intn(o.MaxWidth + 1)
		if r.Intn(8) == 0 {
			n = 0
		}
		kinds := []byte{'*', '*', '%', '~'}
		if o.RESP2 {
			kinds = []byte{'*'}
		}
		if o.Push && top && !o.RESP2 {
			kinds = append(kinds, '>')
		}
		v.T = kinds[r.Intn(len(kinds))]
		if v.T == '%' {
			n *= 2
		}
		v.A = make([]V, n)
		for i := range v.A {
			v.A[i] = gen(r, o, depth+1, false)
		}
		if o.Streams && !o.RESP2 && v.T != '>' && r.Intn(4) == 0 {
			v.Stream = true
		}
		if o.Cacheable {
			v.Stream = false
		}
	}
	if o.Attrs && !o.RESP2 && !v.Null2 && r.Intn(6) == 0 {
		n := r.Intn(3)
		v.Attr = make([]V, 2*n)
		for i := range v.Attr {
			v.Attr[i] = gen(r, GenOpts{MaxDepth: 1, MaxWidth: 2}, 1, false)
		}
	}
	return v
}
