//go:build verif

package c32

import (
	"fmt"
	"math/rand"
	"sort"
	"strings"
	"testing"

	"github.com/redis/rueidis"
	"verifh/mon"
)

type flags struct {
	ReadOnly, Block, NoReply, Unsub, Retryable, Pipe, Write bool
}

func readFlags(c rueidis.Completed) flags {
	return flags{ReadOnly: c.IsReadOnly(), Block: c.IsBlock(), NoReply: c.NoReply(), Unsub: c.IsUnsub(), Retryable: c.IsRetryable(), Pipe: c.IsPipe(), Write: c.IsWrite()}
}

func (f flags) String() string {
	var s []string
	for _, p := range []struct {
		b bool
		n string
	}{{f.ReadOnly, "readonly"}, {f.Block, "block"}, {f.NoReply, "noreply"}, {f.Unsub, "unsub"}, {f.Retryable, "retryable"}, {f.Pipe, "pipe"}} {
		if p.b {
			s = append(s, p.n)
		}
	}
	return strings.Join(s, "+")
}

func hasToken(argv []string, tok string) bool {
	for _, a := range argv {
		if a == tok {
			return true
		}
	}
	return false
}

// C32: read-only tagged => side-effect-free read; offers Cache() => read-only tagged;
// blocking (incl. XREAD/XREADGROUP BLOCK) => block tagged; SUBSCRIBE / UNSUBSCRIBE families => Pub/Sub tagged.
func TestC32(t *testing.T) {
	run := mon.Start(t, "C32", "exploration",
		"reflection over rueidis.Builder: every root command, and below each root every (type, method) edge on a shortest path root->edge->nearest terminal with every terminal (Build and Cache) of the final type, "+
			"on non-cluster and cluster builders, plus random option walks; the tags of the completed command are compared with a hand-written reference table of Redis/module command semantics keyed by the first one or two argv tokens. "+
			"A case is distinct by (root, path, terminal) and non-trivial when the command name is classified by the table")
	defer run.Finish()
	run.Assume("reference table props/c32/table.go (writes / reads / blocking / subscribe / unsubscribe) written from the Redis and module command documentation; commands absent from it are reported unclassified and never judged",
		"Builder.Arbitrary is excluded: there the caller chooses name and tags (Build/Blocking/ReadOnly)",
		"tags do not depend on argument values, only on the methods called (dummy arguments never equal an option token such as BLOCK)")

	for n := range writes {
		if reads[n] {
			t.Fatalf("table inconsistent: %s is both read and write", n)
		}
	}

	g := Discover()
	if len(g.Builder.Edges) < 500 || len(g.Edges) < 6000 || len(g.Unsupported) > 0 || len(g.Dead) > 0 {
		fmt.Printf("BROKEN property=C32 reflection: %d roots, %d edges, unsupported=%v dead=%v\n", len(g.Builder.Edges), len(g.Edges), g.Unsupported, g.Dead)
		t.Fatalf("builder graph incomplete")
	}
	run.Extra("roots", len(g.Builder.Edges))
	run.Extra("builder_types", len(g.Nodes))
	run.Extra("edges_total", len(g.Edges))

	used := map[string]bool{}
	unclassified := map[string]bool{}
	rootName := map[string]string{}  // root method -> command name
	rootFlags := map[string]string{} // root method -> flag sets seen
	overBlock := map[string]bool{}   // informational: block-tagged although the table does not call the path blocking
	readsUntagged := map[string]bool{}
	cacheRoots := map[string]bool{}
	samples := 0

	judge := func(root *Edge, path []*Edge, term Term, cluster bool, shape int64) {
		v := &Vals{Side: 0, Shape: rand.New(rand.NewSource(shape))}
		if cluster {
			v.Tag = "{t}"
		}
		b := Run(rueidis.VerifNewBuilder(cluster), path, term, v)
		ps := PathString(path, term.Name)
		if b.Panic != nil {
			run.Violation("panic", ps, map[string]any{"path": ps, "panic": fmt.Sprint(b.Panic), "at": b.PanicAt, "cluster": cluster})
			return
		}
		name, known := commandName(b.Argv)
		f := readFlags(b.Cmd)
		run.Case(ps+"|"+fmt.Sprint(cluster), known)
		run.Observe("commands_built", 1)
		rootName[root.Name] = name
		if fs := f.String(); !strings.Contains(rootFlags[root.Name], "["+fs+"]") {
			rootFlags[root.Name] += "[" + fs + "]"
		}
		if !known {
			unclassified[name] = true
			run.Observe("built_unclassified", 1)
		} else {
			used[name] = true
		}
		w := map[string]any{"root": root.Name, "path": ps, "argv": b.Argv, "command": name, "tags": f.String(), "cache_terminal": term.Cache, "cluster": cluster}

		// (1) read-only tagged => not a write
		if f.ReadOnly {
			run.Observe("readonly_tagged", 1)
			if writes[name] {
				run.Violation("readonly-tagged-write", name+"|"+root.Name, w)
			}
		}
		// (2) offers Cache() => read-only tagged (judged on the Cacheable itself and on the sibling Build())
		if b.LastNode.HasCache() {
			run.Observe("cache_offered", 1)
			cacheRoots[root.Name] = true
			if !f.ReadOnly {
				run.Violation("cacheable-not-readonly", name+"|"+root.Name, w)
			}
		}
		// (3) blocking => block tagged
		isBlocking := blocking[name]
		if tok, ok := blockingWithToken[name]; ok && hasToken(b.Argv, tok) {
			isBlocking = true
			run.Observe("block_option_paths", 1)
		}
		if isBlocking {
			run.Observe("blocking_judged", 1)
			if !f.Block {
				key := name + "|" + root.Name
				if _, opt := blockingWithToken[name]; opt {
					key += "|BLOCK"
				}
				run.Violation("blocking-not-tagged", key, w)
			}
		} else if f.Block && known {
			overBlock[name+" via "+blockCause(path)] = true
		}
		// (4) Pub/Sub families
		if subscribe[name] {
			run.Observe("subscribe_judged", 1)
			if !f.NoReply {
				run.Violation("subscribe-not-tagged", name+"|"+root.Name, w)
			}
		}
		if unsubscribe[name] {
			run.Observe("unsubscribe_judged", 1)
			if !f.Unsub || !f.NoReply {
				run.Violation("unsubscribe-not-tagged", name+"|"+root.Name, w)
			}
		}
		if reads[name] && !f.ReadOnly {
			readsUntagged[name] = true
		}
		if samples < 6 && known && (f.ReadOnly || f.Block) && len(path) > 2 && run.Observed("commands_built")%211 == 0 {
			samples++
			run.Sample(w)
		}
	}

	shapes := run.Rand("shapes")
	rootsDone := 0
	edgesDone := 0
	for _, root := range g.Builder.Edges {
		if root.Name == "Arbitrary" {
			continue
		}
		rootsDone++
		// BFS below this root: a shortest path to every reachable type
		parent := map[*Node]*Edge{root.To: root}
		order := []*Node{root.To}
		for i := 0; i < len(order); i++ {
			for _, e := range order[i].Edges {
				if _, ok := parent[e.To]; !ok {
					parent[e.To] = e
					order = append(order, e.To)
				}
			}
		}
		pathTo := func(n *Node) []*Edge {
			var p []*Edge
			for {
				e := parent[n]
				p = append(p, e)
				if e == root {
					break
				}
				n = e.From
			}
			for i, j := 0, len(p)-1; i < j; i, j = i+1, j-1 {
				p[i], p[j] = p[j], p[i]
			}
			return p
		}
		// the root itself completed the shortest way, then every edge below it
		todo := [][]*Edge{append(pathTo(root.To), Finish(root.To)...)}
		for _, n := range order {
			for _, e := range n.Edges {
				edgesDone++
				todo = append(todo, append(append(pathTo(n), e), Finish(e.To)...))
			}
		}
		for _, path := range todo {
			last := path[len(path)-1].To
			for _, term := range last.Terms {
				judge(root, path, term, false, shapes.Int63())
				judge(root, path, term, true, shapes.Int63())
			}
		}
	}
	run.Observe("roots_enumerated", int64(rootsDone))
	run.Observe("edges_enumerated", int64(edgesDone))
	if rootsDone == len(g.Builder.Edges)-1 && edgesDone == len(g.Edges)-len(g.Builder.Edges)-arbitraryEdges(g) {
		run.Exhaustive() // every root and every (type, method) edge below it; not every combination of options
	}

	// random option walks: combinations of options
	rng := run.Rand("walks")
	walks := run.N(300000, 6000000)
	for i := 0; i < walks; i++ {
		root := g.Builder.Edges[rng.Intn(len(g.Builder.Edges))]
		if root.Name == "Arbitrary" {
			continue
		}
		limit := 1 + rng.Intn(30)
		path := []*Edge{root}
		n := root.To
		for {
			if len(n.Terms) > 0 && (len(path) >= limit || rng.Intn(6) == 0) {
				break
			}
			var cand []*Edge
			for _, e := range n.Edges {
				if len(path)+1+e.To.Dist <= 40 && (len(path) < limit || e.To.Dist < n.Dist) {
					cand = append(cand, e)
				}
			}
			if len(cand) == 0 {
				break
			}
			e := cand[rng.Intn(len(cand))]
			path = append(path, e)
			n = e.To
		}
		if len(n.Terms) == 0 {
			t.Fatalf("walk stuck at %s", n.T.Name())
		}
		judge(root, path, n.Terms[rng.Intn(len(n.Terms))], rng.Intn(3) == 0, rng.Int63())
	}

	// evidence: per root classification
	var uncl, unusedEntries, over, rut []string
	for n := range unclassified {
		uncl = append(uncl, n)
	}
	sort.Strings(uncl)
	for tn, tab := range allTables {
		for n := range tab {
			if !used[n] {
				unusedEntries = append(unusedEntries, tn+":"+n)
			}
		}
	}
	sort.Strings(unusedEntries)
	for n := range overBlock {
		over = append(over, n)
	}
	sort.Strings(over)
	for n := range readsUntagged {
		rut = append(rut, n)
	}
	sort.Strings(rut)
	classified := 0
	var unclRoots []string
	for r, n := range rootName {
		if _, k := commandName(strings.Split(n, " ")); k {
			classified++
		} else {
			unclRoots = append(unclRoots, r)
		}
	}
	sort.Strings(unclRoots)
	run.Extra("unclassified_roots", unclRoots)
	run.Observe("roots_classified", int64(classified))
	run.Observe("roots_unclassified", int64(len(rootName)-classified))
	run.Observe("roots_offering_cache", int64(len(cacheRoots)))
	run.Extra("unclassified_commands", uncl)
	run.Extra("table_entries_without_builder", unusedEntries)
	run.Extra("info_block_tagged_but_not_blocking_in_table", over)
	run.Extra("info_reads_not_tagged_readonly", rut)
	multi := map[string]string{}
	for r, fs := range rootFlags {
		if strings.Count(fs, "[") > 1 {
			multi[r] = fs
		}
	}
	run.Extra("roots_with_path_dependent_tags", multi)
	run.Require("commands_built", "readonly_tagged", "cache_offered", "blocking_judged", "block_option_paths", "subscribe_judged", "unsubscribe_judged")
}

// blockCause names the first method on the path that is called Block (informational only).
func blockCause(path []*Edge) string {
	for _, e := range path[1:] {
		if strings.Contains(e.Name, "Block") {
			return e.Name
		}
	}
	return path[0].Name
}

func arbitraryEdges(g *Graph) int {
	n := 0
	for _, nd := range g.Nodes {
		if nd.T.Name() == "Arbitrary" {
			n += len(nd.Edges)
		}
	}
	return n
}
