package c20

import (
	"context"
	"fmt"
	"math/rand"
	"os"
	"testing"
	"time"

	"github.com/redis/rueidis"
	"verifh/drv"
	"verifh/fakeredis"
	"verifh/mon"
)

// Virtual-time cases: ClientOption.ConnLifetime expires while a batch is partly answered (the reply of one member is
// slower than the connection has left to live). The client then re-sends what was not answered on a fresh connection;
// the rules of the oracle are the same as in the real-time cases.
func lifetimeCases(run *mon.Run, t *testing.T) {
	n := run.N(60, 1500)
	if raceBuild {
		n /= 3
	}
	rng := run.Rand("lifetime")
	for i := 0; i < n; i++ {
		spec := caseSpec{ID: 1000000 + i, Kind: "DoMulti", seed: rng.Int63(), Lifetime: true}
		var items []item
		var events []fakeredis.Event
		var nres int
		var returned bool
		var setupErr string
		var pnc any
		const life = 10 * time.Second
		dl, stacks := drv.Bubble(t, func() {
			r := rand.New(rand.NewSource(spec.seed))
			spec.Shards = 2 + r.Intn(2)
			spec.Pipelined = r.Intn(3) > 0
			w, err := newWorld(spec.Shards, spec.seed, life, false, spec.Pipelined)
			if err != nil {
				setupErr = err.Error()
				return
			}
			// a small single-slot batch with at least one block; half of the time the batch starts with the MULTI
			tags, slots := tagsFor(r, 1)
			mk := func(block int) item {
				return item{UID: newUID(), Key: fmt.Sprintf("{%s}k%d", tags[0], r.Intn(4)), Slot: slots[0], Block: block, Write: r.Intn(3) == 0, Role: "cmd"}
			}
			lead := r.Intn(2) * (1 + r.Intn(2))
			for k := 0; k < lead; k++ {
				items = append(items, mk(0))
			}
			nb := 1 + r.Intn(2)
			for b := 1; b <= nb; b++ {
				items = append(items, item{Block: b, Role: "MULTI"})
				for k := 2 + r.Intn(3); k > 0; k-- {
					items = append(items, mk(b))
				}
				items = append(items, item{Block: b, Role: "EXEC"})
				for k := r.Intn(2); k > 0; k-- {
					items = append(items, mk(0))
				}
			}
			spec.N, spec.Slots, spec.Blocks = len(items), 1, nb
			if lead == 0 {
				spec.Faults = []string{"conn-lifetime", "multi-first"}
			} else {
				spec.Faults = []string{"conn-lifetime", "multi-later"}
			}
			// the connection to the slot's owner starts living now
			w.client.Do(context.Background(), w.client.B().Arbitrary("VERIF.ECHO").Keys("{"+tags[0]+"}warm").Args("warm", "str").ReadOnly())
			time.Sleep(life - time.Second)
			// one member (never the first command) answers after the connection's end of life
			var cands []int
			for j, it := range items {
				if it.UID != "" && j > 0 {
					cands = append(cands, j)
				}
			}
			slow := items[cands[r.Intn(len(cands))]].UID
			w.srv.Plan(&fakeredis.Rule{Name: "slow", Match: func(_ *fakeredis.Conn, a []string) bool { return uidOf(a) == slow }, Times: 1, Action: fakeredis.Action{DelayReply: 3 * time.Second}})
			from := w.srv.LogLen()
			func() {
				defer func() { pnc = recover() }()
				returned, nres = w.runBatch(&spec, items, func(done chan struct{}) bool {
					select {
					case <-done:
						return true
					case <-time.After(5 * time.Minute):
						return false
					}
				})
			}()
			time.Sleep(6 * time.Second) // the slow reply is over: the node has noticed that its connection is gone
			events = w.srv.Log()[from:]
			w.client.Close()
			time.Sleep(10 * time.Second) // delayed refreshes and delayed closes end by themselves
			w.srv.Close()
		})
		key := fmt.Sprintf("lifetime|DoMulti|%v|pipelined=%v", spec.Faults, spec.Pipelined)
		switch {
		case setupErr != "":
			run.Inconclusive("lifetime case: client setup failed: " + setupErr)
			continue
		case pnc != nil:
			run.Violation("panic", key+"|"+firstLine(fmt.Sprint(pnc)), map[string]any{"case": spec, "panic": fmt.Sprint(pnc)})
			continue
		case dl != "":
			run.Violation("hang-or-leak", key, map[string]any{"case": spec, "synctest": dl, "rueidis_frames": drv.RueidisFrames(stacks)})
			continue
		case !returned:
			run.Violation("call-never-returned", key, map[string]any{"case": spec, "what": "DoMulti did not return within 5 virtual minutes"})
			continue
		}
		for _, e := range events {
			if e.Kind == "close" {
				run.Observe("lifetime_expired_mid_batch", 1)
				break
			}
		}
		// the end of a connection's life is a transport event made by the client itself: an error result is not judged
		// here (the statement is about order, ownership of replies and block integrity)
		if os.Getenv("VERIF_C20_DEBUG") != "" {
			fmt.Printf("DEBUG lifetime case %+v\n", spec)
			for j, it := range items {
				v, e, _ := resultString(it.Result)
				fmt.Printf("  %d %s %s block=%d -> %s\n", j, it.Role, it.UID, it.Block, trunc(v+e, 70))
			}
			for _, e := range events {
				if e.Kind == "recv" || e.Kind == "close" || e.Kind == "accept" {
					fmt.Printf("    @%d conn=%d %s %v %s\n", e.Seq, e.Conn, e.Kind, e.Argv, e.Note)
				}
			}
		}
		spec.Transport = true
		evaluate(run, &spec, items, nres, events, "lifetime")
		run.Case(fmt.Sprintf("lifetime|n=%d|blocks=%d|%v", spec.N, spec.Blocks, spec.Faults), true)
	}
	_ = rueidis.Nil
}
