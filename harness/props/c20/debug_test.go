package c20

import (
	"fmt"
	"hash/fnv"
	"math/rand"
	"os"
	"strconv"
	"testing"
	"time"
)

// TestC20One replays one real-time case (VERIF_C20_CASE_SEED, VERIF_C20_CASE_KIND) and prints what the nodes received.
func TestC20One(t *testing.T) {
	sd, err := strconv.ParseInt(os.Getenv("VERIF_C20_CASE_SEED"), 10, 64)
	spec := caseSpec{Kind: "DoMulti", seed: sd}
	if id, e2 := strconv.Atoi(os.Getenv("VERIF_C20_CASE_ID")); e2 == nil {
		// the id-th case of TestC20's list at VERIF_SEED (same derivation as mon.Run.Rand("cases"))
		vs, _ := strconv.ParseInt(os.Getenv("VERIF_SEED"), 10, 64)
		h := fnv.New64a()
		h.Write([]byte("C20"))
		h.Write([]byte{0})
		h.Write([]byte("cases"))
		rng := rand.New(rand.NewSource(int64(h.Sum64()) ^ (vs * 0x1E3779B97F4A7C15)))
		for i := 0; i <= id; i++ {
			spec = caseSpec{ID: i, Kind: "DoMulti", seed: rng.Int63()}
			if rng.Intn(10) < 3 {
				spec.Kind = "DoMultiCache"
			}
		}
		err = nil
	}
	if err != nil {
		t.Skip("debugging aid")
	}
	if k := os.Getenv("VERIF_C20_CASE_KIND"); k != "" {
		spec.Kind = k
	}
	w, items, err := prepareCase(&spec)
	if err != nil {
		t.Fatal(err)
	}
	ok, _ := w.runBatch(&spec, items, func(done chan struct{}) bool {
		select {
		case <-done:
			return true
		case <-time.After(2 * time.Second):
			w.client.Close()
			<-done
			return false
		}
	})
	fmt.Printf("returned=%v spec=%+v\n", ok, spec)
	for i, it := range items {
		v, e, _ := resultString(it.Result)
		fmt.Printf("  %d %s %s key=%s slot=%d write=%v -> %s\n", i, it.Note, it.UID, it.Key, it.Slot, it.Write, trunc(v+e, 70))
	}
	n := 0
	for _, e := range w.srv.Log() {
		if (e.Kind == "recv" || e.Kind == "reply" || e.Kind == "close" || e.Kind == "fault") && n < 150 {
			if e.Kind == "recv" && len(e.Argv) > 0 && (e.Argv[0] == "CLIENT" || e.Argv[0] == "HELLO" || e.Argv[0] == "CLUSTER") {
				continue
			}
			if e.Kind == "reply" && len(e.Argv) > 0 && (e.Argv[0] == "CLIENT" || e.Argv[0] == "HELLO" || e.Argv[0] == "CLUSTER") {
				continue
			}
			n++
			fmt.Printf("    @%d %s conn=%d %s %v %s %s\n", e.Seq, e.Node, e.Conn, e.Kind, e.Argv, trunc(e.Reply.String(), 60), e.Note)
		}
	}
	w.srv.Close()
}
