//go:build race

package c20

const raceBuild = true
