package c20

import (
	"context"
	"fmt"
	"math/rand"
	"sort"
	"strconv"
	"strings"
	"sync"
	"sync/atomic"
	"testing"
	"time"

	"github.com/redis/rueidis"
	"verifh/drv"
	"verifh/fakeredis"
	"verifh/mon"
	"verifh/resp"
)

// C20: cluster DoMulti / DoMultiCache return results in input order, each the reply to its own command, however the
// batch is split, redirected or retried; a MULTI...EXEC block is always received by one node as a contiguous unit on one
// connection and is re-sent whole when a member is redirected.
//
// Every command carries a uid (VERIF.ECHO / VERIF.WRITE <key> <uid>; GET <unique key> for DoMultiCache). From the fake
// cluster's log (with reply values) the oracle rebuilds
//   - per uid the ordered hops (node, connection, reply / execution, ASKING in effect),
//   - per connection the transaction units: a received MULTI and everything received after it on that connection up
//     to the EXEC (or to the connection's end).
// Rules:
//   count     len(results) == len(commands);
//   own-reply result i is a reply the server gave to command i and it is the LAST one (a Redis value must be F(uid_i),
//             a Redis error must be the last hop's error; MULTI -> OK, member -> QUEUED, EXEC -> the array of F(member
//             uids) in order, all taken from the block's last unit); a client-made error is accepted only when the case
//             injected a transport fault;
//   unit      what lies between a MULTI and its EXEC on a connection is exactly the members of one block of the batch,
//             in order, nothing else, nothing missing (a unit may be cut short only by the end of its connection);
//             a block member is never received outside such a unit;
//   resend    when, in a unit whose MULTI was accepted, a member was answered MOVED a / ASK a, a later unit of the same
//             block exists on node a (ASK: its MULTI received under ASKING);
//   redirect  a plain command answered MOVED a / ASK a is next received by a (ASK: under ASKING).
//
// The rules are the same however the client came to place the batch: a quarter of the real-time batches are issued
// while some of their slots are missing from the client's view (see prepareCase), so that the batch is placed only
// after a topology refresh; the counters *_after_pick_refresh say how often the rules were exercised on such batches.

// ------------------------------------------------------------------ batch

type item struct {
	UID    string // "" for MULTI / EXEC
	Key    string
	Slot   int
	Write  bool
	Block  int // 0 = plain command, k>0 = member of (or MULTI / EXEC of) block k
	Role   string
	Note   string // mixed-redirect cases: moved | ask | plain
	Result rueidis.RedisResult
}

type hop struct {
	Seq    int64
	Node   string
	Conn   int64
	Asking bool
	InUnit bool // received between a MULTI and an EXEC of its connection
	Reply  *resp.V
	Execd  bool
	ExecV  resp.V
}

func (h hop) String() string {
	s := fmt.Sprintf("@%d %s conn=%d", h.Seq, h.Node, h.Conn)
	if h.Asking {
		s += " ASKING"
	}
	if h.InUnit {
		s += " in-tx"
	}
	switch {
	case h.Execd && (h.Reply == nil || h.Reply.T != '-'):
		s += " executed"
	case h.Reply != nil:
		s += " -> " + h.Reply.String()
	default:
		s += " (no reply)"
	}
	return s
}

type unit struct {
	Conn       int64
	Node       string
	Seq        int64
	Asking     bool // ASKING in effect when the MULTI was received
	Members    []string
	Foreign    []string // anything else received inside
	Complete   bool
	MultiReply *resp.V
	ExecReply  *resp.V
	MemberRep  []*resp.V
}

func (u unit) String() string {
	s := fmt.Sprintf("@%d %s conn=%d", u.Seq, u.Node, u.Conn)
	if u.Asking {
		s += " ASKING"
	}
	s += fmt.Sprintf(" MULTI %v", u.Members)
	if len(u.Foreign) > 0 {
		s += fmt.Sprintf(" foreign=%v", u.Foreign)
	}
	if u.Complete {
		s += " EXEC"
		if u.ExecReply != nil {
			s += " -> " + trunc(u.ExecReply.String(), 80)
		}
	} else {
		s += " (cut)"
	}
	return s
}

func uidOf(argv []string) string {
	if len(argv) == 0 {
		return ""
	}
	switch strings.ToUpper(argv[0]) {
	case "VERIF.ECHO", "VERIF.WRITE":
		if len(argv) > 2 {
			return argv[2]
		}
	case "GET":
		if len(argv) > 1 && strings.Contains(argv[1], "ck.") {
			return argv[1]
		}
	}
	return ""
}

type analysis struct {
	hops    map[string][]*hop
	units   []*unit
	closed  map[int64]bool
	orphans []string // EXEC received outside a unit, etc.
}

// analyse rebuilds hops and units from a log slice. userTx tells whether MULTI/EXEC belong to the user's batch
// (DoMulti) or are the client's own cache-path blocks (DoMultiCache: units are not interpreted).
func analyse(events []fakeredis.Event) *analysis {
	a := &analysis{hops: map[string][]*hop{}, closed: map[int64]bool{}}
	type cst struct {
		asking bool
		cur    *unit
		lastEx *unit // unit whose EXEC reply is awaited
		lastMu *unit
	}
	cs := map[int64]*cst{}
	get := func(id int64) *cst {
		if cs[id] == nil {
			cs[id] = &cst{}
		}
		return cs[id]
	}
	for _, e := range events {
		if e.Kind == "close" || (e.Kind == "fault" && (e.Note == "transport" || e.Note == "target-dies-once")) {
			// (the node logs "close" only after the socket is gone: the client may have returned before; the firing of
			// a connection-closing rule is logged under the same lock as the reception it answers)
			a.closed[e.Conn] = true
			continue
		}
		if e.Conn == 0 || len(e.Argv) == 0 {
			continue
		}
		name := strings.ToUpper(e.Argv[0])
		st := get(e.Conn)
		switch e.Kind {
		case "recv":
			switch name {
			case "ASKING":
				st.asking = true
				if st.cur != nil {
					st.cur.Foreign = append(st.cur.Foreign, "ASKING")
				}
			case "MULTI":
				if st.cur != nil {
					a.orphans = append(a.orphans, fmt.Sprintf("@%d conn=%d MULTI inside an open unit", e.Seq, e.Conn))
				}
				st.cur = &unit{Conn: e.Conn, Node: e.Node, Seq: e.Seq, Asking: st.asking}
				st.lastMu = st.cur
				a.units = append(a.units, st.cur)
			case "EXEC", "DISCARD":
				if st.cur == nil {
					a.orphans = append(a.orphans, fmt.Sprintf("@%d %s conn=%d %s without MULTI", e.Seq, e.Node, e.Conn, name))
				} else {
					st.cur.Complete = name == "EXEC"
					st.lastEx = st.cur
				}
				st.cur, st.asking = nil, false
			default:
				uid := uidOf(e.Argv)
				if uid != "" {
					a.hops[uid] = append(a.hops[uid], &hop{Seq: e.Seq, Node: e.Node, Conn: e.Conn, Asking: st.asking, InUnit: st.cur != nil})
				}
				if st.cur != nil {
					if uid != "" {
						st.cur.Members = append(st.cur.Members, uid)
						st.cur.MemberRep = append(st.cur.MemberRep, nil)
					} else if name != "PTTL" {
						st.cur.Foreign = append(st.cur.Foreign, strings.Join(e.Argv, " "))
					}
				} else {
					st.asking = false
				}
			}
		case "reply":
			v := e.Reply
			switch name {
			case "MULTI":
				if st.lastMu != nil && st.lastMu.MultiReply == nil {
					st.lastMu.MultiReply = &v
				}
			case "EXEC":
				if st.lastEx != nil && st.lastEx.ExecReply == nil {
					st.lastEx.ExecReply = &v
				}
			default:
				if uid := uidOf(e.Argv); uid != "" {
					hs := a.hops[uid]
					for i := len(hs) - 1; i >= 0; i-- {
						if hs[i].Conn == e.Conn {
							if hs[i].Reply == nil {
								hs[i].Reply = &v
							}
							break
						}
					}
					// member reply inside the unit it was received in
					for _, u := range []*unit{st.cur, st.lastEx} {
						if u == nil {
							continue
						}
						for j := len(u.Members) - 1; j >= 0; j-- {
							if u.Members[j] == uid && u.MemberRep[j] == nil {
								u.MemberRep[j] = &v
								break
							}
						}
					}
				}
			}
		case "exec":
			if uid := uidOf(e.Argv); uid != "" {
				hs := a.hops[uid]
				for i := len(hs) - 1; i >= 0; i-- {
					if hs[i].Conn == e.Conn {
						hs[i].Execd, hs[i].ExecV = true, e.Reply
						break
					}
				}
			}
		}
	}
	return a
}

func redirectOf(v *resp.V) (kind, addr string) {
	if v == nil || (v.T != '-' && v.T != '!') {
		return "", ""
	}
	f := strings.Fields(v.S)
	if len(f) >= 3 && (f[0] == "MOVED" || f[0] == "ASK") {
		return f[0], f[2]
	}
	if len(f) > 0 {
		return f[0], ""
	}
	return "", ""
}

// selfAddressedMoved reports whether some command of the batch was answered "MOVED <slot> <addr>" by the node at <addr>.
func selfAddressedMoved(hops map[string][]*hop) bool {
	for _, hs := range hops {
		for _, h := range hs {
			if h.Reply != nil && h.Reply.T == '-' {
				if f := strings.Fields(h.Reply.S); len(f) == 3 && f[0] == "MOVED" && f[2] == h.Node {
					return true
				}
			}
		}
	}
	return false
}

func hopStrings(hs []*hop) []string {
	var s []string
	for _, h := range hs {
		s = append(s, h.String())
	}
	return s
}

func resultString(r rueidis.RedisResult) (val string, errStr string, redisErr bool) {
	if err := r.Error(); err != nil {
		if rueidis.IsRedisNil(err) {
			return "<nil>", "", false
		}
		_, isRedis := rueidis.IsRedisErr(err)
		return "", err.Error(), isRedis
	}
	s, err := r.ToString()
	if err != nil {
		m, _ := r.ToMessage()
		return "<" + m.String() + ">", "", false
	}
	return s, "", false
}

func trunc(s string, n int) string {
	if len(s) > n {
		return s[:n] + "..."
	}
	return s
}

func firstLine(s string) string {
	if i := strings.IndexByte(s, '\n'); i >= 0 {
		s = s[:i]
	}
	return trunc(s, 90)
}

// ------------------------------------------------------------------ the case

type caseSpec struct {
	ID       int      `json:"id"`
	Kind     string   `json:"kind"` // DoMulti | DoMultiCache
	N        int      `json:"n"`
	Slots    int      `json:"slots"`
	Blocks   int      `json:"blocks"`
	Faults   []string `json:"faults"`
	Shards   int      `json:"shards"`
	Lifetime bool     `json:"conn_lifetime,omitempty"`
	// PartialView: slots of the batch that had no owner when the client learnt the topology (they are assigned by the time
	// the batch is issued). PickRefresh is MEASURED: the nodes received CLUSTER SLOTS / SHARDS after the call started and
	// before anything of the batch, i.e. the client could not place the batch in its view and refreshed first.
	PartialView []int `json:"slots_unassigned_in_client_view,omitempty"`
	PickRefresh bool  `json:"picked_after_refresh,omitempty"`
	Pipelined   bool  `json:"always_pipelining"`
	Transport   bool  `json:"-"`
	seed        int64
}

var uidSeq atomic.Int64

func newUID() string { return "u." + strconv.FormatInt(uidSeq.Add(1), 10) }

func errp(s string) *resp.V { v := resp.Err(s); return &v }

type world struct {
	srv    *fakeredis.Server
	client rueidis.Client
	prims  []string
}

func newWorld(shards int, seed int64, lifetime time.Duration, chunk bool, always bool) (*world, error) {
	return newWorldPre(shards, seed, lifetime, chunk, always, nil)
}

// newWorldPre: pre (if any) arranges the cluster before the client connects and learns the topology.
func newWorldPre(shards int, seed int64, lifetime time.Duration, chunk bool, always bool, pre func(*fakeredis.Server)) (*world, error) {
	w := &world{}
	for i := 0; i < shards; i++ {
		w.prims = append(w.prims, fmt.Sprintf("10.3.%d.1:7000", i+1))
	}
	w.srv = fakeredis.New(fakeredis.Options{Seed: seed, LogReplies: true, ChunkWrites: chunk}, w.prims...)
	w.srv.EnableCluster()
	if pre != nil {
		pre(w.srv)
	}
	opt := drv.Option(w.srv, w.prims[0])
	opt.ConnLifetime = lifetime
	opt.AlwaysPipelining = always // false: an idle connection serves a call synchronously, without the background reader / writer
	opt.RetryDelay = func(attempts int, _ rueidis.Completed, _ error) time.Duration {
		if attempts > 30 {
			return -1
		}
		return 0
	}
	c, err := rueidis.NewClient(opt)
	if err != nil {
		w.srv.Close()
		return nil, err
	}
	w.client = c
	return w, nil
}

func (w *world) close() {
	w.client.Close()
	w.srv.Close()
}

func (w *world) otherThan(rng *rand.Rand, a string) string {
	for i := 0; i < 20; i++ {
		if p := w.prims[rng.Intn(len(w.prims))]; p != a {
			return p
		}
	}
	return a
}

// tagsFor returns n hash tags with pairwise distinct slots.
func tagsFor(rng *rand.Rand, n int) (tags []string, slots []int) {
	seen := map[int]bool{}
	for len(tags) < n {
		t := fmt.Sprintf("b%d", rng.Intn(1<<24))
		if s := fakeredis.Slot(t); !seen[s] {
			seen[s] = true
			tags, slots = append(tags, t), append(slots, s)
		}
	}
	return
}

func genBatch(rng *rand.Rand, spec *caseSpec) []item {
	n := 1 + rng.Intn(60)
	if rng.Intn(3) == 0 {
		n = 1 + rng.Intn(8)
	}
	blocks := 0
	if spec.Kind == "DoMulti" && rng.Intn(2) == 0 {
		blocks = 1 + rng.Intn(3)
	}
	nslots := 1 + rng.Intn(16)
	if blocks > 0 {
		nslots = 1 // the client refuses to mix key-less commands (MULTI / EXEC) with several slots
	}
	tags, slots := tagsFor(rng, nslots)
	var items []item
	mk := func(block int) item {
		ti := rng.Intn(len(tags))
		uid := newUID()
		it := item{UID: uid, Slot: slots[ti], Block: block, Write: rng.Intn(3) == 0, Role: "cmd"}
		if spec.Kind == "DoMultiCache" {
			it.Key = fmt.Sprintf("{%s}ck.%s", tags[ti], uid[2:])
			it.UID = it.Key
			it.Write = false
		} else {
			it.Key = fmt.Sprintf("{%s}k%d", tags[ti], rng.Intn(6))
		}
		return it
	}
	b := 0
	for len(items) < n {
		if b < blocks && (rng.Intn(4) == 0 || n-len(items) <= 3*(blocks-b)+2) {
			b++
			items = append(items, item{Block: b, Role: "MULTI"})
			for k := 1 + rng.Intn(5); k > 0; k-- {
				items = append(items, mk(b))
			}
			items = append(items, item{Block: b, Role: "EXEC"})
			continue
		}
		items = append(items, mk(0))
	}
	spec.N, spec.Slots, spec.Blocks = len(items), nslots, b
	return items
}

func build(c rueidis.Client, it item) rueidis.Completed {
	switch it.Role {
	case "MULTI":
		return c.B().Multi().Build()
	case "EXEC":
		return c.B().Exec().Build()
	}
	if it.Write {
		return c.B().Arbitrary("VERIF.WRITE").Keys(it.Key).Args(it.UID, "str").Build()
	}
	return c.B().Arbitrary("VERIF.ECHO").Keys(it.Key).Args(it.UID, "str").ReadOnly()
}

// injectFaults arranges the hostile conditions of a case; it returns their names.
func (w *world) injectFaults(rng *rand.Rand, spec *caseSpec, items []item) {
	cmds := []int{}
	slotSet := map[int]bool{}
	for i, it := range items {
		if it.UID != "" {
			cmds = append(cmds, i)
			slotSet[it.Slot] = true
		}
	}
	var slots []int
	for s := range slotSet {
		slots = append(slots, s)
	}
	sort.Ints(slots)
	// DoMultiCache reads real keys: store a unique value per key on its owner
	if spec.Kind == "DoMultiCache" {
		for _, i := range cmds {
			w.srv.Node(w.srv.SlotOwner(items[i].Slot)).Exec("SET", items[i].Key, "val:"+items[i].Key)
		}
	}
	nf := rng.Intn(4)
	if rng.Intn(5) == 0 {
		nf = 0
	}
	touched := map[int]bool{} // a slot's ownership is disturbed at most once
	uidRule := func(uid string) func(*fakeredis.Conn, []string) bool {
		return func(_ *fakeredis.Conn, a []string) bool { return uidOf(a) == uid }
	}
	for f := 0; f < nf; f++ {
		switch r := rng.Intn(12); {
		case r < 3: // stale topology: some slots now belong to another node (genuine MOVED)
			for _, s := range slots {
				if rng.Intn(2) == 0 && !touched[s] {
					touched[s] = true
					old := w.srv.SlotOwner(s)
					nu := w.otherThan(rng, old)
					if spec.Kind == "DoMultiCache" { // the data moves with the slot
						w.srv.Migrate(s, nu)
						w.srv.FinishMigration(s)
					} else {
						w.srv.SetSlotOwner(s, s, nu)
					}
				}
			}
			spec.Faults = append(spec.Faults, "stale-topology")
		case r < 6: // slots in migration: keys already moved (or never stored) answer ASK, the others are served by the source
			for _, s := range slots {
				if rng.Intn(2) == 0 && !touched[s] {
					src := w.srv.SlotOwner(s)
					dst := w.otherThan(rng, src)
					if dst == src {
						continue
					}
					touched[s] = true
					w.srv.Migrate(s, dst)
					for _, i := range cmds {
						if items[i].Slot != s {
							continue
						}
						if spec.Kind == "DoMultiCache" {
							if rng.Intn(2) == 0 {
								w.srv.MoveKey(items[i].Key)
							}
						} else if rng.Intn(2) == 0 {
							w.srv.Node(src).Exec("SET", items[i].Key, "present") // a key still on the source: served there
						}
					}
				}
			}
			spec.Faults = append(spec.Faults, "migrating")
		case r < 10: // scripted replies on random members
			for k := 1 + rng.Intn(3); k > 0; k-- {
				it := items[cmds[rng.Intn(len(cmds))]]
				var rep string
				x := rng.Intn(4)
				if x == 1 && spec.Kind == "DoMultiCache" {
					x = 0 // an ASK for a key that is still on its node would be a lie about the data (genuine ASKs come from the migrations)
				}
				switch x {
				case 0:
					rep = fmt.Sprintf("MOVED %d %s", it.Slot, w.prims[rng.Intn(len(w.prims))])
				case 1:
					rep = fmt.Sprintf("ASK %d %s", it.Slot, w.prims[rng.Intn(len(w.prims))])
				case 2:
					rep = "TRYAGAIN Multiple keys request during rehashing of slot"
				default:
					rep = "LOADING Redis is loading the dataset in memory"
				}
				w.srv.Plan(&fakeredis.Rule{Name: "scripted", Match: uidRule(it.UID), Times: 1 + rng.Intn(2), Action: fakeredis.Action{Reply: errp(rep)}})
				spec.Faults = append(spec.Faults, "scripted:"+strings.Fields(rep)[0])
			}
		default: // transport: the connection dies at a random member, before or after executing it
			it := items[cmds[rng.Intn(len(cmds))]]
			w.srv.Plan(&fakeredis.Rule{Name: "transport", Match: uidRule(it.UID), Times: 1, Action: fakeredis.Action{Close: true, ExecFirst: rng.Intn(2) == 0}})
			spec.Faults = append(spec.Faults, "transport")
			spec.Transport = true
		}
	}
	sort.Strings(spec.Faults)
}

// genMixedRedirect: one retry round in which ONE node receives both MOVED-redirected and ASK-redirected members of the
// batch (slots of the first kind were reassigned to it behind the client's back, slots of the second kind are being
// migrated to it and the keys are not on the source), and that node's connection dies once at a MOVED-redirected
// member, before executing it. The ASK-redirected members are served normally by the target: their results must be
// their own replies.
func (w *world) genMixedRedirect(rng *rand.Rand, spec *caseSpec) []item {
	target := w.prims[rng.Intn(len(w.prims))]
	var movedTags, askTags, plainTags []string
	var movedSlots, askSlots, plainSlots []int
	seen := map[int]bool{}
	for len(movedTags) < 1+rng.Intn(2) || len(askTags) < 1+rng.Intn(2) || len(plainTags) < 1 {
		t := fmt.Sprintf("m%d", rng.Intn(1<<24))
		s := fakeredis.Slot(t)
		if seen[s] {
			continue // one role per slot
		}
		seen[s] = true
		if w.srv.SlotOwner(s) == target {
			if len(plainTags) < 1 {
				plainTags, plainSlots = append(plainTags, t), append(plainSlots, s)
			}
			continue
		}
		if len(movedTags) <= len(askTags) {
			movedTags, movedSlots = append(movedTags, t), append(movedSlots, s)
		} else {
			askTags, askSlots = append(askTags, t), append(askSlots, s)
		}
	}
	var items []item
	add := func(tags []string, slots []int, n int, role string) {
		for k := 0; k < n; k++ {
			i := rng.Intn(len(tags))
			items = append(items, item{UID: newUID(), Key: fmt.Sprintf("{%s}k%d", tags[i], rng.Intn(4)), Slot: slots[i], Write: rng.Intn(3) == 0, Role: "cmd", Note: role})
		}
	}
	add(movedTags, movedSlots, 1+rng.Intn(5), "moved")
	add(askTags, askSlots, 1+rng.Intn(5), "ask")
	add(plainTags, plainSlots, rng.Intn(3), "plain")
	rng.Shuffle(len(items), func(i, j int) { items[i], items[j] = items[j], items[i] })
	for _, s := range movedSlots {
		w.srv.SetSlotOwner(s, s, target)
	}
	for _, s := range askSlots {
		w.srv.Migrate(s, target)
	}
	var moved []string
	for _, it := range items {
		if it.Note == "moved" {
			moved = append(moved, it.UID)
		}
	}
	victim := moved[rng.Intn(len(moved))]
	w.srv.Plan(&fakeredis.Rule{Name: "target-dies-once", Times: 1, Action: fakeredis.Action{Close: true},
		Match: func(c *fakeredis.Conn, a []string) bool { return c.NodeAddr() == target && uidOf(a) == victim }})
	spec.N, spec.Slots, spec.Blocks = len(items), len(movedSlots)+len(askSlots)+1, 0
	spec.Faults = []string{"moved+ask-to-one-node", "transport-at-moved-member-on-target"}
	spec.Transport = true
	return items
}

// runBatch issues the batch and fills the results; false when the call did not return (bubble runs only).
func (w *world) runBatch(spec *caseSpec, items []item, wait func(done chan struct{}) bool) (ok bool, n int) {
	c := w.client
	ctx := context.Background()
	done := make(chan struct{})
	go func() {
		defer close(done)
		if spec.Kind == "DoMultiCache" {
			cts := make([]rueidis.CacheableTTL, len(items))
			for i, it := range items {
				cts[i] = rueidis.CT(c.B().Get().Key(it.Key).Cache(), time.Minute)
			}
			rs := c.DoMultiCache(ctx, cts...)
			n = len(rs)
			for i := range items {
				if i < len(rs) {
					items[i].Result = rs[i]
				}
			}
			return
		}
		cmds := make(rueidis.Commands, len(items))
		for i, it := range items {
			cmds[i] = build(c, it)
		}
		rs := c.DoMulti(ctx, cmds...)
		n = len(rs)
		for i := range items {
			if i < len(rs) {
				items[i].Result = rs[i]
			}
		}
	}()
	return wait(done), n
}

// --------------------------------------------------------------------- oracle

func evaluate(run *mon.Run, spec *caseSpec, items []item, nres int, events []fakeredis.Event, part string) {
	a := analyse(events)
	desc := func() []string {
		var s []string
		for i, it := range items {
			if i >= 70 {
				s = append(s, "...")
				break
			}
			switch it.Role {
			case "MULTI", "EXEC":
				s = append(s, fmt.Sprintf("%d:%s#%d", i, it.Role, it.Block))
			default:
				w := "r"
				if it.Write {
					w = "w"
				}
				s = append(s, fmt.Sprintf("%d:%s(%s,slot %d,%s)#%d", i, it.UID, w, it.Slot, it.Key, it.Block))
			}
		}
		return s
	}
	unitsOf := func() []string {
		var s []string
		for _, u := range a.units {
			s = append(s, u.String())
		}
		return s
	}
	wit := func(m map[string]any) map[string]any {
		m["case"] = spec
		var rs []string
		for i, it := range items {
			if i >= 70 {
				break
			}
			v, e, _ := resultString(it.Result)
			rs = append(rs, fmt.Sprintf("%d:%s", i, trunc(v+e, 60)))
		}
		m["results"] = rs
		m["batch"] = desc()
		if spec.Kind == "DoMulti" {
			m["units_seen"] = unitsOf()
		}
		return m
	}
	fkey := func(what string) string {
		return fmt.Sprintf("%s|%s|blocks=%v|%s|%s", part, spec.Kind, spec.Blocks > 0, strings.Join(dedupe(spec.Faults), "+"), what)
	}
	if nres != len(items) {
		run.Violation("wrong-result-count", fkey("count"), wit(map[string]any{"results": nres, "commands": len(items)}))
		return
	}
	// blocks of the batch
	blockMembers := map[int][]string{}
	memberBlock := map[string]int{}
	for _, it := range items {
		if it.Block > 0 && it.UID != "" {
			blockMembers[it.Block] = append(blockMembers[it.Block], it.UID)
			memberBlock[it.UID] = it.Block
		}
	}
	isWrite := map[string]bool{}
	for _, it := range items {
		if it.UID != "" {
			isWrite[it.UID] = it.Write
		}
	}
	firstToBlock := map[string]int{}
	for b, ms := range blockMembers {
		firstToBlock[ms[0]] = b
	}
	unitBlock := map[*unit]int{}
	lastUnit := map[int]*unit{}
	if spec.Kind == "DoMulti" {
		for _, o := range a.orphans {
			run.Violation("block-not-contiguous", fkey("exec-or-multi-misplaced"), wit(map[string]any{"what": o}))
		}
		for _, u := range a.units {
			run.Observe("units_checked", 1)
			if len(u.Foreign) > 0 {
				run.Violation("block-not-contiguous", fkey("foreign-command-inside"), wit(map[string]any{"unit": u.String()}))
				continue
			}
			if len(u.Members) == 0 {
				if u.Complete || !a.closed[u.Conn] {
					run.Violation("block-not-contiguous", fkey("empty-unit"), wit(map[string]any{"unit": u.String()}))
				}
				continue
			}
			b, ok := firstToBlock[u.Members[0]]
			if !ok {
				run.Violation("block-not-contiguous", fkey("unit-starts-with-wrong-command"), wit(map[string]any{"unit": u.String()}))
				continue
			}
			want := blockMembers[b]
			unitBlock[u] = b
			same := len(u.Members) <= len(want)
			for i := 0; same && i < len(u.Members); i++ {
				same = u.Members[i] == want[i]
			}
			switch {
			case !same:
				run.Violation("block-not-contiguous", fkey("members-differ"), wit(map[string]any{"unit": u.String(), "block": want}))
			case u.Complete && len(u.Members) != len(want):
				run.Violation("block-not-contiguous", fkey("members-missing"), wit(map[string]any{"unit": u.String(), "block": want}))
			case !u.Complete && !a.closed[u.Conn]:
				run.Violation("block-not-contiguous", fkey("unit-never-finished-on-a-live-connection"), wit(map[string]any{"unit": u.String(), "block": want}))
			case !u.Complete:
				run.Observe("units_cut_by_connection_end", 1)
			default:
				lastUnit[b] = u
				run.Observe("units_complete", 1)
			}
		}
		// members never outside a unit
		for uid, b := range memberBlock {
			for _, h := range a.hops[uid] {
				if !h.InUnit {
					run.Violation("block-member-outside-transaction", fkey("member-outside"), wit(map[string]any{"member": uid, "block": blockMembers[b], "hops": hopStrings(a.hops[uid])}))
					break
				}
			}
		}
		// re-sent whole on redirect
		for ui, u := range a.units {
			b, ok := unitBlock[u]
			if !ok || !u.Complete || u.MultiReply == nil || u.MultiReply.S != "OK" {
				continue
			}
			for j, r := range u.MemberRep {
				kind, addr := redirectOf(r)
				if kind == "TRYAGAIN" || kind == "LOADING" || kind == "CLUSTERDOWN" {
					if isWrite[u.Members[j]] {
						continue // not retried
					}
					break // a retryable failure comes first: the block is retried where it is; a later member's redirect is followed in a later round if it persists
				}
				if kind != "MOVED" && kind != "ASK" {
					continue
				}
				run.Observe("blocks_with_redirected_member", 1)
				if spec.PickRefresh {
					run.Observe("blocks_with_redirected_member_after_pick_refresh", 1)
				}
				found := false
				for _, v := range a.units[ui+1:] {
					if unitBlock[v] == b && v.Node == addr && len(v.Members) > 0 && (kind == "MOVED" || v.Asking) {
						found = true
					}
				}
				if !found && !spec.Transport {
					run.Violation("block-not-resent-whole", fkey(kind), wit(map[string]any{"unit": u.String(), "redirected_member": u.Members[j], "reply": r.S}))
				} else if found {
					run.Observe("blocks_resent_whole_on_"+strings.ToLower(kind), 1)
					if spec.PickRefresh {
						run.Observe("blocks_resent_whole_after_pick_refresh", 1)
					}
				}
				break
			}
		}
	}
	// per position results
	for i, it := range items {
		val, errStr, isRedis := resultString(it.Result)
		w1 := func(m map[string]any) map[string]any {
			m["position"] = i
			m["result"] = val + errStr
			if it.UID != "" {
				m["hops"] = hopStrings(a.hops[it.UID])
			}
			return wit(m)
		}
		if errStr != "" && !isRedis {
			if !spec.Transport && strings.Contains(errStr, "closing") && selfAddressedMoved(a.hops) {
				// A MOVED that names the node it came from makes the client open a second connection to that address and
				// close the first one five WALL-CLOCK seconds later (cluster.go redirectOrNew); members of the batch that
				// are retried on the first connection get ErrClosing when the case takes longer than that on a loaded
				// machine. What happens then depends on real time, which no verdict here may rest on: counted, not judged.
				run.Observe("closing_errors_after_self_addressed_moved_not_judged", 1)
			} else if !spec.Transport {
				run.Violation("client-made-error-without-fault", fkey(firstLine(errStr)), w1(map[string]any{}))
			} else {
				run.Observe("transport_errors_returned", 1)
			}
			continue
		}
		switch it.Role {
		case "MULTI", "EXEC":
			u := lastUnit[it.Block]
			if u == nil {
				continue // every unit of the block was cut or the block never reached a node: nothing to compare with
			}
			rep := u.MultiReply
			if it.Role == "EXEC" {
				rep = u.ExecReply
			}
			if rep == nil {
				continue
			}
			if rep.T == '-' {
				if errStr != strings.TrimPrefix(rep.S, "ERR ") {
					run.Violation("result-not-own-last-reply", fkey(it.Role), w1(map[string]any{"last_unit": u.String(), "server_replied": rep.S}))
				} else {
					run.Observe("results_checked", 1)
				}
				continue
			}
			if it.Role == "MULTI" {
				if val != "OK" {
					run.Violation("result-not-own-last-reply", fkey("MULTI"), w1(map[string]any{"last_unit": u.String()}))
				} else {
					run.Observe("results_checked", 1)
				}
				continue
			}
			arr, err := it.Result.ToArray()
			want := blockMembers[it.Block]
			okArr := err == nil && len(arr) == len(want)
			for j := 0; okArr && j < len(arr); j++ {
				s, _ := arr[j].ToString()
				okArr = s == "echo:"+want[j]
			}
			if !okArr {
				run.Violation("result-not-own-last-reply", fkey("EXEC-array"), w1(map[string]any{"last_unit": u.String(), "expected_members": want}))
			} else {
				run.Observe("exec_arrays_checked", 1)
			}
		default:
			hs := a.hops[it.UID]
			if len(hs) == 0 {
				run.Violation("result-without-any-reception", fkey("not-received"), w1(map[string]any{}))
				continue
			}
			last := hs[len(hs)-1]
			if it.Block > 0 {
				if u := lastUnit[it.Block]; u != nil {
					// the member's reply inside the block's last complete unit
					for j, m := range u.Members {
						if m == it.UID && u.MemberRep[j] != nil {
							last = &hop{Reply: u.MemberRep[j]}
						}
					}
				}
				want := ""
				if last.Reply != nil {
					want = strings.TrimPrefix(last.Reply.S, "ERR ")
				}
				if last.Reply != nil && val+errStr != want {
					run.Violation("result-not-own-last-reply", fkey("member"), w1(map[string]any{"server_replied_last": last.Reply.S}))
				} else {
					run.Observe("results_checked", 1)
				}
				continue
			}
			// plain command: redirect rule, then last reply
			for k := 0; k+1 < len(hs); k++ {
				kind, addr := redirectOf(hs[k].Reply)
				if hs[k].Execd && (hs[k].Reply == nil || hs[k].Reply.T != '-') {
					continue
				}
				if kind == "MOVED" && hs[k+1].Node != addr && !spec.Transport {
					run.Violation("moved-not-followed", fkey("plain"), w1(map[string]any{"hop": k}))
				}
				if kind == "ASK" && (hs[k+1].Node != addr || !hs[k+1].Asking) && !spec.Transport {
					run.Violation("ask-not-followed", fkey("plain"), w1(map[string]any{"hop": k}))
				}
				if kind == "MOVED" || kind == "ASK" {
					run.Observe("plain_redirects_followed", 1)
				}
			}
			want := ""
			switch {
			case last.Execd && (last.Reply == nil || last.Reply.T != '-' || spec.Kind == "DoMultiCache"):
				want = last.ExecV.S
				if last.ExecV.IsNull() {
					want = "<nil>"
				}
			case last.Reply != nil:
				want = strings.TrimPrefix(last.Reply.S, "ERR ")
			default:
				continue // the last reception got no reply (connection died)
			}
			if val+errStr != want {
				// (client-made errors were dealt with above: what is left is a server reply that is not this command's last one)
				what := "plain"
				if it.Note != "" {
					what = it.Note + "-redirected-member"
				}
				run.Violation("result-not-own-last-reply", fkey(what), w1(map[string]any{"expected": want}))
				continue
			}
			ownv := "echo:" + it.UID
			if spec.Kind == "DoMultiCache" {
				ownv = "val:" + it.Key
			}
			if errStr == "" && val != ownv {
				run.Violation("result-not-own-last-reply", fkey("foreign-value"), w1(map[string]any{"expected": ownv}))
				continue
			}
			run.Observe("results_checked", 1)
			if len(hs) > 1 {
				run.Observe("results_of_resent_commands_checked", 1)
				if spec.PickRefresh {
					run.Observe("results_of_resent_commands_checked_after_pick_refresh", 1)
				}
			}
			if it.Note == "ask" {
				run.Observe("ask_members_own_reply_after_target_connection_died", 1)
			}
		}
	}
}

func dedupe(s []string) []string {
	m := map[string]bool{}
	var out []string
	for _, x := range s {
		if !m[x] {
			m[x] = true
			out = append(out, x)
		}
	}
	return out
}

func nBucket(n int) string {
	switch {
	case n <= 3:
		return "1-3"
	case n <= 10:
		return "4-10"
	case n <= 30:
		return "11-30"
	}
	return "31-60"
}

// prepareCase builds the world and the batch of a real-time case (a pure function of spec.seed and spec.Kind).
//
// Partial view (a quarter of the generated batches, decided by a stream of its own so that the other dimensions of the
// case list do not depend on it): a non-empty subset of the batch's slots has no owner while the client connects and
// learns the topology; the slots are assigned (to their former owner or to another primary) before the batch is
// issued. The client then cannot place the batch in its view, refreshes the topology and picks again; every other
// hostile condition of the case comes on top of that.
func prepareCase(spec *caseSpec) (*world, []item, error) {
	rng := rand.New(rand.NewSource(spec.seed))
	spec.Shards = 2 + rng.Intn(5)
	spec.Pipelined = rng.Intn(2) == 0
	chunk := rng.Intn(2) == 0
	mixed := spec.Kind == "DoMulti" && spec.Shards >= 3 && rng.Intn(6) == 0
	var items []item
	var pre func(*fakeredis.Server)
	owners := map[int]string{}
	pv := rand.New(rand.NewSource(spec.seed ^ 0x7061727469616c))
	if !mixed {
		items = genBatch(rng, spec)
		if pv.Intn(4) == 0 {
			seen := map[int]bool{}
			var slots []int
			for _, it := range items {
				if it.UID != "" && !seen[it.Slot] {
					seen[it.Slot] = true
					slots = append(slots, it.Slot)
				}
			}
			sort.Ints(slots)
			keep := slots[pv.Intn(len(slots))] // at least this one
			for _, s := range slots {
				if s == keep || pv.Intn(2) == 0 {
					spec.PartialView = append(spec.PartialView, s)
				}
			}
			pre = func(srv *fakeredis.Server) {
				for _, s := range spec.PartialView {
					owners[s] = srv.SlotOwner(s)
					srv.SetSlotOwner(s, s, "")
				}
			}
		}
	}
	w, err := newWorldPre(spec.Shards, spec.seed, 0, chunk, spec.Pipelined, pre)
	if err != nil {
		return nil, nil, err
	}
	for _, s := range spec.PartialView {
		to := owners[s]
		if pv.Intn(2) == 0 {
			to = w.otherThan(pv, to)
		}
		w.srv.SetSlotOwner(s, s, to)
	}
	if mixed {
		items = w.genMixedRedirect(rng, spec)
	} else {
		w.injectFaults(rng, spec, items)
		if len(spec.PartialView) > 0 {
			spec.Faults = append(spec.Faults, "partial-view")
			sort.Strings(spec.Faults)
		}
	}
	return w, items, nil
}

// pickedAfterRefresh: did the nodes receive a topology query after the call started and before anything of the batch?
func pickedAfterRefresh(events []fakeredis.Event) bool {
	for _, e := range events {
		if e.Kind != "recv" || len(e.Argv) == 0 {
			continue
		}
		switch name := strings.ToUpper(e.Argv[0]); {
		case name == "CLUSTER" && len(e.Argv) > 1 && (strings.EqualFold(e.Argv[1], "SLOTS") || strings.EqualFold(e.Argv[1], "SHARDS")):
			return true
		case name == "MULTI" || name == "EXEC" || name == "ASKING" || uidOf(e.Argv) != "":
			return false
		}
	}
	return false
}

// oneCase runs one real-time case in its own world.
func oneCase(run *mon.Run, spec caseSpec) {
	w, items, err := prepareCase(&spec)
	if err != nil {
		run.Inconclusive("client setup failed: " + err.Error())
		return
	}
	defer w.close()
	from := w.srv.LogLen()
	var nres int
	var pnc any
	stuck := false
	func() {
		defer func() { pnc = recover() }()
		var returned bool
		returned, nres = w.runBatch(&spec, items, func(done chan struct{}) bool {
			select {
			case <-done:
				return true
			case <-time.After(60 * time.Second): // harness watchdog, not a verdict: the case is reported as inconclusive
				w.client.Close() // ends the client's retry / redirect loop
				<-done
				return false
			}
		})
		if !returned {
			fmt.Printf("WATCHDOG case %+v seed=%d did not return within 60 s\n", spec, spec.seed)
			run.Inconclusive(fmt.Sprintf("a %s call did not return within 60 s (faults %v)", spec.Kind, spec.Faults))
			stuck = true
		}
	}()
	if stuck {
		return
	}
	fp := fmt.Sprintf("rt|%s|n=%s|slots=%d|blocks=%d|%s", spec.Kind, nBucket(spec.N), min(spec.Slots, 4), spec.Blocks, strings.Join(dedupe(spec.Faults), "+"))
	if pnc != nil {
		run.Violation("panic", fmt.Sprintf("rt|%s|%s", spec.Kind, firstLine(fmt.Sprint(pnc))), map[string]any{"case": spec, "panic": fmt.Sprint(pnc)})
		return
	}
	events := w.srv.Log()
	if len(spec.PartialView) > 0 {
		run.Observe("batches_with_slots_unassigned_in_client_view", 1)
	}
	if spec.PickRefresh = pickedAfterRefresh(events[from:]); spec.PickRefresh {
		run.Observe("batches_picked_after_refresh", 1)
		if spec.Kind == "DoMultiCache" {
			run.Observe("cache_batches_picked_after_refresh", 1)
		}
		if spec.Blocks > 0 {
			run.Observe("batches_with_blocks_picked_after_refresh", 1)
		}
	}
	evaluate(run, &spec, items, nres, events, "rt")
	run.Case(fp, spec.N > 1 && (len(spec.Faults) > 0 || spec.Slots > 1 || spec.Blocks > 0))
	run.Sample(spec)
}

func TestC20(t *testing.T) {
	run := mon.Start(t, "C20", "exploration",
		"one fresh fake cluster (2-6 primaries) and client per case; DoMulti batches of 1-60 uid-carrying commands over 1-16 slots with 0-3 MULTI...EXEC blocks (blocks: one slot) and DoMultiCache batches of 1-60 cached GETs over 1-16 slots; 0-3 hostile conditions per case among stale topology (genuine MOVED), slots in migration with some keys moved (genuine ASK), scripted MOVED / ASK / TRYAGAIN / LOADING on random members (inside blocks too) and a connection dying at a random member before or after executing it; a quarter of these batches are issued while some of their slots are missing from the client's view of the topology (unassigned when it connected, assigned since), so that the batch is placed only after a topology refresh; "+
			"plus virtual-time cases with ConnLifetime expiring in the middle of a batch; a case = (call, size bucket, slots, blocks, fault set) and is non-trivial when it has several commands and a fault, several slots or a block")
	defer run.Finish()
	run.Assume("a scripted error reply flags an open transaction on the fake node like a rejected command does in Redis (EXEC answers EXECABORT)",
		"ASKING stays in effect for the commands of the MULTI block that follows it (Redis semantics)")

	n := run.N(4000, 100000)
	if raceBuild {
		n /= 5
	}
	rng := run.Rand("cases")
	specs := make([]caseSpec, n)
	for i := range specs {
		specs[i] = caseSpec{ID: i, Kind: "DoMulti", seed: rng.Int63()}
		if rng.Intn(10) < 3 {
			specs[i].Kind = "DoMultiCache"
		}
	}
	var wg sync.WaitGroup
	ch := make(chan caseSpec)
	for g := 0; g < 6; g++ {
		wg.Add(1)
		go func() {
			defer wg.Done()
			for s := range ch {
				oneCase(run, s)
			}
		}()
	}
	for _, s := range specs {
		ch <- s
	}
	close(ch)
	wg.Wait()
	lifetimeCases(run, t)
	run.Require("results_checked", "exec_arrays_checked", "units_complete", "blocks_resent_whole_on_moved", "blocks_resent_whole_on_ask", "plain_redirects_followed",
		"results_of_resent_commands_checked", "units_cut_by_connection_end", "transport_errors_returned", "lifetime_expired_mid_batch",
		"ask_members_own_reply_after_target_connection_died",
		"batches_picked_after_refresh", "blocks_resent_whole_after_pick_refresh")
}
