package c45

import (
	"encoding/json"
	"errors"
	"fmt"
	"math"
	"math/rand"
	"strings"
	"time"

	"verifh/drv"
	"verifh/resp"
)

type emb struct {
	X int
	Y []string `json:"y,omitempty"`
}

type rec struct {
	A    int            `json:"a"`
	B    string         `json:"b,omitempty"`
	C    *float64       `json:"c"`
	D    []byte         // base64
	E    map[string]any `json:"e,omitempty"`
	F    uint8          `json:",string"`
	G    any
	h    int             //nolint:unused // unexported: never encoded
	Skip int             `json:"-"`
	Dash int             `json:"-,"`
	I64  int64           `json:"i64,string,omitempty"`
	Next *rec            `json:"next,omitempty"`
	emb                  // unexported embedded struct with exported fields
	T    time.Time       `json:"t"`
	R    json.RawMessage `json:"r,omitempty"`
	N    json.Number     `json:"n"`
	Arr  [3]int8
	U    uint64
	F32  float32
	Bool bool `json:"bool,omitempty"`
}

// marsh implements json.Marshaler.
type marsh struct {
	out string
	err error
}

func (m marsh) MarshalJSON() ([]byte, error) { return []byte(m.out), m.err }

// tkey implements encoding.TextMarshaler (usable as a map key).
type tkey struct{ s string }

func (k tkey) MarshalText() ([]byte, error) {
	if k.s == "FAIL" {
		return nil, errors.New("tkey: cannot marshal")
	}
	return []byte("<" + k.s + ">"), nil
}

var jsonStrings = []string{"", "plain", "<script>alert('x')&</script>", "quote\" backslash\\ slash/", "\x00\x01\x1f\x7f", "line\nfeed\rtab\t", "  ", "é☃𝄞", "\xff\xfe invalid utf8 \xc3", "\xed\xa0\x80 surrogate", strings.Repeat("long ", 300)}

func genString(r *rand.Rand) string {
	if r.Intn(2) == 0 {
		return jsonStrings[r.Intn(len(jsonStrings))]
	}
	return resp.GenBytes(r, false)
}

// genJSON returns a Go value encoding/json can encode; composite reports whether it is more than a plain scalar.
func genJSON(r *rand.Rand, depth int) (v any, composite bool) {
	k := r.Intn(30)
	if depth <= 0 && k >= 20 {
		k = r.Intn(20)
	}
	switch k {
	case 0:
		return nil, false
	case 1:
		return r.Intn(2) == 0, false
	case 2:
		return []any{int(r.Int63() - r.Int63()), int8(r.Intn(256) - 128), int16(r.Intn(65536) - 32768), int32(r.Uint32()), int64(r.Uint64())}[r.Intn(5)], false
	case 3:
		return []any{uint(r.Uint64()), uint8(r.Intn(256)), uint16(r.Intn(65536)), r.Uint32(), r.Uint64(), uintptr(r.Uint32())}[r.Intn(6)], false
	case 4:
		return []float64{0, math.Copysign(0, -1), 1, -1.5, 1e21, 1e20, 1e-6, 1e-7, 123456789.125, math.MaxFloat64, math.SmallestNonzeroFloat64, 0.1, 100, 1e300}[r.Intn(14)], false
	case 5:
		return math.Float64frombits(r.Uint64()&^(0x7ff<<52) | uint64(r.Intn(2046)+1)<<52), false // any finite normal
	case 6:
		return []float32{0, 1, -1.5, 1e21, 1e-7, 3.4028235e38, 1e-45, 0.1, 16777216}[r.Intn(9)], false
	case 7, 8:
		s := genString(r)
		return s, strings.ContainsAny(s, "<>&\"\\\n\r\t\x00 ") || !json.Valid([]byte(`"`+s+`"`))
	case 9:
		b := []byte(resp.GenBytes(r, false))
		if r.Intn(5) == 0 {
			b = nil
		}
		return b, true
	case 10:
		return json.Number([]string{"0", "-12", "1.5e10", "123456789012345678901234567890", "-0"}[r.Intn(5)]), false
	case 11:
		return json.RawMessage([]string{`{"raw":[1,2, 3]}`, `null`, ` "spaced" `, `[ ]`, "{\"a\":\n1}"}[r.Intn(5)]), true
	case 12:
		return time.Unix(r.Int63n(4e9), r.Int63n(1e9)).UTC(), true
	case 13:
		return marsh{out: []string{`{"custom": true}`, `[1, 2]`, `"<>&"`, `null`, " 7 "}[r.Intn(5)]}, true
	case 14:
		return tkey{genString(r)}, true
	case 15:
		f := 2.5
		return []any{&f, (*int)(nil), new(string), (*rec)(nil)}[r.Intn(4)], true
	case 16:
		return []any{[]int(nil), []int{}, []string{"a", "<"}, [2]bool{true, false}, []float64{1, 2.5}, [][]int{{1}, nil, {}}, []uint8{1, 2, 3}, [0]int{}}[r.Intn(8)], true
	case 17:
		return []any{map[string]int(nil), map[string]int{}, map[int]string{3: "c", -1: "a", 20: "b"}, map[uint8]bool{200: true, 3: false}, map[tkey]int{{"k2"}: 2, {"k1"}: 1}, map[string]any{"z": nil, "a": 1, "<": ">"}}[r.Intn(6)], true
	case 18:
		return struct{}{}, true
	case 19:
		return time.Duration(r.Int63()), false
	case 20, 21, 22:
		n := r.Intn(5)
		s := make([]any, n)
		for i := range s {
			s[i], _ = genJSON(r, depth-1)
		}
		return s, true
	case 23, 24, 25:
		n := r.Intn(5)
		m := make(map[string]any, n)
		for i := 0; i < n; i++ {
			m[genString(r)], _ = genJSON(r, depth-1)
		}
		return m, true
	default:
		x := rec{A: r.Intn(100) - 50, B: []string{"", "b", "<b>"}[r.Intn(3)], D: []byte(resp.GenBytes(r, false)), F: uint8(r.Intn(256)), h: 7, Skip: 1, Dash: r.Intn(3),
			I64: []int64{0, -5, 1 << 62}[r.Intn(3)], emb: emb{X: r.Intn(9), Y: []string{"y"}[:r.Intn(2)]}, T: time.Unix(r.Int63n(2e9), 0).UTC(), N: json.Number("42"), Arr: [3]int8{-1, 0, 1}, U: r.Uint64(), F32: 0.25, Bool: r.Intn(2) == 0}
		if r.Intn(2) == 0 {
			f := float64(r.Intn(1000)) / 8
			x.C = &f
		}
		if r.Intn(2) == 0 {
			x.G, _ = genJSON(r, depth-1)
		}
		if r.Intn(3) == 0 {
			x.E = map[string]any{"k": genString(r)}
		}
		if r.Intn(3) == 0 {
			x.R = json.RawMessage(`{"r": 1}`)
		}
		if r.Intn(3) == 0 && depth > 1 {
			x.Next = &rec{A: 1, N: "0", G: []any{1, "two"}}
		}
		if r.Intn(2) == 0 {
			return &x, true
		}
		return x, true
	}
}

type cyc struct {
	Name string
	Next *cyc
}

// rejected returns values encoding/json.Marshal returns an error for.
func rejected() map[string]any {
	loop := &cyc{Name: "loop"}
	loop.Next = loop
	cm := map[string]any{}
	cm["self"] = cm
	cs := make([]any, 1)
	cs[0] = cs
	return map[string]any{
		"NaN":                     math.NaN(),
		"+Inf":                    math.Inf(1),
		"-Inf":                    math.Inf(-1),
		"float32 NaN":             float32(math.NaN()),
		"NaN in slice":            []float64{1, math.NaN()},
		"Inf in map":              map[string]any{"a": 1, "b": math.Inf(1)},
		"NaN in struct ptr":       &rec{N: "1", G: math.NaN()},
		"chan":                    make(chan int),
		"func":                    func() {},
		"complex":                 complex(1, 2),
		"map[bool]int":            map[bool]int{true: 1},
		"map[float64]int":         map[float64]int{1.5: 1},
		"struct with chan":        struct{ C chan int }{make(chan int)},
		"cyclic pointer":          loop,
		"cyclic map":              cm,
		"cyclic slice":            cs,
		"Marshaler error":         marsh{out: "1", err: errors.New("marsh: refused")},
		"Marshaler invalid JSON":  marsh{out: "{not json"},
		"Marshaler empty":         marsh{out: ""},
		"bad json.Number":         json.Number("12abc"),
		"bad RawMessage":          json.RawMessage("{"),
		"TextMarshaler key error": map[tkey]int{{"FAIL"}: 1},
		"unsupported in nested":   []any{1, map[string]any{"f": func() {}}},
		"year 10000":              time.Date(10000, 1, 1, 0, 0, 0, 0, time.UTC),
	}
}

func (c *checker) jsons() {
	run := c.run
	rng := run.Rand("json")
	compare := func(gen string, v any, composite bool) {
		want, err := json.Marshal(v)
		typ := fmt.Sprintf("%T", v)
		if err != nil {
			// nothing is demanded here: record what JSON() does with a value that has no standard encoding
			run.Evals(1)
			var got string
			if p := guarded(func() { got = c.h.json(v) }); p != "" {
				if strings.Contains(p, err.Error()) {
					run.Observe("json_unencodable_panics_with_encoder_error", 1)
				} else {
					run.Observe("json_unencodable_panics_other", 1)
				}
			} else {
				_ = got
				run.Observe("json_unencodable_returns", 1)
			}
			return
		}
		run.Case("json|"+typ+"|"+string(want), composite)
		key := fmt.Sprintf("json %s %s", typ, drv.Trunc(want, 120))
		var got string
		if p := guarded(func() { got = c.h.json(v) }); p != "" {
			run.Violation("panic", key, map[string]any{"gen": gen, "type": typ, "want": string(drv.Trunc(want, 400)), "panic": p})
			return
		}
		run.Observe("json_compared", 1)
		if got != string(want) {
			run.Violation("json-differs", key, map[string]any{"gen": gen, "type": typ, "want": string(drv.Trunc(want, 400)), "got": string(drv.Trunc([]byte(got), 400))})
		}
	}
	for _, s := range jsonStrings {
		compare("strings", s, true)
		compare("strings", map[string]string{s: s}, true)
		compare("strings", []string{s}, true)
	}
	run.Sample(map[string]any{"gen": "json", "example_in": "<script>alert('x')&</script>", "example_out": `"<script>alert('x')&</script>"`})
	n := run.N(60000, 1500000)
	for i := 0; i < n; i++ {
		v, comp := genJSON(rng, 1+rng.Intn(4))
		compare("random", v, comp)
	}
	var names []string
	for name, v := range rejected() {
		if _, err := json.Marshal(v); err == nil {
			run.Inconclusive("encoding/json accepted a value meant to be rejected: " + name)
			continue
		}
		names = append(names, name)
		compare("rejected", v, false)
	}
	run.Extra("json_values_without_standard_encoding", len(names))
}
