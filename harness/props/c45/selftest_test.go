package c45

import (
	"bytes"
	"encoding/json"
	"math"
	"os"
	"testing"

	"github.com/redis/rueidis"
	"verifh/mon"
)

type fakeTB struct{ errors int }

func (f *fakeTB) Helper()               {}
func (f *fakeTB) Logf(string, ...any)   {}
func (f *fakeTB) Errorf(string, ...any) { f.errors++ }
func (f *fakeTB) Fatalf(string, ...any) { panic("fatal") }
func (f *fakeTB) Name() string          { return "selftest" }

// TestC45SelfTest wraps the real helpers in small faults; every one must be reported. VERIF_SELFTEST=1 only.
func TestC45SelfTest(t *testing.T) {
	if os.Getenv("VERIF_SELFTEST") == "" {
		t.Skip("VERIF_SELFTEST not set")
	}
	mon.Root = t.TempDir()
	muts := map[string]func(h *helpers){
		"": func(h *helpers) {},
		"f32-through-float64-arithmetic": func(h *helpers) { // quiets signalling NaNs only
			h.vs32 = func(v []float32) string {
				w := make([]float32, len(v))
				for i, e := range v {
					w[i] = float32(float64(e) * 1)
				}
				return rueidis.VectorString32(w)
			}
		},
		"f64-negative-zero-lost": func(h *helpers) {
			h.tv64 = func(s string) []float64 {
				v := rueidis.ToVector64(s)
				for i := range v {
					if v[i] == 0 {
						v[i] = 0
					}
				}
				return v
			}
		},
		"f64-nan-canonicalised": func(h *helpers) {
			h.vs64 = func(v []float64) string {
				w := append([]float64{}, v...)
				for i := range w {
					if w[i] != w[i] && math.Float64bits(w[i])>>63 == 0 && math.Float64bits(w[i])&(1<<51) != 0 {
						w[i] = math.NaN()
					}
				}
				return rueidis.VectorString64(w)
			}
		},
		"f32-last-element-dropped-at-1024": func(h *helpers) {
			h.tv32 = func(s string) []float32 {
				v := rueidis.ToVector32(s)
				if len(v) == 1024 {
					v = v[:1023]
				}
				return v
			}
		},
		"binary-stops-at-nul-257": func(h *helpers) {
			h.bin = func(b []byte) string {
				if i := bytes.IndexByte(b, 0); i >= 257 {
					b = b[:i]
				}
				return rueidis.BinaryString(b)
			}
		},
		"json-no-html-escape": func(h *helpers) {
			h.json = func(x any) string {
				var sb bytes.Buffer
				e := json.NewEncoder(&sb)
				e.SetEscapeHTML(false)
				if err := e.Encode(x); err != nil {
					panic(err)
				}
				return string(bytes.TrimSuffix(sb.Bytes(), []byte("\n")))
			}
		},
	}
	for name, mut := range muts {
		tb := &fakeTB{}
		run := mon.Start(tb, "C45", "exploration", "selftest")
		c := &checker{run: run, h: realHelpers}
		mut(&c.h)
		c.vectors()
		c.binary()
		c.jsons()
		v := run.Violations()
		run.Finish()
		t.Logf("mutant %q: %d violations", name, v)
		if (name == "") != (v == 0) {
			t.Errorf("mutant %q: %d violations", name, v)
		}
	}
}
