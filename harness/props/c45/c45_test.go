package c45

import (
	"encoding/binary"
	"fmt"
	"hash/fnv"
	"math"
	"math/rand"
	"testing"

	"github.com/redis/rueidis"
	"verifh/drv"
	"verifh/mon"
)

// helpers is the code under test (wrapped by mutants in the driver's self test).
type helpers struct {
	vs32 func([]float32) string
	tv32 func(string) []float32
	vs64 func([]float64) string
	tv64 func(string) []float64
	bin  func([]byte) string
	json func(any) string
}

var realHelpers = helpers{rueidis.VectorString32, rueidis.ToVector32, rueidis.VectorString64, rueidis.ToVector64, rueidis.BinaryString, rueidis.JSON}

type checker struct {
	run *mon.Run
	h   helpers
}

func guarded(f func()) (p string) {
	defer func() {
		if r := recover(); r != nil {
			p = fmt.Sprint(r)
		}
	}()
	f()
	return ""
}

// mantissas returns structured fraction patterns for a w bit fraction field: zero, the single bits, the quiet bit
// combined with every single bit (quiet NaN payloads), signalling payloads, all ones, alternating bits and a few random ones.
func mantissas(r *rand.Rand, w uint) []uint64 {
	seen := map[uint64]bool{}
	var out []uint64
	add := func(v uint64) {
		v &= 1<<w - 1
		if !seen[v] {
			seen[v] = true
			out = append(out, v)
		}
	}
	top := uint64(1) << (w - 1)
	all := uint64(1)<<w - 1
	for _, v := range []uint64{0, 1, 2, 3, top, top | 1, top - 1, all, all - 1, all >> 1, 0x5555555555555555, 0xAAAAAAAAAAAAAAAA, top | top>>1, top >> 1} {
		add(v)
	}
	for i := uint(0); i < w; i++ {
		add(1 << i)
		add(top | 1<<i)
		add(all &^ (1 << i))
	}
	for i := 0; i < 8; i++ {
		add(r.Uint64())
	}
	return out
}

func class32(b uint32) string {
	e, m := b>>23&0xff, b&0x7fffff
	switch {
	case e == 0xff && m == 0:
		return "inf"
	case e == 0xff && m&0x400000 != 0:
		return "qnan"
	case e == 0xff:
		return "snan"
	case e == 0 && m == 0:
		return "zero"
	case e == 0:
		return "subnormal"
	}
	return "normal"
}

func class64(b uint64) string {
	e, m := b>>52&0x7ff, b&(1<<52-1)
	switch {
	case e == 0x7ff && m == 0:
		return "inf"
	case e == 0x7ff && m&(1<<51) != 0:
		return "qnan"
	case e == 0x7ff:
		return "snan"
	case e == 0 && m == 0:
		return "zero"
	case e == 0:
		return "subnormal"
	}
	return "normal"
}

func sign(neg bool) string {
	if neg {
		return "-"
	}
	return "+"
}

// vec32 evaluates ToVector32(VectorString32(v)) == v bit for bit on the vector with the given bit patterns.
func (c *checker) vec32(gen string, bits []uint32) {
	run := c.run
	v := make([]float32, len(bits))
	special := false
	h := fnv.New64a()
	for i, b := range bits {
		v[i] = math.Float32frombits(b)
		if math.Float32bits(v[i]) != b {
			run.Inconclusive("this platform does not keep float32 bit patterns in plain moves")
			return
		}
		if class32(b) != "normal" {
			special = true
		}
		var x [4]byte
		binary.BigEndian.PutUint32(x[:], b)
		h.Write(x[:])
	}
	run.Case(fmt.Sprintf("v32|%d|%x", len(bits), h.Sum64()), special || len(bits) > 1)
	var s string
	var back []float32
	key := func(i int) string {
		if i < 0 {
			return fmt.Sprintf("v32 len=%d", len(bits))
		}
		return fmt.Sprintf("v32 bits=%08x class=%s%s", bits[i], sign(bits[i]>>31 != 0), class32(bits[i]))
	}
	if p := guarded(func() { s = c.h.vs32(v); back = c.h.tv32(s) }); p != "" {
		run.Violation("panic", key(-1), map[string]any{"gen": gen, "panic": p, "bits": fmt.Sprintf("%08x", bits[:min(len(bits), 32)])})
		return
	}
	run.Observe("f32_vectors", 1)
	run.Observe("f32_elements", int64(len(bits)))
	if len(back) != len(bits) {
		run.Violation("vector-length", key(-1), map[string]any{"gen": gen, "want_len": len(bits), "got_len": len(back), "string_len": len(s)})
		return
	}
	for i, b := range bits {
		run.Observe("f32_"+class32(b), 1)
		if g := math.Float32bits(back[i]); g != b {
			run.Violation("vector-bits", key(i), map[string]any{"gen": gen, "index": i, "len": len(bits), "want_bits": fmt.Sprintf("%08x", b), "got_bits": fmt.Sprintf("%08x", g), "string": drv.Hexs(drv.Trunc([]byte(s), 64))})
			return
		}
	}
	// not demanded by C45, recorded only: the layout a vector index expects (IEEE-754 little endian, 4 bytes per element)
	le := len(s) == 4*len(bits)
	for i := 0; le && i < len(bits); i++ {
		le = binary.LittleEndian.Uint32([]byte(s[4*i:4*i+4])) == bits[i]
	}
	if le {
		run.Observe("f32_layout_little_endian", 1)
	} else {
		run.Observe("f32_layout_other", 1)
	}
}

func (c *checker) vec64(gen string, bits []uint64) {
	run := c.run
	v := make([]float64, len(bits))
	special := false
	h := fnv.New64a()
	for i, b := range bits {
		v[i] = math.Float64frombits(b)
		if math.Float64bits(v[i]) != b {
			run.Inconclusive("this platform does not keep float64 bit patterns in plain moves")
			return
		}
		if class64(b) != "normal" {
			special = true
		}
		var x [8]byte
		binary.BigEndian.PutUint64(x[:], b)
		h.Write(x[:])
	}
	run.Case(fmt.Sprintf("v64|%d|%x", len(bits), h.Sum64()), special || len(bits) > 1)
	var s string
	var back []float64
	key := func(i int) string {
		if i < 0 {
			return fmt.Sprintf("v64 len=%d", len(bits))
		}
		return fmt.Sprintf("v64 bits=%016x class=%s%s", bits[i], sign(bits[i]>>63 != 0), class64(bits[i]))
	}
	if p := guarded(func() { s = c.h.vs64(v); back = c.h.tv64(s) }); p != "" {
		run.Violation("panic", key(-1), map[string]any{"gen": gen, "panic": p, "bits": fmt.Sprintf("%016x", bits[:min(len(bits), 32)])})
		return
	}
	run.Observe("f64_vectors", 1)
	run.Observe("f64_elements", int64(len(bits)))
	if len(back) != len(bits) {
		run.Violation("vector-length", key(-1), map[string]any{"gen": gen, "want_len": len(bits), "got_len": len(back), "string_len": len(s)})
		return
	}
	for i, b := range bits {
		run.Observe("f64_"+class64(b), 1)
		if g := math.Float64bits(back[i]); g != b {
			run.Violation("vector-bits", key(i), map[string]any{"gen": gen, "index": i, "len": len(bits), "want_bits": fmt.Sprintf("%016x", b), "got_bits": fmt.Sprintf("%016x", g), "string": drv.Hexs(drv.Trunc([]byte(s), 64))})
			return
		}
	}
	le := len(s) == 8*len(bits)
	for i := 0; le && i < len(bits); i++ {
		le = binary.LittleEndian.Uint64([]byte(s[8*i:8*i+8])) == bits[i]
	}
	if le {
		run.Observe("f64_layout_little_endian", 1)
	} else {
		run.Observe("f64_layout_other", 1)
	}
}

// rand32 draws a bit pattern with all classes well represented.
func rand32(r *rand.Rand) uint32 {
	s := uint32(r.Intn(2)) << 31
	switch r.Intn(10) {
	case 0:
		return s // ±0
	case 1:
		return s | 0x7f800000 // ±Inf
	case 2:
		return s | 0x7fc00000 | uint32(r.Intn(1<<22)) // quiet NaN, any payload
	case 3:
		return s | 0x7f800000 | uint32(1+r.Intn(1<<22-1)) // signalling NaN
	case 4:
		return s | uint32(1+r.Intn(1<<23-1)) // subnormal
	case 5:
		return s | []uint32{0x00800000, 0x7f7fffff, 0x3f800000, 0x00000001, 0x007fffff}[r.Intn(5)] // min normal, max, 1, min/max subnormal
	}
	return r.Uint32()
}

func rand64(r *rand.Rand) uint64 {
	s := uint64(r.Intn(2)) << 63
	const exp = uint64(0x7ff) << 52
	switch r.Intn(10) {
	case 0:
		return s
	case 1:
		return s | exp
	case 2:
		return s | exp | 1<<51 | uint64(r.Int63n(1<<51))
	case 3:
		return s | exp | uint64(1+r.Int63n(1<<51-1))
	case 4:
		return s | uint64(1+r.Int63n(1<<52-1))
	case 5:
		return s | []uint64{0x0010000000000000, 0x7fefffffffffffff, 0x3ff0000000000000, 1, 0x000fffffffffffff}[r.Intn(5)]
	}
	return r.Uint64()
}

func (c *checker) vectors() {
	run := c.run
	rng := run.Rand("vectors")
	// grid: sign x every exponent x structured fractions, cut into vectors of 0..97 elements
	var g32 []uint32
	m32 := mantissas(rng, 23)
	for s := uint32(0); s < 2; s++ {
		for e := uint32(0); e < 256; e++ {
			ms := m32
			if e != 0 && e != 0xff && e != 1 && e != 0xfe && e != 127 {
				ms = m32[:14] // all fractions at the special exponents, the main ones elsewhere
			}
			for _, m := range ms {
				g32 = append(g32, s<<31|e<<23|uint32(m))
			}
		}
	}
	run.Extra("f32_grid_patterns", len(g32))
	for len(g32) > 0 {
		n := min(rng.Intn(98), len(g32))
		c.vec32("grid", g32[:n])
		g32 = g32[n:]
	}
	var g64 []uint64
	m64 := mantissas(rng, 52)
	for s := uint64(0); s < 2; s++ {
		for e := uint64(0); e < 2048; e++ {
			ms := m64
			if e != 0 && e != 0x7ff && e != 1 && e != 0x7fe && e != 1023 {
				ms = m64[:14]
			}
			for _, m := range ms {
				g64 = append(g64, s<<63|e<<52|m)
			}
		}
	}
	run.Extra("f64_grid_patterns", len(g64))
	for len(g64) > 0 {
		n := min(rng.Intn(98), len(g64))
		c.vec64("grid", g64[:n])
		g64 = g64[n:]
	}
	run.Sample(map[string]any{"gen": "grid", "f32_examples": []string{"00000000 +0", "80000000 -0", "7f800000 +Inf", "ff800000 -Inf", "7fc00000 qNaN", "ffc00001 -qNaN payload 1", "7f800001 sNaN", "7fbfffff sNaN all ones", "00000001 min subnormal", "807fffff -max subnormal"}})
	// every length 0..260 and around the powers of two
	lens := []int{511, 512, 513, 1023, 1024, 1025, 4095, 4096, 4097, 65535, 65536, 65537}
	for l := 0; l <= 260; l++ {
		lens = append(lens, l)
	}
	for _, l := range lens {
		b32, b64 := make([]uint32, l), make([]uint64, l)
		for j := 0; j < l; j++ {
			b32[j], b64[j] = rand32(rng), rand64(rng)
		}
		c.vec32("lengths", b32)
		c.vec64("lengths", b64)
	}
	// random vectors
	n := run.N(20000, 400000)
	for i := 0; i < n; i++ {
		l := rng.Intn(40)
		switch {
		case i%50 == 0:
			l = 1000 + rng.Intn(3000)
		case i%7 == 0:
			l = rng.Intn(4)
		}
		b32 := make([]uint32, l)
		for j := range b32 {
			b32[j] = rand32(rng)
		}
		c.vec32("random", b32)
		b64 := make([]uint64, l)
		for j := range b64 {
			b64[j] = rand64(rng)
		}
		c.vec64("random", b64)
		if i == 1 {
			run.Sample(map[string]any{"gen": "random", "f32_bits": fmt.Sprintf("%08x", b32), "f64_bits": fmt.Sprintf("%016x", b64)})
		}
	}
	if !run.Quick() {
		// every float32 bit pattern, 2^20 per vector
		const chunk = 1 << 20
		b32 := make([]uint32, chunk)
		for base := uint64(0); base < 1<<32; base += chunk {
			for j := range b32 {
				b32[j] = uint32(base) + uint32(j)
			}
			if !c.bulk32(b32) {
				break
			}
		}
	}
}

// bulk32 is vec32 without per element bookkeeping, for the enumeration of all 2^32 patterns.
func (c *checker) bulk32(bits []uint32) bool {
	run := c.run
	v := make([]float32, len(bits))
	for i, b := range bits {
		v[i] = math.Float32frombits(b)
	}
	var back []float32
	if p := guarded(func() { back = c.h.tv32(c.h.vs32(v)) }); p != "" {
		run.Violation("panic", fmt.Sprintf("v32 bulk from %08x", bits[0]), map[string]any{"panic": p})
		return false
	}
	run.Case(fmt.Sprintf("v32bulk|%08x", bits[0]), true)
	run.Observe("f32_all_patterns_enumerated", int64(len(bits)))
	if len(back) != len(bits) {
		run.Violation("vector-length", fmt.Sprintf("v32 len=%d", len(bits)), map[string]any{"want_len": len(bits), "got_len": len(back)})
		return false
	}
	for i, b := range bits {
		if g := math.Float32bits(back[i]); g != b {
			run.Violation("vector-bits", fmt.Sprintf("v32 bits=%08x class=%s%s", b, sign(b>>31 != 0), class32(b)), map[string]any{"index": i, "want_bits": fmt.Sprintf("%08x", b), "got_bits": fmt.Sprintf("%08x", g)})
			return false
		}
	}
	return true
}

func (c *checker) binary() {
	run := c.run
	rng := run.Rand("binary")
	one := func(gen string, b []byte) {
		want := string(b) // a copy
		h := fnv.New64a()
		h.Write(b)
		run.Case(fmt.Sprintf("bin|%d|%x", len(b), h.Sum64()), len(b) > 0)
		var got string
		key := fmt.Sprintf("bin len=%d head=%s", len(b), drv.Hexs(drv.Trunc(b, 16)))
		if p := guarded(func() { got = c.h.bin(b) }); p != "" {
			run.Violation("panic", key, map[string]any{"gen": gen, "panic": p})
			return
		}
		run.Observe("binary_strings", 1)
		if got != want {
			run.Violation("binary-string", key, map[string]any{"gen": gen, "want_len": len(want), "got_len": len(got), "want_head": drv.Hexs(drv.Trunc([]byte(want), 64)), "got_head": drv.Hexs(drv.Trunc([]byte(got), 64))})
		}
	}
	one("nil", nil)
	one("empty", []byte{})
	one("empty-with-cap", make([]byte, 0, 16))
	all := make([]byte, 256)
	for i := range all {
		all[i] = byte(i)
		one("single", []byte{byte(i)})
	}
	one("all-bytes", all)
	one("subslice", all[100:200:220])
	run.Sample(map[string]any{"gen": "binary", "examples": []string{"nil", "[]byte{}", "every single byte", "0x00..0xff", "random up to 1 MiB"}})
	n := run.N(15000, 300000)
	for i := 0; i < n; i++ {
		l := rng.Intn(64)
		switch {
		case i%300 == 0:
			l = 1 << 20
		case i%20 == 0:
			l = 4000 + rng.Intn(200)
		}
		b := make([]byte, l, l+rng.Intn(8))
		rng.Read(b)
		if i%5 == 0 && l > 3 {
			copy(b[rng.Intn(l-2):], "\r\n")
			b[rng.Intn(l)] = 0
		}
		one("random", b)
	}
}

// C45: vector helpers round trip bit for bit, BinaryString has exactly the bytes, JSON equals encoding/json.
func TestC45(t *testing.T) {
	run := mon.Start(t, "C45", "exploration",
		"float vectors given as bit patterns: a grid of sign x every exponent (256 / 2048) x structured fractions (zero, each single bit, quiet bit | each single bit, all ones minus each bit, alternating, random) covering +-0, +-Inf, quiet and signalling NaNs of every payload class, subnormals, extreme normals, cut into vectors of 0..97 elements, plus every vector length 0..260 and 2^k-1,2^k,2^k+1 up to 65537, plus random vectors of 0..4000 elements with all classes mixed (thorough: all 2^32 float32 patterns); "+
			"byte strings: nil, empty, every single byte, random up to 1 MiB; JSON(x) against encoding/json.Marshal for generated Go values (scalars of every kind, strings with invalid UTF-8 / HTML / U+2028, []byte, nested slices/maps/structs with tags, pointers, Marshaler/TextMarshaler, RawMessage, Number, time.Time) and for values encoding/json rejects (recorded only); "+
			"distinct by content hash; non-trivial: a vector with a non-normal element or more than one element, a non-empty byte string, a JSON value that is composite or needs escaping")
	defer run.Finish()
	run.Assume("float bit patterns survive Go assignments on this platform (checked per element with Float32bits(Float32frombits(b)) == b before the call)",
		"for a value x that encoding/json cannot encode C45 demands nothing of JSON(x); what it does (it panics with the encoder's error) is recorded as an observation",
		"the byte layout of the vector strings is not part of C45; it is recorded (little endian IEEE-754) but not judged")
	c := &checker{run: run, h: realHelpers}
	c.vectors()
	c.binary()
	c.jsons()
	run.Require("f32_qnan", "f32_snan", "f32_zero", "f32_inf", "f32_subnormal", "f32_normal", "f64_qnan", "f64_snan", "f64_zero", "f64_inf", "f64_subnormal", "f64_normal", "binary_strings", "json_compared")
}
