package c10

import (
	"errors"
	"fmt"
	"math/rand"
	"strings"
	"testing"
	"time"

	"github.com/redis/rueidis"
	"verifh/mon"
)

// ---------------------------------------------------------------------------
// commands whose cache identities the store is driven with

type ident struct{ key, cmd string }

func (i ident) String() string { return i.key + "/" + i.cmd }

type spec struct {
	c  rueidis.Cacheable
	id ident
}

func makeSpecs(rng *rand.Rand, keys int) []spec {
	b := rueidis.VerifNewBuilder(false)
	var out []spec
	for k := 0; k < keys; k++ {
		key := fmt.Sprintf("k%d%s", k, strings.Repeat("_", rng.Intn(1+k%9)))
		cs := []rueidis.Cacheable{b.Get().Key(key).Cache()}
		if rng.Intn(2) == 0 {
			cs = append(cs, b.Hget().Key(key).Field(fmt.Sprintf("f%d", rng.Intn(3))).Cache())
		}
		if rng.Intn(3) == 0 {
			cs = append(cs, b.Lrange().Key(key).Start(0).Stop(int64(rng.Intn(50))).Cache())
		}
		for _, c := range cs {
			key, cmd := rueidis.VerifCacheKey(c)
			out = append(out, spec{c: c, id: ident{key, cmd}})
		}
	}
	return out
}

// reference bookkeeping per entry, on the driver's own logical clock
type meta struct {
	ins     int64 // when the in-flight entry was inserted by a missed Flight
	upd     int64 // when it was completed by Update
	hit     int64 // last time a Flight hit it (it may have been moved to the back then)
	payload int   // reply bytes handed to Update
}

func (m *meta) lo() int64 { return m.ins }
func (m *meta) hi() int64 { return max(m.ins, m.upd, m.hit) }

type snap struct {
	list       []rueidis.VerifLRUEntry
	by         map[ident]rueidis.VerifLRUEntry
	size, max  int
	consistent bool
	dup        bool
}

func mkSnap(entries []rueidis.VerifLRUEntry, size, max int, consistent bool) *snap {
	s := &snap{list: entries, by: make(map[ident]rueidis.VerifLRUEntry, len(entries)), size: size, max: max, consistent: consistent}
	for _, e := range entries {
		id := ident{e.Key, e.Cmd}
		if _, ok := s.by[id]; ok {
			s.dup = true
		}
		s.by[id] = e
	}
	return s
}

func (s *snap) brief() []string {
	out := make([]string, 0, len(s.list))
	for _, e := range s.list {
		if e.Pending {
			out = append(out, e.Key+"/"+e.Cmd+":pending")
		} else {
			out = append(out, fmt.Sprintf("%s/%s:%d", e.Key, e.Cmd, e.Size))
		}
	}
	if len(out) > 60 {
		out = append(out[:60], fmt.Sprintf("… %d more", len(out)-60))
	}
	return out
}

// history drives one store and checks it
type history struct {
	run     *mon.Run
	rng     *rand.Rand
	store   rueidis.CacheStore
	max     int
	specs   []spec
	base    time.Time
	nowMS   int64
	clock   int64
	meta    map[ident]*meta
	owned   []ident // in-flight entries this driver must complete or cancel
	prev    *snap
	ops     []string // last operations, for witnesses
	name    string
	profile int // reply size mix, see payload()

	hookSnap  *snap
	hookCalls int
}

func (h *history) now() time.Time { return h.base.Add(time.Duration(h.nowMS) * time.Millisecond) }
func (h *history) tick() int64    { h.clock++; return h.clock }
func (h *history) logOp(s string) {
	h.ops = append(h.ops, s)
	if len(h.ops) > 40 {
		h.ops = h.ops[len(h.ops)-40:]
	}
}

func (h *history) witness(extra map[string]any) map[string]any {
	w := map[string]any{"history": h.name, "max": h.max, "last_ops": append([]string{}, h.ops...)}
	for k, v := range extra {
		w[k] = v
	}
	return w
}

// message builds a reply with the given number of payload bytes
func (h *history) message(payload int, asArray bool) (rueidis.RedisMessage, int) {
	if !asArray || payload < 4 {
		return rueidis.VerifBuild(rueidis.VerifNode{Typ: '$', Str: strings.Repeat("x", payload)}), payload
	}
	n := 2 + h.rng.Intn(6)
	vs := make([]rueidis.VerifNode, n)
	for i := range vs {
		vs[i] = rueidis.VerifNode{Typ: '$', Str: strings.Repeat("y", payload/n)}
	}
	return rueidis.VerifBuild(rueidis.VerifNode{Typ: '*', Values: vs}), (payload / n) * n
}

// accounting invariants that must hold for every snapshot
func (h *history) checkAccounting(s *snap, where string) {
	if !s.consistent || s.dup {
		h.run.Violation("store-inconsistent", where, h.witness(map[string]any{"entries": s.brief(), "duplicate": s.dup}))
	}
	sum := 0
	for _, e := range s.list {
		if e.Pending {
			if e.Size != 0 {
				h.run.Violation("pending-has-size", where, h.witness(map[string]any{"entry": e.Key + "/" + e.Cmd, "size": e.Size}))
			}
			continue
		}
		sum += e.Size
		if m := h.meta[ident{e.Key, e.Cmd}]; m != nil && e.Size < m.payload {
			h.run.Violation("size-below-payload", where, h.witness(map[string]any{"entry": e.Key + "/" + e.Cmd, "accounted": e.Size, "payload_bytes": m.payload}))
		}
	}
	if sum != s.size {
		h.run.Violation("size-accounting", fmt.Sprintf("%s accounted-sum=%+d", where, s.size-sum), h.witness(map[string]any{"accounted": s.size, "sum_of_completed": sum, "entries": s.brief()}))
	}
	h.run.Observe("snapshots_checked", 1)
}

// after an operation that is not an Update: no in-flight entry may have vanished (except one that was cancelled)
func (h *history) checkPendingSurvive(cur *snap, where string, except map[ident]bool) {
	for id, e := range h.prev.by {
		if !e.Pending || except[id] {
			continue
		}
		if _, ok := cur.by[id]; !ok {
			h.run.Violation("pending-evicted", where, h.witness(map[string]any{"entry": id.String(), "before": h.prev.brief(), "after": cur.brief()}))
		}
	}
}

func (h *history) syncMeta(cur *snap) {
	for id := range h.meta {
		if _, ok := cur.by[id]; !ok {
			delete(h.meta, id)
		}
	}
	keep := h.owned[:0]
	for _, id := range h.owned {
		if e, ok := cur.by[id]; ok && e.Pending {
			keep = append(keep, id)
		}
	}
	h.owned = keep
}

func (h *history) quiesce(where string, except map[ident]bool) {
	cur := mkSnap(rueidis.VerifLRUSnapshot(h.store))
	h.checkAccounting(cur, where)
	if where != "update" {
		h.checkPendingSurvive(cur, where, except)
	}
	h.syncMeta(cur)
	h.prev = cur
}

func (h *history) noteFlight(id ident, hitCompleted, hitPending bool) {
	t := h.tick()
	switch {
	case hitCompleted, hitPending:
		if m := h.meta[id]; m != nil {
			m.hit = t
		}
		if hitCompleted {
			h.run.Observe("flight_hits", 1)
		} else {
			h.run.Observe("flight_joins_pending", 1)
		}
	default:
		if old, ok := h.prev.by[id]; ok && !old.Pending {
			h.run.Observe("expired_entries_replaced", 1)
		}
		h.meta[id] = &meta{ins: t}
		h.owned = append(h.owned, id)
		h.run.Observe("flight_misses", 1)
	}
}

func (h *history) opFlight(sp spec) {
	ttl := time.Duration(20+h.rng.Intn(8000)) * time.Millisecond
	v, e := h.store.Flight(sp.id.key, sp.id.cmd, ttl, h.now())
	h.logOp(fmt.Sprintf("Flight(%s ttl=%s now=+%dms)", sp.id, ttl, h.nowMS))
	h.noteFlight(sp.id, rueidis.VerifDump(v).Typ != 0, e != nil)
	h.quiesce("flight", nil)
}

func (h *history) opFlights() {
	n := 1 + h.rng.Intn(6)
	perm := h.rng.Perm(len(h.specs))
	if n > len(perm) {
		n = len(perm)
	}
	multi := make([]rueidis.CacheableTTL, n)
	ids := make([]ident, n)
	for i := 0; i < n; i++ {
		sp := h.specs[perm[i]]
		multi[i] = rueidis.CT(sp.c, time.Duration(20+h.rng.Intn(8000))*time.Millisecond)
		ids[i] = sp.id
	}
	results, entries, missed := rueidis.VerifLRUFlights(h.store, h.now(), multi)
	h.logOp(fmt.Sprintf("Flights(%v now=+%dms) missed=%v", ids, h.nowMS, missed))
	miss := map[int]bool{}
	for _, i := range missed {
		miss[i] = true
	}
	for i := range multi {
		_, pending := entries[i]
		msg, _ := results[i].ToMessage()
		h.noteFlight(ids[i], !miss[i] && !pending && rueidis.VerifDump(msg).Typ != 0, !miss[i] && pending)
	}
	h.quiesce("flights", nil)
}

// opUpdate completes id with a reply of the given payload; this is where the property's bound is evaluated
func (h *history) opUpdate(id ident, payload int, asArray bool, serverTTL int64) {
	msg, bytes := h.message(payload, asArray)
	if serverTTL > 0 {
		rueidis.VerifSetExpireAt(&msg, h.base.UnixMilli()+h.nowMS+serverTTL)
	}
	before := h.prev
	was, existed := before.by[id]
	h.hookSnap, h.hookCalls = nil, 0
	h.store.Update(id.key, id.cmd, msg)
	h.logOp(fmt.Sprintf("Update(%s payload=%dB array=%v)", id, bytes, asArray))
	h.run.Observe("updates", 1)
	if h.hookCalls != 1 || h.hookSnap == nil {
		h.run.Inconclusive(fmt.Sprintf("lru.update.end hook fired %d times for one Update", h.hookCalls))
		h.quiesce("update", nil)
		return
	}
	cur := h.hookSnap
	t := h.tick()
	if m := h.meta[id]; m != nil && existed && was.Pending {
		m.upd, m.payload = t, bytes
	}
	h.checkAccounting(cur, "update")

	// what this update removed
	var evicted []ident
	for _, e := range before.list {
		eid := ident{e.Key, e.Cmd}
		if _, ok := cur.by[eid]; ok {
			continue
		}
		if e.Pending && eid != id {
			h.run.Violation("pending-evicted", "update", h.witness(map[string]any{"entry": eid.String(), "before": before.brief(), "after": cur.brief()}))
			continue
		}
		evicted = append(evicted, eid)
	}
	for eid, e := range cur.by {
		if b, ok := before.by[eid]; ok && b.Pending && !e.Pending && eid != id {
			h.run.Violation("pending-completed-by-other-update", "update", h.witness(map[string]any{"entry": eid.String()}))
		}
	}
	evictable := 0
	for _, e := range cur.list {
		if !e.Pending {
			evictable++
		}
	}
	// evidence bookkeeping: how many evictions did this update need (front-most completed entries of the store's own order)
	needed := 0
	if existed {
		newSize := 0
		if e, ok := cur.by[id]; ok && was.Pending {
			newSize = e.Size
		}
		total := before.size + newSize
		if was.Pending && newSize == 0 { // completed and evicted within the same update: its size is unknown, at least the payload
			total += bytes
		}
		for _, e := range before.list {
			if total <= h.max {
				break
			}
			if !e.Pending {
				total -= e.Size
				needed++
			}
		}
		if total > h.max {
			needed++ // the new entry itself
		}
	}
	nontrivial := needed > 0
	h.run.Case(fmt.Sprintf("max=%d completed=%d pending=%d payload=%d needed=%d evicted=%d", h.max, evictable+len(evicted), len(cur.list)-evictable, bytes, needed, len(evicted)), nontrivial)
	switch {
	case needed >= 2:
		h.run.Observe("updates_needing_2plus_evictions", 1)
	case needed == 1:
		h.run.Observe("updates_needing_1_eviction", 1)
	}
	if len(evicted) > 0 {
		h.run.Observe("entries_evicted", int64(len(evicted)))
	}
	if payload > h.max {
		h.run.Observe("updates_with_reply_larger_than_max", 1)
	}

	// 1. the bound. It is evaluated for updates that addressed an existing entry; an Update for an unknown
	// entry changes nothing, any excess it sees was reported at the update that produced it.
	if existed && cur.size > cur.max {
		left := "0"
		if evictable > 0 {
			left = ">0"
		}
		h.run.Violation("size-over-max", fmt.Sprintf("update evicted=%d evictable_left%s", len(evicted), left),
			h.witness(map[string]any{"accounted_size": cur.size, "max": cur.max, "evicted": len(evicted), "evictions_needed": needed,
				"completed_entries_left": evictable, "before": before.brief(), "after": cur.brief()}))
	}
	if cur.max != h.max {
		h.run.Violation("max-changed", "update", h.witness(map[string]any{"store_max": cur.max}))
	}
	// 2. least recently used first: an evicted entry must not be newer than everything that is known about a retained completed one
	for _, eid := range evicted {
		em := h.meta[eid]
		if em == nil {
			continue
		}
		for _, r := range cur.list {
			rid := ident{r.Key, r.Cmd}
			rm := h.meta[rid]
			if r.Pending || rm == nil || rid == eid {
				continue
			}
			if rm.hi() < em.lo() {
				h.run.Violation("lru-order", "update evicted an entry inserted after the last use of a retained one",
					h.witness(map[string]any{"evicted": eid.String(), "evicted_inserted_at": em.ins, "retained": rid.String(), "retained_last_use": rm.hi(),
						"before": before.brief(), "after": cur.brief()}))
			}
			h.run.Observe("lru_order_pairs_checked", 1)
		}
	}
	h.quiesce("update", nil)
	// the state at the end of Update and the quiescent state right after must agree
	if h.prev.size != cur.size || len(h.prev.list) != len(cur.list) {
		h.run.Violation("store-inconsistent", "update hook vs quiescent snapshot", h.witness(map[string]any{"hook": cur.brief(), "after": h.prev.brief()}))
	}
}

func (h *history) opCancel(id ident) {
	h.store.Cancel(id.key, id.cmd, errors.New("cancelled"))
	h.logOp(fmt.Sprintf("Cancel(%s)", id))
	h.run.Observe("cancels", 1)
	h.quiesce("cancel", map[ident]bool{id: true})
}

func (h *history) opDelete(all bool) {
	if all {
		h.store.Delete(nil)
		h.logOp("Delete(nil)")
	} else {
		n := 1 + h.rng.Intn(4)
		var keys []rueidis.RedisMessage
		var names []string
		for i := 0; i < n; i++ {
			k := h.specs[h.rng.Intn(len(h.specs))].id.key
			keys = append(keys, rueidis.VerifBuild(rueidis.VerifNode{Typ: '$', Str: k}))
			names = append(names, k)
		}
		h.store.Delete(keys)
		h.logOp(fmt.Sprintf("Delete(%v)", names))
	}
	h.run.Observe("deletes", 1)
	h.quiesce("delete", nil)
}

func (h *history) payload() int {
	// 1 B .. 4*max. The profile decides how many entries fit: with mostly small replies dozens of entries
	// accumulate and one medium reply needs many evictions; with large replies the store holds one or two.
	m := h.max
	between := func(lo, hi int) int { return lo + h.rng.Intn(max(hi-lo, 0)+1) }
	r := h.rng.Intn(100)
	switch h.profile {
	case 0: // many small
		switch {
		case r < 78:
			return between(1, m/32+1)
		case r < 94:
			return between(m/32, m/4)
		case r < 99:
			return between(m/4, m)
		}
		return between(m, 4*m)
	case 1: // mixed
		switch {
		case r < 45:
			return between(1, m/16+1)
		case r < 75:
			return between(m/16, m/3)
		case r < 92:
			return between(m/3, m)
		}
		return between(m, 4*m)
	}
	// log-uniform between 1 B and 4*max
	hi := 4 * m
	switch r % 10 {
	case 0:
		return 1 + h.rng.Intn(8)
	case 1:
		return between(m, hi)
	case 2, 3:
		return between(1, m/2)
	}
	bits := 1
	for 1<<bits < hi {
		bits++
	}
	v := 1 << h.rng.Intn(bits+1)
	v += h.rng.Intn(v)
	if v > hi {
		v = hi
	}
	return v
}

func (h *history) step() {
	r := h.rng.Intn(100)
	switch {
	case r < 38:
		h.opFlight(h.specs[h.rng.Intn(len(h.specs))])
	case r < 44:
		h.opFlights()
	case r < 80:
		if len(h.owned) > 0 && h.rng.Intn(20) != 0 {
			i := h.rng.Intn(len(h.owned))
			if h.rng.Intn(3) == 0 {
				i = 0 // oldest in-flight entry: completes far from the back of the list
			}
			id := h.owned[i]
			ttl := int64(0)
			if h.rng.Intn(4) == 0 {
				ttl = int64(1 + h.rng.Intn(4000))
			}
			h.opUpdate(id, h.payload(), h.rng.Intn(5) == 0, ttl)
		} else {
			// an update nobody asked for: unknown, or already completed entry
			h.opUpdate(h.specs[h.rng.Intn(len(h.specs))].id, h.payload(), false, 0)
		}
	case r < 85:
		if len(h.owned) > 0 {
			h.opCancel(h.owned[h.rng.Intn(len(h.owned))])
		}
	case r < 91:
		h.opDelete(h.rng.Intn(6) == 0)
	default:
		h.nowMS += int64(1 + h.rng.Intn(3000))
		h.logOp(fmt.Sprintf("advance now=+%dms", h.nowMS))
	}
}

func newHistory(run *mon.Run, rng *rand.Rand, name string, max, keys int) *history {
	h := &history{run: run, rng: rng, name: name, max: max, store: rueidis.VerifNewLRU(max), specs: makeSpecs(rng, keys),
		base: time.Unix(1_700_000_000, 0), meta: map[ident]*meta{}, profile: rng.Intn(3)}
	h.prev = mkSnap(rueidis.VerifLRUSnapshot(h.store))
	return h
}

// hot makes one key the target of more than 1024 hits, so that the store's lazy move-to-back happens
func (h *history) hot() {
	sp := h.specs[0]
	for i := 0; i < 1100; i++ {
		v, e := h.store.Flight(sp.id.key, sp.id.cmd, time.Minute, h.now())
		if i == 0 || i == 1099 {
			h.logOp(fmt.Sprintf("Flight(%s) x1100 [%d]", sp.id, i))
		}
		h.noteFlight(sp.id, rueidis.VerifDump(v).Typ != 0, e != nil)
		if i == 0 && len(h.owned) > 0 && h.owned[len(h.owned)-1] == sp.id {
			h.quiesce("flight", nil)
			h.opUpdate(sp.id, 1+h.rng.Intn(h.max/8+1), false, 0)
		}
	}
	h.quiesce("flight", nil)
	h.run.Observe("hot_key_bursts", 1)
}

// C10: after every cache update the accounted size of completed replies is at most CacheSizeEachConn,
// least recently used completed entries go first, in-flight entries stay, accounted size == sum of retained sizes.
func TestC10(t *testing.T) {
	run := mon.Start(t, "C10", "exploration",
		"random operation histories (Flight, batched Flights, Update, Cancel, Delete(keys|nil), clock advance past client and server TTLs, unsolicited Updates, hot keys with >1024 hits) against the built-in store "+
			"for max in {one entry .. 64 KiB}, replies of 1 B..4*max (strings and arrays); the store is walked under its own lock at the end of every Update (lru.update.end) and after every other operation; "+
			"a case is one Update, distinct by (max, completed, pending, payload, evictions needed, evicted), non-trivial when the update needs at least one eviction")
	defer run.Finish()
	run.Assume("the store is driven single-threaded, so every observation is at a quiescent point or under the store's lock",
		"recency is judged on the driver's logical clock: an entry's position may be anything between its insertion and its latest insertion/update/hit")
	var cur *history
	rueidis.VerifSetHook(func(point string, args ...any) {
		if point != "lru.update.end" || cur == nil || len(args) == 0 || args[0] != any(cur.store) {
			return
		}
		cur.hookCalls++
		cur.hookSnap = mkSnap(rueidis.VerifLRUSnapshotLocked(args[0]))
	})
	defer rueidis.VerifSetHook(nil)

	base := rueidis.VerifEntryBaseSize
	guard := func(h *history, f func()) {
		defer func() {
			if p := recover(); p != nil {
				run.Violation("panic", fmt.Sprint(p), h.witness(nil))
			}
		}()
		f()
	}

	// a minimal deterministic history first: three small entries fill the store, a fourth reply needs two evictions
	{
		one := base + 2*(2+3) + rueidis.VerifApproximateSize(rueidis.VerifBuild(rueidis.VerifNode{Typ: '$', Str: strings.Repeat("x", 100)}))
		h := newHistory(run, run.Rand("minimal"), "minimal", 3*one, 4)
		h.specs = nil
		b := rueidis.VerifNewBuilder(false)
		for _, k := range []string{"k0", "k1", "k2", "k3"} {
			c := b.Get().Key(k).Cache()
			key, cmd := rueidis.VerifCacheKey(c)
			h.specs = append(h.specs, spec{c: c, id: ident{key, cmd}})
		}
		cur = h
		guard(h, func() {
			for i := 0; i < 3; i++ {
				h.opFlight(h.specs[i])
				h.opUpdate(h.specs[i].id, 100, false, 0)
			}
			h.opFlight(h.specs[3])
			h.opUpdate(h.specs[3].id, 100+one/2, false, 0) // needs k0 and k1 to go
		})
		run.Sample(map[string]any{"history": "minimal", "max": h.max, "ops": h.ops, "final": h.prev.brief(), "final_size": h.prev.size})
	}

	rng := run.Rand("histories")
	maxes := []int{base + 64, base + 200, 2 * (base + 100), 3*(base+100) + 17, 1 << 10, 2 << 10, 4 << 10, 16 << 10, 64 << 10}
	histories := run.N(360, 14000)
	for i := 0; i < histories; i++ {
		mx := maxes[i%len(maxes)]
		if i%4 == 3 {
			mx = base + 64 + rng.Intn(64<<10-base-64+1)
		}
		keys := 2 + rng.Intn(40)
		h := newHistory(run, rng, fmt.Sprintf("h%d", i), mx, keys)
		cur = h
		steps := 300 + rng.Intn(600)
		guard(h, func() {
			for s := 0; s < steps; s++ {
				h.step()
				if i%12 == 5 && s == steps/2 {
					h.hot()
				}
			}
			// drain: complete everything still in flight with small replies, the bound must hold at each update
			for len(h.owned) > 0 && h.rng.Intn(50) != 0 {
				h.opUpdate(h.owned[0], 1+h.rng.Intn(h.max/4+1), false, 0)
			}
		})
		if i < 2 {
			run.Sample(map[string]any{"history": h.name, "max": h.max, "keys": keys, "steps": steps, "last_ops": h.ops[max(0, len(h.ops)-8):], "final_entries": len(h.prev.list), "final_size": h.prev.size})
		}
	}
	cur = nil
	run.Require("updates", "updates_needing_2plus_evictions", "updates_needing_1_eviction", "updates_with_reply_larger_than_max", "flight_hits", "flight_joins_pending",
		"expired_entries_replaced", "cancels", "deletes", "entries_evicted", "lru_order_pairs_checked", "hot_key_bursts")
}
