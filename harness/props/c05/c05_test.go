//go:build verif

package c05

import (
	"context"
	"crypto/tls"
	"fmt"
	"io"
	"net"
	"strings"
	"sync"
	"testing"
	"testing/synctest"
	"time"

	"github.com/redis/rueidis"
	"verifh/drv"
	"verifh/fakeredis"
	"verifh/mon"
	"verifh/resp"
)

const addr = "127.0.0.1:6379"

type env struct {
	run  *mon.Run
	name string
	srv  *fakeredis.Server
	c    rueidis.Client
	t0   time.Time
}

type opts struct {
	queue     string
	always    bool
	poolSize  int
	retry     rueidis.RetryDelayFn
	noRetry   bool
	dialDelay time.Duration
	multiplex int
}

// scenario runs body inside a bubble with a fresh server and client.
func scenario(run *mon.Run, t *testing.T, name string, o opts, body func(e *env)) {
	dl, stacks := drv.Bubble(t, func() {
		rueidis.VerifSetQueueType(o.queue)
		defer rueidis.VerifSetQueueType("")
		srv := fakeredis.New(fakeredis.Options{}, addr)
		opt := drv.Option(srv, addr)
		if o.dialDelay > 0 {
			first := true
			opt.DialCtxFn = func(ctx context.Context, a string, _ *net.Dialer, _ *tls.Config) (net.Conn, error) {
				if !first { // the client's first connection is dialled at construction time
					select {
					case <-time.After(o.dialDelay):
					case <-ctx.Done():
						return nil, ctx.Err()
					}
				}
				first = false
				return srv.Dial(ctx, a)
			}
		}
		opt.ForceSingleClient = true
		opt.PipelineMultiplex = o.multiplex
		opt.AlwaysPipelining = o.always
		opt.BlockingPoolSize = o.poolSize
		opt.RetryDelay = o.retry
		opt.DisableRetry = o.noRetry
		c, err := rueidis.NewClient(opt)
		if err != nil {
			run.Inconclusive("client setup: " + err.Error())
			srv.Close()
			return
		}
		e := &env{run: run, name: name, srv: srv, c: c, t0: time.Now()}
		body(e)
		srv.Resume()
		c.Close()
		srv.Close()
		// helper calls started with a background context may still sit in a retry back-off; time stops when the
		// bubble's function returns, so let them run out instead of mistaking a sleeper for a leak
		time.Sleep(3 * time.Minute)
	})
	if dl != "" {
		run.Violation("hang-or-leak", name+"|"+strings.Join(drv.RueidisFrames(stacks), ";"), map[string]any{"scenario": name, "synctest": dl, "rueidis_frames": drv.RueidisFrames(stacks), "stacks": drv.Tail(stacks, 12000)})
	}
}

func (e *env) echo(uid string) rueidis.Completed {
	return e.c.B().Arbitrary("VERIF.ECHO").Keys("k").Args(uid, "str").Build()
}

// timed runs call with a deadline of d from now and checks it returns by the deadline instant (virtual time).
func (e *env) timed(path string, d time.Duration, call func(ctx context.Context) error) {
	ctx, cancel := context.WithTimeout(context.Background(), d)
	defer cancel()
	dl, _ := ctx.Deadline()
	err := call(ctx)
	late := time.Since(dl)
	e.run.Observe("deadline_calls", 1)
	e.run.Case(fmt.Sprintf("%s|%s|d=%v|err=%v", e.name, path, d, err != nil), true)
	e.run.Sample(map[string]any{"scenario": e.name, "path": path, "deadline_after": d.String(), "returned_relative_to_deadline": late.String(), "err": fmt.Sprint(err)})
	if late > 0 {
		e.run.Violation("returned-after-deadline", e.name+"|"+path, map[string]any{"scenario": e.name, "path": path, "deadline_after": d.String(), "late_by": late.String(), "err": fmt.Sprint(err)})
	}
	if err == nil {
		e.run.Observe("deadline_calls_that_succeeded", 1)
	}
}

func stallUID(sub string) *fakeredis.Rule {
	return &fakeredis.Rule{Name: "stall " + sub, Match: fakeredis.MatchArg(sub), Action: fakeredis.Action{Stall: true}}
}

func received(srv *fakeredis.Server, uid string) int {
	n := 0
	for _, ev := range srv.Log() {
		if ev.Kind == "recv" {
			for _, a := range ev.Argv {
				if a == uid {
					n++
				}
			}
		}
	}
	return n
}

// C05: calls honour context deadlines and cancellation on every wait path.
func TestC05(t *testing.T) {
	run := mon.Start(t, "C05", "fault_enumeration",
		"wait path {pipeline sync, pipeline queued, DoMulti, blocking-pool wait, cache-flight waiter (DoCache, DoMultiCache, MGET), retry back-off, slow dial} x fault {server never answers, answers after the deadline, LOADING forever, connection dropped} x "+
			"context {deadline d, manual cancel at instant T, already done} x queue {ring, flowbuffer} x AlwaysPipelining, each as one history in a synctest bubble; oracle on virtual instants: return time <= deadline (cancel: == T), an already-done context sends nothing (server log); "+
			"a case = (scenario, path, deadline, outcome); "+
			"plus a deadline call {Do, DoMulti, Do blocking} on a dedicated connection (served synchronously unless AlwaysPipelining; measured) x server {never answers, answers after 2d} x a concurrent use of the same DedicatedClient "+
			"{SetPubSubHooks, SetPubSubHooks twice, SetOnInvalidations, second Do / DoMulti / Receive with deadlines of their own} at an instant in [0,d) after the call started to wait; oracle: every call is back by its deadline instant; "+
			"plus blocking-pool waiters against the wake-up for a done context: context {deadline, manual cancel} x the instant it is done falls {between the waiter's test of the context and its parking (waiter held at the pool's monitor hook, pool lock held, like a preempted goroutine), after it parked} x "+
			"pool capacity 1-3 (all held) x 1-3 waiters (the others done at the same instant or later) x pool user {Do blocking, DoMulti blocking, DoStream}; oracle: every waiter is back by the instant its context was done")
	defer run.Finish()
	run.Assume("virtual time (testing/synctest): 'shortly after the deadline' is decided as 'not after the deadline instant' on the paths that only wait", "fakeredis Stall / DelayReply / Close fault rules")
	ds := []time.Duration{time.Millisecond, 20 * time.Millisecond, 300 * time.Millisecond, 3 * time.Second}
	rng := run.Rand("deadlines")
	for i := 0; i < run.N(2, 6); i++ {
		ds = append(ds, time.Duration(1+rng.Intn(5000))*time.Millisecond+time.Duration(rng.Intn(1000))*time.Microsecond)
	}
	if !run.Quick() {
		ds = append(ds, 7*time.Millisecond, 999*time.Millisecond, 10*time.Second, 45*time.Second)
	}
	dedRng := run.Rand("dedicated-concurrent-op")
	for _, q := range []string{"flowbuffer", "ring"} {
		for _, always := range []bool{false, true} {
			base := opts{queue: q, always: always, poolSize: 1, multiplex: -1}
			tag := fmt.Sprintf("%s/always=%v", q, always)
			for di, d := range ds {
				d := d
				// a deadline call on a dedicated connection (served synchronously unless AlwaysPipelining) while the same
				// DedicatedClient is used concurrently (dedicated_test.go)
				for _, dc := range dedCases(dedRng, d, di) {
					dedicatedConcurrent(run, t, tag, base, dc)
				}
				// pipeline wait: the server never answers
				scenario(run, t, "stalled-server/"+tag, base, func(e *env) {
					e.srv.Plan(stallUID("stall-"))
					e.timed("Do", d, func(ctx context.Context) error { return e.c.Do(ctx, e.echo("stall-1")).Error() })
				})
				scenario(run, t, "stalled-server-multi/"+tag, base, func(e *env) {
					e.srv.Plan(stallUID("stall-"))
					e.timed("DoMulti", d, func(ctx context.Context) error {
						rs := e.c.DoMulti(ctx, e.echo("a"), e.echo("stall-2"), e.echo("b"))
						return rs[len(rs)-1].Error()
					})
				})
				// the answer arrives after the deadline
				scenario(run, t, "late-answer/"+tag, base, func(e *env) {
					e.srv.Plan(&fakeredis.Rule{Match: fakeredis.MatchArg("slow-"), Action: fakeredis.Action{DelayReply: d + d/2 + time.Millisecond}})
					var wg sync.WaitGroup
					for i := 0; i < 3; i++ {
						wg.Add(1)
						go func(i int) {
							defer wg.Done()
							e.timed("Do-concurrent", d, func(ctx context.Context) error { return e.c.Do(ctx, e.echo(fmt.Sprintf("slow-%d", i))).Error() })
						}(i)
					}
					wg.Wait()
				})
				// manual cancellation while queued behind a stalled command
				scenario(run, t, "manual-cancel/"+tag, base, func(e *env) {
					e.srv.Plan(stallUID("stall-"))
					go e.c.Do(context.Background(), e.echo("stall-head")) // makes the connection pipelined and stalled
					synctest.Wait()
					ctx, cancel := context.WithCancel(context.Background())
					var ret time.Time
					done := make(chan error, 1)
					go func() { err := e.c.Do(ctx, e.echo("behind")).Error(); ret = time.Now(); done <- err }()
					time.Sleep(d)
					at := time.Now()
					cancel()
					err := <-done
					run.Observe("manual_cancels", 1)
					run.Case(fmt.Sprintf("%s|cancel|d=%v", e.name, d), true)
					if ret.After(at) || err == nil { // (a connection-level timeout may legitimately end the call before the cancellation)
						run.Violation("cancel-not-honoured", e.name+"|Do", map[string]any{"scenario": e.name, "cancelled_at": at.Sub(e.t0).String(), "returned_at": ret.Sub(e.t0).String(), "err": fmt.Sprint(err)})
					}
				})
				// blocking pool exhausted: a waiter with a deadline
				scenario(run, t, "pool-wait/"+tag, base, func(e *env) {
					e.srv.Plan(stallUID("stall-"))
					go e.c.Do(context.Background(), e.c.B().Arbitrary("VERIF.ECHO").Keys("k").Args("stall-holder", "str").Blocking())
					synctest.Wait()
					e.timed("Do-blocking-pool-wait", d, func(ctx context.Context) error {
						return e.c.Do(ctx, e.c.B().Arbitrary("VERIF.ECHO").Keys("k").Args("waiter", "str").Blocking()).Error()
					})
					e.timed("DoStream-pool-wait", d, func(ctx context.Context) error {
						s := e.c.DoStream(ctx, e.echo("stream-waiter"))
						_, err := s.WriteTo(io.Discard)
						return err
					})
				})
				// a blocking command inside a DoMulti on a pool wire: cancellation must not wait out the close grace
				scenario(run, t, "blocking-multi/"+tag, base, func(e *env) {
					e.srv.Plan(stallUID("stall-"))
					blk := func(uid string) rueidis.Completed {
						return e.c.B().Arbitrary("VERIF.ECHO").Keys("k").Args(uid, "str").Blocking()
					}
					e.timed("DoMulti-blocking-deadline", d, func(ctx context.Context) error {
						return e.c.DoMulti(ctx, e.echo("bm-a"), blk("stall-bm-1"))[1].Error()
					})
					ctx, cancel := context.WithCancel(context.Background())
					var ret time.Time
					done := make(chan error, 1)
					go func() {
						err := e.c.DoMulti(ctx, e.echo("bm-b"), blk("stall-bm-2"))[1].Error()
						ret = time.Now()
						done <- err
					}()
					time.Sleep(d)
					at := time.Now()
					cancel()
					err := <-done
					run.Observe("manual_cancels", 1)
					run.Case(fmt.Sprintf("%s|cancel-blocking-multi|d=%v", e.name, d), true)
					if ret.After(at) || err == nil { // (a connection-level timeout may legitimately end the call before the cancellation)
						run.Violation("cancel-not-honoured", e.name+"|DoMulti-blocking", map[string]any{"scenario": e.name, "cancelled_at": at.Sub(e.t0).String(), "returned_at": ret.Sub(e.t0).String(), "err": fmt.Sprint(err)})
					}
				})
				// another caller's cache flight never completes
				scenario(run, t, "cache-flight-waiter/"+tag, base, func(e *env) {
					e.srv.Node(addr).Exec("SET", "ck", "v")
					e.srv.Node(addr).Exec("SET", "ck2", "v2")
					e.srv.Plan(&fakeredis.Rule{Match: fakeredis.MatchCmd("EXEC"), Action: fakeredis.Action{Stall: true}})
					go e.c.DoCache(context.Background(), e.c.B().Get().Key("ck").Cache(), time.Minute)
					synctest.Wait()
					e.timed("DoCache-waiter", d, func(ctx context.Context) error {
						return e.c.DoCache(ctx, e.c.B().Get().Key("ck").Cache(), time.Minute).Error()
					})
					e.timed("DoMultiCache-waiter", d, func(ctx context.Context) error {
						rs := e.c.DoMultiCache(ctx, rueidis.CT(e.c.B().Get().Key("ck").Cache(), time.Minute))
						return rs[0].Error()
					})
					e.timed("DoCache-MGET-waiter", d, func(ctx context.Context) error {
						return e.c.DoCache(ctx, e.c.B().Mget().Key("ck").Cache(), time.Minute).Error()
					})
				})
				// retry back-off around the deadline
				for _, back := range []time.Duration{d / 3, d - time.Microsecond, d, 2 * d} {
					if back <= 0 {
						continue
					}
					back := back
					o := base
					o.retry = func(int, rueidis.Completed, error) time.Duration { return back }
					scenario(run, t, fmt.Sprintf("retry-backoff/%s/back=%v", tag, back), o, func(e *env) {
						loading := resp.Err("LOADING Redis is loading the dataset in memory")
						e.srv.Plan(&fakeredis.Rule{Match: fakeredis.MatchArg("load-"), Action: fakeredis.Action{Reply: &loading}})
						e.timed("Do-retry-LOADING", d, func(ctx context.Context) error {
							return e.c.Do(ctx, e.c.B().Arbitrary("VERIF.ECHO").Keys("k").Args("load-1", "str").ReadOnly()).Error()
						})
						e.srv.Plan(&fakeredis.Rule{Match: fakeredis.MatchArg("drop-"), Action: fakeredis.Action{Close: true}})
						e.timed("Do-retry-dropped", d, func(ctx context.Context) error {
							return e.c.Do(ctx, e.c.B().Arbitrary("VERIF.ECHO").Keys("k").Args("drop-1", "str").ReadOnly()).Error()
						})
						run.Observe("retry_scenarios", 1)
					})
				}
				// the connection has to be re-dialled and the dial is slow
				od := base
				od.dialDelay = 2*d + time.Millisecond
				scenario(run, t, "slow-dial/"+tag, od, func(e *env) {
					e.srv.KillAll(addr)
					synctest.Wait()
					e.timed("Do-needs-redial", d, func(ctx context.Context) error { return e.c.Do(ctx, e.echo("after-kill")).Error() })
				})
			}
			// a context that is already done sends nothing
			scenario(run, t, "already-done/"+tag, base, func(e *env) {
				ctx, cancel := context.WithCancel(context.Background())
				cancel()
				start := time.Now()
				calls := map[string]func() error{
					"Do":      func() error { return e.c.Do(ctx, e.echo("done-do")).Error() },
					"DoMulti": func() error { return e.c.DoMulti(ctx, e.echo("done-m1"), e.echo("done-m2"))[1].Error() },
					"DoCache": func() error {
						return e.c.DoCache(ctx, e.c.B().Get().Key("done-cache").Cache(), time.Minute).NonRedisError()
					},
					"DoMultiCache": func() error {
						return e.c.DoMultiCache(ctx, rueidis.CT(e.c.B().Get().Key("done-mcache").Cache(), time.Minute))[0].NonRedisError()
					},
					"DoBlocking": func() error {
						return e.c.Do(ctx, e.c.B().Arbitrary("VERIF.ECHO").Keys("k").Args("done-block", "str").Blocking()).Error()
					},
					"DoStream": func() error {
						s := e.c.DoStream(ctx, e.echo("done-stream"))
						_, err := s.WriteTo(io.Discard)
						return err
					},
					"Receive": func() error {
						return e.c.Receive(ctx, e.c.B().Subscribe().Channel("done-chan").Build(), func(rueidis.PubSubMessage) {})
					},
				}
				for name, f := range calls {
					err := f()
					run.Observe("already_done_calls", 1)
					run.Case(e.name+"|"+name, true)
					if err == nil {
						run.Violation("done-context-call-succeeded", e.name+"|"+name, map[string]any{"scenario": e.name, "call": name})
					}
				}
				if !time.Now().Equal(start) {
					run.Violation("done-context-call-waited", e.name, map[string]any{"scenario": e.name, "waited": time.Since(start).String()})
				}
				synctest.Wait()
				for _, uid := range []string{"done-do", "done-m1", "done-m2", "done-cache", "done-mcache", "done-block", "done-stream", "done-chan"} {
					if n := received(e.srv, uid); n != 0 {
						run.Violation("done-context-sent-command", e.name+"|"+uid, map[string]any{"scenario": e.name, "uid": uid, "received": n})
					}
				}
			})
		}
	}
	// the blocking pool's waiters against the wake-up sent for a done context (poolrace_test.go)
	for _, rc := range raceCases(run.Rand("pool-wakeup-race"), run.N(1, 12)) {
		poolWakeupRace(run, t, rc)
	}
	run.Require("deadline_calls", "manual_cancels", "already_done_calls", "retry_scenarios", "pool_race_context_done_between_check_and_park", "pool_race_context_done_after_park",
		"dedicated_sync_served_deadline_call_with_concurrent_op", "dedicated_sync_served_with_SetPubSubHooks", "dedicated_sync_served_with_SetOnInvalidations", "dedicated_sync_served_with_Do", "dedicated_sync_served_with_Receive")
}
