//go:build verif

package c05

import (
	"context"
	"fmt"
	"math/rand"
	"runtime"
	"strings"
	"sync"
	"sync/atomic"
	"testing"
	"testing/synctest"
	"time"

	"github.com/redis/rueidis"
	"verifh/fakeredis"
	"verifh/mon"
)

// ---- a deadline call served synchronously on a dedicated connection while the connection is used concurrently -----
//
// A connection that has not been switched to pipelining yet serves a call synchronously: the caller itself writes the
// command and reads the reply, and its context deadline is carried by the connection's I/O deadline. This is the mode
// of a fresh dedicated connection (client.Dedicate) without AlwaysPipelining. The statement's "waiting in the
// pipeline" covers it, and the deadline has to hold whatever else is done with the same DedicatedClient meanwhile:
// installing / replacing pub/sub hooks, installing an invalidation callback, a second Do / DoMulti / Receive (which
// have to queue behind the synchronous call and carry deadlines of their own).
// Whether the first call really was served synchronously at the instant of the concurrent operation is MEASURED (a
// goroutine of this bubble inside pipe.syncDo / pipe.syncDoMulti), not assumed.

var dedOps = []string{"SetPubSubHooks", "SetPubSubHooks-replace", "SetOnInvalidations", "Do", "DoMulti", "Receive"}
var dedFirsts = []string{"Do", "DoMulti", "Do-blocking"}

type dedCase struct {
	first string        // the call under the deadline d
	op    string        // what is done concurrently with the same DedicatedClient
	fault string        // "stall": the server never answers the first call, "late": it answers after 2d
	opAt  time.Duration // the concurrent operation starts opAt after the first call is waiting for its reply (< d)
	d     time.Duration
	d2    time.Duration // deadline of the concurrent operation when it is a call
}

// dedCases: every concurrent operation for one (deadline, configuration); the kind of the first call rotates so that
// first x op is covered over the deadlines; fault, the instant of the operation and its own deadline are drawn from rng.
func dedCases(rng *rand.Rand, d time.Duration, round int) []dedCase {
	var out []dedCase
	for i, op := range dedOps {
		dc := dedCase{first: dedFirsts[(round+i)%len(dedFirsts)], op: op, d: d, fault: "stall"}
		if rng.Intn(3) == 0 {
			dc.fault = "late"
		}
		switch rng.Intn(3) {
		case 0: // the very instant the first call started to wait
		case 1:
			dc.opAt = d / 2
		default:
			dc.opAt = time.Duration(rng.Int63n(int64(d)))
		}
		switch rng.Intn(3) {
		case 0:
			dc.d2 = d/2 + time.Nanosecond // done before the first call's deadline
		case 1:
			dc.d2 = d
		default:
			dc.d2 = 2 * d
		}
		out = append(out, dc)
	}
	return out
}

// syncServed reports whether a goroutine of the current bubble is inside rueidis's synchronous serving path.
func syncServed() bool {
	buf := make([]byte, 1<<20)
	buf = buf[:runtime.Stack(buf, true)]
	gs := strings.Split(string(buf), "\n\n")
	cur := -1
	ids := make([]int, len(gs))
	for i, g := range gs {
		ids[i] = -1
		head, _, _ := strings.Cut(g, "\n")
		if j := strings.Index(head, "synctest bubble "); j >= 0 {
			n := 0
			for _, c := range head[j+len("synctest bubble "):] {
				if c < '0' || c > '9' {
					break
				}
				n = n*10 + int(c-'0')
			}
			ids[i] = n
			if n > cur {
				cur = n
			}
		}
	}
	for i, g := range gs {
		if ids[i] == cur && cur >= 0 && (strings.Contains(g, "rueidis.(*pipe).syncDo(") || strings.Contains(g, "rueidis.(*pipe).syncDoMulti(")) {
			return true
		}
	}
	return false
}

func dedicatedConcurrent(run *mon.Run, t *testing.T, tag string, base opts, dc dedCase) {
	name := fmt.Sprintf("dedicated-concurrent-op/%s/first=%s/op=%s/%s", tag, dc.first, dc.op, dc.fault)
	scenario(run, t, name, base, func(e *env) {
		if dc.fault == "stall" {
			e.srv.Plan(stallUID("stall-"))
		} else {
			e.srv.Plan(&fakeredis.Rule{Match: fakeredis.MatchArg("stall-"), Action: fakeredis.Action{DelayReply: 2*dc.d + time.Millisecond}})
		}
		ded, release := e.c.Dedicate()
		defer release()
		blk := func(uid string) rueidis.Completed {
			return ded.B().Arbitrary("VERIF.ECHO").Keys("k").Args(uid, "str").Blocking()
		}
		echo := func(uid string) rueidis.Completed {
			return ded.B().Arbitrary("VERIF.ECHO").Keys("k").Args(uid, "str").Build()
		}
		var firstBack atomic.Bool
		var wg sync.WaitGroup
		wg.Add(1)
		go func() {
			defer wg.Done()
			e.timed("dedicated-"+dc.first+"|concurrent-"+dc.op, dc.d, func(ctx context.Context) error {
				defer firstBack.Store(true)
				switch dc.first {
				case "Do":
					return ded.Do(ctx, echo("stall-first")).Error()
				case "DoMulti":
					rs := ded.DoMulti(ctx, echo("first-a"), echo("stall-first"), echo("first-b"))
					return rs[len(rs)-1].Error()
				default:
					return ded.Do(ctx, blk("stall-first")).Error()
				}
			})
		}()
		synctest.Wait() // the first call waits for its reply (or, pipelined, for its result)
		start := time.Now()
		if dc.opAt > 0 {
			time.Sleep(dc.opAt)
			synctest.Wait()
		}
		sync := !firstBack.Load() && syncServed()
		switch dc.op {
		case "SetPubSubHooks":
			ded.SetPubSubHooks(rueidis.PubSubHooks{OnMessage: func(rueidis.PubSubMessage) {}})
		case "SetPubSubHooks-replace":
			ded.SetPubSubHooks(rueidis.PubSubHooks{OnMessage: func(rueidis.PubSubMessage) {}})
			ded.SetPubSubHooks(rueidis.PubSubHooks{OnSubscription: func(rueidis.PubSubSubscription) {}})
		case "SetOnInvalidations":
			ded.SetOnInvalidations(func([]rueidis.RedisMessage) {})
		default:
			wg.Add(1)
			go func() {
				defer wg.Done()
				e.timed("dedicated-"+dc.op+"|behind-"+dc.first, dc.d2, func(ctx context.Context) error {
					switch dc.op {
					case "Do":
						return ded.Do(ctx, echo("second")).Error()
					case "DoMulti":
						rs := ded.DoMulti(ctx, echo("second-a"), echo("second-b"))
						return rs[len(rs)-1].Error()
					default:
						return ded.Receive(ctx, ded.B().Subscribe().Channel("ded-chan").Build(), func(rueidis.PubSubMessage) {})
					}
				})
			}()
		}
		// past both deadlines (virtual time): whoever is still waiting is released by dropping the connection, so that the
		// lateness is reported by its own check instead of a stuck bubble
		horizon := dc.d
		if dc.d2 > horizon {
			horizon = dc.d2
		}
		time.Sleep(time.Until(start.Add(horizon + 2*time.Second)))
		synctest.Wait()
		if !firstBack.Load() {
			run.Observe("dedicated_concurrent_op_first_call_still_waiting_after_deadline", 1)
			e.srv.KillAll(addr)
		}
		wg.Wait()
		run.Observe("dedicated_concurrent_op_scenarios", 1)
		if sync {
			run.Observe("dedicated_sync_served_deadline_call_with_concurrent_op", 1)
			run.Observe("dedicated_sync_served_with_"+dc.op, 1)
		} else {
			run.Observe("dedicated_pipelined_deadline_call_with_concurrent_op", 1)
		}
		run.Case(fmt.Sprintf("%s|d=%v|opAt=%v|d2=%v|sync=%v", name, dc.d, dc.opAt, dc.d2, sync), sync)
	})
}
