//go:build verif

package c05

import (
	"context"
	"fmt"
	"io"
	"math/rand"
	"runtime"
	"sync"
	"sync/atomic"
	"testing"
	"testing/synctest"
	"time"

	"github.com/redis/rueidis"
	"verifh/mon"
)

// ---- the blocking pool's wait against the wake-up sent for a done context ------------------------------------
//
// A call that finds the blocking pool exhausted tests its context under the pool lock and then parks on the pool's
// condition variable; the wake-up for a context that becomes done is sent by somebody else. The statement quantifies
// over "cancellation racing with the pool's wake-up broadcast": the instant the context becomes done can fall
//   - after the waiter has parked (the ordinary wait), or
//   - into the window between the waiter's test of the context and its parking (a waiter preempted there).
// The second placement is produced deterministically with the monitor hooks of the pool (rueidis.VerifSetHook):
// "pool.acquire.beforewait" runs on the waiter, pool lock held, right before it parks - the waiter is kept there
// (a virtual sleep up to the instant its context becomes done, then bounded yields, exactly what a preempted
// goroutine looks like) until the wake-up for its context has been sent ("pool.acquire.broadcasted") or the bound is
// exhausted because the sender itself is waiting for the pool lock. Judged the C05 way: on virtual time every waiter
// has to be back by the instant its context became done.

// raceYields bounds the time the target waiter is kept in the window after its context became done.
const raceYields = 200000

type raceCase struct {
	idx     int
	kind    string // "deadline": context.WithTimeout, "cancel": context.WithCancel cancelled by the driver at the same instant
	order   string // "wakeup-before-park", "wakeup-after-park"
	api     string // which pool user waits: "Do-blocking", "DoMulti-blocking" (dedicated pool), "DoStream" (stream pool)
	cap     int    // BlockingPoolSize, all of it held
	waiters int
	target  int             // the waiter that is kept in the window
	d       time.Duration   // the target's context is done d after the waiters start
	extra   []time.Duration // per waiter: its context is done d+extra after the start (0 for the target)
	queue   string
	always  bool
}

func (rc raceCase) name() string {
	return fmt.Sprintf("pool-wakeup-race/%s/%s/%s/cap=%d/waiters=%d/%s/always=%v", rc.kind, rc.order, rc.api, rc.cap, rc.waiters, rc.queue, rc.always)
}

// raceCases: the full grid kind x order x capacity x number of waiters, rounds times, everything else drawn from rng.
func raceCases(rng *rand.Rand, rounds int) []raceCase {
	var out []raceCase
	apis := []string{"Do-blocking", "DoMulti-blocking", "DoStream"}
	for r := 0; r < rounds; r++ {
		for _, kind := range []string{"deadline", "cancel"} {
			for _, order := range []string{"wakeup-before-park", "wakeup-after-park"} {
				for pc := 1; pc <= 3; pc++ {
					for w := 1; w <= 3; w++ {
						rc := raceCase{idx: len(out), kind: kind, order: order, cap: pc, waiters: w, target: rng.Intn(w),
							api: apis[(len(out)+r)%len(apis)], queue: []string{"flowbuffer", "ring"}[rng.Intn(2)], always: rng.Intn(2) == 0}
						switch rng.Intn(4) {
						case 0:
							rc.d = time.Nanosecond // the earliest instant after the waiter's arrival (virtual time only moves once everybody waits)
						case 1:
							rc.d = time.Duration(1+rng.Intn(5000)) * time.Microsecond
						case 2:
							rc.d = time.Duration(1+rng.Intn(5000)) * time.Millisecond
						default:
							rc.d = time.Duration(1+rng.Intn(60)) * time.Second
						}
						rc.extra = make([]time.Duration, w)
						for i := range rc.extra {
							if i != rc.target && rng.Intn(3) > 0 { // the others: the same instant or later
								rc.extra[i] = time.Duration(1+rng.Intn(3000)) * time.Millisecond
							}
						}
						out = append(out, rc)
					}
				}
			}
		}
	}
	return out
}

type ctxBox struct{ ctx context.Context }

// raceHook is the monitor side of the hand-shake.
type raceHook struct {
	target   atomic.Pointer[ctxBox]
	hold     bool
	limit    time.Time
	entered  atomic.Bool // the target reached the window (loop test passed, about to park)
	left     atomic.Bool // the target went on to park
	leftAt   time.Time   // ... at this (virtual) instant
	doneIn   atomic.Bool // its context became done while it was in the window
	sent     atomic.Bool // the wake-up for its context was sent
	sentIn   atomic.Bool // ... while it was in the window
	sentPark atomic.Bool // ... after it had gone on to park
}

func (h *raceHook) fn(point string, args ...any) {
	if len(args) < 2 {
		return
	}
	ctx, _ := args[1].(context.Context)
	b := h.target.Load()
	if ctx == nil || b == nil || b.ctx != ctx {
		return
	}
	switch point {
	case "pool.acquire.beforewait":
		if !h.entered.CompareAndSwap(false, true) {
			return
		}
		if h.hold {
			// (nobody else asks for the pool lock before this instant: the other waiters are parked already and their
			// contexts are done no earlier, the holders are stuck on the server)
			if d := time.Until(h.limit); d > 0 {
				time.Sleep(d)
			}
			for i := 0; i < raceYields && ctx.Err() == nil; i++ {
				runtime.Gosched()
			}
			if ctx.Err() != nil {
				h.doneIn.Store(true)
				for i := 0; i < raceYields && !h.sent.Load(); i++ {
					runtime.Gosched()
				}
			}
		}
		h.leftAt = time.Now()
		h.left.Store(true)
	case "pool.acquire.broadcasted":
		if h.entered.Load() {
			if h.left.Load() {
				h.sentPark.Store(true)
			} else {
				h.sentIn.Store(true)
			}
		}
		h.sent.Store(true)
	}
}

type raceWaiter struct {
	idx      int
	limit    time.Time // the instant the context is done
	returned atomic.Bool
	ret      time.Time
	err      error
}

func poolWakeupRace(run *mon.Run, t *testing.T, rc raceCase) {
	o := opts{queue: rc.queue, always: rc.always, poolSize: rc.cap, multiplex: -1}
	hook := &raceHook{hold: rc.order == "wakeup-before-park"}
	rueidis.VerifSetHook(hook.fn)
	defer rueidis.VerifSetHook(nil)
	scenario(run, t, rc.name(), o, func(e *env) {
		blk := func(uid string) rueidis.Completed {
			return e.c.B().Arbitrary("VERIF.ECHO").Keys("k").Args(uid, "str").Blocking()
		}
		e.srv.Plan(stallUID("stall-"))
		// exhaust the pool
		var streams []rueidis.RedisResultStream
		for i := 0; i < rc.cap; i++ {
			if rc.api == "DoStream" {
				streams = append(streams, e.c.DoStream(context.Background(), e.echo(fmt.Sprintf("hold-%d", i)))) // an unread stream keeps its connection
			} else {
				go e.c.Do(context.Background(), blk(fmt.Sprintf("stall-hold-%d", i)))
			}
		}
		synctest.Wait()
		released := false
		release := func() {
			if !released {
				released = true
				e.srv.Resume()
				for _, s := range streams {
					s.WriteTo(io.Discard)
				}
			}
		}
		call := func(ctx context.Context, uid string) error {
			switch rc.api {
			case "Do-blocking":
				return e.c.Do(ctx, blk(uid)).Error()
			case "DoMulti-blocking":
				rs := e.c.DoMulti(ctx, e.echo(uid+"-a"), blk(uid+"-b"))
				return rs[len(rs)-1].Error()
			default:
				s := e.c.DoStream(ctx, e.echo(uid))
				_, err := s.WriteTo(io.Discard)
				return err
			}
		}
		start := time.Now()
		ws := make([]*raceWaiter, rc.waiters)
		var wg sync.WaitGroup
		launch := func(i int) {
			w := &raceWaiter{idx: i, limit: start.Add(rc.d + rc.extra[i])}
			ws[i] = w
			var ctx context.Context
			var cancel context.CancelFunc
			if rc.kind == "deadline" {
				ctx, cancel = context.WithDeadline(context.Background(), w.limit)
			} else {
				ctx, cancel = context.WithCancel(context.Background())
				wg.Add(1)
				go func() { // the owner of the context cancels it at the planned instant
					defer wg.Done()
					time.Sleep(time.Until(w.limit))
					cancel()
				}()
			}
			if i == rc.target {
				hook.limit = w.limit
				hook.target.Store(&ctxBox{ctx: ctx})
			}
			wg.Add(1)
			go func() {
				defer wg.Done()
				defer cancel()
				w.err = call(ctx, fmt.Sprintf("waiter-%d", i))
				w.ret = time.Now()
				w.returned.Store(true)
			}()
		}
		// the others first: they are parked by the time the target arrives
		for i := 0; i < rc.waiters; i++ {
			if i != rc.target {
				launch(i)
			}
		}
		synctest.Wait()
		launch(rc.target)
		// well after every context is done (virtual time; the connections' keep-alive timers make a long sleep costly)
		horizon := rc.d + 10*time.Second
		time.Sleep(horizon)
		synctest.Wait()
		for _, w := range ws {
			class := "returned-after-deadline"
			if rc.kind == "cancel" {
				class = "cancel-not-honoured"
			}
			role := "other"
			if w.idx == rc.target {
				role = "target"
			}
			wit := map[string]any{"scenario": e.name, "api": rc.api, "waiter": w.idx, "role": role, "context": rc.kind, "pool_capacity": rc.cap, "waiters": rc.waiters,
				"context_done_at": w.limit.Sub(start).String(), "target_context_done_at": rc.d.String(),
				"target_reached_window_before_parking": hook.entered.Load(), "target_context_done_in_window": hook.doneIn.Load(),
				"wakeup_sent_while_target_in_window": hook.sentIn.Load(), "wakeup_sent_after_target_parked": hook.sentPark.Load(),
				"history": "every pool connection is held by a stuck call; the waiter found the pool exhausted and waits for a connection; " + rc.order}
			key := e.name + "|" + rc.api + "|pool-wait|context-done-" + rc.order
			if !w.returned.Load() {
				wit["observed"] = fmt.Sprintf("still waiting for a pool connection %v after its context was done", time.Since(w.limit))
				run.Violation(class, key, wit)
				run.Observe("pool_race_waiters_left_parked", 1)
			} else if w.ret.After(w.limit) {
				wit["observed"] = fmt.Sprintf("returned %v after its context was done (err=%v)", w.ret.Sub(w.limit), w.err)
				run.Violation(class, key, wit)
				run.Observe("pool_race_waiters_late", 1)
			}
			if w.returned.Load() && w.err == nil {
				run.Observe("pool_race_calls_that_succeeded", 1)
			}
			run.Observe("pool_race_waiters", 1)
		}
		release()
		wg.Wait()
		run.Observe("pool_race_scenarios", 1)
		produced := false
		if hook.hold {
			if hook.doneIn.Load() {
				run.Observe("pool_race_context_done_between_check_and_park", 1)
				produced = true
			}
			if hook.sentIn.Load() {
				run.Observe("pool_race_wakeup_sent_before_park", 1)
			}
		} else {
			// virtual time moves only once every goroutine waits: a target that went on to park before the instant its
			// context is done was parked when that instant came
			if hook.left.Load() && hook.leftAt.Before(ws[rc.target].limit) {
				run.Observe("pool_race_context_done_after_park", 1)
				produced = true
			}
			if hook.sentPark.Load() { // (somebody else's wake-up at the same instant may get the target out before its own is sent)
				run.Observe("pool_race_wakeup_sent_after_park", 1)
			}
		}
		run.Case(fmt.Sprintf("%s|target=%d|d=%v|extra=%v|produced=%v", e.name, rc.target, rc.d, rc.extra, produced), produced)
		if rc.idx < 4 {
			run.Sample(map[string]any{"scenario": e.name, "target_context_done_after": rc.d.String(), "target_returned_relative_to_done": ws[rc.target].ret.Sub(ws[rc.target].limit).String(),
				"err": fmt.Sprint(ws[rc.target].err), "context_done_in_window": hook.doneIn.Load(), "wakeup_sent_in_window": hook.sentIn.Load(), "wakeup_sent_after_park": hook.sentPark.Load()})
		}
	})
}
