package c43

import (
	"context"
	"fmt"
	"math/rand"
	"sort"
	"strings"
	"testing"
	"time"

	"github.com/redis/rueidis"
	"github.com/redis/rueidis/rueidishook"
	"verifh/mon"
)

// ---------------------------------------------------------------------------
// call records shared by the fake inner clients and the counting hook

type call struct {
	who    string // "hook" or the name of the fake that was reached
	method string
	client rueidis.Client // hook only: the client handed to the hook
	ctx    context.Context
	cmd    rueidis.Completed
	multi  []rueidis.Completed
	ccmd   rueidis.Cacheable
	cmulti []rueidis.CacheableTTL
	ttl    time.Duration
	fn     func(rueidis.PubSubMessage)
}

type log struct{ calls []call }

func (l *log) add(c call) { l.calls = append(l.calls, c) }

// requests returns the recorded calls of the seven request methods made by who ("" = anybody but the hook).
func (l *log) requests(hook bool) (out []call) {
	for _, c := range l.calls {
		if (c.who == "hook") == hook && isRequest(c.method) {
			out = append(out, c)
		}
	}
	return
}

var methods = []string{"Do", "DoMulti", "DoCache", "DoMultiCache", "Receive", "DoStream", "DoMultiStream"}
var dedicatedMethods = []string{"Do", "DoMulti", "Receive"}

func isRequest(m string) bool {
	for _, x := range methods {
		if x == m {
			return true
		}
	}
	return false
}

// results is one set of recognisable results (each a distinct identity)
type results struct {
	res     rueidis.RedisResult
	multi   []rueidis.RedisResult
	err     error
	stream  rueidis.RedisResultStream
	mstream rueidis.MultiRedisResultStream
}

type tagErr struct{ s string }

func (e *tagErr) Error() string { return e.s }

func newResults(rng *rand.Rand, tag string, n int) *results {
	mk := func(what string) rueidis.RedisResult {
		if rng.Intn(2) == 0 {
			return rueidis.NewErrorResult(&tagErr{tag + "/" + what + "/err"})
		}
		return rueidis.NewResult(rueidis.VerifBuild(rueidis.VerifNode{Typ: '+', Str: fmt.Sprintf("%s/%s/%d", tag, what, rng.Int63())}), nil)
	}
	r := &results{res: mk("res"), stream: rueidis.NewErrorResultStream(&tagErr{tag + "/stream"}), mstream: rueidis.NewErrorResultStream(&tagErr{tag + "/mstream"})}
	if rng.Intn(4) != 0 {
		r.err = &tagErr{tag + "/receive"}
	}
	r.multi = make([]rueidis.RedisResult, n)
	for i := range r.multi {
		r.multi[i] = mk(fmt.Sprintf("multi%d", i))
	}
	return r
}

// ---------------------------------------------------------------------------
// fake inner client: implements rueidis.Client itself, counts, returns recognisable results

type fakeClient struct {
	name  string
	l     *log
	out   *results
	ded   *fakeDedicated
	nodes map[string]*fakeClient
}

var _ rueidis.Client = (*fakeClient)(nil)

func (f *fakeClient) B() rueidis.Builder { return rueidis.VerifNewBuilder(false) }
func (f *fakeClient) Do(ctx context.Context, cmd rueidis.Completed) rueidis.RedisResult {
	f.l.add(call{who: f.name, method: "Do", ctx: ctx, cmd: cmd})
	return f.out.res
}
func (f *fakeClient) DoMulti(ctx context.Context, multi ...rueidis.Completed) []rueidis.RedisResult {
	f.l.add(call{who: f.name, method: "DoMulti", ctx: ctx, multi: multi})
	return f.out.multi
}
func (f *fakeClient) DoCache(ctx context.Context, cmd rueidis.Cacheable, ttl time.Duration) rueidis.RedisResult {
	f.l.add(call{who: f.name, method: "DoCache", ctx: ctx, ccmd: cmd, ttl: ttl})
	return f.out.res
}
func (f *fakeClient) DoMultiCache(ctx context.Context, multi ...rueidis.CacheableTTL) []rueidis.RedisResult {
	f.l.add(call{who: f.name, method: "DoMultiCache", ctx: ctx, cmulti: multi})
	return f.out.multi
}
func (f *fakeClient) DoStream(ctx context.Context, cmd rueidis.Completed) rueidis.RedisResultStream {
	f.l.add(call{who: f.name, method: "DoStream", ctx: ctx, cmd: cmd})
	return f.out.stream
}
func (f *fakeClient) DoMultiStream(ctx context.Context, multi ...rueidis.Completed) rueidis.MultiRedisResultStream {
	f.l.add(call{who: f.name, method: "DoMultiStream", ctx: ctx, multi: multi})
	return f.out.mstream
}
func (f *fakeClient) Receive(ctx context.Context, subscribe rueidis.Completed, fn func(rueidis.PubSubMessage)) error {
	f.l.add(call{who: f.name, method: "Receive", ctx: ctx, cmd: subscribe, fn: fn})
	return f.out.err
}
func (f *fakeClient) Dedicated(fn func(rueidis.DedicatedClient) error) error {
	f.l.add(call{who: f.name, method: "Dedicated"})
	return fn(f.ded)
}
func (f *fakeClient) Dedicate() (rueidis.DedicatedClient, func()) {
	f.l.add(call{who: f.name, method: "Dedicate"})
	return f.ded, func() { f.l.add(call{who: f.name, method: "Dedicate.cancel"}) }
}

// Nodes returns a fresh map on every call, like singleClient.Nodes / clusterClient.Nodes do.
func (f *fakeClient) Nodes() map[string]rueidis.Client {
	f.l.add(call{who: f.name, method: "Nodes"})
	m := make(map[string]rueidis.Client, len(f.nodes))
	for a, n := range f.nodes {
		m[a] = n
	}
	return m
}
func (f *fakeClient) Mode() rueidis.ClientMode { return rueidis.ClientModeStandalone }
func (f *fakeClient) Close()                   { f.l.add(call{who: f.name, method: "Close"}) }

type fakeDedicated struct {
	name string
	l    *log
	out  *results
}

var _ rueidis.DedicatedClient = (*fakeDedicated)(nil)

func (f *fakeDedicated) B() rueidis.Builder { return rueidis.VerifNewBuilder(false) }
func (f *fakeDedicated) Do(ctx context.Context, cmd rueidis.Completed) rueidis.RedisResult {
	f.l.add(call{who: f.name, method: "Do", ctx: ctx, cmd: cmd})
	return f.out.res
}
func (f *fakeDedicated) DoMulti(ctx context.Context, multi ...rueidis.Completed) []rueidis.RedisResult {
	f.l.add(call{who: f.name, method: "DoMulti", ctx: ctx, multi: multi})
	return f.out.multi
}
func (f *fakeDedicated) Receive(ctx context.Context, subscribe rueidis.Completed, fn func(rueidis.PubSubMessage)) error {
	f.l.add(call{who: f.name, method: "Receive", ctx: ctx, cmd: subscribe, fn: fn})
	return f.out.err
}
func (f *fakeDedicated) SetPubSubHooks(rueidis.PubSubHooks) <-chan error              { return nil }
func (f *fakeDedicated) SetOnInvalidations(func([]rueidis.RedisMessage)) <-chan error { return nil }
func (f *fakeDedicated) Close()                                                       { f.l.add(call{who: f.name, method: "Close"}) }

// ---------------------------------------------------------------------------
// counting hook: either answers with its own sentinels, or delegates to the client it was given

type countingHook struct {
	l        *log
	out      *results
	delegate bool
}

var _ rueidishook.Hook = (*countingHook)(nil)

func (h *countingHook) Do(client rueidis.Client, ctx context.Context, cmd rueidis.Completed) rueidis.RedisResult {
	h.l.add(call{who: "hook", method: "Do", client: client, ctx: ctx, cmd: cmd})
	if h.delegate {
		return client.Do(ctx, cmd)
	}
	return h.out.res
}
func (h *countingHook) DoMulti(client rueidis.Client, ctx context.Context, multi ...rueidis.Completed) []rueidis.RedisResult {
	h.l.add(call{who: "hook", method: "DoMulti", client: client, ctx: ctx, multi: multi})
	if h.delegate {
		return client.DoMulti(ctx, multi...)
	}
	return h.out.multi
}
func (h *countingHook) DoCache(client rueidis.Client, ctx context.Context, cmd rueidis.Cacheable, ttl time.Duration) rueidis.RedisResult {
	h.l.add(call{who: "hook", method: "DoCache", client: client, ctx: ctx, ccmd: cmd, ttl: ttl})
	if h.delegate {
		return client.DoCache(ctx, cmd, ttl)
	}
	return h.out.res
}
func (h *countingHook) DoMultiCache(client rueidis.Client, ctx context.Context, multi ...rueidis.CacheableTTL) []rueidis.RedisResult {
	h.l.add(call{who: "hook", method: "DoMultiCache", client: client, ctx: ctx, cmulti: multi})
	if h.delegate {
		return client.DoMultiCache(ctx, multi...)
	}
	return h.out.multi
}
func (h *countingHook) Receive(client rueidis.Client, ctx context.Context, subscribe rueidis.Completed, fn func(rueidis.PubSubMessage)) error {
	h.l.add(call{who: "hook", method: "Receive", client: client, ctx: ctx, cmd: subscribe, fn: fn})
	if h.delegate {
		return client.Receive(ctx, subscribe, fn)
	}
	return h.out.err
}
func (h *countingHook) DoStream(client rueidis.Client, ctx context.Context, cmd rueidis.Completed) rueidis.RedisResultStream {
	h.l.add(call{who: "hook", method: "DoStream", client: client, ctx: ctx, cmd: cmd})
	if h.delegate {
		return client.DoStream(ctx, cmd)
	}
	return h.out.stream
}
func (h *countingHook) DoMultiStream(client rueidis.Client, ctx context.Context, multi ...rueidis.Completed) rueidis.MultiRedisResultStream {
	h.l.add(call{who: "hook", method: "DoMultiStream", client: client, ctx: ctx, multi: multi})
	if h.delegate {
		return client.DoMultiStream(ctx, multi...)
	}
	return h.out.mstream
}

// ---------------------------------------------------------------------------

type ctxKey struct{}

// caller's arguments of one call
type args struct {
	ctx    context.Context
	cmd    rueidis.Completed
	multi  []rueidis.Completed
	ccmd   rueidis.Cacheable
	cmulti []rueidis.CacheableTTL
	ttl    time.Duration
	fn     func(rueidis.PubSubMessage)
	fnGot  *[]rueidis.PubSubMessage
	n      int
}

func randWord(rng *rand.Rand) string {
	const al = "abcxyz0189{}: \r\n"
	b := make([]byte, rng.Intn(9))
	for i := range b {
		b[i] = al[rng.Intn(len(al))]
	}
	return string(b)
}

func newArgs(rng *rand.Rand) *args {
	b := rueidis.VerifNewBuilder(false)
	a := &args{ctx: context.WithValue(context.Background(), ctxKey{}, rng.Int63()), n: rng.Intn(5)}
	a.cmd = b.Set().Key("k" + randWord(rng)).Value(randWord(rng)).Build()
	a.ccmd = b.Hget().Key("h" + randWord(rng)).Field(randWord(rng)).Cache()
	a.ttl = time.Duration(1+rng.Int63n(1<<40)) * time.Nanosecond
	for i := 0; i < a.n; i++ {
		a.multi = append(a.multi, b.Lpush().Key("l"+randWord(rng)).Element(randWord(rng), randWord(rng)).Build())
		a.cmulti = append(a.cmulti, rueidis.CT(b.Get().Key("g"+randWord(rng)).Cache(), time.Duration(1+rng.Int63n(1<<40))))
	}
	got := []rueidis.PubSubMessage{}
	a.fnGot = &got
	a.fn = func(m rueidis.PubSubMessage) { *a.fnGot = append(*a.fnGot, m) }
	return a
}

func sameCompleted(a, b []rueidis.Completed) bool {
	if len(a) != len(b) {
		return false
	}
	for i := range a {
		if a[i] != b[i] {
			return false
		}
	}
	return true
}

func sameCT(a, b []rueidis.CacheableTTL) bool {
	if len(a) != len(b) {
		return false
	}
	for i := range a {
		if a[i] != b[i] {
			return false
		}
	}
	return true
}

// sameArgs reports whether the recorded call c carries exactly the caller's arguments a for method m ("" when it does).
func sameArgs(rng *rand.Rand, m string, c call, a *args) string {
	if c.ctx != a.ctx {
		return "ctx differs"
	}
	switch m {
	case "Do", "DoStream":
		if c.cmd != a.cmd {
			return "cmd differs"
		}
	case "DoMulti", "DoMultiStream":
		if !sameCompleted(c.multi, a.multi) {
			return "multi differs"
		}
	case "DoCache":
		if c.ccmd != a.ccmd {
			return "cacheable differs"
		}
		if c.ttl != a.ttl {
			return fmt.Sprintf("ttl differs: %v != %v", c.ttl, a.ttl)
		}
	case "DoMultiCache":
		if !sameCT(c.cmulti, a.cmulti) {
			return "cacheable multi differs"
		}
	case "Receive":
		if c.cmd != a.cmd {
			return "subscribe cmd differs"
		}
		if c.fn == nil {
			return "fn is nil"
		}
		// functions are not comparable: deliver a unique message through the received fn, the caller's fn must see exactly it
		msg := rueidis.PubSubMessage{Pattern: randWord(rng), Channel: randWord(rng), Message: fmt.Sprint(rng.Int63())}
		before := len(*a.fnGot)
		c.fn(msg)
		if len(*a.fnGot) != before+1 || (*a.fnGot)[before] != msg {
			return "fn is not the caller's fn"
		}
	}
	return ""
}

func sameResults(a, b []rueidis.RedisResult) bool {
	if len(a) != len(b) {
		return false
	}
	for i := range a {
		if a[i] != b[i] {
			return false
		}
	}
	if len(a) > 0 && &a[0] != &b[0] {
		return false
	}
	return true
}

// invoke calls method m on target (a rueidis.Client or a rueidis.DedicatedClient) and compares the result with want.
func invoke(target rueidis.CoreClient, m string, a *args, want *results) (mismatch string) {
	full, _ := target.(rueidis.Client)
	switch m {
	case "Do":
		if got := target.Do(a.ctx, a.cmd); got != want.res {
			return "Do result changed"
		}
	case "DoMulti":
		if got := target.DoMulti(a.ctx, a.multi...); !sameResults(got, want.multi) {
			return "DoMulti results changed"
		}
	case "Receive":
		if got := target.Receive(a.ctx, a.cmd, a.fn); got != want.err {
			return "Receive error changed"
		}
	case "DoCache":
		if got := full.DoCache(a.ctx, a.ccmd, a.ttl); got != want.res {
			return "DoCache result changed"
		}
	case "DoMultiCache":
		if got := full.DoMultiCache(a.ctx, a.cmulti...); !sameResults(got, want.multi) {
			return "DoMultiCache results changed"
		}
	case "DoStream":
		if got := full.DoStream(a.ctx, a.cmd); got != want.stream {
			return "DoStream result changed"
		}
	case "DoMultiStream":
		if got := full.DoMultiStream(a.ctx, a.multi...); got != want.mstream {
			return "DoMultiStream result changed"
		}
	}
	return ""
}

// entry describes how a caller reaches a request surface from the wrapped client.
type entry struct {
	path      string
	dedicated bool
	inner     string // name of the fake that a delegating hook must reach
	with      func(wrapped rueidis.Client, use func(rueidis.CoreClient))
}

func entries(addrs []string) []entry {
	es := []entry{
		{path: "client", inner: "root", with: func(w rueidis.Client, use func(rueidis.CoreClient)) { use(w) }},
		{path: "client.Dedicated(fn)", dedicated: true, inner: "root.ded", with: func(w rueidis.Client, use func(rueidis.CoreClient)) {
			_ = w.Dedicated(func(d rueidis.DedicatedClient) error { use(d); return nil })
		}},
		{path: "client.Dedicate()", dedicated: true, inner: "root.ded", with: func(w rueidis.Client, use func(rueidis.CoreClient)) {
			d, cancel := w.Dedicate()
			use(d)
			cancel()
		}},
	}
	for _, addr := range addrs {
		addr := addr
		node := func(w rueidis.Client) rueidis.Client { return w.Nodes()[addr] }
		es = append(es,
			entry{path: "Nodes()[" + addr + "]", inner: "node-" + addr, with: func(w rueidis.Client, use func(rueidis.CoreClient)) { use(node(w)) }},
			entry{path: "Nodes()[" + addr + "].Dedicated(fn)", dedicated: true, inner: "node-" + addr + ".ded", with: func(w rueidis.Client, use func(rueidis.CoreClient)) {
				_ = node(w).Dedicated(func(d rueidis.DedicatedClient) error { use(d); return nil })
			}},
			entry{path: "Nodes()[" + addr + "].Dedicate()", dedicated: true, inner: "node-" + addr + ".ded", with: func(w rueidis.Client, use func(rueidis.CoreClient)) {
				d, cancel := node(w).Dedicate()
				use(d)
				cancel()
			}},
		)
	}
	return es
}

// C43: every request entry point of a client wrapped by rueidishook.WithHook goes through the hook exactly once
// with the caller's arguments and hands back the hook's result unchanged.
func TestC43(t *testing.T) {
	run := mon.Start(t, "C43", "exploration",
		"complete enumeration of {client, Dedicated(fn), Dedicate(), Nodes()[a], Nodes()[a].Dedicated(fn), Nodes()[a].Dedicate()} (two node addresses) x every request method the surface has "+
			"(7 on Client, 3 on DedicatedClient) x hook behaviour {answers with its own sentinel, delegates to the client it was given} x {plain client wrapped, an already hooked client wrapped (stacked hooks)}; each combination repeated with random argument values "+
			"(contexts, commands, batch sizes 0..4, ttls, error/value results); a case is distinct by path|method|hook-behaviour and all of them are non-trivial")
	defer run.Finish()
	run.Assume("the inner client's Nodes() returns a fresh map on each call, as singleClient/clusterClient/sentinelClient do (hookclient.Nodes rewrites the map it gets in place)",
		"functions are compared by delivering a unique message through them")
	rng := run.Rand("args")
	addrs := []string{"10.0.0.1:6379", "10.0.0.2:6380"}
	reps := run.N(1000, 20000)
	combos := 0
	for _, e := range entries(addrs) {
		ms := methods
		if e.dedicated {
			ms = dedicatedMethods
		}
		for _, m := range ms {
			for _, delegate := range []bool{false, true} {
				for _, stacked := range []bool{false, true} {
					combos++
					fp := fmt.Sprintf("%s|%s|delegate=%v", e.path, m, delegate)
					if stacked {
						// the client being wrapped is itself a hooked client (WithHook(WithHook(c, under), hook))
						fp += "|stacked"
					}
					for r := 0; r < reps; r++ {
						checkOne(run, rng, addrs, e, m, delegate, stacked, fp, r)
					}
				}
			}
		}
	}
	run.Extra("combinations", combos)
	run.Exhaustive()
	run.Require("hook_fired", "inner_reached_by_delegation", "sentinel_returned")
}

func checkOne(run *mon.Run, rng *rand.Rand, addrs []string, e entry, m string, delegate, stacked bool, fp string, rep int) {
	l := &log{}
	a := newArgs(rng)
	// every fake has its own recognisable results, so a result coming from the wrong place is noticed
	mkClient := func(name string) *fakeClient {
		return &fakeClient{name: name, l: l, out: newResults(rng, name, a.n),
			ded: &fakeDedicated{name: name + ".ded", l: l, out: newResults(rng, name+".ded", a.n)}}
	}
	root := mkClient("root")
	root.nodes = map[string]*fakeClient{}
	outs := map[string]*results{"root": root.out, "root.ded": root.ded.out}
	for _, addr := range addrs {
		n := mkClient("node-" + addr)
		n.nodes = map[string]*fakeClient{addr: n}
		root.nodes[addr] = n
		outs[n.name], outs[n.ded.name] = n.out, n.ded.out
	}
	hook := &countingHook{l: l, out: newResults(rng, "hook", a.n), delegate: delegate}
	var base rueidis.Client = root
	l2 := &log{}
	if stacked {
		// a pass-through hook underneath, with its own log: the outer hook must still fire exactly once on every path,
		// and the one underneath exactly as often as the outer hook delegates
		base = rueidishook.WithHook(root, &countingHook{l: l2, out: newResults(rng, "under", a.n), delegate: true})
	}
	wrapped := rueidishook.WithHook(base, hook)

	want := hook.out
	if delegate {
		want = outs[e.inner]
	}
	var mismatch string
	used := 0
	witness := func(extra string) map[string]any {
		var trace []string
		for _, c := range l.calls {
			trace = append(trace, c.who+"."+c.method)
		}
		return map[string]any{"path": e.path, "method": m, "hook_delegates": delegate, "detail": extra, "call_trace": trace, "rep": rep,
			"cmd": a.cmd.Commands(), "batch": a.n, "ttl": a.ttl.String()}
	}
	func() {
		defer func() {
			if p := recover(); p != nil {
				run.Violation("panic", fp, witness(fmt.Sprint(p)))
				mismatch = "panic"
			}
		}()
		e.with(wrapped, func(target rueidis.CoreClient) {
			used++
			if target == nil {
				mismatch = "derived client is nil"
				return
			}
			mismatch = invoke(target, m, a, want)
		})
	}()
	run.Case(fp, true)
	if rep == 0 && (m == "DoMultiCache" || m == "Receive") && !delegate {
		run.Sample(witness("sample"))
	}
	if mismatch == "panic" {
		return
	}
	if used != 1 {
		run.Violation("entry-path-unusable", fp, witness(fmt.Sprintf("derived client handed out %d times", used)))
		return
	}
	hooks := l.requests(true)
	inner := l.requests(false)
	// 1. the hook fired exactly once, for this method
	if len(hooks) != 1 || hooks[0].method != m {
		var fired []string
		for _, h := range hooks {
			fired = append(fired, h.method)
		}
		sort.Strings(fired)
		run.Violation("hook-count", fp, witness(fmt.Sprintf("hook fired %d times [%s], want exactly once %s", len(hooks), strings.Join(fired, ","), m)))
		return
	}
	run.Observe("hook_fired", 1)
	if stacked {
		under, wantUnder := l2.requests(true), 0
		if delegate {
			wantUnder = 1
		}
		if len(under) != wantUnder || (wantUnder == 1 && under[0].method != m) {
			run.Violation("stacked-hook-count", fp, witness(fmt.Sprintf("the hook underneath fired %d times, want %d (%s)", len(under), wantUnder, m)))
			return
		}
	}
	// 2. with the caller's arguments
	if d := sameArgs(rng, m, hooks[0], a); d != "" {
		run.Violation("hook-arguments", fp, witness(d))
	}
	if hooks[0].client == nil {
		run.Violation("hook-arguments", fp, witness("hook received a nil client"))
	}
	// 3. the caller got the hook's result unchanged
	if mismatch != "" {
		run.Violation("result-changed", fp, witness(mismatch))
	} else if !delegate {
		run.Observe("sentinel_returned", 1)
	}
	// 4. nothing but the hook decides whether the inner client is reached
	if !delegate {
		if len(inner) != 0 {
			run.Violation("hook-bypassed", fp, witness(fmt.Sprintf("inner client reached %d times although the hook did not delegate", len(inner))))
		}
		return
	}
	if len(inner) != 1 || inner[0].method != m || inner[0].who != e.inner {
		var reached []string
		for _, c := range inner {
			reached = append(reached, c.who+"."+c.method)
		}
		run.Violation("delegation", fp, witness(fmt.Sprintf("delegating hook reached %v, want exactly once %s.%s", reached, e.inner, m)))
		return
	}
	if d := sameArgs(rng, m, inner[0], a); d != "" {
		run.Violation("delegation", fp, witness("inner client: "+d))
		return
	}
	run.Observe("inner_reached_by_delegation", 1)
}
