//go:build verif

package c06

import (
	"context"
	"fmt"
	"net"
	"os"
	"strconv"
	"strings"
	"sync"
	"sync/atomic"
	"testing"
	"time"

	"github.com/redis/rueidis"
	"verifh/drv"
	"verifh/fakeredis"
	"verifh/mon"
)

const addr = "127.0.0.1:6379"

type config struct {
	name      string
	tracking  []string // ClientTrackingOptions
	static    bool     // ToStaticTTL on every command
	mixed     bool     // ToStaticTTL on a random half of the commands: DoMultiCache batches mix tagged and untagged members
	adapter   bool     // NewSimpleCacheAdapter store
	multiplex int
	readers   int
	ops       int
	kills     bool
	seed      int64
}

type hit struct {
	call  string
	key   string
	cmd   string // identity of the cached command (what the store keys the entry by, next to the key)
	value string
	inv   map[int64]int  // invalidations processed per connection when the call started
	dead  map[int64]bool // connections known lost when the call started
	cfg   string
}

// rcmd is one generated cached read.
type rcmd struct {
	c       rueidis.Cacheable
	id      string // what the client keys the cache entry by, next to the key; GET and the members of MGET share "GET"
	skip    int    // leading bytes of the stored value the command does not return
	tagged  bool   // ToStaticTTL
	inMixed bool   // member of a DoMultiCache batch holding tagged and untagged commands
}

type mapCache struct {
	mu sync.Mutex
	m  map[string]rueidis.RedisMessage
}

func (c *mapCache) Get(k string) rueidis.RedisMessage {
	c.mu.Lock()
	defer c.mu.Unlock()
	return c.m[k]
}
func (c *mapCache) Set(k string, v rueidis.RedisMessage) { c.mu.Lock(); c.m[k] = v; c.mu.Unlock() }
func (c *mapCache) Del(k string)                         { c.mu.Lock(); delete(c.m, k); c.mu.Unlock() }
func (c *mapCache) Flush()                               { c.mu.Lock(); c.m = map[string]rueidis.RedisMessage{}; c.mu.Unlock() }

type monitor struct {
	mu   sync.Mutex
	inv  map[int64]int
	dead map[int64]bool
}

func (m *monitor) snapshot() (map[int64]int, map[int64]bool) {
	m.mu.Lock()
	defer m.mu.Unlock()
	a := make(map[int64]int, len(m.inv))
	for k, v := range m.inv {
		a[k] = v
	}
	b := make(map[int64]bool, len(m.dead))
	for k, v := range m.dead {
		b[k] = v
	}
	return a, b
}

func runConfig(run *mon.Run, cfg config) {
	srv := fakeredis.New(fakeredis.Options{Seed: cfg.seed, ChunkWrites: true}, addr)
	m := &monitor{inv: map[int64]int{}, dead: map[int64]bool{}}
	rueidis.VerifSetHook(func(point string, args ...any) {
		switch point {
		case "push.invalidated":
			if c, ok := args[0].(net.Conn); ok {
				m.mu.Lock()
				m.inv[fakeredis.ConnID(c)]++
				m.mu.Unlock()
			}
		case "conn.disconnected":
			if c, ok := args[0].(net.Conn); ok {
				m.mu.Lock()
				m.dead[fakeredis.ConnID(c)] = true
				m.mu.Unlock()
			}
		}
	})
	defer rueidis.VerifSetHook(nil)
	opt := drv.Option(srv, addr)
	opt.ForceSingleClient = true
	opt.PipelineMultiplex = cfg.multiplex
	opt.ClientTrackingOptions = cfg.tracking
	if cfg.adapter {
		opt.NewCacheStoreFn = func(rueidis.CacheStoreOption) rueidis.CacheStore {
			return rueidis.NewSimpleCacheAdapter(&mapCache{m: map[string]rueidis.RedisMessage{}})
		}
	}
	client, err := rueidis.NewClient(opt)
	if err != nil {
		run.Inconclusive("client setup: " + err.Error())
		srv.Close()
		return
	}
	node := srv.Node(addr)
	const nkeys = 5
	key := func(i int) string { return fmt.Sprintf("k%d", i) }
	var version atomic.Int64
	write := func(i int) {
		v := version.Add(1)
		if v%11 == 0 {
			node.Exec("SET", key(i), fmt.Sprintf("%s:%d", key(i), v), "PX", "3") // server-driven expiry invalidates too
		} else {
			node.Exec("SET", key(i), fmt.Sprintf("%s:%d", key(i), v))
		}
	}
	for i := 0; i < nkeys; i++ {
		write(i)
	}
	stop := make(chan struct{})
	var bg sync.WaitGroup
	bg.Add(1)
	go func() { // writers, flushes, connection kills
		defer bg.Done()
		rng := run.Rand(cfg.name + "/writer")
		for n := 1; ; n++ {
			select {
			case <-stop:
				return
			default:
			}
			switch {
			case n%97 == 0:
				node.Exec("FLUSHALL")
				for i := 0; i < nkeys; i++ {
					write(i)
				}
			case cfg.kills && n%211 == 0:
				if ids := srv.Conns(addr); len(ids) > 0 {
					srv.Kill(ids[rng.Intn(len(ids))])
				}
			case n%53 == 0:
				node.EvictHint(key(rng.Intn(nkeys)))
			default:
				write(rng.Intn(nkeys))
			}
			time.Sleep(time.Duration(50+rng.Intn(300)) * time.Microsecond)
		}
	}()

	var variant atomic.Int64
	var hitsMu sync.Mutex
	var hits []hit
	var calls, hitCount, missCount, errCount atomic.Int64
	// values that a ToStaticTTL-tagged member of a mixed batch fetched over the wire itself (it was neither a hit nor
	// a waiter of somebody else's fetch): the entries later hits are served from were committed by that batch
	mixedFills := map[string]bool{} // guarded by hitsMu
	// key + command -> the last fetch of that entry this driver saw complete was such a member's; a hit (whatever it
	// carries) recorded while this is set was, as far as the callers can tell, served from the entry that batch committed
	lastFillMixed := map[string]bool{} // guarded by hitsMu
	var mixedBatches, mixedTaggedFetched, hitsAfterMixedFill atomic.Int64
	record := func(call, k string, cm rcmd, msg rueidis.RedisMessage, inv map[int64]int, dead map[int64]bool) {
		if msg.IsNil() || msg.Error() != nil {
			return
		}
		if msg.IsCacheHit() {
			hitsMu.Lock()
			if lastFillMixed[k+"\x00"+cm.id] {
				hitsAfterMixedFill.Add(1)
			}
			hitsMu.Unlock()
		}
		s, err := msg.ToString()
		if err != nil {
			// every command of this driver is answered with a string or a null by the server
			if msg.IsCacheHit() {
				hitCount.Add(1)
				run.Violation("hit-not-a-server-reply", call+"|"+cfg.name, map[string]any{"config": cfg.name, "call": call, "key": k, "command": cm.id, "tagged_static": cm.tagged, "got": msg.String()})
			}
			return
		}
		if s == "" {
			return // GETRANGE of a key that does not exist (just flushed or expired) answers an empty string
		}
		if !strings.HasPrefix(s, k[cm.skip:]+":") {
			class, key := "foreign-value", call
			if msg.IsCacheHit() {
				// a hit that is not even a value of the key: say which store / tagging produced it
				class, key = "hit-not-a-server-reply", call+"|"+cfg.name
			}
			run.Violation(class, key, map[string]any{"config": cfg.name, "key": k, "command": cm.id, "tagged_static": cm.tagged, "in_mixed_batch": cm.inMixed, "cache_hit": msg.IsCacheHit(), "got": s})
			return
		}
		if msg.IsCacheHit() {
			hitCount.Add(1)
			hitsMu.Lock()
			hits = append(hits, hit{call: call, key: k, cmd: cm.id, value: s, inv: inv, dead: dead, cfg: cfg.name})
			hitsMu.Unlock()
		} else {
			missCount.Add(1)
			hitsMu.Lock()
			lastFillMixed[k+"\x00"+cm.id] = cm.inMixed && cm.tagged
			if cm.inMixed && cm.tagged {
				mixedTaggedFetched.Add(1)
				mixedFills[cm.id+"\x00"+s] = true
			}
			hitsMu.Unlock()
		}
	}
	// some fetches are slow to start, so that invalidations arrive while cache entries are still pending
	srv.Plan(&fakeredis.Rule{Name: "slow-fetch", Match: func(_ *fakeredis.Conn, a []string) bool {
		return len(a) > 0 && a[0] == "CLIENT" && len(a) > 1 && a[1] == "CACHING" && version.Load()%7 == 0
	}, Action: fakeredis.Action{DelayBefore: 300 * time.Microsecond}})
	// four different cacheable commands read every key (the store keeps one entry per command under the key); the last
	// one answers differently from the others, so a hit served from another command's entry does not pass for its own
	get := func(k string, rng interface{ Intn(int) int }) rcmd {
		var cm rcmd
		switch variant.Add(1) % 4 {
		case 0:
			cm = rcmd{c: client.B().Get().Key(k).Cache(), id: "GET"}
		case 1:
			cm = rcmd{c: client.B().Getrange().Key(k).Start(0).End(-1).Cache(), id: "GETRANGE|0|-1"}
		case 2:
			cm = rcmd{c: client.B().Getrange().Key(k).Start(0).End(4000).Cache(), id: "GETRANGE|0|4000"}
		default:
			cm = rcmd{c: client.B().Getrange().Key(k).Start(1).End(-1).Cache(), id: "GETRANGE|1|-1", skip: 1}
		}
		if cfg.static || (cfg.mixed && rng.Intn(2) == 0) {
			cm.c, cm.tagged = cm.c.ToStaticTTL(), true
		}
		return cm
	}
	mget := rcmd{id: "GET"}
	var wg sync.WaitGroup
	for r := 0; r < cfg.readers; r++ {
		wg.Add(1)
		go func(r int) {
			defer wg.Done()
			rng := run.Rand(fmt.Sprintf("%s/reader%d", cfg.name, r))
			ctx := context.Background()
			for op := 0; op < cfg.ops; op++ {
				calls.Add(1)
				inv, dead := m.snapshot()
				switch k := rng.Intn(10); {
				case k < 5:
					kk := key(rng.Intn(nkeys))
					cm := get(kk, rng)
					res := client.DoCache(ctx, cm.c, time.Minute)
					if msg, err := res.ToMessage(); err == nil {
						record("DoCache", kk, cm, msg, inv, dead)
					} else if !rueidis.IsRedisNil(err) {
						errCount.Add(1)
					}
				case k < 7:
					n := 1 + rng.Intn(4)
					cts := make([]rueidis.CacheableTTL, n)
					ks := make([]string, n)
					cms := make([]rcmd, n)
					tagged := 0
					for i := range cts {
						ks[i] = key(rng.Intn(nkeys))
						cms[i] = get(ks[i], rng)
						cts[i] = rueidis.CT(cms[i].c, time.Minute)
						if cms[i].tagged {
							tagged++
						}
					}
					if tagged > 0 && tagged < n {
						mixedBatches.Add(1)
						for i := range cms {
							cms[i].inMixed = true
						}
					}
					for i, res := range client.DoMultiCache(ctx, cts...) {
						if msg, err := res.ToMessage(); err == nil {
							record("DoMultiCache", ks[i], cms[i], msg, inv, dead)
						} else if !rueidis.IsRedisNil(err) {
							errCount.Add(1)
						}
					}
				case k < 9:
					n := 1 + rng.Intn(4)
					ks := make([]string, n)
					for i := range ks {
						ks[i] = key(rng.Intn(nkeys))
					}
					ret, err := rueidis.MGetCache(client, ctx, time.Minute, ks)
					if err != nil {
						errCount.Add(1)
					}
					for kk, msg := range ret {
						record("MGetCache", kk, mget, msg, inv, dead)
					}
				default:
					ks := []string{key(rng.Intn(nkeys)), key(rng.Intn(nkeys))}
					arr, err := client.DoCache(ctx, client.B().Mget().Key(ks...).Cache(), time.Minute).ToArray()
					if err != nil {
						errCount.Add(1)
					}
					for i, msg := range arr {
						if i < len(ks) {
							record("DoCache-MGET", ks[i], mget, msg, inv, dead)
						}
					}
				}
			}
		}(r)
	}
	wg.Wait()
	close(stop)
	bg.Wait()
	client.Close()
	srv.Close()

	// ---- offline check of every hit against the server's wire order (DESIGN appendix A.2)
	type cand struct {
		conn int64
		seq  int64
	}
	type push struct {
		seq  int64
		null bool
		keys map[string]bool
	}
	cands := map[string][]cand{} // command identity + value -> replies of that command carrying it (connection, wire position)
	pushes := map[int64][]push{}
	for _, ev := range srv.Log() {
		switch ev.Kind {
		case "exec":
			if ev.Conn == 0 || len(ev.Argv) < 2 {
				continue
			}
			switch strings.ToUpper(ev.Argv[0]) {
			case "GET", "GETRANGE":
				if ev.Reply.T == '$' && !ev.Reply.Null2 {
					id := "GET"
					if len(ev.Argv) == 4 {
						id = "GETRANGE|" + ev.Argv[2] + "|" + ev.Argv[3]
					}
					cands[id+"\x00"+ev.Reply.S] = append(cands[id+"\x00"+ev.Reply.S], cand{ev.Conn, ev.Seq})
				}
			case "MGET":
				for _, e := range ev.Reply.A {
					if e.T == '$' && !e.Null2 {
						cands["GET\x00"+e.S] = append(cands["GET\x00"+e.S], cand{ev.Conn, ev.Seq})
					}
				}
			}
		case "push":
			if len(ev.Reply.A) == 2 && ev.Reply.A[0].S == "invalidate" {
				p := push{seq: ev.Seq, keys: map[string]bool{}}
				if ev.Reply.A[1].IsNull() {
					p.null = true
				}
				for _, k := range ev.Reply.A[1].A {
					p.keys[k.S] = true
				}
				pushes[ev.Conn] = append(pushes[ev.Conn], p)
			}
		}
	}
	var totalPush int
	for _, ps := range pushes {
		totalPush += len(ps)
	}
	// the server's view of one stale hit: what happened to that key on the candidate's connection from the reply on
	trace := func(h hit, cs []cand) []string {
		var out []string
		if len(cs) == 0 {
			return out
		}
		c := cs[len(cs)-1]
		for _, ev := range srv.Log() {
			if ev.Conn != c.conn || ev.Seq < c.seq-40 || len(out) >= 60 {
				continue
			}
			switch ev.Kind {
			case "exec", "recv":
				if strings.Contains(strings.Join(ev.Argv, " "), h.key) || (len(ev.Argv) > 0 && (ev.Argv[0] == "EXEC" || ev.Argv[0] == "MULTI" || ev.Argv[0] == "CLIENT")) {
					out = append(out, fmt.Sprintf("%d %s %v -> %.40s", ev.Seq, ev.Kind, ev.Argv, ev.Reply.String()))
				}
			case "push":
				out = append(out, fmt.Sprintf("%d push %.60s", ev.Seq, ev.Reply.String()))
			}
		}
		return out
	}
	stale := 0
	var mixedFillHits int64
	for _, h := range hits {
		cs := cands[h.cmd+"\x00"+h.value]
		if len(cs) == 0 {
			run.Violation("hit-not-a-server-reply", h.call+"|"+cfg.name, map[string]any{"config": cfg.name, "call": h.call, "key": h.key, "command": h.cmd, "value": h.value})
			continue
		}
		if mixedFills[h.cmd+"\x00"+h.value] {
			mixedFillHits++
		}
		ok := false
		var why []string
		for _, c := range cs {
			if h.dead[c.conn] {
				why = append(why, fmt.Sprintf("conn %d was already lost", c.conn))
				continue
			}
			last := int64(-1)
			ps := pushes[c.conn]
			n := h.inv[c.conn]
			if n > len(ps) {
				n = len(ps)
			}
			for _, p := range ps[:n] {
				if p.null || p.keys[h.key] {
					last = p.seq
				}
			}
			if c.seq > last {
				ok = true
				break
			}
			why = append(why, fmt.Sprintf("conn %d: reply at wire position %d, invalidation at %d was processed before the call started", c.conn, c.seq, last))
		}
		if !ok {
			stale++
			run.Violation("stale-hit-after-invalidation", h.call+"|"+cfg.name, map[string]any{"config": cfg.name, "call": h.call, "key": h.key, "command": h.cmd, "value": h.value, "candidates": why, "trace": trace(h, cs)})
		}
	}
	run.Observe("cached_calls", calls.Load())
	run.Observe("hits_checked", hitCount.Load())
	run.Observe("misses", missCount.Load())
	run.Observe("call_errors", errCount.Load())
	store := "lru"
	if cfg.adapter {
		store = "adapter"
	}
	run.Observe("multicache_batches_mixing_static_and_plain_"+store, mixedBatches.Load())
	run.Observe("mixed_batch_static_members_fetched_on_wire_"+store, mixedTaggedFetched.Load())
	run.Observe("hits_on_values_fetched_by_static_member_of_mixed_batch_"+store, mixedFillHits)
	run.Observe("hits_following_fetch_by_static_member_of_mixed_batch_"+store, hitsAfterMixedFill.Load())
	run.Observe("invalidation_pushes_on_wire", int64(totalPush))
	m.mu.Lock()
	processed, lost := 0, 0
	for _, n := range m.inv {
		processed += n
	}
	for range m.dead {
		lost++
	}
	m.mu.Unlock()
	run.Observe("invalidations_processed_by_client", int64(processed))
	run.Observe("connections_lost", int64(lost))
	run.Case(fmt.Sprintf("%s|hits=%d|stale=%d", cfg.name, hitCount.Load(), stale), hitCount.Load() > 0 && processed > 0)
	run.Sample(map[string]any{"config": fmt.Sprintf("%+v", cfg), "calls": calls.Load(), "hits": hitCount.Load(), "misses": missCount.Load(), "invalidation_pushes": totalPush, "processed": processed, "connections_lost": lost})
}

// C06: cached replies are never served after their invalidation.
func TestC06(t *testing.T) {
	run := mon.Start(t, "C06", "exploration",
		"4-16 readers (DoCache GET, DoMultiCache, MGetCache, DoCache MGET) on 5 keys against writers storing a unique version per write, FLUSHALL, server-side expiry, tracking-table evictions and connection kills; tracking modes OPTIN / OPTOUT / BCAST, static TTL on all commands or on a random half (so DoMultiCache batches mix ToStaticTTL-tagged and plain members), built-in store and NewSimpleCacheAdapter, 1-4 multiplexed wires; four cacheable commands per key, one of which answers differently from the others; "+
			"client hooks count processed invalidations and disconnects per connection, each call snapshots them at its start, every hit is checked offline against the server's wire order: its value must be a reply the server sent to exactly that command (GET and MGET members share entries) on a live connection placed after the last covering invalidation the client had processed when the call started; "+
			"a case is one configuration with hits and processed invalidations")
	defer run.Finish()
	run.Assume("fakeredis queues a reply at execution time and invalidation pushes at the writer's execution time, as Redis does, so log order is wire order per connection", "values are unique per write", "Go race detector on")
	storeWindow(run)
	readers, ops := 8, 400
	if !run.Quick() {
		readers, ops = 16, 6000
	}
	cfgs := []config{
		{name: "optin-lru", multiplex: -1, readers: readers, ops: ops},
		{name: "optin-lru-kills", multiplex: -1, readers: readers, ops: ops, kills: true},
		{name: "optin-lru-mux4", multiplex: 2, readers: readers, ops: ops, kills: true},
		{name: "optout-lru", tracking: []string{"OPTOUT"}, multiplex: -1, readers: readers, ops: ops},
		{name: "bcast-lru", tracking: []string{"BCAST"}, multiplex: 1, readers: readers, ops: ops, kills: true},
		{name: "optin-static", static: true, multiplex: -1, readers: readers, ops: ops, kills: true},
		{name: "optin-adapter", adapter: true, multiplex: -1, readers: readers, ops: ops, kills: true},
		{name: "bcast-adapter-static", tracking: []string{"BCAST"}, adapter: true, static: true, multiplex: 1, readers: readers, ops: ops},
		{name: "optin-lru-2readers", multiplex: -1, readers: 2, ops: ops * 3},
		{name: "optin-adapter-mixed", adapter: true, mixed: true, multiplex: -1, readers: readers, ops: ops, kills: true},
		{name: "bcast-lru-mixed", tracking: []string{"BCAST"}, mixed: true, multiplex: 1, readers: readers, ops: ops},
	}
	only := os.Getenv("VERIF_C06_ONLY") // debugging aid: run the named configurations only (never set by check.sh)
	for i, cfg := range cfgs {
		if only != "" && !strings.Contains(","+only+",", ","+cfg.name+",") {
			continue
		}
		if n, _ := strconv.Atoi(os.Getenv("VERIF_C06_OPS")); n > 0 {
			cfg.ops = n
		}
		cfg.seed = run.Seed*100 + int64(i)
		runConfig(run, cfg)
	}
	run.Require("store_window_second_fetch_registered_next_to_stored_reply", "hits_checked", "invalidations_processed_by_client", "invalidation_pushes_on_wire", "connections_lost",
		"mixed_batch_static_members_fetched_on_wire_adapter", "hits_following_fetch_by_static_member_of_mixed_batch_adapter",
		"mixed_batch_static_members_fetched_on_wire_lru", "hits_following_fetch_by_static_member_of_mixed_batch_lru")
	_ = drv.Tail
}
