//go:build verif

package c06

import (
	"fmt"
	"sync"
	"time"

	"github.com/redis/rueidis"
	"verifh/mon"
)

// storeWindow drives a NewSimpleCacheAdapter store directly, in the order one connection produces (one reader applying
// replies and invalidations in wire order, callers asking for flights), through the window in which a caller has found
// neither a stored reply nor a pending fetch but has not registered its own fetch yet (hook adapter.flight.upgrade):
//
//	caller A: Flight(k, cmd): miss, no fetch pending ... held at the hook
//	caller O: Flight(k, cmd): owner of a new fetch; reader: Update(k, cmd, v1) stores v1
//	caller A released: registers a second fetch (v1 is in the store, a fetch is pending)
//	reader: Delete(k) - the invalidation of v1
//	caller B: Flight(k, cmd) must not be a hit with v1
//
// (also with the second fetch failing before the invalidation arrives: v1 is then legitimately served until it is invalidated)
//
// Variation: number of commands per key, which of them is in the window, whether A's fetch completes (with the newer
// value v2) or is cancelled before B asks, per-key and flush invalidations.
func storeWindow(run *mon.Run) {
	str := func(s string) rueidis.RedisMessage { return rueidis.VerifBuild(rueidis.VerifNode{Typ: '$', Str: s}) }
	rng := run.Rand("store-window")
	n := run.N(60, 2000)
	for i := 0; i < n; i++ {
		ncmds := 1 + rng.Intn(3)
		target := rng.Intn(ncmds)
		flush := rng.Intn(4) == 0
		end := rng.Intn(4) // 0: B asks while A's fetch is pending, 1: after A's fetch stored v2, 2: after A's fetch was cancelled, 3: A's fetch was cancelled BEFORE the invalidation
		store := rueidis.NewSimpleCacheAdapter(&mapCache{m: map[string]rueidis.RedisMessage{}})
		key := fmt.Sprintf("k%d", i)
		cmd := func(j int) string { return fmt.Sprintf("CMD%d", j) }
		now := time.Now()
		held, release := make(chan struct{}), make(chan struct{})
		var once sync.Once
		rueidis.VerifSetHook(func(point string, args ...any) {
			if point == "adapter.flight.upgrade" && len(args) == 3 && args[1] == key && args[2] == cmd(target) {
				first := false
				once.Do(func() { first = true })
				if first {
					close(held)
					<-release
				}
			}
		})
		// other commands of the key are simply cached
		for j := 0; j < ncmds; j++ {
			if j != target {
				if _, e := store.Flight(key, cmd(j), time.Minute, now); e == nil {
					store.Update(key, cmd(j), str(fmt.Sprintf("v1:%d", j)))
				}
			}
		}
		aDone := make(chan rueidis.CacheEntry, 1)
		go func() { // caller A
			_, e := store.Flight(key, cmd(target), time.Minute, now)
			aDone <- e
		}()
		<-held
		// caller O fetches and the reader stores v1 (O finds no pending fetch: A has not registered yet)
		if v, e := store.Flight(key, cmd(target), time.Minute, now); e != nil || rueidis.VerifDump(v).Typ != 0 {
			rueidis.VerifSetHook(nil)
			run.Inconclusive("store window: the second caller did not become the owner of a fetch")
			close(release)
			<-aDone
			continue
		}
		store.Update(key, cmd(target), str("v1"))
		close(release)
		aEntry := <-aDone
		rueidis.VerifSetHook(nil)
		if aEntry == nil {
			run.Observe("store_window_second_fetch_registered_next_to_stored_reply", 1)
		} else {
			run.Observe("store_window_caller_joined_a_pending_fetch", 1)
		}
		if end == 3 { // the second fetch fails first (timeout, cancelled context, aborted EXEC); v1 stays cached until it is invalidated
			store.Cancel(key, cmd(target), fmt.Errorf("cancelled"))
			if v, _ := store.Flight(key, cmd(target), time.Minute, now); rueidis.VerifDump(v).Str == "v1" {
				run.Observe("store_window_stored_reply_served_after_failed_second_fetch", 1)
			}
		}
		// the invalidation of v1, in wire order after its reply
		if flush {
			store.Delete(nil)
		} else {
			store.Delete([]rueidis.RedisMessage{str(key)})
		}
		want := ""
		switch end {
		case 1:
			store.Update(key, cmd(target), str("v2"))
			want = "v2"
		case 2:
			store.Cancel(key, cmd(target), fmt.Errorf("cancelled"))
		}
		run.Case(fmt.Sprintf("store-window/cmds=%d/flush=%v/end=%d/second-fetch=%v", ncmds, flush, end, aEntry == nil), true)
		for j := 0; j < ncmds; j++ {
			v, _ := store.Flight(key, cmd(j), time.Minute, now)
			d := rueidis.VerifDump(v)
			run.Observe("store_window_flights_after_invalidation", 1)
			if d.Typ == 0 {
				continue // a miss or a pending fetch: nothing is served from before the invalidation
			}
			if j == target && want != "" && d.Str == want {
				continue
			}
			run.Violation("stale-hit-after-invalidation", fmt.Sprintf("store-window|adapter|flush=%v|fetch-pending-at-invalidation=%v|end=%d", flush, j == target, end),
				map[string]any{"key": key, "cmd": cmd(j), "got": d.Str, "stored_before_the_invalidation": j != target || d.Str == "v1", "commands_of_key": ncmds})
		}
	}
}
