// Package c27 checks property C27: invalidation callbacks observe exactly the
// server's invalidations.
//
// Every scenario is one short history inside a synctest bubble (virtual time:
// "everything queued has been processed" is decided by the bubble settling, not
// by a wall clock). The real client talks to fakeredis; ground truth is the
// server's log of invalidate pushes per connection.
package c27

import (
	"context"
	"fmt"
	"sort"
	"strings"
	"sync"
	"sync/atomic"
	"testing"
	"time"

	"github.com/redis/rueidis"
	"verifh/drv"
	"verifh/fakeredis"
	"verifh/mon"
	"verifh/resp"
)

const addr = "127.0.0.1:6379"

// cbLog is the ordered list of callback invocations: "nil" or "k1,k2".
type cbLog struct {
	mu  sync.Mutex
	seq []string
}

func (l *cbLog) fn(ms []rueidis.RedisMessage) {
	s := "nil"
	if ms != nil {
		ks := make([]string, len(ms))
		for i, m := range ms {
			ks[i], _ = m.ToString()
		}
		s = strings.Join(ks, ",")
	}
	l.mu.Lock()
	l.seq = append(l.seq, s)
	l.mu.Unlock()
}

func (l *cbLog) snap() []string {
	l.mu.Lock()
	defer l.mu.Unlock()
	return append([]string(nil), l.seq...)
}

type push struct {
	seq int64
	s   string
}

// pushesOf extracts the invalidate pushes the server queued on connection id, in wire order.
func pushesOf(log []fakeredis.Event, id int64) []push {
	var out []push
	for _, e := range log {
		if e.Conn != id || e.Kind != "push" || len(e.Reply.A) < 2 || e.Reply.A[0].S != "invalidate" {
			continue
		}
		v := e.Reply.A[1]
		if v.IsNull() {
			out = append(out, push{e.Seq, "nil"})
			continue
		}
		ks := make([]string, len(v.A))
		for i, k := range v.A {
			ks[i] = k.S
		}
		out = append(out, push{e.Seq, strings.Join(ks, ",")})
	}
	return out
}

func strs(ps []push) []string {
	out := make([]string, len(ps))
	for i, p := range ps {
		out[i] = p.s
	}
	return out
}

// connSpec is what one connection may have contributed to a callback log:
// must (a prefix length of seq that has to be there), seq (everything it may contribute, in order),
// followed by between nilMin and nilMax disconnect notifications.
type connSpec struct {
	id           int64
	seq          []string
	must         int
	nilMin, nilMax int
}

// isShuffle decides whether got is an interleaving of one admissible sequence per connection:
// for each connection a prefix of seq of length >= must, followed by nilMin..nilMax "nil".
func isShuffle(got []string, specs []connSpec) bool {
	type key string
	memo := map[key]bool{}
	// state per conn: position in seq (0..len), or len+1+j = j nils emitted after stopping the prefix
	var rec func(gi int, st []int) bool
	rec = func(gi int, st []int) bool {
		k := key(fmt.Sprint(gi, st))
		if v, ok := memo[k]; ok {
			return v
		}
		res := false
		if gi == len(got) {
			res = true
			for i, sp := range specs {
				p, nils := decode(st[i], sp)
				if p < sp.must || nils < sp.nilMin {
					res = false
				}
			}
			memo[k] = res
			return res
		}
		g := got[gi]
		for i, sp := range specs {
			p, nils := decode(st[i], sp)
			started := st[i] < 0
			// take the next push of the prefix
			if !started && p < len(sp.seq) && sp.seq[p] == g {
				st[i]++
				ok := rec(gi+1, st)
				st[i]--
				if ok {
					res = true
					break
				}
			}
			// take a disconnect nil (only once the mandatory part is in)
			if g == "nil" && p >= sp.must && nils < sp.nilMax {
				old := st[i]
				st[i] = -(p*16 + nils + 1 + 1) // encode (p, nils+1) as negative
				ok := rec(gi+1, st)
				st[i] = old
				if ok {
					res = true
					break
				}
			}
		}
		memo[k] = res
		return res
	}
	return rec(0, make([]int, len(specs)))
}

func decode(st int, sp connSpec) (p, nils int) {
	if st >= 0 {
		return st, 0
	}
	v := -st - 1
	return v / 16, v % 16
}

type scenario struct {
	idx      int
	mode     string // optin | bcast | prefix | optout
	holder   string // shared | dedicated | both
	end      string // kill | killbusy | release | close
	queue    string
	chunk    bool
	mux      int
	ops      int
	noCache  bool // DisableCache: the dedicated session turns tracking on itself
	rehook   bool // the dedicated holder calls SetPubSubHooks after SetOnInvalidations, before it releases the client
	seed     int64
}

func (sc scenario) String() string {
	return fmt.Sprintf("#%d mode=%s holder=%s end=%s queue=%s chunk=%v mux=%d ops=%d nocache=%v", sc.idx, sc.mode, sc.holder, sc.end, sc.queue, sc.chunk, sc.mux, sc.ops, sc.noCache) + fmt.Sprintf(" rehook=%v", sc.rehook)
}

func trackingOptions(mode string) []string {
	switch mode {
	case "bcast":
		return []string{"BCAST"}
	case "prefix":
		return []string{"BCAST", "PREFIX", "k", "PREFIX", "m"}
	case "optout":
		return []string{"OPTOUT"}
	}
	return nil // rueidis default: OPTIN
}

type result struct {
	pushes, multi, nils, expires, cbCalls int
	reuseChecked, killNil                 int
	sharedConns, dedConns                 int
	fp                                    string
	nontrivial                            bool
}

func diffNew(before, after []int64) []int64 {
	m := map[int64]bool{}
	for _, b := range before {
		m[b] = true
	}
	var out []int64
	for _, a := range after {
		if !m[a] {
			out = append(out, a)
		}
	}
	return out
}

func runScenario(run *mon.Run, sc scenario) (res result) {
	rng := run.Rand(fmt.Sprintf("scenario-%d", sc.idx))
	rueidis.VerifSetQueueType(sc.queue)
	defer rueidis.VerifSetQueueType("")
	s := fakeredis.New(fakeredis.Options{Seed: sc.seed, ChunkWrites: sc.chunk}, addr)
	defer s.Close()
	node := s.Node(addr)

	global := &cbLog{}
	opt := drv.Option(s, addr)
	opt.ForceSingleClient = true
	opt.DisableRetry = true
	opt.PipelineMultiplex = sc.mux
	opt.BlockingPoolSize = 2
	opt.ClientTrackingOptions = trackingOptions(sc.mode)
	opt.DisableCache = sc.noCache
	if sc.holder != "dedicated" {
		opt.OnInvalidations = global.fn
	}
	client, err := rueidis.NewClient(opt)
	if err != nil {
		run.Inconclusive("client setup failed: " + err.Error())
		return
	}
	closed := false
	defer func() {
		if !closed {
			client.Close()
		}
	}()
	ctx := context.Background()
	wit := func(extra map[string]any) map[string]any {
		m := map[string]any{"scenario": sc.String()}
		for k, v := range extra {
			m[k] = v
		}
		return m
	}

	keys := []string{"k0", "k1", "k2", "k3", "m0", "m1", "x0", "x1"}
	var uidn atomic.Int64
	uid := func() string { return fmt.Sprintf("u%d.%d", sc.idx, uidn.Add(1)) }
	echo := func(c rueidis.CommandClient) {
		u := uid()
		got, err := c.Do(ctx, c.B().Arbitrary("VERIF.ECHO").Keys("e").Args(u, "str").Build()).ToString()
		if err == nil && got != "echo:"+u {
			run.Violation("wrong-reply", "echo-next-to-invalidations", wit(map[string]any{"uid": u, "got": got}))
		}
	}
	// make every multiplexed shared wire exist, so connection ids are known
	for i := 0; i < 200 && sc.mux > 0 && len(s.Conns(addr)) < 1<<sc.mux; i++ {
		echo(client)
	}
	sharedIDs := s.Conns(addr)
	sharedSet := map[int64]bool{}
	for _, id := range sharedIDs {
		sharedSet[id] = true
	}

	// dedicated holder
	var dc rueidis.DedicatedClient
	var release func()
	var dedID int64
	var hookCh <-chan error
	hook := &cbLog{}
	var tBeforeSet, tAfterSet int64
	if sc.holder != "shared" {
		before := s.Conns(addr)
		dc, release = client.Dedicate()
		tBeforeSet = mon.Stamp()
		hookCh = dc.SetOnInvalidations(hook.fn)
		tAfterSet = mon.Stamp()
		if sc.noCache {
			args := append([]string{"TRACKING", "ON"}, trackingOptions(sc.mode)...)
			if err := dc.Do(ctx, dc.B().Arbitrary("CLIENT").Args(args...).Build()).Error(); err != nil {
				run.Inconclusive("CLIENT TRACKING ON failed: " + err.Error())
			}
		} else {
			echo(dc)
		}
		nw := diffNew(before, s.Conns(addr))
		if len(nw) != 1 {
			run.Inconclusive(fmt.Sprintf("could not identify the dedicated connection (%d new)", len(nw)))
			release()
			return
		}
		dedID = nw[0]
	}

	read := func(k string) {
		// make the server remember k for the reading connection (OPTIN needs CLIENT CACHING YES; rueidis's DoCache does that)
		if sc.holder != "dedicated" && !sc.noCache {
			client.DoCache(ctx, client.B().Get().Key(k).Cache(), time.Minute)
		}
		if dc != nil {
			switch sc.mode {
			case "optin":
				dc.DoMulti(ctx, dc.B().Arbitrary("CLIENT").Args("CACHING", "YES").Build(), dc.B().Get().Key(k).Build())
			default:
				dc.Do(ctx, dc.B().Get().Key(k).Build())
			}
		}
	}
	vn := 0
	write := func(k string) {
		vn++
		switch rng.Intn(6) {
		case 0:
			node.Exec("DEL", k)
		case 1:
			node.Exec("SET", k, fmt.Sprint("v", vn), "PX", fmt.Sprint(5+rng.Intn(300)))
		case 2:
			node.Exec("INCRBY", "n"+k, "1")
			node.Exec("SET", k, fmt.Sprint("v", vn))
		default:
			node.Exec("SET", k, fmt.Sprint("v", vn))
		}
	}
	injected := 0
	inject := func(c rueidis.CommandClient) {
		// a multi-key (or empty-list, or flush) invalidation pushed around the reply of one command
		u := uid()
		n := rng.Intn(4)
		var ks []resp.V
		for i := 0; i < n+1; i++ {
			ks = append(ks, resp.Bulk(fmt.Sprintf("inj%d.%d", injected, i)))
		}
		injected++
		p := resp.Push(resp.Bulk("invalidate"), resp.Arr(ks...))
		if rng.Intn(5) == 0 {
			p = resp.Push(resp.Bulk("invalidate"), resp.Null())
		}
		act := fakeredis.Action{PushBefore: []resp.V{p}}
		if rng.Intn(2) == 0 {
			act = fakeredis.Action{PushAfter: []resp.V{p}}
		}
		if rng.Intn(4) == 0 {
			act.PushBefore = append(act.PushBefore, resp.Push(resp.Bulk("invalidate"), resp.Arr(resp.Bulk(fmt.Sprintf("inj%d.x", injected)))))
		}
		s.Plan(&fakeredis.Rule{Name: "inject", Match: fakeredis.MatchArg(u), Times: 1, Action: act})
		got, err := c.Do(ctx, c.B().Arbitrary("VERIF.ECHO").Keys("e").Args(u, "str").Build()).ToString()
		if err == nil && got != "echo:"+u {
			run.Violation("wrong-reply", "echo-next-to-invalidations", wit(map[string]any{"uid": u, "got": got}))
		}
	}

	step := func() {
		switch r := rng.Intn(20); {
		case r < 5:
			read(keys[rng.Intn(len(keys))])
		case r < 9:
			write(keys[rng.Intn(len(keys))])
		case r < 11:
			// a burst: readers' replies and writers' pushes interleave on the wire
			var wg sync.WaitGroup
			for g := 0; g < 2; g++ {
				wg.Add(1)
				ks := []string{keys[rng.Intn(len(keys))], keys[rng.Intn(len(keys))], keys[rng.Intn(len(keys))]}
				go func() {
					defer wg.Done()
					for _, k := range ks {
						node.Exec("APPEND", k, "x")
					}
				}()
			}
			for g := 0; g < 3; g++ {
				wg.Add(1)
				go func() {
					defer wg.Done()
					if dc != nil && g == 0 {
						echo(dc)
					} else {
						echo(client)
					}
				}()
			}
			for _, k := range keys[:3] {
				read(k)
			}
			wg.Wait()
		case r < 12:
			node.Exec("FLUSHALL")
		case r < 14:
			if dc != nil && rng.Intn(2) == 0 {
				inject(dc)
			} else if sc.holder != "dedicated" {
				inject(client)
			} else {
				inject(dc)
			}
		case r < 16:
			// the connection's own write: its invalidation is queued right behind its reply
			k := keys[rng.Intn(len(keys))]
			if dc != nil && rng.Intn(2) == 0 {
				dc.Do(ctx, dc.B().Set().Key(k).Value("own").Build())
			} else {
				client.Do(ctx, client.B().Set().Key(k).Value("own").Build())
			}
		case r < 18:
			time.Sleep(time.Duration(1+rng.Intn(200)) * time.Millisecond) // virtual: lets PX keys expire
		default:
			if dc != nil {
				echo(dc)
			}
			echo(client)
		}
	}
	for i := 0; i < sc.ops; i++ {
		step()
	}
	time.Sleep(2 * time.Second) // virtual: the bubble settles, every queued frame has been processed, every PX key expired
	tSettled := mon.Stamp()

	// ---- check 1: exact equality before any disconnect
	log1 := s.Log()
	connIDs := func() []int64 {
		m := map[int64]bool{}
		for _, e := range log1 {
			if e.Kind == "accept" {
				m[e.Conn] = true
			}
		}
		var ids []int64
		for id := range m {
			ids = append(ids, id)
		}
		sort.Slice(ids, func(i, j int) bool { return ids[i] < ids[j] })
		return ids
	}
	checkGlobal := func(stage string, log []fakeredis.Event, spec func(id int64, ps []push) connSpec) {
		if opt.OnInvalidations == nil {
			return
		}
		var specs []connSpec
		for _, id := range connIDs() {
			specs = append(specs, spec(id, pushesOf(log, id)))
		}
		got := global.snap()
		if !isShuffle(got, specs) {
			exp := map[string]any{}
			for _, sp := range specs {
				exp[fmt.Sprint("conn", sp.id)] = map[string]any{"pushes": sp.seq, "must": sp.must, "nil_min": sp.nilMin, "nil_max": sp.nilMax}
			}
			run.Violation("callback-sequence-differs", "OnInvalidations|"+stage+"|"+sc.mode, wit(map[string]any{"stage": stage, "callback": got, "server": exp}))
		}
	}
	// hook: the contiguous range of the dedicated connection's pushes between installation and removal
	checkHook := func(stage string, log []fakeredis.Event, tEnd int64, nilMin, nilMax int, prefixOK bool) {
		if dc == nil {
			return
		}
		all := pushesOf(log, dedID)
		var may []push
		must := 0
		skipMax := 0
		for _, p := range all {
			if p.seq < tBeforeSet {
				continue
			}
			may = append(may, p)
			if p.seq < tAfterSet {
				skipMax++
			}
			if p.seq < tEnd {
				must = len(may)
			}
		}
		got := hook.snap()
		ok := false
		for skip := 0; skip <= skipMax && !ok; skip++ {
			sp := connSpec{id: dedID, seq: strs(may[skip:]), must: must - skip, nilMin: nilMin, nilMax: nilMax}
			ok = isShuffle(got, []connSpec{sp})
		}
		if !ok {
			run.Violation("callback-sequence-differs", "SetOnInvalidations|"+stage+"|"+sc.mode, wit(map[string]any{"stage": stage, "callback": got, "server_pushes": strs(may), "must": must, "nil_min": nilMin, "nil_max": nilMax}))
		}
	}
	exact := func(id int64, ps []push) connSpec {
		return connSpec{id: id, seq: strs(ps), must: len(ps)}
	}
	checkGlobal("settled", log1, exact)
	checkHook("settled", log1, tSettled, 0, 0, false)

	// ---- the end of the history
	killed := map[int64]bool{}
	cut := map[int64]int64{} // conn -> stamp before the kill (pushes logged after it may have been cut)
	var tRelease int64
	switch sc.end {
	case "kill", "killbusy":
		var victims []int64
		if dc != nil && (sc.holder == "dedicated" || rng.Intn(2) == 0) {
			victims = append(victims, dedID)
		}
		if sc.holder != "dedicated" && (len(victims) == 0 || rng.Intn(2) == 0) {
			victims = append(victims, sharedIDs[rng.Intn(len(sharedIDs))])
		}
		var wg sync.WaitGroup
		if sc.end == "killbusy" {
			// writers keep producing invalidations while the connection goes away: what was delivered is a prefix
			for _, k := range keys {
				read(k)
			}
			for g := 0; g < 2; g++ {
				wg.Add(1)
				go func() {
					defer wg.Done()
					for i := 0; i < 6; i++ {
						node.Exec("APPEND", keys[(g*3+i)%len(keys)], "y")
					}
				}()
			}
		}
		for _, v := range victims {
			// what the server queued after the last settle point may still sit in its output queue when the connection dies
			cut[v] = tSettled
			if s.Kill(v) {
				killed[v] = true
			}
		}
		wg.Wait()
		time.Sleep(2 * time.Second)
		// life goes on: the shared client reconnects and the new connection has its own pushes
		if sc.holder != "dedicated" {
			for i := 0; i < 6; i++ {
				read(keys[i%len(keys)])
				write(keys[i%len(keys)])
			}
			echo(client)
		}
		time.Sleep(2 * time.Second)
	case "release":
		if dc != nil {
			tRelease = mon.Stamp()
			shape := "callback-installed"
			if sc.rehook {
				// pub/sub hooks installed after the invalidation callback (they replace the whole hook set)
				shape = "callback-replaced-by-later-SetPubSubHooks"
				dc.SetPubSubHooks(rueidis.PubSubHooks{OnMessage: func(rueidis.PubSubMessage) {}})
			}
			release()
			release = nil
			// the next holder of the pooled connection
			u := uid()
			if rng.Intn(2) == 0 {
				client.Do(ctx, client.B().Arbitrary("VERIF.ECHO").Keys("e").Args(u, "str").Blocking())
			} else {
				client.Dedicated(func(d2 rueidis.DedicatedClient) error {
					return d2.Do(ctx, d2.B().Arbitrary("VERIF.ECHO").Keys("e").Args(u, "str").Build()).Error()
				})
			}
			// writes after the release must not reach the released callback as invalidations of that connection
			for i := 0; i < 4; i++ {
				write(keys[i])
			}
			time.Sleep(2 * time.Second)
			// CLIENT TRACKING OFF before any command of the next holder
			var seenOff, seenNext, offBeforeNext bool
			for _, e := range s.Log() {
				if e.Conn != dedID || e.Kind != "recv" || e.Seq < tRelease {
					continue
				}
				if len(e.Argv) == 3 && strings.EqualFold(e.Argv[0], "CLIENT") && strings.EqualFold(e.Argv[1], "TRACKING") && strings.EqualFold(e.Argv[2], "OFF") {
					if !seenNext {
						seenOff = true
					}
				}
				if len(e.Argv) > 2 && e.Argv[2] == u {
					seenNext = true
					offBeforeNext = seenOff
				}
			}
			if seenNext {
				res.reuseChecked++
				if !offBeforeNext {
					run.Violation("tracking-not-turned-off-before-reuse", "release|"+shape+"|"+sc.mode, wit(map[string]any{"conn": dedID, "next_holder_uid": u, "conn_log_after_release": connRecv(s.Log(), dedID, tRelease)}))
				}
				if si, ok := s.Session(dedID); ok && si.Tracking {
					run.Violation("tracking-not-turned-off-before-reuse", "session-state|"+shape+"|"+sc.mode, wit(map[string]any{"conn": dedID, "session": si}))
				}
			}
		}
	}

	// ---- check 2
	log2 := s.Log()
	log1 = log2
	afterEnd := func(id int64, ps []push) connSpec {
		sp := connSpec{id: id, seq: strs(ps), must: len(ps)}
		if killed[id] {
			sp.nilMin, sp.nilMax = 1, 1
			sp.must = 0
			for _, p := range ps {
				if p.seq < cut[id] {
					sp.must++
				}
			}
		}
		return sp
	}
	checkGlobal("after-"+sc.end, log2, afterEnd)
	switch {
	case dc == nil:
	case killed[dedID]:
		checkHook("after-kill", log2, cut[dedID], 1, 1, true)
		res.killNil++
	case sc.end == "release":
		checkHook("after-release", log2, tRelease, 0, 0, false)
	default:
		checkHook("after-"+sc.end, log2, mon.Stamp(), 0, 0, false)
	}
	for id := range killed {
		if sharedSet[id] {
			res.killNil++
		}
	}

	// the SetOnInvalidations channel: at most one error, closed once the callback will not be called anymore
	if dc != nil && (killed[dedID] || sc.end == "release") {
		n := 0
		closedCh := false
	drain:
		for {
			select {
			case e, ok := <-hookCh:
				if !ok {
					closedCh = true
					break drain
				}
				_ = e
				n++
			default:
				break drain
			}
		}
		if !closedCh || n > 1 || (killed[dedID] && n != 1) {
			run.Violation("hook-channel-lifecycle", fmt.Sprintf("SetOnInvalidations|%s|closed=%v|errors=%d", sc.end, closedCh, n), wit(nil))
		}
	}

	if release != nil {
		release()
	}
	client.Close()
	closed = true
	time.Sleep(2 * time.Second)
	// ---- check 3: closing the client may add at most one nil per connection that was still open
	log3 := s.Log()
	log1 = log3
	checkGlobal("after-client-close", log3, func(id int64, ps []push) connSpec {
		sp := afterEnd(id, ps)
		if !killed[id] {
			sp.nilMax = 1
		}
		return sp
	})
	if dc != nil {
		nmin, nmax, tEnd := 0, 1, mon.Stamp()
		if killed[dedID] {
			nmin, nmax, tEnd = 1, 1, cut[dedID]
		}
		if sc.end == "release" {
			nmax, tEnd = 0, tRelease
		}
		checkHook("after-client-close", log3, tEnd, nmin, nmax, killed[dedID])
	}

	// evidence
	for _, id := range connIDs() {
		for _, p := range pushesOf(log3, id) {
			res.pushes++
			if p.s == "nil" {
				res.nils++
			} else if strings.Contains(p.s, ",") {
				res.multi++
			}
		}
	}
	for _, e := range log3 {
		if e.Kind == "expire" {
			res.expires++
		}
	}
	res.cbCalls = len(global.snap()) + len(hook.snap())
	res.sharedConns = len(sharedIDs)
	if dc != nil {
		res.dedConns = 1
	}
	b := func(n int) int {
		switch {
		case n == 0:
			return 0
		case n < 4:
			return 1
		case n < 16:
			return 2
		}
		return 3
	}
	res.fp = fmt.Sprintf("%s|%s|%s|%s|mux%d|nocache=%v|p%d|m%d|n%d|e%d", sc.mode, sc.holder, sc.end, sc.queue, sc.mux, sc.noCache, b(res.pushes), b(res.multi), b(res.nils), b(res.expires))
	res.nontrivial = res.cbCalls > 0 && res.pushes > 0
	return res
}

func connRecv(log []fakeredis.Event, id int64, from int64) []string {
	var out []string
	for _, e := range log {
		if e.Conn == id && e.Kind == "recv" && e.Seq >= from {
			out = append(out, strings.Join(e.Argv, " "))
		}
	}
	return out
}

func TestC27(t *testing.T) {
	run := mon.Start(t, "C27", "exploration",
		"one short history per synctest bubble: tracking mode (OPTIN/BCAST/BCAST+PREFIX/OPTOUT) x callback holder (ClientOption.OnInvalidations on 1-2 shared wires, DedicatedClient.SetOnInvalidations, both) x ending (server kills the connection idle or while writers are producing pushes, release of the dedicated client followed by the next holder, client Close); "+
			"10-40 random steps: cached/tracked reads, writes by a driver connection (SET/DEL/APPEND/SET PX), key expiry in virtual time, FLUSHALL, the connection's own writes, injected multi-key / empty / flush pushes before and after a reply, bursts where replies and pushes interleave, chunked server writes; "+
			"a case is distinct by (mode, holder, ending, queue, multiplex, cache on/off, bucketed counts of pushes / multi-key pushes / flushes / expiries) and non-trivial when the server sent pushes and a callback ran")
	defer run.Finish()
	run.Assume("fakeredis implements the tracking table of DESIGN appendix B and logs a push in the order it reaches the wire",
		"a callback log is compared with the per-connection push logs as an interleaving when several connections feed the same callback (the callback has no connection argument)",
		"a killed connection delivered a prefix of the pushes the server logged for it: all of those logged before the last point at which the bubble had settled (every queued byte consumed), possibly not the ones queued while the kill was racing with writers")
	modes := []string{"optin", "bcast", "prefix", "optout"}
	holders := []string{"shared", "dedicated", "both"}
	ends := []string{"kill", "killbusy", "release", "close"}
	n := run.N(400, 6000)
	rng := run.Rand("scenarios")
	var tot result
	for i := 0; i < n; i++ {
		sc := scenario{idx: i, mode: modes[rng.Intn(len(modes))], holder: holders[i%3], end: ends[(i/3)%4], queue: []string{"flowbuffer", "ring"}[rng.Intn(2)],
			chunk: rng.Intn(2) == 0, mux: []int{-1, -1, 1}[rng.Intn(3)], ops: 10 + rng.Intn(31), seed: run.Seed*100000 + int64(i)}
		if sc.holder == "shared" && sc.end == "release" {
			sc.end = "kill"
		}
		if sc.holder == "dedicated" {
			sc.noCache = rng.Intn(2) == 0
			sc.mux = -1
		}
		sc.rehook = sc.holder != "shared" && sc.end == "release" && rng.Intn(4) == 0
		if sc.mode == "optout" && sc.noCache {
			sc.noCache = false
		}
		var res result
		var pan any
		dl, stacks := drv.Bubble(t, func() {
			defer func() {
				if p := recover(); p != nil {
					pan = p
				}
			}()
			res = runScenario(run, sc)
		})
		if pan != nil {
			run.Violation("panic", fmt.Sprintf("%s|%s|%s", sc.mode, sc.holder, sc.end), map[string]any{"scenario": sc.String(), "panic": fmt.Sprint(pan)})
			continue
		}
		if dl != "" {
			frames := drv.RueidisFrames(stacks)
			if len(frames) > 0 {
				run.Violation("hang-or-leak", fmt.Sprintf("%s|%s|%s", sc.mode, sc.holder, sc.end), map[string]any{"scenario": sc.String(), "synctest": dl, "rueidis_frames": frames, "stacks": drv.Tail(stacks, 12000)})
			} else {
				run.Inconclusive("bubble deadlock without rueidis frames (harness): " + sc.String())
			}
			continue
		}
		run.Case(res.fp, res.nontrivial)
		if i < 4 {
			run.Sample(map[string]any{"scenario": sc.String(), "pushes": res.pushes, "multi_key": res.multi, "flushes": res.nils, "expiries": res.expires, "callback_calls": res.cbCalls})
		}
		tot.pushes += res.pushes
		tot.multi += res.multi
		tot.nils += res.nils
		tot.expires += res.expires
		tot.cbCalls += res.cbCalls
		tot.reuseChecked += res.reuseChecked
		tot.killNil += res.killNil
		tot.dedConns += res.dedConns
		tot.sharedConns += res.sharedConns
	}
	run.Observe("invalidate_pushes_on_wire", int64(tot.pushes))
	run.Observe("multi_key_pushes", int64(tot.multi))
	run.Observe("flush_pushes", int64(tot.nils))
	run.Observe("key_expiries", int64(tot.expires))
	run.Observe("callback_invocations", int64(tot.cbCalls))
	run.Observe("release_then_reuse_checked", int64(tot.reuseChecked))
	run.Observe("killed_connections_checked", int64(tot.killNil))
	run.Observe("dedicated_holders", int64(tot.dedConns))
	run.Require("invalidate_pushes_on_wire", "multi_key_pushes", "flush_pushes", "key_expiries", "callback_invocations", "release_then_reuse_checked", "killed_connections_checked")
}
