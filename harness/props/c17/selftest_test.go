package c17

import (
	"fmt"
	"os"
	"testing"

	"github.com/redis/rueidis"
	"verifh/mon"
)

type fakeTB struct{ errors int }

func (f *fakeTB) Helper()                   {}
func (f *fakeTB) Logf(string, ...any)       {}
func (f *fakeTB) Errorf(string, ...any)     { f.errors++ }
func (f *fakeTB) Fatalf(s string, a ...any) { panic(fmt.Sprintf(s, a...)) }
func (f *fakeTB) Name() string              { return "selftest" }

// TestC17SelfTest wraps the real serializer in small faults; every one must be reported. VERIF_SELFTEST=1 only.
func TestC17SelfTest(t *testing.T) {
	if os.Getenv("VERIF_SELFTEST") == "" {
		t.Skip("VERIF_SELFTEST not set")
	}
	mon.Root = t.TempDir()
	muts := map[string]func(c *codec){
		"": func(c *codec) {},
		"size-forgets-set-elem": func(c *codec) { // CacheSize one short for non-empty sets
			c.size = func(m *rueidis.RedisMessage) int {
				if d := rueidis.VerifDump(*m); d.Typ == '~' && len(d.Values) > 0 {
					return m.CacheSize() - 1
				}
				return m.CacheSize()
			}
		},
		"expiry-bytes-swapped": func(c *codec) {
			c.marshal = func(m *rueidis.RedisMessage, buf []byte) []byte {
				n := len(buf)
				o := m.CacheMarshal(buf)
				o[n+5], o[n+6] = o[n+6], o[n+5]
				return o
			}
		},
		"set-restored-as-array": func(c *codec) {
			c.unmarshal = func(m *rueidis.RedisMessage, buf []byte) error {
				if len(buf) > 7 && buf[7] == '~' {
					buf[7] = '*'
				}
				return m.CacheUnmarshalView(buf)
			}
		},
		"truncated-string-accepted": func(c *codec) { // missing bounds check on the payload of a top level string: one byte short is taken
			c.unmarshal = func(m *rueidis.RedisMessage, buf []byte) error {
				if len(buf) >= 17 && buf[7] == '$' && int(buf[15]) == len(buf)-16+1 && buf[14] == 0 {
					return m.CacheUnmarshalView(append(buf, 0))
				}
				return m.CacheUnmarshalView(buf)
			}
		},
		"truncation-panics": func(c *codec) {
			c.unmarshal = func(m *rueidis.RedisMessage, buf []byte) error {
				if len(buf) == 12 {
					_ = buf[len(buf)+3]
				}
				return m.CacheUnmarshalView(buf)
			}
		},
	}
	for name, mut := range muts {
		tb := &fakeTB{}
		run := mon.Start(tb, "C17", "exploration", "selftest")
		c := &checker{run: run, c: realCodec}
		mut(&c.c)
		c.all()
		v := run.Violations()
		run.Finish()
		t.Logf("mutant %q: %d violations", name, v)
		if (name == "") != (v == 0) {
			t.Errorf("mutant %q: %d violations", name, v)
		}
	}
}
