package c17

import (
	"bufio"
	"bytes"
	"errors"
	"fmt"
	"math/rand"
	"testing"

	"github.com/redis/rueidis"
	"verifh/drv"
	"verifh/mon"
	"verifh/resp"
)

// codec is the serializer under test (the real one; wrapped by mutants in the driver's self test).
type codec struct {
	size      func(m *rueidis.RedisMessage) int
	marshal   func(m *rueidis.RedisMessage, buf []byte) []byte
	unmarshal func(m *rueidis.RedisMessage, buf []byte) error
}

var realCodec = codec{
	size:      func(m *rueidis.RedisMessage) int { return m.CacheSize() },
	marshal:   func(m *rueidis.RedisMessage, buf []byte) []byte { return m.CacheMarshal(buf) },
	unmarshal: func(m *rueidis.RedisMessage, buf []byte) error { return m.CacheUnmarshalView(buf) },
}

type checker struct {
	run *mon.Run
	c   codec
}

// The 7 byte expiry field holds a millisecond timestamp below 2^56.
const maxPXAT = int64(1)<<56 - 1

func genPXAT(r *rand.Rand) int64 {
	switch r.Intn(8) {
	case 0:
		return 0 // no expiry
	case 1:
		k := uint(r.Intn(56))
		return (int64(1)<<k + int64(r.Intn(3)) - 1) & maxPXAT // 2^k-1, 2^k, 2^k+1: every byte boundary of the field
	case 2:
		return maxPXAT - int64(r.Intn(3))
	case 3:
		return r.Int63() & maxPXAT
	case 4:
		return int64(r.Intn(1 << 16))
	default:
		return 1_700_000_000_000 + r.Int63n(400_000_000_000) // 2023..2036 in unix milliseconds
	}
}

// guarded runs f and turns a panic into a string.
func guarded(f func()) (p string) {
	defer func() {
		if r := recover(); r != nil {
			p = fmt.Sprint(r)
		}
	}()
	f()
	return ""
}

func exact(b []byte) []byte { // a copy whose capacity equals its length: nothing valid lies behind it
	c := make([]byte, len(b))
	copy(c, b)
	return c[:len(c):len(c)]
}

func nontrivial(n rueidis.VerifNode) bool {
	return len(n.Values) > 0 || len(n.Str) > 0
}

func countTypes(run *mon.Run, n rueidis.VerifNode) {
	run.Observe("type_"+string(rune(n.Typ)), 1)
	for _, v := range n.Values {
		countTypes(run, v)
	}
}

// check evaluates the property on one message. want is the tree the message stands for.
func (c *checker) check(gen string, m rueidis.RedisMessage, want rueidis.VerifNode, pxat int64, allCuts bool) {
	run := c.run
	tree := drv.NodeString(want)
	keyBase := fmt.Sprintf("%s|pxat=%d", tree[:min(len(tree), 160)], pxat)
	rueidis.VerifSetExpireAt(&m, pxat)

	// 1. CacheMarshal writes exactly CacheSize bytes
	var size int
	var out []byte
	if p := guarded(func() { size = c.c.size(&m); out = c.c.marshal(&m, nil) }); p != "" {
		run.Violation("panic", "marshal|"+keyBase, map[string]any{"tree": tree, "pxat": pxat, "panic": p})
		return
	}
	run.Case(fmt.Sprintf("%s|%d|%s", gen, pxat, tree), nontrivial(want))
	run.Observe("marshals", 1)
	run.Observe("marshalled_bytes", int64(len(out)))
	if len(out) != size {
		run.Violation("size-mismatch", "nil-buf|"+keyBase, map[string]any{"tree": tree, "pxat": pxat, "cache_size": size, "marshalled_len": len(out)})
	}
	// the same through caller-provided buffers (empty with various capacities, and one with bytes already in it)
	for _, pre := range []struct {
		name string
		buf  []byte
	}{{"cap0", make([]byte, 0)}, {"cap-short", make([]byte, 0, max(size-1, 0))}, {"cap-exact", make([]byte, 0, size)}, {"cap-long", make([]byte, 0, size+17)}, {"prefixed", append(make([]byte, 0, 5+size/2), "HEAD:"...)}} {
		var o2 []byte
		nb := len(pre.buf)
		if p := guarded(func() { o2 = c.c.marshal(&m, pre.buf) }); p != "" {
			run.Violation("panic", "marshal-"+pre.name+"|"+keyBase, map[string]any{"tree": tree, "pxat": pxat, "panic": p})
			continue
		}
		if len(o2) < nb || len(o2)-nb != size || !bytes.Equal(o2[nb:], out) || string(o2[:nb]) != "HEAD:"[:nb] {
			run.Violation("size-mismatch", pre.name+"|"+keyBase, map[string]any{"tree": tree, "pxat": pxat, "cache_size": size, "written": len(o2) - nb, "same_bytes_as_nil_buf": len(o2) >= nb && bytes.Equal(o2[nb:], out)})
		}
	}

	// 2. CacheUnmarshalView reconstructs value tree, type and expiry
	wantPXAT := pxat
	if pxat == 0 {
		wantPXAT = -1
	}
	var back rueidis.RedisMessage
	var err error
	var got rueidis.VerifNode
	var gotPXAT int64
	buf := exact(out)
	if p := guarded(func() {
		if err = c.c.unmarshal(&back, buf); err == nil {
			got = rueidis.VerifDump(back)
			gotPXAT = back.CachePXAT()
		}
	}); p != "" {
		run.Violation("panic", "unmarshal|"+keyBase, map[string]any{"tree": tree, "pxat": pxat, "panic": p, "buf": drv.Hexs(drv.Trunc(out, 300))})
		return
	}
	if err != nil {
		run.Violation("unmarshal-error", keyBase, map[string]any{"tree": tree, "pxat": pxat, "err": err.Error(), "buf": drv.Hexs(drv.Trunc(out, 300))})
		return
	}
	run.Observe("unmarshals", 1)
	if !drv.NodeEqual(got, want) {
		run.Violation("roundtrip-mismatch", keyBase, map[string]any{"want": tree, "got": drv.NodeString(got), "pxat": pxat, "buf": drv.Hexs(drv.Trunc(out, 300))})
	}
	if gotPXAT != wantPXAT {
		run.Violation("expiry-mismatch", keyBase, map[string]any{"tree": tree, "set_pxat": pxat, "want_CachePXAT": wantPXAT, "got_CachePXAT": gotPXAT, "buf_head": drv.Hexs(drv.Trunc(out, 16))})
	}
	if back.IsCacheHit() {
		run.Observe("restored_is_cache_hit", 1)
	}
	// the restored message is a cacheable value too (that is what a second level store gets): once more
	var size2 int
	var out2 []byte
	var back2 rueidis.RedisMessage
	if p := guarded(func() {
		size2 = c.c.size(&back)
		out2 = c.c.marshal(&back, nil)
		if err = c.c.unmarshal(&back2, exact(out2)); err == nil {
			got = rueidis.VerifDump(back2)
			gotPXAT = back2.CachePXAT()
		}
	}); p != "" {
		run.Violation("panic", "second-generation|"+keyBase, map[string]any{"tree": tree, "pxat": pxat, "panic": p})
	} else if len(out2) != size2 {
		run.Violation("size-mismatch", "second-generation|"+keyBase, map[string]any{"tree": tree, "cache_size": size2, "marshalled_len": len(out2)})
	} else if err != nil || !drv.NodeEqual(got, want) || gotPXAT != wantPXAT {
		run.Violation("roundtrip-mismatch", "second-generation|"+keyBase, map[string]any{"want": tree, "got": drv.NodeString(got), "err": fmt.Sprint(err), "want_CachePXAT": wantPXAT, "got_CachePXAT": gotPXAT})
	}

	// 3. every proper prefix is rejected with ErrCacheUnmarshal
	cut := func(k int) {
		var tm rueidis.RedisMessage
		var terr error
		pre := exact(out[:k])
		run.Observe("truncations", 1)
		if p := guarded(func() { terr = c.c.unmarshal(&tm, pre) }); p != "" {
			run.Violation("panic", fmt.Sprintf("truncated|%s|cut=%d/%d", keyBase, k, len(out)), map[string]any{"tree": tree, "pxat": pxat, "cut": k, "full_len": len(out), "panic": p, "buf": drv.Hexs(drv.Trunc(pre, 300))})
			return
		}
		if terr == nil {
			run.Violation("truncation-accepted", fmt.Sprintf("%s|cut=%d/%d", keyBase, k, len(out)), map[string]any{"tree": tree, "pxat": pxat, "cut": k, "full_len": len(out), "decoded_as": drv.NodeString(rueidis.VerifDump(tm)), "buf": drv.Hexs(drv.Trunc(pre, 300))})
		} else if !errors.Is(terr, rueidis.ErrCacheUnmarshal) {
			run.Violation("truncation-wrong-error", fmt.Sprintf("%s|cut=%d/%d", keyBase, k, len(out)), map[string]any{"tree": tree, "pxat": pxat, "cut": k, "full_len": len(out), "err": terr.Error()})
		}
	}
	if allCuts || len(out) <= 1500 {
		for k := 0; k < len(out); k++ {
			cut(k)
		}
		run.Observe("messages_with_every_cut", 1)
	} else {
		// long buffers: the first and last 300 cut points and 300 spread evenly
		for k := 0; k < 300; k++ {
			cut(k)
			cut(len(out) - 1 - k)
		}
		for j := 1; j < 300; j++ {
			cut(300 + j*(len(out)-600)/300)
		}
		run.Observe("messages_with_sampled_cuts", 1)
	}
}

// cacheable value types: scalars and array/set/map aggregates (push frames and attributes are not reply values the cache stores)
var scalarTypes = []byte{'$', '+', ':', '_', ',', '#', '=', '(', '-', '!'}
var aggTypes = []byte{'*', '~', '%'}

func genNode(r *rand.Rand, depth, width int, top bool) rueidis.VerifNode {
	if depth <= 0 || r.Intn(3) != 0 {
		t := scalarTypes[r.Intn(len(scalarTypes))]
		if top && (t == '-' || t == '!') {
			t = '$' // an error reply is not cached
		}
		n := rueidis.VerifNode{Typ: t}
		switch t {
		case ':':
			switch r.Intn(4) {
			case 0:
				n.Int = []int64{0, 1, -1, 255, 256, -256, 1 << 31, -(1 << 31), 1<<63 - 1, -(1 << 63), 1 << 56, 1<<56 - 1}[r.Intn(12)]
			case 1:
				n.Int = int64(r.Uint64())
			default:
				n.Int = r.Int63n(2000) - 1000
			}
		case '#':
			n.Int = int64(r.Intn(2))
		case '_':
		case ',':
			n.Str = []string{"0", "-1.5", "inf", "-inf", "nan", "1e308", "3.141592653589793"}[r.Intn(7)]
		case '(':
			n.Str = "3492890328409238509324850943850943825024385"[:1+r.Intn(43)]
		case '=':
			n.Str = "txt:" + resp.GenBytes(r, false)
		default:
			n.Str = resp.GenBytes(r, r.Intn(5) == 0)
		}
		return n
	}
	n := rueidis.VerifNode{Typ: aggTypes[r.Intn(len(aggTypes))]}
	k := r.Intn(width + 1)
	if r.Intn(8) == 0 {
		k = 0
	}
	if n.Typ == '%' {
		k *= 2
	}
	n.Values = make([]rueidis.VerifNode, k)
	for i := range n.Values {
		n.Values[i] = genNode(r, depth-1, width, false)
		if n.Typ == '%' && i%2 == 0 && r.Intn(4) != 0 {
			n.Values[i] = rueidis.VerifNode{Typ: '$', Str: resp.GenBytes(r, false)} // map keys are mostly strings
		}
	}
	return n
}

func (c *checker) all() {
	run := c.run
	rng := run.Rand("trees")

	// (a) replies decoded by the real decoder from independently encoded trees
	n := run.N(6000, 300000)
	for i := 0; i < n; i++ {
		o := resp.GenOpts{Cacheable: true, MaxDepth: rng.Intn(6), MaxWidth: 1 + rng.Intn(8), BigBlobs: i%5 == 0, RESP2: i%6 == 5, NoErrors: i%3 == 0}
		if i%53 == 0 {
			o.MaxDepth, o.MaxWidth = 2, 40
		}
		v := resp.Gen(rng, o)
		if v.T == '-' || v.T == '!' {
			v = resp.Arr(v) // an error reply is not cached; nested in an aggregate it can be
		}
		wire := resp.Encode(nil, v)
		m, err := rueidis.VerifReadNextMessage(bufio.NewReaderSize(bytes.NewReader(wire), 64))
		want := drv.ExpectNode(v)
		if err != nil || !drv.NodeEqual(rueidis.VerifDump(m), want) {
			run.Inconclusive("decoder did not reproduce the generated reply (C12's domain)")
			continue
		}
		if i < 3 {
			run.Sample(map[string]any{"gen": "decoded", "wire": drv.Hexs(drv.Trunc(wire, 200)), "tree": drv.NodeString(want)})
		}
		countTypes(run, want)
		run.Observe("decoded_messages", 1)
		c.check("decoded", m, want, genPXAT(rng), false)
	}

	// (b) messages built directly: every scalar type, full int64 range, wide and deep aggregates
	n = run.N(6000, 300000)
	for i := 0; i < n; i++ {
		depth, width := rng.Intn(6), 1+rng.Intn(8)
		switch {
		case i%101 == 0:
			depth, width = 1, 200+rng.Intn(600) // wide
		case i%103 == 0:
			depth, width = 12+rng.Intn(20), 2 // deep
		}
		want := genNode(rng, depth, width, true)
		if i%103 == 0 {
			// force a spine of the wanted depth
			for d := 0; d < depth; d++ {
				want = rueidis.VerifNode{Typ: aggTypes[d%3], Values: []rueidis.VerifNode{{Typ: '$', Str: "k"}, want}}
			}
		}
		m := rueidis.VerifBuild(want)
		if i < 3 {
			run.Sample(map[string]any{"gen": "built", "tree": drv.NodeString(want)})
		}
		countTypes(run, want)
		run.Observe("built_messages", 1)
		c.check("built", m, want, genPXAT(rng), false)
	}

	// (c) one scalar of every type x every expiry byte boundary, and payload sizes around the 8 byte length field's bytes
	for _, t := range scalarTypes {
		for k := 0; k <= 56; k++ {
			for d := int64(-1); d <= 1; d++ {
				px := (int64(1)<<uint(k) + d) & maxPXAT
				want := rueidis.VerifNode{Typ: t}
				switch t {
				case ':':
					want.Int = px - 7
				case '#':
					want.Int = int64(k & 1)
				case '_':
				default:
					want.Str = fmt.Sprintf("v%d", k)
				}
				c.check("expiry-grid", rueidis.VerifBuild(want), want, px, true)
			}
		}
	}
	for _, l := range []int{0, 1, 255, 256, 257, 65535, 65536, 65537, 1 << 20} {
		want := rueidis.VerifNode{Typ: '$', Str: string(bytes.Repeat([]byte{0xff, 0, '\r', '\n'}, l/4+1)[:l])}
		c.check("length-grid", rueidis.VerifBuild(want), want, genPXAT(rng), false)
		arr := rueidis.VerifNode{Typ: '*', Values: make([]rueidis.VerifNode, min(l, 65537))}
		for i := range arr.Values {
			arr.Values[i] = rueidis.VerifNode{Typ: '_'}
		}
		c.check("count-grid", rueidis.VerifBuild(arr), arr, genPXAT(rng), false)
	}
}

// C17: CacheUnmarshalView(CacheMarshal(m)) reconstructs value tree, type and expiry; CacheMarshal writes exactly CacheSize bytes;
// every truncated buffer yields ErrCacheUnmarshal and never a panic.
func TestC17(t *testing.T) {
	run := mon.Start(t, "C17", "exploration",
		"cacheable reply values (scalars $ + : _ , # = ( and nested - !, aggregates * ~ % to depth 32 / width 800, no push frames, no attributes) obtained (a) from the real decoder on independently encoded resp.Gen{Cacheable} trees and (b) from VerifBuild on generated trees with the full int64 range, "+
			"(c) a grid of every scalar type x expiries 2^k-1,2^k,2^k+1 for k=0..56 and payload/element counts 0..2^20; expiry set with setExpireAt to values in [0,2^56); per case: CacheSize vs marshalled length with nil and 5 caller buffers, round trip of tree+CachePXAT, a second generation round trip of the restored message, "+
			"and CacheUnmarshalView of every proper prefix (buffers <= 1500 bytes; 900 cut points for longer ones); distinct by (generator, expiry, tree), non-trivial when the tree has a child or a non-empty string")
	defer run.Finish()
	run.Assume("expiries are millisecond timestamps in [0, 2^56): the value setExpireAt can hold in its 7 byte field",
		"cacheable reply values are scalars and array/set/map aggregates of them; push frames and RESP3 attributes are outside the property (the serializer has no representation for either: a push frame is written as an empty string, attributes are dropped)",
		"RESP2 null bulk/array decode to the same null message as '_' and are compared as such")
	c := &checker{run: run, c: realCodec}
	c.all()
	run.Require("decoded_messages", "built_messages", "truncations", "unmarshals", "type_*", "type_%", "type_~", "type_$", "type_:", "type__", "type_#", "type_,")
}
