package c21

import (
	"fmt"
	"math/rand"
	"strconv"
	"strings"

	"verifh/resp"
)

// CLUSTER SHARDS (Redis/Valkey >= 8 topology source) announces every node a shard knows about, with its role flag and a
// health field: a node that failed or is still loading stays in the list ("fail", "loading") - typically the old master
// right after a fail-over, still flagged master next to the promoted one, or a replica that went away. The fake server
// itself only announces online nodes of its own, so the worlds below answer CLUSTER SHARDS with a reply made here
// (Server.ClusterReply): the real nodes of the shard in a random order plus non-online entries in random positions.
// None of this changes who the primary of a shard is (the online node flagged master), so the statement of C21 applies
// unchanged: a command that was not opted in must be received by that primary and by no replica.

type shardEntry struct {
	Addr   string `json:"addr"`
	Role   string `json:"role"`            // as announced: master | replica
	Health string `json:"health"`          // online | fail | loading
	Ghost  bool   `json:"ghost,omitempty"` // not a node of the fake cluster (a node that went away)
}

type shardFlags struct {
	nonOnline         bool // the shard's entry lists at least one node that is not online
	failedMaster      bool // ... one flagged master, next to the online master
	failedAfterOnline bool // ... listed after the online master
	failedLast        bool // ... listed as the last node of the shard
	masterless        bool // the only node flagged master is not online
}

func clusterAddr(shard, n int) string { return fmt.Sprintf("10.2.%d.%d:7000", shard, n) }

// genShardsLayout decides, per shard, which nodes CLUSTER SHARDS announces, in which order and with which health.
func genShardsLayout(rng *rand.Rand, cfg worldCfg) [][]shardEntry {
	out := make([][]shardEntry, cfg.Shards)
	some := false
	for i := range out {
		shape := rng.Intn(8)
		if i == cfg.Shards-1 && !some && (shape == 0) {
			shape = 1 + rng.Intn(7) // at least one shard of the world lists a non-online node
		}
		master := shardEntry{Addr: clusterAddr(i, 1), Role: "master", Health: "online"}
		var es []shardEntry
		ghost := 0
		addGhost := func(role, health string) {
			es = append(es, shardEntry{Addr: clusterAddr(i, 200+ghost), Role: role, Health: health, Ghost: true})
			ghost++
		}
		replicaHealth := func() string {
			if rng.Intn(2) == 0 {
				return "loading"
			}
			return "fail"
		}
		failedMasters, badReplicas := false, false
		switch shape {
		case 0:
		case 1, 2, 3, 4:
			failedMasters = true
		case 5:
			badReplicas = true
		case 6:
			failedMasters, badReplicas = true, true
		case 7:
			master.Health = "fail" // the shard has no online master at all (fail-over not finished)
			badReplicas = rng.Intn(3) == 0
		}
		if shape != 0 {
			some = true
		}
		es = append(es, master)
		flagged := 0
		for j := 0; j < cfg.Replicas; j++ {
			e := shardEntry{Addr: clusterAddr(i, j+2), Role: "replica", Health: "online"}
			if badReplicas && rng.Intn(3) == 0 {
				e.Health = replicaHealth()
				flagged++
			}
			es = append(es, e)
		}
		if failedMasters {
			addGhost("master", "fail") // the old master, still flagged master
			if rng.Intn(4) == 0 {
				addGhost("master", "fail")
			}
		}
		if badReplicas && (flagged == 0 || rng.Intn(2) == 0) {
			addGhost("replica", replicaHealth())
		}
		rng.Shuffle(len(es), func(a, b int) { es[a], es[b] = es[b], es[a] })
		out[i] = es
	}
	return out
}

func flagsOf(es []shardEntry) (f shardFlags) {
	online := -1
	for i, e := range es {
		if e.Role == "master" && e.Health == "online" {
			online = i
		}
	}
	f.masterless = online < 0
	for i, e := range es {
		if e.Health == "online" {
			continue
		}
		f.nonOnline = true
		if e.Role == "master" && online >= 0 {
			f.failedMaster = true
			if i > online {
				f.failedAfterOnline = true
			}
			if i == len(es)-1 {
				f.failedLast = true
			}
		}
	}
	return
}

func shardIndexOf(addr string) int { // 10.2.<shard>.<n>:7000
	p := strings.Split(addr, ".")
	if len(p) < 4 {
		return -1
	}
	n, err := strconv.Atoi(p[2])
	if err != nil {
		return -1
	}
	return n
}

// shardsReply renders the layout as a CLUSTER SHARDS reply; ranges[i] are the slot ranges of shard i.
func shardsReply(layout [][]shardEntry, ranges [][][2]int) resp.V {
	var out []resp.V
	id := 0
	for i, es := range layout {
		var sl []resp.V
		for _, r := range ranges[i] {
			sl = append(sl, resp.Int(int64(r[0])), resp.Int(int64(r[1])))
		}
		var ns []resp.V
		for _, e := range es {
			id++
			host, port, _ := strings.Cut(e.Addr, ":")
			pn, _ := strconv.Atoi(port)
			ns = append(ns, resp.Map(resp.Bulk("id"), resp.Bulk(fmt.Sprintf("%040x", 0xc21000+id)), resp.Bulk("port"), resp.Int(int64(pn)),
				resp.Bulk("ip"), resp.Bulk(host), resp.Bulk("endpoint"), resp.Bulk(host), resp.Bulk("role"), resp.Bulk(e.Role),
				resp.Bulk("replication-offset"), resp.Int(0), resp.Bulk("health"), resp.Bulk(e.Health)))
		}
		out = append(out, resp.Map(resp.Bulk("slots"), resp.Arr(sl...), resp.Bulk("nodes"), resp.Arr(ns...)))
	}
	return resp.Arr(out...)
}
