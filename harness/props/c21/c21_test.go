package c21

import (
	"context"
	"fmt"
	"io"
	"math/rand"
	"sort"
	"strconv"
	"strings"
	"sync"
	"sync/atomic"
	"testing"
	"time"

	"github.com/redis/rueidis"
	"verifh/drv"
	"verifh/fakeredis"
	"verifh/mon"
	"verifh/resp"
)

// C21: a command is received by a replica-role node only when SendToReplicas returned true for it (standalone and
// sentinel batches: for every command of the batch) or the client is ReplicaOnly; everything else goes to the primary.
// A ReplicaSelector / ReadNodeSelector result outside the candidate list falls back to the primary.
//
// Oracle, from the fake nodes' logs: every command carries a uid (VERIF.ECHO/VERIF.WRITE uid, GET <unique key>, ECHO uid).
// The SendToReplicas wrapper records each value it returned per uid. For every recv of a uid on a node whose role is
// "slave": the premise (a recorded true for the uid; for non-cluster batches a recorded true for every member; or
// ReplicaOnly) must hold. When the premise holds and a selector is configured, the selector wrapper has recorded
// (candidates, returned index) for the call / the slot: the first recv of the uid must be on candidates[index] when the
// index is inside the list and on the primary otherwise. Calls are issued one at a time, so the selector calls made
// during a call belong to it.

type selCall struct {
	slot  uint16
	addrs []string
	ret   int
}

type world struct {
	name        string
	mode        string // standalone | sentinel | cluster | redirect
	predName    string
	selName     string // "" | default | replica:<variant> | read:<variant>
	replicaOnly bool
	srv         *fakeredis.Server
	client      rueidis.Client
	role        map[string]string // addr -> master | slave
	primary     string            // non-cluster
	nrep        int
	layout      [][]shardEntry // cluster worlds whose CLUSTER SHARDS reply lists non-online nodes (nil otherwise)
	flags       []shardFlags   // per shard, derived from layout
	shardsSent  atomic.Int64   // CLUSTER SHARDS replies served from layout

	mu        sync.Mutex
	decisions map[string][]bool
	selCalls  []selCall            // ReadNodeSelector calls since the last reset
	slotSel   map[uint16][]selCall // ReplicaSelector calls (made at refresh time), per slot
	seq       int
}

var predNames = []string{"always", "never", "readonly", "parity"}

func uidOf(argv []string) string {
	if len(argv) == 0 {
		return ""
	}
	switch strings.ToUpper(argv[0]) {
	case "VERIF.ECHO", "VERIF.WRITE":
		if len(argv) > 2 {
			return argv[2]
		}
	case "GET", "ECHO":
		if len(argv) > 1 {
			return argv[1]
		}
	}
	return ""
}

// uidNum extracts the trailing number of a uid ("u.17", "{t3}ck.17").
func uidNum(uid string) int {
	i := strings.LastIndexByte(uid, '.')
	n, _ := strconv.Atoi(uid[i+1:])
	return n
}

func (w *world) predicate() func(rueidis.Completed) bool {
	return func(cmd rueidis.Completed) bool {
		argv := cmd.Commands()
		uid := uidOf(argv)
		var r bool
		switch w.predName {
		case "always":
			r = true
		case "never":
			r = false
		case "readonly":
			r = cmd.IsReadOnly()
		case "parity":
			r = uid != "" && uidNum(uid)%2 == 0
		}
		if uid != "" {
			w.mu.Lock()
			w.decisions[uid] = append(w.decisions[uid], r)
			w.mu.Unlock()
		}
		return r
	}
}

// selector index variants, relative to the candidate count n
func variantIndex(variant string, n int, k int) int {
	switch variant {
	case "minus1":
		return -1
	case "zero":
		return 0
	case "last":
		return n - 1
	case "n":
		return n
	case "n+1":
		return n + 1
	case "huge":
		return 1 << 30
	default: // "mixed": cycles through in-range and out-of-range values
		seq := []int{0, -1, n - 1, n, 1, n + 1, -7, n / 2}
		return seq[k%len(seq)]
	}
}

var variants = []string{"minus1", "zero", "last", "n", "n+1", "huge", "mixed", "mixed"}

func addrsOf(ns []rueidis.NodeInfo) []string {
	a := make([]string, len(ns))
	for i, n := range ns {
		a[i] = n.Addr
	}
	return a
}

func (w *world) readNodeSelector(variant string) rueidis.ReadNodeSelectorFunc {
	k := 0
	return func(slot uint16, nodes []rueidis.NodeInfo) int {
		w.mu.Lock()
		defer w.mu.Unlock()
		k++
		r := variantIndex(variant, len(nodes), k)
		w.selCalls = append(w.selCalls, selCall{slot, addrsOf(nodes), r})
		return r
	}
}

func (w *world) replicaSelector(variant string) rueidis.ReplicaSelectorFunc {
	return func(slot uint16, replicas []rueidis.NodeInfo) int {
		r := variantIndex(variant, len(replicas), int(slot))
		w.mu.Lock()
		w.slotSel[slot] = append(w.slotSel[slot], selCall{slot, addrsOf(replicas), r})
		w.mu.Unlock()
		return r
	}
}

type worldCfg struct {
	Mode        string `json:"mode"`
	Pred        string `json:"pred"`
	Sel         string `json:"selector"`
	Replicas    int    `json:"replicas"`
	Shards      int    `json:"shards,omitempty"`
	ReplicaOnly bool   `json:"replica_only,omitempty"`
	AZInfo      bool   `json:"az_info,omitempty"`
	Shards8     bool   `json:"cluster_shards_v8,omitempty"`
	// per shard, the nodes CLUSTER SHARDS announces, in order, when the reply lists nodes that are not online
	Layout [][]shardEntry `json:"cluster_shards_nodes,omitempty"`
}

func newWorld(cfg worldCfg, seed int64) (_ *world, err error) {
	w := &world{mode: cfg.Mode, predName: cfg.Pred, selName: cfg.Sel, replicaOnly: cfg.ReplicaOnly, role: map[string]string{},
		decisions: map[string][]bool{}, slotSel: map[uint16][]selCall{}, nrep: cfg.Replicas}
	w.name = fmt.Sprintf("%+v", cfg)
	defer func() { // a panic while the client is set up: release the fake server, the caller reports it
		if p := recover(); p != nil {
			if w.srv != nil {
				w.srv.Close()
			}
			panic(p)
		}
	}()
	o := fakeredis.Options{Seed: seed}
	if cfg.Shards8 {
		o.Version = "8.0.0"
	}
	var opt rueidis.ClientOption
	azs := []string{"az-a", "az-b", "az-c"}
	switch cfg.Mode {
	case "standalone", "redirect", "sentinel":
		w.primary = "10.1.0.1:6379"
		w.srv = fakeredis.New(o, w.primary)
		m := w.srv.Node(w.primary)
		m.AZ = azs[0]
		w.role[w.primary] = "master"
		var reps []string
		var sreps []fakeredis.SentinelReplica
		for i := 0; i < cfg.Replicas; i++ {
			a := fmt.Sprintf("10.1.0.%d:6379", i+2)
			n := w.srv.AddNode(a, "slave", m)
			n.AZ = azs[(i+1)%3]
			w.role[a] = "slave"
			reps = append(reps, a)
			sreps = append(sreps, fakeredis.SentinelReplica{Addr: a})
		}
		switch cfg.Mode {
		case "standalone":
			opt = drv.Option(w.srv, w.primary)
			opt.Standalone.ReplicaAddress = reps
		case "redirect":
			opt = drv.Option(w.srv, w.primary)
			opt.Standalone.EnableRedirect = true
		case "sentinel":
			sn := w.srv.AddNode("10.1.0.99:26379", "sentinel", nil)
			sn.ConfigureSentinel("mymaster", w.primary, sreps, nil)
			opt = drv.Option(w.srv, "10.1.0.99:26379")
			opt.Sentinel.MasterSet = "mymaster"
		}
	case "cluster":
		var prims []string
		for i := 0; i < cfg.Shards; i++ {
			prims = append(prims, fmt.Sprintf("10.2.%d.1:7000", i))
		}
		w.srv = fakeredis.New(o, prims...)
		for i, p := range prims {
			w.role[p] = "master"
			pn := w.srv.Node(p)
			pn.AZ = azs[i%3]
			for j := 0; j < cfg.Replicas; j++ {
				a := fmt.Sprintf("10.2.%d.%d:7000", i, j+2)
				n := w.srv.AddNode(a, "slave", pn)
				n.AZ = azs[(i+j+1)%3]
				w.role[a] = "slave"
			}
		}
		w.srv.EnableCluster()
		if cfg.Layout != nil {
			w.layout = cfg.Layout
			ranges := make([][][2]int, len(prims))
			start, cur := 0, shardIndexOf(w.srv.SlotOwner(0))
			for i := 1; i <= 16384; i++ {
				o := -1
				if i < 16384 {
					o = shardIndexOf(w.srv.SlotOwner(i))
				}
				if o != cur {
					if cur >= 0 && cur < len(ranges) {
						ranges[cur] = append(ranges[cur], [2]int{start, i - 1})
					}
					start, cur = i, o
				}
			}
			for _, es := range cfg.Layout {
				w.flags = append(w.flags, flagsOf(es))
			}
			reply := shardsReply(cfg.Layout, ranges)
			w.srv.Lock()
			w.srv.ClusterReply = func(_, sub string) (resp.V, bool) { // called under the server lock
				if sub != "SHARDS" {
					return resp.V{}, false
				}
				w.shardsSent.Add(1)
				return reply, true
			}
			w.srv.Unlock()
		}
		opt = drv.Option(w.srv, prims[0])
	}
	opt.EnableReplicaAZInfo = cfg.AZInfo
	opt.ReplicaOnly = cfg.ReplicaOnly
	if !cfg.ReplicaOnly && cfg.Pred != "none" && cfg.Pred != "unset" {
		opt.SendToReplicas = w.predicate()
	}
	switch {
	case strings.HasPrefix(cfg.Sel, "read:"):
		opt.ReadNodeSelector = w.readNodeSelector(strings.TrimPrefix(cfg.Sel, "read:"))
	case strings.HasPrefix(cfg.Sel, "replica:"):
		opt.ReplicaSelector = w.replicaSelector(strings.TrimPrefix(cfg.Sel, "replica:"))
	}
	opt.DisableRetry = true
	c, err := rueidis.NewClient(opt)
	if err != nil {
		w.srv.Close()
		return nil, err
	}
	w.client = c
	return w, nil
}

// topo names the topology feature of the world in violation keys ("" = every announced node is online).
func (w *world) topo() string {
	if w.layout != nil {
		return "|cluster-shards-lists-non-online-nodes"
	}
	return ""
}

func (w *world) close() {
	w.client.Close()
	w.srv.Close()
}

type issuedCmd struct {
	uid      string
	readonly bool
	key      string
}

var callKinds = []string{"Do", "Do", "DoWrite", "DoMulti", "DoMulti", "DoCache", "DoMultiCache", "DoStream", "DoMultiStream", "Keyless"}

func (w *world) newUID() (uid string, n int) {
	w.seq++
	return fmt.Sprintf("u.%d", w.seq), w.seq
}

func TestC21(t *testing.T) {
	run := mon.Start(t, "C21", "exploration",
		"client modes standalone+1-4 replicas (ReplicaAddress), standalone EnableRedirect without replicas, sentinel+1-3 replicas, cluster 2-4 shards x 1-3 replicas (CLUSTER SLOTS and SHARDS; half of the SHARDS worlds announce non-online nodes in random positions of the shards' node lists: failed old masters still flagged master next to the online one, failed / loading replicas, shards whose only master is failed), ReplicaOnly sentinel/cluster; SendToReplicas in {always, never, read-only only, uid parity}; "+
			"ReplicaSelector / ReadNodeSelector returning -1, 0, n-1, n, n+1, 2^30 or a cycling mix, with and without EnableReplicaAZInfo; calls Do (read-only and write), DoMulti (1-8, mixed), DoCache, DoMultiCache, DoStream, DoMultiStream and key-less commands, one at a time; "+
			"a case = (mode, predicate, selector, replica count, call kind) and is non-trivial when replicas exist and the predicate was consulted or the client is ReplicaOnly")
	defer run.Finish()
	run.Assume("node roles are those configured in fakeredis (no fail-over during a world)", "calls are sequential, so ReadNodeSelector invocations recorded during a call belong to that call")

	nWorlds := run.N(1000, 25000)
	calls := run.N(36, 60)
	rng := run.Rand("worlds")
	lrng := run.Rand("cluster-shards-layout") // its own stream: the worlds of a seed are the same with and without layouts
	ctx := context.Background()
	for wi := 0; wi < nWorlds; wi++ {
		cfg := genWorld(rng, wi)
		if cfg.Mode == "cluster" && cfg.Shards8 && lrng.Intn(2) == 0 {
			cfg.Layout = genShardsLayout(lrng, cfg)
		}
		var w *world
		var err error
		func() {
			defer func() {
				if p := recover(); p != nil {
					topo := ""
					if cfg.Layout != nil {
						topo = "|cluster-shards-lists-non-online-nodes"
					}
					run.Violation("panic", fmt.Sprintf("%s|replicas=%d|sel=%s|client-setup%s|%s", cfg.Mode, cfg.Replicas, selClass(cfg.Sel), topo, firstLine(fmt.Sprint(p))),
						map[string]any{"world": cfg, "call": "NewClient", "panic": fmt.Sprint(p)})
					err = fmt.Errorf("panic: %v", p)
					w = nil
				}
			}()
			w, err = newWorld(cfg, run.Seed*7919+int64(wi))
		}()
		if w == nil && err != nil && strings.HasPrefix(err.Error(), "panic: ") {
			continue // reported as a violation above
		}
		if err != nil {
			run.Inconclusive("client setup failed: " + err.Error() + " for " + fmt.Sprintf("%+v", cfg))
			continue
		}
		for ci := 0; ci < calls; ci++ {
			kind := callKinds[rng.Intn(len(callKinds))]
			func() {
				defer func() {
					if p := recover(); p != nil {
						run.Violation("panic", fmt.Sprintf("%s|replicas=%d|sel=%s|%s%s|%s", cfg.Mode, cfg.Replicas, selClass(cfg.Sel), kind, w.topo(), firstLine(fmt.Sprint(p))), map[string]any{"world": cfg, "call": kind, "panic": fmt.Sprint(p)})
					}
				}()
				w.oneCall(run, rng, ctx, cfg, kind)
			}()
		}
		if w.layout != nil {
			run.Observe("worlds_cluster_shards_listing_non_online_nodes", 1)
			run.Observe("cluster_shards_replies_listing_non_online_nodes_served", w.shardsSent.Load())
		}
		w.close()
	}
	run.Require("recv_on_primary_without_opt_in_shard_lists_failed_master", "recv_on_primary_without_opt_in_failed_master_listed_after_online_master")
	run.Require("recv_on_replica_with_opt_in", "recv_on_primary_without_opt_in", "selector_out_of_range_fell_back_to_primary", "selector_in_range_honoured",
		"batch_not_all_true_on_primary", "replica_only_recv_on_replica", "cluster_per_command_split",
		"keyless_member_not_opted_in_on_primary", "keyless_member_opted_in_on_replica")
}

func firstLine(s string) string {
	if i := strings.IndexByte(s, '\n'); i >= 0 {
		s = s[:i]
	}
	if len(s) > 80 {
		s = s[:80]
	}
	return s
}

func selClass(s string) string {
	if s == "" {
		return "none"
	}
	return s
}

func genWorld(rng *rand.Rand, wi int) worldCfg {
	cfg := worldCfg{Pred: predNames[rng.Intn(len(predNames))]}
	switch r := wi % 10; {
	case r < 3:
		cfg.Mode = "standalone"
		cfg.Replicas = 1 + rng.Intn(4)
		if rng.Intn(2) == 0 {
			cfg.Sel = "read:" + variants[rng.Intn(len(variants))]
			cfg.AZInfo = rng.Intn(3) > 0
		} else {
			cfg.AZInfo = rng.Intn(2) == 0
		}
	case r < 5:
		cfg.Mode = "sentinel"
		cfg.Replicas = 1 + rng.Intn(3)
		switch rng.Intn(6) {
		case 0:
			cfg.ReplicaOnly = true
			cfg.Pred = "none"
		case 1:
			cfg.Pred = "unset" // no SendToReplicas at all
		}
	case r < 9:
		cfg.Mode = "cluster"
		cfg.Shards = 2 + rng.Intn(3)
		cfg.Replicas = 1 + rng.Intn(3)
		cfg.Shards8 = rng.Intn(2) == 0
		switch rng.Intn(7) { // default: SendToReplicas with the built-in random replica choice
		case 0:
			cfg.ReplicaOnly = true
			cfg.Pred = "none"
		case 1, 2:
			cfg.Sel = "replica:" + variants[rng.Intn(len(variants))]
		case 3, 4, 5:
			cfg.Sel = "read:" + variants[rng.Intn(len(variants))]
			cfg.AZInfo = rng.Intn(2) == 0
		case 6:
			if rng.Intn(2) == 0 {
				cfg.Pred = "unset" // a plain cluster client
			}
		}
	default:
		cfg.Mode = "redirect"
		cfg.Replicas = 0
	}
	return cfg
}

// oneCall issues one client call and evaluates the log slice it produced.
func (w *world) oneCall(run *mon.Run, rng *rand.Rand, ctx context.Context, cfg worldCfg, kind string) {
	w.mu.Lock()
	w.selCalls = nil
	w.mu.Unlock()
	from := w.srv.LogLen()
	c := w.client
	tag := fmt.Sprintf("{t%d}", rng.Intn(40))
	var cmdsIssued []issuedCmd
	echo := func(ro bool, key string) rueidis.Completed {
		uid, _ := w.newUID()
		cmdsIssued = append(cmdsIssued, issuedCmd{uid: uid, readonly: ro, key: key})
		if ro {
			return c.B().Arbitrary("VERIF.ECHO").Keys(key).Args(uid, "str").ReadOnly()
		}
		return c.B().Arbitrary("VERIF.WRITE").Keys(key).Args(uid, "str").Build()
	}
	cacheKey := func(tag string) string {
		_, n := w.newUID()
		k := fmt.Sprintf("%sck.%d", tag, n)
		cmdsIssued = append(cmdsIssued, issuedCmd{uid: k, readonly: true, key: k})
		return k
	}
	batch := false
	hasKeyless := false
	// keyless builds a command without a key (ECHO uid), tagged read-only or not
	keyless := func(ro bool) rueidis.Completed {
		uid, _ := w.newUID()
		cmdsIssued = append(cmdsIssued, issuedCmd{uid: uid, readonly: ro})
		hasKeyless = true
		if ro {
			return c.B().Arbitrary("ECHO").Args(uid).ReadOnly()
		}
		return c.B().Arbitrary("ECHO").Args(uid).Build()
	}
	switch kind {
	case "Do":
		c.Do(ctx, echo(true, tag+"k"))
	case "DoWrite":
		c.Do(ctx, echo(false, tag+"k"))
	case "DoMulti":
		batch = true
		n := 1 + rng.Intn(8)
		allRO := rng.Intn(2) == 0
		withKeyless := rng.Intn(3) == 0 // key-less members: the cluster client then wants a single slot for the keyed ones
		if withKeyless && n < 2 {
			n = 2
		}
		cs := make(rueidis.Commands, n)
		for i := range cs {
			if withKeyless && i == 0 { // at least one keyed member: a batch of key-less commands only has no slot at all (that is the lone key-less case)
				cs[i] = echo(allRO || rng.Intn(3) > 0, tag+"k")
				continue
			}
			t := tag
			if w.mode == "cluster" && !withKeyless {
				t = fmt.Sprintf("{t%d}", rng.Intn(40))
			}
			if withKeyless && (rng.Intn(3) == 0 || i == n-1 && !hasKeyless) {
				cs[i] = keyless(rng.Intn(2) == 0)
				continue
			}
			cs[i] = echo(allRO || rng.Intn(3) > 0, t+"k")
		}
		c.DoMulti(ctx, cs...)
	case "DoCache":
		c.DoCache(ctx, c.B().Get().Key(cacheKey(tag)).Cache(), time.Minute)
	case "DoMultiCache":
		batch = true
		n := 1 + rng.Intn(6)
		cts := make([]rueidis.CacheableTTL, n)
		for i := range cts {
			t := tag
			if w.mode == "cluster" {
				t = fmt.Sprintf("{t%d}", rng.Intn(40))
			}
			cts[i] = rueidis.CT(c.B().Get().Key(cacheKey(t)).Cache(), time.Minute)
		}
		c.DoMultiCache(ctx, cts...)
	case "DoStream":
		s := c.DoStream(ctx, echo(true, tag+"k"))
		for s.HasNext() {
			s.WriteTo(io.Discard)
		}
	case "DoMultiStream":
		batch = true
		n := 1 + rng.Intn(4)
		withKeyless := rng.Intn(2) == 0
		if withKeyless && n < 2 {
			n = 2
		}
		cs := make(rueidis.Commands, n)
		for i := range cs {
			if withKeyless && i == 0 {
				cs[i] = echo(true, tag+"k")
				continue
			}
			if withKeyless && (rng.Intn(3) == 0 || i == n-1 && !hasKeyless) {
				cs[i] = keyless(rng.Intn(2) == 0) // opted in or not, depending on the predicate
				continue
			}
			cs[i] = echo(true, tag+"k")
		}
		s := c.DoMultiStream(ctx, cs...)
		for s.HasNext() {
			s.WriteTo(io.Discard)
		}
	case "Keyless":
		uid, _ := w.newUID()
		cmdsIssued = append(cmdsIssued, issuedCmd{uid: uid, readonly: true})
		c.Do(ctx, c.B().Arbitrary("ECHO").Args(uid).ReadOnly())
	}

	events := w.srv.Log()[from:]
	w.mu.Lock()
	selCalls := append([]selCall(nil), w.selCalls...)
	dec := map[string][]bool{}
	for _, ic := range cmdsIssued {
		dec[ic.uid] = append([]bool(nil), w.decisions[ic.uid]...)
		delete(w.decisions, ic.uid)
	}
	w.mu.Unlock()

	anyTrue := func(uid string) bool {
		for _, d := range dec[uid] {
			if d {
				return true
			}
		}
		return false
	}
	allMembersTrue := true
	consulted := false
	for _, ic := range cmdsIssued {
		allMembersTrue = allMembersTrue && anyTrue(ic.uid)
		consulted = consulted || len(dec[ic.uid]) > 0
	}
	mine := map[string]issuedCmd{}
	for _, ic := range cmdsIssued {
		mine[ic.uid] = ic
	}
	firstSeen := map[string]bool{}
	keyOf := func(what string) string {
		return fmt.Sprintf("%s|%s|pred=%s|sel=%s|%s%s", w.mode, kind, w.predName, selClass(w.selName), what, w.topo())
	}
	// non-cluster batches (and the cluster's single-connection DoMultiStream) go to a replica only when every member opted in
	batchRule := batch && (w.mode != "cluster" || kind == "DoMultiStream")
	recvs := 0
	for _, e := range events {
		if e.Kind != "recv" {
			continue
		}
		uid := uidOf(e.Argv)
		ic, ok := mine[uid]
		if !ok {
			continue
		}
		recvs++
		role := w.role[e.Node]
		first := !firstSeen[uid]
		firstSeen[uid] = true
		premise := anyTrue(uid)
		if batchRule {
			premise = allMembersTrue
		}
		wit := func() map[string]any {
			return map[string]any{"world": cfg, "call": kind, "command": e.Argv, "received_by": e.Node, "role": role, "send_to_replicas_returned": dec[uid],
				"batch_all_true": allMembersTrue, "selector_calls": fmtSel(selCalls), "issued": fmt.Sprintf("%+v", cmdsIssued)}
		}
		if w.layout != nil && ic.key != "" && !w.replicaOnly { // how often the shard the command went to announced non-online nodes
			if si := shardIndexOf(e.Node); si >= 0 && si < len(w.flags) && w.flags[si].nonOnline {
				f := w.flags[si]
				switch {
				case role == "slave" && premise:
					run.Observe("recv_on_replica_with_opt_in_shard_lists_non_online_node", 1)
				case role != "slave" && !premise:
					run.Observe("recv_on_primary_without_opt_in_shard_lists_non_online_node", 1)
					if f.failedMaster {
						run.Observe("recv_on_primary_without_opt_in_shard_lists_failed_master", 1)
					}
					if f.failedAfterOnline {
						run.Observe("recv_on_primary_without_opt_in_failed_master_listed_after_online_master", 1)
					}
					if f.failedLast {
						run.Observe("recv_on_primary_without_opt_in_failed_master_listed_last", 1)
					}
				}
			}
		}
		if role == "slave" {
			switch {
			case w.replicaOnly:
				run.Observe("replica_only_recv_on_replica", 1)
			case premise:
				run.Observe("recv_on_replica_with_opt_in", 1)
				if ic.key == "" && batch {
					run.Observe("keyless_member_opted_in_on_replica", 1)
				}
			default:
				if ic.key == "" && batch {
					// a key-less member of a batch that was not opted in dragged to a replica with the batch
					run.Violation("replica-without-opt-in", fmt.Sprintf("%s|%s|keyless-member-not-opted-in", w.mode, kind), wit())
				} else if ic.key == "" {
					// a lone command without a key: one stable key per mode, whatever the predicate and selector are
					run.Violation("replica-without-opt-in", fmt.Sprintf("%s|%s|keyless-command", w.mode, kind), wit())
				} else if batch && hasKeyless {
					run.Violation("replica-without-opt-in", keyOf("keyed-member-of-batch-with-keyless"), wit())
				} else {
					run.Violation("replica-without-opt-in", keyOf("keyed"), wit())
				}
			}
		} else {
			if !premise && !w.replicaOnly {
				run.Observe("recv_on_primary_without_opt_in", 1)
				if ic.key == "" && batch {
					run.Observe("keyless_member_not_opted_in_on_primary", 1)
				}
				if batchRule && consulted && !allMembersTrue && anyTrue(uid) {
					run.Observe("batch_not_all_true_on_primary", 1)
				}
			}
		}
		// selector fall-back
		if first && premise && !w.replicaOnly && ic.key != "" && !(w.mode == "cluster" && kind == "DoMulti" && hasKeyless) {
			w.checkSelector(run, e, ic, selCalls, keyOf, wit)
		}
	}
	if w.layout != nil {
		for _, ic := range cmdsIssued { // informative: commands for a shard that announces no online master and that no node received
			if ic.key == "" || firstSeen[ic.uid] {
				continue
			}
			if si := shardIndexOf(w.srv.SlotOwner(fakeredis.Slot(ic.key))); si >= 0 && si < len(w.flags) && w.flags[si].masterless {
				run.Observe("keyed_command_for_shard_without_online_master_reached_no_node", 1)
			}
		}
	}
	if w.mode == "cluster" && batch {
		nodes := map[string]bool{}
		for _, e := range events {
			if _, ok := mine[uidOf(e.Argv)]; ok && e.Kind == "recv" {
				nodes[e.Node] = true
			}
		}
		if len(nodes) > 1 {
			run.Observe("cluster_per_command_split", 1)
		}
	}
	nontrivial := w.nrep > 0 && (consulted || w.replicaOnly || w.predName == "unset") && recvs > 0
	run.Case(fmt.Sprintf("%s|%s|%s|%d|%s|ro=%v", w.mode, w.predName, selClass(w.selName), w.nrep, kind, w.replicaOnly), nontrivial)
	run.Sample(map[string]any{"world": cfg, "call": kind, "issued": fmt.Sprintf("%+v", cmdsIssued)})
}

func fmtSel(cs []selCall) []string {
	var out []string
	for i, c := range cs {
		if i >= 12 {
			out = append(out, "...")
			break
		}
		out = append(out, fmt.Sprintf("slot=%d candidates=%v returned=%d", c.slot, c.addrs, c.ret))
	}
	return out
}

// checkSelector: with the premise true, the first node that received the command must be the one the selector result designates.
func (w *world) checkSelector(run *mon.Run, e fakeredis.Event, ic issuedCmd, selCalls []selCall, keyOf func(string) string, wit func() map[string]any) {
	slot := uint16(fakeredis.Slot(ic.key))
	var calls []selCall
	primary := w.primary
	switch {
	case strings.HasPrefix(w.selName, "read:"):
		if w.mode == "sentinel" {
			return
		}
		if w.mode == "standalone" && (ic.uid == "" || strings.Contains(ic.uid, "ck.")) {
			return // standalone DoCache / DoMultiCache always use the primary
		}
		for _, c := range selCalls {
			if w.mode != "cluster" || c.slot == slot {
				calls = append(calls, c)
			}
		}
		if w.mode == "cluster" {
			primary = w.srv.SlotOwner(int(slot))
		}
	case strings.HasPrefix(w.selName, "replica:"):
		if w.mode != "cluster" {
			return
		}
		w.mu.Lock()
		calls = append(calls, w.slotSel[slot]...)
		w.mu.Unlock()
		primary = w.srv.SlotOwner(int(slot))
	default:
		return
	}
	if len(calls) == 0 {
		run.Observe("premise_true_but_selector_not_consulted", 1)
		return
	}
	allowed := map[string]bool{}
	outOfRange, inRange := false, false
	for _, c := range calls {
		if c.ret >= 0 && c.ret < len(c.addrs) {
			allowed[c.addrs[c.ret]] = true
			inRange = true
		} else {
			allowed[primary] = true
			outOfRange = true
		}
	}
	if !allowed[e.Node] {
		class := "selector-result-not-honoured"
		if outOfRange && !inRange {
			class = "selector-out-of-range-not-primary"
		}
		m := wit()
		m["allowed"] = sortedSet(allowed)
		m["primary"] = primary
		run.Violation(class, keyOf("slot-selector"), m)
		return
	}
	if outOfRange && !inRange {
		run.Observe("selector_out_of_range_fell_back_to_primary", 1)
	} else if inRange && !outOfRange {
		run.Observe("selector_in_range_honoured", 1)
	}
}

func sortedSet(m map[string]bool) []string {
	var s []string
	for k := range m {
		s = append(s, k)
	}
	sort.Strings(s)
	return s
}
