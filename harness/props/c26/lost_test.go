package c26

import (
	"context"
	"encoding/json"
	"fmt"
	"os"
	"strings"
	"testing"
	"time"

	"github.com/redis/rueidis"
	"verifh/drv"
	"verifh/fakeredis"
	"verifh/mon"
)

// Hook channels on a connection that is already lost.
//
// History (one child process each, because a second close / a send on a closed channel may happen in one of
// rueidis's background goroutines and then ends the process):
//
//	dc = Dedicate(); CLIENT ID; [pipelining: SetPubSubHooks #0 + SUBSCRIBE]; s.Kill(conn); the client notices
//	(a failing command / the reader's error); ch1 = SetPubSubHooks(hooks); drain ch1;
//	then, per variant: ch2 = SetPubSubHooks(other hooks) and drain / SetPubSubHooks(zero hooks) / nothing;
//	then release() or dc.Close(); then client.Close().
//
// Property clause: every channel returned by SetPubSubHooks is closed exactly once and carries at most one error.

type lostStep struct {
	Step   string
	Panic  string
	Errors []string
	Closed bool
	Nil    bool
}

type lostResult struct {
	Steps []lostStep
	Dl    string
	Err   string
}

// drainCh reads what is there without blocking (the bubble has settled before).
func drainCh(ch <-chan error) (errs []string, closed, isNil bool) {
	if ch == nil {
		return nil, false, true
	}
	for {
		select {
		case e, ok := <-ch:
			if !ok {
				return errs, true, false
			}
			errs = append(errs, fmt.Sprint(e))
			if len(errs) > 4 {
				return errs, false, false
			}
		default:
			return errs, false, false
		}
	}
}

func lostChild(t *testing.T) {
	parts := strings.Split(os.Getenv("VERIF_LOST"), ",")
	pipelining, follow, end, resp2 := parts[0] == "true", parts[1], parts[2], parts[3] == "true"
	var res lostResult
	type tracked struct {
		idx int
		ch  <-chan error
	}
	var chans []tracked
	aborted := false
	step := func(name string, fn func() <-chan error, drain bool) {
		if aborted {
			return
		}
		st := lostStep{Step: name}
		var ch <-chan error
		func() {
			defer func() {
				if p := recover(); p != nil {
					st.Panic = fmt.Sprint(p)
				}
			}()
			ch = fn()
		}()
		time.Sleep(500 * time.Millisecond) // virtual: background goroutines have done what they do
		if drain && st.Panic == "" {
			st.Errors, st.Closed, st.Nil = drainCh(ch)
			if !st.Nil && !st.Closed {
				chans = append(chans, tracked{len(res.Steps), ch})
			}
		}
		if st.Panic != "" {
			aborted = true // the wire never went back to its pool: nothing after this is meaningful
		}
		res.Steps = append(res.Steps, st)
	}
	res.Dl, _ = drv.Bubble(t, func() {
		s := fakeredis.New(fakeredis.Options{}, addr)
		opt := drv.Option(s, addr)
		opt.ForceSingleClient = true
		opt.DisableRetry = true
		opt.PipelineMultiplex = -1
		opt.AlwaysRESP2 = resp2
		opt.DisableCache = true
		opt.BlockingPoolSize = 1
		client, err := rueidis.NewClient(opt)
		if err != nil {
			res.Err = "setup: " + err.Error()
			s.Close()
			return
		}
		ctx := context.Background()
		dc, release := client.Dedicate()
		id, err := dc.Do(ctx, dc.B().Arbitrary("CLIENT").Args("ID").Build()).AsInt64()
		if err != nil {
			res.Err = "CLIENT ID: " + err.Error()
		}
		hooks := func(tag string) rueidis.PubSubHooks {
			return rueidis.PubSubHooks{OnMessage: func(rueidis.PubSubMessage) { _ = tag }}
		}
		var ch0 <-chan error
		victim := id
		if pipelining {
			ch0 = dc.SetPubSubHooks(hooks("0"))
			dc.Do(ctx, dc.B().Subscribe().Channel("lost.mk").Build())
			time.Sleep(100 * time.Millisecond)
			if c := connOfMarker(s.Log(), "lost.mk"); c != 0 {
				victim = c // (RESP2: the hooks live on the wire's second connection)
			}
		}
		s.Kill(victim)
		time.Sleep(time.Second)
		// the client notices: a wire in synchronous mode only learns it from a failing command
		dc.Do(ctx, dc.B().Arbitrary("VERIF.ECHO").Keys("k").Args("lost.probe", "str").Build())
		if resp2 && pipelining {
			dc.Do(ctx, dc.B().Subscribe().Channel("lost.mk2").Build())
		}
		time.Sleep(time.Second)
		if ch0 != nil {
			step("channel of the hooks installed before the kill", func() <-chan error { return ch0 }, true)
		}
		step("SetPubSubHooks on the lost connection", func() <-chan error { return dc.SetPubSubHooks(hooks("1")) }, true)
		switch follow {
		case "again":
			step("SetPubSubHooks again", func() <-chan error { return dc.SetPubSubHooks(hooks("2")) }, true)
		case "clear":
			step("SetPubSubHooks(zero hooks)", func() <-chan error { return dc.SetPubSubHooks(rueidis.PubSubHooks{}) }, false)
		case "inval":
			step("SetOnInvalidations", func() <-chan error { return dc.SetOnInvalidations(func([]rueidis.RedisMessage) {}) }, true)
		}
		if end == "close" {
			step("DedicatedClient.Close", func() <-chan error { dc.Close(); return nil }, false)
		} else {
			step("release", func() <-chan error { release(); return nil }, false)
		}
		// the pool hands out a fresh connection afterwards
		step("next holder", func() <-chan error {
			go client.Dedicated(func(d2 rueidis.DedicatedClient) error { // in a goroutine: it must not be able to block the bubble's main goroutine
				d2.SetPubSubHooks(hooks("3"))
				d2.Do(ctx, d2.B().Arbitrary("VERIF.ECHO").Keys("k").Args("lost.next", "str").Build())
				return nil
			})
			return nil
		}, false)
		if !aborted {
			cdone := make(chan struct{})
			go func() { client.Close(); close(cdone) }()
			time.Sleep(5 * time.Second)
			select {
			case <-cdone:
			default:
				res.Err = "client.Close did not return"
			}
			// channels that were still open (hooks on a live connection) must be closed by now, with at most one error in total
			for _, tc := range chans {
				errs, closed, _ := drainCh(tc.ch)
				st := &res.Steps[tc.idx]
				st.Errors = append(st.Errors, errs...)
				st.Closed = closed
			}
		}
		s.Close()
	})
	b, _ := json.Marshal(res)
	fmt.Printf("LOST-RESULT %s\n", b)
}

func checkLostHooks(run *mon.Run) {
	type variant struct {
		pipelining  bool
		follow, end string
		resp2       bool
	}
	var vs []variant
	for _, p := range []bool{false, true} {
		for _, f := range []string{"none", "again", "clear", "inval"} {
			vs = append(vs, variant{p, f, []string{"release", "close"}[len(vs)%2], false})
		}
	}
	vs = append(vs, variant{false, "again", "release", true}, variant{true, "again", "close", true}, variant{false, "none", "close", false}, variant{true, "none", "release", false})
	for _, v := range vs {
		name := fmt.Sprintf("pipelining=%v|then=%s|end=%s|resp2=%v", v.pipelining, v.follow, v.end, v.resp2)
		out, _ := drv.RunChild("TestC26", map[string]string{"VERIF_LOST": fmt.Sprintf("%v,%s,%s,%v", v.pipelining, v.follow, v.end, v.resp2)}, 2048)
		run.Case("lost-connection-hooks|"+name, true)
		run.Observe("lost_connection_hook_histories", 1)
		wit := map[string]any{"history": "Dedicate; CLIENT ID; [SetPubSubHooks+SUBSCRIBE when pipelining]; s.Kill(connection); a command fails; SetPubSubHooks; drain; then " + v.follow + "; then " + v.end + "; next holder; client.Close", "variant": name}
		i := strings.Index(out, "LOST-RESULT ")
		if i < 0 {
			if k := strings.Index(out, "panic: "); k >= 0 {
				msg := out[k:]
				if j := strings.IndexByte(msg, '\n'); j >= 0 {
					msg = msg[:j]
				}
				where := "background-goroutine"
				run.Violation("hook-channel-lifecycle", fmt.Sprintf("SetPubSubHooks-on-lost-connection|%s|process-panic|%s", where, strings.TrimPrefix(msg, "panic: ")), merge(wit, map[string]any{"child_output": drv.Tail(out, 4000)}))
				continue
			}
			run.Inconclusive("lost-connection hooks child gave no result: " + drv.Tail(out, 300))
			continue
		}
		line := out[i+len("LOST-RESULT "):]
		if j := strings.IndexByte(line, '\n'); j >= 0 {
			line = line[:j]
		}
		var res lostResult
		_ = json.Unmarshal([]byte(line), &res)
		wit["steps"] = res.Steps
		if res.Err != "" {
			run.Inconclusive("lost-connection hooks: " + res.Err)
			continue
		}
		if res.Dl != "" {
			run.Violation("hang-or-leak", "lost-connection-hooks|"+name, merge(wit, map[string]any{"synctest": res.Dl}))
			continue
		}
		for _, st := range res.Steps {
			switch {
			case st.Panic != "":
				run.Violation("hook-channel-lifecycle", fmt.Sprintf("SetPubSubHooks-on-lost-connection|panic-at=%s|%s", st.Step, st.Panic), wit)
			case strings.HasPrefix(st.Step, "SetPubSubHooks on") || strings.HasPrefix(st.Step, "SetPubSubHooks again") || strings.HasPrefix(st.Step, "channel of") || (st.Step == "SetOnInvalidations" && !st.Nil):
				run.Observe("lost_connection_channels_drained", 1)
				if !st.Closed || len(st.Errors) > 1 {
					run.Violation("hook-channel-lifecycle", fmt.Sprintf("SetPubSubHooks-on-lost-connection|%s|closed=%v|errors=%d", st.Step, st.Closed, len(st.Errors)), wit)
				}
				if len(st.Errors) == 1 {
					run.Observe("lost_connection_channels_with_one_error", 1)
				}
			}
		}
	}
}
