package c26

import (
	"context"
	"fmt"
	"strings"
	"sync"
	"sync/atomic"
	"testing"
	"time"

	"github.com/redis/rueidis"
	"verifh/drv"
	"verifh/fakeredis"
	"verifh/mon"
	"verifh/resp"
)

// wedgeProbe is the deterministic history behind the finding "pipe wedged by early messages":
//
//	R1 = Receive(SUBSCRIBE c), confirmed and consuming
//	R2 = Receive(SUBSCRIBE c) on the same connection; n messages for c reach the connection after R2
//	     registered itself with the pipe and before the reply of R2's SUBSCRIBE
//	then an ordinary command on the same connection.
//
// how = "push-before": the n messages are queued by a fault rule right in front of the reply of R2's SUBSCRIBE
// how = "publisher":   the server delays the reply of R2's SUBSCRIBE while a publisher publishes n messages
//
// With n <= 16 everything works. With n > 16 the connection's reader blocks in subs.Publish (R2's 16-slot channel is
// full and R2 does not read it before its SUBSCRIBE returns) while R2 waits in pipe.Do for that very reader.
type wedgeResult struct {
	n            int
	how          string
	r1Got, r2Got int
	echoErr      string // result of the ordinary command issued afterwards (deadline 30 virtual seconds)
	echoOK       bool
	r2Returned   bool
	r2Err        string
	closeHung    bool // client.Close() did not make R2 return
	deadlock     string
	frames       []string
	stacks       string
}

func wedgeProbe(t *testing.T, n int, how string, queue string, resp2 bool) (w wedgeResult) {
	w.n, w.how = n, how
	rueidis.VerifSetQueueType(queue)
	defer rueidis.VerifSetQueueType("")
	var r1Got, r2Got atomic.Int64
	w.deadlock, w.stacks = drv.Bubble(t, func() {
		s := fakeredis.New(fakeredis.Options{}, addr)
		opt := drv.Option(s, addr)
		opt.ForceSingleClient = true
		opt.DisableRetry = true
		opt.PipelineMultiplex = -1
		opt.AlwaysRESP2 = resp2
		opt.DisableCache = true
		client, err := rueidis.NewClient(opt)
		if err != nil {
			w.echoErr = "setup: " + err.Error()
			s.Close()
			return
		}
		bg := context.Background()
		confirmed := make(chan struct{})
		var once sync.Once
		ctx1 := rueidis.WithOnSubscriptionHook(bg, func(ps rueidis.PubSubSubscription) {
			if ps.Kind == "subscribe" {
				once.Do(func() { close(confirmed) })
			}
		})
		go client.Receive(ctx1, client.B().Subscribe().Channel("c").Build(), func(m rueidis.PubSubMessage) { r1Got.Add(1) })
		<-confirmed
		msgs := make([]resp.V, n)
		for i := range msgs {
			msgs[i] = resp.Push(resp.Bulk("message"), resp.Bulk("c"), resp.Bulk(fmt.Sprint("early#", i)))
		}
		switch how {
		case "push-before":
			s.Plan(&fakeredis.Rule{Name: "early-messages", Match: fakeredis.MatchCmd("SUBSCRIBE", "c"), Times: 1, Action: fakeredis.Action{PushBefore: msgs}})
		case "publisher":
			s.Plan(&fakeredis.Rule{Name: "slow-subscribe", Match: fakeredis.MatchCmd("SUBSCRIBE", "c"), Times: 1, Action: fakeredis.Action{DelayBefore: 50 * time.Millisecond}})
			go func() {
				time.Sleep(10 * time.Millisecond) // R2's SUBSCRIBE is at the server, which sits on it for 50ms
				for i := 0; i < n; i++ {
					s.Publish("c", fmt.Sprint("early#", i))
				}
			}()
		}
		r2done := make(chan error, 1)
		go func() {
			r2done <- client.Receive(bg, client.B().Subscribe().Channel("c").Build(), func(m rueidis.PubSubMessage) { r2Got.Add(1) })
		}()
		time.Sleep(time.Second) // virtual: everything that can happen has happened

		// an ordinary command on the same connection (RESP3) must still get its reply
		ectx, cancel := context.WithTimeout(bg, 30*time.Second)
		got, err := client.Do(ectx, client.B().Arbitrary("VERIF.ECHO").Keys("k").Args("after-wedge", "str").Build()).ToString()
		cancel()
		w.echoOK = err == nil && got == "echo:after-wedge"
		if err != nil {
			w.echoErr = err.Error()
		}
		// and a later Receive on another channel of that connection, too
		closeDone := make(chan struct{})
		go func() { client.Close(); close(closeDone) }()
		time.Sleep(5 * time.Second)
		select {
		case e := <-r2done:
			w.r2Returned = true
			w.r2Err = fmt.Sprint(e)
		default:
			w.closeHung = true
		}
		select {
		case <-closeDone:
		default:
		}
		s.Close()
	})
	w.r1Got, w.r2Got = int(r1Got.Load()), int(r2Got.Load())
	w.stacks = lastBubble(w.stacks)
	w.frames = drv.RueidisFrames(w.stacks)
	return w
}

func hasFrame(frames []string, sub string) bool {
	for _, f := range frames {
		if strings.Contains(f, sub) {
			return true
		}
	}
	return false
}

// checkWedge runs the probe below and above the 16-slot boundary and reports the finding.
func checkWedge(t *testing.T, run *mon.Run) {
	for _, how := range []string{"push-before", "publisher"} {
		for _, resp2 := range []bool{false, true} {
			for _, n := range []int{1, 16, 17, 20} {
				queue := []string{"flowbuffer", "ring"}[n%2]
				w := wedgeProbe(t, n, how, queue, resp2)
				run.Case(fmt.Sprintf("wedge-probe|%s|resp2=%v|n=%d", how, resp2, n), true)
				run.Observe("wedge_probe_runs", 1)
				wit := map[string]any{"history": fmt.Sprintf("R1=Receive(SUBSCRIBE c) consuming; R2=Receive(SUBSCRIBE c) on the same connection; %d messages for c reach the connection between R2's registration and the reply of its SUBSCRIBE (%s); then VERIF.ECHO with a 30s (virtual) deadline; then Close", n, how),
					"resp2": resp2, "queue": queue, "r1_delivered": w.r1Got, "r2_delivered": w.r2Got, "echo_ok": w.echoOK, "echo_err": w.echoErr, "r2_returned_after_close": w.r2Returned, "r2_err": w.r2Err,
					"synctest": w.deadlock, "rueidis_frames": w.frames, "stacks": drv.Tail(w.stacks, 16000)}
				readerStuck := hasFrame(w.frames, "(*subs).Publish")
				receiverStuck := hasFrame(w.frames, "(*pipe).Do") || hasFrame(w.frames, "(*pipe).Receive")
				switch {
				case w.deadlock != "" && readerStuck && receiverStuck:
					run.Observe("wedge_reproduced", 1)
					key := "subs.Publish<-Receive-awaiting-subscribe-reply"
					if !resp2 && w.echoOK {
						// the reader is parked for good, so this cannot happen; keep it visible if it ever does
						key += "|but-later-command-answered"
					}
					run.Violation("pipe-wedged-by-early-messages", key, wit)
				case w.deadlock != "":
					if len(w.frames) == 0 {
						run.Inconclusive("wedge probe: bubble deadlock without rueidis frames (harness)")
					} else {
						run.Violation("hang-or-leak", fmt.Sprintf("wedge-probe|%s|n=%d", how, n), wit)
					}
				default:
					// no deadlock: the probe must have behaved
					if w.r1Got != n || w.r2Got > n || (!resp2 && !w.echoOK) || !w.r2Returned || w.r2Err != rueidis.ErrClosing.Error() {
						run.Violation("wedge-probe-misbehaved", fmt.Sprintf("%s|n=%d|resp2=%v", how, n, resp2), wit)
					}
					run.Observe("wedge_probe_clean", 1)
				}
			}
		}
	}
}
