package c26

import (
	"fmt"
	"os"
	"testing"

	"verifh/mon"
)

func TestDbgBacklog(t *testing.T) {
	run := mon.Start(t, "C26", "exploration", "dbg")
	var st stats
	dbgBacklog = true
	checkBacklog(t, run, &st)
	fmt.Fprintf(os.Stdout, "stats %+v\n", st)
	for _, k := range []string{"backlog_histories", "backlog_context_ended_with_reader_parked_in_publish", "backlog_victim_had_17_or_more_undelivered_on_the_wire", "backlog_further_messages_taken_with_reader_parked_again", "backlog_receive_returned", "backlog_end_cancel", "backlog_end_deadline", "backlog_end_cancel_subscribe_in_flight", "backlog_victim_ended_before_it_stalled"} {
		fmt.Printf("obs %s=%d\n", k, run.Observed(k))
	}
	fmt.Printf("violations=%d\n", run.Violations())
}
