package c26

import (
	"context"
	"fmt"
	"math/rand"
	"path"
	"regexp"
	"runtime"
	"strconv"
	"strings"
	"sync"
	"sync/atomic"
	"testing"
	"time"

	"github.com/redis/rueidis"
	"verifh/drv"
	"verifh/fakeredis"
	"verifh/mon"
)

// Abrupt ends of a Receive whose subscription is backlogged.
//
// The clause "Receive ... returns the context error when its context ends ... and regular commands on the same connection
// keep receiving correct replies meanwhile" is quantified over every publish / consume interleaving, in particular over
// the one in which the consumer is slower than the publisher: the subscription's 16-message buffer is full and the
// connection's reader sits inside subs.Publish (holding the registry's read lock) waiting for a free slot at the very
// moment the Receive stops reading - because its context was cancelled, because its deadline passed, or because its
// context ended while its SUBSCRIBE was still in flight (the buffer then fills with messages another Receive subscribed
// to). The main workload produces that state only by luck (its slow consumers wake up when the publishers move on), so
// these histories construct it and check from a goroutine dump that it was really there:
//
//	0-2 bystander Receives that keep up (the first one covers the victim's channels: overlapping subscriptions), all on
//	the victim's connection; the victim consumes `prompt` messages, then its callback blocks; the publisher sends
//	prompt+1+16+extra messages for the victim's channels (and others); a virtual sleep lets everything that can move
//	move; the dump must show a goroutine blocked in a channel send inside (*subs).Publish; VERIF.ECHO commands are issued
//	on the connection (their replies are behind the backlog); then the context ends while the consumer is busy and the
//	consumer is let go. Whenever Receive then prefers one more message over ctx.Done() the callback gives the reader a
//	(virtual) millisecond to refill the slot and park again, so the Receive leaves with the reader parked unless it
//	keeps picking messages `extra` times in a row.
//
// Demanded afterwards (evaluate(), unchanged): the victim returned its context's error, what it delivered is a
// contiguous in-order run of its wire messages, the bystanders got every message, every echo got its own reply - also
// one issued after the end -, Close makes the rest return ErrClosing and nothing stays blocked.
//
// A violation of this kind does not end in a state synctest can name: the Receive waits for a sync.RWMutex, which is not a
// durable block, so the bubble neither advances its clock nor reports a deadlock - it just stands still. bubbleFZ
// recognises that from the structure of consecutive goroutine dumps (see there); no verdict rests on elapsed time.

type backlogCase struct {
	idx        int
	resp2      bool
	queue      string
	chunk      bool
	api        string // client | dedicated
	kind       string // "" | p | s
	end        string // cancel | deadline | cancel-subscribe-in-flight
	prompt     int
	extra      int
	bystanders int
	echoes     int
	seed       int64
}

func (bc backlogCase) String() string {
	return fmt.Sprintf("backlog#%d resp2=%v queue=%s chunk=%v api=%s kind=%q end=%s prompt=%d extra=%d bystanders=%d echoes=%d", bc.idx, bc.resp2, bc.queue, bc.chunk, bc.api, bc.kind, bc.end, bc.prompt, bc.extra, bc.bystanders, bc.echoes)
}

// backlogInfo is filled in while the history runs, so that it can be read even when the bubble never finishes.
type backlogInfo struct {
	stage        atomic.Value // string
	parkedAtEnd  atomic.Bool  // a goroutine was blocked in a channel send inside subs.Publish when the context ended
	parkedWhere  atomic.Value // string
	wireBacklog  atomic.Int64 // victim's messages on the wire minus delivered, when the context ended (-1 unknown)
	chances      atomic.Int64 // callbacks after the end that returned with the reader parked again
	victimRet    atomic.Value // string
	victimCmd    string
	victimReturn atomic.Bool
	early        atomic.Bool // the victim's Receive ended before its consumer stalled
}

var (
	bkUni = map[string][]string{"": {"q0", "q1", "q2"}, "p": {"q*", "?1", "q?"}, "s": {"shq0", "shq1"}}
	// what the publishers of these histories pick from
	bkTargets = []string{"q0", "q1", "q2", "shq0", "shq1"}
)

// hits is the number of messages one publish to target produces for a subscription of the given kind.
func hits(kind string, chans []string, target string) int {
	n := 0
	for _, c := range chans {
		switch kind {
		case "p":
			if ok, _ := path.Match(c, target); ok && !isShard(target) {
				n++
			}
		case "s":
			if c == target && isShard(target) {
				n++
			}
		default:
			if c == target && !isShard(target) {
				n++
			}
		}
	}
	return n
}

var (
	dumpMu  sync.Mutex
	dumpBuf = make([]byte, 8<<20)
	headRe  = regexp.MustCompile(`^goroutine (\d+) \[([^\]]*)\]`)
)

func dumpAll() string {
	dumpMu.Lock()
	defer dumpMu.Unlock()
	return string(dumpBuf[:runtime.Stack(dumpBuf, true)])
}

// myBubble is the synctest bubble number of the calling goroutine (-1: none).
func myBubble() int {
	buf := make([]byte, 256)
	buf = buf[:runtime.Stack(buf, false)]
	head, _, _ := strings.Cut(string(buf), "\n")
	return bubbleOf(head)
}

func bubbleOf(head string) int {
	i := strings.Index(head, "synctest bubble ")
	if i < 0 {
		return -1
	}
	n := 0
	for _, c := range head[i+len("synctest bubble "):] {
		if c < '0' || c > '9' {
			break
		}
		n = n*10 + int(c-'0')
	}
	return n
}

// readerParked looks at a goroutine dump for a goroutine of the caller's bubble that is blocked in a channel send inside
// (*subs).Publish: the connection's reader waiting for a slot of a full subscription buffer.
func readerParked() (bool, string) {
	me := myBubble()
	for _, g := range strings.Split(dumpAll(), "\n\n") {
		head, _, _ := strings.Cut(g, "\n")
		if bubbleOf(head) != me || !strings.Contains(head, "[chan send") {
			continue
		}
		if strings.Contains(g, "rueidis.(*subs).Publish(") {
			for _, f := range drv.RueidisFrames(g) {
				return true, f
			}
			return true, "(*subs).Publish"
		}
	}
	return false, ""
}

func runBacklog(run *mon.Run, bc backlogCase, info *backlogInfo) (w *world) {
	stage := func(s string) { info.stage.Store(s) }
	stage("setup")
	rng := run.Rand(fmt.Sprintf("backlog-%d", bc.idx))
	rueidis.VerifSetQueueType(bc.queue)
	defer rueidis.VerifSetQueueType("")
	s := fakeredis.New(fakeredis.Options{Seed: bc.seed, ChunkWrites: bc.chunk}, addr)
	defer s.Close()
	opt := drv.Option(s, addr)
	opt.ForceSingleClient = true
	opt.DisableRetry = true
	opt.PipelineMultiplex = -1
	opt.AlwaysRESP2 = bc.resp2
	opt.DisableCache = true
	opt.BlockingPoolSize = 2
	client, err := rueidis.NewClient(opt)
	if err != nil {
		run.Inconclusive("client setup failed: " + err.Error())
		return nil
	}
	sc := scen{idx: 1000000 + bc.idx, resp2: bc.resp2, queue: bc.queue, chunk: bc.chunk, flavor: bc.String()}
	w = &world{run: run, sc: sc, s: s, client: client, ctx: context.Background(), pubN: map[string]int{}, kills: map[int64]int64{}}
	w.pubCond = sync.NewCond(&w.pubMu)
	closed := false
	defer func() {
		if !closed {
			client.Close()
		}
	}()
	var c rueidis.CoreClient = client
	var cmdc rueidis.CommandClient = client
	who := "shared"
	dedRelease := func() {}
	if bc.api == "dedicated" {
		dc, release := client.Dedicate()
		dedRelease = release
		c, cmdc, who = dc, dc, "dedicated"
	}

	subset := func(kind string) []string {
		uni := bkUni[kind]
		perm := rng.Perm(len(uni))
		var cs []string
		for _, i := range perm[:1+rng.Intn(len(uni))] {
			cs = append(cs, uni[i])
		}
		return cs
	}
	victimChans := subset(bc.kind)
	inflight := bc.end == "cancel-subscribe-in-flight"

	// the bystanders keep up with the publisher; the first one covers the victim's channels
	var bys []*recv
	for i := 0; i < bc.bystanders; i++ {
		kind, chans := bc.kind, append([]string{}, victimChans...)
		if i == 0 {
			for _, x := range subset(kind) {
				dup := false
				for _, y := range chans {
					dup = dup || x == y
				}
				if !dup {
					chans = append(chans, x)
				}
			}
		} else {
			kind = []string{"", "p", "s"}[rng.Intn(3)]
			chans = subset(kind)
		}
		bys = append(bys, w.startRecv(c, bc.api, kind, chans, rng.Intn(4) == 0, false, 0))
	}

	// the victim
	stalled, release := make(chan struct{}), make(chan struct{})
	var ended atomic.Bool
	consume := func(n int) {
		switch {
		case n <= bc.prompt:
		case n == bc.prompt+1:
			close(stalled)
			<-release // the context ends while the consumer is busy with this message
		default:
			if ended.Load() {
				// Receive preferred one more message over ctx.Done(): let the reader put the next one into the freed slot and
				// park again. Safe in virtual time: this goroutine is the Receive, so it is not waiting for the registry's lock,
				// and nobody else of this history is ending.
				time.Sleep(time.Millisecond)
				if ok, _ := readerParked(); ok {
					info.chances.Add(1)
				}
			}
		}
	}
	deadline := time.Duration(0)
	if bc.end == "deadline" {
		deadline = time.Duration(500+rng.Intn(1500)) * time.Millisecond // well after the quiet phase (300ms) and the publishing (no virtual time)
	}
	var victim *recv
	startVictim := func() {
		victim = w.startRecvX(c, bc.api, bc.kind, victimChans, false, false, deadline, consume)
		info.victimCmd = victim.subCmd()
	}
	if !inflight {
		startVictim()
	}
	stage("quiet phase")
	w.settle()
	for _, r := range append(append([]*recv{}, bys...), victim) {
		if r == nil {
			continue
		}
		select {
		case <-r.confirmed:
		default:
			run.Inconclusive("backlog history: a subscription was not confirmed in the quiet phase: " + bc.String())
			return nil
		}
	}
	if inflight {
		// the victim's SUBSCRIBE reaches the server, which sits on it (and on everything the connection sends afterwards)
		// until Resume; the messages below are pushed because the first bystander is subscribed to the same channels
		s.Plan(&fakeredis.Rule{Name: "subscribe-in-flight", Match: fakeredis.MatchCmd(map[string]string{"": "SUBSCRIBE", "p": "PSUBSCRIBE", "s": "SSUBSCRIBE"}[bc.kind]), Times: 1, Action: fakeredis.Action{Stall: true}})
		startVictim()
		time.Sleep(10 * time.Millisecond)
	}

	// the publisher: enough messages for the victim to fill its buffer behind the stalled consumer, and more
	stage("publishing")
	var vt []string
	for _, t := range bkTargets {
		if hits(bc.kind, victimChans, t) > 0 {
			vt = append(vt, t)
		}
	}
	need := bc.prompt + 1 + 16 + bc.extra
	if inflight {
		need = 16 + 1 + bc.extra
	}
	var pwg sync.WaitGroup
	pwg.Add(1)
	prng := rand.New(rand.NewSource(rng.Int63()))
	go func() {
		defer pwg.Done()
		for sent := 0; sent < need; {
			t := vt[prng.Intn(len(vt))]
			w.publish(t)
			sent += hits(bc.kind, victimChans, t)
			if prng.Intn(3) == 0 {
				w.publish(bkTargets[prng.Intn(len(bkTargets))])
			}
			if prng.Intn(4) == 0 {
				yield(1 + prng.Intn(40))
			}
		}
	}()
	early := false
	if !inflight {
		select {
		case <-stalled:
		case <-victim.done: // it must not have ended: evaluate() will say what is wrong with its return value
			early = true
		case <-time.After(time.Hour): // virtual: the bubble was idle and the consumer never saw its message
			run.Inconclusive("backlog history: the victim's consumer never received message prompt+1 (harness): " + bc.String())
			return nil
		}
	}
	info.early.Store(early)
	pwg.Wait()
	time.Sleep(20 * time.Millisecond) // virtual, NOT a settle point of the oracle: the victim's backlog is still on its way
	stage("backlogged")
	parked, where := readerParked()
	info.parkedAtEnd.Store(parked)
	info.parkedWhere.Store(where)
	info.wireBacklog.Store(-1)
	if !inflight {
		if conn := connOfMarker(s.Log(), victim.marker); conn != 0 {
			if ct := truth(s.Log())[conn]; ct != nil {
				n := 0
				for _, p := range ct.msgs {
					ch := p.channel
					if bc.kind == "p" {
						ch = p.pattern
					}
					if p.kind == victim.msgKind() && victim.has(ch) {
						n++
					}
				}
				victim.mu.Lock()
				info.wireBacklog.Store(int64(n - len(victim.got)))
				victim.mu.Unlock()
			}
		}
	}

	// ordinary commands on the connection: with RESP3 their replies are behind the backlog
	var ewg sync.WaitGroup
	for e := 0; e < bc.echoes; e++ {
		ewg.Add(1)
		go func() {
			defer ewg.Done()
			w.echo(cmdc, who)
		}()
	}
	yield(50)

	// the end
	stage("context ends")
	if bc.end == "deadline" {
		<-victim.ctx.Done()
		victim.cancelStamp.CompareAndSwap(0, mon.Stamp())
	} else {
		w.endCtx(victim)
	}
	ended.Store(true)
	close(release)
	stage("waiting for the victim's Receive to return " + fmt.Sprint(victim.ctx.Err()))
	<-victim.done
	info.victimReturn.Store(true)
	info.victimRet.Store(fmt.Sprint(victim.ret))
	if inflight {
		s.Resume()
	}
	stage("commands after the end")
	w.echo(cmdc, who)
	if bc.api == "dedicated" {
		w.echo(client, "shared")
	}
	ewg.Wait()
	// the bystanders go on
	for i := 0; i < 6; i++ {
		w.publish(bkTargets[rng.Intn(len(bkTargets))])
	}
	w.settle()
	dedRelease() // cleans the dedicated connection's subscriptions: its Receives see unsubscribe notifications
	w.settle()
	stage("close")
	w.closeStamp = mon.Stamp()
	client.Close()
	closed = true
	time.Sleep(5 * time.Second)
	w.settle()
	stage("done")
	return w
}

// ---------------------------------------------------------------------------------------------- frozen bubbles

// bubbleFZ is drv.Bubble plus the recognition of a bubble that stands still for ever without being deadlocked in
// synctest's sense: every goroutine of the bubble is blocked, at least one of them in a way synctest does not regard as
// durable (waiting for a sync.Mutex / sync.RWMutex). Such a bubble is not idle, so its clock never advances and no timer
// fires; none of its goroutines is runnable, so nobody will ever unlock anything (the harness never touches a bubble's
// locks from outside). The real clock only decides WHEN the dumps are taken; the verdict is the structure: two
// consecutive stop-the-world dumps in which the bubble has the same goroutines, all blocked, one of them on a lock.
// The bubble cannot be cancelled: it is abandoned (its goroutines stay parked until the process ends).
func bubbleFZ(t *testing.T, fn func()) (deadlock, stacks string, frozen bool) {
	type res struct{ dl, st string }
	done := make(chan res, 1)
	var id atomic.Int64
	id.Store(-1)
	go func() {
		dl, st := drv.Bubble(t, func() {
			id.Store(int64(myBubble()))
			fn()
		})
		done <- res{dl, st}
	}()
	wait := 2 * time.Second
	prev := ""
	for {
		select {
		case r := <-done:
			return r.dl, r.st, false
		case <-time.After(wait):
		}
		wait = time.Second
		b := int(id.Load())
		if b < 0 {
			continue
		}
		sig, st, still := bubbleState(dumpAll(), b)
		if !still {
			prev = ""
			continue
		}
		if sig == prev {
			select {
			case r := <-done:
				return r.dl, r.st, false
			default:
			}
			return "", st, true
		}
		prev = sig
	}
}

// bubbleState summarises the goroutines of bubble b in a dump: still is true when all of them are blocked and at least
// one is blocked on a lock (not durably); sig identifies the goroutines and their states.
func bubbleState(dump string, b int) (sig, stacks string, still bool) {
	var keep, sigs []string
	still = true
	lock := false
	for _, g := range strings.Split(dump, "\n\n") {
		head, _, _ := strings.Cut(g, "\n")
		if bubbleOf(head) != b {
			continue
		}
		keep = append(keep, g)
		m := headRe.FindStringSubmatch(head)
		if m == nil {
			still = false
			continue
		}
		state := m[2]
		if i := strings.IndexByte(state, ','); i >= 0 {
			state = state[:i]
		}
		sigs = append(sigs, m[1]+":"+state)
		switch {
		case strings.HasPrefix(state, "sync.Mutex.Lock"), strings.HasPrefix(state, "sync.RWMutex."), strings.HasPrefix(state, "semacquire"):
			lock = true
		case strings.HasPrefix(state, "chan "), strings.HasPrefix(state, "select"), strings.HasPrefix(state, "sleep"), strings.HasPrefix(state, "sync."), strings.HasPrefix(state, "synctest"):
		default: // running, runnable, syscall, IO wait, GC ...: the bubble can still move
			still = false
		}
	}
	if len(keep) == 0 || !lock {
		still = false
	}
	return strings.Join(sigs, " "), strings.Join(keep, "\n\n"), still
}

// goroutineIn describes a goroutine of a dump that is inside fn: its state and its innermost rueidis frame. A goroutine
// waiting for a lock is preferred (several Receives are usually present; the interesting one is the one that is stuck).
func goroutineIn(stacks, fn string) (state, frame string) {
	found := false
	for _, g := range strings.Split(stacks, "\n\n") {
		if !strings.Contains(g, fn) {
			continue
		}
		head, _, _ := strings.Cut(g, "\n")
		st := ""
		if m := headRe.FindStringSubmatch(head); m != nil {
			st = m[2]
			if i := strings.IndexByte(st, ','); i >= 0 {
				st = st[:i]
			}
		}
		onLock := strings.HasPrefix(st, "sync.Mutex") || strings.HasPrefix(st, "sync.RWMutex") || strings.HasPrefix(st, "semacquire")
		if found && !onLock {
			continue
		}
		found, state, frame = true, st, ""
		if fs := drv.RueidisFrames(g); len(fs) > 0 {
			frame = fs[0]
			if i := strings.Index(frame, " @ "); i >= 0 {
				frame = frame[:i]
			}
			frame = strings.TrimPrefix(frame, "github.com/redis/rueidis.")
		}
		if onLock {
			return
		}
	}
	return
}

func checkBacklog(t *testing.T, run *mon.Run, st *stats) {
	n := run.N(36, 720)
	rng := run.Rand("backlog")
	stuck := 0
	for i := 0; i < n && stuck < 3; i++ {
		bc := backlogCase{idx: i, resp2: i%4 == 3, queue: []string{"flowbuffer", "ring"}[rng.Intn(2)], chunk: rng.Intn(2) == 0, api: []string{"client", "client", "dedicated"}[rng.Intn(3)],
			kind: []string{"", "", "p", "s"}[rng.Intn(4)], end: []string{"cancel", "deadline", "cancel-subscribe-in-flight"}[i%3], prompt: rng.Intn(6), extra: 6 + rng.Intn(10),
			bystanders: rng.Intn(3), echoes: rng.Intn(4), seed: run.Seed*100000 + 50000 + int64(i)}
		if bc.end == "cancel-subscribe-in-flight" {
			bc.prompt = 0
			if bc.bystanders == 0 {
				bc.bystanders = 1 // somebody must be subscribed already, or the server has nothing to push
			}
		}
		info := &backlogInfo{}
		var w *world
		var pan any
		dl, stacks, frozen := bubbleFZ(t, func() {
			defer func() {
				if p := recover(); p != nil {
					pan = p
				}
			}()
			if w = runBacklog(run, bc, info); w != nil {
				w.evaluate(st)
			}
		})
		run.Observe("backlog_histories", 1)
		run.Observe("backlog_end_"+strings.ReplaceAll(bc.end, "-", "_"), 1)
		if info.parkedAtEnd.Load() {
			// the essential one: the context ended while the reader was waiting inside subs.Publish for a slot of a full buffer
			run.Observe("backlog_context_ended_with_reader_parked_in_publish", 1)
		}
		if info.early.Load() {
			run.Observe("backlog_victim_ended_before_it_stalled", 1)
		}
		if info.wireBacklog.Load() >= 17 {
			run.Observe("backlog_victim_had_17_or_more_undelivered_on_the_wire", 1)
		}
		run.Observe("backlog_further_messages_taken_with_reader_parked_again", info.chances.Load())
		stg, _ := info.stage.Load().(string)
		wit := map[string]any{"history": bc.String(), "stage": stg, "reader_parked_when_context_ended": info.parkedAtEnd.Load(), "reader_at": info.parkedWhere.Load(),
			"victim_backlog_on_the_wire": info.wireBacklog.Load(), "messages_taken_after_the_end": info.chances.Load(), "victim_returned": info.victimReturn.Load()}
		resp := "resp2=" + strconv.FormatBool(bc.resp2)
		switch {
		case pan != nil:
			run.Violation("panic", "backlog|"+bc.end, merge(wit, map[string]any{"panic": fmt.Sprint(pan)}))
		case frozen || dl != "":
			stuck++
			if dl != "" {
				stacks = lastBubble(stacks)
			}
			frames := drv.RueidisFrames(stacks)
			wit = merge(wit, map[string]any{"synctest": dl, "frozen_bubble": frozen, "rueidis_frames": frames, "stacks": drv.Tail(stacks, 16000)})
			if len(frames) == 0 {
				run.Inconclusive("backlog history stands still without rueidis frames (harness): " + bc.String())
				break
			}
			rs, rf := goroutineIn(stacks, "rueidis.(*pipe).Receive(")
			ps, pf := goroutineIn(stacks, "rueidis.(*subs).Publish(")
			if !info.victimReturn.Load() && strings.HasPrefix(stg, "waiting for the victim") {
				run.Violation("receive-did-not-return", fmt.Sprintf("context-ended-while-backlogged|end=%s|%s|%s|Receive:%s[%s]|reader:%s[%s]", bc.end, info.victimCmd, resp, rf, rs, pf, ps), wit)
			} else {
				run.Violation("hang-or-leak", fmt.Sprintf("backlog|end=%s|%s|stage=%s|Receive:%s[%s]|reader:%s[%s]", bc.end, resp, strings.SplitN(stg, " ", 2)[0], rf, rs, pf, ps), wit)
			}
		case w != nil:
			if info.victimReturn.Load() {
				run.Observe("backlog_receive_returned", 1)
			}
			if i < 2 {
				run.Sample(wit)
			}
		}
	}
}
