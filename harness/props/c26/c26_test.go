// Package c26 checks property C26: Pub/Sub delivers exactly the subscribed
// messages in order; Receive's return value names the cause of its end; hook
// channels are closed once with at most one error; ordinary commands on the
// same connection keep getting their own replies.
//
// One short history per synctest bubble. A history alternates quiet phases
// (Receives on overlapping channel sets are set up while nothing is published,
// see the wedge finding in k1_test.go) and publish phases (publishers, ordinary
// VERIF.ECHO traffic, unsubscribes, forced unsubscribes, cancellations, kills
// and Receives on fresh private channels, all concurrently). Phase boundaries
// are settle points: the bubble slept (virtual time), so every byte the server
// queued before has been consumed by the client.
package c26

import (
	"context"
	"errors"
	"fmt"
	"math/rand"
	"runtime"
	"sort"
	"strconv"
	"strings"
	"sync"
	"sync/atomic"
	"testing"
	"time"

	"github.com/redis/rueidis"
	"verifh/drv"
	"verifh/fakeredis"
	"verifh/mon"
	"verifh/resp"
)

const addr = "127.0.0.1:6379"

var (
	uniChans    = []string{"a0", "a1", "b0", "b1"}
	uniPatterns = []string{"a*", "?0", "b[01]"}
	uniShards   = []string{"sh0", "sh1"}
)

type delivered struct {
	stamp int64
	m     rueidis.PubSubMessage
}

// recv is one Receive call (or, with hooks=true, one SetPubSubHooks session).
type recv struct {
	id        int
	api       string // client | dedicated | hooks
	kind      string // "" | p | s   (hooks: every kind)
	chans     []string
	marker    string
	noCancel  bool // context.Background(): the range-over-channel branch of Receive
	slow      bool
	cancel    context.CancelFunc
	ctx       context.Context // the context handed to Receive
	confirmed chan struct{}

	mu   sync.Mutex
	got  []delivered
	subs []string // OnSubscription events (hooks)

	startStamp  int64
	cancelStamp atomic.Int64 // when the driver (or a deadline) ended the context
	done        chan struct{}
	ret         error
	ctxErr      error
	retStamp    int64

	// hooks sessions
	dc                    rueidis.DedicatedClient
	release               func()
	hookCh                <-chan error
	tBeforeSet, tAfterSet int64
	endStamp              int64 // release / kill initiated by the driver
	endHow                string
}

func (r *recv) subCmd() string   { return map[string]string{"": "SUBSCRIBE", "p": "PSUBSCRIBE", "s": "SSUBSCRIBE"}[r.kind] }
func (r *recv) msgKind() string  { return map[string]string{"": "message", "p": "pmessage", "s": "smessage"}[r.kind] }
func (r *recv) unsubPush() string { return r.kind + "unsubscribe" }
func (r *recv) has(ch string) bool {
	for _, c := range r.chans {
		if c == ch {
			return true
		}
	}
	return false
}
func (r *recv) returned() bool {
	select {
	case <-r.done:
		return true
	default:
		return false
	}
}

type scen struct {
	idx       int
	resp2     bool
	queue     string
	chunk     bool
	retry     bool
	initial   int // Receives set up in the first quiet phase (1-8)
	rounds    int
	dedicated string // "" | hooks | receive
	final     string // close | cancel
	kill      bool
	seed      int64
	flavor    string // set by the constructed histories (backlog_test.go): their own description
}

func (sc scen) String() string {
	if sc.flavor != "" {
		return sc.flavor
	}
	return fmt.Sprintf("#%d resp2=%v queue=%s chunk=%v retry=%v initial=%d rounds=%d dedicated=%q final=%s kill=%v", sc.idx, sc.resp2, sc.queue, sc.chunk, sc.retry, sc.initial, sc.rounds, sc.dedicated, sc.final, sc.kill)
}

type world struct {
	run    *mon.Run
	sc     scen
	s      *fakeredis.Server
	client rueidis.Client
	ctx    context.Context

	mu         sync.Mutex
	recvs      []*recv
	pubN       map[string]int
	targets    []string // channels the publishers pick from
	settles    []int64
	closeStamp int64
	killed     atomic.Int64
	kills      map[int64]int64 // connection -> stamp taken just before the driver killed it
	echoOK     atomic.Int64
	echoErr    atomic.Int64
	echoSeq    atomic.Int64
	published  atomic.Int64
	nextID     int

	pubMu       sync.Mutex
	pubCond     *sync.Cond
	pubCount    int
	phaseActive bool
	stalls      atomic.Int64
}

func (w *world) wit(extra map[string]any) map[string]any {
	m := map[string]any{"scenario": w.sc.String()}
	for k, v := range extra {
		m[k] = v
	}
	return m
}

func (w *world) settle() {
	time.Sleep(300 * time.Millisecond)
	st := mon.Stamp()
	w.mu.Lock()
	w.settles = append(w.settles, st)
	w.mu.Unlock()
}

func (w *world) settleBefore(stamp int64) int64 {
	var best int64
	for _, s := range w.settles {
		if s <= stamp && s > best {
			best = s
		}
	}
	return best
}

// yield lets other goroutines run n times. The publish phase never sleeps in virtual time: while the connection's reader
// waits for a slow consumer it holds subs' RWMutex, a Receive that is ending waits for that mutex, a goroutine waiting
// for a mutex is not durably blocked, so the bubble's clock stands still until the consumer moves on - which it does
// when the publishers make progress, not when time passes.
func yield(n int) {
	for i := 0; i < n; i++ {
		runtime.Gosched()
	}
}

func isShard(ch string) bool { return strings.HasPrefix(ch, "sh") || strings.HasPrefix(ch, "smk") }

func (w *world) publish(ch string) {
	w.mu.Lock()
	w.pubN[ch]++
	n := w.pubN[ch]
	w.mu.Unlock()
	payload := ch + "#" + strconv.Itoa(n)
	if isShard(ch) {
		w.s.SPublish(ch, payload)
	} else {
		w.s.Publish(ch, payload)
	}
	w.published.Add(1)
	w.pubMu.Lock()
	w.pubCount++
	w.pubMu.Unlock()
	w.pubCond.Broadcast()
}

// stall blocks until n more messages were published or no publish phase is active.
func (w *world) stall(n int) {
	w.pubMu.Lock()
	target := w.pubCount + n
	for w.phaseActive && w.pubCount < target {
		w.pubCond.Wait()
	}
	w.pubMu.Unlock()
	w.stalls.Add(1)
}

func (w *world) kill(conn int64) {
	st := mon.Stamp()
	w.mu.Lock()
	w.kills[conn] = st
	w.mu.Unlock()
	w.killed.Store(st)
	w.s.Kill(conn)
}

// lostAt is the stamp at which the driver began to kill the connection (0: it did not).
func (w *world) lostAt(conn int64) int64 {
	w.mu.Lock()
	defer w.mu.Unlock()
	return w.kills[conn]
}

func (w *world) setPhase(active bool) {
	w.pubMu.Lock()
	w.phaseActive = active
	w.pubMu.Unlock()
	w.pubCond.Broadcast()
}

func (w *world) addTargets(chs ...string) {
	w.mu.Lock()
	w.targets = append(w.targets, chs...)
	w.mu.Unlock()
}

func (w *world) pickTarget(rng *rand.Rand) string {
	w.mu.Lock()
	defer w.mu.Unlock()
	return w.targets[rng.Intn(len(w.targets))]
}

func (w *world) live(pred func(*recv) bool) []*recv {
	w.mu.Lock()
	defer w.mu.Unlock()
	var out []*recv
	for _, r := range w.recvs {
		if !r.returned() && (pred == nil || pred(r)) {
			out = append(out, r)
		}
	}
	return out
}

func subscribeCmd(c rueidis.CoreClient, kind string, chans []string) rueidis.Completed {
	switch kind {
	case "p":
		return c.B().Psubscribe().Pattern(chans...).Build()
	case "s":
		return c.B().Ssubscribe().Channel(chans...).Build()
	}
	return c.B().Subscribe().Channel(chans...).Build()
}

func unsubscribeCmd(c rueidis.CoreClient, kind string, chans []string) rueidis.Completed {
	switch kind {
	case "p":
		if len(chans) == 0 {
			return c.B().Punsubscribe().Build()
		}
		return c.B().Punsubscribe().Pattern(chans...).Build()
	case "s":
		if len(chans) == 0 {
			return c.B().Sunsubscribe().Build()
		}
		return c.B().Sunsubscribe().Channel(chans...).Build()
	}
	if len(chans) == 0 {
		return c.B().Unsubscribe().Build()
	}
	return c.B().Unsubscribe().Channel(chans...).Build()
}

func markerFor(kind string, id int) string {
	switch kind {
	case "p":
		return fmt.Sprintf("mk%dx*", id)
	case "s":
		return fmt.Sprintf("smk%dx", id)
	}
	return fmt.Sprintf("mk%dx", id)
}

// startRecv starts one Receive on c (the shared client or a dedicated one). deadline > 0 ends its context by deadline.
func (w *world) startRecv(c rueidis.CoreClient, api, kind string, chans []string, noCancel, slow bool, deadline time.Duration) *recv {
	return w.startRecvX(c, api, kind, chans, noCancel, slow, deadline, nil)
}

// startRecvX is startRecv with a consumer of the caller's choice: consume(n) runs inside the callback of the n-th message.
func (w *world) startRecvX(c rueidis.CoreClient, api, kind string, chans []string, noCancel, slow bool, deadline time.Duration, consume func(n int)) *recv {
	w.mu.Lock()
	w.nextID++
	id := w.nextID
	w.mu.Unlock()
	r := &recv{id: id, api: api, kind: kind, noCancel: noCancel, slow: slow, confirmed: make(chan struct{}), done: make(chan struct{})}
	r.marker = markerFor(kind, id)
	r.chans = append(append([]string{}, chans...), r.marker)
	var once sync.Once
	ctx := context.Background()
	switch {
	case noCancel:
		r.cancel = func() {}
	case deadline > 0:
		ctx, r.cancel = context.WithTimeout(ctx, deadline)
		go func(ctx context.Context) {
			<-ctx.Done()
			r.cancelStamp.CompareAndSwap(0, mon.Stamp())
		}(ctx)
	default:
		ctx, r.cancel = context.WithCancel(ctx)
	}
	ctx = rueidis.WithOnSubscriptionHook(ctx, func(ps rueidis.PubSubSubscription) {
		// the marker is the last channel of the command: its confirmation means the whole SUBSCRIBE was processed
		if strings.HasSuffix(ps.Kind, "subscribe") && !strings.Contains(ps.Kind, "unsub") && ps.Channel == r.marker {
			once.Do(func() { close(r.confirmed) })
		}
	})
	cmd := subscribeCmd(c, kind, r.chans)
	r.ctx = ctx
	w.mu.Lock()
	w.recvs = append(w.recvs, r)
	w.mu.Unlock()
	r.startStamp = mon.Stamp()
	go func() {
		n := 0
		err := c.Receive(ctx, cmd, func(m rueidis.PubSubMessage) {
			r.mu.Lock()
			r.got = append(r.got, delivered{mon.Stamp(), m})
			r.mu.Unlock()
			n++
			if consume != nil {
				consume(n)
			}
			if slow && n%7 == 3 {
				// a slow consumer: it stalls until 24 more messages have been published (or the publish phase is over), so its
				// 16-slot channel fills up and the connection's reader has to wait for it. Not a virtual sleep: the reader holds
				// subs' RWMutex while it hands a message over, a goroutine waiting for that mutex is not durably blocked, and
				// virtual time would freeze.
				w.stall(24)
			}
		})
		r.ret, r.ctxErr = err, ctx.Err()
		r.retStamp = mon.Stamp()
		close(r.done)
	}()
	return r
}

func (w *world) endCtx(r *recv) {
	r.cancelStamp.CompareAndSwap(0, mon.Stamp())
	r.cancel()
}

// startHooks opens a dedicated client that receives through SetPubSubHooks and subscribes with plain Do.
func (w *world) startHooks(chans, patterns, shards []string) *recv {
	w.mu.Lock()
	w.nextID++
	id := w.nextID
	w.mu.Unlock()
	r := &recv{id: id, api: "hooks", confirmed: make(chan struct{}), done: make(chan struct{})}
	r.marker = markerFor("", id)
	r.chans = append(append(append(append([]string{}, chans...), patterns...), shards...), r.marker)
	r.dc, r.release = w.client.Dedicate()
	r.startStamp = mon.Stamp()
	r.tBeforeSet = mon.Stamp()
	r.hookCh = r.dc.SetPubSubHooks(rueidis.PubSubHooks{
		OnMessage: func(m rueidis.PubSubMessage) {
			r.mu.Lock()
			r.got = append(r.got, delivered{mon.Stamp(), m})
			r.mu.Unlock()
		},
		OnSubscription: func(ps rueidis.PubSubSubscription) {
			r.mu.Lock()
			r.subs = append(r.subs, ps.Kind+" "+ps.Channel)
			r.mu.Unlock()
		},
	})
	r.tAfterSet = mon.Stamp()
	r.dc.Do(w.ctx, subscribeCmd(r.dc, "", append(append([]string{}, chans...), r.marker)))
	if len(patterns) > 0 {
		r.dc.Do(w.ctx, subscribeCmd(r.dc, "p", patterns))
	}
	if len(shards) > 0 {
		r.dc.Do(w.ctx, subscribeCmd(r.dc, "s", shards))
	}
	w.mu.Lock()
	w.recvs = append(w.recvs, r)
	w.mu.Unlock()
	return r
}

// connOfMarker finds the connection on which a subscribe command carrying marker was executed (0 = none yet).
func connOfMarker(log []fakeredis.Event, marker string) int64 {
	var c int64
	for _, e := range log {
		if e.Kind == "exec" && len(e.Argv) > 1 && strings.HasSuffix(strings.ToUpper(e.Argv[0]), "SUBSCRIBE") && !strings.Contains(strings.ToUpper(e.Argv[0]), "UNSUB") {
			for _, a := range e.Argv[1:] {
				if a == marker {
					c = e.Conn
				}
			}
		}
	}
	return c
}

func (w *world) echo(c rueidis.CommandClient, who string) {
	u := fmt.Sprintf("e%d.%s.%d", w.sc.idx, who, w.echoSeq.Add(1))
	shape := []string{"str", "int", "arr", "map", "nil", "simple"}[int(w.echoSeq.Load())%6]
	res := c.Do(w.ctx, c.B().Arbitrary("VERIF.ECHO").Keys("k").Args(u, shape).Build())
	if err := res.NonRedisError(); err != nil {
		w.echoErr.Add(1)
		if w.killed.Load() == 0 && w.closeStamp == 0 && !errors.Is(err, rueidis.ErrDedicatedClientRecycled) {
			w.run.Violation("command-failed-next-to-pubsub", "echo|"+fmt.Sprint(err), w.wit(map[string]any{"uid": u, "err": err.Error()}))
		}
		return
	}
	msg, _ := res.ToMessage()
	want := fakeredis.EchoValue(u, shape)
	if w.sc.resp2 {
		want = resp.ToRESP2(want)
	}
	if got := rueidis.VerifDump(msg); !drv.NodeEqual(got, drv.ExpectNode(want)) {
		w.run.Violation("wrong-reply", "echo-next-to-pubsub|"+shape, w.wit(map[string]any{"uid": u, "shape": shape, "got": drv.NodeString(got), "want": drv.NodeString(drv.ExpectNode(want))}))
		return
	}
	w.echoOK.Add(1)
}

type action struct {
	what  string
	kind  string
	chans []string
	n     int
}

// publishPhase runs publishers, echo traffic and the prepared actions concurrently, then settles.
func (w *world) publishPhase(round int, rng *rand.Rand, hooks *recv, dedRecvClient rueidis.DedicatedClient) {
	var wg, pwg sync.WaitGroup
	pubs, per := 2+rng.Intn(2), 12+rng.Intn(20)
	w.setPhase(true)
	for p := 0; p < pubs; p++ {
		wg.Add(1)
		pwg.Add(1)
		prng := rand.New(rand.NewSource(rng.Int63()))
		go func() {
			defer wg.Done()
			defer pwg.Done()
			for i := 0; i < per; i++ {
				w.publish(w.pickTarget(prng))
				if prng.Intn(4) == 0 {
					yield(1 + prng.Intn(60))
				}
			}
		}()
	}
	for e := 0; e < 2; e++ {
		wg.Add(1)
		go func() {
			defer wg.Done()
			for i := 0; i < 10; i++ {
				w.echo(w.client, "shared")
				if hooks != nil && e == 0 && hooks.endStamp == 0 {
					w.echo(hooks.dc, "hooks")
				}
			}
		}()
	}
	wg.Add(1)
	go func() { // stalled consumers are let go once the publishers are done
		defer wg.Done()
		pwg.Wait()
		w.setPhase(false)
	}()
	// the actions of this phase, decided now (deterministic), executed while messages flow
	var acts []action
	na := 1 + rng.Intn(4)
	for i := 0; i < na; i++ {
		kind := []string{"", "", "p", "s"}[rng.Intn(4)]
		uni := map[string][]string{"": uniChans, "p": uniPatterns, "s": uniShards}[kind]
		switch x := rng.Intn(20); {
		case x < 6:
			n := 1 + rng.Intn(2)
			var cs []string
			for j := 0; j < n; j++ {
				cs = append(cs, uni[rng.Intn(len(uni))])
			}
			acts = append(acts, action{what: "unsub", kind: kind, chans: cs})
		case x < 8:
			acts = append(acts, action{what: "unsub-marker", n: rng.Intn(100)})
		case x < 10:
			acts = append(acts, action{what: "unsub-all", kind: kind})
		case x < 12:
			acts = append(acts, action{what: "force", kind: kind, chans: []string{uni[rng.Intn(len(uni))]}})
		case x < 15:
			acts = append(acts, action{what: "cancel", n: rng.Intn(100)})
		case x < 18:
			acts = append(acts, action{what: "fresh", kind: kind, n: rng.Intn(100)})
		default:
			acts = append(acts, action{what: "ded-unsub", kind: kind, n: rng.Intn(100)})
		}
	}
	if w.sc.kill && round == w.sc.rounds-1 {
		acts = append(acts, action{what: "kill", n: rng.Intn(100)})
	}
	wg.Add(1)
	go func() {
		defer wg.Done()
		for _, a := range acts {
			yield(20 + a.n*3)
			switch a.what {
			case "unsub":
				w.client.Do(w.ctx, unsubscribeCmd(w.client, a.kind, a.chans))
			case "unsub-all":
				w.client.Do(w.ctx, unsubscribeCmd(w.client, a.kind, nil))
			case "unsub-marker":
				if l := w.live(func(r *recv) bool { return r.api == "client" }); len(l) > 0 {
					r := l[a.n%len(l)]
					w.client.Do(w.ctx, unsubscribeCmd(w.client, r.kind, []string{r.marker}))
				}
			case "ded-unsub":
				// an explicit unsubscribe through the dedicated client that runs a Receive / the hooks
				if l := w.live(func(r *recv) bool { return r.api == "dedicated" }); len(l) > 0 && dedRecvClient != nil {
					r := l[a.n%len(l)]
					dedRecvClient.Do(w.ctx, unsubscribeCmd(dedRecvClient, r.kind, []string{r.chans[a.n%len(r.chans)]}))
				} else if hooks != nil && hooks.endStamp == 0 {
					hooks.dc.Do(w.ctx, unsubscribeCmd(hooks.dc, "", []string{uniChans[a.n%len(uniChans)]}))
				}
			case "force":
				if l := w.live(func(r *recv) bool { return r.api == "client" }); len(l) > 0 {
					if c := connOfMarker(w.s.Log(), l[0].marker); c != 0 {
						w.s.ForceUnsubscribe(c, a.kind, a.chans[0])
					}
				}
			case "cancel":
				if l := w.live(func(r *recv) bool { return !r.noCancel && r.api != "hooks" }); len(l) > 0 {
					w.endCtx(l[a.n%len(l)])
				}
			case "fresh":
				// a Receive on channels nobody used before: safe to set up while messages flow
				w.mu.Lock()
				w.nextID++
				fid := w.nextID
				w.mu.Unlock()
				var ch string
				switch a.kind {
				case "p":
					ch = fmt.Sprintf("fr%dx*", fid)
					w.addTargets(fmt.Sprintf("fr%dx1", fid), fmt.Sprintf("fr%dx2", fid))
				case "s":
					ch = fmt.Sprintf("shfr%dx", fid)
					w.addTargets(ch)
				default:
					ch = fmt.Sprintf("fr%dx", fid)
					w.addTargets(ch)
				}
				dl := time.Duration(0)
				if a.n%3 == 0 {
					dl = time.Duration(1000+a.n*13) * time.Microsecond
				}
				r := w.startRecv(w.client, "client", a.kind, []string{ch}, false, a.n%2 == 0, dl)
				if a.kind != "p" {
					w.addTargets(r.marker)
				}
			case "kill":
				var victim int64
				if l := w.live(func(r *recv) bool { return r.api == "client" }); len(l) > 0 {
					victim = connOfMarker(w.s.Log(), l[a.n%len(l)].marker)
				}
				if victim != 0 {
					w.kill(victim)
				}
			}
		}
	}()
	wg.Wait()
	w.settle()
}

func runScenario(run *mon.Run, sc scen) (w *world) {
	rng := run.Rand(fmt.Sprintf("scenario-%d", sc.idx))
	rueidis.VerifSetQueueType(sc.queue)
	defer rueidis.VerifSetQueueType("")
	s := fakeredis.New(fakeredis.Options{Seed: sc.seed, ChunkWrites: sc.chunk}, addr)
	defer s.Close()
	opt := drv.Option(s, addr)
	opt.ForceSingleClient = true
	opt.DisableRetry = !sc.retry
	opt.PipelineMultiplex = -1
	opt.AlwaysRESP2 = sc.resp2
	opt.DisableCache = true
	opt.BlockingPoolSize = 2
	client, err := rueidis.NewClient(opt)
	if err != nil {
		run.Inconclusive("client setup failed: " + err.Error())
		return nil
	}
	w = &world{run: run, sc: sc, s: s, client: client, ctx: context.Background(), pubN: map[string]int{}, kills: map[int64]int64{}}
	w.pubCond = sync.NewCond(&w.pubMu)
	w.addTargets(uniChans...)
	w.addTargets(uniChans...) // weight
	w.addTargets(uniShards...)
	closed := false
	defer func() {
		if !closed {
			client.Close()
		}
	}()

	pickSet := func(kind string) []string {
		uni := map[string][]string{"": uniChans, "p": uniPatterns, "s": uniShards}[kind]
		n := 1 + rng.Intn(len(uni))
		perm := rng.Perm(len(uni))
		var cs []string
		for _, i := range perm[:n] {
			cs = append(cs, uni[i])
		}
		return cs
	}
	var hooks *recv
	var dedClient rueidis.DedicatedClient
	var dedRelease func()
	quiet := func(n int) {
		// nothing is being published: Receives with overlapping sets are set up concurrently
		var started []*recv
		for i := 0; i < n; i++ {
			kind := []string{"", "", "", "p", "p", "s"}[rng.Intn(6)]
			r := w.startRecv(client, "client", kind, pickSet(kind), rng.Intn(6) == 0, rng.Intn(4) == 0, 0)
			if kind != "p" {
				w.addTargets(r.marker)
			}
			started = append(started, r)
		}
		if sc.dedicated == "receive" && dedClient != nil && rng.Intn(2) == 0 {
			kind := []string{"", "p", "s"}[rng.Intn(3)]
			started = append(started, w.startRecv(dedClient, "dedicated", kind, pickSet(kind), false, false, 0))
		}
		w.settle()
		for _, r := range started {
			select {
			case <-r.confirmed:
				run.Observe("receives_confirmed_by_subscription_hook", 1)
			default:
			}
		}
	}

	switch sc.dedicated {
	case "hooks":
		hooks = w.startHooks(pickSet(""), pickSet("p")[:1], pickSet("s")[:1])
	case "receive":
		dedClient, dedRelease = client.Dedicate()
	}
	quiet(sc.initial)
	for round := 0; round < sc.rounds; round++ {
		w.publishPhase(round, rng, hooks, dedClient)
		if round == sc.rounds-1 {
			break
		}
		quiet(rng.Intn(4))
	}
	// the dedicated parts end first
	if hooks != nil {
		hooks.endStamp = mon.Stamp()
		if rng.Intn(3) == 0 {
			hooks.endHow = "kill"
			if c := connOfMarker(s.Log(), hooks.marker); c != 0 {
				w.kill(c)
			}
			time.Sleep(300 * time.Millisecond)
			hooks.release()
		} else {
			hooks.endHow = "release"
			hooks.release()
		}
		close(hooks.done)
	}
	if dedRelease != nil {
		// releasing the dedicated client cleans its subscriptions: its Receives see unsubscribe notifications
		dedRelease()
	}
	w.settle()
	if sc.final == "cancel" {
		for _, r := range w.live(func(r *recv) bool { return !r.noCancel && r.api != "hooks" }) {
			w.endCtx(r)
		}
		w.settle()
	}
	w.closeStamp = mon.Stamp()
	client.Close()
	closed = true
	time.Sleep(5 * time.Second) // a Receive sleeping in its retry back-off (up to 1s) notices the Close only afterwards
	w.settle()
	return w
}

// ------------------------------------------------------------------ the oracle

type wirePush struct {
	seq                             int64
	kind, pattern, channel, payload string
}

type connTruth struct {
	msgs     []wirePush // message / pmessage / smessage pushes, wire order
	unsubs   []wirePush // (p|s)unsubscribe pushes: kind, channel
	closeSeq int64
}

func truth(log []fakeredis.Event) map[int64]*connTruth {
	m := map[int64]*connTruth{}
	get := func(id int64) *connTruth {
		if m[id] == nil {
			m[id] = &connTruth{}
		}
		return m[id]
	}
	for _, e := range log {
		switch e.Kind {
		case "close":
			get(e.Conn).closeSeq = e.Seq
		case "push":
			a := e.Reply.A
			if len(a) < 3 {
				continue
			}
			switch a[0].S {
			case "message", "smessage":
				get(e.Conn).msgs = append(get(e.Conn).msgs, wirePush{seq: e.Seq, kind: a[0].S, channel: a[1].S, payload: a[2].S})
			case "pmessage":
				if len(a) >= 4 {
					get(e.Conn).msgs = append(get(e.Conn).msgs, wirePush{seq: e.Seq, kind: a[0].S, pattern: a[1].S, channel: a[2].S, payload: a[3].S})
				}
			case "unsubscribe", "punsubscribe", "sunsubscribe":
				if !a[1].IsNull() {
					get(e.Conn).unsubs = append(get(e.Conn).unsubs, wirePush{seq: e.Seq, kind: a[0].S, channel: a[1].S})
				}
			}
		}
	}
	return m
}

type segment struct {
	conn   int64
	subSeq int64
}

func segmentsOf(log []fakeredis.Event, r *recv) []segment {
	var out []segment
	for _, e := range log {
		if e.Kind != "exec" || len(e.Argv) < 2 {
			continue
		}
		name := strings.ToUpper(e.Argv[0])
		if !strings.HasSuffix(name, "SUBSCRIBE") || strings.Contains(name, "UNSUB") {
			continue
		}
		for _, a := range e.Argv[1:] {
			if a == r.marker {
				// (fakeredis logs the execution of a subscribe twice; a connection is subscribed with this marker once)
				if len(out) == 0 || out[len(out)-1].conn != e.Conn {
					out = append(out, segment{e.Conn, e.Seq})
				}
				break
			}
		}
	}
	return out
}

func errClass(err error) string {
	switch {
	case err == nil:
		return "nil"
	case errors.Is(err, rueidis.ErrClosing):
		return "ErrClosing"
	case errors.Is(err, context.Canceled):
		return "Canceled"
	case errors.Is(err, context.DeadlineExceeded):
		return "DeadlineExceeded"
	}
	return "conn-error"
}

type stats struct {
	receives, hooksSessions, delivered, mustChecked                                   int
	retNil, retClosing, retCtx, retConn, neverSubscribed, overlapped, retrySegments int
	hookChannels, echoOK, echoErr, published, killed, stalls                          int
}

func (w *world) evaluate(st *stats) {
	run := w.run
	log := w.s.Log()
	tr := truth(log)
	w.mu.Lock()
	recvs := append([]*recv(nil), w.recvs...)
	w.mu.Unlock()
	st.echoOK += int(w.echoOK.Load())
	st.echoErr += int(w.echoErr.Load())
	st.published += int(w.published.Load())
	st.stalls += int(w.stalls.Load())
	if w.killed.Load() != 0 {
		st.killed++
	}
	for _, r := range recvs {
		if r.api == "hooks" {
			w.evalHooks(r, log, tr, st)
			continue
		}
		st.receives++
		key := func(s string) string { return fmt.Sprintf("%s|%s|resp2=%v", s, r.subCmd(), w.sc.resp2) }
		base := map[string]any{"receive": fmt.Sprintf("#%d api=%s %s %v noCancel=%v", r.id, r.api, r.subCmd(), r.chans, r.noCancel)}
		if !r.returned() {
			run.Violation("receive-did-not-return", key("after-close"), w.wit(base))
			continue
		}
		r.mu.Lock()
		got := append([]delivered(nil), r.got...)
		r.mu.Unlock()
		st.delivered += len(got)
		segs := segmentsOf(log, r)
		if len(segs) > 1 {
			st.retrySegments++
		}
		base["returned"] = fmt.Sprint(r.ret)
		base["delivered"] = len(got)

		// relevant pushes per segment connection
		rel := map[int64][]wirePush{}
		pos := map[int64]map[string]int{}
		for _, sg := range segs {
			if _, ok := rel[sg.conn]; ok || tr[sg.conn] == nil {
				continue
			}
			idx := map[string]int{}
			for _, p := range tr[sg.conn].msgs {
				if p.kind != r.msgKind() {
					continue
				}
				ch := p.channel
				if r.kind == "p" {
					ch = p.pattern
				}
				if !r.has(ch) {
					continue
				}
				idx[p.pattern+"\x00"+p.channel+"\x00"+p.payload] = len(rel[sg.conn])
				rel[sg.conn] = append(rel[sg.conn], p)
			}
			pos[sg.conn] = idx
		}
		// 1. every delivered message is a push for one of R's channels on R's connection(s); in wire order, no duplicate, no gap
		lastSeg, lastPos := -1, -1
		firstPos := map[int]int{}
		lastPosOf := map[int]int{}
		bad := false
		for i, d := range got {
			ch := d.m.Channel
			if r.kind == "p" {
				ch = d.m.Pattern
			}
			if !r.has(ch) {
				run.Violation("foreign-message-delivered", key("not-subscribed"), w.wit(merge(base, map[string]any{"message": d.m, "index": i})))
				bad = true
				break
			}
			k := d.m.Pattern + "\x00" + d.m.Channel + "\x00" + d.m.Message
			si, p := -1, -1
			for j, sg := range segs {
				if j < lastSeg {
					continue
				}
				if q, ok := pos[sg.conn][k]; ok {
					si, p = j, q
					break
				}
			}
			if si < 0 {
				run.Violation("unknown-message-delivered", key("not-on-the-wire"), w.wit(merge(base, map[string]any{"message": d.m, "index": i})))
				bad = true
				break
			}
			if si == lastSeg || (lastSeg >= 0 && segs[si].conn == segs[lastSeg].conn) {
				if p <= lastPos {
					run.Violation("duplicate-or-reordered-message", key("order"), w.wit(merge(base, map[string]any{"message": d.m, "index": i, "wire_position": p, "previous_wire_position": lastPos})))
					bad = true
					break
				}
				if p != lastPos+1 {
					run.Violation("message-lost", key("gap"), w.wit(merge(base, map[string]any{"after_index": i - 1, "skipped": describe(rel[segs[si].conn][lastPos+1 : p])})))
					bad = true
					break
				}
			} else {
				firstPos[si] = p
			}
			lastSeg, lastPos = si, p
			lastPosOf[si] = p
		}
		if bad {
			continue
		}
		// 2. completeness per segment
		var abrupt []int64 // stamps of ends that may cut delivery short
		if cs := r.cancelStamp.Load(); cs != 0 {
			abrupt = append(abrupt, cs)
		}
		if w.closeStamp != 0 {
			abrupt = append(abrupt, w.closeStamp)
		}
		var unsubSeq int64 // first unsubscribe notification for one of R's channels on its last connection, after R started
		for si, sg := range segs {
			ct := tr[sg.conn]
			if ct == nil {
				continue
			}
			bound := int64(1) << 62
			for _, a := range abrupt {
				if sb := w.settleBefore(a); sb < bound {
					bound = sb
				}
			}
			if k := w.lostAt(sg.conn); k != 0 {
				if sb := w.settleBefore(k); sb < bound {
					bound = sb
				}
			}
			var us int64
			for _, u := range ct.unsubs {
				if u.kind == r.unsubPush() && r.has(u.channel) && u.seq > r.startStamp {
					us = u.seq
					break
				}
			}
			if si == len(segs)-1 {
				unsubSeq = us
			}
			if us != 0 && us < bound {
				bound = us
			}
			if r.retStamp < bound {
				bound = r.retStamp
			}
			// the run delivered from this segment must start no later than the first relevant push after the subscribe
			// and reach the last one before bound
			var must []int
			for i, p := range rel[sg.conn] {
				if p.seq > sg.subSeq && p.seq < bound {
					must = append(must, i)
				}
			}
			if len(must) == 0 {
				continue
			}
			st.mustChecked += len(must)
			fp, ok1 := firstPos[si]
			lp := lastPosOf[si]
			if !ok1 || fp > must[0] || lp < must[len(must)-1] {
				var missing []wirePush
				for _, i := range must {
					if !ok1 || i < fp || i > lp {
						missing = append(missing, rel[sg.conn][i])
					}
				}
				cause := "abrupt-end"
				if us != 0 && bound == us {
					cause = "before-unsubscribe"
				}
				run.Violation("message-lost", key(cause), w.wit(merge(base, map[string]any{"connection": sg.conn, "subscribe_seq": sg.subSeq, "bound_seq": bound, "missing": describe(missing), "delivered_first_last_wire_position": []int{fp, lp}})))
				bad = true
				break
			}
		}
		if bad {
			continue
		}
		// 3. the return value names a cause that was present
		allowed := map[string]bool{}
		var causes []string
		if len(segs) == 0 {
			allowed["conn-error"], allowed["ErrClosing"], allowed["Canceled"], allowed["DeadlineExceeded"] = true, true, true, true
			causes = append(causes, "subscribe-never-reached-server")
			st.neverSubscribed++
		}
		if unsubSeq != 0 && unsubSeq < r.retStamp {
			allowed["nil"] = true
			causes = append(causes, "unsubscribe")
		}
		if r.ctxErr != nil {
			allowed[errClass(r.ctxErr)] = true
			causes = append(causes, "context")
		}
		if w.closeStamp != 0 && w.closeStamp < r.retStamp {
			allowed["ErrClosing"] = true
			causes = append(causes, "close")
		}
		for _, sg := range segs {
			if k := w.lostAt(sg.conn); k != 0 && k < r.retStamp {
				allowed["conn-error"] = true
				causes = append(causes, "connection-lost")
			}
		}
		sort.Strings(causes)
		cls := errClass(r.ret)
		switch cls {
		case "nil":
			st.retNil++
		case "ErrClosing":
			st.retClosing++
		case "Canceled", "DeadlineExceeded":
			st.retCtx++
		default:
			st.retConn++
		}
		if !allowed[cls] {
			run.Violation("wrong-return-value", key(fmt.Sprintf("returned=%s|causes=%s", cls, strings.Join(causes, "+"))), w.wit(merge(base, map[string]any{"causes": causes, "error": fmt.Sprint(r.ret)})))
		}
		ov := 0
		for _, o := range recvs {
			if o != r && o.kind == r.kind && o.api == r.api {
				for _, c := range o.chans {
					if c != o.marker && r.has(c) {
						ov = 1
					}
				}
			}
		}
		st.overlapped += ov
		b := len(got)
		if b > 3 {
			b = 3 + b/16
		}
		run.Case(fmt.Sprintf("recv|%s|%s|resp2=%v|n=%d|ret=%s|causes=%s|ov=%d|d=%d|segs=%d|nocancel=%v", r.api, r.subCmd(), w.sc.resp2, len(r.chans), cls, strings.Join(causes, "+"), ov, b, len(segs), r.noCancel), len(got) > 0 || len(causes) > 0)
	}
}

func (w *world) evalHooks(r *recv, log []fakeredis.Event, tr map[int64]*connTruth, st *stats) {
	run := w.run
	st.hooksSessions++
	key := func(s string) string { return fmt.Sprintf("%s|hooks|resp2=%v", s, w.sc.resp2) }
	base := map[string]any{"session": fmt.Sprintf("#%d hooks %v end=%s", r.id, r.chans, r.endHow)}
	conn := connOfMarker(log, r.marker)
	r.mu.Lock()
	got := append([]delivered(nil), r.got...)
	r.mu.Unlock()
	st.delivered += len(got)
	var rel []wirePush
	idx := map[string]int{}
	if ct := tr[conn]; ct != nil {
		for _, p := range ct.msgs {
			idx[p.pattern+"\x00"+p.channel+"\x00"+p.payload] = len(rel)
			rel = append(rel, p)
		}
	}
	last := -1
	first := -1
	for i, d := range got {
		p, ok := idx[d.m.Pattern+"\x00"+d.m.Channel+"\x00"+d.m.Message]
		if !ok {
			run.Violation("unknown-message-delivered", key("not-on-the-wire"), w.wit(merge(base, map[string]any{"message": d.m, "index": i})))
			return
		}
		if p <= last {
			run.Violation("duplicate-or-reordered-message", key("order"), w.wit(merge(base, map[string]any{"message": d.m, "index": i})))
			return
		}
		if last >= 0 && p != last+1 {
			run.Violation("message-lost", key("gap"), w.wit(merge(base, map[string]any{"after_index": i - 1, "skipped": describe(rel[last+1 : p])})))
			return
		}
		if first < 0 {
			first = p
		}
		last = p
	}
	bound := w.settleBefore(r.endStamp)
	if k := w.lostAt(conn); k != 0 {
		if sb := w.settleBefore(k); sb < bound {
			bound = sb
		}
	}
	var missing []wirePush
	n := 0
	for i, p := range rel {
		if p.seq > r.tAfterSet && p.seq < bound {
			n++
			if first < 0 || i < first || i > last {
				missing = append(missing, p)
			}
		}
	}
	st.mustChecked += n
	if len(missing) > 0 {
		run.Violation("message-lost", key("abrupt-end"), w.wit(merge(base, map[string]any{"connection": conn, "missing": describe(missing)})))
	}
	// the channel returned by SetPubSubHooks: closed, at most one error
	nerr, closedCh := 0, false
	var errs []string
drain:
	for {
		select {
		case e, ok := <-r.hookCh:
			if !ok {
				closedCh = true
				break drain
			}
			nerr++
			errs = append(errs, fmt.Sprint(e))
		default:
			break drain
		}
	}
	st.hookChannels++
	if !closedCh || nerr > 1 {
		run.Violation("hook-channel-lifecycle", fmt.Sprintf("SetPubSubHooks|end=%s|closed=%v|errors=%d", r.endHow, closedCh, nerr), w.wit(merge(base, map[string]any{"errors": errs})))
	}
	run.Case(fmt.Sprintf("hooks|resp2=%v|end=%s|d=%d|errs=%d", w.sc.resp2, r.endHow, min(len(got), 3), nerr), len(got) > 0)
}

// lastBubble keeps the goroutines of the most recent bubble in a dump: bubbles that ended in a deadlock keep their
// parked goroutines for the rest of the process, and drv.Bubble dumps every bubbled goroutine.
func lastBubble(stacks string) string {
	gs := strings.Split(stacks, "\n\n")
	best := -1
	id := func(g string) int {
		i := strings.Index(g, "synctest bubble ")
		if i < 0 {
			return -1
		}
		n := 0
		for _, c := range g[i+len("synctest bubble "):] {
			if c < '0' || c > '9' {
				break
			}
			n = n*10 + int(c-'0')
		}
		return n
	}
	for _, g := range gs {
		if n := id(g); n > best {
			best = n
		}
	}
	var keep []string
	for _, g := range gs {
		if id(g) == best {
			keep = append(keep, g)
		}
	}
	return strings.Join(keep, "\n\n")
}

func merge(a, b map[string]any) map[string]any {
	m := map[string]any{}
	for k, v := range a {
		m[k] = v
	}
	for k, v := range b {
		m[k] = v
	}
	return m
}

func describe(ps []wirePush) []string {
	var out []string
	for i, p := range ps {
		if i >= 12 {
			out = append(out, fmt.Sprintf("... %d more", len(ps)-i))
			break
		}
		out = append(out, fmt.Sprintf("seq=%d %s %s %s %s", p.seq, p.kind, p.pattern, p.channel, p.payload))
	}
	return out
}

func TestC26(t *testing.T) {
	if drv.IsChild() {
		lostChild(t)
		return
	}
	run := mon.Start(t, "C26", "exploration",
		"one history per synctest bubble: 1-8 Receives (SUBSCRIBE / PSUBSCRIBE / SSUBSCRIBE) with overlapping channel, pattern and shard sets on the shared connection, optionally a dedicated client running Receive or SetPubSubHooks; 2-3 publishers of numbered messages, VERIF.ECHO traffic on the same connections, "+
			"explicit / multi-channel / wildcard (P|S)UNSUBSCRIBE through client.Do and through the dedicated client, server-forced unsubscribes, context cancellation and deadlines, server-side kills, Receives on fresh channels started while messages flow, release of the dedicated client, final cancel or Close; RESP3 and AlwaysRESP2, ring and flowbuffer, chunked writes, retry on/off; "+
			"plus constructed backlog histories (backlog_test.go): a Receive whose consumer stalls until its 16-slot buffer is full and the connection's reader waits inside subs.Publish (checked in a goroutine dump), next to 0-2 Receives that keep up and pending VERIF.ECHO commands, ended by cancel, by deadline, or by cancel while its SUBSCRIBE is still in flight (shared and dedicated client, all three kinds); "+
			"plus the deterministic wedge probe (k1_test.go) at 1/16/17/20 early messages and 12 child-process histories of SetPubSubHooks on a connection that is already lost (lost_test.go); a case = one Receive (api, command, RESP, #channels, return class, causes present, overlap with another Receive, delivered bucket, segments) or one hooks session")
	defer run.Finish()
	run.Assume("fakeredis logs a push in the order it reaches the wire; every published payload is unique, so a delivered message identifies one wire frame",
		"completeness is demanded up to the unsubscribe notification (wire order) or, for abrupt ends (cancel, Close, kill), up to the last settle point of the bubble before the end; beyond that only 'contiguous, in order, no duplicates, nothing foreign' is demanded",
		"a bubble in which every goroutine is blocked and at least one of them waits for a sync.Mutex / sync.RWMutex (two identical consecutive goroutine dumps) can never move again: synctest neither advances its clock nor reports a deadlock there, the driver reports it as a hang",
		"Receives whose channels are already delivering on the connection are only set up in quiet phases (known finding: pipe wedged by early messages); the wedge itself is probed separately")
	n := run.N(300, 6000)
	rng := run.Rand("scenarios")
	var st stats
	frozenBubbles := 0
	for i := 0; i < n; i++ {
		sc := scen{idx: i, resp2: i%3 == 2, queue: []string{"flowbuffer", "ring"}[rng.Intn(2)], chunk: rng.Intn(2) == 0, retry: rng.Intn(5) == 0, initial: 1 + rng.Intn(8), rounds: 1 + rng.Intn(3),
			dedicated: []string{"", "hooks", "receive"}[rng.Intn(3)], final: []string{"close", "cancel"}[rng.Intn(2)], kill: rng.Intn(4) == 0, seed: run.Seed*100000 + int64(i)}
		var w *world
		var pan any
		dl, stacks, frozen := bubbleFZ(t, func() {
			defer func() {
				if p := recover(); p != nil {
					pan = p
				}
			}()
			if w = runScenario(run, sc); w != nil {
				w.evaluate(&st) // inside the bubble: its channels cannot be touched from outside
			}
		})
		if pan != nil {
			run.Violation("panic", "scenario", map[string]any{"scenario": sc.String(), "panic": fmt.Sprint(pan)})
			continue
		}
		if frozen {
			// every goroutine of the bubble is blocked, one of them on a lock: synctest cannot name that state (see bubbleFZ)
			frames := drv.RueidisFrames(stacks)
			rs, rf := goroutineIn(stacks, "rueidis.(*pipe).Receive(")
			ps, pf := goroutineIn(stacks, "rueidis.(*subs).Publish(")
			if len(frames) == 0 {
				run.Inconclusive("bubble stands still without rueidis frames (harness): " + sc.String())
			} else {
				run.Violation("hang-or-leak", fmt.Sprintf("workload|frozen|resp2=%v|Receive:%s[%s]|reader:%s[%s]", sc.resp2, rf, rs, pf, ps), map[string]any{"scenario": sc.String(), "frozen_bubble": true, "rueidis_frames": frames, "stacks": drv.Tail(stacks, 16000)})
			}
			if frozenBubbles++; frozenBubbles >= 3 {
				break
			}
			continue
		}
		if dl != "" {
			stacks = lastBubble(stacks)
			frames := drv.RueidisFrames(stacks)
			switch {
			case hasFrame(frames, "(*subs).Publish"):
				run.Violation("pipe-wedged-by-early-messages", "workload|subs.Publish", map[string]any{"scenario": sc.String(), "synctest": dl, "rueidis_frames": frames, "stacks": drv.Tail(stacks, 16000)})
			case len(frames) > 0:
				run.Violation("hang-or-leak", fmt.Sprintf("workload|resp2=%v|dedicated=%s", sc.resp2, sc.dedicated), map[string]any{"scenario": sc.String(), "synctest": dl, "rueidis_frames": frames, "stacks": drv.Tail(stacks, 16000)})
			default:
				run.Inconclusive("bubble deadlock without rueidis frames (harness): " + sc.String())
			}
			continue
		}
		if w == nil {
			continue
		}
		if i < 3 {
			run.Sample(map[string]any{"scenario": sc.String(), "receives": len(w.recvs), "published": w.published.Load(), "echo_ok": w.echoOK.Load()})
		}
	}
	checkBacklog(t, run, &st)
	checkLostHooks(run)
	checkWedge(t, run) // last: its bubbles end wedged and leave parked goroutines behind
	run.Observe("receives", int64(st.receives))
	run.Observe("hooks_sessions", int64(st.hooksSessions))
	run.Observe("messages_delivered", int64(st.delivered))
	run.Observe("messages_required", int64(st.mustChecked))
	run.Observe("messages_published", int64(st.published))
	run.Observe("returned_nil_on_unsubscribe", int64(st.retNil))
	run.Observe("returned_ErrClosing", int64(st.retClosing))
	run.Observe("returned_ctx_error", int64(st.retCtx))
	run.Observe("returned_connection_error", int64(st.retConn))
	run.Observe("subscribe_never_reached_server", int64(st.neverSubscribed))
	run.Observe("receives_overlapping_another", int64(st.overlapped))
	run.Observe("receives_resubscribed_after_reconnect", int64(st.retrySegments))
	run.Observe("hook_channels_drained", int64(st.hookChannels))
	run.Observe("echo_replies_checked", int64(st.echoOK))
	run.Observe("echo_errors_after_kill_or_close", int64(st.echoErr))
	run.Observe("histories_with_kill", int64(st.killed))
	run.Observe("slow_consumer_stalls", int64(st.stalls))
	run.Require("receives", "hooks_sessions", "messages_delivered", "messages_required", "returned_nil_on_unsubscribe", "returned_ErrClosing", "returned_ctx_error", "returned_connection_error",
		"receives_overlapping_another", "hook_channels_drained", "echo_replies_checked", "wedge_probe_runs", "wedge_probe_clean", "receives_confirmed_by_subscription_hook", "slow_consumer_stalls", "backlog_context_ended_with_reader_parked_in_publish", "lost_connection_hook_histories", "lost_connection_channels_drained", "lost_connection_channels_with_one_error")
}
