//go:build verif

package c24

import (
	"bytes"
	"context"
	"crypto/tls"
	"fmt"
	"io"
	"net"
	"os"
	"runtime"
	"sync"
	"sync/atomic"
	"testing"
	"testing/synctest"
	"time"

	"github.com/redis/rueidis"
	"verifh/drv"
	"verifh/fakeredis"
	"verifh/mon"
)

// ---- component level: the pool with counting wires ------------------------------------------------

type poolMon struct {
	run     *mon.Run
	name    string
	cap     int
	mu      sync.Mutex
	live    map[int64]*rueidis.VerifWire // made and not yet closed
	held    map[int64]bool
	made    int64
	maxLive int
	evmu    sync.Mutex
	events  []string // per-wire trace, reported with an accounting violation
}

func (m *poolMon) makeWire(fail bool) *rueidis.VerifWire {
	m.mu.Lock()
	defer m.mu.Unlock()
	m.made++
	w := rueidis.VerifNewWire(m.made)
	if fail {
		w.SetError(fmt.Errorf("dial failed"))
	}
	m.live[w.ID] = w
	m.ev(w.ID, fmt.Sprintf("made fail=%v", fail))
	m.sweepLocked()
	if len(m.live) > m.cap {
		m.run.Violation("over-capacity", m.name, map[string]any{"case": m.name, "cap": m.cap, "live_connections": len(m.live)})
	}
	if len(m.live) > m.maxLive {
		m.maxLive = len(m.live)
	}
	return w
}

// sweepLocked forgets wires the pool (or a caller) has closed.
func (m *poolMon) sweepLocked() {
	for id, w := range m.live {
		if w.Closed.Load() > 0 {
			delete(m.live, id)
		}
	}
}

func (m *poolMon) ev(id int64, what string) {
	m.evmu.Lock()
	m.events = append(m.events, fmt.Sprintf("%d w%d %s", mon.Stamp(), id, what))
	m.evmu.Unlock()
}

func (m *poolMon) acquired(w *rueidis.VerifWire) {
	m.ev(w.ID, "held")
	m.mu.Lock()
	defer m.mu.Unlock()
	if m.held[w.ID] {
		m.run.Violation("handed-to-two-holders", m.name, map[string]any{"case": m.name, "wire": w.ID})
	}
	m.held[w.ID] = true
}

func (m *poolMon) releasing(w *rueidis.VerifWire) {
	m.mu.Lock()
	m.held[w.ID] = false
	m.mu.Unlock()
}

type poolCase struct {
	name                         string
	cap, goroutines, ops         int
	failPct, breakPct, cancelPct int
	deadline                     bool
	closeAt                      int // close the pool after that many operations (0 = at the end)
	cleanup                      time.Duration
	minSize                      int
	seed                         int64
}

// runPoolCase drives one pool through a concurrent history inside the caller's bubble (virtual time).
func runPoolCase(run *mon.Run, pc poolCase) {
	rng := run.Rand("pool/" + pc.name)
	pm := &poolMon{run: run, name: pc.name, cap: pc.cap, live: map[int64]*rueidis.VerifWire{}, held: map[int64]bool{}}
	var failMu sync.Mutex
	pool := rueidis.VerifNewPool(pc.cap, pc.minSize, pc.cleanup, func(ctx context.Context) *rueidis.VerifWire {
		failMu.Lock()
		fail := rng.Intn(100) < pc.failPct
		failMu.Unlock()
		return pm.makeWire(fail)
	})
	var ops atomic.Int64
	var closed atomic.Bool
	var closedAt atomic.Int64 // logical stamp after which Close has returned
	var wg sync.WaitGroup
	for g := 0; g < pc.goroutines; g++ {
		wg.Add(1)
		grng := run.Rand(fmt.Sprintf("pool/%s/g%d", pc.name, g))
		go func() {
			defer wg.Done()
			for i := 0; i < pc.ops; i++ {
				ctx := context.Background()
				cancel := func() {}
				var dl time.Time
				mode := "none"
				if grng.Intn(100) < pc.cancelPct {
					if pc.deadline {
						d := time.Duration(grng.Intn(5)) * time.Millisecond
						dl = time.Now().Add(d)
						ctx, cancel = context.WithDeadline(ctx, dl)
						mode = "deadline"
					} else {
						var cf context.CancelFunc
						ctx, cf = context.WithCancel(ctx)
						d := time.Duration(grng.Intn(4)) * time.Millisecond
						dl = time.Now().Add(d)
						time.AfterFunc(d, cf)
						cancel = cf
						mode = "cancel"
					}
				}
				startedAfterClose := closed.Load() && closedAt.Load() != 0
				raw, w, err := pool.AcquireRaw(ctx)
				now := time.Now()
				run.Observe("acquires", 1)
				if w == nil {
					// a placeholder for a done context (or the pool's dead wire)
					run.Observe("acquire_ctx_done", 1)
					if err == nil {
						run.Violation("dead-wire-without-error", pc.name, map[string]any{"case": pc.name})
					}
					if mode != "none" && ctx.Err() != nil && now.After(dl) {
						run.Violation("waiter-returned-late", pc.name+"|"+mode, map[string]any{"case": pc.name, "mode": mode, "late_by": now.Sub(dl).String()})
					}
					pool.StoreRaw(raw) // callers always hand back what they got (mux.blocking does)
				} else {
					if startedAfterClose && w.Error() == nil {
						run.Violation("live-wire-after-close", pc.name, map[string]any{"case": pc.name, "wire": w.ID})
					}
					if w.Error() == nil {
						pm.acquired(w)
						time.Sleep(time.Duration(grng.Intn(3000)) * time.Microsecond)
						if grng.Intn(100) < pc.breakPct {
							pm.ev(w.ID, "broken-by-holder")
							w.Close() // as mux.blocking does when the command failed
						}
						pm.releasing(w)
					}
					pm.ev(w.ID, fmt.Sprintf("store err=%v closed=%d", w.Error(), w.Closed.Load()))
					pool.Store(w)
					pm.ev(w.ID, fmt.Sprintf("stored closed=%d", w.Closed.Load()))
				}
				cancel()
				if n := ops.Add(1); pc.closeAt > 0 && int(n) == pc.closeAt {
					pool.Close()
					closed.Store(true)
					closedAt.Store(mon.Stamp())
				}
			}
		}()
	}
	wg.Wait()
	// quiescence: everything handed out came back or was closed
	// The pool's idle clean-up timer may fire while this check runs (it closes idle wires beyond minSize): the three figures
	// are taken between two identical readings of the pool's own state, so that they describe one moment. (Reading the
	// live connections first and the pool afterwards produced a false alarm about once in ten thorough runs.)
	var size, idle, liveN int
	var down bool
	for try := 0; ; try++ {
		s0, i0, _, d0 := pool.Stats()
		pm.mu.Lock()
		pm.sweepLocked()
		liveN = len(pm.live)
		pm.mu.Unlock()
		size, idle, _, down = pool.Stats()
		if (s0 == size && i0 == idle && d0 == down) || try > 1000 {
			break
		}
		run.Observe("quiescence_readings_repeated_pool_changed_meanwhile", 1)
		runtime.Gosched()
	}
	if !down && (size != idle || liveN != idle) {
		var liveIDs []int64
		pm.mu.Lock()
		for id := range pm.live {
			liveIDs = append(liveIDs, id)
		}
		pm.mu.Unlock()
		pm.evmu.Lock()
		evs := append([]string(nil), pm.events...)
		pm.evmu.Unlock()
		run.Violation("accounting-at-quiescence", pc.name, map[string]any{"case": pc.name, "size": size, "idle": idle, "live_connections": liveN, "live_ids": liveIDs, "wire_events": evs})
	}
	if size < 0 && !down {
		run.Violation("negative-size", pc.name, map[string]any{"case": pc.name, "size": size})
	}
	pool.Close()
	// after Close the pool hands out only closed connections
	for i := 0; i < 3; i++ {
		if w, _ := pool.Acquire(context.Background()); w != nil && w.Error() == nil {
			run.Violation("live-wire-after-close", pc.name, map[string]any{"case": pc.name, "wire": w.ID})
		}
	}
	run.Observe("wires_made", pm.made)
	run.Case(fmt.Sprintf("%s|maxlive=%d", pc.name, pm.maxLive), pm.maxLive >= 1 && pc.goroutines > pc.cap)
}

// lostWakeup is the cancellation/broadcast hand-shake of DESIGN C05/C24: the waiter is parked between its loop test
// and cond.Wait (bounded yields, the pool lock is held there exactly as in a real preemption), the driver cancels its
// context and waits until the pool's cancellation goroutine has broadcast, then the waiter proceeds into cond.Wait.
func lostWakeup(run *mon.Run, t *testing.T, variant int) {
	name := fmt.Sprintf("cancel-vs-broadcast-%d", variant)
	var stage atomic.Int32 // 0 idle, 1 waiter parked, 2 cancelled, 3 broadcast seen
	var target atomic.Value
	rueidis.VerifSetHook(func(point string, args ...any) {
		switch point {
		case "pool.acquire.beforewait":
			if ctx, _ := args[1].(context.Context); ctx != nil && target.Load() == ctx && stage.CompareAndSwap(0, 1) {
				for i := 0; i < 200000 && stage.Load() < 3; i++ {
					runtime.Gosched()
				}
			}
		case "pool.acquire.broadcasted":
			if ctx, _ := args[1].(context.Context); ctx != nil && target.Load() == ctx {
				stage.Store(3)
			}
		}
	})
	defer rueidis.VerifSetHook(nil)
	var returned atomic.Bool
	var retErr atomic.Value
	dl, stacks := drv.Bubble(t, func() {
		made := int64(0)
		pool := rueidis.VerifNewPool(1, 0, 0, func(ctx context.Context) *rueidis.VerifWire { made++; return rueidis.VerifNewWire(made) })
		holder, _ := pool.Acquire(context.Background())
		var ctx context.Context
		var cancel context.CancelFunc
		if variant%2 == 0 {
			ctx, cancel = context.WithCancel(context.Background())
		} else {
			ctx, cancel = context.WithTimeout(context.Background(), time.Hour)
		}
		target.Store(ctx)
		go func() {
			_, err := pool.Acquire(ctx)
			if err != nil {
				retErr.Store(err.Error())
			}
			returned.Store(true)
		}()
		for i := 0; i < 1000000 && stage.Load() < 1; i++ {
			runtime.Gosched()
		}
		cancel()
		synctest.Wait() // every goroutine is durably blocked (or finished): nothing else will happen on its own
		if !returned.Load() {
			run.Violation("waiter-not-woken-by-cancellation", "pool.Acquire|broadcast-before-wait", map[string]any{"case": name,
				"history":    "cap=1 holder keeps the wire; waiter passed the loop test, its context was cancelled and the pool broadcast before the waiter entered cond.Wait; the waiter is still parked although its context is done",
				"hook_stage": stage.Load()})
		}
		pool.Store(holder) // lets a stuck waiter out so that the bubble can end
		synctest.Wait()
		pool.Close()
	})
	if dl != "" {
		run.Violation("hang-or-leak", name, map[string]any{"synctest": dl, "rueidis_frames": drv.RueidisFrames(stacks)})
	}
	run.Observe("handshakes", 1)
	if stage.Load() >= 1 {
		run.Observe("handshake_reached_waiter", 1)
	}
	run.Case(name, stage.Load() >= 1)
}

// ---- end to end: real client, blocking pool observed from the server ---------------------------------

func endToEnd(run *mon.Run, t *testing.T, idx int) {
	name := fmt.Sprintf("e2e-%d", idx)
	poolSize := 1 + idx%3
	dl, stacks := drv.Bubble(t, func() {
		rueidis.VerifSetQueueType("flowbuffer")
		defer rueidis.VerifSetQueueType("")
		const addr = "127.0.0.1:6379"
		srv := fakeredis.New(fakeredis.Options{Seed: run.Seed + int64(idx)}, addr)
		// connections are counted at the client boundary (dial returned .. Close called): the server learns of a close
		// only when its goroutine runs, which may be after the client has already dialled the replacement
		var mu sync.Mutex
		open := map[int64]bool{}
		pipelined := map[int64]bool{}
		maxOpen := 0
		recount := func() {
			n := 0
			for c := range open {
				if !pipelined[c] {
					n++
				}
			}
			if n > maxOpen {
				maxOpen = n
			}
		}
		srv.OnEvent = func(e fakeredis.Event) {
			if e.Kind == "recv" && len(e.Argv) > 0 && e.Argv[0] == "PIPEWIRE" {
				mu.Lock()
				pipelined[e.Conn] = true
				mu.Unlock()
			}
		}
		srv.Plan(&fakeredis.Rule{Name: "slow", Match: fakeredis.MatchCmd("VERIF.ECHO"), Action: fakeredis.Action{DelayReply: 3 * time.Millisecond}})
		opt := drv.Option(srv, addr)
		opt.DialCtxFn = func(ctx context.Context, a string, _ *net.Dialer, _ *tls.Config) (net.Conn, error) {
			nc, err := srv.Dial(ctx, a)
			if err != nil {
				return nil, err
			}
			id := fakeredis.ConnID(nc)
			mu.Lock()
			open[id] = true
			recount()
			mu.Unlock()
			return &closeHook{Conn: nc, fn: func() { mu.Lock(); delete(open, id); mu.Unlock() }}, nil
		}
		opt.ForceSingleClient = true
		opt.PipelineMultiplex = -1
		opt.BlockingPoolSize = poolSize
		opt.DisableCache = true
		opt.DisableRetry = true
		c, err := rueidis.NewClient(opt)
		if err != nil {
			run.Inconclusive("client: " + err.Error())
			return
		}
		// mark the shared wire so that the monitor can tell it from pool connections
		c.Do(context.Background(), c.B().Arbitrary("PIPEWIRE").Build())
		var wg sync.WaitGroup
		for g := 0; g < 4+idx%5; g++ {
			wg.Add(1)
			rng := run.Rand(fmt.Sprintf("%s/g%d", name, g))
			go func(g int) {
				defer wg.Done()
				for i := 0; i < 12; i++ {
					ctx, cancel := context.WithTimeout(context.Background(), time.Duration(1+rng.Intn(8))*time.Millisecond)
					uid := fmt.Sprintf("%d.%d", g, i)
					res := c.Do(ctx, c.B().Arbitrary("VERIF.ECHO").Keys("k").Args(uid, "str").Blocking())
					if s, err := res.ToString(); err == nil && s != "echo:"+uid {
						run.Violation("wrong-reply", name, map[string]any{"uid": uid, "got": s})
					}
					cancel()
					run.Observe("e2e_blocking_calls", 1)
				}
			}(g)
		}
		wg.Wait()
		mu.Lock()
		maxBlocking := maxOpen // (the streaming pool below has a capacity of its own)
		mu.Unlock()
		// streaming uses a pool of its own: a stream that breaks in the middle of a multi-command reply must still give
		// its connection back (closed), or the pool loses the slot: afterwards poolSize simultaneous streams must work
		srv.ClearPlan()
		srv.Plan(&fakeredis.Rule{Name: "cut-stream", Match: fakeredis.MatchArg("cut-me"), Times: 1, Action: fakeredis.Action{CloseAfter: 3}})
		for round := 0; round < poolSize+1; round++ {
			ms := c.DoMultiStream(context.Background(), c.B().Arbitrary("VERIF.ECHO").Keys("k").Args(fmt.Sprintf("cut-me-%d", round), "str").Build(),
				c.B().Arbitrary("VERIF.ECHO").Keys("k").Args("second", "str").Build())
			for ms.HasNext() {
				if _, err := ms.WriteTo(io.Discard); err != nil {
					break
				}
			}
			srv.Plan(&fakeredis.Rule{Name: "cut-stream", Match: fakeredis.MatchArg("cut-me"), Times: 1, Action: fakeredis.Action{CloseAfter: 3}})
			run.Observe("broken_streams", 1)
		}
		srv.ClearPlan()
		streams := make([]rueidis.RedisResultStream, poolSize)
		for i := range streams {
			ctx, cancel := context.WithTimeout(context.Background(), time.Second)
			streams[i] = c.DoStream(ctx, c.B().Arbitrary("VERIF.ECHO").Keys("k").Args(fmt.Sprintf("probe-%d", i), "str").Build())
			defer cancel()
		}
		for i := range streams {
			var buf bytes.Buffer
			if _, err := streams[i].WriteTo(&buf); err != nil || buf.String() != fmt.Sprintf("echo:probe-%d", i) {
				run.Violation("pool-slot-lost", "e2e|stream-broken-before-last-reply", map[string]any{"case": name, "BlockingPoolSize": poolSize, "probe": i, "err": fmt.Sprint(err), "got": buf.String()})
			}
		}
		c.Close()
		srv.Close()
		mu.Lock()
		defer mu.Unlock()
		if maxBlocking > poolSize {
			run.Violation("over-capacity", "e2e|blocking-pool-connections", map[string]any{"case": name, "BlockingPoolSize": poolSize, "max_open_pool_connections": maxBlocking})
		}
		run.Case(fmt.Sprintf("%s|pool=%d|max=%d", name, poolSize, maxBlocking), maxBlocking >= 1)
	})
	if dl != "" {
		run.Violation("hang-or-leak", name, map[string]any{"synctest": dl, "rueidis_frames": drv.RueidisFrames(stacks)})
	}
}

// C24: the blocking pool bounds, isolates and releases connections; waiters with a done context return promptly;
// after Close it hands out only closed connections.
func TestC24(t *testing.T) {
	run := mon.Start(t, "C24", "exploration",
		"(1) the real pool driven directly with counting wires inside synctest bubbles: cap 1-4, 2-40 goroutines, contexts none / deadline / cancelled mid-wait, failing dials, callers closing broken wires, idle cleanup timer, Close at a random point; "+
			"invariants at every make (live connections <= cap), every hand-out (exclusive holder), quiescence (size == idle == live), every return of a done-context waiter (not after its deadline, virtual time); "+
			"(2) the cancellation-vs-broadcast hand-shake at the pool.acquire hooks; (3) a real client with BlockingPoolSize 1-3 and deadline-bound blocking commands, open pool connections counted by the server; "+
			"a case is one pool history, non-trivial when more goroutines than capacity contended")
	defer run.Finish()
	run.Assume("VerifWire/VerifPool export wrappers drive the unmodified pool code", "virtual time (testing/synctest): 'promptly' is decided as 'not after the deadline instant'")
	n := run.N(400, 6000)
	rng := run.Rand("cases")
	for i := 0; i < n; i++ {
		pc := poolCase{name: fmt.Sprintf("pool-%d", i), cap: 1 + rng.Intn(4), goroutines: 2 + rng.Intn(12), ops: 6 + rng.Intn(10),
			failPct: []int{0, 0, 10, 30}[rng.Intn(4)], breakPct: []int{0, 10, 40}[rng.Intn(3)], cancelPct: []int{0, 30, 60}[rng.Intn(3)], deadline: rng.Intn(2) == 0,
			cleanup: []time.Duration{0, 2 * time.Millisecond}[rng.Intn(2)], minSize: rng.Intn(2), seed: run.Seed}
		if i%5 == 4 {
			pc.goroutines = 20 + rng.Intn(20)
		}
		if rng.Intn(3) == 0 {
			pc.closeAt = 1 + rng.Intn(pc.goroutines*pc.ops)
		}
		if only := os.Getenv("VERIF_C24_ONLY"); only != "" && only != pc.name { // debugging aid (check.sh never sets it)
			continue
		} else if only != "" {
			for rep := 0; rep < 3000 && run.Violations() == 0; rep++ {
				drv.Bubble(t, func() { runPoolCase(run, pc) })
			}
			fmt.Printf("DEBUG case %+v\n", pc)
		}
		dl, stacks := drv.Bubble(t, func() { runPoolCase(run, pc) })
		if dl != "" {
			run.Violation("hang-or-leak", "pool|"+fmt.Sprint(drv.RueidisFrames(stacks)), map[string]any{"case": fmt.Sprintf("%+v", pc), "synctest": dl, "rueidis_frames": drv.RueidisFrames(stacks)})
		}
		if i < 2 {
			run.Sample(fmt.Sprintf("%+v", pc))
		}
	}
	for v := 0; v < run.N(12, 100); v++ {
		lostWakeup(run, t, v)
	}
	for i := 0; i < run.N(30, 400); i++ {
		endToEnd(run, t, i)
	}
	run.Require("acquires", "acquire_ctx_done", "handshake_reached_waiter", "e2e_blocking_calls")
}

type closeHook struct {
	net.Conn
	once sync.Once
	fn   func()
}

func (c *closeHook) Close() error {
	c.once.Do(c.fn)
	return c.Conn.Close()
}
