//go:build verif

package c36

// Fault worlds: the histories of the statement played over a connection that breaks in the middle of a call.
//
// One Add / AddMulti / Remove / RemoveMulti of the history (removals only of items whose net multiplicity stays >= 0) is
// the victim of one transport fault aimed at the script command it sends (EVALSHA, or the EVAL sent after NOSCRIPT when the
// server's script cache was flushed):
//
//	close-before-exec  the server received the command and closes the connection without executing it
//	close-after-exec   the server executes the script, then closes the connection without a reply
//	cut-reply          the server executes the script and closes the connection 1-3 bytes into the reply
//
// on clients that retry (rueidis's default) and on some that do not. The caller made ONE call, so the history contains
// that call once if it returned nil, and at most once if it returned an error (an error may mean either). Judged:
//
//   - on the server's counters (HGETALL before / after, item indexes read from the script command the server received): the
//     counters after the call are the counters before plus zero or one application of the call, never more;
//   - the statement's own clauses against the reference multiset right after the call (a Remove that returned nil counts
//     once, a call that returned an error counts as many times as the server applied it: zero or one): every item with
//     positive net multiplicity is reported present by ExistsMulti and ItemMinCountMulti answers at least its multiplicity.

import (
	"context"
	"fmt"
	"strconv"
	"strings"
	"time"

	"github.com/redis/rueidis"
	"github.com/redis/rueidis/rueidisprob"
	"verifh/drv"
	"verifh/fakeredis"
)

var faultKinds = []string{"close-before-exec", "close-after-exec", "cut-reply"}

// faultWorldCfgs: 1-20 hash functions, from a handful of counters (items share them) to thousands (they do not).
var faultWorldCfgs = []cfg{{100, 0.01}, {10, 0.01}, {10_000, 1e-6}, {10, 0.5}, {3, 0.05}, {2, 0.3}, {1, 0.1}, {5, 0.1}}

func (d *driver) faultAction(kind string) fakeredis.Action {
	switch kind {
	case "close-before-exec":
		return fakeredis.Action{Close: true}
	case "close-after-exec":
		return fakeredis.Action{Close: true, ExecFirst: true}
	}
	return fakeredis.Action{CloseAfter: 1 + d.rng.Intn(3)} // every reply here (":n\r\n", "-NOSCRIPT ...") is longer than 3 bytes
}

// runFaultWorld plays one history with a fault aimed at most of its mutating calls.
func (d *driver) runFaultWorld(c cfg, steps, idx int, noRetry bool) {
	run := d.run
	srv := fakeredis.New(fakeredis.Options{NoLog: true, Seed: run.Seed*7919 + int64(idx), ChunkWrites: idx%3 == 0}, addr)
	defer srv.Close()
	node := srv.Node(addr)
	tp := &tap{}
	srv.OnEvent = tp.hook
	opt := drv.Option(srv, addr)
	opt.DisableCache = true
	opt.DisableRetry = noRetry
	opt.DisableAutoPipelining = idx%5 == 4
	opt.RetryDelay = func(int, rueidis.Completed, error) time.Duration { return 0 } // retry at once: no wall-clock in the histories
	client, err := rueidis.NewClient(opt)
	if err != nil {
		run.Inconclusive("fault world client: " + err.Error())
		return
	}
	defer client.Close()
	bf, err := rueidisprob.NewCountingBloomFilter(client, "c36", c.n, c.rate)
	if err != nil {
		run.Inconclusive("fault world: constructor refused " + c.String() + ": " + err.Error())
		return
	}
	ctx := context.Background()
	base := c.String()
	retry := "retrying-client"
	if noRetry {
		retry = "client-without-retries"
	}
	net := map[string]int{}
	var known []string
	var hist []opRec
	kv := 0
	note := func(op string, keys []string, res string) {
		hist = append(hist, opRec{Op: op, Keys: short(keys), Res: res})
		if len(hist) > 12 {
			hist = hist[len(hist)-12:]
		}
	}
	live := func(atLeast int) []string {
		var l []string
		for _, x := range known {
			if net[x] >= atLeast {
				l = append(l, x)
			}
		}
		return l
	}
	pick := func(l []string) string { return l[d.rng.Intn(len(l))] }
	bump := func(keys []string, by int) {
		for _, x := range keys {
			if _, seen := net[x]; !seen {
				known = append(known, x)
			}
			net[x] += by
		}
	}
	// query asks for keys with our own re-tries: a read on a client without retries may meet the connection the fault broke
	query := func(op string, f func() error) bool {
		var err error
		for try := 0; try < 4; try++ {
			if d.guard(base+" "+retry, op, func() { err = f() }) {
				return false
			}
			if err == nil {
				return true
			}
		}
		run.Inconclusive(fmt.Sprintf("fault world: %s returned an error four times in a row: %v", op, err))
		return false
	}
	// clauses judges the statement's own clauses for keys against the reference multiset
	clauses := func(keys []string, shape string) bool {
		if len(keys) == 0 {
			return true
		}
		key := fmt.Sprintf("%s hashes=%d %s", base, kv, shape)
		var ex []bool
		var mc []uint64
		if !query("ExistsMulti", func() (e error) { ex, e = bf.ExistsMulti(ctx, keys); return }) ||
			!query("ItemMinCountMulti", func() (e error) { mc, e = bf.ItemMinCountMulti(ctx, keys); return }) {
			return false
		}
		note("ExistsMulti", keys, fmt.Sprint(ex))
		note("ItemMinCountMulti", keys, fmt.Sprint(mc))
		if len(ex) != len(keys) || len(mc) != len(keys) {
			run.Violation("misaligned-answers", key, map[string]any{"config": base, "keys": short(keys), "exists": ex, "min_counts": mc, "history": hist})
			return false
		}
		for i, x := range keys {
			if net[x] <= 0 {
				continue
			}
			run.Observe("fault_world_present_answers_checked", 1)
			if !ex[i] {
				run.Violation("false-negative", key, map[string]any{"config": base, "client": retry, "call": "ExistsMulti", "position": i, "key": strconv.Quote(x), "net_multiplicity": net[x], "keys": short(keys), "answers": ex, "history": hist})
				return false
			}
			if mc[i] < uint64(net[x]) {
				run.Violation("min-count-too-small", key, map[string]any{"config": base, "client": retry, "call": "ItemMinCountMulti", "position": i, "key": strconv.Quote(x), "net_multiplicity": net[x], "answer": mc[i], "keys": short(keys), "answers": mc, "history": hist})
				return false
			}
		}
		return true
	}

	// step performs one mutating call, with a fault aimed at its script command unless kind is "", and judges it
	step := func(op string, keys []string, kind, target string) bool {
		isAdd := strings.HasPrefix(op, "Add")
		maxNet := 0
		for _, x := range keys {
			maxNet = max(maxNet, net[x])
		}
		before, ok1 := snapshot(node)
		tp.mu.Lock()
		runs0 := tp.scriptRun
		tp.lastEval = nil
		tp.mu.Unlock()
		var rule *fakeredis.Rule
		if kind != "" {
			rule = srv.Plan(&fakeredis.Rule{Name: "c36fault:" + kind + ":" + target, Times: 1, Action: d.faultAction(kind),
				Match: func(_ *fakeredis.Conn, a []string) bool {
					name := strings.ToUpper(a[0])
					if len(a) < 6 || a[2] != "2" || a[3] != hashKey {
						return false
					}
					if target == "fallback" {
						return name == "EVAL"
					}
					return name == "EVALSHA"
				}})
		}
		var err error
		shape := fmt.Sprintf("%s fault=%s@%s %s", op, kind, target, retry)
		if kind == "" {
			shape = fmt.Sprintf("%s no-fault %s", op, retry)
		}
		key := fmt.Sprintf("%s hashes=%d %s", base, kv, shape)
		panicked := d.guard(key, op, func() {
			switch op {
			case "Add":
				err = bf.Add(ctx, keys[0])
			case "AddMulti":
				err = bf.AddMulti(ctx, keys)
			case "Remove":
				err = bf.Remove(ctx, keys[0])
			default:
				err = bf.RemoveMulti(ctx, keys)
			}
		})
		fired := rule != nil && srv.RuleFired(rule) > 0
		srv.ClearPlan()
		if panicked {
			return false
		}
		after, ok2 := snapshot(node)
		tp.mu.Lock()
		runs := tp.scriptRun - runs0
		ev := tp.lastEval
		tp.mu.Unlock()
		run.Observe("fault_world_calls", 1)
		if err != nil && !fired {
			run.Inconclusive(fmt.Sprintf("fault world: %s returned an error although no fault fired: %v", op, err))
			return false
		}
		// item indexes as the server received them: KEYS(2), then itemCount + indexes (add) or indexes + hashIterations (remove)
		var idx []string
		if kv == 0 && isAdd && len(ev) >= 6 && len(keys) > 0 && (len(ev)-6)%len(keys) == 0 {
			kv = (len(ev) - 6) / len(keys)
		}
		switch {
		case !ok1 || !ok2 || kv == 0:
		case isAdd && len(ev) == 6+len(keys)*kv && ev[5] == strconv.Itoa(len(keys)):
			idx = ev[6:]
		case !isAdd && len(ev) == 6+len(keys)*kv && ev[len(ev)-1] == strconv.Itoa(kv):
			idx = ev[5 : len(ev)-1]
		}
		if idx == nil {
			run.Inconclusive("fault world: could not read the script's arguments / the counters from the server")
			return false
		}
		one := map[string]int64{} // one application of the call
		for _, f := range idx {
			if isAdd {
				one[f]++
			} else {
				one[f]--
			}
		}
		diff := map[string]int64{}
		for f, v := range after {
			if dv := v - before[f]; dv != 0 {
				diff[f] = dv
			}
		}
		for f, v := range before {
			if _, still := after[f]; !still && v != 0 {
				diff[f] = -v
			}
		}
		// times the call was applied: 0, 1, 2 (= more than once), -1 (the change is no repetition of the call)
		applied := 0
		switch {
		case len(diff) == 0:
		case sameCounters(diff, one):
			applied = 1
		default:
			applied = 2
			for f, dv := range diff {
				o := one[f]
				// beyond one application, in the call's direction, on the call's own counters only
				if o == 0 || (isAdd && dv < o) || (!isAdd && dv > o) {
					applied = -1
				}
			}
			for f := range one {
				if diff[f] == 0 {
					applied = -1
				}
			}
		}
		res := "ok"
		if err != nil {
			res = "error: " + err.Error()
		}
		note(op, keys, fmt.Sprintf("%s [fault %s@%s fired=%v, script bodies run=%d, applied=%d]", res, kind, target, fired, runs, applied))
		run.Case(fmt.Sprintf("%s k=%d fault-world %s maxnet=%d keys=%d", base, kv, shape, min(maxNet, 3), min(len(keys), 4)), fired)
		if fired {
			run.Observe("fault_world_faults_fired", 1)
			run.Observe("fault_world_faults_"+strings.ReplaceAll(kind, "-", "_"), 1)
			if target == "fallback" {
				run.Observe("fault_world_faults_on_fallback_EVAL", 1)
			} else {
				run.Observe("fault_world_faults_on_EVALSHA", 1)
			}
			if err != nil {
				run.Observe("fault_world_faulted_calls_reported_error", 1)
				if applied == 1 {
					run.Observe("fault_world_faulted_calls_reported_error_but_applied", 1)
				}
			} else {
				run.Observe("fault_world_faulted_calls_reported_nil", 1)
			}
			lost := kind != "close-before-exec" && runs >= 1
			if lost && !noRetry {
				// the situation in which a retrying client is tempted to send the script again
				run.Observe("fault_world_script_ran_reply_lost_retrying_client", 1)
				if isAdd {
					run.Observe("fault_world_add_ran_reply_lost_retrying_client", 1)
				} else {
					run.Observe("fault_world_removal_ran_reply_lost_retrying_client", 1)
					if maxNet >= 2 {
						// a second application would be accepted by the script and take the item's last copy
						run.Observe("fault_world_removal_ran_reply_lost_item_multiplicity_ge2_retrying_client", 1)
					}
				}
			}
			if lost && noRetry {
				run.Observe("fault_world_script_ran_reply_lost_client_without_retries", 1)
			}
		}
		witness := map[string]any{"config": base, "client": retry, "call": op, "keys": short(keys), "returned": res, "fault": kind + "@" + target, "fault_fired": fired,
			"script_bodies_run_during_call": runs, "item_indexes": idx, "counters_before": before, "counters_after": after, "history": hist}
		// the history holds the call once when it returned nil, as often as it was applied (0 or 1) when it returned an error
		count := 1
		if err != nil {
			count = min(max(applied, 0), 1)
		}
		if isAdd {
			bump(keys, count)
		} else {
			bump(keys, -count)
		}
		switch {
		case applied == -1:
			run.Inconclusive(fmt.Sprintf("fault world: the counters changed by something that is no repetition of the call (%s)", key))
			return false
		case applied >= 2 && isAdd:
			// an addition applied twice breaks none of the statement's clauses (ItemMinCount may only over-report): counted,
			// not judged; the reference multiset follows the server so that later clauses stay exact
			run.Observe("fault_world_additions_applied_more_than_once_not_judged", 1)
			bump(keys, applied-count)
		case applied >= 2:
			run.Observe("fault_world_calls_applied_more_than_once", 1)
			run.Violation("call-applied-more-than-once", key, witness)
			clauses(keys[:min(len(keys), 12)], "after "+shape) // what the caller sees of it
			return false
		}
		if err == nil && applied <= 1 {
			run.Observe("fault_world_calls_applied_"+[]string{"zero_times_reported_nil", "once"}[applied], 1)
		}
		// the statement's clauses right after the call: its own items and some of the others
		q := append([]string(nil), keys[:min(len(keys), 8)]...)
		if lv := live(1); len(lv) > 0 {
			for j := 0; j < 3; j++ {
				q = append(q, pick(lv))
			}
		}
		q = append(q, d.fresh("absent"))
		d.rng.Shuffle(len(q), func(a, b int) { q[a], q[b] = q[b], q[a] })
		return clauses(q, "after "+shape)
	}

	// the filter starts with items of multiplicity 1-3 (no fault: the number of hash functions is read from this call)
	var first []string
	for i, n := 0, 3+d.rng.Intn(4); i < n; i++ {
		x := d.fresh("f")
		for j, m := 0, 1+d.rng.Intn(3); j < m; j++ {
			first = append(first, x)
		}
	}
	if !step("AddMulti", first, "", "") {
		return
	}
	if kv > 40 {
		run.Inconclusive(fmt.Sprintf("fault world %s runs with %d hash functions: not meant for it", base, kv))
		return
	}
	maxItems := max(1, min(8, 200/kv))
	for i := 0; i < steps; i++ {
		kind, target := "", ""
		if d.rng.Intn(8) > 0 {
			kind, target = faultKinds[d.rng.Intn(len(faultKinds))], "first"
			if d.rng.Intn(3) == 0 {
				node.ScriptFlush() // EVALSHA is answered NOSCRIPT, the script goes out again as EVAL
				if d.rng.Intn(4) > 0 {
					target = "fallback"
				}
			}
		}
		lv := live(1)
		ok := true
		switch p := d.rng.Intn(100); {
		case p < 15 || len(lv) == 0:
			x := d.fresh("f")
			if d.rng.Intn(2) == 0 {
				x = pick(known)
			}
			ok = step("Add", []string{x}, kind, target)
		case p < 30:
			keys := make([]string, 1+d.rng.Intn(maxItems))
			for j := range keys {
				if d.rng.Intn(2) == 0 {
					keys[j] = pick(known)
				} else {
					keys[j] = d.fresh("f")
				}
			}
			if d.rng.Intn(3) == 0 {
				keys[len(keys)-1] = keys[0]
			}
			ok = step("AddMulti", keys, kind, target)
		case p < 65:
			x := pick(lv)
			if l2 := live(2); len(l2) > 0 && d.rng.Intn(3) > 0 {
				x = pick(l2) // a copy is left after this removal
			}
			ok = step("Remove", []string{x}, kind, target)
		default:
			budget := map[string]int{}
			var keys []string
			for j, n := 0, 1+d.rng.Intn(maxItems); j < n; j++ {
				if x := pick(lv); budget[x] < net[x] {
					budget[x]++
					keys = append(keys, x)
				}
			}
			ok = step("RemoveMulti", keys, kind, target)
		}
		if !ok {
			return
		}
	}
	// everything with positive net multiplicity is still present
	lv := live(1)
	for i := 0; i < len(lv); i += 12 {
		if !clauses(lv[i:min(len(lv), i+12)], "at the end of a fault world "+retry) {
			return
		}
	}
	if snap, ok := snapshot(node); ok {
		for f, v := range snap {
			if v < 0 {
				run.Violation("negative-counter", fmt.Sprintf("%s hashes=%d fault-world %s", base, kv, retry), map[string]any{"config": base, "field": f, "value": v, "history": hist})
				return
			}
		}
	}
	if idx < 3 {
		run.Sample(map[string]any{"fault_world": idx, "config": base, "hash_functions_on_wire": kv, "client": retry, "steps": steps, "last_calls": hist})
	}
}

func (d *driver) runFaultWorlds() {
	run := d.run
	n := run.N(32, 640)
	for i := 0; i < n; i++ {
		c := faultWorldCfgs[i%len(faultWorldCfgs)]
		noRetry := (i/len(faultWorldCfgs))%4 == 3 // groups of 8 worlds: retries on, on, on, off
		func() {
			defer func() {
				if p := recover(); p != nil {
					run.Violation("panic", c.String()+" fault-world", map[string]any{"fault_world": i, "panic": fmt.Sprint(p)})
				}
			}()
			d.runFaultWorld(c, 30, i, noRetry)
		}()
		run.Observe("fault_worlds_run", 1)
	}
	run.Require("fault_world_script_ran_reply_lost_retrying_client", "fault_world_removal_ran_reply_lost_item_multiplicity_ge2_retrying_client",
		"fault_world_add_ran_reply_lost_retrying_client", "fault_world_faults_on_fallback_EVAL", "fault_world_faults_on_EVALSHA",
		"fault_world_faults_close_before_exec", "fault_world_faults_close_after_exec", "fault_world_faults_cut_reply",
		"fault_world_faulted_calls_reported_error", "fault_world_present_answers_checked")
}
