// Package c36 drives rueidisprob.CountingBloomFilter (real Lua scripts on fakeredis + minilua) against a reference
// multiset over every configuration the constructor accepts.
package c36

import (
	"context"
	"fmt"
	"math"
	"math/rand"
	"os"
	"sort"
	"strconv"
	"strings"
	"sync"
	"syscall"
	"testing"

	"github.com/redis/rueidis"
	"github.com/redis/rueidis/rueidisprob"
	"verifh/drv"
	"verifh/fakeredis"
	"verifh/mon"
	"verifh/resp"
)

const (
	addr    = "127.0.0.1:6379"
	hashKey = "{c36}:cbf" // documented key layout: '{name}:cbf' holds the counters
)

type cfg struct {
	n    uint
	rate float64
}

func rateStr(r float64) string { return strconv.FormatFloat(r, 'g', -1, 64) }
func (c cfg) String() string   { return fmt.Sprintf("n=%d rate=%s", c.n, rateStr(c.rate)) }

type tap struct {
	mu        sync.Mutex
	lastEval  []string // argv of the last EVAL/EVALSHA the server received
	lastHmget []string
	negatives []string
	hincr     int64
	hget      int64
	scriptRun int64
}

func (tp *tap) hook(e fakeredis.Event) {
	tp.mu.Lock()
	defer tp.mu.Unlock()
	switch e.Kind {
	case "recv":
		if len(e.Argv) == 0 {
			return
		}
		switch cmd := strings.ToUpper(e.Argv[0]); {
		case strings.HasPrefix(cmd, "EVAL"):
			tp.lastEval = e.Argv
		case cmd == "HMGET":
			tp.lastHmget = e.Argv
		}
	case "script":
		tp.scriptRun++
	case "exec":
		if e.Note != "script" || len(e.Argv) < 3 {
			return
		}
		switch strings.ToUpper(e.Argv[0]) {
		case "HINCRBY":
			tp.hincr++
			if e.Reply.T == ':' && e.Reply.I < 0 {
				tp.negatives = append(tp.negatives, fmt.Sprintf("HINCRBY %s %s %s -> %d", e.Argv[1], e.Argv[2], e.Argv[3], e.Reply.I))
			}
		case "HGET":
			tp.hget++
		}
	}
}

type driver struct {
	run *mon.Run
	rng *rand.Rand
	seq int
}

func (d *driver) fresh(prefix string) string {
	d.seq++
	switch d.rng.Intn(8) {
	case 0:
		b := make([]byte, 1+d.rng.Intn(24))
		d.rng.Read(b)
		return fmt.Sprintf("%s%d:", prefix, d.seq) + string(b)
	case 1:
		return fmt.Sprintf("%s%d:", prefix, d.seq) + strings.Repeat("y", 200+d.rng.Intn(1800))
	case 2:
		return fmt.Sprintf("%s%d:héllo 世界 \x00\r\n", prefix, d.seq)
	default:
		return fmt.Sprintf("%s%d", prefix, d.seq)
	}
}

type opRec struct {
	Op   string   `json:"op"`
	Keys []string `json:"keys,omitempty"`
	Res  string   `json:"res,omitempty"`
}

func short(keys []string) []string {
	out := make([]string, 0, len(keys))
	for i, k := range keys {
		if i == 12 {
			out = append(out, fmt.Sprintf("…(%d keys)", len(keys)))
			break
		}
		if len(k) > 40 {
			k = k[:40] + "…"
		}
		out = append(out, strconv.Quote(k))
	}
	return out
}

func (d *driver) guard(key, op string, f func()) (panicked bool) {
	defer func() {
		if p := recover(); p != nil {
			panicked = true
			d.run.Violation("panic", key+" op="+op, map[string]any{"panic": fmt.Sprint(p)})
		}
	}()
	f()
	return false
}

func snapshot(node *fakeredis.Node) (map[string]int64, bool) {
	v := node.Exec("HGETALL", hashKey)
	if v.T == '-' {
		return nil, false
	}
	m := map[string]int64{}
	for i := 0; i+1 < len(v.A); i += 2 {
		n, err := strconv.ParseInt(v.A[i+1].S, 10, 64)
		if err != nil {
			return nil, false
		}
		m[v.A[i].S] = n
	}
	return m, true
}

func sameCounters(a, b map[string]int64) bool {
	for k, v := range a {
		if b[k] != v {
			return false
		}
	}
	for k, v := range b {
		if a[k] != v {
			return false
		}
	}
	return true
}

// runConfig plays one random history on one accepted configuration, then collide rounds of refill + bad RemoveMulti batches,
// and returns the number of hash functions seen on the wire.
func (d *driver) runConfig(c cfg, nops, collide int) string {
	run := d.run
	srv := fakeredis.New(fakeredis.Options{NoLog: true, Seed: run.Seed}, addr)
	defer srv.Close()
	node := srv.Node(addr)
	tp := &tap{}
	srv.OnEvent = tp.hook
	opt := drv.Option(srv, addr)
	opt.DisableCache = true
	client, err := rueidis.NewClient(opt)
	if err != nil {
		run.Inconclusive("client: " + err.Error())
		return ""
	}
	defer client.Close()
	bf, err := rueidisprob.NewCountingBloomFilter(client, "c36", c.n, c.rate)
	if err != nil {
		run.Inconclusive("constructor accepted in the dry run but not now: " + err.Error())
		return ""
	}
	ctx := context.Background()
	base := c.String()
	net := map[string]int{} // reference multiset
	var known []string      // every item ever added
	var hist []opRec
	k := ""
	maxItems := 12
	shape := ""
	key := func() string { return fmt.Sprintf("%s hashes=%s%s", base, k, shape) }
	note := func(op string, keys []string, res string) {
		hist = append(hist, opRec{Op: op, Keys: short(keys), Res: res})
		if len(hist) > 14 {
			hist = hist[len(hist)-14:]
		}
	}
	fail := func(op string, err error) {
		run.Inconclusive(fmt.Sprintf("%s returned an error (unsupported by the fake server or outside the property): %v", op, err))
		run.Observe("op_errors", 1)
	}
	negatives := func() bool {
		tp.mu.Lock()
		neg := tp.negatives
		tp.negatives = nil
		tp.mu.Unlock()
		if len(neg) > 0 {
			run.Violation("negative-counter", key(), map[string]any{"config": base, "server_saw": neg, "history": hist})
			return true
		}
		return false
	}
	live := func() []string {
		var l []string
		for _, x := range known {
			if net[x] > 0 {
				l = append(l, x)
			}
		}
		return l
	}
	var exists func(keys []string, multi bool) bool
	refuse := "" // when set, the server answers the next add script with this error reply instead of running it
	add := func(keys []string, multi bool) bool {
		var err error
		op := "Add"
		if multi {
			op = "AddMulti"
		}
		var rule *fakeredis.Rule
		refused := refuse
		refuse = ""
		if refused != "" {
			v := resp.Err(refused)
			rule = srv.Plan(&fakeredis.Rule{Name: "refuse-add", Times: 1, Action: fakeredis.Action{Reply: &v},
				Match: func(_ *fakeredis.Conn, a []string) bool {
					return len(a) > 5 && strings.HasPrefix(strings.ToUpper(a[0]), "EVAL") && a[2] == "2"
				}})
			defer srv.ClearPlan()
		}
		if d.guard(key(), op, func() {
			if multi {
				err = bf.AddMulti(ctx, keys)
			} else {
				err = bf.Add(ctx, keys[0])
			}
		}) {
			return false
		}
		fired := rule != nil && srv.RuleFired(rule) > 0
		if err != nil {
			if fired { // the server refused the add and the caller was told: nothing was added
				note(op, keys, "refused: "+err.Error())
				run.Observe("adds_refused_by_server_and_reported", 1)
				return true
			}
			fail(op, err)
			return false
		}
		if rule != nil && !fired {
			run.Inconclusive("the fault rule for the add script did not fire")
			return false
		}
		note(op, keys, "ok")
		for _, x := range keys {
			if _, seen := net[x]; !seen {
				known = append(known, x)
			}
			net[x]++
		}
		if fired {
			// error reply from the server, success reported to the caller: the items now count as added and must be present
			run.Observe("adds_refused_by_server_but_reported_successful", 1)
			shape = " add-answered-with-error-reply=" + strings.SplitN(refused, " ", 2)[0]
			note("(server replied)", nil, refused)
			ok := exists(keys[:min(len(keys), maxItems)], true)
			shape = ""
			return ok
		}
		run.Observe("adds", 1)
		// hash functions per item, from the EVALSHA the server received: KEYS(2) then ARGV = itemCount, indexes...
		tp.mu.Lock()
		ev := tp.lastEval
		tp.mu.Unlock()
		if len(ev) >= 6 {
			if cnt, err := strconv.Atoi(ev[5]); err == nil && cnt == len(keys) && cnt > 0 && (len(ev)-6)%cnt == 0 {
				k = strconv.Itoa((len(ev) - 6) / cnt)
			}
		}
		if kv, err := strconv.Atoi(k); err == nil && kv > 0 && 3000/kv < maxItems {
			maxItems = max(1, 3000/kv)
		}
		return !negatives()
	}
	remove := func(keys []string, multi bool) bool {
		var err error
		op := "Remove"
		if multi {
			op = "RemoveMulti"
		}
		if d.guard(key(), op, func() {
			if multi {
				err = bf.RemoveMulti(ctx, keys)
			} else {
				err = bf.Remove(ctx, keys[0])
			}
		}) {
			return false
		}
		if err != nil {
			fail(op, err)
			return false
		}
		note(op, keys, "ok")
		for _, x := range keys {
			net[x]--
		}
		run.Observe("legit_removals", int64(len(keys)))
		return !negatives()
	}
	exists = func(keys []string, multi bool) bool {
		var res []bool
		var err error
		op := "Exists"
		if multi {
			op = "ExistsMulti"
		}
		if d.guard(key(), op, func() {
			if multi {
				res, err = bf.ExistsMulti(ctx, keys)
			} else {
				var b bool
				b, err = bf.Exists(ctx, keys[0])
				res = []bool{b}
			}
		}) {
			return false
		}
		nm := 0
		for _, x := range keys {
			if net[x] > 0 {
				nm++
			}
		}
		if err != nil {
			tp.mu.Lock()
			hm := tp.lastHmget
			tp.mu.Unlock()
			if nm > 0 && len(hm) == 2 && strings.Contains(err.Error(), "wrong number of arguments") {
				// the client asked HMGET without any field: an added item gets an error instead of "present"
				run.Case(fmt.Sprintf("%s k=%s %s m=%d", base, k, op, nm), true)
				run.Violation("no-presence-answer", key(), map[string]any{"config": base, "call": op, "keys": short(keys), "error": err.Error(), "server_received": hm, "history": hist})
				return false
			}
			fail(op, err)
			return false
		}
		note(op, keys, fmt.Sprint(res))
		run.Case(fmt.Sprintf("%s k=%s %s m=%d a=%d", base, k, op, min(nm, 6), min(len(keys)-nm, 6)), nm > 0)
		if len(res) != len(keys) {
			run.Violation("misaligned-answers", key()+" "+op, map[string]any{"config": base, "keys": short(keys), "answers": res, "history": hist})
			return false
		}
		for i, x := range keys {
			if net[x] > 0 {
				run.Observe("present_answers_checked", 1)
				if nm < len(keys) {
					run.Observe("multi_positions_checked", 1)
				}
				if !res[i] {
					run.Violation("false-negative", key(), map[string]any{"config": base, "call": op, "position": i, "key": strconv.Quote(x), "net_multiplicity": net[x], "keys": short(keys), "answers": res, "history": hist})
					return false
				}
			} else if res[i] {
				run.Observe("false_positives", 1)
			} else {
				run.Observe("true_negatives", 1)
			}
		}
		return true
	}
	minCount := func(keys []string, multi bool) bool {
		var res []uint64
		var err error
		op := "ItemMinCount"
		if multi {
			op = "ItemMinCountMulti"
		}
		if d.guard(key(), op, func() {
			if multi {
				res, err = bf.ItemMinCountMulti(ctx, keys)
			} else {
				var v uint64
				v, err = bf.ItemMinCount(ctx, keys[0])
				res = []uint64{v}
			}
		}) {
			return false
		}
		if err != nil {
			fail(op, err)
			return false
		}
		note(op, keys, fmt.Sprint(res))
		maxNet := 0
		for _, x := range keys {
			maxNet = max(maxNet, net[x])
		}
		run.Case(fmt.Sprintf("%s k=%s %s keys=%d maxnet=%d", base, k, op, min(len(keys), 6), min(maxNet, 4)), maxNet > 0)
		if len(res) != len(keys) {
			run.Violation("misaligned-answers", key()+" "+op, map[string]any{"config": base, "keys": short(keys), "answers": res, "history": hist})
			return false
		}
		for i, x := range keys {
			if net[x] > 0 {
				run.Observe("mincount_answers_checked", 1)
				if net[x] > 1 {
					run.Observe("mincount_checked_multiplicity_gt1", 1)
				}
			}
			if res[i] < uint64(max(net[x], 0)) {
				run.Violation("min-count-too-small", key(), map[string]any{"config": base, "call": op, "position": i, "key": strconv.Quote(x), "net_multiplicity": net[x], "answer": res[i], "keys": short(keys), "answers": res, "history": hist})
				return false
			}
		}
		return true
	}
	pick := func(l []string) string { return l[d.rng.Intn(len(l))] }
	queryKeys := func(n int) []string {
		keys := make([]string, n)
		lv := live()
		for j := range keys {
			switch p := d.rng.Intn(10); {
			case p < 6 && len(lv) > 0:
				keys[j] = pick(lv)
			case p < 8 && len(known) > 0:
				keys[j] = pick(known) // possibly fully removed by now
			default:
				keys[j] = d.fresh("absent")
			}
		}
		return keys
	}

	if !add([]string{d.fresh("m")}, false) {
		return k
	}
	if !exists([]string{known[0]}, false) {
		if k == "0" {
			d.probeZero(bf, tp, key())
		}
		return k
	}
	if kv, _ := strconv.Atoi(k); kv > 100 {
		nops = max(30, nops/4) // a thousand counters per item: keep the cost per configuration bounded
	}
	refusals := []string{"OOM command not allowed when used memory > 'maxmemory'.", "READONLY You can't write against a read only replica.",
		"WRONGTYPE Operation against a key holding the wrong kind of value", "ERR Error running script (call to f_0): @user_script:9: -MISCONF Redis is configured to save RDB snapshots"}
	for i := 0; i < nops; i++ {
		ok := true
		if d.rng.Intn(12) == 0 {
			refuse = refusals[d.rng.Intn(len(refusals))] // consumed by the next add
		}
		lv := live()
		switch p := d.rng.Intn(100); {
		case p < 18 || len(lv) == 0:
			x := d.fresh("m")
			if len(known) > 0 && d.rng.Intn(2) == 0 {
				x = pick(known) // multiplicities > 1, re-adding removed items
			}
			ok = add([]string{x}, false)
		case p < 34:
			n := 1 + d.rng.Intn(maxItems)
			keys := make([]string, n)
			for j := range keys {
				if d.rng.Intn(3) == 0 {
					keys[j] = pick(known)
				} else {
					keys[j] = d.fresh("m")
				}
			}
			if d.rng.Intn(3) == 0 {
				keys[len(keys)-1] = keys[0]
			}
			ok = add(keys, true)
		case p < 46:
			ok = remove([]string{pick(lv)}, false)
		case p < 56:
			// a multiset of removals that never exceeds what was added
			budget := map[string]int{}
			var keys []string
			for j, n := 0, 1+d.rng.Intn(maxItems); j < n; j++ {
				x := pick(lv)
				if budget[x] < net[x] {
					budget[x]++
					keys = append(keys, x)
				}
			}
			if len(keys) > 0 {
				ok = remove(keys, true)
			}
		case p < 66:
			ok = exists(queryKeys(1), false)
		case p < 82:
			ok = exists(queryKeys(1+d.rng.Intn(maxItems)), true)
		case p < 90:
			ok = minCount(queryKeys(1), false)
		default:
			ok = minCount(queryKeys(1+d.rng.Intn(maxItems)), true)
		}
		if !ok {
			return k
		}
	}
	// everything with positive net multiplicity must be present with a sufficient minimum count
	lv := live()
	sort.Strings(lv)
	for i := 0; i < len(lv); i += maxItems {
		chunk := append([]string(nil), lv[i:min(len(lv), i+maxItems)]...)
		chunk = append(chunk, d.fresh("absent"))
		d.rng.Shuffle(len(chunk), func(a, b int) { chunk[a], chunk[b] = chunk[b], chunk[a] })
		if !exists(chunk, true) || !minCount(chunk, true) {
			return k
		}
	}
	if snap, ok := snapshot(node); ok {
		for f, v := range snap {
			if v < 0 {
				run.Violation("negative-counter", key(), map[string]any{"config": base, "field": f, "value": v, "history": hist})
				return k
			}
		}
		run.Observe("final_counter_fields_inspected", int64(len(snap)))
	}

	// removals that must change nothing: the premise of the first clause ends here, only the hash is judged
	kv, _ := strconv.Atoi(k)
	var pool []string // never-added items used so far: they come back in later batches
	// judge performs one removal that lists never-added / over-removed items and decides it on the server's counters alone:
	// the counters afterwards must equal the counters before minus the decrements of some subset of the items that were
	// removable against the state before the call, and no counter may be negative. It returns false when the history ends.
	judge := func(keys []string, multi bool, distinctBad int, world string) bool {
		before, ok1 := snapshot(node)
		var err error
		if d.guard(key(), "Remove(bad)", func() {
			if multi {
				err = bf.RemoveMulti(ctx, keys)
			} else {
				err = bf.Remove(ctx, keys[0])
			}
		}) {
			return false
		}
		if err != nil {
			fail("Remove of a never-added item", err)
			return false
		}
		after, ok2 := snapshot(node)
		tp.mu.Lock()
		ev := tp.lastEval
		tp.mu.Unlock()
		// ARGV of the removal script as received by the server: indexes of every item in call order, then hashIterations
		if !ok1 || !ok2 || len(ev) != 5+len(keys)*kv+1 || ev[len(ev)-1] != k {
			run.Inconclusive("could not read the removal script's arguments / the counters from the server")
			return false
		}
		idx := ev[5 : len(ev)-1]
		dec := make([]map[string]int64, len(keys))
		var cand []int // items whose removal would not go negative against the state before the call
		definitelyBad := 0
		for j := range keys {
			dec[j] = map[string]int64{}
			for _, f := range idx[j*kv : (j+1)*kv] {
				dec[j][f]++
			}
			okj := true
			for f, n := range dec[j] {
				if before[f] < n {
					okj = false
				}
			}
			if okj {
				cand = append(cand, j)
			} else {
				definitelyBad++
			}
		}
		note("Remove(bad)", keys, fmt.Sprintf("definitely-bad=%d", definitelyBad))
		run.Case(fmt.Sprintf("%s k=%s bad-removal%s multi=%v items=%d distinct-bad=%d bad=%d", base, k, world, multi, len(keys), distinctBad, min(definitelyBad, 3)), definitelyBad > 0)
		if distinctBad > 1 {
			run.Observe("bad_batches_with_several_distinct_bad_items", 1)
		}
		d.shapeOfBatch(keys, idx, kv, before)
		negatives()
		for f, v := range after {
			if v < 0 {
				run.Violation("negative-counter", key(), map[string]any{"config": base, "field": f, "value": v, "call": short(keys), "item_indexes": idx, "counters_before": before, "counters_after": after, "history": hist})
				return false
			}
		}
		// the counters afterwards must be explained by removing some subset of the removable items and nothing else:
		// diff = before - after has to be the sum of the decrements of a subset of cand (every item decrements kv positions)
		diff := map[string]int64{}
		total := int64(0)
		explained := true
		for f, v := range before {
			if dv := v - after[f]; dv != 0 {
				diff[f] = dv
			}
		}
		for f, v := range after {
			if _, had := before[f]; !had && v != 0 {
				diff[f] = -v
			}
		}
		for _, dv := range diff {
			if dv < 0 {
				explained = false // a counter grew
			}
			total += dv
		}
		var chosen []int
		if explained {
			explained = total%int64(kv) == 0 && total/int64(kv) <= int64(len(cand))
		}
		if explained {
			var dfs func(i int, need int64) bool
			dfs = func(i int, need int64) bool {
				if need == 0 {
					for _, v := range diff {
						if v != 0 {
							return false
						}
					}
					return true
				}
				if int64(len(cand)-i) < need {
					return false
				}
				j := cand[i]
				fits := true
				for f, n := range dec[j] {
					if diff[f] < n {
						fits = false
						break
					}
				}
				if fits {
					for f, n := range dec[j] {
						diff[f] -= n
					}
					chosen = append(chosen, j)
					if dfs(i+1, need-1) {
						return true
					}
					chosen = chosen[:len(chosen)-1]
					for f, n := range dec[j] {
						diff[f] += n
					}
				}
				return dfs(i+1, need)
			}
			explained = dfs(0, total/int64(kv))
		}
		if definitelyBad > 0 {
			run.Observe("bad_removals_judged", int64(definitelyBad))
		} else {
			run.Observe("bad_removals_indistinguishable_by_collision", 1)
		}
		if !explained {
			run.Violation("bad-removal-changed-counters", key(), map[string]any{"config": base, "call": short(keys), "item_indexes": idx, "counters_before": before, "counters_after": after, "history": hist})
			return false
		}
		// only the generator uses this from here on (what is still live, what would be over-removed); never a verdict
		for _, j := range chosen {
			net[keys[j]]--
		}
		return true
	}
	// badBatch builds a RemoveMulti call: nbad distinct items that were never added (fresh or seen in an earlier batch) or
	// that the call lists once more than their net multiplicity, mixed with up to nlive removals of live items, in random order.
	badBatch := func(nbad, nlive, limit int) ([]string, int) {
		var keys []string
		bad := map[string]bool{}
		lv := live()
		for tries := 0; len(bad) < nbad && tries < 4*nbad; tries++ {
			x, isNew := "", false
			switch p := d.rng.Intn(10); {
			case p < 3 && len(known) > 0:
				x = pick(known) // live: the call lists it once more than it is present; removed again after its last removal otherwise
			case p < 5 && len(pool) > 0:
				x = pick(pool)
			default:
				x, isNew = d.fresh("never-added"), true
			}
			copies := max(net[x], 0) + 1
			if bad[x] || copies > 3 || len(keys)+copies > limit {
				continue
			}
			if isNew {
				if pool = append(pool, x); len(pool) > 24 {
					pool = pool[1:]
				}
			}
			bad[x] = true
			for j := 0; j < copies; j++ {
				keys = append(keys, x)
			}
		}
		budget := map[string]int{}
		for j := 0; j < nlive && len(lv) > 0 && len(keys) < limit; j++ {
			if x := pick(lv); !bad[x] && budget[x] < net[x] {
				budget[x]++
				keys = append(keys, x)
			}
		}
		d.rng.Shuffle(len(keys), func(a, b int) { keys[a], keys[b] = keys[b], keys[a] })
		return keys, len(bad)
	}
	badRounds := 8
	if kv > 100 {
		badRounds = 3
	}
	for i := 0; i < badRounds && kv > 0; i++ {
		if i%2 == 1 {
			nbad := 1
			if d.rng.Intn(3) > 0 {
				nbad = 2 + d.rng.Intn(4)
			}
			limit := max(2, min(10, maxItems, 1500/kv))
			keys, distinct := badBatch(min(nbad, limit), d.rng.Intn(min(maxItems, 4)), limit)
			if len(keys) == 0 {
				continue
			}
			if !judge(keys, true, distinct, "") {
				return k
			}
			continue
		}
		bad := d.fresh("never-added")
		if lv := live(); len(lv) > 0 && d.rng.Intn(3) == 0 {
			bad = pick(lv)
		}
		if net[bad] > 0 {
			continue // a single Remove of a live item is no bad removal
		}
		if !judge([]string{bad}, false, 1, "") {
			return k
		}
	}

	// collision worlds: few counters, several hash functions. The filter is refilled (sometimes deleted first) with a handful
	// of items so that about half of the counters are zero, then RemoveMulti batches carry 2-5 distinct bad items among live
	// ones: refused items whose indexes overlap those of later items of the same call.
	for i := 0; i < collide && kv >= 2 && kv <= 20; i++ {
		if len(live()) > int(c.n)+2 || d.rng.Intn(3) == 0 {
			var err error
			if d.guard(key(), "Delete", func() { err = bf.Delete(ctx) }) {
				return k
			}
			if err != nil {
				fail("Delete", err)
				return k
			}
			note("Delete", nil, "ok")
			run.Observe("collision_world_deletes", 1)
			net = map[string]int{}
			known, pool = nil, nil
		}
		n := 1 + d.rng.Intn(3)
		keys := make([]string, n)
		for j := range keys {
			if len(known) > 0 && d.rng.Intn(3) == 0 {
				keys[j] = pick(known)
			} else {
				keys[j] = d.fresh("m")
			}
		}
		if !add(keys, true) {
			return k
		}
		for b, nb := 0, 1+d.rng.Intn(3); b < nb; b++ {
			keys, distinct := badBatch(2+d.rng.Intn(4), d.rng.Intn(4), 12)
			if len(keys) == 0 {
				continue
			}
			run.Observe("collision_world_batches", 1)
			if !judge(keys, true, distinct, " collision-world") {
				return k
			}
		}
	}
	tp.mu.Lock()
	run.Observe("script_runs", tp.scriptRun)
	run.Observe("hincrby_in_scripts", tp.hincr)
	run.Observe("hget_in_scripts", tp.hget)
	tp.mu.Unlock()
	return k
}

// shapeOfBatch describes, for the evidence only (never for a verdict), which situations a removal call put in front of the
// script. It replays the bookkeeping the statement implies on the item indexes the server received: an item is refused at the
// first of its positions whose counter is used up by what the call took before, and a refused item takes nothing.
func (d *driver) shapeOfBatch(keys, idx []string, kv int, before map[string]int64) {
	shadow := map[string]int64{}
	refusedAt := make([]int, len(keys))
	refused, early := 0, 0
	for j := range keys {
		refusedAt[j] = -1
		fs := idx[j*kv : (j+1)*kv]
		for p, f := range fs {
			if _, ok := shadow[f]; !ok {
				shadow[f] = before[f]
			}
			shadow[f]--
			if shadow[f] < 0 {
				refusedAt[j] = p
				break
			}
		}
		if refusedAt[j] >= 0 {
			refused++
			if refusedAt[j] < kv-1 {
				early++
			}
			for p := 0; p <= refusedAt[j]; p++ {
				shadow[fs[p]]++
			}
		}
	}
	d.run.Observe("refused_items_in_bad_removals", int64(refused))
	d.run.Observe("refused_items_failing_before_their_last_position", int64(early))
	if refused > 1 {
		d.run.Observe("batches_with_several_refused_items", 1)
	}
	shares, failsThere := false, false
	for j := range keys {
		if refusedAt[j] < 0 || refusedAt[j] >= kv-1 {
			continue
		}
		later := map[string]bool{} // positions of the refused item after the one it failed at
		for _, f := range idx[j*kv+refusedAt[j]+1 : (j+1)*kv] {
			later[f] = true
		}
		for j2 := j + 1; j2 < len(keys); j2++ {
			if refusedAt[j2] < 0 || keys[j2] == keys[j] {
				continue
			}
			for _, f := range idx[j2*kv : (j2+1)*kv] {
				if later[f] {
					shares = true
				}
			}
			if later[idx[j2*kv+refusedAt[j2]]] {
				failsThere = true
			}
		}
	}
	if shares {
		d.run.Observe("batches_refused_before_last_position_then_bad_item_sharing_later_index", 1)
	}
	if failsThere {
		d.run.Observe("batches_refused_before_last_position_then_bad_item_refused_on_shared_later_index", 1)
	}
}

// probeZero records, for the evidence, what Remove and ItemMinCount do on a configuration with 0 hash functions.
func (d *driver) probeZero(bf rueidisprob.CountingBloomFilter, tp *tap, key string) {
	ctx := context.Background()
	out := map[string]string{}
	d.guard(key, "ItemMinCount", func() {
		_, err := bf.ItemMinCount(ctx, "x")
		out["ItemMinCount"] = fmt.Sprint(err)
	})
	d.guard(key, "Remove", func() {
		err := bf.Remove(ctx, "x")
		out["Remove"] = fmt.Sprint(err)
	})
	if strings.Contains(out["Remove"], "step budget") {
		d.run.Observe("zero_hash_remove_script_did_not_terminate", 1)
	}
	d.run.Extra("zero_hash_probe", out)
}

var (
	gridN = []uint{0, 1, 2, 3, 10, 100, 10_000, 1_000_000, 10_000_000}
	gridR = []float64{math.SmallestNonzeroFloat64, 1e-300, 1e-12, 1e-6, 0.01, 0.5, 0.7, 0.7071, 0.7072, 0.75, 0.9, 0.99, 0.999999, math.Nextafter(1, 0), 1, math.Nextafter(1, 2), 0, -0.5, math.NaN(), math.Inf(1)}
)

// collisionWorlds are small accepted configurations outside the grid (1-5 expected items): 4-29 counters, 2-7 hash functions.
var collisionWorlds = []cfg{{1, 0.2}, {1, 0.1}, {1, 0.05}, {2, 0.3}, {2, 0.2}, {2, 0.1}, {2, 0.05}, {2, 0.02}, {3, 0.3}, {3, 0.2}, {3, 0.1}, {3, 0.05}, {3, 0.02}, {5, 0.3}, {5, 0.1}}

func grid() []cfg {
	var l []cfg
	for _, n := range gridN {
		for _, r := range gridR {
			l = append(l, cfg{n, r})
		}
	}
	return l
}

// TestC36Child is the crash-isolated probe: for every grid point from VERIF_FROM on it constructs the filter and performs
// the first Add and Exists, printing B/E lines. A configuration that the constructor accepts may still make the first call die
// with a fatal error (out of memory), which cannot be recovered in-process.
func TestC36Child(t *testing.T) {
	if !drv.IsChild() {
		t.Skip("child only")
	}
	_ = syscall.Setrlimit(syscall.RLIMIT_AS, &syscall.Rlimit{Cur: 12 << 30, Max: 12 << 30})
	from, _ := strconv.Atoi(os.Getenv("VERIF_FROM"))
	g := grid()
	for i := from; i < len(g); i++ {
		c := g[i]
		os.Stdout.WriteString(fmt.Sprintf("B %d\n", i))
		res := func() (res string) {
			defer func() {
				if p := recover(); p != nil {
					res = "panic " + strings.ReplaceAll(fmt.Sprint(p), "\n", " ")
				}
			}()
			srv := fakeredis.New(fakeredis.Options{NoLog: true}, addr)
			defer srv.Close()
			opt := drv.Option(srv, addr)
			opt.DisableCache = true
			client, err := rueidis.NewClient(opt)
			if err != nil {
				return "skip " + err.Error()
			}
			defer client.Close()
			bf, err := rueidisprob.NewCountingBloomFilter(client, "c36", c.n, c.rate)
			if err != nil {
				return "rejected " + err.Error()
			}
			res = "constructed"
			_ = bf.Add(context.Background(), "probe")
			_, _ = bf.Exists(context.Background(), "probe")
			return "ok"
		}()
		os.Stdout.WriteString(fmt.Sprintf("E %d %s\n", i, res))
	}
	os.Stdout.WriteString("DONE\n")
}

// probeAll runs the crash-isolated probe over the whole grid; it returns per grid index "ok", "rejected …", "panic …" or "crash …".
func probeAll(run *mon.Run) map[int]string {
	out := map[int]string{}
	g := grid()
	from := 0
	for from < len(g) {
		txt, _ := drv.RunChild("TestC36Child", map[string]string{"VERIF_FROM": strconv.Itoa(from)}, 4096)
		begun := -1
		for _, line := range strings.Split(txt, "\n") {
			f := strings.SplitN(line, " ", 3)
			switch {
			case len(f) >= 2 && f[0] == "B":
				begun, _ = strconv.Atoi(f[1])
			case len(f) == 3 && f[0] == "E":
				i, _ := strconv.Atoi(f[1])
				out[i] = f[2]
				begun = -1
			}
		}
		if strings.Contains(txt, "\nDONE\n") && begun < 0 {
			break
		}
		if begun < 0 {
			run.Inconclusive("probe child died outside a configuration: " + drv.Tail(txt, 300))
			break
		}
		why := "died"
		for _, line := range strings.Split(txt, "\n") {
			if strings.HasPrefix(line, "fatal error:") || strings.HasPrefix(line, "panic:") {
				why = line
				break
			}
		}
		frames := ""
		if j := strings.Index(txt, "rueidisprob."); j >= 0 {
			frames = txt[j:min(len(txt), j+600)]
		}
		out[begun] = "crash " + why + " | " + strings.ReplaceAll(frames, "\n", " ")
		from = begun + 1
	}
	return out
}

func TestC36(t *testing.T) {
	if drv.IsChild() {
		t.Skip("parent only")
	}
	run := mon.Start(t, "C36", "exploration",
		"every grid point (expectedNumberOfItems in {0,1,2,3,10,100,1e4,1e6,1e7} x falsePositiveRate in {5e-324,1e-300,1e-12,1e-6,0.01,0.5,0.7,0.7071,0.7072,0.75,0.9,0.99,0.999999,1-2^-53,1,1+2^-52,0,-0.5,NaN,+Inf}) that NewCountingBloomFilter accepts is first probed in a crash-isolated child (constructor, first Add, first Exists), then gets a random history of "+
			"Add/AddMulti (re-adds, duplicates)/Remove/RemoveMulti of items whose net multiplicity stays >= 0/Exists/ExistsMulti/ItemMinCount/ItemMinCountMulti against a reference multiset (some adds answered by the server with an error reply - OOM, READONLY, WRONGTYPE, script error - instead of being executed: an Add that returns nil then still counts as added), then removals of never-added or over-removed items judged on the server's counters (HGETALL before/after, item indexes read from the EVALSHA the server received): single Removes and RemoveMulti calls that mix 1-5 distinct bad items (fresh, seen in an earlier call, removed before, or listed once more than their net multiplicity) with live ones in random order; "+
			"configurations with 1-3 (half as many rounds: 10) expected items and 2-20 hash functions, and 15 further small ones (n in 1..5, rate 0.02-0.3: 4-29 counters, 2-7 hash functions), then get collision rounds: the filter is refilled with 1-3 items (deleted first one time in three or when more than n+2 items are live) and takes 1-3 such RemoveMulti calls with 2-5 distinct bad items, so that refused items and later items of the same call share counters; "+
			"fault worlds (32 quick / 640 thorough, 8 configurations with 1-20 hash functions, 3 of 4 on a client with retries enabled): 30 Add/AddMulti/Remove/RemoveMulti calls (removals within the net multiplicities, two thirds of the single Removes on items with multiplicity >= 2), 7 of 8 with one transport fault aimed at the call's script command (EVALSHA, or the EVAL after NOSCRIPT when the script cache was flushed first): connection closed before executing, after executing without a reply, or 1-3 bytes into the reply; every call is judged on the server's counters (zero or one application, never more) and followed by ExistsMulti + ItemMinCountMulti of its items and some live ones against the reference multiset (a call that returned nil counts once, one that returned an error as often as the server applied it); "+
			"a case = (n, rate, hash functions on the wire, call kind, members/others queried or removal shape / fault kind, target, client kind, multiplicity), non-trivial when an item with positive net multiplicity was queried / a removal had to be refused / a fault fired")
	defer run.Finish()
	run.Assume("fakeredis HINCRBY/HGET/HMGET/HGETALL/INCRBY/DECRBY and minilua execute the shipped scripts as Redis 7 would (harness self tests)",
		"RemoveMulti is judged per item: the counters after the call must equal the counters before minus the decrements of some subset of the items that were removable against the state before the call",
		"one call of the caller is one add / remove of the history: when the transport fails in the middle of it the filter may hold it zero times or once (an error result leaves that open), never twice")
	d := &driver{run: run, rng: run.Rand("history")}
	nops := run.N(100, 3000)
	var zero []string
	rejected := map[string][]string{}
	probe := probeAll(run)
	var runnable []cfg
	for i, c := range grid() {
		st := probe[i]
		switch {
		case strings.HasPrefix(st, "rejected "):
			run.Observe("configs_rejected", 1)
			why := strings.TrimPrefix(st, "rejected ")
			rejected[why] = append(rejected[why], c.String())
		case strings.HasPrefix(st, "panic "):
			run.Observe("configs_accepted_but_first_call_panics", 1)
			run.Case(c.String()+" first Add", true)
			run.Violation("panic", c.String()+" op=Add", map[string]any{"config": c.String(), "constructor": "accepted", "first Add/Exists": st})
		case strings.HasPrefix(st, "crash "):
			run.Observe("configs_accepted_but_first_call_kills_the_process", 1)
			run.Case(c.String()+" first Add", true)
			run.Violation("crash", c.String()+" op=Add", map[string]any{"config": c.String(), "constructor": "accepted", "child process": st})
		case st != "ok":
			run.Inconclusive("probe: " + st)
		default:
			runnable = append(runnable, c)
		}
	}
	cw := run.N(40, 1000) // collision rounds per small configuration
	for _, c := range runnable {
		n, r := c.n, c.rate
		collide := 0
		switch {
		case n >= 1 && n <= 3:
			collide = cw
		case n == 10:
			collide = cw / 2
		}
		k := d.runConfig(c, nops, collide)
		run.Observe("configs_accepted_and_run", 1)
		if k == "0" {
			zero = append(zero, c.String())
			run.Observe("zero_hash_function_configs", 1)
		}
		if (n == 100 && (r == 0.01 || r == 0.9 || r == 1e-12)) || (n == 10_000_000 && r == math.SmallestNonzeroFloat64) || (n == 2 && r == 0.5) {
			run.Sample(map[string]any{"config": c.String(), "hash_functions_on_wire": k, "ops": nops})
		}
	}
	// collision worlds: a handful of counters, 2-7 hash functions, so that the items of one call share counters all the time
	for _, c := range collisionWorlds {
		k := d.runConfig(c, nops/4, cw)
		run.Observe("collision_worlds_run", 1)
		if kv, _ := strconv.Atoi(k); kv < 2 {
			run.Inconclusive("collision world " + c.String() + " ran with fewer than 2 hash functions (" + k + ")")
		}
		if (c.n == 1 && c.rate == 0.2) || (c.n == 3 && c.rate == 0.05) {
			run.Sample(map[string]any{"config": c.String(), "hash_functions_on_wire": k, "ops": nops / 4, "collision_rounds": cw})
		}
	}
	// fault worlds: the same kind of history over a connection that breaks in the middle of a mutating call (faults_test.go)
	(&driver{run: run, rng: run.Rand("fault-worlds")}).runFaultWorlds()
	for why, l := range rejected {
		if len(l) > 8 {
			rejected[why] = append(l[:8:8], fmt.Sprintf("…(%d in total)", len(l)))
		}
	}
	run.Extra("rejected_configs", rejected)
	run.Extra("zero_hash_function_configs", zero)
	run.Require("present_answers_checked", "multi_positions_checked", "mincount_answers_checked", "mincount_checked_multiplicity_gt1", "legit_removals", "adds_refused_by_server_and_reported", "bad_removals_judged", "bad_batches_with_several_distinct_bad_items", "batches_with_several_refused_items", "refused_items_failing_before_their_last_position",
		"batches_refused_before_last_position_then_bad_item_sharing_later_index", "batches_refused_before_last_position_then_bad_item_refused_on_shared_later_index", "hincrby_in_scripts", "hget_in_scripts", "true_negatives", "final_counter_fields_inspected")
}
