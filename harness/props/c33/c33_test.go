//go:build verif

package c33

import (
	"fmt"
	"testing"

	"verifh/mon"
	"verifh/stress"
)

// C33: built commands carry exactly the caller's arguments (argv half, builder graph) and the client never
// modifies or recycles a command before it has been completely written, even when the caller abandons the call
// (wire half: stress workload with the frame monitor and the race detector).
func TestC33(t *testing.T) {
	run := mon.Start(t, "C33", "exploration", c33Rule)
	defer run.Finish()
	argvHalf(t, run)

	callers, ops := 16, 200
	if !run.Quick() {
		callers, ops = 32, 2000
	}
	cfgs := []stress.Config{
		{Name: "wire-ring", Queue: "ring", Multiplex: -1, RingScale: 2, Callers: callers, Ops: ops, CancelPct: 30},
		{Name: "wire-ring-mux", Queue: "ring", Multiplex: 2, RingScale: 10, Callers: callers, Ops: ops, CancelPct: 20},
		{Name: "wire-flow", Queue: "flowbuffer", Multiplex: -1, RingScale: 1, Callers: callers, Ops: ops, CancelPct: 30},
		{Name: "wire-cluster-ring", Queue: "ring", Multiplex: -1, RingScale: 1, Cluster: true, Callers: callers, Ops: ops, CancelPct: 30},
		{Name: "wire-cluster-flow", Queue: "flowbuffer", Multiplex: -1, RingScale: 1, Cluster: true, Callers: callers, Ops: ops, CancelPct: 30},
		{Name: "wire-resp2-always", Queue: "ring", RESP2: true, Multiplex: 1, RingScale: 3, Always: true, Callers: callers, Ops: ops, CancelPct: 15},
	}
	var frames, cancelled, bad int64
	for i, cfg := range cfgs {
		cfg.Seed = run.Seed*10 + int64(i)
		st := stress.Run(run, cfg, true)
		frames += st.Cmds
		cancelled += st.CtxErr
		bad += st.BadFrames
		run.Sample(map[string]any{"config": cfg.String(), "stats": fmt.Sprintf("%+v", st)})
	}
	run.Observe("wire_frames_checked", frames)
	run.Observe("abandoned_calls", cancelled)
	run.Observe("bad_frames", bad)
	run.Require("wire_frames_checked", "abandoned_calls")
}
