//go:build verif

package c33

import (
	"fmt"
	"math/rand"
	"os"
	"strconv"
	"strings"
	"testing"

	"github.com/redis/rueidis"
	"verifh/mon"
)

// twin is one path built twice with two disjoint argument sets.
type twin struct {
	path    []*Edge
	term    Term
	cluster bool
	shape   int64
}

func (tw twin) build(side int) Built {
	v := &Vals{Side: side, Shape: rand.New(rand.NewSource(tw.shape))}
	if tw.cluster {
		v.Tag = "{t}" // every string carries the same hash tag: multi key commands stay in one slot
	}
	return Run(rueidis.VerifNewBuilder(tw.cluster), tw.path, tw.term, v)
}

// expectOwner maps every expected value to the call that passed it.
func expectOwner(tw twin) []*Edge {
	v := &Vals{Side: 0, Shape: rand.New(rand.NewSource(tw.shape))}
	var own []*Edge
	for _, e := range tw.path {
		c := v.Args(e)
		for range c.Expect {
			own = append(own, e)
		}
	}
	return own
}

func matches(x Expect, got string) bool {
	return got == x.Text || (x.Alt != "" && got == x.Alt)
}

// verdict of the twin-build oracle. class "" = held.
type verdict struct {
	class, culprit, detail string
	unclassified           int
	widened32, short32     int
	values                 int
}

func judge(tw twin, a, b Built) verdict {
	var vd verdict
	if a.Panic != nil || b.Panic != nil {
		p, at := a.Panic, a.PanicAt
		if p == nil {
			p, at = b.Panic, b.PanicAt
		}
		return verdict{class: "panic", culprit: at, detail: fmt.Sprint(p)}
	}
	if len(a.Argv) != len(b.Argv) {
		return verdict{class: "length-differs", culprit: tw.path[0].Name, detail: fmt.Sprintf("%d vs %d tokens for the same call sequence", len(a.Argv), len(b.Argv))}
	}
	own := expectOwner(tw)
	var diff []int
	for i := range a.Argv {
		if a.Argv[i] != b.Argv[i] {
			diff = append(diff, i)
		}
	}
	vd.values = len(a.Expect)
	n := len(diff)
	if len(a.Expect) < n {
		n = len(a.Expect)
	}
	for i := 0; i < n; i++ {
		xa, xb := a.Expect[i], b.Expect[i]
		if strings.HasPrefix(xa.Kind, "unclassified") {
			vd.unclassified++
			continue
		}
		ga, gb := a.Argv[diff[i]], b.Argv[diff[i]]
		if !matches(xa, ga) || !matches(xb, gb) {
			return verdict{class: "wrong-text-" + xa.Kind, culprit: own[i].String(),
				detail: fmt.Sprintf("value #%d (passed to %s) must appear as %q / %q at argv[%d], found %q / %q", i, own[i], xa.Text, xb.Text, diff[i], ga, gb)}
		}
		if xa.Kind == "float32" {
			if ga == xa.Text && ga != xa.Alt {
				vd.widened32++
			} else if ga == xa.Alt && ga != xa.Text {
				vd.short32++
			}
		}
	}
	if len(diff) < len(a.Expect) {
		i := len(diff)
		return verdict{class: "value-missing", culprit: own[i].String(),
			detail: fmt.Sprintf("%d values passed, only %d argv positions depend on them; first unmatched value #%d %q passed to %s", len(a.Expect), len(diff), i, a.Expect[i].Text, own[i])}
	}
	if len(diff) > len(a.Expect) {
		p := diff[len(a.Expect)]
		return verdict{class: "value-extra", culprit: tw.path[0].Name,
			detail: fmt.Sprintf("%d values passed but %d argv positions depend on them; extra position argv[%d]=%q / %q", len(a.Expect), len(diff), p, a.Argv[p], b.Argv[p])}
	}
	// command tokens come first (Arbitrary excepted: there the caller supplies the command tokens)
	if len(diff) > 0 && diff[0] == 0 && tw.path[0].Name != "Arbitrary" {
		return verdict{class: "no-command-token", culprit: tw.path[0].Name, detail: "argv[0] is a caller value"}
	}
	if len(a.Argv) == 0 {
		return verdict{class: "empty-argv", culprit: tw.path[0].Name}
	}
	return vd
}

func fingerprint(tw twin, a Built) string {
	var sb strings.Builder
	sb.WriteString(PathString(tw.path, tw.term.Name))
	sb.WriteByte('|')
	sb.WriteString(strconv.FormatBool(tw.cluster))
	sb.WriteByte('|')
	for _, x := range a.Expect {
		sb.WriteByte(x.Kind[0])
	}
	return sb.String()
}

// C33 (argv half): the argv of every built command is its command tokens followed by the caller's
// arguments in call order, integers base 10, floats shortest round trip ('f'), durations / times in
// the unit the option names.
func TestC33Argv(t *testing.T) {
	if os.Getenv("VERIF_C33_ARGV_ONLY") == "" {
		t.Skip("run through TestC33 (set VERIF_C33_ARGV_ONLY=1 to run the argv half alone)")
	}
	run := mon.Start(t, "C33", "exploration", c33Rule)
	defer run.Finish()
	argvHalf(t, run)
}

const c33Rule = "(A) twin build over the reflected builder graph: (1) every (type, method) edge on a shortest path root->edge->nearest terminal, each terminal of the final type, on a non-cluster and on a cluster builder (hash-tagged strings); " +
	"(2) random walks of <=40 calls from random roots. Every path is built twice with disjoint recognisable values (strings a<n>/b<n>, ints incl. >2^53 and int64 extremes, floats incl. 1e21/5e-324, whole-unit durations/times). " +
	"A case is distinct by (path, terminal, builder kind, kinds of passed values) and non-trivial when at least one caller value is passed; " +
	"(B) wire integrity under the C01 stress workload with the race detector: every VERIF.* frame the server receives must be exactly the argv that was issued for its uid (count, key, shape), " +
	"while 15-30% of callers abandon their calls at random instants and successful commands are recycled into the command pool"

// argvHalf is the builder half of C33.
func argvHalf(t *testing.T, run *mon.Run) {
	run.Assume("reflection sees the whole builder API (exported methods only)",
		"time unit table keyed by method name: Ex=s, Px=ms, Exat=unix s, Pxat=unix ms (Redis SET/GETEX/MSETEX docs); other time-typed methods are counted unclassified (text not judged, presence still judged)",
		"float32 parameters: both strconv.FormatFloat(float64(v),'f',-1,64) (what the builders emit: exact widened value) and the bitSize-32 shortest form are accepted",
		"iter.Seq2 methods: FieldValueIter emits field,value; ScoreMemberIter (member->score pairs) emits score,member as ZADD requires")

	g := Discover()
	run.Extra("roots", len(g.Builder.Edges))
	run.Extra("builder_types", len(g.Nodes))
	run.Extra("edges_total", len(g.Edges))
	if len(g.Unsupported) > 0 {
		run.Extra("unsupported_methods", g.Unsupported)
		run.Inconclusive(fmt.Sprintf("%d builder methods have parameter types the generator does not support", len(g.Unsupported)))
	}
	if len(g.Dead) > 0 {
		run.Extra("types_without_terminal", g.Dead)
	}
	if len(g.Builder.Edges) < 500 || len(g.Edges) < 6000 {
		fmt.Printf("BROKEN property=C33 reflection found only %d roots / %d edges\n", len(g.Builder.Edges), len(g.Edges))
		t.Fatalf("builder graph too small")
	}

	covered := make([]bool, len(g.Edges))
	kinds := map[string]int64{}
	samples, evals := 0, 0
	sampledRoot := map[string]bool{}
	eval := func(tw twin) {
		evals++
		a, b := tw.build(0), tw.build(1)
		vd := judge(tw, a, b)
		run.Case(fingerprint(tw, a), len(a.Expect) > 0)
		run.Observe("twin_builds", 1)
		run.Observe("values_checked", int64(vd.values))
		if vd.unclassified > 0 {
			run.Observe("values_unclassified_unit", int64(vd.unclassified))
		}
		if vd.widened32 > 0 {
			run.Observe("float32_widened_to_float64_text", int64(vd.widened32))
		}
		if vd.short32 > 0 {
			run.Observe("float32_shortest32_text", int64(vd.short32))
		}
		if a.Cache {
			run.Observe("cache_terminals", 1)
		}
		for _, x := range a.Expect {
			kinds[x.Kind]++
		}
		if vd.class != "" {
			ps := PathString(tw.path, tw.term.Name)
			run.Violation(vd.class, vd.culprit+"|"+vd.class, map[string]any{
				"path": ps, "cluster": tw.cluster, "shape_seed": tw.shape, "argvA": a.Argv, "argvB": b.Argv,
				"expectA": texts(a.Expect), "expectB": texts(b.Expect), "detail": vd.detail,
			})
			return
		}
		for _, e := range tw.path {
			covered[e.ID] = true
		}
		if len(a.Expect) >= 3 && samples < 6 && !sampledRoot[tw.path[0].Name] && (evals%997 < 40) {
			samples++
			sampledRoot[tw.path[0].Name] = true
			run.Sample(map[string]any{"path": PathString(tw.path, tw.term.Name), "cluster": tw.cluster, "argvA": a.Argv, "argvB": b.Argv})
		}
	}

	// (1) every edge
	shapes := run.Rand("shapes")
	reps := run.N(2, 12)
	dead := 0
	for _, e := range g.Edges {
		if e.To.Dist < 0 {
			dead++
			continue
		}
		path := append(append(append([]*Edge{}, g.PathTo(e.From)...), e), Finish(e.To)...)
		last := path[len(path)-1].To
		for r := 0; r < reps; r++ {
			for _, term := range last.Terms {
				eval(twin{path: path, term: term, cluster: r%2 == 1, shape: shapes.Int63()})
			}
		}
	}
	run.Observe("edges_unreachable_terminal", int64(dead))

	// (2) random walks
	rng := run.Rand("walks")
	walks := run.N(250000, 5000000)
	maxLen := 0
	for i := 0; i < walks; i++ {
		limit := 1 + rng.Intn(40)
		root := g.Builder.Edges[rng.Intn(len(g.Builder.Edges))]
		if root.To.Dist < 0 {
			continue
		}
		path := []*Edge{root}
		n := root.To
		for {
			if len(path) >= limit && len(n.Terms) > 0 {
				break
			}
			if len(n.Terms) > 0 && rng.Intn(8) == 0 {
				break
			}
			var cand []*Edge
			for _, e := range n.Edges {
				if e.To.Dist >= 0 && len(path)+1+e.To.Dist <= 40 && (len(path) < limit || e.To.Dist < n.Dist) {
					cand = append(cand, e)
				}
			}
			if len(cand) == 0 {
				if len(n.Terms) == 0 { // cannot happen: Dist bookkeeping guarantees a way out within the budget
					t.Fatalf("walk stuck at %s", n.T.Name())
				}
				break
			}
			e := cand[rng.Intn(len(cand))]
			path = append(path, e)
			n = e.To
		}
		if len(path) > maxLen {
			maxLen = len(path)
		}
		eval(twin{path: path, term: n.Terms[rng.Intn(len(n.Terms))], cluster: rng.Intn(3) == 0, shape: rng.Int63()})
	}
	run.Extra("longest_walk", maxLen)

	nc := 0
	for _, c := range covered {
		if c {
			nc++
		}
	}
	run.Observe("edges_covered", int64(nc))
	for k, n := range kinds {
		run.Observe("value_kind_"+k, n)
	}
	if nc+dead < len(g.Edges) && run.Violations() == 0 {
		var miss []string
		for i, c := range covered {
			if !c && g.Edges[i].To.Dist >= 0 && len(miss) < 20 {
				miss = append(miss, g.Edges[i].String())
			}
		}
		run.Extra("edges_not_covered", miss)
		run.Inconclusive("some edges were never covered by a judged twin build")
	}
	run.Require("twin_builds", "edges_covered", "value_kind_string", "value_kind_int", "value_kind_float64", "value_kind_duration-s", "value_kind_duration-ms", "value_kind_time-s", "value_kind_time-ms")
}

func texts(xs []Expect) []string {
	out := make([]string, len(xs))
	for i, x := range xs {
		out[i] = x.Text
	}
	return out
}
