//go:build verif

package c33

// Reflection walker over the rueidis command builder graph.
// (This file is duplicated verbatim, except for the package clause, in props/c32 and props/c33.)
//
// A "builder type" is every named struct type of package internal/cmds that is reachable from
// rueidis.Builder through methods returning such a type (Completed and Cacheable excluded).
// An "edge" is a (type, method) pair whose single result is a builder type; a "terminal" is a
// method without parameters returning Completed or Cacheable.

import (
	"fmt"
	"math"
	"math/rand"
	"reflect"
	"sort"
	"strconv"
	"strings"
	"time"

	"github.com/redis/rueidis"
)

var (
	tBuilder   = reflect.TypeOf(rueidis.Builder{})
	tCompleted = reflect.TypeOf(rueidis.Completed{})
	tCacheable = reflect.TypeOf(rueidis.Cacheable{})
	tDuration  = reflect.TypeOf(time.Duration(0))
	tTime      = reflect.TypeOf(time.Time{})
)

// Edge is one (type, method) pair of the builder graph.
type Edge struct {
	From     *Node
	To       *Node
	Name     string
	Index    int // method index on From.T
	In       []reflect.Type
	Variadic bool
	ID       int
}

func (e *Edge) String() string { return e.From.T.Name() + "." + e.Name }

// Term is a completion method (Build, Cache, and Arbitrary's Blocking/ReadOnly).
type Term struct {
	Name  string
	Index int
	Cache bool
}

// Node is one builder type.
type Node struct {
	T     reflect.Type
	Edges []*Edge
	Terms []Term
	// shortest way to a node with a terminal
	Dist int
	Next *Edge
	// one shortest way from the Builder
	Depth  int
	Parent *Edge
	// roots (names of Builder methods) from which the node is reachable
	Roots map[string]bool
}

func (n *Node) HasCache() bool {
	for _, t := range n.Terms {
		if t.Cache {
			return true
		}
	}
	return false
}

// Graph is the complete builder graph.
type Graph struct {
	Builder     *Node
	Nodes       []*Node // sorted by type name, Builder excluded
	Edges       []*Edge // all edges including the roots
	Unsupported []string
	Dead        []string // types from which no terminal is reachable
}

func isBuilderType(t reflect.Type) bool {
	return t.Kind() == reflect.Struct && t.PkgPath() == tBuilder.PkgPath() && t != tCompleted && t != tCacheable && t != tBuilder && t.Name() != ""
}

func supportedParam(t reflect.Type, variadicLast bool) bool {
	if variadicLast {
		return supportedScalar(t.Elem())
	}
	if supportedScalar(t) {
		return true
	}
	switch t.Kind() {
	case reflect.Slice:
		return supportedScalar(t.Elem())
	case reflect.Func: // iter.Seq2[string,string] / iter.Seq2[string,float64]
		if t.NumIn() != 1 || t.NumOut() != 0 || t.In(0).Kind() != reflect.Func {
			return false
		}
		y := t.In(0)
		if y.NumIn() != 2 || y.NumOut() != 1 || y.Out(0).Kind() != reflect.Bool {
			return false
		}
		return supportedScalar(y.In(0)) && supportedScalar(y.In(1))
	}
	return false
}

func supportedScalar(t reflect.Type) bool {
	if t == tDuration || t == tTime {
		return true
	}
	switch t.Kind() {
	case reflect.String, reflect.Int64, reflect.Int, reflect.Int32, reflect.Uint64, reflect.Uint32, reflect.Uint, reflect.Float64, reflect.Float32, reflect.Bool:
		return true
	}
	return false
}

// Discover walks the method sets by reflection.
func Discover() *Graph {
	g := &Graph{}
	nodes := map[reflect.Type]*Node{}
	var visit func(t reflect.Type) *Node
	var queue []*Node
	visit = func(t reflect.Type) *Node {
		if n, ok := nodes[t]; ok {
			return n
		}
		n := &Node{T: t, Dist: -1, Depth: -1, Roots: map[string]bool{}}
		nodes[t] = n
		queue = append(queue, n)
		return n
	}
	g.Builder = visit(tBuilder)
	g.Builder.Depth = 0
	for len(queue) > 0 {
		n := queue[0]
		queue = queue[1:]
		t := n.T
		for i := 0; i < t.NumMethod(); i++ { // sorted by name: deterministic
			m := t.Method(i)
			mt := m.Type
			if mt.NumOut() != 1 {
				continue
			}
			out := mt.Out(0)
			if (out == tCompleted || out == tCacheable) && mt.NumIn() == 1 {
				if t.Name() == "Arbitrary" && m.Name == "MultiGet" { // only valid for MGET / JSON.MGET tokens
					continue
				}
				n.Terms = append(n.Terms, Term{Name: m.Name, Index: i, Cache: out == tCacheable})
				continue
			}
			if !isBuilderType(out) {
				continue
			}
			e := &Edge{From: n, Name: m.Name, Index: i, Variadic: mt.IsVariadic()}
			ok := true
			for j := 1; j < mt.NumIn(); j++ {
				e.In = append(e.In, mt.In(j))
				if !supportedParam(mt.In(j), e.Variadic && j == mt.NumIn()-1) {
					ok = false
				}
			}
			if !ok {
				g.Unsupported = append(g.Unsupported, t.Name()+"."+m.Name+": "+mt.String())
				continue
			}
			e.To = visit(out)
			if e.To.Depth < 0 {
				e.To.Depth = n.Depth + 1
				e.To.Parent = e
			}
			n.Edges = append(n.Edges, e)
		}
	}
	for _, n := range nodes {
		if n != g.Builder {
			g.Nodes = append(g.Nodes, n)
		}
	}
	sort.Slice(g.Nodes, func(i, j int) bool { return g.Nodes[i].T.Name() < g.Nodes[j].T.Name() })
	for _, n := range append([]*Node{g.Builder}, g.Nodes...) {
		for _, e := range n.Edges {
			e.ID = len(g.Edges)
			g.Edges = append(g.Edges, e)
		}
	}
	// distance to a terminal: backward BFS
	rev := map[*Node][]*Edge{}
	for _, e := range g.Edges {
		rev[e.To] = append(rev[e.To], e)
	}
	var q []*Node
	for _, n := range g.Nodes {
		if len(n.Terms) > 0 {
			n.Dist = 0
			q = append(q, n)
		}
	}
	for len(q) > 0 {
		n := q[0]
		q = q[1:]
		for _, e := range rev[n] {
			if e.From.Dist < 0 {
				e.From.Dist = n.Dist + 1
				e.From.Next = e
				q = append(q, e.From)
			}
		}
	}
	for _, n := range g.Nodes {
		if n.Dist < 0 {
			g.Dead = append(g.Dead, n.T.Name())
		}
	}
	// reachability per root
	for _, r := range g.Builder.Edges {
		seen := map[*Node]bool{r.To: true}
		st := []*Node{r.To}
		for len(st) > 0 {
			n := st[len(st)-1]
			st = st[:len(st)-1]
			n.Roots[r.Name] = true
			for _, e := range n.Edges {
				if !seen[e.To] {
					seen[e.To] = true
					st = append(st, e.To)
				}
			}
		}
	}
	return g
}

// PathTo returns one shortest edge sequence from the Builder to n.
func (g *Graph) PathTo(n *Node) []*Edge {
	var p []*Edge
	for n != g.Builder {
		p = append(p, n.Parent)
		n = n.Parent.From
	}
	for i, j := 0, len(p)-1; i < j; i, j = i+1, j-1 {
		p[i], p[j] = p[j], p[i]
	}
	return p
}

// Finish returns a shortest edge sequence from n to a node offering a terminal.
func Finish(n *Node) []*Edge {
	var p []*Edge
	for n.Dist > 0 {
		p = append(p, n.Next)
		n = n.Next.To
	}
	return p
}

// ---- argument generation ----

// Vals is one recognisable argument set. Two sets with different Side never produce the same text
// at the same position: strings carry the side letter, numbers of side 0 are even multiples and of
// side 1 odd ones (see below).
type Vals struct {
	Side int    // 0 or 1
	Tag  string // prefix put in front of every string, e.g. "{t}" so that all keys hash to one slot
	ctr  int
	// Shape decisions (variadic lengths, pool picks) come from a PRNG that is seeded identically for both sides.
	Shape *rand.Rand
}

// Expect is what the oracle demands for one passed value.
type Expect struct {
	Text string
	Alt  string // second acceptable rendering ("" if none): float32 formatted with bitSize 32
	Kind string
}

// integers: recognisable magnitudes incl. values above 2^53 (would be damaged by a float round trip),
// negative values and the int64 extremes; side 1 is always side 0 + 1 (or -1 at the upper extreme).
var intPool = []int64{0, 2, 10, 100, 4096, 1000000, -2, -1000, 1 << 31, 1 << 32, 9007199254740992 + 2, 1234567890123456, -9007199254740994, math.MaxInt64 - 1, math.MinInt64}

// floats: fractions, large and tiny magnitudes (where %g/%e and 'f' differ), negative zero excluded.
var floatPool = []float64{0.5, 1.25, -3.75, 100, 1e21, 1e-7, 123456789.125, 0.1, 2.5e-10, 1e15, -1e22, 3, 1.7976931348623157e308, 5e-324}
var float32Pool = []float32{0.5, 1.25, -3.75, 100, 0.1, 0.3, 1e10, 1e-7, 16777216, 3.4028235e38, 3}

func (v *Vals) next() int { v.ctr++; return v.ctr }

// strSuffix: payloads that a builder must pass through verbatim (blanks, CR/LF, NUL and invalid UTF-8, quotes,
// RESP-looking text, multi-byte runes, a long value). The recognisable head a<n>/b<n> stays in front.
var strSuffix = []string{" x  y ", "\r\n", "\x00\xff", "\"'\\", "$-1", "*", "世界", strings.Repeat("z", 300), "{other}", "-0012", "1e3"}

func (v *Vals) str(pick int) string {
	s := v.Tag + string(rune('a'+v.Side)) + strconv.Itoa(v.next())
	if pick < len(strSuffix) {
		s += strSuffix[pick]
	}
	return s
}

func (v *Vals) i64(pick int) int64 {
	n := v.next()
	if pick < len(intPool) {
		b := intPool[pick]
		if v.Side == 1 {
			return b + 1
		}
		return b
	}
	return int64(20000 + 2*n + v.Side)
}

func (v *Vals) f64(pick int) float64 {
	n := v.next()
	if pick < len(floatPool) {
		b := floatPool[pick]
		if v.Side == 1 {
			switch {
			case math.Abs(b) >= 1e300:
				return b / 2
			case math.Abs(b) < 1e-300:
				return b * 3
			case math.Abs(b) >= 1e15:
				return b * 1.5
			}
			return b + 0.0625
		}
		return b
	}
	return float64(n) + 0.25 + 0.5*float64(v.Side)
}

func (v *Vals) f32(pick int) float32 {
	n := v.next()
	if pick < len(float32Pool) {
		b := float32Pool[pick]
		if v.Side == 1 {
			if b > 1e30 {
				return b / 2
			}
			if b >= 1e7 {
				return b * 1.5
			}
			return b + 0.0625
		}
		return b
	}
	return float32(n) + 0.25 + 0.5*float32(v.Side)
}

// TimeUnit is the hand table for time.Duration / time.Time parameters, keyed by method name,
// written from the Redis documentation of SET / GETEX / MSETEX / HSETEX ...:
// EX seconds, PX milliseconds, EXAT unix-time-seconds, PXAT unix-time-milliseconds.
var TimeUnit = map[string]string{
	"Ex":   "s",
	"Px":   "ms",
	"Exat": "unix-s",
	"Pxat": "unix-ms",
}

// scalar produces one value of type t and its expected argv text.
// method is the builder method the value is passed to (for the unit table).
func (v *Vals) scalar(t reflect.Type, method string) (reflect.Value, Expect) {
	pick := v.Shape.Intn(40) // < len(pool): a pool value, otherwise a counter value
	switch {
	case t == tDuration:
		// a whole number of seconds for EX, a whole number of milliseconds that is not a whole second for PX
		n := int64(v.next())
		secs := 100 + 2*n + int64(v.Side)
		ms := 1001 + 2000*n + 2*int64(v.Side) // never a multiple of 1000
		switch TimeUnit[method] {
		case "s":
			return reflect.ValueOf(time.Duration(secs) * time.Second), Expect{Text: strconv.FormatInt(secs, 10), Kind: "duration-s"}
		case "ms":
			return reflect.ValueOf(time.Duration(ms) * time.Millisecond), Expect{Text: strconv.FormatInt(ms, 10), Kind: "duration-ms"}
		}
		return reflect.ValueOf(time.Duration(secs) * time.Second), Expect{Kind: "unclassified-time"}
	case t == tTime:
		n := int64(v.next())
		secs := 1700000000 + 2*n + int64(v.Side)
		ms := secs*1000 + 7 + 2*int64(v.Side)
		switch TimeUnit[method] {
		case "unix-s":
			return reflect.ValueOf(time.Unix(secs, 0)), Expect{Text: strconv.FormatInt(secs, 10), Kind: "time-s"}
		case "unix-ms":
			return reflect.ValueOf(time.UnixMilli(ms)), Expect{Text: strconv.FormatInt(ms, 10), Kind: "time-ms"}
		}
		return reflect.ValueOf(time.Unix(secs, 0)), Expect{Kind: "unclassified-time"}
	}
	switch t.Kind() {
	case reflect.String:
		s := v.str(pick)
		return reflect.ValueOf(s).Convert(t), Expect{Text: s, Kind: "string"}
	case reflect.Int64, reflect.Int:
		x := v.i64(pick)
		return reflect.ValueOf(x).Convert(t), Expect{Text: strconv.FormatInt(x, 10), Kind: "int"}
	case reflect.Int32:
		x := int64(int32(20000 + 2*v.next() + v.Side))
		return reflect.ValueOf(x).Convert(t), Expect{Text: strconv.FormatInt(x, 10), Kind: "int"}
	case reflect.Uint64, reflect.Uint:
		n := uint64(v.next())
		var x uint64
		switch pick {
		case 0:
			x = math.MaxUint64 - 1 + uint64(v.Side)
		case 1:
			x = 1<<63 + uint64(v.Side) // would be negative as int64
		case 2:
			x = 9007199254740994 + uint64(v.Side)
		default:
			x = 30000 + 2*n + uint64(v.Side)
		}
		return reflect.ValueOf(x).Convert(t), Expect{Text: strconv.FormatUint(x, 10), Kind: "uint"}
	case reflect.Uint32:
		x := uint64(30000 + 2*v.next() + v.Side)
		return reflect.ValueOf(x).Convert(t), Expect{Text: strconv.FormatUint(x, 10), Kind: "uint"}
	case reflect.Float64:
		x := v.f64(pick)
		return reflect.ValueOf(x).Convert(t), Expect{Text: strconv.FormatFloat(x, 'f', -1, 64), Kind: "float64"}
	case reflect.Float32:
		x := v.f32(pick)
		// the builders widen to float64 first: exact, but longer than the shortest float32 form; both are accepted
		return reflect.ValueOf(x).Convert(t), Expect{Text: strconv.FormatFloat(float64(x), 'f', -1, 64), Alt: strconv.FormatFloat(float64(x), 'f', -1, 32), Kind: "float32"}
	case reflect.Bool:
		b := v.Side == 1
		v.next()
		return reflect.ValueOf(b).Convert(t), Expect{Kind: "unclassified-bool"}
	}
	panic("unsupported scalar " + t.String())
}

// Call is one prepared method call: the reflect arguments and the texts they must produce, in order.
type Call struct {
	Edge   *Edge
	Args   []reflect.Value
	Expect []Expect
}

// Args generates arguments for e from the value set.
func (v *Vals) Args(e *Edge) Call {
	c := Call{Edge: e}
	for j, t := range e.In {
		last := j == len(e.In)-1
		switch {
		case e.Variadic && last:
			n := v.Shape.Intn(4) // 0..3 elements
			if e.From.T == tBuilder && n == 0 {
				n = 1 // Arbitrary() without a token cannot be built
			}
			for k := 0; k < n; k++ {
				a, x := v.scalar(t.Elem(), e.Name)
				c.Args = append(c.Args, a)
				c.Expect = append(c.Expect, x)
			}
		case t.Kind() == reflect.Slice && t != tDuration:
			n := v.Shape.Intn(4)
			s := reflect.MakeSlice(t, 0, n)
			for k := 0; k < n; k++ {
				a, x := v.scalar(t.Elem(), e.Name)
				s = reflect.Append(s, a)
				c.Expect = append(c.Expect, x)
			}
			c.Args = append(c.Args, s)
		case t.Kind() == reflect.Func:
			// iter.Seq2[K,V]: yields n pairs. The argv order of a pair follows the method name:
			// FieldValueIter -> field value ; ScoreMemberIter(seq of member->score) -> score member.
			y := t.In(0)
			n := v.Shape.Intn(4)
			type pair struct{ k, v reflect.Value }
			var ps []pair
			for k := 0; k < n; k++ {
				a, xa := v.scalar(y.In(0), e.Name)
				b, xb := v.scalar(y.In(1), e.Name)
				ps = append(ps, pair{a, b})
				if strings.HasPrefix(e.Name, "ScoreMember") {
					c.Expect = append(c.Expect, xb, xa)
				} else {
					c.Expect = append(c.Expect, xa, xb)
				}
			}
			f := reflect.MakeFunc(t, func(in []reflect.Value) []reflect.Value {
				for _, p := range ps {
					if !in[0].Call([]reflect.Value{p.k, p.v})[0].Bool() {
						break
					}
				}
				return nil
			})
			c.Args = append(c.Args, f)
		default:
			a, x := v.scalar(t, e.Name)
			c.Args = append(c.Args, a)
			c.Expect = append(c.Expect, x)
		}
	}
	return c
}

// Built is the result of running a path.
type Built struct {
	Argv     []string
	Expect   []Expect
	Cmd      rueidis.Completed // the completed command (a Cacheable is converted)
	Cache    bool
	Panic    any
	PanicAt  string
	LastNode *Node
}

// Run executes path (starting with a root edge) on b with values from v and completes it with term.
func Run(b rueidis.Builder, path []*Edge, term Term, v *Vals) (res Built) {
	cur := reflect.ValueOf(b)
	at := "Builder"
	defer func() {
		if r := recover(); r != nil {
			res.Panic = r
			res.PanicAt = at
		}
	}()
	for _, e := range path {
		at = e.String()
		c := v.Args(e)
		res.Expect = append(res.Expect, c.Expect...)
		cur = cur.Method(e.Index).Call(c.Args)[0]
		res.LastNode = e.To
	}
	at = cur.Type().Name() + "." + term.Name
	out := cur.Method(term.Index).Call(nil)[0].Interface()
	switch c := out.(type) {
	case rueidis.Completed:
		res.Cmd = c
		res.Argv = append([]string(nil), c.Commands()...)
	case rueidis.Cacheable:
		res.Cmd = rueidis.Completed(c)
		res.Cache = true
		res.Argv = append([]string(nil), c.Commands()...)
	default:
		panic(fmt.Sprintf("terminal %s returned %T", at, out))
	}
	return res
}

// PathString renders a path compactly (stable key for violations).
func PathString(path []*Edge, term string) string {
	var sb strings.Builder
	for i, e := range path {
		if i > 0 {
			sb.WriteByte('.')
		}
		sb.WriteString(e.Name)
	}
	sb.WriteByte('.')
	sb.WriteString(term)
	return sb.String()
}
