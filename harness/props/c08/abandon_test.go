package c08

import (
	"context"
	"encoding/json"
	"fmt"
	"math/rand"
	"os"
	"regexp"
	"sort"
	"strconv"
	"strings"
	"sync"
	"sync/atomic"
	"testing"
	"time"

	"github.com/redis/rueidis"
	"verifh/drv"
	"verifh/fakeredis"
	"verifh/mon"
)

// ---------------------------------------------------------------------------
// The dynamic part of C08: cache identities of replies that arrive late.
//
// The static part compares identities of commands at rest. The identity of an entry is, however, also computed by the
// connection's reader when a reply arrives, from the command it believes that reply belongs to. This part therefore runs
// whole histories on one connection (virtual time, synctest bubble): cached MGET / JSON.MGET calls whose caller gives up
// (deadline or cancellation) while the request is on the wire and the server sits on the EXEC reply, other goroutines that
// build and run other cached commands meanwhile (pending entries, command slices taken from the shared pool), and at the
// end every cacheable command of the history is read again. The oracle is the statement's: a reply served as a cache hit
// for a command must be the reply the server gives to exactly that command (the data never changes and every value names
// its key / field / path / uid, so "the reply to another command" is recognisable).
//
// A reader goroutine that dies takes the process with it, so histories run in a re-executed child (as C13 / C19 do).

const dynAddr = "127.0.0.1:6379"

type dynUnit struct {
	Argv []string `json:"argv"`
}

func (u dynUnit) name() string { return u.Argv[0] }
func (u dynUnit) isMGet() bool { return u.Argv[0] == "MGET" || u.Argv[0] == "JSON.MGET" }
func (u dynUnit) keys() []string {
	switch u.Argv[0] {
	case "MGET":
		return u.Argv[1:]
	case "JSON.MGET":
		return u.Argv[1 : len(u.Argv)-1]
	}
	return u.Argv[1:2]
}

// elem is the single-key command one position of a MGET / JSON.MGET stands for (the assumption the static part states too)
func (u dynUnit) elem(i int) dynUnit {
	if u.Argv[0] == "MGET" {
		return dynUnit{Argv: []string{"GET", u.Argv[1+i]}}
	}
	return dynUnit{Argv: []string{"JSON.GET", u.Argv[1+i], u.Argv[len(u.Argv)-1]}}
}

type dynOp struct {
	Units  []dynUnit     `json:"units"`           // one: DoCache; several: DoMultiCache
	GiveUp string        `json:"give_up"`         // "", "deadline", "cancel"
	After  time.Duration `json:"after,omitempty"` // when the caller gives up
	Pause  time.Duration `json:"pause,omitempty"` // virtual pause before the call
}

type dynHistory struct {
	Idx     int           `json:"idx"`
	Seed    int64         `json:"seed"`
	Store   string        `json:"store"` // builtin | adapter
	Warm    []dynUnit     `json:"warm"`
	Victims []dynOp       `json:"victims"` // cached MGET / JSON.MGET calls issued first; key sets pairwise disjoint
	Delay   time.Duration `json:"delay"`   // how long the server sits on the EXEC reply of a victim's block
	Gap     time.Duration `json:"gap"`     // when the other goroutines start
	Workers [][]dynOp     `json:"workers"`
	Churn   []dynUnit     `json:"churn"`      // commands other goroutines build (and keep) meanwhile
	Coins   []bool        `json:"late_coins"` // which later MGET blocks are delayed as well
}

var (
	dynStrs   = []string{"s:0", "s:1", "s:2", "s:3", "s:4", "s:5", "s:6", "s:7"}
	dynHashes = []string{"h:0", "h:1", "h:2"}
	dynFields = []string{"f0", "f1", "f2", "f3"}
	dynLists  = []string{"l:0", "l:1"}
	dynJSONs  = []string{"j:0", "j:1", "j:2", "j:3", "j:4", "j:5"}
	dynPaths  = []string{"$.a", "$.b"}
)

func dynPopulate(node *fakeredis.Node) {
	for _, k := range dynStrs {
		node.Exec("SET", k, "v:"+k+":0123456789")
	}
	for _, k := range dynHashes {
		for _, f := range dynFields {
			node.Exec("HSET", k, f, "hv:"+k+":"+f)
		}
	}
	for _, k := range dynLists {
		node.Exec("RPUSH", k, "lv:"+k+":0", "lv:"+k+":1")
	}
	for _, k := range dynJSONs {
		node.Exec("JSON.SET", k, "$", `{"a":"jv:`+k+`:a","b":"jv:`+k+`:b"}`)
	}
}

type dynGen struct {
	rng *rand.Rand
	hot []string
	uid int
	idx int
}

func (g *dynGen) pick(all []string) string {
	if len(g.hot) > 0 && g.rng.Intn(2) == 0 {
		var c []string
		for _, h := range g.hot {
			for _, a := range all {
				if a == h {
					c = append(c, h)
				}
			}
		}
		if len(c) > 0 {
			return c[g.rng.Intn(len(c))]
		}
	}
	return all[g.rng.Intn(len(all))]
}

func (g *dynGen) distinct(all []string, n int) []string {
	seen := map[string]bool{}
	var out []string
	for len(out) < n && len(out) < len(all) {
		k := g.pick(all)
		if !seen[k] {
			seen[k] = true
			out = append(out, k)
		}
	}
	return out
}

// unit draws one cacheable command; long biases towards commands with many words
func (g *dynGen) unit(long, noMGet bool) dynUnit {
	rng := g.rng
	for {
		w := rng.Intn(100)
		if long {
			w = []int{30, 30, 30, 60, 60, 95, 0, 85}[rng.Intn(8)]
		}
		switch {
		case w < 25:
			return dynUnit{Argv: []string{"GET", g.pick(dynStrs)}}
		case w < 50:
			if noMGet {
				continue
			}
			n := 1 + rng.Intn(4)
			if long {
				n = 3 + rng.Intn(3)
			}
			return dynUnit{Argv: append([]string{"MGET"}, g.distinct(dynStrs, n)...)}
		case w < 58:
			return dynUnit{Argv: []string{"HGET", g.pick(dynHashes), dynFields[rng.Intn(len(dynFields))]}}
		case w < 68:
			n := 2 + rng.Intn(3)
			fs := append([]string{}, dynFields...)
			rng.Shuffle(len(fs), func(i, j int) { fs[i], fs[j] = fs[j], fs[i] })
			return dynUnit{Argv: append([]string{"HMGET", g.pick(dynHashes)}, fs[:n]...)}
		case w < 74:
			return dynUnit{Argv: []string{"GETRANGE", g.pick(dynStrs), "0", []string{"2", "5", "-1"}[rng.Intn(3)]}}
		case w < 78:
			return dynUnit{Argv: []string{"STRLEN", g.pick(dynStrs)}}
		case w < 82:
			return dynUnit{Argv: []string{"LRANGE", g.pick(dynLists), "0", "-1"}}
		case w < 88:
			return dynUnit{Argv: []string{"JSON.GET", g.pick(dynJSONs), dynPaths[rng.Intn(2)]}}
		case w < 94:
			if noMGet {
				continue
			}
			n := 1 + rng.Intn(3)
			if long {
				n = 3 + rng.Intn(2)
			}
			return dynUnit{Argv: append(append([]string{"JSON.MGET"}, g.distinct(dynJSONs, n)...), dynPaths[rng.Intn(2)])}
		default:
			g.uid++
			return dynUnit{Argv: []string{"VERIF.ECHO", g.pick(dynStrs), fmt.Sprintf("u%d.%d", g.idx, g.uid), []string{"str", "int", "arr", "map"}[rng.Intn(4)]}}
		}
	}
}

func (g *dynGen) giveUp(p int) (string, time.Duration) {
	switch r := g.rng.Intn(100); {
	case r < p*8/10:
		return "deadline", time.Duration(1+g.rng.Intn(20)) * time.Millisecond
	case r < p:
		return "cancel", time.Duration(1+g.rng.Intn(20)) * time.Millisecond
	}
	return "", 0
}

func dynGenerate(idx int, seed int64) *dynHistory {
	rng := rand.New(rand.NewSource(seed))
	g := &dynGen{rng: rng, idx: idx}
	h := &dynHistory{Idx: idx, Seed: seed, Store: []string{"builtin", "adapter"}[idx%2]}
	h.Delay = time.Duration(40+rng.Intn(160)) * time.Millisecond
	h.Gap = 25 * time.Millisecond
	// victims: disjoint key sets, so that a block seen by the server identifies its caller
	strs := append([]string{}, dynStrs...)
	rng.Shuffle(len(strs), func(i, j int) { strs[i], strs[j] = strs[j], strs[i] })
	jsons := append([]string{}, dynJSONs...)
	rng.Shuffle(len(jsons), func(i, j int) { jsons[i], jsons[j] = jsons[j], jsons[i] })
	nv := 1 + rng.Intn(3)
	for v := 0; v < nv; v++ {
		var u dynUnit
		if rng.Intn(4) == 0 && len(jsons) >= 1 {
			n := 1 + rng.Intn(min(3, len(jsons)))
			u = dynUnit{Argv: append(append([]string{"JSON.MGET"}, jsons[:n]...), dynPaths[rng.Intn(2)])}
			jsons = jsons[n:]
		} else if len(strs) >= 1 {
			n := 1 + rng.Intn(min(3, len(strs)))
			u = dynUnit{Argv: append([]string{"MGET"}, strs[:n]...)}
			strs = strs[n:]
		} else {
			break
		}
		how, after := g.giveUp(90)
		h.Victims = append(h.Victims, dynOp{Units: []dynUnit{u}, GiveUp: how, After: after})
		g.hot = append(g.hot, u.keys()...)
	}
	g.hot = append(g.hot, dynStrs[rng.Intn(len(dynStrs))], dynHashes[rng.Intn(len(dynHashes))], dynJSONs[rng.Intn(len(dynJSONs))])
	// warm-up: some entries are already cached when the victims start (partial hits: the victim fetches a subset)
	if rng.Intn(2) == 0 {
		for i := rng.Intn(4); i > 0; i-- {
			h.Warm = append(h.Warm, g.unit(false, false))
		}
		if v := h.Victims[rng.Intn(len(h.Victims))].Units[0]; len(v.keys()) > 1 && rng.Intn(2) == 0 {
			h.Warm = append(h.Warm, v.elem(rng.Intn(len(v.keys()))))
		}
	}
	for w := 2 + rng.Intn(5); w > 0; w-- {
		var ops []dynOp
		for o := 1 + rng.Intn(4); o > 0; o-- {
			op := dynOp{}
			if rng.Intn(10) < 7 {
				op.Units = []dynUnit{g.unit(rng.Intn(3) == 0, false)}
			} else {
				seen := map[string]bool{}
				for n := 2 + rng.Intn(3); n > 0; n-- {
					u := g.unit(false, true)
					if k := strings.Join(u.Argv, "\x00"); !seen[k] {
						seen[k] = true
						op.Units = append(op.Units, u)
					}
				}
			}
			op.GiveUp, op.After = g.giveUp(15)
			if rng.Intn(4) == 0 {
				op.Pause = time.Duration(rng.Intn(30)) * time.Millisecond
			}
			ops = append(ops, op)
		}
		h.Workers = append(h.Workers, ops)
	}
	for c := rng.Intn(97); c > 0; c-- {
		h.Churn = append(h.Churn, g.unit(true, false))
	}
	for i := 0; i < 64; i++ {
		h.Coins = append(h.Coins, rng.Intn(6) == 0)
	}
	return h
}

// dynBuild builds the command through the public builder (slices come from the shared pool)
func dynBuild(c rueidis.Client, u dynUnit) rueidis.Cacheable {
	a := u.Argv
	switch a[0] {
	case "GET":
		return c.B().Get().Key(a[1]).Cache()
	case "MGET":
		return c.B().Mget().Key(a[1:]...).Cache()
	case "HGET":
		return c.B().Hget().Key(a[1]).Field(a[2]).Cache()
	case "HMGET":
		return c.B().Hmget().Key(a[1]).Field(a[2:]...).Cache()
	case "GETRANGE":
		s, _ := strconv.ParseInt(a[2], 10, 64)
		e, _ := strconv.ParseInt(a[3], 10, 64)
		return c.B().Getrange().Key(a[1]).Start(s).End(e).Cache()
	case "STRLEN":
		return c.B().Strlen().Key(a[1]).Cache()
	case "LRANGE":
		s, _ := strconv.ParseInt(a[2], 10, 64)
		e, _ := strconv.ParseInt(a[3], 10, 64)
		return c.B().Lrange().Key(a[1]).Start(s).Stop(e).Cache()
	case "JSON.GET":
		return c.B().JsonGet().Key(a[1]).Path(a[2]).Cache()
	case "JSON.MGET":
		return c.B().JsonMget().Key(a[1 : len(a)-1]...).Path(a[len(a)-1]).Cache()
	case "VERIF.ECHO":
		return rueidis.Cacheable(c.B().Arbitrary("VERIF.ECHO").Keys(a[1]).Args(a[2:]...).ReadOnly())
	}
	panic("dynBuild: " + a[0])
}

// ---------------------------------------------------------------------------
// one history

type dynViol struct {
	Class   string `json:"class"`
	Key     string `json:"key"`
	Witness any    `json:"witness"`
}

type dynResult struct {
	Idx        int              `json:"idx"`
	Obs        map[string]int64 `json:"obs"`
	Viol       []dynViol        `json:"viol"`
	Inconcl    []string         `json:"inconcl"`
	Nontrivial bool             `json:"nontrivial"`
}

type lockedMap struct {
	mu sync.Mutex
	m  map[string]rueidis.RedisMessage
}

func (c *lockedMap) Get(key string) rueidis.RedisMessage {
	c.mu.Lock()
	defer c.mu.Unlock()
	return c.m[key]
}
func (c *lockedMap) Set(key string, val rueidis.RedisMessage) {
	c.mu.Lock()
	c.m[key] = val
	c.mu.Unlock()
}
func (c *lockedMap) Del(key string) { c.mu.Lock(); delete(c.m, key); c.mu.Unlock() }
func (c *lockedMap) Flush() {
	c.mu.Lock()
	c.m = map[string]rueidis.RedisMessage{}
	c.mu.Unlock()
}

func dynAwait(limit time.Duration, fn func()) bool {
	ch := make(chan struct{})
	go func() { defer close(ch); fn() }()
	tm := time.NewTimer(limit)
	defer tm.Stop()
	select {
	case <-ch:
		return true
	case <-tm.C:
		return false
	}
}

type dynEnv struct {
	h      *dynHistory
	mu     sync.Mutex
	res    *dynResult
	want   map[string]rueidis.VerifNode // rendered argv -> the server's reply to exactly that command
	origin map[string][]string          // rendered reply -> commands that have this reply (to name where a foreign reply came from)
	node   *fakeredis.Node
}

func (e *dynEnv) obs(k string, n int64) {
	e.mu.Lock()
	e.res.Obs[k] += n
	e.mu.Unlock()
}

func (e *dynEnv) expect(u dynUnit) rueidis.VerifNode {
	k := render(u.Argv)
	e.mu.Lock()
	w, ok := e.want[k]
	e.mu.Unlock()
	if ok {
		return w
	}
	w = drv.ExpectNode(e.node.Exec(u.Argv...)) // the data never changes: the server's reply to this command is the same at any time
	e.mu.Lock()
	e.want[k] = w
	s := drv.NodeString(w)
	e.origin[s] = append(e.origin[s], k)
	e.mu.Unlock()
	return w
}

// cmp is the oracle: a reply served from the cache for u must be the server's reply to u
func (e *dynEnv) cmp(u dynUnit, m rueidis.RedisMessage, hit bool, phase string) {
	want := e.expect(u)
	got := rueidis.VerifDump(m)
	eq := drv.NodeEqual(got, want)
	if hit {
		e.obs("dyn_hits_checked", 1)
		e.obs("dyn_hits_checked_"+phase, 1)
	} else {
		e.obs("dyn_fetched_replies_checked", 1)
	}
	if eq {
		return
	}
	gs := drv.NodeString(got)
	if !hit {
		// not a statement about cache entries (reply routing is C01's subject): recorded, never folded into held
		e.mu.Lock()
		e.res.Obs["dyn_fetched_reply_differs"]++
		e.res.Inconcl = append(e.res.Inconcl, "a reply that was not served from the cache differs from the server's reply to that command: "+render(u.Argv)+" got "+trunc(gs, 120))
		e.mu.Unlock()
		return
	}
	e.mu.Lock()
	from := append([]string{}, e.origin[gs]...)
	e.mu.Unlock()
	src := "an unidentified command"
	if len(from) > 0 {
		src = strings.SplitN(from[0], " ", 2)[0]
	}
	e.mu.Lock()
	e.res.Viol = append(e.res.Viol, dynViol{Class: "cache-hit-foreign-reply",
		Key: fmt.Sprintf("dynamic/%s|a cache hit for %s returned the server's reply to a different command (%s)", e.h.Store, u.name(), src),
		Witness: map[string]any{"store": e.h.Store, "command": u.Argv, "served_from_cache": trunc(gs, 300), "server_reply_to_that_command": trunc(drv.NodeString(want), 300),
			"served_value_is_the_reply_to": from, "phase": phase, "history": e.h}})
	e.mu.Unlock()
}

func trunc(s string, n int) string {
	if len(s) > n {
		return s[:n] + "…"
	}
	return s
}

func (e *dynEnv) check(u dynUnit, r rueidis.RedisResult, phase string) (abandoned bool) {
	if err := r.NonRedisError(); err != nil {
		if err == context.DeadlineExceeded || err == context.Canceled {
			e.obs("dyn_calls_given_up", 1)
			return true
		}
		e.obs("dyn_calls_failed", 1)
		e.mu.Lock()
		if len(e.res.Inconcl) < 4 {
			e.res.Inconcl = append(e.res.Inconcl, "call failed with an error the history does not explain: "+render(u.Argv)+": "+err.Error())
		}
		e.mu.Unlock()
		return false
	}
	m, _ := r.ToMessage()
	if !u.isMGet() {
		e.cmp(u, m, m.IsCacheHit(), phase)
		return false
	}
	els, err := m.ToArray()
	if err != nil || len(els) != len(u.keys()) {
		e.obs("dyn_mget_shape_unexpected", 1)
		e.mu.Lock()
		e.res.Inconcl = append(e.res.Inconcl, fmt.Sprintf("reply of %s is not an array of %d elements: %s", render(u.Argv), len(u.keys()), trunc(drv.NodeString(rueidis.VerifDump(m)), 200)))
		e.mu.Unlock()
		return false
	}
	for i := range els {
		e.cmp(u.elem(i), els[i], els[i].IsCacheHit() || m.IsCacheHit(), phase)
	}
	return false
}

func (e *dynEnv) ctxFor(op dynOp) (context.Context, context.CancelFunc) {
	switch op.GiveUp {
	case "deadline":
		return context.WithTimeout(context.Background(), op.After)
	case "cancel":
		ctx, cancel := context.WithCancel(context.Background())
		tm := time.AfterFunc(op.After, cancel)
		return ctx, func() { tm.Stop(); cancel() }
	}
	return context.Background(), func() {}
}

func runDynHistory(h *dynHistory) *dynResult {
	res := &dynResult{Idx: h.Idx, Obs: map[string]int64{}}
	e := &dynEnv{h: h, res: res, want: map[string]rueidis.VerifNode{}, origin: map[string][]string{}}
	s := fakeredis.New(fakeredis.Options{Seed: h.Seed}, dynAddr)
	defer func() {
		if !dynAwait(time.Hour, s.Close) {
			e.mu.Lock()
			res.Inconcl = append(res.Inconcl, "server did not close")
			e.mu.Unlock()
		}
	}()
	e.node = s.Node(dynAddr)
	dynPopulate(e.node)

	// what the server sees: MULTI blocks per connection, which caller a block belongs to, when its EXEC reply leaves
	type block struct {
		victim  int // index of the victim the block belongs to, -1
		delayed bool
	}
	var (
		phaseA     atomic.Bool
		pending    atomic.Int64 // cached calls of the other goroutines that have started and not returned
		gaveUp     = make([]atomic.Bool, len(h.Victims))
		smu        sync.Mutex
		cur        = map[int64]*block{}
		blocks     = map[int64][]*block{}
		replied    = map[int64]int{}
		coin       int
		victimOf   = map[string]int{}
		lateAll    int64
		latePend   int64
		lateByKind = map[string]int64{}
	)
	for i, v := range h.Victims {
		for _, k := range v.Units[0].keys() {
			victimOf[k] = i
		}
	}
	s.Plan(&fakeredis.Rule{Name: "sit on the EXEC reply of MGET blocks", Action: fakeredis.Action{DelayReply: h.Delay},
		Match: func(c *fakeredis.Conn, a []string) bool {
			smu.Lock()
			defer smu.Unlock()
			switch strings.ToUpper(a[0]) {
			case "MULTI":
				cur[c.ID] = &block{victim: -1}
			case "MGET", "JSON.MGET":
				if b := cur[c.ID]; b != nil && len(a) > 1 {
					if phaseA.Load() { // only the victims run in this phase; their key sets are disjoint
						b.delayed = true
						if v, ok := victimOf[a[1]]; ok {
							b.victim = v
						}
					} else {
						b.delayed = h.Coins[coin%len(h.Coins)]
						coin++
					}
				}
			case "EXEC":
				b := cur[c.ID]
				if b == nil {
					b = &block{victim: -1}
				}
				cur[c.ID] = nil
				blocks[c.ID] = append(blocks[c.ID], b)
				return b.delayed
			}
			return false
		}})
	s.OnEvent = func(ev fakeredis.Event) {
		if ev.Kind != "reply" || ev.Conn == 0 || len(ev.Argv) == 0 || !strings.EqualFold(ev.Argv[0], "EXEC") {
			return
		}
		smu.Lock()
		defer smu.Unlock()
		i := replied[ev.Conn]
		replied[ev.Conn]++
		if i >= len(blocks[ev.Conn]) {
			return
		}
		if b := blocks[ev.Conn][i]; b.victim >= 0 && gaveUp[b.victim].Load() {
			lateAll++
			if pending.Load() > 0 {
				latePend++
				lateByKind[h.Victims[b.victim].Units[0].name()+"/"+h.Victims[b.victim].GiveUp]++
			}
		}
	}

	opt := drv.Option(s, dynAddr)
	opt.ForceSingleClient = true
	opt.PipelineMultiplex = -1 // one connection: every call of the history shares it
	opt.DisableRetry = true
	opt.Dialer.KeepAlive = -1
	if h.Store == "adapter" {
		opt.NewCacheStoreFn = func(rueidis.CacheStoreOption) rueidis.CacheStore {
			return rueidis.NewSimpleCacheAdapter(&lockedMap{m: map[string]rueidis.RedisMessage{}})
		}
	}
	client, err := rueidis.NewClient(opt)
	if err != nil {
		res.Inconcl = append(res.Inconcl, "client setup failed: "+err.Error())
		return res
	}
	defer func() {
		if !dynAwait(time.Hour, client.Close) {
			e.mu.Lock()
			res.Inconcl = append(res.Inconcl, "client did not close")
			e.mu.Unlock()
		}
	}()
	const ttl = time.Minute

	doOp := func(op dynOp, phase string, count bool) (abandoned bool) {
		if op.Pause > 0 {
			time.Sleep(op.Pause)
		}
		ctx, cancel := e.ctxFor(op)
		defer cancel()
		if count {
			pending.Add(1)
			defer pending.Add(-1)
		}
		if len(op.Units) == 1 {
			return e.check(op.Units[0], client.DoCache(ctx, dynBuild(client, op.Units[0]), ttl), phase)
		}
		cts := make([]rueidis.CacheableTTL, len(op.Units))
		for i, u := range op.Units {
			cts[i] = rueidis.CT(dynBuild(client, u), ttl)
		}
		for i, r := range client.DoMultiCache(ctx, cts...) {
			if e.check(op.Units[i], r, phase) {
				abandoned = true
			}
		}
		return abandoned
	}

	// every command of the history, with the single-key commands the MGET positions stand for
	all := map[string]dynUnit{}
	add := func(u dynUnit) {
		all[render(u.Argv)] = u
		if u.isMGet() {
			for i := range u.keys() {
				el := u.elem(i)
				all[render(el.Argv)] = el
			}
		}
	}
	for _, u := range h.Warm {
		add(u)
	}
	for _, v := range h.Victims {
		add(v.Units[0])
	}
	for _, w := range h.Workers {
		for _, op := range w {
			for _, u := range op.Units {
				add(u)
			}
		}
	}
	names := make([]string, 0, len(all))
	for k := range all {
		names = append(names, k)
	}
	sort.Strings(names)
	// the generator keeps away from the listed separator-less identity collisions (C08-K1/K2): verify that
	ids, cat := map[[2]string]string{}, map[string]string{}
	for _, k := range names {
		u := all[k]
		if u.isMGet() {
			continue
		}
		ck, cc := rueidis.VerifCacheKey(dynBuild(client, u))
		if o, dup := ids[[2]string{ck, cc}]; dup {
			res.Inconcl = append(res.Inconcl, "generator produced two commands with one identity: "+o+" / "+k)
			return res
		}
		if o, dup := cat[ck+cc]; dup {
			res.Inconcl = append(res.Inconcl, "generator produced two commands with one adapter identity: "+o+" / "+k)
			return res
		}
		ids[[2]string{ck, cc}], cat[ck+cc] = k, k
		e.expect(u)
	}

	for _, u := range h.Warm {
		doOp(dynOp{Units: []dynUnit{u}}, "warm", false)
	}

	// the victims: cached MGET / JSON.MGET, the server sits on the EXEC reply, the caller gives up
	var wg sync.WaitGroup
	phaseA.Store(true)
	for i, v := range h.Victims {
		wg.Add(1)
		go func() {
			defer wg.Done()
			if doOp(v, "victim", false) {
				gaveUp[i].Store(true)
			}
		}()
	}
	time.Sleep(h.Gap)
	phaseA.Store(false)

	// the rest of the process: goroutines that build commands, and goroutines that run cached reads on the same connection
	held := make([]rueidis.Cacheable, 0, len(h.Churn))
	var hmu sync.Mutex
	for part := 0; part < 2; part++ {
		wg.Add(1)
		go func() {
			defer wg.Done()
			for i := part; i < len(h.Churn); i += 2 {
				c := dynBuild(client, h.Churn[i])
				hmu.Lock()
				held = append(held, c)
				hmu.Unlock()
			}
		}()
	}
	for _, ops := range h.Workers {
		wg.Add(1)
		go func() {
			defer wg.Done()
			for _, op := range ops {
				doOp(op, "concurrent", true)
			}
		}()
	}
	if !dynAwait(time.Hour, wg.Wait) {
		res.Inconcl = append(res.Inconcl, "calls of the history did not return within an hour of virtual time")
		return res
	}
	time.Sleep(time.Second) // whatever is still on the wire arrives

	// afterwards: every cacheable command of the history is read again; what the cache serves must be the server's reply to it
	for _, k := range names {
		doOp(dynOp{Units: []dynUnit{all[k]}}, "afterwards", false)
	}
	hmu.Lock()
	res.Obs["dyn_commands_built_meanwhile"] += int64(len(held))
	hmu.Unlock()
	smu.Lock()
	res.Obs["dyn_abandoned_mget_late_exec_reply"] += lateAll
	res.Obs["dyn_abandoned_mget_late_exec_reply_with_pending_reads"] += latePend
	for k, n := range lateByKind {
		res.Obs["dyn_late_reply_"+k] += n
	}
	res.Nontrivial = latePend > 0
	smu.Unlock()
	res.Obs["dyn_histories"]++
	res.Obs["dyn_histories_"+h.Store]++
	return res
}

// ---------------------------------------------------------------------------
// child process: runs histories [from, to) and prints one line per history

func dynSeeds() []int64 {
	var out []int64
	for _, f := range strings.Split(os.Getenv("VERIF_C08_SEEDS"), ",") {
		if v, err := strconv.ParseInt(f, 10, 64); err == nil {
			out = append(out, v)
		}
	}
	return out
}

func TestC08Child(t *testing.T) {
	if !drv.IsChild() {
		t.Skip("child process body")
	}
	seeds := dynSeeds()
	from, _ := strconv.Atoi(os.Getenv("VERIF_C08_FROM"))
	for i := from; i < len(seeds); i++ {
		h := dynGenerate(i, seeds[i])
		hb, _ := json.Marshal(h)
		os.Stdout.WriteString(fmt.Sprintf("\nC08B %d %s\n", i, hb))
		var res *dynResult
		dl, stacks := drv.Bubble(t, func() { res = runDynHistory(h) })
		if res == nil {
			res = &dynResult{Idx: i, Obs: map[string]int64{}}
		}
		if dl != "" {
			res.Obs["dyn_histories_left_goroutines_blocked"]++
			res.Inconcl = append(res.Inconcl, "history left goroutines blocked: "+dl+" "+strings.Join(drv.RueidisFrames(stacks), "; "))
		}
		rb, err := json.Marshal(res)
		if err != nil {
			rb, _ = json.Marshal(&dynResult{Idx: i, Inconcl: []string{"result not serialisable: " + err.Error()}})
		}
		os.Stdout.WriteString(fmt.Sprintf("\nC08E %d %s\n", i, rb))
	}
	os.Stdout.WriteString("\nC08DONE\n")
}

// partAbandon is the parent side
func partAbandon(t *testing.T, run *mon.Run) {
	n := run.N(60, 2400)
	rng := run.Rand("abandon")
	seeds := make([]string, n)
	for i := range seeds {
		seeds[i] = strconv.FormatInt(rng.Int63(), 10)
	}
	env := map[string]string{"VERIF_C08_SEEDS": strings.Join(seeds, ",")}
	from, deaths := 0, 0
	for from < n {
		env["VERIF_C08_FROM"] = strconv.Itoa(from)
		out, cerr := drv.RunChild("TestC08Child", env, 2048)
		last, open, done := -1, false, false
		var lastSpec string
		for _, line := range strings.Split(out, "\n") {
			switch {
			case line == "C08DONE":
				done = true
			case strings.HasPrefix(line, "C08B "):
				f := strings.SplitN(line, " ", 3)
				if len(f) == 3 {
					last, _ = strconv.Atoi(f[1])
					lastSpec, open = f[2], true
				}
			case strings.HasPrefix(line, "C08E "):
				f := strings.SplitN(line, " ", 3)
				if len(f) != 3 {
					continue
				}
				open = false
				var r dynResult
				if err := json.Unmarshal([]byte(f[2]), &r); err != nil {
					run.Inconclusive("unreadable child result: " + err.Error())
					continue
				}
				run.Case("dynamic|"+lastSpec, r.Nontrivial)
				for k, v := range r.Obs {
					run.Observe(k, v)
				}
				for _, v := range r.Viol {
					run.Violation(v.Class, v.Key, v.Witness)
				}
				for _, w := range r.Inconcl {
					run.Inconclusive("dynamic: " + w)
					fmt.Printf("INCONCLUSIVE property=C08 history %d: %s\n", r.Idx, w)
				}
				if r.Idx%20 == 3 {
					var spec any
					_ = json.Unmarshal([]byte(lastSpec), &spec)
					run.Sample(map[string]any{"dynamic_history": spec, "observed": r.Obs})
				}
			}
		}
		if done {
			return
		}
		if !open || last < from {
			run.Inconclusive("dynamic: child ended without progress")
			fmt.Printf("BROKEN property=C08 child made no progress from history %d: %v\n%s\n", from, cerr, drv.Tail(out, 3000))
			t.Errorf("child made no progress")
			return
		}
		// the process died inside history `last`: a panic in a goroutine of the client cannot be recovered by any caller
		deaths++
		run.Observe("dyn_process_deaths", 1)
		what, where := "process ended without a panic message", ""
		if i := strings.Index(out, "\npanic: "); i >= 0 {
			what = firstLine(out[i+1:])
			where = strings.Join(drv.RueidisFrames(out[i:]), "; ")
			if fr := drv.RueidisFrames(out[i:]); len(fr) > 0 {
				where = fr[0]
			}
		} else if i := strings.Index(out, "\nfatal error: "); i >= 0 {
			what = firstLine(out[i+1:])
		}
		var spec any
		_ = json.Unmarshal([]byte(lastSpec), &spec)
		run.Case("dynamic|"+lastSpec, true)
		run.Violation("panic", "dynamic|history with a cached MGET whose caller gives up mid-flight|"+dynDigits.ReplaceAllString(what+" @ "+where, "N"),
			map[string]any{"history": spec, "panic": what, "innermost_rueidis_frame": where, "child_tail": drv.Tail(out, 2500)})
		from = last + 1
		if deaths >= 12 {
			run.Inconclusive(fmt.Sprintf("dynamic: stopped after %d process deaths, %d histories not run", deaths, n-from))
			return
		}
	}
}

var dynDigits = regexp.MustCompile(`[0-9]+`)

func firstLine(s string) string {
	if i := strings.IndexByte(s, '\n'); i >= 0 {
		return s[:i]
	}
	return s
}
