package c08

import (
	"fmt"
	"math/rand"
	"os"
	"reflect"
	"sort"
	"strconv"
	"strings"
	"testing"
	"time"

	"github.com/redis/rueidis"
	"verifh/drv"
	"verifh/mon"
)

// ---------------------------------------------------------------------------
// reflection over the command builder: every path that ends in Cache()

type method struct {
	name     string
	idx      int
	in       []reflect.Type // parameters, the variadic one as its slice type
	variadic bool
	out      reflect.Type
}

type node struct {
	t        reflect.Type
	next     []method // methods leading to another builder type from which Cache() stays reachable
	hasCache bool
	cacheIdx int
	dist     int // fewest further calls before Cache() can be called
}

type graph struct {
	root  reflect.Type
	nodes map[reflect.Type]*node
	roots []method // Builder methods that start a cacheable command
}

var (
	tString   = reflect.TypeOf("")
	tInt64    = reflect.TypeOf(int64(0))
	tUint64   = reflect.TypeOf(uint64(0))
	tFloat64  = reflect.TypeOf(float64(0))
	tDuration = reflect.TypeOf(time.Duration(0))
	tTime     = reflect.TypeOf(time.Time{})
)

func supported(t reflect.Type) bool {
	switch t {
	case tString, tInt64, tUint64, tFloat64, tDuration, tTime:
		return true
	}
	if t.Kind() == reflect.Slice {
		switch t.Elem() {
		case tString, tInt64, tFloat64:
			return true
		}
	}
	return false
}

func buildGraph() *graph {
	g := &graph{root: reflect.TypeOf(rueidis.VerifNewBuilder(false)), nodes: map[reflect.Type]*node{}}
	const inf = 1 << 30
	var visit func(t reflect.Type) *node
	visit = func(t reflect.Type) *node {
		if n, ok := g.nodes[t]; ok {
			return n
		}
		n := &node{t: t, dist: inf}
		g.nodes[t] = n
		for i := 0; i < t.NumMethod(); i++ {
			m := t.Method(i)
			if m.Type.NumOut() != 1 {
				continue
			}
			out := m.Type.Out(0)
			if m.Name == "Cache" && m.Type.NumIn() == 1 {
				n.hasCache, n.cacheIdx = true, i
				continue
			}
			if out.Kind() != reflect.Struct || out.PkgPath() != t.PkgPath() || out.Name() == "Completed" || out.Name() == "Cacheable" {
				continue
			}
			mm := method{name: m.Name, idx: i, variadic: m.Type.IsVariadic(), out: out}
			ok := true
			for j := 1; j < m.Type.NumIn(); j++ {
				if !supported(m.Type.In(j)) {
					ok = false
				}
				mm.in = append(mm.in, m.Type.In(j))
			}
			if !ok {
				continue
			}
			visit(out)
			n.next = append(n.next, mm)
		}
		return n
	}
	rootNode := visit(g.root)
	// distance to Cache(): fixpoint
	for changed := true; changed; {
		changed = false
		for _, n := range g.nodes {
			d := inf
			if n.hasCache {
				d = 0
			}
			for _, m := range n.next {
				if nd := g.nodes[m.out].dist; nd+1 < d {
					d = nd + 1
				}
			}
			if d < n.dist {
				n.dist, changed = d, true
			}
		}
	}
	for _, n := range g.nodes {
		keep := n.next[:0]
		for _, m := range n.next {
			if g.nodes[m.out].dist < inf {
				keep = append(keep, m)
			}
		}
		n.next = keep
	}
	g.roots = rootNode.next
	sort.Slice(g.roots, func(i, j int) bool { return g.roots[i].name < g.roots[j].name })
	return g
}

// ---------------------------------------------------------------------------
// recipes: a builder path with its argument values

type step struct {
	m    method
	args []any // one per parameter: string, int64, uint64, float64, time.Duration, time.Time, []string, []int64, []float64
}

type recipe struct {
	root  method
	steps []step
}

func (r *recipe) clone() *recipe {
	c := &recipe{root: r.root, steps: make([]step, len(r.steps))}
	for i, s := range r.steps {
		c.steps[i] = step{m: s.m, args: make([]any, len(s.args))}
		for j, a := range s.args {
			switch v := a.(type) {
			case []string:
				c.steps[i].args[j] = append([]string{}, v...)
			case []int64:
				c.steps[i].args[j] = append([]int64{}, v...)
			case []float64:
				c.steps[i].args[j] = append([]float64{}, v...)
			default:
				c.steps[i].args[j] = a
			}
		}
	}
	return c
}

func (r *recipe) path() string {
	var sb strings.Builder
	sb.WriteString(r.root.name)
	for _, s := range r.steps {
		sb.WriteByte('.')
		sb.WriteString(s.m.name)
	}
	return sb.String()
}

// unit is one cache entry a command is stored under: the command itself, or one key of a MGET / JSON.MGET
type unit struct {
	argv     []string // the (virtual) command whose reply the entry holds
	key, cmd string   // identity computed by rueidis
	path     string
}

// build runs the recipe against a fresh builder and returns its cache units
func (g *graph) build(r *recipe) (units []unit, err error) {
	defer func() {
		if p := recover(); p != nil {
			err = fmt.Errorf("panic: %v", p)
		}
	}()
	v := reflect.ValueOf(rueidis.VerifNewBuilder(false)).Method(r.root.idx).Call(nil)[0]
	for _, s := range r.steps {
		in := make([]reflect.Value, 0, len(s.args)+2)
		for j, a := range s.args {
			if s.m.variadic && j == len(s.args)-1 {
				sv := reflect.ValueOf(a)
				for k := 0; k < sv.Len(); k++ {
					in = append(in, sv.Index(k))
				}
			} else {
				in = append(in, reflect.ValueOf(a))
			}
		}
		v = v.Method(s.m.idx).Call(in)[0]
	}
	n := g.nodes[v.Type()]
	if n == nil || !n.hasCache {
		return nil, fmt.Errorf("recipe %s does not end at a type with Cache()", r.path())
	}
	c := v.Method(n.cacheIdx).Call(nil)[0].Interface().(rueidis.Cacheable)
	argv := append([]string{}, c.Commands()...)
	path := r.path()
	switch argv[0] {
	case "MGET":
		for i := 0; i < len(argv)-1; i++ {
			k, cmd := rueidis.VerifMGetCacheKey(c, i)
			units = append(units, unit{argv: []string{"GET", argv[i+1]}, key: k, cmd: cmd, path: path + fmt.Sprintf("[%d]", i)})
		}
	case "JSON.MGET":
		for i := 0; i < len(argv)-2; i++ {
			k, cmd := rueidis.VerifMGetCacheKey(c, i)
			units = append(units, unit{argv: []string{"JSON.GET", argv[i+1], argv[len(argv)-1]}, key: k, cmd: cmd, path: path + fmt.Sprintf("[%d]", i)})
		}
	default:
		k, cmd := rueidis.VerifCacheKey(c)
		units = append(units, unit{argv: argv, key: k, cmd: cmd, path: path})
	}
	return units, nil
}

// ---------------------------------------------------------------------------
// adversarial argument values

var (
	argWords = []string{"", "a", "b", "c", "ab", "bc", "abc", "1", "2", "3", "12", "23", "123", "0", "-1", "GET", "HGET", "k", "f", "$", "$.a", ".a", " ", "a b", "-", "+", "(1", "LIMIT", "WITHSCORES", "REV", "BYSCORE", "1GET", "aGET", "\x00"}
	keyWords = []string{"k", "k", "k", "k1", "ka", "kGET", "kHGET", "kHGETa", "kGETRANGE1", "kJSON.GET", "a", "", "{k}", "k k"}
	ints     = []int64{0, 1, 2, 3, 12, 23, 123, -1, 10, 11, 31, 231}
	floats   = []float64{0, 1, 2, 1.5, 12, 2.5, -1, 0.5, 21.5, 15}
)

func isScript(root string) bool { return root == "EvalRo" || root == "EvalshaRo" || root == "FcallRo" }

func genArg(rng *rand.Rand, t reflect.Type, variadic, first bool, root, mname string) any {
	words := argWords
	if first || mname == "Key" {
		words = keyWords
	}
	str := func() string { return words[rng.Intn(len(words))] }
	switch t {
	case tString:
		return str()
	case tInt64:
		if mname == "Numkeys" && isScript(root) {
			return int64(1)
		}
		return ints[rng.Intn(len(ints))]
	case tUint64:
		return uint64(ints[rng.Intn(7)])
	case tFloat64:
		return floats[rng.Intn(len(floats))]
	case tDuration:
		return time.Duration(ints[rng.Intn(7)]) * time.Second
	case tTime:
		return time.Unix(ints[rng.Intn(7)], 0)
	}
	n := 1 + rng.Intn(3)
	if variadic && rng.Intn(8) == 0 && !(first || mname == "Key") {
		n = 0
	}
	if mname == "Key" && isScript(root) {
		n = 1
	}
	switch t.Elem() {
	case tString:
		s := make([]string, n)
		for i := range s {
			s[i] = str()
		}
		return s
	case tInt64:
		s := make([]int64, n)
		for i := range s {
			s[i] = ints[rng.Intn(len(ints))]
		}
		return s
	default:
		s := make([]float64, n)
		for i := range s {
			s[i] = floats[rng.Intn(len(floats))]
		}
		return s
	}
}

// randomRecipe walks from a root towards Cache()
func (g *graph) randomRecipe(rng *rand.Rand, root method) *recipe {
	for {
		if r, end := g.walk(rng, root); end.hasCache {
			return r
		}
	}
}

func (g *graph) walk(rng *rand.Rand, root method) (*recipe, *node) {
	r := &recipe{root: root}
	n := g.nodes[root.out]
	first := true
	for len(r.steps) < 14 {
		if n.hasCache && (len(n.next) == 0 || rng.Intn(3) == 0) {
			if !(isScript(root.name) && !strings.HasSuffix(n.t.Name(), "Key") && !strings.HasSuffix(n.t.Name(), "Arg")) {
				break
			}
		}
		cands := n.next
		if isScript(root.name) {
			// read-only scripts are cacheable with exactly one key: ...Numkeys(1).Key(k)[.Arg(...)]
			var keep []method
			for _, m := range cands {
				tn := n.t.Name()
				if strings.HasSuffix(tn, "Numkeys") && m.name != "Key" || strings.HasSuffix(tn, "Key") && m.name == "Key" {
					continue
				}
				keep = append(keep, m)
			}
			cands = keep
		}
		if len(cands) == 0 {
			break
		}
		if len(r.steps) > 8 { // head for the exit
			best := cands[0]
			for _, m := range cands {
				if g.nodes[m.out].dist < g.nodes[best.out].dist {
					best = m
				}
			}
			cands = []method{best}
		}
		m := cands[rng.Intn(len(cands))]
		s := step{m: m}
		for j, t := range m.in {
			s.args = append(s.args, genArg(rng, t, m.variadic && j == len(m.in)-1, first, root.name, m.name))
			first = false
		}
		r.steps = append(r.steps, s)
		n = g.nodes[m.out]
	}
	if isScript(root.name) && !strings.HasSuffix(n.t.Name(), "Key") && !strings.HasSuffix(n.t.Name(), "Arg") {
		return r, &node{}
	}
	return r, n
}

// slots: addresses of scalar argument values inside a recipe (elements of variadic lists included)
type slot struct{ s, a, e int } // step, arg, element (-1: scalar)

func (r *recipe) slots() (out []slot) {
	for i, s := range r.steps {
		for j, a := range s.args {
			switch v := a.(type) {
			case []string:
				for k := range v {
					out = append(out, slot{i, j, k})
				}
			case []int64:
				for k := range v {
					out = append(out, slot{i, j, k})
				}
			case []float64:
			case string, int64:
				out = append(out, slot{i, j, -1})
			}
		}
	}
	return
}

func (r *recipe) get(sl slot) any {
	a := r.steps[sl.s].args[sl.a]
	switch v := a.(type) {
	case []string:
		return v[sl.e]
	case []int64:
		return v[sl.e]
	}
	return a
}

func (r *recipe) set(sl slot, val any) {
	switch v := r.steps[sl.s].args[sl.a].(type) {
	case []string:
		v[sl.e] = val.(string)
	case []int64:
		v[sl.e] = val.(int64)
	default:
		r.steps[sl.s].args[sl.a] = val
	}
}

func (r *recipe) protected(sl slot) bool {
	return isScript(r.root.name) && r.steps[sl.s].m.name == "Numkeys"
}

// resplit moves the boundary between two values whose texts are adjacent
func resplit(rng *rand.Rand, x, y any) (any, any, bool) {
	switch a := x.(type) {
	case string:
		b, ok := y.(string)
		if !ok {
			return nil, nil, false
		}
		s := a + b
		if len(s) == 0 {
			return nil, nil, false
		}
		p := rng.Intn(len(s) + 1)
		if p == len(a) {
			p = (p + 1) % (len(s) + 1)
		}
		return s[:p], s[p:], true
	case int64:
		b, ok := y.(int64)
		if !ok || a < 0 || b < 0 {
			return nil, nil, false
		}
		s := strconv.FormatInt(a, 10) + strconv.FormatInt(b, 10)
		la := len(strconv.FormatInt(a, 10))
		var opts []int
		for p := 1; p < len(s); p++ {
			if p == la || (s[p] == '0' && p != len(s)-1) || (s[0] == '0' && p != 1) {
				continue
			}
			opts = append(opts, p)
		}
		if len(opts) == 0 {
			return nil, nil, false
		}
		p := opts[rng.Intn(len(opts))]
		na, _ := strconv.ParseInt(s[:p], 10, 64)
		nb, _ := strconv.ParseInt(s[p:], 10, 64)
		return na, nb, true
	}
	return nil, nil, false
}

// mutate returns a variant of r built to be confusable with it (nil when the chosen mutation does not apply)
func (g *graph) mutate(rng *rand.Rand, r *recipe) (*recipe, string) {
	c := r.clone()
	sl := c.slots()
	if len(sl) == 0 {
		return nil, ""
	}
	switch rng.Intn(7) {
	case 0, 1: // re-split two neighbouring values
		if len(sl) < 2 {
			return nil, ""
		}
		i := rng.Intn(len(sl) - 1)
		if c.protected(sl[i]) || c.protected(sl[i+1]) {
			return nil, ""
		}
		x, y, ok := resplit(rng, c.get(sl[i]), c.get(sl[i+1]))
		if !ok {
			return nil, ""
		}
		c.set(sl[i], x)
		c.set(sl[i+1], y)
		return c, "resplit"
	case 2: // empty value
		i := rng.Intn(len(sl))
		if _, ok := c.get(sl[i]).(string); !ok {
			return nil, ""
		}
		c.set(sl[i], "")
		return c, "empty"
	case 3: // merge two elements of one variadic list
		for _, k := range rng.Perm(len(c.steps)) {
			s := c.steps[k]
			if !s.m.variadic || (s.m.name == "Key" && isScript(c.root.name)) {
				continue
			}
			if v, ok := s.args[len(s.args)-1].([]string); ok && len(v) >= 2 {
				i := rng.Intn(len(v) - 1)
				nv := append(append(append([]string{}, v[:i]...), v[i]+v[i+1]), v[i+2:]...)
				s.args[len(s.args)-1] = nv
				return c, "merge"
			}
		}
		return nil, ""
	case 4: // split one element of a variadic list in two
		for _, k := range rng.Perm(len(c.steps)) {
			s := c.steps[k]
			if !s.m.variadic || (s.m.name == "Key" && isScript(c.root.name)) {
				continue
			}
			if v, ok := s.args[len(s.args)-1].([]string); ok && len(v) >= 1 {
				i := rng.Intn(len(v))
				if len(v[i]) < 1 {
					continue
				}
				p := rng.Intn(len(v[i]) + 1)
				nv := append(append(append([]string{}, v[:i]...), v[i][:p], v[i][p:]), v[i+1:]...)
				s.args[len(s.args)-1] = nv
				return c, "split"
			}
		}
		return nil, ""
	case 5: // one value replaced: every argument must matter
		i := rng.Intn(len(sl))
		if c.protected(sl[i]) {
			return nil, ""
		}
		switch v := c.get(sl[i]).(type) {
		case string:
			w := argWords[rng.Intn(len(argWords))]
			if w == v {
				w = v + "x"
			}
			c.set(sl[i], w)
		case int64:
			c.set(sl[i], v+int64(1+rng.Intn(3)))
		}
		return c, "replace"
	default: // move a prefix/suffix across two values that are not neighbours in the recipe but may be in argv
		if len(sl) < 2 {
			return nil, ""
		}
		i, j := rng.Intn(len(sl)), rng.Intn(len(sl))
		if i == j || c.protected(sl[i]) || c.protected(sl[j]) {
			return nil, ""
		}
		a, ok1 := c.get(sl[i]).(string)
		b, ok2 := c.get(sl[j]).(string)
		if !ok1 || !ok2 || len(a) == 0 {
			return nil, ""
		}
		c.set(sl[i], a[:len(a)-1])
		c.set(sl[j], a[len(a)-1:]+b)
		return c, "shift"
	}
}

// ---------------------------------------------------------------------------
// the oracle

func render(argv []string) string {
	var sb strings.Builder
	for i, a := range argv {
		if i > 0 {
			sb.WriteByte(' ')
		}
		plain := a != ""
		for _, c := range []byte(a) {
			if c <= ' ' || c >= 0x7f || c == '"' || c == '\\' || c == '<' || c == '>' || c == '|' {
				plain = false
			}
		}
		if plain {
			sb.WriteString(a)
		} else {
			sb.WriteString(strconv.Quote(a))
		}
	}
	return sb.String()
}

func sameArgv(a, b []string) bool {
	if len(a) != len(b) {
		return false
	}
	for i := range a {
		if a[i] != b[i] {
			return false
		}
	}
	return true
}

// split gives the driver's own reading of argv: the key (argv[1], or argv[3] for a read-only script) and the concatenation of everything else
func split(argv []string) (key, rest string) {
	kp := 1
	if argv[0] == "EVAL_RO" || argv[0] == "EVALSHA_RO" || argv[0] == "FCALL_RO" {
		kp = 3
	}
	var sb strings.Builder
	for i, a := range argv {
		if i == kp {
			key = a
		} else {
			sb.WriteString(a)
		}
	}
	return key, sb.String()
}

// mapCache is the SimpleCache behind the adapter stores; it remembers under which key the adapter stored last
type mapCache struct {
	m       map[string]rueidis.RedisMessage
	lastSet string
	sets    int
}

func newMapCache() *mapCache { return &mapCache{m: map[string]rueidis.RedisMessage{}} }

func (c *mapCache) Get(key string) rueidis.RedisMessage { return c.m[key] }
func (c *mapCache) Set(key string, val rueidis.RedisMessage) {
	c.m[key] = val
	c.lastSet = key
	c.sets++
}
func (c *mapCache) Del(key string) { delete(c.m, key) }
func (c *mapCache) Flush()         { c.m = map[string]rueidis.RedisMessage{} }

var now = time.Unix(1_700_000_000, 0)

func reply(u unit) rueidis.RedisMessage {
	return rueidis.VerifBuild(rueidis.VerifNode{Typ: '$', Str: render(u.argv)})
}

// served puts a's reply into the store and reports the reply a following lookup of b is served with ("" when b misses)
func served(store rueidis.CacheStore, a, b unit) (string, string) {
	v, e := store.Flight(a.key, a.cmd, time.Minute, now)
	if rueidis.VerifDump(v).Typ != 0 || e != nil {
		return "", "first lookup in an empty store did not miss"
	}
	store.Update(a.key, a.cmd, reply(a))
	v, _ = store.Flight(b.key, b.cmd, time.Minute, now)
	if d := rueidis.VerifDump(v); d.Typ != 0 {
		return d.Str, ""
	}
	return "", ""
}

type checker struct {
	run *mon.Run
}

// adapterKey is the identity of u in adapter stores: the SimpleCache key the real adapter stores u's reply under
func (c *checker) adapterKey(u unit) (string, bool) {
	mc := newMapCache()
	store := rueidis.NewSimpleCacheAdapter(mc)
	store.Flight(u.key, u.cmd, time.Minute, now)
	store.Update(u.key, u.cmd, reply(u))
	if mc.sets != 1 {
		c.run.Inconclusive(fmt.Sprintf("adapter stored a reply %d times for one update", mc.sets))
		return "", false
	}
	return mc.lastSet, true
}

// report classifies a collision between two distinct commands at one level
func (c *checker) report(level string, adapter bool, a, b unit, how string) {
	ra, rb := render(a.argv), render(b.argv)
	if rb < ra {
		ra, rb = rb, ra
	}
	ka, resta := split(a.argv)
	kb, restb := split(b.argv)
	w := map[string]any{"level": level, "a": a.argv, "b": b.argv, "a_builder_path": a.path, "b_builder_path": b.path,
		"a_identity": []string{a.key, a.cmd}, "b_identity": []string{b.key, b.cmd}, "found_by": how}
	switch {
	case ka == kb && resta == restb:
		c.run.Violation("cache-identity-collision", level+"|same-key-same-rest|"+ra+" <> "+rb, w)
		c.run.Observe("collisions_same_key_same_rest", 1)
	case adapter && ka != kb && ka+resta == kb+restb:
		c.run.Violation("cache-identity-collision", level+"|diff-key-same-key+rest|"+ra+" <> "+rb, w)
		c.run.Observe("collisions_diff_key_same_key+rest", 1)
	default:
		c.run.Violation("cache-identity-collision-other", level+"|"+ra+" <> "+rb, w)
		c.run.Observe("collisions_other", 1)
	}
}

// pair checks two units at the identity level and through both real stores
func (c *checker) pair(a, b unit, how string) {
	if sameArgv(a.argv, b.argv) {
		c.run.Observe("pairs_skipped_same_argv", 1)
		return
	}
	ca, cb := strings.Join(a.argv, ""), strings.Join(b.argv, "")
	c.run.Case(render(a.argv)+" <> "+render(b.argv), ca == cb || (a.argv[0] == b.argv[0] && len(a.argv) == len(b.argv)))
	c.run.Observe("pairs_"+how, 1)
	if ca == cb {
		c.run.Observe("pairs_with_equal_concatenation", 1)
	}
	// identity level
	if a.key == b.key && a.cmd == b.cmd {
		c.report("identity/builtin", false, a, b, how)
	}
	if ska, ok := c.adapterKey(a); ok {
		if skb, ok := c.adapterKey(b); ok && ska == skb {
			c.report("identity/adapter", true, a, b, how)
		}
	}
	// behaviour of the real stores: a's reply must never be served for b
	for i := 0; i < 2; i++ {
		level, adapter := "store/builtin", false
		var store rueidis.CacheStore
		if i == 0 {
			store = rueidis.VerifNewLRU(1 << 20)
		} else {
			level, adapter = "store/adapter", true
			store = rueidis.NewSimpleCacheAdapter(newMapCache())
		}
		got, trouble := served(store, a, b)
		if trouble != "" {
			c.run.Inconclusive(level + ": " + trouble)
			continue
		}
		c.run.Observe("store_lookups", 1)
		if got != "" {
			if got != render(a.argv) {
				c.run.Violation("cache-identity-collision-other", level+"|foreign reply|"+render(b.argv), map[string]any{"b": b.argv, "served": got})
				continue
			}
			c.report(level, adapter, a, b, how)
		}
	}
}

// pool puts every unit through one shared store of each kind and through identity tables: every pair of the pool is covered
func (c *checker) pool(units []unit) {
	type idk struct{ key, cmd string }
	builtin := map[idk]unit{}
	concat := map[string]unit{}
	lru := rueidis.VerifNewLRU(1 << 30)
	ad := rueidis.NewSimpleCacheAdapter(newMapCache())
	byReply := map[string]unit{}
	distinct := map[string]bool{}
	for _, u := range units {
		ru := render(u.argv)
		if distinct[ru] {
			continue
		}
		distinct[ru] = true
		byReply[ru] = u
		if o, ok := builtin[idk{u.key, u.cmd}]; ok {
			c.report("identity/builtin", false, o, u, "pool")
		} else {
			builtin[idk{u.key, u.cmd}] = u
		}
		if sk, ok := c.adapterKey(u); ok {
			if o, ok := concat[sk]; ok {
				c.report("identity/adapter", true, o, u, "pool")
			} else {
				concat[sk] = u
			}
		}
		for i, store := range []rueidis.CacheStore{lru, ad} {
			level := []string{"store/builtin", "store/adapter"}[i]
			v, e := store.Flight(u.key, u.cmd, time.Minute, now)
			if d := rueidis.VerifDump(v); d.Typ != 0 {
				if o, ok := byReply[d.Str]; ok && d.Str != ru {
					c.report(level, i == 1, o, u, "pool")
				} else {
					c.run.Violation("cache-identity-collision-other", level+"|foreign reply|"+ru, map[string]any{"b": u.argv, "served": d.Str})
				}
				continue
			}
			if e != nil {
				c.run.Inconclusive(level + ": pool lookup joined a pending entry")
				continue
			}
			store.Update(u.key, u.cmd, reply(u))
		}
	}
	n := int64(len(distinct))
	c.run.Evals(int(n))
	c.run.Observe("pool_units", n)
	c.run.Observe("pool_pairs_covered", n*(n-1)/2)
}

// simple builds NAME key through the builder (used for the commands a key can absorb)
func (g *graph) simple(rootName, key string) *recipe {
	for _, r := range g.roots {
		if r.name != rootName {
			continue
		}
		for _, m := range g.nodes[r.out].next {
			if m.name == "Key" && len(m.in) == 1 && m.in[0] == tString && g.nodes[m.out].hasCache {
				return &recipe{root: r, steps: []step{{m: m, args: []any{key}}}}
			}
		}
	}
	return nil
}

var absorbable = map[string]string{"Get": "GET", "Hgetall": "HGETALL", "Smembers": "SMEMBERS", "Strlen": "STRLEN", "Llen": "LLEN", "Ttl": "TTL", "Pttl": "PTTL",
	"Type": "TYPE", "Scard": "SCARD", "Zcard": "ZCARD", "Hkeys": "HKEYS", "Hvals": "HVALS", "Hlen": "HLEN"}

// absorb builds, for a command a whose last argument is a free string, the pair (a', b) where b's key swallows a's key,
// command name and leading arguments: "<key><CMDNAME>…"
func (g *graph) absorb(rng *rand.Rand, r *recipe) (*recipe, *recipe) {
	c := r.clone()
	sl := c.slots()
	if len(sl) == 0 {
		return nil, nil
	}
	last := sl[len(sl)-1]
	v, ok := c.get(last).(string)
	if !ok || last.s != len(c.steps)-1 {
		return nil, nil
	}
	names := make([]string, 0, len(absorbable))
	for k := range absorbable {
		names = append(names, k)
	}
	sort.Strings(names)
	rootName := names[rng.Intn(len(names))]
	name := absorbable[rootName]
	c.set(last, v+name)
	us, err := g.build(c)
	if err != nil || len(us) != 1 || us[0].argv[len(us[0].argv)-1] != v+name {
		return nil, nil
	}
	key, rest := split(us[0].argv)
	if !strings.HasSuffix(rest, v+name) || len(rest) <= len(name) { // the free string was the key itself
		return nil, nil
	}
	b := g.simple(rootName, key+rest[:len(rest)-len(name)])
	if b == nil {
		return nil, nil
	}
	return c, b
}

// C08: two cacheable commands with different argv are never cached under the same entry.
func TestC08(t *testing.T) {
	if drv.IsChild() {
		t.Skip("parent only")
	}
	run := mon.Start(t, "C08", "exploration",
		"pairs of distinct cacheable commands built through every builder path that ends in Cache() (reflection over the Builder; arguments from small adversarial alphabets: re-split neighbours, numeric re-split, "+
			"empty values, merged/split variadic lists, one value replaced, keys that absorb <key><CMDNAME>…, read-only scripts with one key, MGET/JSON.MGET per key); each pair is compared at the identity level "+
			"((key,cmd) for the built-in store, key+cmd for adapter stores) and by Flight/Update/Flight through a fresh built-in store and a fresh NewSimpleCacheAdapter store; whole pools additionally share one store of each kind; "+
			"a case is one pair, distinct by the two argv, non-trivial when the argv concatenate to the same text or have the same command name and length")
	defer run.Finish()
	run.Assume("the key of a cacheable command is argv[1], or argv[3] for EVAL_RO/EVALSHA_RO/FCALL_RO with numkeys=1 (used only to classify collisions, not to detect them)",
		"one key of MGET / JSON.MGET stands for the command GET key / JSON.GET key path",
		"dynamic part: the server's reply to a command is what fakeredis answers to the same argv on the driver's own connection (the data is never written after setup); a death of the child process is attributed to the history it was running")
	partAbandon(t, run)
	if run.Observed("dyn_process_deaths") == 0 { // histories cut short by a process death are reported as violations; the counters of the others say nothing then
		run.Require("dyn_histories_builtin", "dyn_histories_adapter", "dyn_hits_checked_afterwards", "dyn_hits_checked_concurrent", "dyn_abandoned_mget_late_exec_reply_with_pending_reads")
	}
	if os.Getenv("VERIF_C08_ONLY") == "dynamic" { // development aid: registered commands never set it
		run.Sample("dynamic part only")
		run.Case("dynamic-only-a", true)
		run.Case("dynamic-only-b", true)
		return
	}
	g := buildGraph()
	cacheTypes := 0
	for _, n := range g.nodes {
		if n.hasCache {
			cacheTypes++
		}
	}
	run.Extra("builder", map[string]any{"cacheable_root_commands": len(g.roots), "types_with_Cache": cacheTypes})
	if len(g.roots) < 40 {
		run.Inconclusive("reflection found fewer than 40 cacheable commands")
		t.Fatalf("only %d cacheable roots", len(g.roots))
	}
	rng := run.Rand("recipes")
	c := &checker{run: run}
	rounds := run.N(60, 1200)
	perRoot := 14
	usedPaths := map[string]bool{}
	usedRoots := map[string]bool{}
	for round := 0; round < rounds; round++ {
		var pool []unit
		for _, root := range g.roots {
			for k := 0; k < perRoot; k++ {
				r := g.randomRecipe(rng, root)
				us, err := g.build(r)
				if err != nil {
					run.Violation("panic", r.path(), map[string]any{"path": r.path(), "error": err.Error()})
					continue
				}
				usedPaths[r.path()] = true
				usedRoots[root.name] = true
				pool = append(pool, us...)
				if round == 0 && k == 0 && (root.name == "Hmget" || root.name == "EvalRo" || root.name == "JsonMget") {
					run.Sample(map[string]any{"path": us[0].path, "argv": us[0].argv, "identity": []string{us[0].key, us[0].cmd}})
				}
				// units of one multi-key command against each other
				for i := 1; i < len(us); i++ {
					c.pair(us[i-1], us[i], "mget-siblings")
				}
				// adversarial variants of the same path
				for m := 0; m < 4; m++ {
					v, how := g.mutate(rng, r)
					if v == nil {
						continue
					}
					vs, err := g.build(v)
					if err != nil {
						run.Violation("panic", v.path(), map[string]any{"path": v.path(), "error": err.Error()})
						continue
					}
					for i := range vs {
						if i < len(us) {
							c.pair(us[i], vs[i], how)
						}
					}
					pool = append(pool, vs...)
				}
				// a second, independent recipe of the same command: different optional parts
				if r2 := g.randomRecipe(rng, root); r2 != nil {
					if us2, err := g.build(r2); err == nil {
						c.pair(us[0], us2[0], "same-command")
						pool = append(pool, us2...)
					}
				}
				if a, b := g.absorb(rng, r); a != nil {
					ua, err1 := g.build(a)
					ub, err2 := g.build(b)
					if err1 == nil && err2 == nil {
						c.pair(ua[0], ub[0], "key-absorbs-command")
						pool = append(pool, ua[0], ub[0])
					}
				}
			}
		}
		// different commands against each other
		for i := 0; i < len(pool)/4; i++ {
			a, b := pool[rng.Intn(len(pool))], pool[rng.Intn(len(pool))]
			c.pair(a, b, "cross-command")
		}
		c.pool(pool)
	}
	run.Extra("coverage_paths", map[string]any{"distinct_builder_paths_used": len(usedPaths), "root_commands_used": len(usedRoots)})
	run.Require("pairs_resplit", "pairs_empty", "pairs_replace", "pairs_key-absorbs-command", "pairs_mget-siblings", "pairs_cross-command", "pairs_with_equal_concatenation", "store_lookups", "pool_units")
	if len(usedRoots) != len(g.roots) {
		run.Inconclusive(fmt.Sprintf("only %d of %d cacheable commands were generated", len(usedRoots), len(g.roots)))
	}
}
