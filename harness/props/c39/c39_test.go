package c39

import (
	"context"
	"crypto/tls"
	"encoding/json"
	"errors"
	"fmt"
	"math/rand"
	"net"
	"os"
	"runtime"
	"sort"
	"strings"
	"sync"
	"sync/atomic"
	"testing"
	"testing/synctest"
	"time"

	"github.com/redis/rueidis"
	"github.com/redis/rueidis/rueidisaside"
	"verifh/drv"
	"verifh/fakeredis"
	"verifh/mon"
)

const addr = "127.0.0.1:6379"

func guard(name string) func() {
	t := time.AfterFunc(300*time.Second, func() {
		buf := make([]byte, 1<<20)
		buf = buf[:runtime.Stack(buf, true)]
		fmt.Printf("BROKEN property=C39 bubble %s did not end (real-time guard)\n%s\n", name, buf)
		os.Exit(2)
	})
	return func() { t.Stop() }
}

type payload struct {
	V string `json:"v"`
}

// getter hides the plain and the typed client behind one signature.
type getter func(ctx context.Context, ttl time.Duration, key string, fn func(ctx context.Context, key string) (string, error)) (string, error)

type load struct {
	client int
	key    string
	stamp  int64
	val    string
	failed bool
	at     time.Time
}

type getRes struct {
	client  int
	key     string
	val     string
	err     error
	started int64
	ended   int64
	round   int
	fresh   int64 // != 0: the key was deleted through a client and everything settled at that stamp, before this Get started: it must not return an older value
}

type world struct {
	run  *mon.Run
	srv  *fakeredis.Server
	name string
	cfg  string

	mu      sync.Mutex
	connOf  map[int64]int
	dead    map[int]bool // dials refused
	diedAt  map[int]int64 // client -> logical time at which the driver closed it / dropped its connections (absent = alive throughout)
	loads   []*load
	gets    []*getRes
	stored  map[string]map[string]int64 // key -> value -> stamp when the driver stored it
	nextVal int64
	trace   []string
}

func (w *world) logf(format string, a ...any) {
	w.mu.Lock()
	w.trace = append(w.trace, time.Now().Format("04:05.000 ")+fmt.Sprintf(format, a...))
	w.mu.Unlock()
}

type params struct {
	kind      string // herd | death
	clients   int
	lua       bool
	typed     bool
	clientTTL time.Duration
	keys      int
	death     string // close | dead | blip
	seed      int64
}

func (p params) cfg() string {
	return fmt.Sprintf("kind=%s lua=%v typed=%v death=%s", p.kind, p.lua, p.typed, p.death)
}

func oneHistory(run *mon.Run, t *testing.T, idx int, p params) {
	name := fmt.Sprintf("h%d", idx)
	var fp string
	var nontrivial bool
	stop := guard(name)
	dl, stacks := drv.Bubble(t, func() { fp, nontrivial = history(run, name, p) })
	stop()

	if dl != "" {
		frames := drv.RueidisFrames(stacks)
		run.Violation("hang-or-leak", p.cfg()+"|"+strings.Join(frames, ";"), map[string]any{"case": name, "params": fmt.Sprintf("%+v", p), "synctest": dl, "rueidis_frames": frames, "stacks": drv.Tail(stacks, 16000)})
	}
	if fp != "" {
		run.Case(fp, nontrivial)
	}
}

func history(run *mon.Run, name string, p params) (string, bool) {
	rng := rand.New(rand.NewSource(p.seed))
	srv := fakeredis.New(fakeredis.Options{Seed: p.seed}, addr)
	defer srv.Close()
	node := srv.Node(addr)
	w := &world{run: run, srv: srv, name: name, cfg: p.cfg(), connOf: map[int64]int{}, dead: map[int]bool{}, diedAt: map[int]int64{}, stored: map[string]map[string]int64{}}

	var raw []rueidisaside.CacheAsideClient
	var get []getter
	for i := 0; i < p.clients; i++ {
		i := i
		opt := drv.Option(srv, addr)
		opt.DialCtxFn = func(ctx context.Context, a string, _ *net.Dialer, _ *tls.Config) (net.Conn, error) {
			w.mu.Lock()
			dead := w.dead[i]
			w.mu.Unlock()
			if dead {
				return nil, fmt.Errorf("dial %s: %w", a, fakeredis.ErrRefused)
			}
			c, err := srv.Dial(ctx, a)
			if err == nil {
				w.mu.Lock()
				w.connOf[fakeredis.ConnID(c)] = i
				w.mu.Unlock()
			}
			return c, err
		}
		opt.Dialer.KeepAlive = 30 * time.Second
		ac, err := rueidisaside.NewClient(rueidisaside.ClientOption{ClientOption: opt, ClientTTL: p.clientTTL, UseLuaLock: p.lua})
		if err != nil {
			run.Inconclusive("client setup failed: " + err.Error())
			return "", false
		}
		raw = append(raw, ac)
		if p.typed {
			tc := rueidisaside.NewTypedCacheAsideClient[payload](ac,
				func(v *payload) (string, error) { b, err := json.Marshal(v); return string(b), err },
				func(s string) (*payload, error) {
					var v payload
					if err := json.Unmarshal([]byte(s), &v); err != nil {
						return nil, fmt.Errorf("typed client got a value no loader produced: %q: %w", s, err)
					}
					return &v, nil
				})
			get = append(get, func(ctx context.Context, ttl time.Duration, key string, fn func(ctx context.Context, key string) (string, error)) (string, error) {
				v, err := tc.Get(ctx, ttl, key, func(ctx context.Context, key string) (*payload, error) {
					s, err := fn(ctx, key)
					if err != nil {
						return nil, err
					}
					return &payload{V: s}, nil
				})
				if v == nil {
					return "", err
				}
				return v.V, err
			})
		} else {
			get = append(get, ac.Get)
		}
	}
	closed := map[int]bool{}
	defer func() {
		for i, c := range raw {
			if !closed[i] {
				c.Close()
			}
		}
	}()

	// encode what is stored on the server for a loader value (the typed client stores JSON)
	wire := func(v string) string {
		if p.typed {
			b, _ := json.Marshal(&payload{V: v})
			return string(b)
		}
		return v
	}
	var errLoader = errors.New("loader failed")
	// loader: records the invocation, takes some virtual time, produces a fresh value (or fails)
	mkLoader := func(client int, dur time.Duration, fail bool, block <-chan struct{}) func(ctx context.Context, key string) (string, error) {
		return func(ctx context.Context, key string) (string, error) {
			l := &load{client: client, key: key, stamp: mon.Stamp(), at: time.Now(), failed: fail}
			w.mu.Lock()
			w.nextVal++
			l.val = fmt.Sprintf("val:%s:%d", key, w.nextVal)
			w.loads = append(w.loads, l)
			w.mu.Unlock()
			w.logf("loader starts: client %d key %s -> %s fail=%v", client, key, l.val, fail)
			if block != nil {
				select {
				case <-block:
				case <-ctx.Done():
				}
			} else if dur > 0 {
				select {
				case <-time.After(dur):
				case <-ctx.Done():
				}
			}
			if fail {
				return "", errLoader
			}
			return l.val, nil
		}
	}
	doGet := func(client int, key string, ttl time.Duration, fn func(ctx context.Context, key string) (string, error), round int, fresh int64) *getRes {
		g := &getRes{client: client, key: key, started: mon.Stamp(), round: round, fresh: fresh}
		g.val, g.err = get[client](context.Background(), ttl, key, fn)
		g.ended = mon.Stamp()
		w.mu.Lock()
		w.gets = append(w.gets, g)
		w.mu.Unlock()
		return g
	}

	keys := make([]string, p.keys)
	for i := range keys {
		keys[i] = fmt.Sprintf("k%d", i)
	}
	loadsSeen, contended := 0, false

	switch p.kind {
	case "herd":
		rounds := 3 + rng.Intn(4)
		for r := 0; r < rounds; r++ {
			ttl := []time.Duration{2 * time.Second, 30 * time.Second, 2 * time.Minute}[rng.Intn(3)]
			freshKey, freshSince := "", int64(0)
			switch rng.Intn(5) {
			case 0: // Del through a client, then everything settles
				k := keys[rng.Intn(len(keys))]
				c := rng.Intn(p.clients)
				if err := raw[c].Del(context.Background(), k); err == nil {
					w.logf("round %d: client %d Del(%s)", r, c, k)
					run.Observe("dels", 1)
				}
				synctest.Wait()
				freshKey, freshSince = k, mon.Stamp()
			case 1: // let short-lived entries expire
				time.Sleep(2500 * time.Millisecond)
				synctest.Wait()
			case 2: // the driver stores a value itself
				k := keys[rng.Intn(len(keys))]
				w.mu.Lock()
				w.nextVal++
				v := fmt.Sprintf("stored:%s:%d", k, w.nextVal)
				if w.stored[k] == nil {
					w.stored[k] = map[string]int64{}
				}
				w.stored[k][v] = mon.Stamp()
				w.mu.Unlock()
				node.Exec("SET", k, wire(v), "PX", "20000")
				w.logf("round %d: driver stores %s", r, v)
				run.Observe("driver_stores", 1)
				synctest.Wait()
			}
			var wg sync.WaitGroup
			anyMidDel := rng.Intn(6) == 0 // rounds with Dels racing with the loads are not judged for staleness
			failFirst := rng.Intn(4) == 0
			var failed atomic.Bool
			for c := 0; c < p.clients; c++ {
				for g := 0; g < 1+rng.Intn(3); g++ {
					k := keys[rng.Intn(len(keys))]
					dur := time.Duration(rng.Intn(400)) * time.Millisecond
					delay := time.Duration(rng.Intn(3)) * time.Duration(rng.Intn(100)) * time.Millisecond
					midDel := anyMidDel && rng.Intn(3) == 0
					midDelay := time.Duration(rng.Int63n(int64(200 * time.Millisecond)))
					wg.Add(1)
					go func(c int) {
						defer wg.Done()
						time.Sleep(delay)
						fn := mkLoader(c, dur, false, nil)
						if failFirst {
							inner := fn
							fl := mkLoader(c, dur, true, nil)
							fn = func(ctx context.Context, key string) (string, error) {
								if failed.CompareAndSwap(false, true) {
									return fl(ctx, key)
								}
								return inner(ctx, key)
							}
						}
						fresh := int64(0)
						if k == freshKey && !anyMidDel {
							fresh = freshSince
						}
						if midDel { // a Del racing with the loads of this round
							wg.Add(1)
							go func() {
								defer wg.Done()
								time.Sleep(midDelay)
								raw[c].Del(context.Background(), k)
							}()
						}
						g := doGet(c, k, ttl, fn, r, fresh)
						if g.err != nil && !errors.Is(g.err, errLoader) {
							w.logf("Get(%s) by client %d failed: %v", k, c, g.err)
						}
					}(c)
				}
			}
			wg.Wait()
			synctest.Wait()
		}
	case "fresh":
		// a client whose very first operations are concurrent Gets of different missing keys, with loaders that outlast
		// ClientTTL several times; the other clients ask for the same keys in between and must wait for those loads
		na := 2 + rng.Intn(3)
		if na > len(keys) {
			na = len(keys)
		}
		ttl := 20 * p.clientTTL
		var wg sync.WaitGroup
		for i := 0; i < na; i++ {
			dur := time.Duration(2+rng.Intn(4))*p.clientTTL + time.Duration(rng.Intn(1000))*time.Millisecond
			k := keys[i]
			wg.Add(1)
			go func() {
				defer wg.Done()
				doGet(0, k, ttl, mkLoader(0, dur, false, nil), 0, 0)
			}()
			for c := 1; c < p.clients; c++ {
				if c == 1 || rng.Intn(2) == 0 {
					delay := 100*time.Millisecond + time.Duration(rng.Int63n(int64(dur)))
					wg.Add(1)
					go func(c int) {
						defer wg.Done()
						time.Sleep(delay)
						doGet(c, k, ttl, mkLoader(c, 50*time.Millisecond, false, nil), 1, 0)
					}(c)
				}
			}
		}
		wg.Wait()
		run.Observe("fresh_client_histories", 1)
	case "death":
		k := keys[0]
		ttl := 2 * time.Minute // far beyond ClientTTL: only the liveness key can release the lock in time
		block := make(chan struct{})
		aDone := make(chan *getRes, 1)
		go func() { aDone <- doGet(0, k, ttl, mkLoader(0, 0, false, block), 0, 0) }()
		synctest.Wait()
		w.mu.Lock()
		started := len(w.loads) == 1
		w.mu.Unlock()
		if !started {
			run.Inconclusive("holder's loader did not start")
			close(block)
			<-aDone
			break
		}
		// waiters that arrive before the death
		type out struct{ g *getRes }
		bDone := make(chan *getRes, 8)
		nb := 0
		for c := 1; c < p.clients; c++ {
			if c == 1 || rng.Intn(2) == 0 {
				nb++
				go func(c int) { bDone <- doGet(c, k, ttl, mkLoader(c, 50*time.Millisecond, false, nil), 1, 0) }(c)
			}
		}
		time.Sleep(time.Duration(rng.Int63n(int64(p.clientTTL))))
		select {
		case g := <-bDone:
			bDone <- g // a waiter returned while the holder is alive and loading: judged below by the replay
		default:
		}
		// the holder dies
		w.mu.Lock()
		var ids []int64
		for c, cl := range w.connOf {
			if cl == 0 {
				ids = append(ids, c)
			}
		}
		w.mu.Unlock()
		killedAt := time.Now()
		w.mu.Lock()
		w.diedAt[0] = mon.Stamp()
		w.mu.Unlock()
		bound := time.Second
		switch p.death {
		case "close":
			raw[0].Close()
			closed[0] = true
		case "dead":
			w.mu.Lock()
			w.dead[0] = true
			w.mu.Unlock()
			for _, id := range ids {
				srv.Kill(id)
			}
			bound = p.clientTTL + time.Second
		case "blip":
			// the client forgets its id when its connection drops; the DEL of the old liveness key it attempts from the
			// disconnect callback does not reach the server, so the old key goes away by its TTL, as for a dead client
			for _, id := range ids {
				srv.Kill(id)
			}
			bound = p.clientTTL + time.Second
		}
		w.logf("holder dies (%s)", p.death)
		run.Observe("holder_deaths_"+p.death, 1)
		// a waiter that arrives after the death
		nb++
		go func() { bDone <- doGet(p.clients-1, k, ttl, mkLoader(p.clients-1, 50*time.Millisecond, false, nil), 2, 0) }()
		deadline := time.After(bound + 200*time.Millisecond)
		got := 0
	wait:
		for got < nb {
			select {
			case g := <-bDone:
				got++
				if g.err != nil {
					run.Violation("get-failed-after-holder-death", fmt.Sprintf("%s|%v", p.cfg(), errKind(g.err)), map[string]any{"case": name, "client": g.client, "err": fmt.Sprint(g.err), "trace": w.trace})
				}
			case <-deadline:
				break wait
			}
		}
		if got < nb {
			w.mu.Lock()
			tr := append([]string{}, w.trace...)
			w.mu.Unlock()
			run.Violation("dead-holder-lock-not-released", p.cfg(), map[string]any{"case": name, "waited_virtual": time.Since(killedAt).String(), "bound": bound.String(), "waiters": nb, "returned": got, "client_ttl": p.clientTTL.String(), "trace": tr})
		} else {
			run.Observe("lock_of_dead_holder_released_in_time", 1)
			contended = true
		}
		close(block)
		for got < nb { // they do return eventually (the placeholder expires after ttl at the latest)
			<-bDone
			got++
		}
		<-aDone
	}
	synctest.Wait()

	loadsSeen, contended2 := w.judge(srv.Log())
	contended = contended || contended2
	if rng.Intn(30) == 0 {
		tr := w.trace
		if len(tr) > 30 {
			tr = tr[:30]
		}
		run.Sample(map[string]any{"case": name, "params": fmt.Sprintf("%+v", p), "loads": loadsSeen, "gets": len(w.gets), "trace_head": tr})
	}
	return fmt.Sprintf("%s|clients=%d|keys=%d|ttl=%v|loads=%d|gets=%d", p.cfg(), p.clients, p.keys, p.clientTTL, loadsSeen, len(w.gets)), contended && loadsSeen >= 1
}

func errKind(err error) string {
	switch {
	case errors.Is(err, context.DeadlineExceeded):
		return "deadline"
	case errors.Is(err, context.Canceled):
		return "canceled"
	}
	return "other"
}

type logItem struct {
	seq  int64
	kind string // set-lock | set-value | remove | load | id-set | id-gone
	key  string
	val  string
	who  int
	note string
}

// judge replays the server log merged with the loader invocations.
func (w *world) judge(log []fakeredis.Event) (loads int, contended bool) {
	run := w.run
	w.mu.Lock()
	defer w.mu.Unlock()
	isKey := func(k string) bool { return len(k) >= 2 && k[0] == 'k' && k[1] >= '0' && k[1] <= '9' }
	var items []logItem
	for _, e := range log {
		who := -1
		if e.Conn != 0 {
			if c, ok := w.connOf[e.Conn]; ok {
				who = c
			}
		}
		switch e.Kind {
		case "expire":
			if len(e.Argv) == 1 {
				if isKey(e.Argv[0]) {
					items = append(items, logItem{seq: e.Seq, kind: "remove", key: e.Argv[0], who: -2, note: "expired"})
				} else if strings.HasPrefix(e.Argv[0], rueidisaside.PlaceholderPrefix) {
					items = append(items, logItem{seq: e.Seq, kind: "id-gone", key: e.Argv[0], note: "expired"})
				}
			}
		case "exec":
			if len(e.Argv) < 2 {
				continue
			}
			k := e.Argv[1]
			switch strings.ToUpper(e.Argv[0]) {
			case "SET":
				if len(e.Argv) < 3 {
					continue
				}
				applied := e.Reply.T == '+'
				for _, a := range e.Argv[3:] {
					if strings.EqualFold(a, "GET") { // SET .. NX GET answers the old value: null means it was set
						applied = e.Reply.IsNull()
					}
				}
				if !applied {
					continue
				}
				switch {
				case strings.HasPrefix(k, rueidisaside.PlaceholderPrefix):
					items = append(items, logItem{seq: e.Seq, kind: "id-set", key: k, who: who})
				case isKey(k) && strings.HasPrefix(e.Argv[2], rueidisaside.PlaceholderPrefix):
					items = append(items, logItem{seq: e.Seq, kind: "set-lock", key: k, val: e.Argv[2], who: who})
				case isKey(k):
					items = append(items, logItem{seq: e.Seq, kind: "set-value", key: k, val: e.Argv[2], who: who})
				}
			case "DEL":
				if e.Reply.T == ':' && e.Reply.I == 1 {
					if isKey(k) {
						items = append(items, logItem{seq: e.Seq, kind: "remove", key: k, who: who, note: e.Note})
					} else if strings.HasPrefix(k, rueidisaside.PlaceholderPrefix) {
						items = append(items, logItem{seq: e.Seq, kind: "id-gone", key: k, note: "deleted"})
					}
				}
			}
		}
	}
	for _, l := range w.loads {
		items = append(items, logItem{seq: l.stamp, kind: "load", key: l.key, who: l.client, val: l.val})
	}
	sort.SliceStable(items, func(i, j int) bool { return items[i].seq < items[j].seq })

	type keyState struct {
		val         string // current server value ("" = absent)
		lockOwner   int    // client that placed the current placeholder
		loadsInEp   int    // loader invocations since the key was last absent
		firstLoader int
		idGoneSince bool // the placeholder's liveness key was absent at some point since the placeholder was placed
	}
	st := map[string]*keyState{}
	idOwner := map[string]int{}
	idPresent := map[string]bool{}
	get := func(k string) *keyState {
		if st[k] == nil {
			st[k] = &keyState{lockOwner: -1}
		}
		return st[k]
	}
	history := func(k string, upto int64) []string {
		var out []string
		for _, it := range items {
			if it.seq > upto {
				break
			}
			if it.key == k || strings.HasPrefix(it.key, rueidisaside.PlaceholderPrefix) {
				out = append(out, fmt.Sprintf("%d %s %s client=%d %s %s", it.seq, it.kind, it.key, it.who, drv.Tail(it.val, 40), it.note))
			}
		}
		if len(out) > 80 {
			out = out[len(out)-80:]
		}
		return out
	}
	for _, it := range items {
		switch it.kind {
		case "id-set":
			idOwner[it.key] = it.who
			idPresent[it.key] = true
		case "id-gone":
			idPresent[it.key] = false
			for _, ks := range st {
				if ks.val == it.key {
					ks.idGoneSince = true
				}
			}
		case "set-lock":
			ks := get(it.key)
			ks.val, ks.lockOwner, ks.idGoneSince = it.val, it.who, !idPresent[it.val]
			run.Observe("locks_placed", 1)
		case "set-value":
			ks := get(it.key)
			if it.who == -1 { // the driver stored a value: a new epoch
				ks.loadsInEp = 0
			}
			ks.val = it.val
		case "remove":
			ks := get(it.key)
			if strings.HasPrefix(ks.val, rueidisaside.PlaceholderPrefix) && it.who >= 0 && it.who != ks.lockOwner && it.note == "script" {
				// a client releases another client's lock: only allowed when that client's liveness key was gone
				run.Observe("locks_of_others_released", 1)
				died, everDied := w.diedAt[ks.lockOwner]
				ownerAlive := !everDied || it.seq < died // as far as the driver knows: not closed, connections never dropped
				switch {
				case !ks.idGoneSince:
					run.Violation("live-holder-lock-released-by-other", w.cfg+"|liveness-key-present", map[string]any{"case": w.name, "key": it.key, "by": it.who, "owner": ks.lockOwner, "history": history(it.key, it.seq), "trace": w.trace})
				case ownerAlive:
					// the liveness key the lock points to went away although its client is alive, connected and still loading
					run.Violation("live-holder-lock-released-by-other", w.cfg+"|liveness-key-of-a-live-client-vanished", map[string]any{"case": w.name, "key": it.key, "by": it.who, "owner": ks.lockOwner, "lock_value": ks.val, "history": history(it.key, it.seq), "trace": w.trace})
				default:
					run.Observe("locks_of_dead_clients_released", 1)
				}
			}
			ks.val, ks.loadsInEp, ks.lockOwner = "", 0, -1
			run.Observe("epochs_ended", 1)
		case "load":
			loads++
			ks := get(it.key)
			ks.loadsInEp++
			run.Observe("loader_invocations", 1)
			if !strings.HasPrefix(ks.val, rueidisaside.PlaceholderPrefix) || ks.lockOwner != it.who {
				run.Violation("loader-ran-without-holding-the-lock", w.cfg, map[string]any{"case": w.name, "key": it.key, "client": it.who, "server_value": ks.val, "lock_owner": ks.lockOwner, "history": history(it.key, it.seq), "trace": w.trace})
			}
			if ks.loadsInEp > 1 {
				run.Violation("loader-ran-twice-in-one-epoch", w.cfg, map[string]any{"case": w.name, "key": it.key, "client": it.who, "first": ks.firstLoader, "history": history(it.key, it.seq), "trace": w.trace})
			} else {
				ks.firstLoader = it.who
			}
		}
	}

	// results of Get
	produced := map[string]map[string]*load{}
	for _, l := range w.loads {
		if produced[l.key] == nil {
			produced[l.key] = map[string]*load{}
		}
		produced[l.key][l.val] = l
	}
	perRound := map[string]int{}
	for _, g := range w.gets {
		run.Observe("gets", 1)
		perRound[fmt.Sprintf("%d/%s", g.round, g.key)]++
		if strings.HasPrefix(g.val, rueidisaside.PlaceholderPrefix) || strings.Contains(g.val, rueidisaside.PlaceholderPrefix) {
			run.Violation("placeholder-returned", w.cfg, map[string]any{"case": w.name, "client": g.client, "key": g.key, "value": g.val, "err": fmt.Sprint(g.err), "trace": w.trace})
			continue
		}
		if g.err != nil {
			run.Observe("gets_failed_"+errKindOrLoader(g.err), 1)
			if errors.Is(g.err, context.DeadlineExceeded) && w.cfgKind() == "herd" {
				run.Violation("get-timed-out", w.cfg, map[string]any{"case": w.name, "client": g.client, "key": g.key, "trace": w.trace})
			}
			continue
		}
		run.Observe("gets_ok", 1)
		if l := produced[g.key][g.val]; l != nil {
			if l.failed {
				run.Violation("value-of-failed-loader-returned", w.cfg, map[string]any{"case": w.name, "client": g.client, "key": g.key, "value": g.val})
			}
			if l.stamp > g.ended {
				run.Violation("value-from-the-future", w.cfg, map[string]any{"case": w.name, "client": g.client, "key": g.key, "value": g.val})
			}
			if l.client != g.client {
				run.Observe("gets_served_by_another_clients_load", 1)
				contended = true
			}
			if g.fresh != 0 && l.stamp < g.fresh {
				run.Violation("stale-value-after-del", w.cfg, map[string]any{"case": w.name, "client": g.client, "key": g.key, "value": g.val, "loaded_at": l.stamp, "deleted_and_settled_at": g.fresh, "history": history(g.key, g.ended), "trace": w.trace})
			}
			continue
		}
		if s, ok := w.stored[g.key][g.val]; ok {
			run.Observe("gets_served_stored_value", 1)
			if g.fresh != 0 && s < g.fresh {
				run.Violation("stale-value-after-del", w.cfg, map[string]any{"case": w.name, "client": g.client, "key": g.key, "value": g.val, "history": history(g.key, g.ended), "trace": w.trace})
			}
			continue
		}
		run.Violation("value-nobody-produced", w.cfg, map[string]any{"case": w.name, "client": g.client, "key": g.key, "value": g.val, "history": history(g.key, g.ended), "trace": w.trace})
	}
	for _, n := range perRound {
		if n >= 2 {
			run.Observe("rounds_with_concurrent_gets_for_one_key", 1)
		}
	}
	return loads, contended
}

func (w *world) cfgKind() string {
	if strings.HasPrefix(w.cfg, "kind=herd") || strings.HasPrefix(w.cfg, "kind=fresh") {
		return "herd"
	}
	return "death"
}

func errKindOrLoader(err error) string {
	if err != nil && err.Error() == "loader failed" {
		return "loader"
	}
	return errKind(err)
}

// C39: cache-aside reads never leak locks and load once.
func TestC39(t *testing.T) {
	run := mon.Start(t, "C39", "exploration",
		"2-4 real rueidisaside clients (own rueidis client each; SET NX GET lock or Lua lock; plain or typed client; ClientTTL 2-10 s) on fakeredis, one history per synctest bubble: "+
			"(herd) 3-6 rounds of 2-12 concurrent Gets over 1-3 keys with loaders taking 0-400 ms, a failing loader, Dels through a client (also racing with the loads), key expiry (ttl 2 s), values stored by the driver; "+
			"(fresh) a never-used client starts 2-4 concurrent Gets of different missing keys whose loaders take 2-6x ClientTTL while other clients ask for the same keys; (death) a holder whose loader blocks is closed / loses its connections for good / loses them once while 1-3 other clients wait, ttl 2 min. Oracles: no returned value carries the rueidisid: prefix; every returned value was produced by a loader for that key or stored by the driver; "+
			"replay of the server log merged with the loader invocations: loader only while holding the lock, at most one invocation per (key, epoch between removals), a lock is only released by another client after its owner's liveness key was gone, and never while the owner is alive as far as the driver knows (not closed, connections intact); "+
			"Gets started at a quiescent point after Del do not return older values; after a holder's death the others complete with a loaded value within 1 s (close, blip) or ClientTTL+1 s (dead) of virtual time. "+
			"A case is one history, non-trivial when some Get was served by another client's load (or a dead holder's lock was taken over)")
	defer run.Finish()
	rueidis.VerifSetQueueType("flowbuffer") // set once: pipes are created from background goroutines too
	run.Assume("fakeredis executes SET NX GET PX, the three shipped Lua scripts, expiry and client-tracking invalidations like Redis does",
		"no server latency is injected; bounds are virtual time")
	seeds := run.Rand("cases")
	n := run.N(220, 5000)
	only := os.Getenv("VERIF_C39_CASE")
	for i := 0; i < n; i++ {
		rng := rand.New(rand.NewSource(seeds.Int63()))
		p := params{seed: rng.Int63(), clients: 2 + rng.Intn(3), lua: rng.Intn(2) == 0, typed: rng.Intn(3) == 0, clientTTL: []time.Duration{2 * time.Second, 5 * time.Second, 10 * time.Second}[rng.Intn(3)], keys: 1 + rng.Intn(3), kind: "herd", death: "-"}
		if rng.Intn(3) == 0 {
			p.kind = "death"
			p.death = []string{"close", "dead", "blip"}[rng.Intn(3)]
		}
		if p.kind == "herd" && rng.Intn(4) == 0 {
			p.kind, p.keys, p.clientTTL = "fresh", 4, []time.Duration{2 * time.Second, 5 * time.Second}[rng.Intn(2)]
		}
		if only != "" && only != fmt.Sprintf("h%d", i) {
			continue
		}
		oneHistory(run, t, i, p)
	}
	run.Require("fresh_client_histories", "gets_ok", "loader_invocations", "gets_served_by_another_clients_load", "rounds_with_concurrent_gets_for_one_key", "epochs_ended", "dels", "locks_of_others_released",
		"lock_of_dead_holder_released_in_time", "holder_deaths_close", "holder_deaths_dead", "holder_deaths_blip", "gets_failed_loader", "gets_served_stored_value")
}
