// Package c07 checks, in virtual time, that client-side cached replies expire at the earlier of the caller's TTL
// (counted from the request start) and - unless the command uses static TTL - the key's server PTTL (counted from
// reply arrival), that CacheTTL / CachePTTL / CachePXAT report exactly that expiry, and that no hit is served at or
// after it.
package c07

import (
	"context"
	"fmt"
	"math/rand"
	"os"
	"strings"
	"sync"
	"testing"
	"testing/synctest"
	"time"

	"github.com/redis/rueidis"
	"verifh/drv"
	"verifh/fakeredis"
	"verifh/mon"
	"verifh/resp"
)

const addr = "127.0.0.1:6379"

// simpleMap is the user-provided SimpleCache behind NewSimpleCacheAdapter.
type simpleMap struct {
	mu sync.Mutex
	m  map[string]rueidis.RedisMessage
}

func (s *simpleMap) Get(key string) rueidis.RedisMessage {
	s.mu.Lock()
	defer s.mu.Unlock()
	return s.m[key]
}
func (s *simpleMap) Set(key string, val rueidis.RedisMessage) {
	s.mu.Lock()
	s.m[key] = val
	s.mu.Unlock()
}
func (s *simpleMap) Del(key string) { s.mu.Lock(); delete(s.m, key); s.mu.Unlock() }
func (s *simpleMap) Flush()         { s.mu.Lock(); s.m = map[string]rueidis.RedisMessage{}; s.mu.Unlock() }

const (
	apiDoCache = iota
	apiDoCacheStatic
	apiMulti       // DoMultiCache, no command tagged static
	apiMultiStatic // DoMultiCache, every command tagged static (the documented condition for the direct wire)
	apiMultiMixed  // DoMultiCache, some tagged: documented fallback to the standard wire, either expiry accepted for the tagged ones
	apiMGet        // DoCache(MGET)
	nAPI
)

var apiNames = []string{"DoCache", "DoCache+static", "DoMultiCache", "DoMultiCache+static", "DoMultiCache+mixed", "DoCache(MGET)"}

var ttls = []time.Duration{time.Millisecond, 2 * time.Millisecond, 10 * time.Millisecond, 999 * time.Millisecond, time.Second, 1500 * time.Millisecond, 2 * time.Second, time.Minute, time.Hour}
var delays = []time.Duration{0, 0, 5 * time.Millisecond, time.Second}

func ttlClass(t time.Duration) string {
	switch {
	case t <= 2*time.Millisecond:
		return "T<=2ms"
	case t < time.Second:
		return "T<1s"
	case t <= 2*time.Second:
		return "T~1s"
	}
	return "T>=1m"
}

// pClass classifies the server PTTL relative to what is left of the client TTL at reply arrival.
func pClass(p, left int64) string {
	switch {
	case p == -2:
		return "P=-2"
	case p == -1:
		return "P=-1"
	case p == 0:
		return "P=0"
	case p < left:
		return "P<left"
	case p == left:
		return "P=left"
	}
	return "P>left"
}

// keyState is the oracle's knowledge about one key's cache entry.
type keyState struct {
	e      int64 // expected expiry (unix ms) of the cached reply, 0 = nothing cached by us
	val    string
	isNil  bool
	cls    string // class of the fetch that created the entry (for fingerprints)
	static bool
}

type scenario struct {
	id      int
	store   string // builtin | adapter
	natural bool   // PTTL comes from real server-side expiries instead of an overridden EXEC reply
	seed    int64
}

type env struct {
	t   *testing.T
	run *mon.Run
	sc  scenario
	rng *rand.Rand

	mu        sync.Mutex // guards everything the server callbacks touch
	cur       []string   // keys of the PTTLs seen since the last MULTI on the wire
	inMulti   bool
	lastExec  resp.V
	fetches   map[string]int // key -> data reads executed by the server in this step
	recs      []fetchRec
	trapFired int
}

type fetchRec struct {
	keys []string
	p    []int64
	t1   int64
}

func val(k string, gen int) string { return fmt.Sprintf("v:%s:%d", k, gen) }

func nowMs() int64 { return time.Now().UnixMilli() }

func (e *env) violation(class, key string, w map[string]any) {
	w["scenario"] = fmt.Sprintf("#%d store=%s natural=%v seed=%d", e.sc.id, e.sc.store, e.sc.natural, e.sc.seed)
	e.run.Violation(class, e.sc.store+"/"+key, w)
}

// one read in a step
type read struct {
	key    string
	ttl    time.Duration
	static bool
}

func runScenario(t *testing.T, run *mon.Run, sc scenario) {
	e := &env{t: t, run: run, sc: sc, rng: rand.New(rand.NewSource(sc.seed)), fetches: map[string]int{}}
	rng := e.rng
	s := fakeredis.New(fakeredis.Options{Seed: sc.seed}, addr)
	defer func() { await(time.Hour, s.Close) }()
	node := s.Node(addr)

	s.OnExec = func(ev fakeredis.Event) {
		if ev.Conn == 0 || len(ev.Argv) == 0 {
			return
		}
		e.mu.Lock()
		defer e.mu.Unlock()
		switch strings.ToUpper(ev.Argv[0]) {
		case "GET":
			e.fetches[ev.Argv[1]]++
		case "MGET":
			for _, k := range ev.Argv[1:] {
				e.fetches[k]++
			}
		case "EXEC":
			e.lastExec = ev.Reply
		}
	}
	// tracker: never matches, only follows the wire (rules are evaluated in order, under the server lock)
	tracker := &fakeredis.Rule{Name: "tracker", Match: func(_ *fakeredis.Conn, a []string) bool {
		e.mu.Lock()
		defer e.mu.Unlock()
		switch strings.ToUpper(a[0]) {
		case "MULTI":
			e.inMulti, e.cur = true, nil
		case "PTTL":
			e.cur = append(e.cur, a[1])
		case "EXEC":
			e.inMulti = false
		}
		return false
	}}

	opt := drv.Option(s, addr)
	opt.ForceSingleClient = true
	opt.PipelineMultiplex = -1
	opt.DisableRetry = true
	opt.Dialer.KeepAlive = -1 // no background PINGs: nothing but the scenario moves the virtual clock
	store := &simpleMap{m: map[string]rueidis.RedisMessage{}}
	if sc.store == "adapter" {
		opt.NewCacheStoreFn = func(rueidis.CacheStoreOption) rueidis.CacheStore { return rueidis.NewSimpleCacheAdapter(store) }
	}
	client, err := rueidis.NewClient(opt)
	if err != nil {
		run.Inconclusive("client setup failed: " + err.Error())
		return
	}
	defer func() { await(time.Hour, client.Close) }()
	ctx := context.Background()

	keys := []string{"ka", "kb", "kc", "kd"}
	state := map[string]*keyState{}
	gen := 0
	serverX := map[string]int64{} // natural mode: absolute server expiry (0 none, -1 key absent)
	for _, k := range keys {
		state[k] = &keyState{}
		gen++
		if sc.natural && rng.Intn(5) == 0 {
			serverX[k] = -1 // missing key
			continue
		}
		node.Exec("SET", k, val(k, gen))
		state[k].val = val(k, gen) // what the server holds (the entry itself is not cached yet: e == 0)
	}
	// in natural mode give keys a real expiry now and then
	armNatural := func(k string, d time.Duration) {
		gen++
		v := val(k, gen)
		node.Exec("SET", k, v, "PX", fmt.Sprint(d.Milliseconds()))
		serverX[k] = nowMs() + d.Milliseconds()
		state[k].val = v
		state[k].e = 0  // the SET invalidated whatever was cached
		synctest.Wait() // let the invalidation push reach the client before the next read
	}

	steps := 5 + rng.Intn(5)
	for step := 0; step < steps; step++ {
		// ---- choose the call
		api := rng.Intn(nAPI)
		if sc.natural { // tagged commands stay away from server-side expiries: their invalidation would purge the entry before t0+T
			api = []int{apiDoCache, apiMulti, apiMGet}[rng.Intn(3)]
		}
		var reads []read
		perm := rng.Perm(len(keys))
		nk := 1
		if api >= apiMulti {
			nk = 1 + rng.Intn(len(keys))
		}
		oneTTL := ttls[rng.Intn(len(ttls))]
		for i := 0; i < nk; i++ {
			r := read{key: keys[perm[i]], ttl: ttls[rng.Intn(len(ttls))]}
			switch api {
			case apiDoCacheStatic, apiMultiStatic:
				r.static = true
			case apiMultiMixed:
				r.static = i%2 == 0
			case apiMGet:
				r.ttl = oneTTL
			}
			reads = append(reads, r)
		}
		if api == apiMultiMixed && len(reads) < 2 {
			api = apiMulti
			reads[0].static = false
		}
		effStatic := api == apiDoCacheStatic || api == apiMultiStatic
		d := delays[rng.Intn(len(delays))]

		if sc.natural && rng.Intn(3) == 0 {
			k := reads[rng.Intn(len(reads))].key
			armNatural(k, []time.Duration{time.Millisecond, 3 * time.Millisecond, 40 * time.Millisecond, 1200 * time.Millisecond, 90 * time.Second}[rng.Intn(5)])
		}

		t0 := nowMs()
		// ---- who is expected to hit
		var missKeys []string
		expectHit := map[string]bool{}
		for _, r := range reads {
			st := state[r.key]
			if st.e != 0 && t0 < st.e {
				expectHit[r.key] = true
			} else {
				missKeys = append(missKeys, r.key)
			}
		}
		// ---- fault plan for this step
		s.ClearPlan()
		s.Plan(tracker)
		e.mu.Lock()
		e.fetches, e.recs, e.trapFired = map[string]int{}, nil, 0
		e.mu.Unlock()
		planP := map[string]int64{}
		record := func(ps func() []int64) func() {
			return func() {
				e.mu.Lock()
				defer e.mu.Unlock()
				rec := fetchRec{keys: append([]string{}, e.cur...), t1: nowMs()}
				rec.p = ps()
				e.recs = append(e.recs, rec)
			}
		}
		fromLog := func() []int64 { // natural mode: the PTTLs the server really answered, from its exec log
			var out []int64
			for i := range e.cur {
				if i < len(e.lastExec.A) {
					out = append(out, e.lastExec.A[i].I)
				}
			}
			return out
		}
		encodeExec := func(ks []string, mget bool) []byte {
			var ps, vs []resp.V
			for _, k := range ks {
				ps = append(ps, resp.Int(planP[k]))
				if planP[k] == -2 {
					vs = append(vs, resp.Null())
				} else {
					vs = append(vs, resp.Bulk(state[k].val))
				}
			}
			if mget {
				return resp.Encode(nil, resp.Arr(append(ps, resp.Arr(vs...))...))
			}
			return resp.Encode(nil, resp.Arr(ps[0], vs[0]))
		}
		choose := func(k string, ttl time.Duration) int64 {
			left := ttl.Milliseconds() - d.Milliseconds() // client TTL left at reply arrival
			cands := []int64{-2, -1, 0, 1, left - 1, left, left + 1, ttl.Milliseconds(), 10 * 365 * 24 * 3600 * 1000, 1 + rng.Int63n(2*ttl.Milliseconds()+5)}
			p := cands[rng.Intn(len(cands))]
			if p < -2 {
				p = 0
			}
			return p
		}
		matchExecFor := func(ks []string) func(*fakeredis.Conn, []string) bool {
			want := strings.Join(ks, " ")
			return func(_ *fakeredis.Conn, a []string) bool {
				if !strings.EqualFold(a[0], "EXEC") {
					return false
				}
				e.mu.Lock()
				defer e.mu.Unlock()
				return strings.Join(e.cur, " ") == want
			}
		}
		ttlOf := map[string]time.Duration{}
		for _, r := range reads {
			ttlOf[r.key] = r.ttl
		}
		if sc.natural {
			s.Plan(&fakeredis.Rule{Name: "exec-delay", Match: fakeredis.MatchCmd("EXEC"), Action: fakeredis.Action{DelayBefore: d, Then: record(fromLog)}})
		} else if effStatic {
			// trap: a static-TTL command must not go through MULTI/PTTL/EXEC; if it does, it is clamped to 1 ms and the oracle sees it
			for _, k := range missKeys {
				planP[k] = 1
			}
			s.Plan(&fakeredis.Rule{Name: "trap", Match: fakeredis.MatchCmd("EXEC"), Action: fakeredis.Action{ExecFirst: true, Raw: resp.Encode(nil, resp.Arr(resp.Int(1), resp.Bulk("trapped"))), Then: func() {
				e.mu.Lock()
				e.trapFired++
				e.mu.Unlock()
			}}})
		} else if api == apiMGet {
			if len(missKeys) > 0 {
				for _, k := range missKeys {
					planP[k] = choose(k, ttlOf[k])
				}
				ks := append([]string{}, missKeys...)
				s.Plan(&fakeredis.Rule{Name: "exec-mget", Match: matchExecFor(ks), Times: 1, Action: fakeredis.Action{ExecFirst: true, Raw: encodeExec(ks, true), DelayReply: d,
					Then: record(func() []int64 {
						var out []int64
						for _, k := range ks {
							out = append(out, planP[k])
						}
						return out
					})}})
			}
		} else {
			for _, k := range missKeys {
				k := k
				planP[k] = choose(k, ttlOf[k])
				s.Plan(&fakeredis.Rule{Name: "exec-" + k, Match: matchExecFor([]string{k}), Times: 1, Action: fakeredis.Action{ExecFirst: true, Raw: encodeExec([]string{k}, false), DelayReply: d,
					Then: record(func() []int64 { return []int64{planP[k]} })}})
			}
		}
		if effStatic && d > 0 {
			s.Plan(&fakeredis.Rule{Name: "static-delay", Match: func(_ *fakeredis.Conn, a []string) bool {
				e.mu.Lock()
				defer e.mu.Unlock()
				return strings.EqualFold(a[0], "GET") && !e.inMulti
			}, Action: fakeredis.Action{DelayReply: d}})
		}

		// ---- the call
		type got struct {
			hit              bool
			pxat, pttl, ttl  int64
			val              string
			isNil            bool
			err              error
			outerHit, hasOut bool
		}
		results := map[string]got{}
		read1 := func(m *rueidis.RedisMessage) got {
			g := got{hit: m.IsCacheHit(), pxat: m.CachePXAT(), pttl: m.CachePTTL(), ttl: m.CacheTTL()}
			if m.IsNil() {
				g.isNil = true
			} else if s, err := m.ToString(); err != nil {
				g.err = err
			} else {
				g.val = s
			}
			return g
		}
		mk := func(r read) rueidis.Cacheable {
			c := client.B().Get().Key(r.key).Cache()
			if r.static {
				c = c.ToStaticTTL()
			}
			return c
		}
		returned := await(6*time.Hour, func() {
			switch api {
			case apiDoCache, apiDoCacheStatic:
				res := client.DoCache(ctx, mk(reads[0]), reads[0].ttl)
				if m, err := res.ToMessage(); err != nil && !rueidis.IsRedisNil(err) {
					results[reads[0].key] = got{err: err}
				} else {
					g := read1(&m)
					// the accessors of the result itself must agree with those of its message
					if res.IsCacheHit() != g.hit || res.CachePXAT() != g.pxat || res.CachePTTL() != g.pttl || res.CacheTTL() != g.ttl {
						e.violation("accessor-mismatch", "RedisResult-vs-RedisMessage", map[string]any{"key": reads[0].key})
					}
					results[reads[0].key] = g
				}
			case apiMulti, apiMultiStatic, apiMultiMixed:
				cts := make([]rueidis.CacheableTTL, len(reads))
				for i, r := range reads {
					cts[i] = rueidis.CT(mk(r), r.ttl)
				}
				for i, res := range client.DoMultiCache(ctx, cts...) {
					if m, err := res.ToMessage(); err != nil && !rueidis.IsRedisNil(err) {
						results[reads[i].key] = got{err: err}
					} else {
						results[reads[i].key] = read1(&m)
					}
				}
			case apiMGet:
				ks := make([]string, len(reads))
				for i, r := range reads {
					ks[i] = r.key
				}
				res := client.DoCache(ctx, client.B().Mget().Key(ks...).Cache(), oneTTL)
				arr, err := res.ToArray()
				for i, r := range reads {
					if err != nil || i >= len(arr) {
						results[r.key] = got{err: fmt.Errorf("mget: %v (len %d)", err, len(arr))}
						continue
					}
					g := read1(&arr[i])
					g.outerHit, g.hasOut = res.IsCacheHit(), true
					results[r.key] = g
				}
			}
		})
		if !returned { // the main goroutine of the bubble must never block for ever on the client
			e.violation("call-never-returned", apiNames[api], map[string]any{"reads": fmt.Sprint(reads), "step": step, "server_delay_ms": d.Milliseconds(), "stacks": drv.Tail(bubbleStacks(), 8000)})
			return
		}
		synctest.Wait() // the server's Then callbacks run after the reply was queued: let them finish (no virtual time passes)
		t1 := nowMs()   // virtual instant at which the call returned (no transit time in the bubble)
		if os.Getenv("VERIF_DEBUG") != "" {
			fmt.Printf("DEBUG step %d api=%s reads=%v d=%v t0=%d t1=%d miss=%v planP=%v results=%v recs=%v\n", step, apiNames[api], reads, d, t0, t1, missKeys, planP, results, e.recs)
			for _, ev := range s.Log() {
				if ev.Kind == "recv" || ev.Kind == "fault" {
					fmt.Printf("DEBUG   %s %v %s\n", ev.Kind, ev.Argv, ev.Note)
				}
			}
			s.ResetLog()
		}
		e.mu.Lock()
		fetches, recs, trap := e.fetches, e.recs, e.trapFired
		e.fetches = map[string]int{}
		e.mu.Unlock()
		recOf := map[string]struct {
			p, t1 int64
			ok    bool
		}{}
		for _, rc := range recs {
			for i, k := range rc.keys {
				if i < len(rc.p) {
					recOf[k] = struct {
						p, t1 int64
						ok    bool
					}{rc.p[i], rc.t1, true}
				}
			}
		}

		// ---- evaluate every key of the call
		for _, r := range reads {
			k := r.key
			st := state[k]
			g := results[k]
			apiName := apiNames[api]
			w := map[string]any{"api": apiName, "key": k, "ttl_ms": r.ttl.Milliseconds(), "static_tag": r.static, "t0": t0, "returned_at": t1, "server_delay_ms": d.Milliseconds(),
				"result": fmt.Sprintf("hit=%v pxat=%d pttl=%d ttl=%d val=%q nil=%v err=%v", g.hit, g.pxat, g.pttl, g.ttl, g.val, g.isNil, g.err), "fetches_seen_by_server": fetches[k], "step": step}
			if g.err != nil {
				e.violation("unexpected-error", apiName, w)
				st.e = 0
				continue
			}
			if expectHit[k] {
				w["expected_expiry"] = st.e
				w["entry_from"] = st.cls
				off := "mid"
				switch st.e - t0 {
				case 1:
					off = "E-1"
				}
				fp := fmt.Sprintf("%s|%s|hit|%s|%s|static=%v", sc.store, apiName, st.cls, off, st.static)
				run.Case(fp, true)
				run.Observe("hits_checked", 1)
				if off == "E-1" {
					run.Observe("hits_1ms_before_expiry", 1)
				}
				if !g.hit || fetches[k] != 0 {
					e.violation("expired-early", apiName+"|"+st.cls, w)
					st.e = 0 // unknown now; resynchronise on the next fetch
					if g.pxat > t1 {
						st.e, st.cls = g.pxat, "resync"
					}
					continue
				}
				wantP := max(st.e-t1, 0) // the hit was decided at t0; a slow fetch of another key in the same call may return after E
				if g.pxat != st.e || g.pttl != wantP || g.ttl != (wantP+999)/1000 {
					w["want"] = fmt.Sprintf("pxat=%d pttl=%d ttl=%d", st.e, wantP, (wantP+999)/1000)
					e.violation("reported-expiry-on-hit", apiName+"|"+st.cls, w)
				}
				if (g.isNil != st.isNil) || (!g.isNil && g.val != st.val) {
					e.violation("hit-value", apiName, w)
				}
				continue
			}
			// ---- expected miss (nothing cached, or cached entry at/after its expiry)
			probe := "cold"
			if st.e != 0 {
				switch t0 - st.e {
				case 0:
					probe = "at-E"
					run.Observe("reads_at_expiry", 1)
				case 1:
					probe = "E+1"
					run.Observe("reads_1ms_after_expiry", 1)
				default:
					probe = "after-E"
				}
			}
			if g.hit && fetches[k] == 0 {
				w["expired_at"] = st.e
				w["entry_from"] = st.cls
				e.violation("hit-after-expiry", apiName+"|"+probe+"|"+st.cls, w)
				run.Case(fmt.Sprintf("%s|%s|stale-hit|%s", sc.store, apiName, probe), true)
				if g.pxat > t1 {
					st.e, st.cls = g.pxat, "resync"
				}
				continue
			}
			if fetches[k] != 1 {
				w["what"] = "expected exactly one fetch of the key in this step"
				e.violation("fetch-count", apiName+"|"+probe, w)
			}
			tT := t0 + r.ttl.Milliseconds()
			rc := recOf[k]
			var allowed []int64
			cls := ""
			switch {
			case effStatic:
				allowed = []int64{tT}
				cls = "static/" + ttlClass(r.ttl)
				if trap > 0 {
					w["what"] = "a static-TTL command went through MULTI/PTTL/EXEC"
				}
			case !rc.ok:
				w["what"] = "the server never saw the MULTI/PTTL/EXEC of this fetch"
				e.violation("fetch-shape", apiName, w)
				st.e = 0
				continue
			default:
				clamp := tT
				if rc.p >= 0 && rc.t1+rc.p < tT {
					clamp = rc.t1 + rc.p
				}
				allowed = []int64{clamp}
				if r.static { // tagged command inside a mixed batch: documented fallback to the standard wire; the statement says t0+T
					allowed = append(allowed, tT)
				}
				cls = fmt.Sprintf("%s/%s/d=%v", pClass(rc.p, tT-rc.t1), ttlClass(r.ttl), d)
				w["server_pttl"] = rc.p
				w["reply_arrival"] = rc.t1
				run.Observe("fetch_"+pClass(rc.p, tT-rc.t1), 1)
			}
			w["allowed_expiry"] = allowed
			ok := false
			for _, a := range allowed {
				ok = ok || g.pxat == a
			}
			run.Case(fmt.Sprintf("%s|%s|fetch|%s|%s|tag=%v", sc.store, apiName, cls, probe, r.static), true)
			run.Observe("fetches_checked", 1)
			if sc.natural {
				run.Observe("fetches_with_real_server_pttl", 1)
			}
			if d > 0 {
				run.Observe("fetches_with_server_delay", 1)
			}
			exp := allowed[0]
			if !ok {
				e.violation("reported-expiry-on-fetch", apiName+"|"+cls, w)
			} else {
				exp = g.pxat
				wantP := max(exp-t1, 0)
				if g.pttl != wantP || g.ttl != (wantP+999)/1000 {
					w["want"] = fmt.Sprintf("pttl=%d ttl=%d", wantP, (wantP+999)/1000)
					e.violation("reported-ttl-on-fetch", apiName+"|"+cls, w)
				}
			}
			// value: in natural mode the key may have expired on the server
			wantNil, wantVal := false, st.val
			if sc.natural {
				if x := serverX[k]; x == -1 || (x > 0 && rc.ok && rc.p == -2) {
					wantNil = true
				}
			} else if !effStatic && planP[k] == -2 {
				wantNil = true
			}
			if effStatic && trap > 0 {
				wantVal = g.val // the trap's value; the expiry check above already fired
			}
			if g.isNil != wantNil || (!wantNil && g.val != wantVal) {
				w["want_val"], w["want_nil"] = wantVal, wantNil
				e.violation("fetch-value", apiName, w)
			}
			st.e, st.cls, st.static, st.isNil = exp, cls, effStatic, g.isNil
			if !g.isNil {
				st.val = g.val
			}
			if sc.natural && wantNil {
				serverX[k] = -1
			}
		}
		if len(sampleBuf) < 6 && step == 1 {
			sampleBuf = append(sampleBuf, 1)
			run.Sample(map[string]any{"scenario": fmt.Sprintf("store=%s natural=%v", sc.store, sc.natural), "api": apiNames[api], "reads": fmt.Sprint(reads), "server_delay": d.String(), "t0": t0, "returned": t1, "results": fmt.Sprint(results)})
		}

		// ---- move the clock next to some entry's expiry
		var es []int64
		for _, k := range keys {
			if st := state[k]; st.e != 0 {
				es = append(es, st.e)
			}
		}
		now := nowMs()
		target := now
		if len(es) > 0 {
			eX := es[rng.Intn(len(es))]
			cands := []int64{eX - 1, eX - 1, eX, eX, eX + 1, now, (now + eX) / 2, eX + 7}
			target = cands[rng.Intn(len(cands))]
		}
		if target > now {
			time.Sleep(time.Duration(target-now) * time.Millisecond)
		}
	}
	s.ClearPlan()
}

var sampleBuf []int

func TestC07(t *testing.T) {
	run := mon.Start(t, "C07", "exploration",
		"virtual-time scenarios (synctest bubble) of 5-9 cached reads over 4 keys on one connection: API in {DoCache, DoCache+ToStaticTTL, DoMultiCache (untagged / all tagged / mixed), DoCache(MGET)}, client TTL in 1ms..1h, server PTTL in {-2,-1,0,1,left-1,left,left+1,T,10y,random} injected as the EXEC reply (or produced by real server-side expiries in 'natural' scenarios), server delay in {0,5ms,1s}; "+
			"after every call the clock is moved to E-1ms / E / E+1ms / mid of some entry; built-in store and NewSimpleCacheAdapter; "+
			"a case = (store, API, hit | fetch, PTTL class relative to the client TTL left, TTL class, delay, probe offset) of one evaluated key of one call")
	defer run.Finish()
	run.Assume("fakeredis's net.Pipe has no transit time, so 'reply arrival' is the virtual instant the server queued the reply",
		"instants and TTLs are whole milliseconds (the client keeps expiries in unix milliseconds)",
		"'uses static TTL' is read as documented on Cacheable.ToStaticTTL: DoCache on a tagged non-MGET command, or DoMultiCache where every command is tagged; for tagged commands in a mixed batch both t0+T and the clamped expiry are accepted",
		"no eviction: the cache is far below CacheSizeEachConn, so a miss before the expected expiry is reported as expired-early")
	n := run.N(1200, 36000)
	rng := run.Rand("scenarios")
	for i := 0; i < n; i++ {
		sc := scenario{id: i, store: []string{"builtin", "adapter"}[i%2], natural: i%5 == 4, seed: rng.Int63()}
		if only := os.Getenv("VERIF_C07_ONLY"); only != "" && only != fmt.Sprint(i) {
			continue
		}
		dl, stacks := drv.Bubble(t, func() { runScenario(t, run, sc) })
		if dl != "" {
			fmt.Printf("BROKEN property=C07 scenario %d left goroutines blocked: %s\n%s\n", i, dl, drv.Tail(stacks, 6000))
			t.Errorf("bubble did not wind down")
			return
		}
		run.Observe("scenarios", 1)
	}
	if os.Getenv("VERIF_DEBUG") != "" {
		fmt.Println("done")
	}
	run.Require("hits_checked", "hits_1ms_before_expiry", "reads_at_expiry", "reads_1ms_after_expiry", "fetches_checked", "fetch_P=-2", "fetch_P=-1", "fetch_P=0", "fetch_P<left", "fetch_P=left", "fetch_P>left",
		"fetches_with_real_server_pttl", "fetches_with_server_delay")
}
