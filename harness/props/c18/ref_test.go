package c18

// Reference implementation of the Redis Cluster key -> slot mapping, written from the
// cluster specification text (not from rueidis):
//
//   HASH_SLOT = CRC16(key) mod 16384, CRC16 = XMODEM: width 16, poly 0x1021, init 0,
//   no reflection, no final xor, check value CRC16("123456789") = 0x31C3.
//
//   Hash tags: if the key contains a '{', and there is a '}' to the right of the FIRST '{',
//   and there are one or more characters between the first '{' and the first '}' to its
//   right, only what is between them is hashed; otherwise the whole key is hashed.

func refCRC16(b string) uint16 {
	var crc uint16
	for i := 0; i < len(b); i++ {
		crc ^= uint16(b[i]) << 8
		for k := 0; k < 8; k++ {
			if crc&0x8000 != 0 {
				crc = crc<<1 ^ 0x1021
			} else {
				crc <<= 1
			}
		}
	}
	return crc
}

// refTag returns the part of key that is hashed.
func refTag(key string) string {
	open := -1
	for i := 0; i < len(key); i++ {
		if key[i] == '{' {
			open = i
			break
		}
	}
	if open < 0 {
		return key
	}
	rest := key[open+1:]
	for j := 0; j < len(rest); j++ {
		if rest[j] == '}' {
			if j == 0 {
				return key // "{}": nothing between the braces, the whole key is hashed
			}
			return rest[:j]
		}
	}
	return key // no closing brace
}

func refSlot(key string) uint16 { return refCRC16(refTag(key)) % 16384 }
