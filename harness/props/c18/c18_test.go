package c18

import (
	"fmt"
	"math/rand"
	"strings"
	"testing"

	"github.com/redis/rueidis"
	"verifh/mon"
)

const noSlotBit = uint16(1 << 15) // cmds.NoSlot: flag carried by every command of a non-cluster builder

func q(s string) string {
	if len(s) > 80 {
		return fmt.Sprintf("%q…(%d bytes)", s[:80], len(s))
	}
	return fmt.Sprintf("%q", s)
}

func qs(ks []string) string {
	p := make([]string, len(ks))
	for i, k := range ks {
		p[i] = q(k)
	}
	return "[" + strings.Join(p, " ") + "]"
}

// single is a hand-written single-key command (which argument is the key is known from the Redis command reference).
type single struct {
	name string
	fn   func(b rueidis.Builder, k string) uint16
}

func slotOf(c rueidis.Completed) uint16 { return c.Slot() }
func slotOfC(c rueidis.Cacheable) uint16 { return c.Slot() }

var singles = []single{
	{"GET", func(b rueidis.Builder, k string) uint16 { return slotOf(b.Get().Key(k).Build()) }},
	{"GET.Cache", func(b rueidis.Builder, k string) uint16 { return slotOfC(b.Get().Key(k).Cache()) }},
	{"SET", func(b rueidis.Builder, k string) uint16 { return slotOf(b.Set().Key(k).Value("{other}").Build()) }},
	{"HSET", func(b rueidis.Builder, k string) uint16 {
		return slotOf(b.Hset().Key(k).FieldValue().FieldValue("{f}", "{v}").Build())
	}},
	{"Arbitrary.Keys", func(b rueidis.Builder, k string) uint16 {
		return slotOf(b.Arbitrary("GET").Keys(k).Args("{arg}").Build())
	}},
	{"SetSlot", func(b rueidis.Builder, k string) uint16 { return slotOf(b.Ping().Build().SetSlot(k)) }},
	{"MGET1", func(b rueidis.Builder, k string) uint16 { return slotOf(b.Mget().Key(k).Build()) }},
	{"EVAL1", func(b rueidis.Builder, k string) uint16 {
		return slotOf(b.Eval().Script("return 1").Numkeys(1).Key(k).Arg("{a}").Build())
	}},
}

// multi is a hand-written multi-key command; min is the number of keys it needs, fixed says it takes exactly min keys.
type multi struct {
	name  string
	min   int
	fixed bool
	fn    func(b rueidis.Builder, k []string) uint16
}

var multis = []multi{
	{"MGET", 2, false, func(b rueidis.Builder, k []string) uint16 { return slotOf(b.Mget().Key(k...).Build()) }},
	{"MGET.Cache", 2, false, func(b rueidis.Builder, k []string) uint16 { return slotOfC(b.Mget().Key(k...).Cache()) }},
	{"MGET.KeyKey", 2, false, func(b rueidis.Builder, k []string) uint16 {
		c := b.Mget().Key(k[0])
		for _, x := range k[1:] {
			c = c.Key(x)
		}
		return slotOf(c.Build())
	}},
	{"DEL", 2, false, func(b rueidis.Builder, k []string) uint16 { return slotOf(b.Del().Key(k...).Build()) }},
	{"UNLINK", 2, false, func(b rueidis.Builder, k []string) uint16 { return slotOf(b.Unlink().Key(k...).Build()) }},
	{"EXISTS", 2, false, func(b rueidis.Builder, k []string) uint16 { return slotOf(b.Exists().Key(k...).Build()) }},
	{"TOUCH", 2, false, func(b rueidis.Builder, k []string) uint16 { return slotOf(b.Touch().Key(k...).Build()) }},
	{"WATCH", 2, false, func(b rueidis.Builder, k []string) uint16 { return slotOf(b.Watch().Key(k...).Build()) }},
	{"MSET", 2, false, func(b rueidis.Builder, k []string) uint16 {
		c := b.Mset().KeyValue()
		for i, x := range k {
			c = c.KeyValue(x, fmt.Sprintf("{v%d}", i))
		}
		return slotOf(c.Build())
	}},
	{"MSETNX", 2, false, func(b rueidis.Builder, k []string) uint16 {
		c := b.Msetnx().KeyValue()
		for i, x := range k {
			c = c.KeyValue(x, fmt.Sprintf("{v%d}", i))
		}
		return slotOf(c.Build())
	}},
	{"SUNION", 2, false, func(b rueidis.Builder, k []string) uint16 { return slotOf(b.Sunion().Key(k...).Build()) }},
	{"SINTER", 2, false, func(b rueidis.Builder, k []string) uint16 { return slotOf(b.Sinter().Key(k...).Build()) }},
	{"SDIFF", 2, false, func(b rueidis.Builder, k []string) uint16 { return slotOf(b.Sdiff().Key(k...).Build()) }},
	{"SUNIONSTORE", 2, false, func(b rueidis.Builder, k []string) uint16 {
		return slotOf(b.Sunionstore().Destination(k[0]).Key(k[1:]...).Build())
	}},
	{"SDIFFSTORE", 2, false, func(b rueidis.Builder, k []string) uint16 {
		return slotOf(b.Sdiffstore().Destination(k[0]).Key(k[1:]...).Build())
	}},
	{"SINTERCARD", 2, false, func(b rueidis.Builder, k []string) uint16 {
		return slotOf(b.Sintercard().Numkeys(int64(len(k))).Key(k...).Build())
	}},
	{"ZUNIONSTORE", 2, false, func(b rueidis.Builder, k []string) uint16 {
		return slotOf(b.Zunionstore().Destination(k[0]).Numkeys(int64(len(k) - 1)).Key(k[1:]...).Build())
	}},
	{"ZINTERSTORE", 2, false, func(b rueidis.Builder, k []string) uint16 {
		return slotOf(b.Zinterstore().Destination(k[0]).Numkeys(int64(len(k) - 1)).Key(k[1:]...).Build())
	}},
	{"ZDIFF", 2, false, func(b rueidis.Builder, k []string) uint16 {
		return slotOf(b.Zdiff().Numkeys(int64(len(k))).Key(k...).Build())
	}},
	{"EVAL", 2, false, func(b rueidis.Builder, k []string) uint16 {
		return slotOf(b.Eval().Script("return {KEYS[1]}").Numkeys(int64(len(k))).Key(k...).Arg("{a}", "{b}").Build())
	}},
	{"EVALSHA", 2, false, func(b rueidis.Builder, k []string) uint16 {
		return slotOf(b.Evalsha().Sha1("{sha}").Numkeys(int64(len(k))).Key(k...).Arg("{a}").Build())
	}},
	{"FCALL", 2, false, func(b rueidis.Builder, k []string) uint16 {
		return slotOf(b.Fcall().Function("{fn}").Numkeys(int64(len(k))).Key(k...).Arg("{a}").Build())
	}},
	{"RENAME", 2, true, func(b rueidis.Builder, k []string) uint16 { return slotOf(b.Rename().Key(k[0]).Newkey(k[1]).Build()) }},
	{"SMOVE", 2, true, func(b rueidis.Builder, k []string) uint16 {
		return slotOf(b.Smove().Source(k[0]).Destination(k[1]).Member("{m}").Build())
	}},
	{"LMOVE", 2, true, func(b rueidis.Builder, k []string) uint16 {
		return slotOf(b.Lmove().Source(k[0]).Destination(k[1]).Left().Right().Build())
	}},
	{"RPOPLPUSH", 2, true, func(b rueidis.Builder, k []string) uint16 {
		return slotOf(b.Rpoplpush().Source(k[0]).Destination(k[1]).Build())
	}},
	{"COPY", 2, true, func(b rueidis.Builder, k []string) uint16 { return slotOf(b.Copy().Source(k[0]).Destination(k[1]).Build()) }},
	{"BITOP", 2, false, func(b rueidis.Builder, k []string) uint16 {
		return slotOf(b.Bitop().And().Destkey(k[0]).Key(k[1:]...).Build())
	}},
	{"PFMERGE", 2, false, func(b rueidis.Builder, k []string) uint16 {
		return slotOf(b.Pfmerge().Destkey(k[0]).Sourcekey(k[1:]...).Build())
	}},
	{"PFCOUNT", 2, false, func(b rueidis.Builder, k []string) uint16 { return slotOf(b.Pfcount().Key(k...).Build()) }},
	{"XREAD", 2, false, func(b rueidis.Builder, k []string) uint16 {
		ids := make([]string, len(k))
		for i := range ids {
			ids[i] = "{id}"
		}
		return slotOf(b.Xread().Streams().Key(k...).Id(ids...).Build())
	}},
	{"BLPOP", 2, false, func(b rueidis.Builder, k []string) uint16 { return slotOf(b.Blpop().Key(k...).Timeout(1).Build()) }},
	{"LMPOP", 2, false, func(b rueidis.Builder, k []string) uint16 {
		return slotOf(b.Lmpop().Numkeys(int64(len(k))).Key(k[0]).Key(k[1:]...).Left().Build())
	}},
	{"JSON.MGET", 2, false, func(b rueidis.Builder, k []string) uint16 { return slotOf(b.JsonMget().Key(k...).Path("{$}").Build()) }},
	{"SORT.STORE", 2, true, func(b rueidis.Builder, k []string) uint16 { return slotOf(b.Sort().Key(k[0]).Store(k[1]).Build()) }},
	{"ZRANGESTORE", 2, true, func(b rueidis.Builder, k []string) uint16 {
		return slotOf(b.Zrangestore().Dst(k[0]).Src(k[1]).Min("{0}").Max("{1}").Build())
	}},
	{"LCS", 2, true, func(b rueidis.Builder, k []string) uint16 { return slotOf(b.Lcs().Key1(k[0]).Key2(k[1]).Build()) }},
	{"Arbitrary.Keys", 2, false, func(b rueidis.Builder, k []string) uint16 {
		return slotOf(b.Arbitrary("MGET").Keys(k...).Build())
	}},
	{"Arbitrary.Keys.Args.Keys", 2, false, func(b rueidis.Builder, k []string) uint16 {
		return slotOf(b.Arbitrary("X").Keys(k[0]).Args("{arg}").Keys(k[1:]...).Args("{z}").Build())
	}},
}

func guard(fn func() uint16) (slot uint16, pan any) {
	defer func() {
		if p := recover(); p != nil {
			pan = p
		}
	}()
	return fn(), nil
}

// keygen produces key tuples of every same/different-slot shape.
type keygen struct {
	rng    *rand.Rand
	bySlot map[uint16][]string // plain (brace-free) short keys per slot, for same-slot tuples without hash tags
}

func newKeygen(rng *rand.Rand) *keygen {
	g := &keygen{rng: rng, bySlot: map[uint16][]string{}}
	for a := 0; a < 256; a++ {
		for b := 0; b < 256; b++ {
			if a == '{' || b == '{' {
				continue
			}
			k := string([]byte{byte(a), byte(b)})
			s := refSlot(k)
			g.bySlot[s] = append(g.bySlot[s], k)
		}
	}
	return g
}

const special = "{}x:\r\n \x00"

func (g *keygen) bytes(n int, avoid string) string {
	b := make([]byte, n)
	for i := range b {
		for {
			b[i] = byte(g.rng.Intn(256))
			if g.rng.Intn(4) == 0 {
				b[i] = special[g.rng.Intn(len(special))]
			}
			if strings.IndexByte(avoid, b[i]) < 0 {
				break
			}
		}
	}
	return string(b)
}

var braceAlphabet = func() []string {
	out := []string{""}
	cur := []string{""}
	for l := 1; l <= 6; l++ {
		var next []string
		for _, p := range cur {
			for _, c := range "{}x" {
				next = append(next, p+string(c))
			}
		}
		out = append(out, next...)
		cur = next
	}
	return out
}()

// randomKey returns one key: binary, brace-heavy, tagged, up to maxLen bytes.
func (g *keygen) randomKey(maxLen int) string {
	switch g.rng.Intn(6) {
	case 0:
		return g.bytes(g.rng.Intn(maxLen+1), "")
	case 1:
		return braceAlphabet[g.rng.Intn(len(braceAlphabet))]
	case 2: // well-formed tag with arbitrary surroundings
		return g.bytes(g.rng.Intn(8), "{") + "{" + g.bytes(1+g.rng.Intn(8), "}") + "}" + g.bytes(g.rng.Intn(maxLen/2+1), "")
	case 3: // empty tag first, real-looking tag later: the whole key is hashed
		return g.bytes(g.rng.Intn(4), "{") + "{}" + g.bytes(g.rng.Intn(6), "") + "{" + g.bytes(3, "}") + "}"
	case 4: // long key
		return g.bytes(maxLen/2+g.rng.Intn(maxLen/2+1), "")
	default: // unterminated tag
		return g.bytes(g.rng.Intn(6), "{}") + "{" + g.bytes(g.rng.Intn(12), "}")
	}
}

// tuple returns n keys and the name of the shape used.
func (g *keygen) tuple(n int) ([]string, string) {
	keys := make([]string, n)
	shape := g.rng.Intn(7)
	switch shape {
	case 0: // same hash tag, different surroundings
		tag := g.bytes(1+g.rng.Intn(6), "}")
		for i := range keys {
			keys[i] = g.bytes(g.rng.Intn(4), "{") + "{" + tag + "}" + g.bytes(g.rng.Intn(10), "")
		}
		return keys, "same-tag"
	case 1: // same slot without any tag (CRC collision among 2-byte keys), strings differ
		for {
			l := g.bySlot[uint16(g.rng.Intn(16384))]
			if len(l) >= 2 {
				for i := range keys {
					keys[i] = l[g.rng.Intn(len(l))]
				}
				return keys, "same-slot-collision"
			}
		}
	case 2: // tag equal to a plain key: "{ab}zzz" and "ab"
		plain := g.bytes(1+g.rng.Intn(5), "{}")
		for i := range keys {
			if g.rng.Intn(2) == 0 {
				keys[i] = plain
			} else {
				keys[i] = "{" + plain + "}" + g.bytes(g.rng.Intn(6), "")
			}
		}
		return keys, "tag-vs-plain"
	case 3: // all same but one, at a random position
		tag := g.bytes(1+g.rng.Intn(6), "}")
		for i := range keys {
			keys[i] = "{" + tag + "}" + g.bytes(g.rng.Intn(6), "")
		}
		keys[g.rng.Intn(n)] = g.randomKey(24)
		return keys, "one-differs"
	case 4: // look-alikes: same text, brace layout decides
		base := g.bytes(1+g.rng.Intn(4), "{}")
		forms := []string{base, "{" + base + "}", "{" + base, base + "}", "{}" + base, "{}{" + base + "}", "{{" + base + "}}", "{" + base + "}{x}", "x{" + base + "}", "{" + base + "}}"}
		for i := range keys {
			keys[i] = forms[g.rng.Intn(len(forms))]
		}
		return keys, "look-alikes"
	case 5: // identical keys
		k := g.randomKey(64)
		for i := range keys {
			keys[i] = k
		}
		return keys, "identical"
	default:
		for i := range keys {
			keys[i] = g.randomKey(1024)
		}
		return keys, "independent"
	}
}

func refSlots(keys []string) (slots []uint16, differ bool) {
	slots = make([]uint16, len(keys))
	for i, k := range keys {
		slots[i] = refSlot(k)
		if slots[i] != slots[0] {
			differ = true
		}
	}
	return
}

func contains(s []uint16, v uint16) bool {
	for _, x := range s {
		if x == v {
			return true
		}
	}
	return false
}

// C18: key slots follow the Redis Cluster hash-slot specification; cross-slot multi-key commands are rejected by cluster builders only.
func TestC18(t *testing.T) {
	run := mon.Start(t, "C18", "exploration",
		"single keys: every 1- and 2-byte key and every string over {,},x up to length 6 (both exhaustive) plus random binary / brace-heavy keys up to 1 KiB, each through 8 hand-written single-key builders on a cluster and a non-cluster builder; "+
			"multi-key: tuples of 2-6 keys in 7 shapes (same tag, CRC collision without tag, tag vs plain key, one differs at a random position, brace look-alikes, identical, independent) through 40 hand-written multi-key builders and through one chain per key-taking builder method found by reflection over rueidis.Builder; "+
			"a case is distinct by builder chain + key bytes and non-trivial when the key is non-empty (single) or the tuple has >= 2 keys (multi)")
	defer run.Finish()
	run.Assume("reference slot function (bitwise CRC16-XMODEM + hash-tag rule) is written from the cluster specification and self-checked against CRC16(\"123456789\")=0x31C3 and the published slots of foo/bar/hello",
		"a non-cluster builder marks every command with the NoSlot flag (bit 15 of Slot()); the slot proper is Slot() without that bit",
		"reflection discovery finds WHERE keys go from the builder's own behaviour (a position is a key position iff a cluster builder rejects a different-slot string there); the 40 hand-written builders take key positions from the Redis command reference instead")

	// reference self-check
	if refCRC16("123456789") != 0x31C3 || refSlot("foo") != 12182 || refSlot("bar") != 5061 || refSlot("hello") != 866 ||
		refSlot("{user1000}.following") != refSlot("user1000") || refSlot("foo{}{bar}") != refCRC16("foo{}{bar}")%16384 ||
		refSlot("foo{{bar}}zap") != refCRC16("{bar")%16384 || refSlot("foo{bar}{zap}") != refSlot("bar") {
		fmt.Println("BROKEN property=C18 reference slot function fails its self-check")
		t.Fatalf("reference self-check failed")
	}

	cb := func() rueidis.Builder { return rueidis.VerifNewBuilder(true) }
	nb := func() rueidis.Builder { return rueidis.VerifNewBuilder(false) }

	checkSingle := func(s single, k string) {
		want := refSlot(k)
		run.Case(s.name+"|"+k, len(k) > 0)
		got, pan := guard(func() uint16 { return s.fn(cb(), k) })
		run.Observe("single_cluster", 1)
		if pan != nil {
			run.Violation("panic", s.name+"|cluster|"+q(k), map[string]any{"builder": s.name, "key": q(k), "panic": fmt.Sprint(pan)})
		} else if got != want {
			run.Violation("wrong-slot", s.name+"|cluster|"+q(k), map[string]any{"builder": s.name, "key": q(k), "got": got, "want": want, "hashed_part": q(refTag(k))})
		}
		got, pan = guard(func() uint16 { return s.fn(nb(), k) })
		run.Observe("single_noncluster", 1)
		if pan != nil {
			run.Violation("panic", s.name+"|noncluster|"+q(k), map[string]any{"builder": s.name, "key": q(k), "panic": fmt.Sprint(pan)})
		} else if got&^noSlotBit != want {
			run.Violation("wrong-slot", s.name+"|noncluster|"+q(k), map[string]any{"builder": s.name, "key": q(k), "got": got, "want": want, "hashed_part": q(refTag(k))})
		}
	}

	// 1. exhaustive single-key spaces
	nExh := 0
	for a := 0; a < 256; a++ {
		for _, s := range singles {
			checkSingle(s, string([]byte{byte(a)}))
		}
		nExh++
		for b := 0; b < 256; b++ {
			k := string([]byte{byte(a), byte(b)})
			// the two general-purpose paths for every key, the other builders in rotation
			checkSingle(singles[0], k)
			checkSingle(singles[4], k)
			checkSingle(singles[1+(a*256+b)%(len(singles)-1)], k)
			nExh++
		}
	}
	for _, k := range braceAlphabet {
		for _, s := range singles {
			checkSingle(s, k)
		}
		nExh++
	}
	run.Extra("exhaustive_subspaces", map[string]any{"keys_of_1_and_2_bytes": 256 + 65536, "strings_over_{}x_up_to_len_6": len(braceAlphabet), "keys_enumerated": nExh})
	run.Sample(map[string]any{"key": "{}{x}", "hashed_part": refTag("{}{x}"), "slot": refSlot("{}{x}")})
	run.Sample(map[string]any{"key": "x{{x}}", "hashed_part": refTag("x{{x}}"), "slot": refSlot("x{{x}}")})

	// 2. random single keys
	kg := newKeygen(run.Rand("keys"))
	for i, n := 0, run.N(100000, 3000000); i < n; i++ {
		k := kg.randomKey(1024)
		checkSingle(singles[i%len(singles)], k)
		if i == 0 {
			run.Sample(map[string]any{"key": q(k), "hashed_part": q(refTag(k)), "slot": refSlot(k)})
		}
	}

	// 3. multi-key builders
	checkMulti := func(name string, keys []string, shape string, build func(b rueidis.Builder) uint16) {
		slots, differ := refSlots(keys)
		run.Case(name+"|"+strings.Join(keys, "\x00|"), len(keys) >= 2)
		key := name + "|" + qs(keys)
		w := map[string]any{"builder": name, "keys": qs(keys), "ref_slots": slots, "shape": shape}
		got, pan := guard(func() uint16 { return build(cb()) })
		switch {
		case differ && pan == nil:
			w["got_slot"] = got
			run.Violation("cross-slot-accepted", key, w)
		case differ && fmt.Sprint(pan) != slotErr:
			w["panic"] = fmt.Sprint(pan)
			run.Violation("other-panic", key, w)
		case !differ && pan != nil:
			w["panic"] = fmt.Sprint(pan)
			run.Violation("same-slot-rejected", key, w)
		case !differ && got != slots[0]:
			w["got_slot"] = got
			run.Violation("wrong-slot", key, w)
		}
		if differ {
			run.Observe("cluster_rejected", 1)
		} else {
			run.Observe("cluster_accepted", 1)
		}
		got, pan = guard(func() uint16 { return build(nb()) })
		run.Observe("noncluster_builds", 1)
		if pan != nil {
			w["panic"] = fmt.Sprint(pan)
			run.Violation("noncluster-panic", key, w)
		} else if !contains(slots, got&^noSlotBit) {
			w["got_slot"] = got
			run.Violation("noncluster-wrong-slot", key, w)
		}
	}

	rng := run.Rand("multi")
	for i, n := 0, run.N(200000, 6000000); i < n; i++ {
		m := multis[i%len(multis)]
		nk := m.min
		if !m.fixed {
			nk += rng.Intn(5)
		}
		keys, shape := kg.tuple(nk)
		checkMulti(m.name, keys, shape, func(b rueidis.Builder) uint16 { return m.fn(b, keys) })
		if i < 2 {
			s, d := refSlots(keys)
			run.Sample(map[string]any{"builder": m.name, "keys": qs(keys), "ref_slots": s, "must_reject": d})
		}
	}

	// 4. chains found by reflection
	g := buildGraph()
	chains := g.chains()
	multiChains := 0
	for _, c := range chains {
		if c.nk >= 2 {
			multiChains++
		}
	}
	run.Extra("reflection", map[string]any{"builder_roots": len(g.roots), "types": len(g.edges), "key_taking_methods": len(chains), "chains_with_2+_key_positions": multiChains,
		"methods_skipped_unsupported_args": g.skipped, "probe_other_panics": g.probeErr})
	if len(chains) < 100 || multiChains < 20 {
		fmt.Printf("BROKEN property=C18 reflection found only %d chains (%d multi-key)\n", len(chains), multiChains)
		t.Errorf("reflection discovery broken")
	}
	filler := func() string {
		return []string{"{f}", "v", "}{", "{}", "0"}[rng.Intn(5)]
	}
	rounds := run.N(60, 1500)
	for r := 0; r < rounds; r++ {
		for ci := range chains {
			c := &chains[ci]
			p := c.plan(rng.Intn)
			var keys []string
			shape := "single"
			if p.total >= 2 {
				keys, shape = kg.tuple(p.total)
			} else {
				keys = []string{kg.randomKey(256)}
			}
			useCache := c.cache && r%2 == 1
			name := "reflect:" + c.name
			if useCache {
				name += ".Cache"
			} else {
				name += ".Build"
			}
			// identical non-key arguments for both builders
			var fills []string
			fi := 0
			fl := func() string {
				if fi == len(fills) {
					fills = append(fills, filler())
				}
				fi++
				return fills[fi-1]
			}
			if p.total >= 2 {
				checkMulti(name, keys, shape, func(b rueidis.Builder) uint16 {
					fi = 0
					o := c.exec(b, p, keys, fl, useCache)
					if o.pan != nil {
						panic(o.pan)
					}
					return o.slot
				})
				run.Observe("reflected_multi", 1)
			} else {
				checkSingle(single{name, func(b rueidis.Builder, k string) uint16 {
					fi = 0
					o := c.exec(b, p, []string{k}, fl, useCache)
					if o.pan != nil {
						panic(o.pan)
					}
					return o.slot
				}}, keys[0])
				run.Observe("reflected_single", 1)
			}
			if r == 0 && (ci == 0 || ci == len(chains)/2) {
				s, d := refSlots(keys)
				run.Sample(map[string]any{"builder": name, "keys": qs(keys), "ref_slots": s, "must_reject": d})
			}
		}
	}
	run.Require("cluster_rejected", "cluster_accepted", "noncluster_builds", "reflected_multi", "reflected_single")
}
