package c18

import (
	"fmt"
	"reflect"
	"sort"

	"github.com/redis/rueidis"
)

// Discovery of command-builder chains by reflection over rueidis.Builder.
//
// Every incomplete-command type of the generated builder API has the same underlying
// struct, so a value of one type can be converted (reflect.Value.Convert) to any other.
// That is used to probe a single method in isolation: a value whose slot is already that
// of "{t}" is converted to the receiver type and the method is called with "{u}" (another
// slot) at one string position and "{t}…" at all other string positions. The position is
// a KEY position iff the cluster builder rejects that call with the documented panic.
// Discovery only decides WHERE keys go; the oracle then checks, with an independent
// reference, WHEN chains built through those positions are rejected and which slot they carry.

const slotErr = "multi key command with different key slots are not allowed"

type edge struct {
	from   reflect.Type
	name   string
	idx    int // method index on from
	out    reflect.Type
	in     []reflect.Type // without receiver
	varia  bool
	keyPos []bool
	nk     int // number of key positions, a variadic / slice position counts as 2
}

type graph struct {
	seedType  reflect.Type
	completed reflect.Type
	cacheable reflect.Type
	roots     []edge // methods of Builder
	edges     map[reflect.Type][]*edge
	hasBuild  map[reflect.Type]int // method index of Build, -1 when absent
	hasCache  map[reflect.Type]int
	parent    map[reflect.Type]*edge // BFS tree from the roots (nil for root types)
	rootOf    map[reflect.Type]int   // index into roots for root types
	skipped   int                    // methods with unsupported argument kinds
	probeErr  int                    // probes that panicked with something else
}

func supportedArg(t reflect.Type) bool {
	switch t.Kind() {
	case reflect.String, reflect.Bool, reflect.Int, reflect.Int8, reflect.Int16, reflect.Int32, reflect.Int64,
		reflect.Uint, reflect.Uint8, reflect.Uint16, reflect.Uint32, reflect.Uint64, reflect.Float32, reflect.Float64:
		return true
	case reflect.Slice:
		return supportedArg(t.Elem()) && t.Elem().Kind() != reflect.Slice
	}
	return false
}

func isStringy(t reflect.Type) bool {
	return t.Kind() == reflect.String || (t.Kind() == reflect.Slice && t.Elem().Kind() == reflect.String)
}

// fill builds one argument of type t; strs supplies the strings for string-typed arguments.
func fill(t reflect.Type, strs []string, num int64) reflect.Value {
	v := reflect.New(t).Elem()
	switch t.Kind() {
	case reflect.String:
		v.SetString(strs[0])
	case reflect.Bool:
		v.SetBool(true)
	case reflect.Int, reflect.Int8, reflect.Int16, reflect.Int32, reflect.Int64:
		v.SetInt(num)
	case reflect.Uint, reflect.Uint8, reflect.Uint16, reflect.Uint32, reflect.Uint64:
		v.SetUint(uint64(num))
	case reflect.Float32, reflect.Float64:
		v.SetFloat(float64(num) + 0.5)
	case reflect.Slice:
		if t.Elem().Kind() == reflect.String {
			s := reflect.MakeSlice(t, len(strs), len(strs))
			for i, x := range strs {
				s.Index(i).SetString(x)
			}
			return s
		}
		s := reflect.MakeSlice(t, 1, 1)
		s.Index(0).Set(fill(t.Elem(), strs, num))
		return s
	}
	return v
}

// call invokes method idx of recv; args[i] is the value for parameter i (a slice value for the variadic one).
func call(recv reflect.Value, idx int, varia bool, args []reflect.Value) (out reflect.Value, pan any) {
	defer func() {
		if p := recover(); p != nil {
			pan = p
		}
	}()
	m := recv.Method(idx)
	var res []reflect.Value
	if varia {
		res = m.CallSlice(args)
	} else {
		res = m.Call(args)
	}
	if len(res) > 0 {
		out = res[0]
	}
	return
}

func (g *graph) incompleteLike(t reflect.Type) bool {
	if t.Kind() != reflect.Struct || t == g.completed || t == g.cacheable {
		return false
	}
	if _, ok := t.FieldByName("ks"); !ok {
		return false
	}
	return t.ConvertibleTo(g.seedType) && g.seedType.ConvertibleTo(t)
}

func (g *graph) seed(t reflect.Type, cluster bool) reflect.Value {
	return reflect.ValueOf(rueidis.VerifNewBuilder(cluster).Get().Key("{t}")).Convert(t)
}

// probe finds the key positions of one method. A string position is a key position when a cluster
// builder rejects a different-slot string there, or when a non-cluster builder takes its slot from it;
// either signal is enough, so that a method which lost one of the two behaviours is still exercised.
func (g *graph) probe(e *edge) {
	e.keyPos = make([]bool, len(e.in))
	slotT, slotU := refSlot("{t}"), refSlot("{u}")
	for p, pt := range e.in {
		if !isStringy(pt) {
			continue
		}
		mk := func() []reflect.Value {
			args := make([]reflect.Value, len(e.in))
			for i, it := range e.in {
				s := fmt.Sprintf("{t}a%d", i)
				if i == p {
					s = "{u}"
				}
				args[i] = fill(it, []string{s}, 1)
			}
			return args
		}
		isKey := false
		_, pan := call(g.seed(e.from, true), e.idx, e.varia, mk())
		if s, ok := pan.(string); ok && s == slotErr {
			isKey = true
		} else if pan != nil {
			g.probeErr++
		}
		out, pan := call(g.seed(e.from, false), e.idx, e.varia, mk())
		if pan != nil {
			g.probeErr++
		} else if ks := uint16(out.FieldByName("ks").Uint()) &^ (1 << 15); ks == slotU && ks != slotT {
			isKey = true
		}
		if isKey {
			e.keyPos[p] = true
			if pt.Kind() == reflect.Slice {
				e.nk += 2
			} else {
				e.nk++
			}
		}
	}
}

func buildGraph() *graph {
	g := &graph{edges: map[reflect.Type][]*edge{}, hasBuild: map[reflect.Type]int{}, hasCache: map[reflect.Type]int{},
		parent: map[reflect.Type]*edge{}, rootOf: map[reflect.Type]int{}}
	g.seedType = reflect.TypeOf(rueidis.VerifNewBuilder(true).Get().Key("x"))
	g.completed = reflect.TypeOf(rueidis.Completed{})
	g.cacheable = reflect.TypeOf(rueidis.Cacheable{})
	bt := reflect.TypeOf(rueidis.Builder{})
	var queue []reflect.Type
	for i := 0; i < bt.NumMethod(); i++ {
		m := bt.Method(i)
		if m.Type.NumOut() != 1 || !g.incompleteLike(m.Type.Out(0)) {
			continue
		}
		e := edge{from: bt, name: m.Name, idx: i, out: m.Type.Out(0), varia: m.Type.IsVariadic()}
		ok := true
		for k := 1; k < m.Type.NumIn(); k++ {
			e.in = append(e.in, m.Type.In(k))
			ok = ok && supportedArg(m.Type.In(k))
		}
		if !ok {
			g.skipped++
			continue
		}
		e.keyPos = make([]bool, len(e.in))
		g.roots = append(g.roots, e)
		if _, seen := g.rootOf[e.out]; !seen {
			g.rootOf[e.out] = len(g.roots) - 1
			g.parent[e.out] = nil
			queue = append(queue, e.out)
		}
	}
	for len(queue) > 0 {
		t := queue[0]
		queue = queue[1:]
		g.hasBuild[t], g.hasCache[t] = -1, -1
		for i := 0; i < t.NumMethod(); i++ {
			m := t.Method(i)
			if m.Type.NumOut() != 1 {
				continue
			}
			out := m.Type.Out(0)
			if m.Type.NumIn() == 1 && m.Name == "Build" && out == g.completed {
				g.hasBuild[t] = i
				continue
			}
			if m.Type.NumIn() == 1 && m.Name == "Cache" && out == g.cacheable {
				g.hasCache[t] = i
				continue
			}
			if !g.incompleteLike(out) {
				continue
			}
			e := &edge{from: t, name: m.Name, idx: i, out: out, varia: m.Type.IsVariadic()}
			ok := true
			for k := 1; k < m.Type.NumIn(); k++ {
				e.in = append(e.in, m.Type.In(k))
				ok = ok && supportedArg(m.Type.In(k))
			}
			if !ok {
				g.skipped++
				continue
			}
			g.probe(e)
			g.edges[t] = append(g.edges[t], e)
			if _, seen := g.parent[out]; !seen {
				g.parent[out] = e
				queue = append(queue, out)
			}
		}
	}
	return g
}

// chain is one complete builder chain: Builder.root(...).m1(...)...mk(...).Build()
type chain struct {
	root  edge
	steps []*edge
	nk    int  // total key positions weight
	cache bool // final type also offers Cache()
	name  string
}

// prefix returns the edges leading from a root type to t along the BFS tree.
func (g *graph) prefix(t reflect.Type) (root edge, steps []*edge) {
	for {
		e := g.parent[t]
		if e == nil {
			return g.roots[g.rootOf[t]], steps
		}
		steps = append([]*edge{e}, steps...)
		t = e.from
	}
}

// suffix finds a shortest sequence of edges from t to a type offering Build() that passes at least need more key positions.
func (g *graph) suffix(t reflect.Type, need int) ([]*edge, bool) {
	type st struct {
		t   reflect.Type
		got int
	}
	type link struct {
		prev st
		e    *edge
	}
	start := st{t, 0}
	prev := map[st]link{start: {}}
	q := []st{start}
	for len(q) > 0 {
		s := q[0]
		q = q[1:]
		if s.got >= need && g.hasBuild[s.t] >= 0 {
			var out []*edge
			for s != start {
				l := prev[s]
				out = append([]*edge{l.e}, out...)
				s = l.prev
			}
			return out, true
		}
		for _, e := range g.edges[s.t] {
			n := st{e.out, min(need, s.got+e.nk)}
			if _, seen := prev[n]; !seen {
				prev[n] = link{s, e}
				q = append(q, n)
			}
		}
	}
	return nil, false
}

// chains returns one chain per key-taking method found, preferring chains that pass >= 2 key positions.
func (g *graph) chains() []chain {
	var out []chain
	var types []reflect.Type
	for t := range g.edges {
		types = append(types, t)
	}
	sort.Slice(types, func(i, j int) bool { return types[i].Name() < types[j].Name() })
	for _, t := range types {
		for _, e := range g.edges[t] {
			if e.nk == 0 {
				continue
			}
			root, pre := g.prefix(t)
			have := e.nk
			for _, p := range pre {
				have += p.nk
			}
			var suf []*edge
			ok := false
			for need := max(0, 2-have); need >= 0 && !ok; need-- {
				suf, ok = g.suffix(e.out, need)
			}
			if !ok {
				continue
			}
			c := chain{root: root, steps: append(append(append([]*edge{}, pre...), e), suf...)}
			c.name = root.name
			last := root.out
			for _, s := range c.steps {
				c.nk += s.nk
				c.name += "." + s.name
				last = s.out
			}
			c.cache = g.hasCache[last] >= 0
			out = append(out, c)
		}
	}
	return out
}

// plan fixes how many keys each key position of a chain receives.
type plan struct {
	counts []int // per key position in chain order
	total  int
}

func (c *chain) plan(pick func(n int) int) plan {
	var p plan
	for _, s := range c.steps {
		for i, k := range s.keyPos {
			if !k {
				continue
			}
			n := 1
			if s.in[i].Kind() == reflect.Slice {
				n = 1 + pick(3)
				if c.nk >= 2 && n < 2 {
					n = 2
				}
			}
			p.counts = append(p.counts, n)
			p.total += n
		}
	}
	return p
}

type outcome struct {
	slot  uint16
	pan   any
	where string
}

// exec builds the chain on a cluster / non-cluster builder with the given keys; filler supplies non-key strings.
func (c *chain) exec(builder rueidis.Builder, p plan, keys []string, filler func() string, useCache bool) (o outcome) {
	b := reflect.ValueOf(builder)
	args := make([]reflect.Value, len(c.root.in))
	for i, it := range c.root.in {
		args[i] = fill(it, []string{"CMD"}, 1)
	}
	cur, pan := call(b, c.root.idx, c.root.varia, args)
	if pan != nil {
		return outcome{pan: pan, where: c.root.name}
	}
	kp, ki := 0, 0
	for _, s := range c.steps {
		args := make([]reflect.Value, len(s.in))
		for i, it := range s.in {
			if s.keyPos[i] {
				n := p.counts[kp]
				kp++
				args[i] = fill(it, keys[ki:ki+n], 1)
				ki += n
			} else {
				args[i] = fill(it, []string{filler()}, int64(p.total))
			}
		}
		cur, pan = call(cur, s.idx, s.varia, args)
		if pan != nil {
			return outcome{pan: pan, where: s.name}
		}
	}
	last := cur.Type()
	idx := -1
	if useCache {
		idx = cacheIdx(last)
	}
	if idx < 0 {
		idx = buildIdx(last)
	}
	res, pan := call(cur, idx, false, nil)
	if pan != nil {
		return outcome{pan: pan, where: "Build"}
	}
	switch v := res.Interface().(type) {
	case rueidis.Completed:
		return outcome{slot: v.Slot()}
	case rueidis.Cacheable:
		return outcome{slot: v.Slot()}
	}
	return outcome{pan: "harness: unexpected result type " + res.Type().String(), where: "Build"}
}

func buildIdx(t reflect.Type) int {
	m, _ := t.MethodByName("Build")
	return m.Index
}

func cacheIdx(t reflect.Type) int {
	if m, ok := t.MethodByName("Cache"); ok && m.Type.NumIn() == 1 {
		return m.Index
	}
	return -1
}
