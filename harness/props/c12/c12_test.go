package c12

import (
	"bufio"
	"bytes"
	"fmt"
	"strconv"
	"testing"

	"github.com/redis/rueidis"
	"verifh/drv"
	"verifh/mon"
	"verifh/resp"
)

// C12: RESP decoding reproduces every well-formed reply, for every split of the byte stream;
// streamTo writes exactly the payload of string/int/float replies.
func TestC12(t *testing.T) {
	run := mon.Start(t, "C12", "exploration",
		"random RESP2/RESP3 value trees (all types, nulls, attributes, streamed strings/aggregates, push frames, binary payloads) encoded by an independent encoder, "+
			"decoded by rueidis under 6 read-split plans and 4 bufio sizes; a case is distinct by its encoded bytes and non-trivial when it has nesting, attributes, streaming or a payload containing CR/LF")
	defer run.Finish()
	run.Assume("harness/resp encoder follows the RESP3 specification", "checkptr instrumentation active in -race builds only")
	rng := run.Rand("trees")
	n := run.N(6000, 200000)
	bufsizes := []int{32, 33, 64, 4096}
	for i := 0; i < n; i++ {
		o := resp.GenOpts{MaxDepth: 1 + rng.Intn(5), MaxWidth: 1 + rng.Intn(8), Attrs: true, Streams: true, Push: true, BigBlobs: i%7 == 0, RESP2: i%5 == 4}
		if i%97 == 0 {
			o.MaxWidth = 50
			o.MaxDepth = 2
		}
		// a sequence of 1..3 replies back to back (framing)
		k := 1 + rng.Intn(3)
		vs := make([]resp.V, k)
		var data []byte
		nontrivial := false
		for j := range vs {
			vs[j] = resp.Gen(rng, o)
			data = resp.Encode(data, vs[j])
			if vs[j].A != nil || vs[j].Attr != nil || vs[j].Stream || bytes.ContainsAny([]byte(vs[j].S), "\r\n") {
				nontrivial = true
			}
		}
		run.Case(string(data), nontrivial)
		if i < 3 {
			run.Sample(map[string]any{"wire": drv.Hexs(data)})
		}
		for s := 0; s < 6; s++ {
			sizes := drv.SplitPlan(rng, s)
			bs := bufsizes[(i+s)%len(bufsizes)]
			got, err := drv.DecodeAll(data, sizes, bs)
			run.Observe("decodes", 1)
			if err != nil {
				run.Violation("decode-error", fmt.Sprintf("%s split=%v buf=%d", drv.Hexs(data), sizes, bs), map[string]any{"wire": drv.Hexs(data), "err": err.Error(), "split": sizes, "bufsize": bs})
				break
			}
			bad := len(got) != len(vs)
			for j := 0; !bad && j < len(vs); j++ {
				if !drv.NodeEqual(got[j], drv.ExpectNode(vs[j])) {
					bad = true
				}
			}
			if bad {
				var gs, es []string
				for _, g := range got {
					gs = append(gs, drv.NodeString(g))
				}
				for _, v := range vs {
					es = append(es, drv.NodeString(drv.ExpectNode(v)))
				}
				run.Violation("decode-mismatch", fmt.Sprintf("%s split=%v buf=%d", drv.Hexs(data), sizes, bs), map[string]any{"wire": drv.Hexs(data), "got": gs, "want": es, "split": sizes, "bufsize": bs})
				break
			}
		}
		// streaming reads: for scalar replies streamTo must write the same payload a normal read returns
		for _, v := range vs {
			if v.Attr != nil || v.Null2 {
				continue
			}
			var want string
			switch v.T {
			case '$', '+', '=', ',', '(':
				want = v.S
			case ':':
				want = strconv.FormatInt(v.I, 10)
			default:
				continue
			}
			wire := resp.Encode(nil, v)
			for s := 0; s < 3; s++ {
				sizes := drv.SplitPlan(rng, s+i)
				var w bytes.Buffer
				r := bufio.NewReaderSize(&drv.ChunkReader{Data: append(append([]byte{}, wire...), "+TAIL\r\n"...), Sizes: sizes}, bufsizes[(i+s)%4])
				nn, err, clean := rueidis.VerifStreamTo(r, &w)
				run.Observe("streams", 1)
				if err != nil || !clean || w.String() != want || nn != int64(len(want)) {
					run.Violation("stream-mismatch", fmt.Sprintf("%s split=%v", drv.Hexs(wire), sizes), map[string]any{"wire": drv.Hexs(wire), "wrote": drv.Hexs(w.Bytes()), "want": drv.Hexs([]byte(want)), "n": nn, "err": fmt.Sprint(err), "clean": clean})
					break
				}
				// the stream must be left positioned at the next reply
				m, err := rueidis.VerifReadNextMessage(r)
				if d := rueidis.VerifDump(m); err != nil || d.Str != "TAIL" {
					run.Violation("stream-misframed", fmt.Sprintf("%s split=%v", drv.Hexs(wire), sizes), map[string]any{"wire": drv.Hexs(wire), "next": drv.NodeString(d), "err": fmt.Sprint(err)})
					break
				}
			}
		}
	}
}
