// Package c35 drives rueidisprob.BloomFilter (the real Lua scripts, run by fakeredis + minilua) over every
// (expectedNumberOfItems, falsePositiveRate) grid point the constructor accepts and decides
// "no false negatives, answers positional, Count monotonic" from what the calls returned.
package c35

import (
	"context"
	"fmt"
	"math"
	"math/rand"
	"sort"
	"strconv"
	"strings"
	"sync"
	"sync/atomic"
	"testing"
	"time"

	"github.com/redis/rueidis"
	"github.com/redis/rueidis/rueidisprob"
	"verifh/drv"
	"verifh/fakeredis"
	"verifh/mon"
	"verifh/resp"
)

const addr = "127.0.0.1:6379"

type cfg struct {
	n    uint
	rate float64
	ro   bool
}

func rateStr(r float64) string { return strconv.FormatFloat(r, 'g', -1, 64) }

func (c cfg) String() string { return fmt.Sprintf("n=%d rate=%s ro=%v", c.n, rateStr(c.rate), c.ro) }

// predictedBits is only used to decide how much memory a configuration needs (resource gating, never a verdict).
func predictedBits(n uint, r float64) float64 {
	return math.Ceil(-float64(n) * math.Log(r) / (math.Ln2 * math.Ln2))
}

// tap is what the monitor reads from the server's event stream.
type tap struct {
	mu        sync.Mutex
	addK      string // ARGV[1] (hashIterations) of the last add script invocation received by the server
	roEvals   int64
	bfSet     int64
	bfGet     int64
	bfGetRO   int64
	scriptRun int64
	capture   bool       // while set, the script invocations the server receives are kept (witness material only)
	got       [][]string // "<command> <ARGV...>" of the captured invocations
}

func (tp *tap) hook(e fakeredis.Event) {
	tp.mu.Lock()
	defer tp.mu.Unlock()
	switch e.Kind {
	case "recv":
		if len(e.Argv) < 3 {
			return
		}
		cmd := strings.ToUpper(e.Argv[0])
		if !strings.HasPrefix(cmd, "EVAL") {
			return
		}
		nk, err := strconv.Atoi(e.Argv[2])
		if err != nil || 3+nk >= len(e.Argv) {
			return
		}
		if strings.HasSuffix(cmd, "_RO") {
			tp.roEvals++
		}
		switch nk {
		case 2:
			tp.addK = e.Argv[3+nk]
		}
		if tp.capture && len(tp.got) < 8 {
			tp.got = append(tp.got, append([]string{cmd}, e.Argv[3+nk:]...))
		}
	case "script":
		tp.scriptRun++
	case "exec":
		if e.Note != "script" || len(e.Argv) < 3 {
			return
		}
		switch strings.ToUpper(e.Argv[0]) {
		case "BITFIELD":
			if strings.EqualFold(e.Argv[2], "SET") {
				tp.bfSet++
			} else {
				tp.bfGet++
			}
		case "BITFIELD_RO":
			tp.bfGetRO++
		}
	}
}

// heldClient is the rueidis.Client handed to the filter. Outside a concurrent round it passes everything through.
// During a round it can hold every participating call at one of the two points where a filter call touches the
// client interface - asking for a command builder (the call has prepared its script arguments, the command is not
// assembled yet) or handing the finished command over (assembled, not sent yet) - until all calls of the round have
// reached that point (or have returned), and then lets them continue together. It never reorders or changes anything.
type heldClient struct {
	rueidis.Client
	mu       sync.Mutex
	cond     *sync.Cond
	point    string // "" (nothing held), "B" or "Do"
	need     int    // calls in the round
	arrived  int
	finished int // calls that returned without reaching the point
	open     bool
	together int // calls that stood at the point when it opened
	forced   bool
	inflight atomic.Int64
	maxIn    atomic.Int64
}

func (h *heldClient) begin(point string, need int) {
	h.mu.Lock()
	h.point, h.need, h.arrived, h.finished, h.open, h.together, h.forced = point, need, 0, 0, point == "", 0, false
	h.mu.Unlock()
	h.maxIn.Store(0)
}

func (h *heldClient) release(forced bool) {
	h.mu.Lock()
	if !h.open {
		h.open, h.together, h.forced = true, h.arrived, forced
		h.cond.Broadcast()
	}
	h.mu.Unlock()
}

func (h *heldClient) at(point string) {
	h.mu.Lock()
	defer h.mu.Unlock()
	if h.open || h.point != point {
		return
	}
	h.arrived++
	if h.arrived+h.finished >= h.need {
		h.open, h.together = true, h.arrived
		h.cond.Broadcast()
		return
	}
	for !h.open {
		h.cond.Wait()
	}
}

// returned is called when a call of the round has come back: a call that never reached the point must not keep the others waiting.
func (h *heldClient) returned() {
	h.mu.Lock()
	h.finished++
	if !h.open && h.arrived+h.finished >= h.need {
		h.open, h.together = true, h.arrived
		h.cond.Broadcast()
	}
	h.mu.Unlock()
}

func (h *heldClient) B() rueidis.Builder {
	h.at("B")
	return h.Client.B()
}

func (h *heldClient) Do(ctx context.Context, cmd rueidis.Completed) rueidis.RedisResult {
	h.at("Do")
	n := h.inflight.Add(1)
	for {
		m := h.maxIn.Load()
		if n <= m || h.maxIn.CompareAndSwap(m, n) {
			break
		}
	}
	defer h.inflight.Add(-1)
	return h.Client.Do(ctx, cmd)
}

// cop is one call of a concurrent round: planned by the driver's goroutine, executed by its own goroutine, judged after all have returned.
type cop struct {
	kind   string // Add, AddMulti, Exists, ExistsMulti, Count
	keys   []string
	err    error
	res    []bool
	cnt    uint64
	panicV any
}

type driver struct {
	run *mon.Run
	rng *rand.Rand
	seq int
}

func (d *driver) fresh(prefix string) string {
	d.seq++
	switch d.rng.Intn(8) {
	case 0:
		b := make([]byte, 1+d.rng.Intn(24))
		d.rng.Read(b)
		return fmt.Sprintf("%s%d:", prefix, d.seq) + string(b)
	case 1:
		return fmt.Sprintf("%s%d:", prefix, d.seq) + strings.Repeat("x", 200+d.rng.Intn(1800))
	case 2:
		return fmt.Sprintf("%s%d:héllo 世界 \x00\r\n", prefix, d.seq)
	default:
		return fmt.Sprintf("%s%d", prefix, d.seq)
	}
}

// edgeItems are items that item-handling code is most likely to treat specially although the statement quantifies over
// every item alike: the empty string (which also hashes to h1=h2=0), NUL / whitespace / control-only items, one-byte
// items, items that read like numbers, nil or a RESP / Lua token, invalid UTF-8, and lengths around the 16-byte block
// size of the 128-bit hash.
var edgeItems = []string{
	" ", "\x00", "\x00\x00", "\n", "\r\n", "\t", "0", "1", "-1", "00", "a", "\xff", "\xc3\x28", "nil", "false", "+OK", "$-1", "*0", "1e3", "4294967296",
	strings.Repeat("\x00", 15), strings.Repeat("\x00", 16), strings.Repeat("\x00", 17), strings.Repeat("z", 15), strings.Repeat("z", 16),
	strings.Repeat("z", 17), strings.Repeat("z", 31), strings.Repeat("z", 32), strings.Repeat("z", 33),
}

var isEdge = func() map[string]bool {
	m := map[string]bool{"": true}
	for _, x := range edgeItems {
		m[x] = true
	}
	return m
}()

// item is fresh(prefix) most of the time and otherwise an edge item (half of those the empty string). Edge items are
// not unique: one may already be a member (then it is a re-add / a member query), the reference set decides.
func (d *driver) item(prefix string) string {
	if d.rng.Intn(7) != 0 {
		return d.fresh(prefix)
	}
	if d.rng.Intn(2) == 0 {
		return ""
	}
	return edgeItems[d.rng.Intn(len(edgeItems))]
}

// itemShape describes what is special about the item at position i of a call, for violation keys.
func itemShape(keys []string, i int) string {
	switch {
	case keys[i] == "":
		return " item=empty-string"
	case isEdge[keys[i]]:
		return " item=edge:" + strconv.Quote(keys[i])
	}
	for _, x := range keys[:i] {
		if x == "" {
			return " item=after-an-empty-string-in-the-same-call"
		}
	}
	for _, x := range keys[:i] {
		if isEdge[x] {
			return " item=after-an-edge-item-in-the-same-call"
		}
	}
	return ""
}

type opRec struct {
	Op   string   `json:"op"`
	Keys []string `json:"keys,omitempty"`
	Res  string   `json:"res,omitempty"`
}

func short(keys []string) []string {
	out := make([]string, 0, len(keys))
	for i, k := range keys {
		if i == 12 {
			out = append(out, fmt.Sprintf("…(%d keys)", len(keys)))
			break
		}
		if len(k) > 40 {
			k = k[:40] + "…"
		}
		out = append(out, strconv.Quote(k))
	}
	return out
}

// guard runs f and turns a panic of the code under test into a violation.
func (d *driver) guard(key, op string, f func()) (panicked bool) {
	defer func() {
		if p := recover(); p != nil {
			panicked = true
			d.run.Violation("panic", key+" op="+op, map[string]any{"panic": fmt.Sprint(p)})
		}
	}()
	f()
	return false
}

// runConfig plays one random history on one accepted configuration. It returns the number of hash functions the
// client sent to the server ("" when unknown).
func (d *driver) runConfig(c cfg, nops int, big bool) string {
	run := d.run
	srv := fakeredis.New(fakeredis.Options{NoLog: true, Seed: run.Seed}, addr)
	defer srv.Close()
	tp := &tap{}
	srv.OnEvent = tp.hook
	opt := drv.Option(srv, addr)
	opt.DisableCache = true
	// no wall-clock dependence: on a loaded machine the first BITFIELD into a 2^29-bit filter can outlast the default 10s
	// read deadline, which used to end that history early (recorded as inconclusive) at a load-dependent point
	opt.ConnWriteTimeout = 10 * time.Minute
	client, err := rueidis.NewClient(opt)
	if err != nil {
		run.Inconclusive("client: " + err.Error())
		return ""
	}
	defer client.Close()
	var opts []rueidisprob.BloomFilterOptionFunc
	if c.ro {
		opts = append(opts, rueidisprob.WithEnableReadOperation(true))
	}
	hc := &heldClient{Client: client, open: true}
	hc.cond = sync.NewCond(&hc.mu)
	bf, err := rueidisprob.NewBloomFilter(hc, "c35", c.n, c.rate, opts...)
	if err != nil {
		run.Inconclusive("constructor accepted in the dry run but not now: " + err.Error())
		return ""
	}
	ctx := context.Background()
	base := fmt.Sprintf("n=%d rate=%s", c.n, rateStr(c.rate))
	members := map[string]bool{}
	var memberList []string
	var hist []opRec
	lastCount, haveCount := uint64(0), false
	maxItems := 16
	if big {
		maxItems = 3
	}
	k := ""
	shape := ""
	key := func() string { return fmt.Sprintf("%s hashes=%s%s", base, k, shape) }
	note := func(op string, keys []string, res string) {
		hist = append(hist, opRec{Op: op, Keys: short(keys), Res: res})
		if len(hist) > 18 {
			hist = hist[len(hist)-18:]
		}
	}
	fail := func(op string, err error) {
		run.Inconclusive(fmt.Sprintf("%s returned an error (unsupported by the fake server or outside the property): %v", op, err))
		run.Observe("op_errors", 1)
	}
	pickMember := func() string { return memberList[d.rng.Intn(len(memberList))] }
	var checkMulti func(keys []string) bool
	refuse := "" // when set, the server answers the next add script with this error reply instead of running it
	add := func(keys []string, multi bool) bool {
		var err error
		op := "Add"
		var rule *fakeredis.Rule
		refused := refuse
		refuse = ""
		if refused != "" {
			v := resp.Err(refused)
			rule = srv.Plan(&fakeredis.Rule{Name: "refuse-add", Times: 1, Action: fakeredis.Action{Reply: &v},
				Match: func(_ *fakeredis.Conn, a []string) bool {
					return len(a) > 5 && strings.HasPrefix(strings.ToUpper(a[0]), "EVAL") && a[2] == "2"
				}})
			defer srv.ClearPlan()
		}
		if d.guard(key(), op, func() {
			if multi {
				op = "AddMulti"
				err = bf.AddMulti(ctx, keys)
			} else {
				err = bf.Add(ctx, keys[0])
			}
		}) {
			return false
		}
		fired := rule != nil && srv.RuleFired(rule) > 0
		if err != nil {
			if fired { // the server refused the add and the caller was told: nothing was added
				note(op, keys, "refused: "+err.Error())
				run.Observe("adds_refused_by_server_and_reported", 1)
				return true
			}
			fail(op, err)
			return false
		}
		if rule != nil && !fired {
			run.Inconclusive("the fault rule for the add script did not fire")
			return false
		}
		note(op, keys, "ok")
		for _, x := range keys {
			if !members[x] {
				members[x] = true
				memberList = append(memberList, x)
			}
		}
		if fired {
			// the server answered the add script with an error reply, yet the call reported success: by the statement the items
			// now count as added, so they must be present
			run.Observe("adds_refused_by_server_but_reported_successful", 1)
			shape = " add-answered-with-error-reply=" + strings.SplitN(refused, " ", 2)[0]
			note("(server replied)", nil, refused)
			ok := checkMulti(keys[:min(len(keys), maxItems)])
			shape = ""
			return ok
		}
		run.Observe("adds", 1)
		run.Observe("items_added", int64(len(keys)))
		for i, x := range keys {
			if x == "" {
				run.Observe("empty_items_added", 1)
				if multi && len(keys) > 1 {
					run.Observe("empty_items_added_inside_batches", 1)
					if i < len(keys)-1 {
						run.Observe("empty_items_added_before_other_batch_items", 1)
					}
				}
			} else if isEdge[x] {
				run.Observe("edge_items_added", 1)
			}
		}
		tp.mu.Lock()
		k = tp.addK
		tp.mu.Unlock()
		if kv, err := strconv.Atoi(k); err == nil && kv > 0 && 4000/kv < maxItems {
			maxItems = max(1, 4000/kv)
		}
		return true
	}
	checkMulti = func(keys []string) bool {
		var res []bool
		var err error
		if d.guard(key(), "ExistsMulti", func() { res, err = bf.ExistsMulti(ctx, keys) }) {
			return false
		}
		if err != nil {
			fail("ExistsMulti", err)
			return false
		}
		nm, nn := 0, 0
		for _, x := range keys {
			if members[x] {
				nm++
			} else {
				nn++
			}
		}
		note("ExistsMulti", keys, fmt.Sprint(res))
		run.Case(fmt.Sprintf("%s ro=%v k=%s ExistsMulti m=%d a=%d", base, c.ro, k, min(nm, 6), min(nn, 6)), nm > 0)
		if len(res) != len(keys) {
			run.Violation("misaligned-answers", key()+" ExistsMulti", map[string]any{"config": c.String(), "keys": short(keys), "answers": res, "history": hist})
			return false
		}
		emptyBefore, edgeBefore := false, false // an empty / edge item stands earlier in this call
		for i, x := range keys {
			if members[x] {
				run.Observe("member_answers_checked", 1)
				if nn > 0 {
					run.Observe("multi_positions_checked", 1)
				}
				switch {
				case x == "":
					run.Observe("empty_item_member_answers_checked", 1)
				case isEdge[x]:
					run.Observe("edge_item_member_answers_checked", 1)
				}
				if x != "" && emptyBefore {
					run.Observe("member_answers_checked_after_an_empty_item_in_the_call", 1)
				} else if !isEdge[x] && edgeBefore {
					run.Observe("member_answers_checked_after_an_edge_item_in_the_call", 1)
				}
				if !res[i] {
					run.Violation("false-negative", key()+itemShape(keys, i), map[string]any{"config": c.String(), "call": "ExistsMulti", "position": i, "key": strconv.Quote(x), "keys": short(keys), "answers": res, "history": hist})
					return false
				}
			} else if res[i] {
				run.Observe("false_positives", 1)
			} else {
				run.Observe("true_negatives", 1)
			}
			emptyBefore = emptyBefore || x == ""
			edgeBefore = edgeBefore || isEdge[x]
		}
		return true
	}
	checkOne := func(x string) bool {
		var res bool
		var err error
		if d.guard(key(), "Exists", func() { res, err = bf.Exists(ctx, x) }) {
			return false
		}
		if err != nil {
			fail("Exists", err)
			return false
		}
		note("Exists", []string{x}, fmt.Sprint(res))
		run.Case(fmt.Sprintf("%s ro=%v k=%s Exists member=%v", base, c.ro, k, members[x]), members[x])
		if members[x] {
			run.Observe("member_answers_checked", 1)
			switch {
			case x == "":
				run.Observe("empty_item_member_answers_checked", 1)
			case isEdge[x]:
				run.Observe("edge_item_member_answers_checked", 1)
			}
			if !res {
				run.Violation("false-negative", key()+itemShape([]string{x}, 0), map[string]any{"config": c.String(), "call": "Exists", "key": strconv.Quote(x), "answer": res, "history": hist})
				return false
			}
		} else if res {
			run.Observe("false_positives", 1)
		} else {
			run.Observe("true_negatives", 1)
		}
		return true
	}
	checkCount := func() bool {
		var cnt uint64
		var err error
		if d.guard(key(), "Count", func() { cnt, err = bf.Count(ctx) }) {
			return false
		}
		if err != nil {
			fail("Count", err)
			return false
		}
		note("Count", nil, fmt.Sprint(cnt))
		run.Case(fmt.Sprintf("%s ro=%v k=%s Count prev=%v", base, c.ro, k, haveCount && lastCount > 0), haveCount && lastCount > 0)
		run.Observe("count_checks", 1)
		if haveCount && cnt < lastCount {
			run.Violation("count-decreased", key(), map[string]any{"config": c.String(), "previous": lastCount, "now": cnt, "history": hist})
			return false
		}
		lastCount, haveCount = cnt, true
		return true
	}
	wipe := func(op string) bool {
		var err error
		if d.guard(key(), op, func() {
			if op == "Reset" {
				err = bf.Reset(ctx)
			} else {
				err = bf.Delete(ctx)
			}
		}) {
			return false
		}
		if err != nil {
			fail(op, err)
			return false
		}
		note(op, nil, "ok")
		members = map[string]bool{}
		memberList = nil
		lastCount, haveCount = 0, false
		run.Observe("resets_and_deletes", 1)
		return true
	}

	// concurrentRound: 2-5 goroutines call Add / AddMulti / Exists / ExistsMulti / Count on this ONE filter value at the same
	// time, with single-key and 2-3-key calls (a BloomFilter is meant to be shared by goroutines like the client it wraps).
	// The calls either run freely or are held together at one of the two points where a filter call touches the client
	// interface (see heldClient), so that every call of the round is between "arguments prepared" and "command assembled"
	// (or between "assembled" and "sent") at the same moment. The oracle is the statement's and nothing more: a query
	// for an item whose add had RETURNED before the round began must say present; an item whose add returned nil in the
	// round must be present in queries made after the round; answers are per input key; a Count is never below one that
	// had returned before the round. What concurrent calls of one round see of each other is left open.
	concurrentRound := func() bool {
		g := 2 + d.rng.Intn(4)
		mode := []string{"held-before-command-building", "held-before-sending", "free-running"}[d.rng.Intn(3)]
		small := func() int { return 1 + d.rng.Intn(min(3, maxItems)) }
		query := func() string {
			if len(memberList) > 0 && d.rng.Intn(10) < 7 {
				return pickMember()
			}
			return d.item("absent")
		}
		ops := make([]*cop, g)
		var kinds []string
		for j := range ops {
			o := &cop{}
			switch p := d.rng.Intn(100); {
			case p < 35:
				o.kind = "Add"
				o.keys = []string{d.item("c")}
				if d.rng.Intn(8) == 0 && len(memberList) > 0 {
					o.keys[0] = pickMember()
				}
			case p < 50:
				o.kind = "AddMulti"
				o.keys = make([]string, small())
				for i := range o.keys {
					o.keys[i] = d.item("c")
				}
			case p < 75:
				o.kind = "Exists"
				o.keys = []string{query()}
			case p < 92:
				o.kind = "ExistsMulti"
				o.keys = make([]string, small())
				for i := range o.keys {
					o.keys[i] = query()
				}
			default:
				o.kind = "Count"
			}
			ops[j] = o
			kinds = append(kinds, o.kind)
		}
		sort.Strings(kinds)
		tp.mu.Lock()
		tp.capture, tp.got = true, nil
		tp.mu.Unlock()
		hc.begin(map[string]string{"held-before-command-building": "B", "held-before-sending": "Do", "free-running": ""}[mode], g)
		start := make(chan struct{})
		var wg sync.WaitGroup
		for _, o := range ops {
			wg.Add(1)
			go func(o *cop) {
				defer wg.Done()
				defer hc.returned()
				defer func() {
					if p := recover(); p != nil {
						o.panicV = p
					}
				}()
				<-start
				switch o.kind {
				case "Add":
					o.err = bf.Add(ctx, o.keys[0])
				case "AddMulti":
					o.err = bf.AddMulti(ctx, o.keys)
				case "Exists":
					var b bool
					b, o.err = bf.Exists(ctx, o.keys[0])
					o.res = []bool{b}
				case "ExistsMulti":
					o.res, o.err = bf.ExistsMulti(ctx, o.keys)
				case "Count":
					o.cnt, o.err = bf.Count(ctx)
				}
			}(o)
		}
		// not a verdict: should a call ever block before reaching the holding point, the others are let go eventually
		safety := time.AfterFunc(3*time.Minute, func() { hc.release(true) })
		close(start)
		wg.Wait()
		safety.Stop()
		hc.mu.Lock()
		together, forced := hc.together, hc.forced
		hc.mu.Unlock()
		maxIn := hc.maxIn.Load()
		hc.begin("", 0)
		tp.mu.Lock()
		got := tp.got
		tp.capture, tp.got = false, nil
		tp.mu.Unlock()

		shape = " concurrent-calls-on-one-filter(" + mode + ")"
		defer func() { shape = "" }()
		for _, o := range ops {
			res := "ok"
			switch {
			case o.panicV != nil:
				res = "panic: " + fmt.Sprint(o.panicV)
			case o.err != nil:
				res = "error: " + o.err.Error()
			case o.kind == "Count":
				res = fmt.Sprint(o.cnt)
			case o.res != nil:
				res = fmt.Sprint(o.res)
			}
			note("concurrently: "+o.kind, o.keys, res)
		}
		for _, a := range got {
			note("(server received "+a[0]+" with ARGV)", a[1:], "")
		}
		overlapped := together >= 2
		if mode == "free-running" {
			overlapped = maxIn >= 2
		}
		run.Observe("concurrent_rounds", 1)
		run.Observe("concurrent_rounds_"+strings.ReplaceAll(mode, "-", "_"), 1)
		run.Observe("concurrent_calls", int64(g))
		if forced {
			run.Observe("concurrent_rounds_released_by_the_safety_timer", 1)
		}
		if overlapped {
			run.Observe("concurrent_rounds_with_overlapping_calls", 1)
			run.Observe("concurrent_rounds_with_overlapping_calls_"+strings.ReplaceAll(mode, "-", "_"), 1)
		}
		for _, o := range ops {
			if o.panicV != nil {
				run.Violation("panic", key()+" op="+o.kind, map[string]any{"panic": fmt.Sprint(o.panicV), "history": hist})
				return false
			}
		}
		for _, o := range ops {
			if o.err != nil {
				fail(o.kind+" (concurrent round)", o.err)
				return false
			}
		}
		singles, memberQueries := 0, 0
		roundMax, sawCount := uint64(0), false
		for _, o := range ops {
			if len(o.keys) == 1 {
				singles++
			}
			switch o.kind {
			case "Exists", "ExistsMulti":
				if len(o.res) != len(o.keys) {
					run.Violation("misaligned-answers", key()+" "+o.kind, map[string]any{"config": c.String(), "keys": short(o.keys), "answers": o.res, "history": hist})
					return false
				}
				for i, x := range o.keys {
					if !members[x] { // not added before the round: nothing is demanded of this answer
						continue
					}
					memberQueries++
					run.Observe("member_answers_checked", 1)
					run.Observe("member_answers_checked_during_concurrent_calls", 1)
					if !o.res[i] {
						run.Violation("false-negative", key()+itemShape(o.keys, i), map[string]any{"config": c.String(), "call": o.kind + " (one of the concurrent calls; the item had been added before them)", "position": i, "key": strconv.Quote(x), "keys": short(o.keys), "answers": o.res, "history": hist})
						return false
					}
				}
			case "Count":
				run.Observe("count_checks", 1)
				run.Observe("count_checks_during_concurrent_calls", 1)
				if haveCount && o.cnt < lastCount {
					run.Violation("count-decreased", key(), map[string]any{"config": c.String(), "previous": lastCount, "now": o.cnt, "history": hist})
					return false
				}
				roundMax, sawCount = max(roundMax, o.cnt), true
			}
		}
		if sawCount { // every Count of the round has returned: later ones must not be below any of them
			if haveCount {
				roundMax = max(roundMax, lastCount)
			}
			lastCount, haveCount = roundMax, true
		}
		var added []string
		seen := map[string]bool{}
		for _, o := range ops {
			if o.kind != "Add" && o.kind != "AddMulti" {
				continue
			}
			run.Observe("adds", 1)
			run.Observe("adds_by_concurrent_calls", 1)
			run.Observe("items_added", int64(len(o.keys)))
			if len(o.keys) == 1 {
				run.Observe("single_item_adds_by_concurrent_calls", 1)
			}
			for _, x := range o.keys {
				if !seen[x] {
					seen[x] = true
					added = append(added, x)
				}
				if !members[x] {
					members[x] = true
					memberList = append(memberList, x)
				}
			}
		}
		if singles >= 2 && overlapped {
			run.Observe("concurrent_rounds_with_overlapping_single_item_calls", 1)
		}
		run.Case(fmt.Sprintf("%s ro=%v k=%s concurrent %s calls=%s", base, c.ro, k, mode, strings.Join(kinds, "+")), overlapped && (len(added) > 0 || memberQueries > 0))
		// every item whose add returned nil in the round must be present now
		for i := 0; i < len(added); i += maxItems {
			chunk := added[i:min(len(added), i+maxItems)]
			if len(chunk) == 1 && d.rng.Intn(2) == 0 {
				if !checkOne(chunk[0]) {
					return false
				}
			} else if !checkMulti(chunk) {
				return false
			}
			run.Observe("items_added_by_concurrent_calls_checked_afterwards", int64(len(chunk)))
		}
		return true
	}

	// the first operation is always a single Add: it tells the monitor how many hash functions the client uses
	if !add([]string{d.fresh("m")}, false) {
		return k
	}
	if !checkOne(memberList[0]) {
		return k
	}
	refusals := []string{"OOM command not allowed when used memory > 'maxmemory'.", "READONLY You can't write against a read only replica.",
		"WRONGTYPE Operation against a key holding the wrong kind of value", "ERR Error running script (call to f_0): @user_script:12: -MISCONF Redis is configured to save RDB snapshots"}
	for i := 0; i < nops; i++ {
		ok := true
		if d.rng.Intn(12) == 0 {
			refuse = refusals[d.rng.Intn(len(refusals))] // consumed by the next add, if that is what comes next
		}
		switch p := d.rng.Intn(100); {
		case p < 15 || len(memberList) == 0:
			x := d.item("m")
			if d.rng.Intn(6) == 0 && len(memberList) > 0 {
				x = pickMember() // re-adding is allowed
			}
			ok = add([]string{x}, false)
		case p < 35:
			n := 1 + d.rng.Intn(maxItems)
			keys := make([]string, n)
			for j := range keys {
				if d.rng.Intn(8) == 0 {
					keys[j] = pickMember()
				} else {
					keys[j] = d.item("m")
				}
			}
			if d.rng.Intn(5) == 0 {
				keys[len(keys)-1] = keys[0] // duplicate inside one call
			}
			ok = add(keys, true)
		case p < 50:
			ok = checkOne(pickMember())
		case p < 55:
			ok = checkOne(d.item("absent"))
		case p < 85:
			n := 1 + d.rng.Intn(maxItems)
			keys := make([]string, n)
			for j := range keys {
				if d.rng.Intn(3) == 0 {
					keys[j] = d.item("absent")
				} else {
					keys[j] = pickMember()
				}
			}
			ok = checkMulti(keys)
		case p < 95:
			ok = checkCount()
		case p < 98:
			ok = wipe("Reset")
		default:
			ok = wipe("Delete")
		}
		if ok && (i%20 == 19 || (nops > 2 && nops < 20 && i == nops-1)) {
			ok = concurrentRound()
		}
		if !ok {
			return k
		}
	}
	// final sweep over everything that must still be present, interleaved with absent keys
	sort.Strings(memberList)
	for i := 0; i < len(memberList); i += maxItems {
		chunk := append([]string(nil), memberList[i:min(len(memberList), i+maxItems)]...)
		chunk = append(chunk, d.fresh("absent"))
		d.rng.Shuffle(len(chunk), func(a, b int) { chunk[a], chunk[b] = chunk[b], chunk[a] })
		if !checkMulti(chunk) {
			return k
		}
	}
	checkCount()
	tp.mu.Lock()
	run.Observe("script_runs", tp.scriptRun)
	run.Observe("bitfield_set_in_scripts", tp.bfSet)
	run.Observe("bitfield_get_in_scripts", tp.bfGet)
	run.Observe("bitfield_ro_get_in_scripts", tp.bfGetRO)
	run.Observe("evalsha_ro_received", tp.roEvals)
	tp.mu.Unlock()
	return k
}

func TestC35(t *testing.T) {
	run := mon.Start(t, "C35", "exploration",
		"every grid point (expectedNumberOfItems in {0,1,2,3,10,100,1e4,1e6,1e7,+one near the 2^32-bit limit in the thorough tier} x falsePositiveRate in {5e-324,1e-300,1e-12,1e-6,0.01,0.5,0.7,0.7071,0.7072,0.75,0.9,0.99,0.999999,1-2^-53,1,1+2^-52,0,-0.5,NaN,+Inf} x read-only-script option) that NewBloomFilter accepts gets a random history of "+
			"Add/AddMulti (1-16 items, re-adds, duplicates, binary/long/unicode keys; about one item in seven is a degenerate item: the empty string (half of them) or a NUL/whitespace/one-byte/number-like/RESP-token/invalid-UTF-8/hash-block-boundary-length item, alone or at any position of a batch, as a member or as a never-added key)/Exists/ExistsMulti (members and fresh keys mixed in random positions)/Count/Reset/Delete against a reference set, about one add in five answered by the server with an error reply (OOM, READONLY, WRONGTYPE, script error) instead of being executed (an Add that returns nil then still counts as added), and after every 20th operation (and at the end of the short histories of the largest filters) a concurrent round: 2-5 goroutines calling Add/AddMulti/Exists/ExistsMulti (1-3 items)/Count on the one filter value at the same time, free-running or all held together where a call asks the client for a command builder or hands the finished command over (items added before the round must be reported present by the round's queries, items whose add returned nil in the round by queries after it), the shipped Lua scripts executed by fakeredis+minilua; plus a characterisation sweep (n x rate around 1/sqrt(2)) with one Add+Exists+ExistsMulti each; "+
			"a case = (n, rate, option, hash functions seen on the wire, call kind, how many members / fresh keys were queried), non-trivial when a member was queried (or Count had a positive predecessor)")
	defer run.Finish()
	run.Assume("fakeredis BITFIELD/BITFIELD_RO/SET/DEL/INCRBY/GET and minilua execute the shipped scripts as Redis 7 would (harness self tests)",
		"the number of hash functions of a configuration is read from ARGV[1] of the EVALSHA the server received, not from rueidisprob internals",
		"a BloomFilter value may be used by several goroutines at once, like the rueidis.Client it wraps; in a concurrent round only calls that had returned before another began are ordered (the oracle demands nothing about what overlapping calls see of each other)")
	d := &driver{run: run, rng: run.Rand("history")}

	ns := []uint{0, 1, 2, 3, 10, 100, 10_000, 1_000_000, 10_000_000}
	if !run.Quick() {
		ns = append(ns, 2_900_000_000)
	}
	rates := []float64{math.SmallestNonzeroFloat64, 1e-300, 1e-12, 1e-6, 0.01, 0.5, 0.7, 0.7071, 0.7072, 0.75, 0.9, 0.99, 0.999999, math.Nextafter(1, 0), 1, math.Nextafter(1, 2), 0, -0.5, math.NaN(), math.Inf(1)}
	maxBits := float64(uint64(1) << 30)
	if !run.Quick() {
		maxBits = float64(uint64(1) << 32)
	}
	nops := run.N(60, 1500)

	// constructor acceptance is observed on the real constructor (it does not touch the server)
	accept := func(n uint, r float64) (ok bool, err error) {
		defer func() {
			if p := recover(); p != nil {
				run.Violation("panic", fmt.Sprintf("n=%d rate=%s constructor", n, rateStr(r)), map[string]any{"panic": fmt.Sprint(p)})
				ok = false
			}
		}()
		_, err = rueidisprob.NewBloomFilter(nil, "probe", n, r)
		return err == nil, err
	}
	zero := map[string]bool{}
	rejected := map[string][]string{}
	for _, n := range ns {
		for _, r := range rates {
			ok, err := accept(n, r)
			if !ok {
				run.Observe("configs_rejected", 1)
				if err != nil {
					rejected[err.Error()] = append(rejected[err.Error()], fmt.Sprintf("n=%d rate=%s", n, rateStr(r)))
				}
				continue
			}
			bits := predictedBits(n, r)
			if bits > maxBits {
				run.Observe("accepted_configs_skipped_for_memory", 1)
				continue
			}
			for _, ro := range []bool{false, true} {
				c := cfg{n: n, rate: r, ro: ro}
				big := bits > float64(1<<26)
				ops := nops
				if big {
					ops = min(nops, 14)
				}
				k := d.runConfig(c, ops, big)
				run.Observe("configs_accepted_and_run", 1)
				if k == "0" {
					zero[fmt.Sprintf("n=%d rate=%s", n, rateStr(r))] = true
					run.Observe("zero_hash_function_configs", 1)
				}
				if !ro && ((n == 100 && (r == 0.01 || r == 0.9 || r == 1e-12)) || (n == 10_000_000 && r == 1e-12) || (n == 1 && r == 0.999999)) {
					run.Sample(map[string]any{"config": c.String(), "hash_functions_on_wire": k, "bits_predicted": bits, "ops": ops})
				}
			}
		}
	}

	// characterisation sweep: which accepted (n, rate) pairs are sent with 0 hash functions, and do they answer correctly?
	sweepN := []uint{1, 2, 3, 4, 5, 7, 10, 20, 50, 100, 1000, 10_000, 100_000, 1_000_000, 10_000_000}
	sweepR := []float64{0.5, 0.6, 0.7, 0.705, 0.7071, 0.70711, 0.7072, 0.71, 0.72, 0.73, 0.75, 0.78, 0.79, 0.8, 0.85, 0.9, 0.95, 0.99, 0.999, 0.999999, math.Nextafter(1, 0)}
	boundary := map[string]string{}
	mismatch := 0
	for _, n := range sweepN {
		first := ""
		for _, r := range sweepR {
			if ok, _ := accept(n, r); !ok {
				continue
			}
			k := d.runConfig(cfg{n: n, rate: r}, 2, false)
			run.Observe("sweep_configs", 1)
			// what the sizing formulas of the documentation give, for the evidence only
			pk := math.Round(predictedBits(n, r) / float64(n) * math.Ln2)
			if k != "" && k != strconv.FormatFloat(pk, 'f', 0, 64) {
				mismatch++
			}
			if k == "0" {
				zero[fmt.Sprintf("n=%d rate=%s", n, rateStr(r))] = true
				if first == "" {
					first = rateStr(r)
				}
			}
		}
		if first == "" {
			first = "none"
		}
		boundary[fmt.Sprintf("n=%d", n)] = "smallest swept rate with 0 hash functions: " + first
	}
	var zl []string
	for z := range zero {
		zl = append(zl, z)
	}
	sort.Strings(zl)
	run.Extra("zero_hash_function_configs", zl)
	run.Extra("zero_hash_function_boundary", boundary)
	run.Extra("zero_hash_function_rule", "hashes = round(bits/n*ln2) with bits = ceil(-n*ln(rate)/ln(2)^2) is 0 exactly when bits < n/(2 ln 2): rate > 2^-1/2 (0.70711) for large n, later for small n (n=2: rate >= 0.7865, n=3: >= 0.726), never for n=1")
	run.Extra("sizing_prediction_mismatches", mismatch)
	for why, l := range rejected {
		if len(l) > 8 {
			rejected[why] = append(l[:8:8], fmt.Sprintf("…(%d in total)", len(l)))
		}
	}
	run.Extra("rejected_configs", rejected)
	run.Require("member_answers_checked", "multi_positions_checked", "count_checks", "resets_and_deletes", "adds_refused_by_server_and_reported", "bitfield_set_in_scripts", "bitfield_get_in_scripts", "bitfield_ro_get_in_scripts", "evalsha_ro_received", "true_negatives",
		"empty_item_member_answers_checked", "member_answers_checked_after_an_empty_item_in_the_call", "edge_item_member_answers_checked",
		"concurrent_rounds_with_overlapping_calls", "concurrent_rounds_with_overlapping_single_item_calls", "concurrent_rounds_with_overlapping_calls_held_before_command_building",
		"items_added_by_concurrent_calls_checked_afterwards", "member_answers_checked_during_concurrent_calls")
}
