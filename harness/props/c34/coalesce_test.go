package c34

import (
	"bytes"
	"net"
	"os"
	"sync"
	"sync/atomic"
	"time"
)

// coalesceConn is the client's end of a connection on which everything the server sends within `delay` (virtual time:
// until the whole bubble has nothing more to do, then `delay`) arrives in ONE read, like replies and push messages that
// a server writes back to back and that travel in one segment. Only the receiving direction is changed.
type coalesceConn struct {
	net.Conn
	delay time.Duration
	mixed *int64 // counts reads that returned something else followed by an invalidation message

	mu      sync.Mutex
	buf     []byte
	err     error
	settled bool          // buf has not grown since the last wait
	rdl     time.Time     // read deadline
	dlCh    chan struct{} // closed when the read deadline changes
	sig     chan struct{} // data or an error arrived
}

func newCoalesce(c net.Conn, delay time.Duration, mixed *int64) *coalesceConn {
	cc := &coalesceConn{Conn: c, delay: delay, mixed: mixed, dlCh: make(chan struct{}), sig: make(chan struct{}, 1)}
	go cc.pump()
	return cc
}

// pump ends when the connection is closed by either side.
func (c *coalesceConn) pump() {
	b := make([]byte, 1<<16)
	for {
		n, err := c.Conn.Read(b)
		c.mu.Lock()
		if n > 0 {
			c.buf = append(c.buf, b[:n]...)
			c.settled = false
		}
		if err != nil {
			c.err = err
		}
		c.mu.Unlock()
		select {
		case c.sig <- struct{}{}:
		default:
		}
		if err != nil {
			return
		}
	}
}

func (c *coalesceConn) Read(p []byte) (int, error) {
	if len(p) == 0 {
		return 0, nil
	}
	for {
		c.mu.Lock()
		if len(c.buf) > 0 {
			if !c.settled {
				c.mu.Unlock()
				time.Sleep(c.delay) // what the server sends back to back arrives meanwhile
				c.mu.Lock()
				c.settled = true
			}
			n := copy(p, c.buf)
			c.buf = c.buf[n:]
			c.mu.Unlock()
			if p[0] != '>' && bytes.Contains(p[:n], []byte("\r\n>2\r\n$10\r\ninvalidate\r\n")) {
				atomic.AddInt64(c.mixed, 1)
			}
			return n, nil
		}
		if c.err != nil {
			err := c.err
			c.mu.Unlock()
			return 0, err
		}
		dl, ch := c.rdl, c.dlCh
		c.mu.Unlock()
		var tm <-chan time.Time
		var t *time.Timer
		if !dl.IsZero() {
			d := time.Until(dl)
			if d <= 0 {
				return 0, os.ErrDeadlineExceeded
			}
			t = time.NewTimer(d)
			tm = t.C
		}
		select {
		case <-c.sig:
		case <-ch:
		case <-tm:
			return 0, os.ErrDeadlineExceeded
		}
		if t != nil {
			t.Stop()
		}
	}
}

func (c *coalesceConn) setRead(t time.Time) {
	c.mu.Lock()
	c.rdl = t
	close(c.dlCh)
	c.dlCh = make(chan struct{})
	c.mu.Unlock()
}

func (c *coalesceConn) SetDeadline(t time.Time) error {
	c.setRead(t)
	return c.Conn.SetWriteDeadline(t)
}

func (c *coalesceConn) SetReadDeadline(t time.Time) error {
	c.setRead(t)
	return nil
}
