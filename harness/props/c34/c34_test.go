package c34

import (
	"context"
	"crypto/tls"
	"errors"
	"fmt"
	"math/rand"
	"net"
	"os"
	"runtime"
	"strings"
	"sync"
	"sync/atomic"
	"testing"
	"testing/synctest"
	"time"

	"github.com/redis/rueidis"
	"github.com/redis/rueidis/rueidislock"
	"verifh/drv"
	"verifh/fakeredis"
	"verifh/mon"
)

const addr = "127.0.0.1:6379"

// Lock names and key prefixes. The statement is quantified over lock names ("for a lock name"): the key of a lock is
// <prefix>:<index>:<name>, the name is caller data and may itself contain the separator, look like an index or a whole key,
// or contain bytes that are special to the protocol, to Lua or to glob patterns. Names are drawn from three classes; the
// oracles are the same for all of them (nothing in the statement depends on the spelling of the name).
const (
	namePlain     = "plain"
	nameSeparator = "separator" // contains ':' (the separator of the key layout)
	nameSpecial   = "special"   // no ':' but other unusual bytes / shapes
)

func nameClass(n string) string {
	if strings.Contains(n, ":") {
		return nameSeparator
	}
	for i := 0; i < len(n); i++ {
		if c := n[i]; !(c >= 'a' && c <= 'z' || c >= '0' && c <= '9') {
			return nameSpecial
		}
	}
	if n == "" || len(n) > 64 {
		return nameSpecial
	}
	return namePlain
}

// genName returns the i-th lock name of a history (names of one history are distinct: every shape embeds i, except the
// empty name that is only used for i == 0).
func genName(r *rand.Rand, i int, pfx string) string {
	switch k := r.Intn(20); {
	case k < 7:
		return fmt.Sprintf("n%d", i)
	case k < 16:
		shapes := []string{
			"tenant:%d",              // one separator
			"a:b:c%d",                // several
			":lead%d",                // leading
			"trail%d:",               // trailing
			"dbl::%d",                // empty segment
			"%d:7",                   // segments that look like key indexes
			"0:n%d",                  // looks like <index>:<name>
			pfx + ":0:n%d",           // looks like a whole lock key
			pfx + ":%d",              // prefix and something
			"x%d:" + pfx + ":1:y",    // a key-like tail
			"job:{%d}:run",           // with a hash tag
			"sp ace:%d:\u00e9\u4e16", // mixed with other unusual bytes
		}
		return fmt.Sprintf(shapes[r.Intn(len(shapes))], i)
	default:
		shapes := []string{"sp ace %d", "uni-\u00e9\u4e16%d", "{tag}%d", "glob*?[a-z]%d", "quo\"te'%d", "cr\r\nlf%d", "nul\x00%d", "back\\slash%d", "-%d", "UPPER%d", "",
			strings.Repeat("long", 80) + "%d"}
		s := shapes[r.Intn(len(shapes))]
		if s == "" {
			if i == 0 {
				return ""
			}
			s = "%d"
		}
		if !strings.Contains(s, "%d") {
			return s
		}
		return fmt.Sprintf(s, i)
	}
}

func genPrefix(r *rand.Rand) string {
	switch r.Intn(10) {
	case 0, 1:
		return "app:lk" // a prefix that contains the separator itself
	case 2:
		return "lk:v2:"
	case 3:
		return "{lk}"
	}
	return "lk"
}

// guard is a real-time guard around one bubble (a spinning bubble never advances virtual time): harness trouble, never a verdict.
func guard(name string) func() {
	t := time.AfterFunc(300*time.Second, func() {
		buf := make([]byte, 1<<20)
		buf = buf[:runtime.Stack(buf, true)]
		fmt.Printf("BROKEN property=C34 bubble %s did not end (real-time guard)\n%s\n", name, buf)
		os.Exit(2)
	})
	return func() { t.Stop() }
}

type holder struct {
	id      int
	locker  int
	name    string
	ctx     context.Context
	val     string
	how     string // with | try | force
	faulted bool   // a connection of its locker was killed while it was being acquired or held
	prev    int    // locker of the previous holder of the same name in this history (-1: none)
	at      time.Time
}

type keyState struct {
	val    string
	locker int // -1: written by the driver
}

type world struct {
	run  *mon.Run
	srv  *fakeredis.Server
	name string
	cfg  string
	pfx  string // KeyPrefix of every locker of this history

	mu         sync.Mutex
	connOf     map[int64]int       // connection -> locker
	keys       map[string]keyState // lock key -> current value (from the server's exec events)
	holders    map[int]*holder     // live or recently live holders
	byVal      map[string]*holder  // lock value -> holder (once known)
	unclean    map[string]string   // lock name -> why exclusion / order are not asserted any more
	killEpoch  map[int]int         // locker -> number of connection kills so far
	when       map[int64]time.Time // seq -> virtual time
	waiting    map[string]int      // "locker/name" -> WithContext calls in progress
	lastLocker map[string]int      // lock name -> locker of the latest holder
	callers    map[int]int         // locker -> goroutines of this history that use it
	nextHolder int
	trace      []string
	stats      map[string]int64
	majority   int
	total      int
}

func (w *world) logf(format string, a ...any) {
	w.trace = append(w.trace, fmt.Sprintf("%v ", time.Now().Format("04:05.000"))+fmt.Sprintf(format, a...))
	if len(w.trace) > 300 {
		w.trace = w.trace[len(w.trace)-300:]
	}
}

// lockName is the driver's own reading of the key layout <prefix>:<index>:<name>: the index is a decimal number without
// ':' and everything after it belongs to the name.
func (w *world) lockName(key string) (string, bool) {
	if !strings.HasPrefix(key, w.pfx+":") {
		return "", false
	}
	p := strings.SplitN(key[len(w.pfx)+1:], ":", 2)
	if len(p) != 2 || p[0] == "" || strings.Trim(p[0], "0123456789") != "" {
		return "", false
	}
	return p[1], true
}

func (w *world) key(i int, name string) string { return fmt.Sprintf("%s:%d:%s", w.pfx, i, name) }

func (w *world) liveOn(name string) (out []*holder) {
	for _, h := range w.holders {
		if h.name == name && h.ctx.Err() == nil {
			out = append(out, h)
		}
	}
	return
}

func (w *world) markUnclean(name, why string) {
	if _, ok := w.unclean[name]; !ok {
		w.unclean[name] = why
		w.stats["premise_failed_windows"]++
		w.logf("window of %s unclean: %s", name, why)
	}
}

// onEvent runs under the server lock, synchronously with the execution of every command.
func (w *world) onEvent(e fakeredis.Event) {
	if e.Kind == "exec" || e.Kind == "push" || e.Kind == "expire" || e.Kind == "close" || e.Kind == "accept" {
		w.mu.Lock()
		w.when[e.Seq] = time.Now()
		w.mu.Unlock()
	}
	switch e.Kind {
	case "expire":
		if len(e.Argv) == 1 {
			if name, ok := w.lockName(e.Argv[0]); ok {
				w.mu.Lock()
				ks := w.keys[e.Argv[0]]
				delete(w.keys, e.Argv[0])
				if h := w.byVal[ks.val]; (h != nil && h.ctx.Err() == nil) || (ks.locker >= 0 && len(w.liveOn(name)) > 0) {
					w.markUnclean(name, "a lock key of a live holder expired by TTL")
				}
				w.stats["expire_events"]++
				w.logf("expire %s", e.Argv[0])
				w.mu.Unlock()
			}
		}
	case "exec":
		if len(e.Argv) < 2 {
			return
		}
		name, ok := w.lockName(e.Argv[1])
		if !ok {
			return
		}
		switch strings.ToUpper(e.Argv[0]) {
		case "SET":
			if e.Reply.T == '+' && len(e.Argv) >= 3 {
				w.mu.Lock()
				l := -1
				if e.Conn != 0 {
					l = w.connOf[e.Conn]
				}
				w.keys[e.Argv[1]] = keyState{val: e.Argv[2], locker: l}
				w.mu.Unlock()
			}
		case "DEL":
			if e.Reply.T == ':' && e.Reply.I == 1 {
				w.mu.Lock()
				ks := w.keys[e.Argv[1]]
				delete(w.keys, e.Argv[1])
				if e.Conn != 0 {
					w.stats["releases_seen"]++
					// (order) the release of a key of holder H is executed: H's context must already be done
					if h := w.byVal[ks.val]; h != nil && h.locker == w.connOf[e.Conn] {
						_, dirty := w.unclean[name]
						switch {
						case h.ctx.Err() != nil:
							w.stats["releases_after_done"]++
						case dirty || h.faulted:
							w.stats["releases_in_fault_window"]++
						default:
							w.run.Violation("key-released-while-context-live", fmt.Sprintf("%s|how=%s", w.cfg, h.how), map[string]any{"case": w.name, "key": e.Argv[1], "holder": h.id, "locker": h.locker,
								"seq": e.Seq, "trace": append([]string{}, w.trace...)})
						}
					}
				}
				w.mu.Unlock()
			}
		}
	}
}

// acquired registers a successful acquisition and checks exclusion at that instant.
func (w *world) acquired(locker int, name, how string, ctx context.Context, epoch int) *holder {
	w.mu.Lock()
	defer w.mu.Unlock()
	w.nextHolder++
	h := &holder{id: w.nextHolder, locker: locker, name: name, ctx: ctx, how: how, at: time.Now(), prev: -1}
	if pl, ok := w.lastLocker[name]; ok {
		h.prev = pl
	}
	w.lastLocker[name] = locker
	// which value is it? the one this locker wrote into a majority of the name's keys
	cnt := map[string]int{}
	for k, ks := range w.keys {
		if n, ok := w.lockName(k); ok && n == name && ks.locker == locker {
			cnt[ks.val]++
		}
	}
	for v, c := range cnt {
		if c >= w.majority && w.byVal[v] == nil {
			h.val = v
			w.byVal[v] = h
		}
	}
	if h.val == "" {
		w.stats["holder_value_unknown"]++
	}
	if w.killEpoch[locker] != epoch { // a kill happened during this call
		h.faulted = true
	}
	w.logf("holder %d: locker %d acquired %s via %s (val known=%v)", h.id, locker, name, how, h.val != "")
	w.stats["acquisitions"]++
	if how == "force" {
		w.markUnclean(name, "ForceWithContext was used")
	}
	w.checkExclusion(name, h, "acquisition-return")
	w.holders[h.id] = h
	return h
}

func (w *world) checkExclusion(name string, h *holder, where string) {
	live := w.liveOn(name)
	var ids []int
	conflict := false
	if h != nil {
		if h.ctx.Err() != nil {
			return
		}
		for _, o := range live {
			if o != h {
				conflict = true
			}
		}
	} else {
		conflict = len(live) >= 2
	}
	if !conflict {
		w.stats["exclusion_checks_"+where]++
		return
	}
	if _, dirty := w.unclean[name]; dirty {
		w.stats["overlaps_in_unclean_window"]++
		return
	}
	for _, o := range live {
		ids = append(ids, o.id)
		if o.faulted {
			w.stats["overlaps_with_faulted_holder"]++
			return
		}
	}
	if h != nil && h.faulted {
		w.stats["overlaps_with_faulted_holder"]++
		return
	}
	w.run.Violation("two-live-lock-contexts", w.cfg+"|"+where, map[string]any{"case": w.name, "name": name, "live_holders": ids, "new_holder": fmt.Sprintf("%+v", h), "trace": append([]string{}, w.trace...)})
}

type params struct {
	kind     string // chain | loss | force | expiry
	lockers  int
	majority int32
	noloop   bool
	setpx    bool
	nocache  bool
	names    int
	kills    int
	herd     bool // chain variant: 5 lockers x 2 goroutines, one name, many short holds: every release wakes all waiters and all but one fail
	seed     int64
	latency  time.Duration // early-loss: what the server sends within this (virtual) time arrives at the client in one read; 0 = plain pipe
}

func (p params) cfg() string {
	k := p.kind
	if p.herd {
		k = "herd"
	}
	return fmt.Sprintf("kind=%s majority=%d noloop=%v setpx=%v nocache=%v", k, p.majority, p.noloop, p.setpx, p.nocache)
}

func oneHistory(run *mon.Run, t *testing.T, idx int, p params) {
	name := fmt.Sprintf("h%d", idx)
	var fp string
	var nontrivial bool
	stop := guard(name)
	dl, stacks := drv.Bubble(t, func() { fp, nontrivial = history(run, name, p) })
	stop()
	if dl != "" {
		frames := drv.RueidisFrames(stacks)
		run.Violation("hang-or-leak", p.cfg()+"|"+strings.Join(frames, ";"), map[string]any{"case": name, "params": fmt.Sprintf("%+v", p), "synctest": dl, "rueidis_frames": frames, "stacks": drv.Tail(stacks, 16000)})
	}
	if fp != "" {
		run.Case(fp, nontrivial)
	}
}

func history(run *mon.Run, name string, p params) (string, bool) {
	rng := rand.New(rand.NewSource(p.seed))
	srv := fakeredis.New(fakeredis.Options{Seed: p.seed}, addr)
	defer srv.Close()
	node := srv.Node(addr)
	// names and prefix come from a stream of their own: the rest of the history (kinds, timing, faults) is the same function of
	// the seed as before names were varied
	nrng := rand.New(rand.NewSource(p.seed*31 + 17))
	pfx := genPrefix(nrng)
	w := &world{run: run, srv: srv, name: name, cfg: p.cfg(), pfx: pfx, connOf: map[int64]int{}, keys: map[string]keyState{}, holders: map[int]*holder{}, byVal: map[string]*holder{},
		unclean: map[string]string{}, killEpoch: map[int]int{}, when: map[int64]time.Time{}, waiting: map[string]int{}, lastLocker: map[string]int{}, callers: map[int]int{}, stats: map[string]int64{}, majority: int(p.majority), total: int(p.majority)*2 - 1}
	srv.OnEvent = w.onEvent

	validity, interval := 4*time.Second, time.Second
	switch p.kind {
	case "loss", "force", "early-loss":
		validity, interval = time.Hour, 30*time.Minute
		if p.nocache { // without invalidations a loss is only seen by the next extension: keep that near
			validity, interval = 20*time.Second, 10*time.Second
		}
	case "expiry":
		validity, interval = 2*time.Second, 5*time.Second
	}
	var mixedReads int64 // early-loss: reads of a client that returned a reply and an invalidation message after it
	var lockers []rueidislock.Locker
	for i := 0; i < p.lockers; i++ {
		i := i
		opt := drv.Option(srv, addr)
		opt.DialCtxFn = func(ctx context.Context, a string, _ *net.Dialer, _ *tls.Config) (net.Conn, error) {
			c, err := srv.Dial(ctx, a)
			if err == nil {
				w.mu.Lock()
				w.connOf[fakeredis.ConnID(c)] = i
				w.mu.Unlock()
				if p.kind == "early-loss" && p.latency > 0 {
					c = newCoalesce(c, p.latency, &mixedReads)
				}
			}
			return c, err
		}
		opt.DisableCache = p.nocache
		opt.Dialer.KeepAlive = time.Minute // fewer background PINGs over hours of virtual time
		l, err := rueidislock.NewLocker(rueidislock.LockerOption{ClientOption: opt, KeyPrefix: pfx, KeyValidity: validity, ExtendInterval: interval, KeyMajority: p.majority,
			NoLoopTracking: p.noloop, FallbackSETPX: p.setpx})
		if err != nil {
			run.Inconclusive("locker setup failed: " + err.Error())
			return "", false
		}
		lockers = append(lockers, l)
	}
	defer func() {
		for _, l := range lockers {
			l.Close()
		}
	}()
	names := make([]string, p.names)
	classes := map[string]string{}
	var classList []string
	for i := range names {
		names[i] = genName(nrng, i, pfx)
		classes[names[i]] = nameClass(names[i])
		classList = append(classList, classes[names[i]])
		run.Observe("lock_names_"+classes[names[i]], 1)
	}
	if strings.Contains(pfx, ":") {
		run.Observe("histories_key_prefix_with_separator", 1)
	}
	if pfx != "lk" {
		run.Observe("histories_key_prefix_unusual", 1)
	}
	// per-class counters of the events the verdicts rest on: a run must have produced them for names that contain the separator
	byClass := func(what, n string) {
		if c := classes[n]; c != namePlain {
			run.Observe(what+"_name_with_"+c, 1)
		}
	}
	// a waiter acquired after waiting behind a holder of ANOTHER locker: with client-side caching its wake-up can only have
	// come through an invalidation message for one of the name's keys (in polling mode it may have been the timer)
	crossWake := func(n string) {
		run.Observe("cross_locker_wakeups", 1)
		if !p.nocache {
			byClass("cross_locker_wakeups_by_invalidation", n)
		}
	}
	// a holder noticed the loss of its keys long before its next extension: with client-side caching only an invalidation told it
	lossNoticed := func(n string) {
		run.Observe("loss_noticed_promptly", 1)
		if !p.nocache {
			byClass("loss_noticed_by_invalidation", n)
		}
	}
	keyName := func(n string) string { // suffix of violation keys: which class of lock name the history used
		switch classes[n] {
		case nameSeparator:
			return "|lock-name=contains-separator"
		case nameSpecial:
			return "|lock-name=unusual-bytes"
		}
		return ""
	}

	// sampled instants
	stopSampler := make(chan struct{})
	var samplerDone sync.WaitGroup
	samplerDone.Add(1)
	go func() {
		defer samplerDone.Done()
		for {
			select {
			case <-stopSampler:
				return
			case <-time.After(130 * time.Millisecond):
			}
			w.mu.Lock()
			for _, n := range names {
				w.checkExclusion(n, nil, "sampled-instant")
			}
			w.mu.Unlock()
		}
	}()

	begin := func(l int) int {
		w.mu.Lock()
		defer w.mu.Unlock()
		return w.killEpoch[l]
	}
	release := func(h *holder, cancel context.CancelFunc) {
		cancel() // cancels the context, then waits until every key has been released
		w.mu.Lock()
		w.logf("holder %d released", h.id)
		w.mu.Unlock()
	}
	waitBound := 10 * time.Minute
	// a snapshot of the parked goroutines shortly before a waiter would give up, for the witness
	var snapMu sync.Mutex
	var snapshot string
	stopSnap := make(chan struct{})
	defer close(stopSnap)
	go func() {
		select {
		case <-stopSnap:
		case <-time.After(waitBound - 30*time.Second):
			buf := make([]byte, 1<<20)
			buf = buf[:runtime.Stack(buf, true)]
			var keep []string
			for _, g := range strings.Split(string(buf), "\n\n") {
				if strings.Contains(g, "rueidislock") || strings.Contains(g, "/repo/") {
					keep = append(keep, g)
				}
			}
			snapMu.Lock()
			snapshot = strings.Join(keep, "\n\n")
			snapMu.Unlock()
		}
	}()
	lostWakeup := func(l int, n string, waited time.Duration, err error) {
		w.mu.Lock()
		live := len(w.liveOn(n))
		tr := append([]string{}, w.trace...)
		w.mu.Unlock()
		var lg []string
		w.mu.Lock()
		conn := map[int64]int{}
		for c, lk := range w.connOf {
			conn[c] = lk
		}
		when := map[int64]time.Time{}
		for k, v := range w.when {
			when[k] = v
		}
		w.mu.Unlock()
		for _, e := range srv.Log() {
			if e.Kind == "recv" || e.Kind == "reply" || e.Kind == "script" || (len(e.Argv) > 0 && (e.Argv[0] == "PING" || e.Argv[0] == "HELLO" || e.Argv[0] == "CLIENT" || strings.HasPrefix(e.Argv[0], "EVAL") || e.Argv[0] == "PEXPIREAT")) {
				continue
			}
			if lk, ok := conn[e.Conn]; (!ok || lk != l) && !(len(e.Argv) > 0 && (e.Argv[0] == "DEL" || e.Argv[0] == "SET") && e.Reply.T != '$') {
				continue
			}
			lg = append(lg, fmt.Sprintf("%s %d L%d c%d %s %v %s %s", when[e.Seq].Format("04:05.000"), e.Seq, conn[e.Conn], e.Conn, e.Kind, e.Argv, e.Note, drv.Tail(e.Reply.String(), 80)))
		}
		if len(lg) > 600 {
			lg = lg[len(lg)-600:]
		}
		// the shape of the history, for the key: was an invalidation for this name pushed to the waiter's connection after
		// the waiter's last command (then the wake-up was delivered to the client and lost inside it), and how many calls
		// of the same locker were waiting for the same name
		lastCmd, pushAfter := int64(0), "no"
		evs := srv.Log()
		for _, e := range evs {
			if lk, ok := conn[e.Conn]; ok && lk == l && e.Kind == "exec" {
				lastCmd = e.Seq
			}
		}
		for _, e := range evs {
			if lk, ok := conn[e.Conn]; ok && lk == l && e.Kind == "push" && e.Seq > lastCmd && len(e.Reply.A) == 2 && e.Reply.A[0].S == "invalidate" {
				for _, k := range e.Reply.A[1].A {
					if nm, ok := w.lockName(k.S); ok && nm == n {
						pushAfter = "yes"
					}
				}
			}
		}
		w.mu.Lock()
		sibs := "1"
		if w.callers[l] > 1 {
			sibs = "2+"
		}
		w.mu.Unlock()
		tracking := "loop"
		if p.nocache {
			tracking = "nocache"
		} else if p.noloop {
			tracking = "noloop"
		}
		run.Violation("waiter-not-woken", fmt.Sprintf("tracking=%s goroutines-on-the-locker=%s invalidation-pushed-after-last-command=%s", tracking, sibs, pushAfter),
			map[string]any{"case": name, "config": p.cfg(), "locker": l, "name": n, "name_class": classes[n], "key_prefix": pfx, "waited_virtual": waited.String(), "err": fmt.Sprint(err), "live_holders_now": live, "trace": tr, "log": lg,
				"goroutines_30s_before": func() string { snapMu.Lock(); defer snapMu.Unlock(); return snapshot }()})
	}
	waitStart := func(l int, n string) {
		w.mu.Lock()
		w.waiting[fmt.Sprintf("%d/%s", l, n)]++
		w.mu.Unlock()
	}
	waitEnd := func(l int, n string) {
		w.mu.Lock()
		w.waiting[fmt.Sprintf("%d/%s", l, n)]--
		w.mu.Unlock()
	}

	contended := false
	earlyRounds := 0
	switch p.kind {
	case "chain":
		var wg sync.WaitGroup
		var cmu sync.Mutex
		for l := 0; l < p.lockers; l++ {
			gs := 1 + rng.Intn(2)
			if p.herd {
				gs = 2
			}
			w.mu.Lock()
			w.callers[l] = gs
			w.mu.Unlock()
			for g := 0; g < gs; g++ {
				wg.Add(1)
				seed := rng.Int63()
				go func(l int) {
					defer wg.Done()
					r := rand.New(rand.NewSource(seed))
					time.Sleep(time.Duration(r.Intn(30)) * time.Millisecond)
					rounds := 2 + r.Intn(2)
					if p.herd {
						rounds = 8 + r.Intn(4)
					}
					for round := 0; round < rounds; round++ {
						n := names[r.Intn(len(names))]
						try := r.Intn(5) == 0
						ctx, cancelSrc := context.WithTimeout(context.Background(), waitBound)
						start := time.Now()
						ep := begin(l)
						var lctx context.Context
						var cancel context.CancelFunc
						var err error
						how := "with"
						if try {
							how = "try"
							lctx, cancel, err = lockers[l].TryWithContext(ctx, n)
						} else {
							waitStart(l, n)
							lctx, cancel, err = lockers[l].WithContext(ctx, n)
							if err == nil || !errors.Is(err, context.DeadlineExceeded) {
								waitEnd(l, n)
							}
						}
						if err != nil {
							cancelSrc()
							if !try && errors.Is(err, context.DeadlineExceeded) {
								time.Sleep(time.Second) // siblings that are stuck as well have reported by then
								lostWakeup(l, n, time.Since(start), err)
								return
							}
							if try && errors.Is(err, rueidislock.ErrNotLocked) {
								run.Observe("try_not_locked", 1)
							} else {
								run.Observe("acquire_errors", 1)
								w.mu.Lock()
								w.logf("locker %d %s(%s) error: %v", l, how, n, err)
								w.mu.Unlock()
							}
							time.Sleep(time.Duration(r.Intn(40)) * time.Millisecond)
							continue
						}
						if time.Since(start) > 0 {
							cmu.Lock()
							contended = true
							cmu.Unlock()
							run.Observe("acquired_after_waiting", 1)
							byClass("acquired_after_waiting", n)
						}
						h := w.acquired(l, n, how, lctx, ep)
						if time.Since(start) > 0 && h.prev >= 0 && h.prev != l {
							crossWake(n)
						}
						// hold across 0-3 extension intervals
						hold := time.Duration(r.Intn(3200)) * time.Millisecond
						if p.herd {
							hold = time.Duration(r.Intn(30)) * time.Millisecond
						}
						select {
						case <-time.After(hold):
						case <-lctx.Done():
							w.mu.Lock()
							_, dirty := w.unclean[n]
							if !dirty && !h.faulted {
								run.Observe("context_lost_without_fault", 1)
							}
							w.logf("holder %d lost its context while holding: %v", h.id, lctx.Err())
							w.mu.Unlock()
						}
						release(h, cancel)
						cancelSrc()
						time.Sleep(time.Duration(r.Intn(50)) * time.Millisecond)
					}
				}(l)
			}
		}
		// connection kills
		var killer sync.WaitGroup
		if p.kills > 0 {
			killer.Add(1)
			go func() {
				defer killer.Done()
				for k := 0; k < p.kills; k++ {
					time.Sleep(time.Duration(200+rng.Intn(2500)) * time.Millisecond)
					victim := rng.Intn(p.lockers)
					w.mu.Lock()
					var ids []int64
					for c, l := range w.connOf {
						if l == victim {
							ids = append(ids, c)
						}
					}
					for _, h := range w.holders {
						if h.locker == victim && h.ctx.Err() == nil {
							h.faulted = true
						}
					}
					w.killEpoch[victim]++ // calls in progress on that locker are faulted too
					w.logf("kill connections of locker %d", victim)
					w.mu.Unlock()
					for _, id := range ids {
						srv.Kill(id)
					}
					run.Observe("connection_kills", 1)
				}
			}()
		}
		wg.Wait()
		killer.Wait()
	case "spin":
		// many failed attempts in a row: the holder's key 0 is deleted and its other keys are overwritten, so that a waiter in
		// the default tracking mode takes key 0, fails on key 1, releases key 0, is invalidated by its own DEL and retries;
		// the driver ends that after a bounded number of attempts by deleting the foreign keys: the waiter must then acquire
		n := names[0]
		lctx, cancel, err := lockers[0].WithContext(context.Background(), n)
		if err != nil {
			run.Inconclusive("uncontended WithContext failed: " + err.Error())
			break
		}
		h := w.acquired(0, n, "with", lctx, 0)
		synctest.Wait()
		type res struct {
			cancel context.CancelFunc
			err    error
			waited time.Duration
		}
		waiter := make(chan res, 1)
		go func() {
			ctx, c := context.WithTimeout(context.Background(), waitBound)
			defer c()
			start := time.Now()
			waitStart(1, n)
			lc, cn, err := lockers[1].WithContext(ctx, n)
			if err == nil {
				w.acquired(1, n, "with", lc, 0)
			}
			waiter <- res{cn, err, time.Since(start)}
		}()
		time.Sleep(100 * time.Millisecond)
		w.mu.Lock()
		w.markUnclean(n, "a third party deletes / overwrites lock keys")
		base := w.stats["releases_seen"]
		w.mu.Unlock()
		for i := 1; i < w.total; i++ {
			node.Exec("SET", w.key(i, n), "intruder")
		}
		node.Exec("DEL", w.key(0, n))
		attempts := int64(0)
		target := int64(500 + rng.Intn(2500))
		for i := 0; i < 3_000_000 && attempts < target; i++ {
			runtime.Gosched()
			if i%64 == 0 {
				w.mu.Lock()
				attempts = w.stats["releases_seen"] - base
				w.mu.Unlock()
			}
		}
		run.Observe("spin_failed_attempts", attempts)
		for i := 1; i < w.total; i++ {
			node.Exec("DEL", w.key(i, n))
		}
		release(h, cancel)
		r := <-waiter
		if r.err != nil {
			if errors.Is(r.err, context.DeadlineExceeded) {
				lostWakeup(1, n, r.waited, r.err)
			} else {
				run.Observe("acquire_errors", 1)
			}
		} else {
			contended = true
			run.Observe("acquired_after_waiting", 1)
			byClass("acquired_after_waiting", n)
			crossWake(n)
			run.Observe("acquired_after_many_failed_attempts", 1)
			r.cancel()
		}
	case "early-loss":
		// A third party removes (deletes / overwrites / lets expire) a majority of a holder's keys, each of them right after the
		// server executed the command that acquired it: the invalidation follows the reply of the acquiring command back to back
		// (with p.latency > 0 both arrive in the same read of the client). Whatever the holder was doing at that moment, it no
		// longer owns a majority of its keys: its context must be cancelled without waiting for the next periodic extension.
		rounds := 3 + rng.Intn(4)
		prompt := time.Second
		if p.nocache {
			prompt = interval + time.Second // without invalidations the loss can only be seen by the next extension
		}
		tracking := "loop"
		if p.nocache {
			tracking = "nocache"
		} else if p.noloop {
			tracking = "noloop"
		}
		for round := 0; round < rounds; round++ {
			n := names[round%len(names)]
			l := rng.Intn(p.lockers)
			mode := []string{"del", "overwrite", "expire"}[rng.Intn(3)]
			cnt := w.majority + rng.Intn(w.total-w.majority+1)
			pending := map[string]bool{} // guarded by w.mu
			var victims []string
			for _, i := range rng.Perm(w.total)[:cnt] {
				pending[w.key(i, n)] = true
				victims = append(victims, w.key(i, n))
			}
			removed := 0 // guarded by w.mu
			w.mu.Lock()
			w.markUnclean(n, "a third party deletes / overwrites lock keys")
			w.logf("round %d: locker %d on %q, third party will %s %v right after their acquisition", round, l, n, mode, victims)
			w.mu.Unlock()
			for _, k := range victims {
				k := k
				srv.Plan(&fakeredis.Rule{Name: "early-loss " + k,
					Match: func(c *fakeredis.Conn, argv []string) bool { // under the server lock
						if len(argv) < 4 || argv[3] != k || !strings.HasPrefix(strings.ToUpper(argv[0]), "EVAL") {
							return false
						}
						w.mu.Lock()
						defer w.mu.Unlock()
						return pending[k] && w.connOf[c.ID] == l
					},
					Action: fakeredis.Action{Then: func() { // without the server lock, after the reply has been queued
						w.mu.Lock()
						ks, ok := w.keys[k]
						hit := ok && ks.locker == l && pending[k] // the command has acquired the key for the locker
						if hit {
							delete(pending, k)
						}
						w.mu.Unlock()
						if !hit {
							return
						}
						switch mode {
						case "del":
							node.Exec("DEL", k)
						case "overwrite":
							node.Exec("SET", k, "intruder", "PX", "60000")
						case "expire":
							node.Exec("PEXPIRE", k, "1")
						}
						w.mu.Lock()
						removed++
						w.logf("third party: %s %s right after its acquisition", mode, k)
						w.mu.Unlock()
					}}})
			}
			ep := begin(l)
			how := "with"
			var lctx context.Context
			var cancel context.CancelFunc
			var err error
			if rng.Intn(3) == 0 {
				how = "try"
				lctx, cancel, err = lockers[l].TryWithContext(context.Background(), n)
			} else {
				lctx, cancel, err = lockers[l].WithContext(context.Background(), n)
			}
			if err != nil {
				run.Observe("acquire_errors", 1)
				w.mu.Lock()
				w.logf("locker %d %s(%s) error: %v", l, how, n, err)
				w.mu.Unlock()
			} else {
				h := w.acquired(l, n, how, lctx, ep)
				// ground truth (the server's exec / expire events): how many keys of the name still hold a value written by this locker.
				// A key whose TTL the third party cut to 1 ms may have been extended again by the holder before it expired (a holder
				// in the default tracking mode is invalidated by its own SET and re-extends at once): that key is not lost.
				owned := func() (c int) {
					w.mu.Lock()
					defer w.mu.Unlock()
					for i := 0; i < w.total; i++ {
						if ks, ok := w.keys[w.key(i, n)]; ok && ks.locker == l {
							c++
						}
					}
					return
				}
				time.Sleep(200 * time.Millisecond) // the keys beyond the majority are acquired (and removed) in the background meanwhile
				ownedThen := owned()
				time.Sleep(prompt)
				ownedNow := owned()
				w.mu.Lock()
				got := removed
				if ownedThen >= w.majority || ownedNow >= w.majority {
					got = 0 // the holder owned a majority during the last `prompt`: nothing is demanded
				}
				tr := append([]string{}, w.trace...)
				w.mu.Unlock()
				var lg []string
				if lctx.Err() == nil {
					evs := srv.Log() // takes the server lock: never while holding w.mu
					w.mu.Lock()
					for _, e := range evs {
						if e.Kind == "recv" || e.Kind == "fault" || (len(e.Argv) > 0 && (e.Argv[0] == "PING" || e.Argv[0] == "HELLO" || e.Argv[0] == "CLIENT")) {
							continue
						}
						lg = append(lg, fmt.Sprintf("%s %d L%d c%d %s %q %s %s", w.when[e.Seq].Format("04:05.000000"), e.Seq, w.connOf[e.Conn], e.Conn, e.Kind, e.Argv, e.Note, drv.Tail(e.Reply.String(), 80)))
					}
					w.mu.Unlock()
					if len(lg) > 120 {
						lg = lg[len(lg)-120:]
					}
				}
				if got < w.majority {
					run.Observe("early_loss_rounds_incomplete", 1)
				} else {
					earlyRounds++
					run.Observe("early_loss_rounds", 1)
					run.Observe("early_loss_rounds_"+mode, 1)
					run.Observe("early_loss_rounds_tracking_"+tracking, 1)
					run.Observe(fmt.Sprintf("early_loss_rounds_majority_%d", w.majority), 1)
					run.Observe("early_loss_keys_removed", int64(got))
					if p.latency > 0 {
						run.Observe("early_loss_rounds_on_coalescing_connections", 1)
					}
					if lctx.Err() == nil {
						run.Violation("loss-not-noticed", fmt.Sprintf("%s|third-party=%s|right-after-the-acquiring-command", p.cfg(), mode)+keyName(n), map[string]any{"case": name, "lock_name": n, "key_prefix": pfx,
							"removed": victims, "majority": w.majority, "total": w.total, "how": how, "latency": p.latency.String(), "waited_virtual": prompt.String(), "trace": tr, "log": lg})
					} else {
						run.Observe("early_loss_noticed_promptly", 1)
						lossNoticed(n)
					}
				}
				release(h, cancel)
			}
			srv.ClearPlan()
			time.Sleep(10 * time.Millisecond)
			for i := 0; i < w.total; i++ {
				node.Exec("DEL", w.key(i, n))
			}
			time.Sleep(time.Duration(rng.Intn(50)) * time.Millisecond)
		}
	case "loss", "force", "expiry":
		n := names[0]
		lctx, cancel, err := lockers[0].WithContext(context.Background(), n)
		if err != nil {
			run.Inconclusive("uncontended WithContext failed: " + err.Error())
			break
		}
		h := w.acquired(0, n, "with", lctx, 0)
		synctest.Wait() // the keys beyond the majority are acquired in the background
		// a waiter on another locker
		type res struct {
			ctx    context.Context
			cancel context.CancelFunc
			err    error
			waited time.Duration
		}
		waiter := make(chan res, 1)
		wl := 1
		go func() {
			ctx, c := context.WithTimeout(context.Background(), waitBound)
			defer c()
			start := time.Now()
			waitStart(wl, n)
			lc, cn, err := lockers[wl].WithContext(ctx, n)
			if err == nil {
				w.acquired(wl, n, "with", lc, 0)
			}
			waiter <- res{lc, cn, err, time.Since(start)}
		}()
		time.Sleep(300 * time.Millisecond)
		prompt := time.Second
		if p.nocache {
			prompt = interval + time.Second // without invalidations the loss can only be seen by the next extension
		}
		switch p.kind {
		case "loss":
			w.mu.Lock()
			var mine []string
			for k, ks := range w.keys {
				if ks.val == h.val && h.val != "" {
					mine = append(mine, k)
				}
			}
			w.markUnclean(n, "a third party deletes / overwrites lock keys")
			w.mu.Unlock()
			if len(mine) < w.majority {
				run.Inconclusive("holder's keys not identified")
				break
			}
			rng.Shuffle(len(mine), func(i, j int) { mine[i], mine[j] = mine[j], mine[i] })
			cnt := w.majority + rng.Intn(len(mine)-w.majority+1)
			overwrite := rng.Intn(2) == 0
			if overwrite {
				// Steer around a livelock of waiters in the default tracking mode (reported separately): a waiter that can
				// take key 0 but finds key 1 foreign deletes key 0 again, is invalidated by its own DEL and retries at once,
				// for ever and without virtual time passing. Overwritten sets therefore always contain key 0.
				for i, k := range mine {
					if k == w.key(0, n) {
						mine[0], mine[i] = mine[i], mine[0]
					}
				}
			}
			for _, k := range mine[:cnt] {
				if overwrite {
					node.Exec("SET", k, "intruder", "PX", "60000")
				} else {
					node.Exec("DEL", k)
				}
			}
			run.Observe("third_party_majority_removed", 1)
			time.Sleep(prompt)
			if lctx.Err() == nil {
				w.mu.Lock()
				tr := append([]string{}, w.trace...)
				w.mu.Unlock()
				run.Violation("loss-not-noticed", fmt.Sprintf("%s|overwrite=%v", p.cfg(), overwrite)+keyName(n), map[string]any{"case": name, "lock_name": n, "key_prefix": pfx, "removed": mine[:cnt], "of": mine, "waited_virtual": prompt.String(), "trace": tr})
			} else {
				lossNoticed(n)
			}
		case "force":
			fl := 2 % p.lockers
			if fl == 0 {
				fl = 1
			}
			fctx, fcancel, ferr := lockers[fl].ForceWithContext(context.Background(), n)
			if ferr != nil {
				run.Observe("force_failed", 1)
				break
			}
			fh := w.acquired(fl, n, "force", fctx, 0)
			run.Observe("forced_takeovers", 1)
			time.Sleep(prompt)
			if lctx.Err() == nil {
				w.mu.Lock()
				tr := append([]string{}, w.trace...)
				w.mu.Unlock()
				run.Violation("loss-not-noticed", p.cfg()+"|forced"+keyName(n), map[string]any{"case": name, "lock_name": n, "key_prefix": pfx, "waited_virtual": prompt.String(), "trace": tr})
			} else {
				lossNoticed(n)
			}
			if fctx.Err() != nil {
				run.Observe("forcer_lost_context", 1)
			}
			time.Sleep(time.Duration(rng.Intn(2000)) * time.Millisecond)
			release(fh, fcancel)
		case "expiry":
			// nothing to do: the keys expire after 2 s because the extension interval is 5 s
			time.Sleep(validity + prompt)
			if p.nocache {
				time.Sleep(interval)
			}
			if lctx.Err() == nil {
				w.mu.Lock()
				tr := append([]string{}, w.trace...)
				w.mu.Unlock()
				run.Violation("loss-not-noticed", p.cfg()+"|expired"+keyName(n), map[string]any{"case": name, "lock_name": n, "key_prefix": pfx, "trace": tr})
			} else {
				lossNoticed(n)
			}
		}
		release(h, cancel)
		// the waiter must get the lock now without any further help (overwritten keys expire after 60 s)
		r := <-waiter
		if r.err != nil {
			if errors.Is(r.err, context.DeadlineExceeded) {
				lostWakeup(wl, n, r.waited, r.err)
			} else {
				run.Observe("acquire_errors", 1)
			}
		} else {
			contended = true
			run.Observe("acquired_after_waiting", 1)
			byClass("acquired_after_waiting", n)
			crossWake(n)
			r.cancel()
		}
	}
	close(stopSampler)
	samplerDone.Wait()
	if m := atomic.LoadInt64(&mixedReads); m > 0 {
		run.Observe("early_loss_reads_with_reply_and_invalidation_together", m)
	}

	w.mu.Lock()
	for k, v := range w.stats {
		run.Observe(k, v)
	}
	acq := w.stats["acquisitions"]
	if w.stats["acquisitions"] > 0 && rng.Intn(25) == 0 {
		tr := w.trace
		if len(tr) > 40 {
			tr = tr[:40]
		}
		run.Sample(map[string]any{"case": name, "params": fmt.Sprintf("%+v", p), "stats": w.stats, "trace_head": tr})
	}
	_, dirty := w.unclean[names[0]]
	w.mu.Unlock()
	if p.kind == "chain" && !dirty && contended {
		run.Observe("clean_contended_histories", 1)
	}
	if p.kind == "early-loss" {
		return fmt.Sprintf("%s|lockers=%d|names=%d|latency=%v|acq=%d|early-loss-rounds=%d|nameclasses=%s|prefix=%s", p.cfg(), p.lockers, p.names, p.latency, acq, earlyRounds, strings.Join(classList, "+"), pfx), earlyRounds > 0
	}
	return fmt.Sprintf("%s|lockers=%d|names=%d|kills=%d|acq=%d|contended=%v|nameclasses=%s|prefix=%s", p.cfg(), p.lockers, p.names, p.kills, acq, contended, strings.Join(classList, "+"), pfx), (contended && acq >= 2) || earlyRounds > 0
}

// C34: distributed locks are mutually exclusive and notice loss.
func TestC34(t *testing.T) {
	run := mon.Start(t, "C34", "exploration",
		"2-5 real rueidislock lockers (own rueidis client each, KeyMajority 1-3, NoLoopTracking / FallbackSETPX / DisableCache polling mode) on fakeredis (shipped Lua scripts run in its interpreter, client tracking emulated), one history per synctest bubble: "+
			"(chain) 2-10 goroutines x 2-3 rounds of WithContext/TryWithContext on 1-2 names, holds across 0-3 extension intervals, 0-2 connection kills; (loss) a third party deletes/overwrites a majority of the holder's keys with KeyValidity 1h; "+
			"(force) ForceWithContext take-over; (expiry) ExtendInterval > KeyValidity; (early-loss, histories of their own) 3-6 rounds in which a third party deletes / overwrites / lets expire (PEXPIRE 1 ms) a majority of the keys of a lock, each right after the server executed the command that acquired it, "+
			"so that the invalidation follows the reply of the acquiring command back to back (plain pipe, or everything sent within 1 us / 2 ms arriving in one read), 1-3 lockers, KeyMajority 1-3, every tracking mode. Lock names: plain (35%), containing the key layout's separator ':' in 12 shapes (45%: one/several/leading/trailing/empty segment, index-like, whole-key-like, with the prefix inside), "+
			"other unusual names (20%: space, non-ASCII, braces, glob characters, quotes, CRLF, NUL, backslash, empty, 320 bytes); KeyPrefix lk / app:lk / lk:v2: / {lk}. "+
			"Oracles: exclusion at every acquisition return and every 130 ms sampled instant inside clean windows; release order checked synchronously in the server's exec hook; "+
			"loss noticed within 1 s virtual (cached) ; every waiter acquires within 10 virtual minutes of bounded holds; bubble deadlock = hang. A case is one history, non-trivial when a waiter acquired after waiting and >= 2 acquisitions happened")
	defer run.Finish()
	rueidis.VerifSetQueueType("flowbuffer") // set once: pipes are created from background goroutines too
	run.Assume("fakeredis+minilua execute the shipped acquire/extend/delete scripts like Redis does, including tracking of keys read inside scripts and invalidation on SET/DEL/expiry",
		"fakeredis does not send invalidations for PEXPIREAT (Redis does); the lockers therefore see fewer spurious wake-ups than on a real server",
		"no server latency is injected: TryNextAfter never elapses, so 'outside fault windows' holds for every acquisition that was not hit by a connection kill")
	seeds := run.Rand("cases")
	n := run.N(160, 4000)
	only := os.Getenv("VERIF_C34_CASE")
	for i := 0; i < n; i++ {
		rng := rand.New(rand.NewSource(seeds.Int63()))
		p := params{seed: rng.Int63(), lockers: 2 + rng.Intn(4), majority: int32(1 + rng.Intn(3)), noloop: rng.Intn(2) == 0, setpx: rng.Intn(3) == 0, nocache: rng.Intn(5) == 0, names: 1 + rng.Intn(2)}
		switch k := rng.Intn(10); {
		case k < 6:
			p.kind = "chain"
			if rng.Intn(3) == 0 {
				p.kills = 1 + rng.Intn(2)
			}
			if rng.Intn(4) == 0 {
				p.herd, p.lockers, p.names, p.kills, p.nocache = true, 5, 1, 0, false
			}
		case k < 8:
			p.kind = "loss"
		case k < 9:
			p.kind = "force"
			if p.lockers < 3 {
				p.lockers = 3
			}
		default:
			p.kind = "expiry"
		}
		if rng.Intn(12) == 0 {
			p.kind, p.noloop, p.nocache, p.kills = "spin", false, false, 0
			if p.majority < 2 {
				p.majority = 2
			}
		}
		if only != "" && only != fmt.Sprintf("h%d", i) {
			continue
		}
		oneHistory(run, t, i, p)
	}
	// early loss: histories of their own, drawn from a stream of their own (the histories above are the same function of the seed as before)
	eseeds := run.Rand("early-loss")
	en := run.N(48, 1200)
	for i := 0; i < en; i++ {
		rng := rand.New(rand.NewSource(eseeds.Int63()))
		p := params{kind: "early-loss", seed: rng.Int63(), lockers: 1 + rng.Intn(3), majority: int32(1 + rng.Intn(3)), noloop: rng.Intn(2) == 0, setpx: rng.Intn(3) == 0, nocache: rng.Intn(5) == 0, names: 1 + rng.Intn(2)}
		p.latency = []time.Duration{0, time.Microsecond, time.Microsecond, 2 * time.Millisecond}[rng.Intn(4)]
		if only != "" && only != fmt.Sprintf("h%d", n+i) {
			continue
		}
		oneHistory(run, t, n+i, p)
	}
	run.Require("acquisitions", "acquired_after_waiting", "exclusion_checks_acquisition-return", "exclusion_checks_sampled-instant", "releases_after_done", "loss_noticed_promptly",
		"third_party_majority_removed", "forced_takeovers", "premise_failed_windows", "clean_contended_histories", "connection_kills", "expire_events",
		// lock names that contain the separator of the key layout: wake-ups and loss notifications that only an invalidation message can have caused
		"lock_names_separator", "lock_names_special", "cross_locker_wakeups_by_invalidation_name_with_separator", "loss_noticed_by_invalidation_name_with_separator",
		"histories_key_prefix_with_separator",
		// a majority of a holder's keys removed by a third party right after the commands that acquired them
		"early_loss_rounds")
}
