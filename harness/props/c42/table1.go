package c42

import (
	"time"

	"github.com/redis/rueidis/rueidiscompat"
)

type call = func(c C)

// simple helpers for the very regular methods
func keyOnly(name, cmd string, f func(c C, k string)) entry {
	return entry{name, func(g *gen) (call, []tok) {
		k := g.key()
		return func(c C) { f(c, k) }, ref(cmd, V(k))
	}}
}

func keysOnly(name, cmd string, f func(c C, ks []string)) entry {
	return entry{name, func(g *gen) (call, []tok) {
		ks := g.keys(1, 4)
		return func(c C) { f(c, ks) }, ref(cmd, ks)
	}}
}

func noArgs(name string, f func(c C), words ...string) entry {
	return entry{name, func(g *gen) (call, []tok) {
		var w []tok
		for _, s := range words {
			w = append(w, K(s))
		}
		return f, w
	}}
}

func expireMode(name, mode string, f func(c C, k string, d time.Duration)) entry {
	return entry{name, func(g *gen) (call, []tok) {
		k, d := g.key(), g.dur("zmsfn")
		w := ref("EXPIRE", V(k), goFormatSec(d))
		if mode != "" {
			w = append(w, K(mode))
		}
		return func(c C) { f(c, k, d) }, w
	}}
}

func sortArgs(g *gen) (rueidiscompat.Sort, []tok) {
	var s rueidiscompat.Sort
	var w []tok
	if g.flip() {
		s.By = g.tok("by:")
		w = append(w, K("BY"), V(s.By))
	}
	switch g.r.Intn(4) {
	case 0:
		s.Offset, s.Count = g.pos(), g.pos()
	case 1:
		s.Offset = g.pos()
		g.tagf("limit-count=0")
	case 2:
		s.Count = g.pos()
		g.tagf("limit-offset=0")
	}
	if s.Offset != 0 || s.Count != 0 {
		w = append(w, K("LIMIT"), N(s.Offset), N(s.Count))
	}
	s.Get = g.strs("get:", 0, 2)
	for _, x := range s.Get {
		w = append(w, K("GET"), V(x))
	}
	s.Order = g.pick("", "ASC", "DESC", "asc", "desc")
	if s.Order != "" {
		w = append(w, K(s.Order))
	}
	if g.flip() {
		s.Alpha = true
		w = append(w, K("ALPHA"))
	}
	return s, w
}

// setExpiry: the expiration part go-redis appends in Set / SetXX / GetEx
func goExpiry(d time.Duration) []tok {
	if d > 0 {
		if goUsePrecise(d) {
			return ref("PX", goFormatMs(d))
		}
		return ref("EX", goFormatSec(d))
	}
	return nil
}

func scanTail(g *gen) (match string, count int64, w []tok) {
	if g.flip() {
		match = g.tok("pat:") + "*"
		w = append(w, K("MATCH"), V(match))
	}
	count = g.count("count")
	if count > 0 {
		w = append(w, K("COUNT"), N(count))
	}
	return
}

func (g *gen) cursor() uint64 {
	if g.r.Intn(12) == 0 {
		g.big = true
		return 1<<63 | uint64(g.r.Int63())
	}
	return uint64(g.r.Intn(1 << 20))
}

var table1 = []entry{
	// ------------------------------------------------------------------ generic / keys
	keysOnly("Del", "DEL", func(c C, ks []string) { c.Del(ctx, ks...) }),
	keysOnly("Unlink", "UNLINK", func(c C, ks []string) { c.Unlink(ctx, ks...) }),
	keysOnly("Exists", "EXISTS", func(c C, ks []string) { c.Exists(ctx, ks...) }),
	keysOnly("Touch", "TOUCH", func(c C, ks []string) { c.Touch(ctx, ks...) }),
	keyOnly("Dump", "DUMP", func(c C, k string) { c.Dump(ctx, k) }),
	keyOnly("ExpireTime", "EXPIRETIME", func(c C, k string) { c.ExpireTime(ctx, k) }),
	keyOnly("PExpireTime", "PEXPIRETIME", func(c C, k string) { c.PExpireTime(ctx, k) }),
	keyOnly("Persist", "PERSIST", func(c C, k string) { c.Persist(ctx, k) }),
	keyOnly("PTTL", "PTTL", func(c C, k string) { c.PTTL(ctx, k) }),
	keyOnly("TTL", "TTL", func(c C, k string) { c.TTL(ctx, k) }),
	keyOnly("Type", "TYPE", func(c C, k string) { c.Type(ctx, k) }),
	expireMode("Expire", "", func(c C, k string, d time.Duration) { c.Expire(ctx, k, d) }),
	expireMode("ExpireNX", "NX", func(c C, k string, d time.Duration) { c.ExpireNX(ctx, k, d) }),
	expireMode("ExpireXX", "XX", func(c C, k string, d time.Duration) { c.ExpireXX(ctx, k, d) }),
	expireMode("ExpireGT", "GT", func(c C, k string, d time.Duration) { c.ExpireGT(ctx, k, d) }),
	expireMode("ExpireLT", "LT", func(c C, k string, d time.Duration) { c.ExpireLT(ctx, k, d) }),
	{"ExpireAt", func(g *gen) (call, []tok) {
		k, t := g.key(), g.tm()
		return func(c C) { c.ExpireAt(ctx, k, t) }, ref("EXPIREAT", V(k), t.Unix())
	}},
	{"PExpire", func(g *gen) (call, []tok) {
		k, d := g.key(), g.dur("zumsfn")
		return func(c C) { c.PExpire(ctx, k, d) }, ref("PEXPIRE", V(k), goFormatMs(d))
	}},
	{"PExpireAt", func(g *gen) (call, []tok) {
		k, t := g.key(), g.tm()
		return func(c C) { c.PExpireAt(ctx, k, t) }, ref("PEXPIREAT", V(k), t.UnixNano()/int64(time.Millisecond))
	}},
	{"Keys", func(g *gen) (call, []tok) {
		p := g.tok("pat:") + "*"
		return func(c C) { c.Keys(ctx, p) }, ref("KEYS", V(p))
	}},
	// go-redis: Migrate(host, port string, key, db int, timeout) -> "migrate" host port key db formatMs(timeout)
	// (MIGRATE's timeout is in milliseconds). The adapter takes port/db as int64.
	{"Migrate", func(g *gen) (call, []tok) {
		h, port, k, db, d := g.tok("host"), int64(6000+g.r.Intn(1000)), g.key(), int64(g.r.Intn(16)), g.dur("zsf")
		return func(c C) { c.Migrate(ctx, h, port, k, db, d) }, ref("MIGRATE", V(h), port, V(k), db, tagged(N(goFormatMs(d)), "timeout"))
	}},
	{"Move", func(g *gen) (call, []tok) {
		k, db := g.key(), int64(g.r.Intn(16))
		return func(c C) { c.Move(ctx, k, db) }, ref("MOVE", V(k), db)
	}},
	keyOnlySub("ObjectRefCount", "REFCOUNT", func(c C, k string) { c.ObjectRefCount(ctx, k) }),
	keyOnlySub("ObjectEncoding", "ENCODING", func(c C, k string) { c.ObjectEncoding(ctx, k) }),
	keyOnlySub("ObjectIdleTime", "IDLETIME", func(c C, k string) { c.ObjectIdleTime(ctx, k) }),
	noArgs("RandomKey", func(c C) { c.RandomKey(ctx) }, "RANDOMKEY"),
	{"Rename", func(g *gen) (call, []tok) {
		a, b := g.key(), g.key()
		return func(c C) { c.Rename(ctx, a, b) }, ref("RENAME", V(a), V(b))
	}},
	{"RenameNX", func(g *gen) (call, []tok) {
		a, b := g.key(), g.key()
		return func(c C) { c.RenameNX(ctx, a, b) }, ref("RENAMENX", V(a), V(b))
	}},
	{"Restore", func(g *gen) (call, []tok) {
		k, d, v := g.key(), g.dur("zumsf"), g.tok("dump:")
		return func(c C) { c.Restore(ctx, k, d, v) }, ref("RESTORE", V(k), goFormatMs(d), V(v))
	}},
	{"RestoreReplace", func(g *gen) (call, []tok) {
		k, d, v := g.key(), g.dur("zumsf"), g.tok("dump:")
		return func(c C) { c.RestoreReplace(ctx, k, d, v) }, ref("RESTORE", V(k), goFormatMs(d), V(v), "REPLACE")
	}},
	{"Sort", func(g *gen) (call, []tok) {
		k := g.key()
		s, w := sortArgs(g)
		return func(c C) { c.Sort(ctx, k, s) }, ref("SORT", V(k), w)
	}},
	{"SortRO", func(g *gen) (call, []tok) {
		k := g.key()
		s, w := sortArgs(g)
		return func(c C) { c.SortRO(ctx, k, s) }, ref("SORT_RO", V(k), w)
	}},
	{"SortInterfaces", func(g *gen) (call, []tok) {
		k := g.key()
		s, w := sortArgs(g)
		return func(c C) { c.SortInterfaces(ctx, k, s) }, ref("SORT", V(k), w)
	}},
	{"SortStore", func(g *gen) (call, []tok) { // non-empty store only (go-redis omits STORE for "")
		k, st := g.key(), g.key()
		s, w := sortArgs(g)
		return func(c C) { c.SortStore(ctx, k, st, s) }, ref("SORT", V(k), w, "STORE", V(st))
	}},
	{"Copy", func(g *gen) (call, []tok) {
		a, b, db, rep := g.key(), g.key(), int64(g.r.Intn(16)), g.flip()
		w := ref("COPY", V(a), V(b), "DB", db)
		if rep {
			w = append(w, K("REPLACE"))
		}
		return func(c C) { c.Copy(ctx, a, b, db, rep) }, w
	}},
	// ------------------------------------------------------------------ strings
	{"Append", func(g *gen) (call, []tok) {
		k, v := g.key(), g.tok("val:")
		return func(c C) { c.Append(ctx, k, v) }, ref("APPEND", V(k), V(v))
	}},
	keyOnly("Decr", "DECR", func(c C, k string) { c.Decr(ctx, k) }),
	keyOnly("Incr", "INCR", func(c C, k string) { c.Incr(ctx, k) }),
	keyOnly("Get", "GET", func(c C, k string) { c.Get(ctx, k) }),
	keyOnly("GetDel", "GETDEL", func(c C, k string) { c.GetDel(ctx, k) }),
	keyOnly("StrLen", "STRLEN", func(c C, k string) { c.StrLen(ctx, k) }),
	{"DecrBy", func(g *gen) (call, []tok) {
		k, n := g.key(), g.i64()
		return func(c C) { c.DecrBy(ctx, k, n) }, ref("DECRBY", V(k), n)
	}},
	{"IncrBy", func(g *gen) (call, []tok) {
		k, n := g.key(), g.i64()
		return func(c C) { c.IncrBy(ctx, k, n) }, ref("INCRBY", V(k), n)
	}},
	{"IncrByFloat", func(g *gen) (call, []tok) {
		k, f := g.key(), g.f64()
		return func(c C) { c.IncrByFloat(ctx, k, f) }, ref("INCRBYFLOAT", V(k), F(f))
	}},
	{"GetRange", func(g *gen) (call, []tok) {
		k, a, b := g.key(), g.i64(), g.i64()
		return func(c C) { c.GetRange(ctx, k, a, b) }, ref("GETRANGE", V(k), a, b)
	}},
	{"SetRange", func(g *gen) (call, []tok) {
		k, off, v := g.key(), g.pos(), g.tok("val:")
		return func(c C) { c.SetRange(ctx, k, off, v) }, ref("SETRANGE", V(k), off, V(v))
	}},
	{"GetSet", func(g *gen) (call, []tok) {
		k := g.key()
		v, vt := g.any()
		return func(c C) { c.GetSet(ctx, k, v) }, ref("GETSET", V(k), vt)
	}},
	// go-redis GetEx: expiration > 0 -> PX/EX, expiration == 0 -> PERSIST, negative -> nothing
	{"GetEx", func(g *gen) (call, []tok) {
		k, d := g.key(), g.dur("zzmsfn")
		w := ref("GETEX", V(k), goExpiry(d))
		if d == 0 {
			w = append(w, K("PERSIST"))
		}
		return func(c C) { c.GetEx(ctx, k, d) }, w
	}},
	keysOnly("MGet", "MGET", func(c C, ks []string) { c.MGet(ctx, ks...) }),
	{"MSet", func(g *gen) (call, []tok) {
		a, w := g.pairs(1, 3)
		return func(c C) { c.MSet(ctx, a...) }, ref("MSET", w)
	}},
	{"MSetNX", func(g *gen) (call, []tok) {
		a, w := g.pairs(1, 3)
		return func(c C) { c.MSetNX(ctx, a...) }, ref("MSETNX", w)
	}},
	{"Set", func(g *gen) (call, []tok) {
		k, d := g.key(), g.dur("zzmsfnk")
		v, vt := g.any()
		w := ref("SET", V(k), vt, goExpiry(d))
		if d == rueidiscompat.KeepTTL {
			w = append(w, K("KEEPTTL"))
		}
		return func(c C) { c.Set(ctx, k, v, d) }, w
	}},
	{"SetArgs", func(g *gen) (call, []tok) {
		k := g.key()
		v, vt := g.any()
		var a rueidiscompat.SetArgs
		w := ref("SET", V(k), vt)
		if g.r.Intn(3) == 0 {
			a.KeepTTL = true
			g.tagf("keepttl")
			w = append(w, K("KEEPTTL"))
		}
		if g.r.Intn(3) == 0 {
			a.ExpireAt = g.tm()
			g.tagf("exat")
			w = append(w, K("EXAT"), N(a.ExpireAt.Unix()))
		}
		if g.flip() {
			a.TTL = g.dur("zmsfn")
			w = append(w, goExpiry(a.TTL)...)
		}
		a.Mode = g.pick("", "", "NX", "XX", "nx", "xx")
		if a.Mode != "" {
			w = append(w, K(a.Mode))
		}
		if g.flip() {
			a.Get = true
			g.tagf("get")
			w = append(w, K("GET"))
		}
		return func(c C) { c.SetArgs(ctx, k, v, a) }, w
	}},
	{"SetEX", func(g *gen) (call, []tok) {
		k, d := g.key(), g.dur("zmsfn")
		v, vt := g.any()
		return func(c C) { c.SetEX(ctx, k, v, d) }, ref("SETEX", V(k), goFormatSec(d), vt)
	}},
	{"SetNX", func(g *gen) (call, []tok) {
		k, d := g.key(), g.dur("zzmsfnk")
		v, vt := g.any()
		var w []tok
		switch {
		case d == 0:
			w = ref("SETNX", V(k), vt)
		case d == rueidiscompat.KeepTTL:
			w = ref("SET", V(k), vt, "KEEPTTL", "NX")
		case goUsePrecise(d):
			w = ref("SET", V(k), vt, "PX", goFormatMs(d), "NX")
		default:
			w = ref("SET", V(k), vt, "EX", goFormatSec(d), "NX")
		}
		return func(c C) { c.SetNX(ctx, k, v, d) }, w
	}},
	{"SetXX", func(g *gen) (call, []tok) {
		k, d := g.key(), g.dur("zzmsfnk")
		v, vt := g.any()
		w := ref("SET", V(k), vt, goExpiry(d))
		if d == rueidiscompat.KeepTTL {
			w = append(w, K("KEEPTTL"))
		}
		w = append(w, K("XX"))
		return func(c C) { c.SetXX(ctx, k, v, d) }, w
	}},
	// ------------------------------------------------------------------ bits
	{"GetBit", func(g *gen) (call, []tok) {
		k, o := g.key(), g.pos()
		return func(c C) { c.GetBit(ctx, k, o) }, ref("GETBIT", V(k), o)
	}},
	{"SetBit", func(g *gen) (call, []tok) {
		k, o, b := g.key(), g.pos(), int64(g.r.Intn(2))
		return func(c C) { c.SetBit(ctx, k, o, b) }, ref("SETBIT", V(k), o, b)
	}},
	{"BitCount", func(g *gen) (call, []tok) { // valid units only (go-redis rejects others without sending)
		k := g.key()
		if g.r.Intn(3) == 0 {
			g.tagf("nil")
			return func(c C) { c.BitCount(ctx, k, nil) }, ref("BITCOUNT", V(k))
		}
		bc := &rueidiscompat.BitCount{Start: g.i64(), End: g.i64(), Unit: g.pick("", "BYTE", "BIT")}
		w := ref("BITCOUNT", V(k), bc.Start, bc.End)
		if bc.Unit != "" {
			w = append(w, K(bc.Unit))
		}
		return func(c C) { c.BitCount(ctx, k, bc) }, w
	}},
	{"BitOpAnd", func(g *gen) (call, []tok) {
		d, ks := g.key(), g.keys(1, 3)
		return func(c C) { c.BitOpAnd(ctx, d, ks...) }, ref("BITOP", "AND", V(d), ks)
	}},
	{"BitOpOr", func(g *gen) (call, []tok) {
		d, ks := g.key(), g.keys(1, 3)
		return func(c C) { c.BitOpOr(ctx, d, ks...) }, ref("BITOP", "OR", V(d), ks)
	}},
	{"BitOpXor", func(g *gen) (call, []tok) {
		d, ks := g.key(), g.keys(1, 3)
		return func(c C) { c.BitOpXor(ctx, d, ks...) }, ref("BITOP", "XOR", V(d), ks)
	}},
	{"BitOpNot", func(g *gen) (call, []tok) {
		d, k := g.key(), g.key()
		return func(c C) { c.BitOpNot(ctx, d, k) }, ref("BITOP", "NOT", V(d), V(k))
	}},
	{"BitPos", func(g *gen) (call, []tok) {
		k, b := g.key(), int64(g.r.Intn(2))
		var pos []int64
		for i := g.r.Intn(3); i > 0; i-- {
			pos = append(pos, g.i64())
		}
		w := ref("BITPOS", V(k), b)
		for _, p := range pos {
			w = append(w, N(p))
		}
		return func(c C) { c.BitPos(ctx, k, b, pos...) }, w
	}},
	{"BitPosSpan", func(g *gen) (call, []tok) { // "bit" / "byte" only
		k, b, s, e, span := g.key(), int64(g.r.Intn(2)), g.i64(), g.i64(), g.pick("bit", "byte", "BIT", "BYTE")
		return func(c C) { c.BitPosSpan(ctx, k, b, s, e, span) }, ref("BITPOS", V(k), b, s, e, K(span))
	}},
	{"BitField", func(g *gen) (call, []tok) {
		k, enc, off, n := g.key(), g.pick("u8", "i16", "u4"), g.pos(), g.i64()
		if g.flip() {
			return func(c C) { c.BitField(ctx, k, "INCRBY", enc, off, n) }, ref("BITFIELD", V(k), "INCRBY", K(enc), off, n)
		}
		return func(c C) { c.BitField(ctx, k, "SET", enc, off, n, "GET", enc, int(off)) }, ref("BITFIELD", V(k), "SET", K(enc), off, n, "GET", K(enc), off)
	}},
	{"BitFieldRO", func(g *gen) (call, []tok) {
		k, enc, off := g.key(), g.pick("u8", "i16"), g.pos()
		if g.flip() {
			return func(c C) { c.BitFieldRO(ctx, k, enc, off, "i5", 100) }, ref("BITFIELD_RO", V(k), "GET", K(enc), off, "GET", "i5", 100)
		}
		return func(c C) { c.BitFieldRO(ctx, k, enc, off) }, ref("BITFIELD_RO", V(k), "GET", K(enc), off)
	}},
	// ------------------------------------------------------------------ scan family
	{"Scan", func(g *gen) (call, []tok) {
		cur := g.cursor()
		m, n, w := scanTail(g)
		return func(c C) { c.Scan(ctx, cur, m, n) }, ref("SCAN", g.cur(cur), w)
	}},
	{"ScanType", func(g *gen) (call, []tok) { // non-empty type only (go-redis omits TYPE for "")
		cur, ty := g.cursor(), g.pick("string", "hash", "zset", "list")
		m, n, w := scanTail(g)
		return func(c C) { c.ScanType(ctx, cur, m, n, ty) }, ref("SCAN", g.cur(cur), w, "TYPE", V(ty))
	}},
	{"SScan", func(g *gen) (call, []tok) {
		k, cur := g.key(), g.cursor()
		m, n, w := scanTail(g)
		return func(c C) { c.SScan(ctx, k, cur, m, n) }, ref("SSCAN", V(k), g.cur(cur), w)
	}},
	{"HScan", func(g *gen) (call, []tok) {
		k, cur := g.key(), g.cursor()
		m, n, w := scanTail(g)
		return func(c C) { c.HScan(ctx, k, cur, m, n) }, ref("HSCAN", V(k), g.cur(cur), w)
	}},
	{"HScanNoValues", func(g *gen) (call, []tok) {
		k, cur := g.key(), g.cursor()
		m, n, w := scanTail(g)
		return func(c C) { c.HScanNoValues(ctx, k, cur, m, n) }, ref("HSCAN", V(k), g.cur(cur), w, "NOVALUES")
	}},
	{"ZScan", func(g *gen) (call, []tok) {
		k, cur := g.key(), g.cursor()
		m, n, w := scanTail(g)
		return func(c C) { c.ZScan(ctx, k, cur, m, n) }, ref("ZSCAN", V(k), g.cur(cur), w)
	}},
}

func keyOnlySub(name, sub string, f func(c C, k string)) entry {
	return entry{name, func(g *gen) (call, []tok) {
		k := g.key()
		return func(c C) { f(c, k) }, ref("OBJECT", sub, V(k))
	}}
}
