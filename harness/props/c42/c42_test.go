package c42

import (
	"context"
	"fmt"
	"math/rand"
	"reflect"
	"sort"
	"strconv"
	"strings"
	"testing"
	"time"

	"github.com/redis/rueidis"
	"github.com/redis/rueidis/rueidiscompat"
	"verifh/drv"
	"verifh/fakeredis"
	"verifh/mon"
	"verifh/resp"
)

const addr = "127.0.0.1:6379"

var ctx = context.Background()

func housekeeping(argv []string) bool {
	switch strings.ToUpper(argv[0]) {
	case "HELLO", "ROLE":
		return true
	case "CLIENT":
		return len(argv) > 1 && strings.EqualFold(argv[1], "SETINFO")
	}
	return false
}

// ---------------------------------------------------------------- normalisation (applied to both sides)

func isWord(t tok, w string) bool { return strings.EqualFold(t.s, w) }

// canonical rewrites spellings Redis defines as the same command into one form.
func canonical(t []tok) []tok {
	if len(t) == 0 {
		return t
	}
	out := append([]tok{}, t...)
	switch strings.ToUpper(out[0].s) {
	case "SET":
		// SET key value [NX|XX] [GET] [EX s|PX ms|EXAT ts|PXAT ts|KEEPTTL]: the options may come in any order
		if len(out) > 3 {
			var groups [][]tok
			rest := out[3:]
			for i := 0; i < len(rest); i++ {
				switch strings.ToUpper(rest[i].s) {
				case "EX", "PX", "EXAT", "PXAT":
					if i+1 < len(rest) {
						groups = append(groups, []tok{rest[i], rest[i+1]})
						i++
						continue
					}
				}
				groups = append(groups, []tok{rest[i]})
			}
			sort.SliceStable(groups, func(i, j int) bool { return strings.ToUpper(groups[i][0].s) < strings.ToUpper(groups[j][0].s) })
			out = out[:3]
			for _, g := range groups {
				out = append(out, g...)
			}
		}
	case "XADD", "XTRIM":
		// MAXLEN|MINID [=|~] threshold: "=" is the default
		for i := 1; i+1 < len(out); i++ {
			if (isWord(out[i], "MAXLEN") || isWord(out[i], "MINID")) && out[i+1].s == "=" {
				out = append(out[:i+1], out[i+2:]...)
				break
			}
		}
	case "PUBSUB":
		// PUBSUB CHANNELS|SHARDCHANNELS [pattern]: no pattern = all = "*"
		if len(out) == 3 && (isWord(out[1], "CHANNELS") || isWord(out[1], "SHARDCHANNELS")) && out[2].s == "*" {
			out = out[:2]
		}
	}
	return out
}

func numEqual(a, b string) bool {
	if a == b {
		return true
	}
	if x, err := strconv.ParseInt(a, 10, 64); err == nil {
		if y, err := strconv.ParseInt(b, 10, 64); err == nil {
			return x == y
		}
	}
	if x, err := strconv.ParseUint(a, 10, 64); err == nil {
		if y, err := strconv.ParseUint(b, 10, 64); err == nil {
			return x == y
		}
		return false // an unsigned value against a negative / non-integer spelling
	}
	x, err1 := strconv.ParseFloat(a, 64)
	y, err2 := strconv.ParseFloat(b, 64)
	return err1 == nil && err2 == nil && x == y
}

// compare returns -1 when got matches want, else the index of the first differing argument.
func compare(want []tok, got []string) int {
	g := make([]tok, len(got))
	for i, s := range got {
		g[i] = tok{s: s}
	}
	w, g := canonical(want), canonical(g)
	for i := 0; i < len(w) && i < len(g); i++ {
		ok := false
		switch w[i].kind {
		case 'K':
			ok = strings.EqualFold(w[i].s, g[i].s)
		case 'N':
			ok = numEqual(w[i].s, g[i].s)
		default:
			ok = w[i].s == g[i].s
		}
		if !ok {
			return i
		}
	}
	if len(w) != len(g) {
		if len(w) < len(g) {
			return len(w)
		}
		return len(g)
	}
	return -1
}

func strsOf(t []tok) []string {
	out := make([]string, len(t))
	for i, x := range t {
		out[i] = x.s
	}
	return out
}

func allEntries() []entry {
	var all []entry
	for _, t := range [][]entry{table1, table2, table3, table4} {
		all = append(all, t...)
	}
	return all
}

// C42: the adapter sends the same commands as go-redis (reference = transcription).
func TestC42(t *testing.T) {
	run := mon.Start(t, "C42", "exploration",
		"for each adapter method with a transcribed go-redis reference: random arguments incl. option-struct corners (zero values, zero / negative counts, KeepTTL, Get / NX / XX flags, durations of 0, < 1 ms, < 1 s, fractional and negative seconds, cursors >= 2^63, nil / []byte / int / uint / bool / float / time values for interface{} parameters, slice / map forms of variadic arguments); "+
			"the argv fakeredis received for adapter.M(args) is compared with ref.M(args) after normalisation; a case = (method, corner tags of the generated arguments); non-trivial when the command has at least one argument")
	defer run.Finish()

	entries := allEntries()
	// denominator: the methods of the Cmdable interface
	ct := reflect.TypeOf((*rueidiscompat.Cmdable)(nil)).Elem()
	names := map[string]bool{}
	for i := 0; i < ct.NumMethod(); i++ {
		names[ct.Method(i).Name] = true
	}
	covered := map[string]bool{}
	for _, e := range entries {
		if !names[e.name] {
			t.Fatalf("reference entry %q is not a Cmdable method", e.name)
		}
		if covered[e.name] {
			t.Fatalf("duplicate reference entry %q", e.name)
		}
		covered[e.name] = true
	}
	var uncovered []string
	for n := range names {
		if !covered[n] {
			uncovered = append(uncovered, n)
		}
	}
	sort.Strings(uncovered)
	run.Extra("cmdable_methods", len(names))
	run.Extra("methods_with_reference", len(covered))
	run.Extra("methods_without_reference", uncovered)
	run.Assume(fmt.Sprintf("the reference is a TRANSCRIPTION of go-redis v9's argument construction written from memory of its source (go-redis is not available offline); it covers %d of the %d methods of rueidiscompat.Cmdable, with argument domains restricted to those the transcription is sure of; the other %d methods are listed as methods_without_reference and are not judged",
		len(covered), len(names), len(uncovered)),
		"argument kinds in the reference (keyword / number / opaque bytes) decide what the normaliser may equate: keywords modulo letter case, numbers modulo spelling, keys / values / members / ids byte for byte",
		"equated command forms: SET option order, MAXLEN|MINID '=' (default) in XADD / XTRIM, PUBSUB CHANNELS without pattern vs '*'")

	s := fakeredis.New(fakeredis.Options{}, addr)
	defer s.Close()
	o := drv.Option(s, addr)
	o.DisableCache, o.ForceSingleClient, o.DisableRetry = true, true, true
	o.Dialer.KeepAlive = time.Hour // no background PINGs between the calls
	cl, err := rueidis.NewClient(o)
	if err != nil {
		t.Fatal(err)
	}
	defer cl.Close()
	// every command of the adapter is answered with an error at once: nothing blocks, nothing depends on server state;
	// what matters is the argv that arrived
	refuse := resp.Err("ERR c42 refuses every command")
	s.Plan(&fakeredis.Rule{Name: "refuse", Match: func(_ *fakeredis.Conn, argv []string) bool { return !housekeeping(argv) },
		Action: fakeredis.Action{Reply: &refuse}})
	ad := rueidiscompat.NewAdapter(cl)

	disagree := map[string]int{}
	defer func() { run.Extra("disagreements_by_key", disagree) }()
	rng := run.Rand("args")
	per := run.N(600, 20000)
	sampled := 0
	for _, e := range entries {
		matched := 0
		for i := 0; i < per; i++ {
			g := &gen{r: rand.New(rand.NewSource(rng.Int63()))}
			call, want := e.gen(g)
			sort.Strings(g.shape)
			shape := strings.Join(g.shape, "+")
			s.ResetLog()
			panicked := ""
			func() {
				defer func() {
					if p := recover(); p != nil {
						panicked = fmt.Sprint(p)
					}
				}()
				call(ad)
			}()
			var got [][]string
			for _, ev := range s.Log() {
				if ev.Kind == "recv" && ev.Conn != 0 && !housekeeping(ev.Argv) {
					got = append(got, ev.Argv)
				}
			}
			run.Case(e.name+"|"+shape, len(want) > 1)
			wit := map[string]any{"method": e.name, "argument_corners": shape, "go_redis": strsOf(want), "adapter": got}
			switch {
			case panicked != "":
				wit["panic"] = panicked
				disagree["panic:"+e.name+"/"+shape]++
				run.Violation("panic", e.name+"/"+shape, wit)
				continue
			case len(got) != 1:
				disagree["count:"+e.name+"/"+shape]++
				run.Violation("command-count", e.name+"/"+shape, wit)
				continue
			}
			run.Observe("argv_compared", 1)
			if idx := compare(want, got[0]); idx >= 0 {
				// name the finding by the method and the corner of the differing argument (or of the call)
				corner := shape
				cw := canonical(want)
				if idx < len(cw) && cw[idx].tag != "" {
					corner = cw[idx].tag
				}
				wit["first_difference_at"] = idx
				disagree[e.name+"/"+corner]++
				run.Violation("argv-mismatch", e.name+"/"+corner, wit)
				continue
			}
			matched++
			if shape != "" {
				run.Observe("option_corner_cases_matched", 1)
			}
			if sampled < 6 && i == 3 {
				sampled++
				run.Sample(map[string]any{"method": e.name, "corners": shape, "argv": got[0]})
			}
		}
		if matched > 0 {
			run.Observe("methods_with_a_match", 1)
		}
	}
	run.Observe("methods_referenced", int64(len(covered)))
	run.Require("argv_compared", "option_corner_cases_matched", "methods_with_a_match")
}
