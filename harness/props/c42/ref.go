package c42

// The reference side of C42: a TRANSCRIPTION, written from knowledge of go-redis v9's commands.go (and its
// *_commands.go files), of the argv go-redis builds for a call. go-redis itself is not available in this sandbox.
// Only methods whose argument construction the author is sure of are listed; argument domains are restricted to
// those for which that is the case (see the comments at the entries).

import (
	"fmt"
	"math/rand"
	"strconv"
	"strings"
	"time"

	"github.com/redis/rueidis/rueidiscompat"
)

type C = rueidiscompat.Cmdable

// tok is one expected argument. kind: 'K' keyword (letter case free), 'N' number (equivalent spellings allowed),
// 'V' opaque bytes: key, value, member, id, pattern (must be identical).
type tok struct {
	s    string
	kind byte
	tag  string // names the argument-generation corner this token comes from (used in violation keys)
}

func V(s string) tok  { return tok{s: s, kind: 'V'} }
func N(i int64) tok   { return tok{s: strconv.FormatInt(i, 10), kind: 'N'} }
func U(u uint64) tok  { return tok{s: strconv.FormatUint(u, 10), kind: 'N'} }
func F(f float64) tok { return tok{s: strconv.FormatFloat(f, 'f', -1, 64), kind: 'N'} } // go-redis appendArg(float64)
func K(s string) tok  { return tok{s: s, kind: 'K'} }
func Vs(ss []string) []tok {
	out := make([]tok, len(ss))
	for i, s := range ss {
		out[i] = V(s)
	}
	return out
}

// ref flattens: string = keyword, tok, []tok, []string = opaque values, int / int64 = number.
func ref(parts ...any) []tok {
	var out []tok
	for _, p := range parts {
		switch p := p.(type) {
		case string:
			out = append(out, K(p))
		case tok:
			out = append(out, p)
		case []tok:
			out = append(out, p...)
		case []string:
			out = append(out, Vs(p)...)
		case int:
			out = append(out, N(int64(p)))
		case int64:
			out = append(out, N(p))
		default:
			panic(fmt.Sprintf("ref: %T", p))
		}
	}
	return out
}

// go-redis internal helpers, transcribed
func goUsePrecise(d time.Duration) bool { return d < time.Second || d%time.Second != 0 }
func goFormatMs(d time.Duration) int64 {
	if d > 0 && d < time.Millisecond {
		return 1
	}
	return int64(d / time.Millisecond)
}
func goFormatSec(d time.Duration) int64 {
	if d > 0 && d < time.Second {
		return 1
	}
	return int64(d / time.Second)
}

// goArg: go-redis' appendArg for the value types generated here.
func goArg(v any) string {
	switch v := v.(type) {
	case nil:
		return ""
	case string:
		return v
	case []byte:
		return string(v)
	case int:
		return strconv.Itoa(v)
	case int64:
		return strconv.FormatInt(v, 10)
	case uint64:
		return strconv.FormatUint(v, 10)
	case float64:
		return strconv.FormatFloat(v, 'f', -1, 64)
	case bool:
		if v {
			return "1"
		}
		return "0"
	case time.Time:
		return v.Format(time.RFC3339Nano)
	case time.Duration:
		return strconv.FormatInt(v.Nanoseconds(), 10)
	}
	panic(fmt.Sprintf("goArg: %T", v))
}

type gen struct {
	r     *rand.Rand
	n     int
	shape []string
	big   bool
}

func tagged(t tok, tag string) tok { t.tag = tag; return t }

// cur: the reference token of a SCAN cursor
func (g *gen) cur(c uint64) tok {
	if c >= 1<<63 {
		return tagged(U(c), "cursor>=2^63")
	}
	return U(c)
}

func (g *gen) tok(p string) string     { g.n++; return fmt.Sprintf("%s%d", p, g.n) }
func (g *gen) key() string             { return g.tok("key:") }
func (g *gen) tagf(f string, a ...any) { g.shape = append(g.shape, fmt.Sprintf(f, a...)) }
func (g *gen) keys(min, max int) []string {
	n := min + g.r.Intn(max-min+1)
	out := make([]string, n)
	for i := range out {
		out[i] = g.key()
	}
	return out
}
func (g *gen) strs(p string, min, max int) []string {
	n := min + g.r.Intn(max-min+1)
	out := make([]string, n)
	for i := range out {
		out[i] = g.tok(p)
	}
	return out
}
func (g *gen) flip() bool               { return g.r.Intn(2) == 0 }
func (g *gen) pick(ss ...string) string { return ss[g.r.Intn(len(ss))] }

// i64: small, zero, negative and large integers
func (g *gen) i64() int64 {
	switch g.r.Intn(8) {
	case 0:
		return 0
	case 1:
		return -int64(1 + g.r.Intn(50))
	case 2:
		return int64(g.r.Intn(1 << 40))
	}
	return int64(1 + g.r.Intn(200))
}
func (g *gen) pos() int64 { return int64(1 + g.r.Intn(300)) }

// count: an optional count as go-redis methods take it; the corner is tagged
func (g *gen) count(what string) int64 {
	switch g.r.Intn(6) {
	case 0:
		g.tagf("%s=0", what)
		return 0
	case 1:
		g.tagf("%s<0", what)
		return -int64(1 + g.r.Intn(9))
	}
	return g.pos()
}

// f64: floats that print without exponent in every formatter, plus integers-as-floats
func (g *gen) f64() float64 {
	switch g.r.Intn(4) {
	case 0:
		return float64(g.r.Intn(100))
	case 1:
		return -float64(g.r.Intn(1000)) / 8
	}
	return float64(g.r.Intn(100000)) / 16
}

// dur picks a duration from the given categories: z zero, u below 1 ms, m below 1 s (whole ms), s whole seconds,
// f fractional seconds (whole ms), n negative whole seconds, k KeepTTL (-1).
func (g *gen) dur(cats string) time.Duration {
	switch c := cats[g.r.Intn(len(cats))]; c {
	case 'z':
		g.tagf("dur=0")
		return 0
	case 'u':
		g.tagf("dur<1ms")
		return time.Duration(1+g.r.Intn(999)) * time.Microsecond
	case 'm':
		g.tagf("dur<1s")
		return time.Duration(1+g.r.Intn(999)) * time.Millisecond
	case 'f':
		g.tagf("dur=frac-s")
		return time.Duration(1+g.r.Intn(50))*time.Second + time.Duration(1+g.r.Intn(999))*time.Millisecond
	case 'n':
		g.tagf("dur<0")
		return -time.Duration(2+g.r.Intn(50)) * time.Second
	case 'k':
		g.tagf("dur=KeepTTL")
		return rueidiscompat.KeepTTL
	}
	return time.Duration(1+g.r.Intn(5000)) * time.Second
}

func (g *gen) tm() time.Time {
	return time.Unix(1_900_000_000+int64(g.r.Intn(1_000_000)), int64(g.r.Intn(1_000_000_000))).UTC()
}

// any: a value for an `interface{}` parameter, with the bytes go-redis writes for it
func (g *gen) any() (any, tok) {
	switch g.r.Intn(30) {
	case 0, 1:
		b := []byte(g.tok("bytes:"))
		return b, V(string(b))
	case 2, 3:
		i := int(g.i64())
		return i, V(goArg(i))
	case 4:
		i := g.i64()
		return i, V(goArg(i))
	case 5:
		u := uint64(g.r.Int63())<<1 | 1
		return u, V(goArg(u))
	case 6:
		b := g.flip()
		return b, V(goArg(b))
	case 7, 8:
		f := g.f64()
		return f, V(goArg(f))
	case 9:
		// a float64 whose shortest %g form needs an exponent (>= 1e21 is not needed for that: fmt's %v switches at 1e+21
		// only for the exponent < 21 case of 'g' with shortest precision... it switches at exponent >= 21 or < -4)
		f := []float64{1e21, 2.5e22, 1e-5, 3.25e-7, 1e100}[g.r.Intn(5)]
		t := V(goArg(f))
		t.tag = "any=float64-exponent"
		return f, t
	case 10:
		d := time.Duration(g.r.Int63n(int64(time.Hour)))
		return d, V(goArg(d))
	case 11:
		t := g.tm()
		return t, V(goArg(t))
	case 12:
		return nil, V("")
	}
	s := g.tok("val:")
	return s, V(s)
}

func (g *gen) anys(n int) ([]any, []tok) {
	as, ts := make([]any, n), make([]tok, n)
	for i := range as {
		as[i], ts[i] = g.any()
	}
	return as, ts
}

// pairs: field/value arguments in one of the forms go-redis' appendArgs accepts
func (g *gen) pairs(min, max int) ([]any, []tok) {
	n := min + g.r.Intn(max-min+1)
	var flat []any
	var ts []tok
	allStr := true
	for i := 0; i < n; i++ {
		f := g.tok("fld:")
		v, vt := g.any()
		if _, ok := v.(string); !ok {
			allStr = false
		}
		flat = append(flat, f, v)
		ts = append(ts, V(f), vt)
	}
	switch g.r.Intn(5) {
	case 0:
		g.tagf("args=[]any")
		return []any{flat}, ts
	case 1:
		if allStr {
			g.tagf("args=[]string")
			ss := make([]string, len(flat))
			for i, x := range flat {
				ss[i] = x.(string)
			}
			return []any{ss}, ts
		}
	case 2:
		if n == 1 { // one entry: no iteration order to worry about
			g.tagf("args=map")
			if s, ok := flat[1].(string); ok && g.flip() {
				return []any{map[string]string{flat[0].(string): s}}, ts
			}
			return []any{map[string]any{flat[0].(string): flat[1]}}, ts
		}
	}
	return flat, ts
}

// members: variadic interface{} members
func (g *gen) members(min, max int) ([]any, []tok) {
	n := min + g.r.Intn(max-min+1)
	as, ts := g.anys(n)
	if n == 1 {
		// a single nil makes go-redis' appendArg panic and a single time.Time takes a special path there: not generated
		switch as[0].(type) {
		case nil, time.Time:
			s := g.tok("val:")
			as[0], ts[0] = s, V(s)
		}
	}
	if g.r.Intn(4) == 0 {
		g.tagf("args=[]any")
		return []any{as}, ts
	}
	return as, ts
}

type entry struct {
	name string
	gen  func(g *gen) (call func(c C), want []tok)
}

func lower(s string) string { return strings.ToLower(s) }
