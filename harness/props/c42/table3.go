package c42

import (
	"time"

	"github.com/redis/rueidis/rueidiscompat"
)

func (g *gen) sid() string { return g.pick("0", "$", "0-0", ">") }
func (g *gen) xid() string {
	return g.tok("17") + "-" + g.pick("0", "1", "7")
}

// msDur: whole milliseconds only (go-redis divides by time.Millisecond without the "below 1ms is 1" rule in some places)
func (g *gen) msDur() time.Duration {
	switch g.r.Intn(4) {
	case 0:
		g.tagf("dur=0")
		return 0
	case 1:
		return time.Duration(1+g.r.Intn(999)) * time.Millisecond
	}
	return time.Duration(1+g.r.Intn(100000)) * time.Millisecond
}

func zstore(g *gen) (rueidiscompat.ZStore, []tok) {
	var s rueidiscompat.ZStore
	s.Keys = g.keys(1, 3)
	w := ref(len(s.Keys), s.Keys)
	if g.flip() { // go-redis weights are float64; whole numbers are generated
		w = append(w, K("WEIGHTS"))
		for range s.Keys {
			x := int64(1 + g.r.Intn(9))
			s.Weights = append(s.Weights, x)
			w = append(w, N(x))
		}
	}
	s.Aggregate = g.pick("", "SUM", "MIN", "MAX", "max")
	if s.Aggregate != "" {
		w = append(w, K("AGGREGATE"), K(s.Aggregate))
	}
	return s, w
}

func zmembers(g *gen) ([]rueidiscompat.Z, []tok) {
	n := 1 + g.r.Intn(3)
	var zs []rueidiscompat.Z
	var w []tok
	for i := 0; i < n; i++ {
		z := rueidiscompat.Z{Member: g.tok("mem:"), Score: g.f64()}
		zs = append(zs, z)
		w = append(w, F(z.Score), V(z.Member))
	}
	return zs, w
}

func zaddFixed(name, flag string, f func(c C, k string, zs []rueidiscompat.Z)) entry {
	return entry{name, func(g *gen) (call, []tok) {
		k := g.key()
		zs, w := zmembers(g)
		if flag != "" {
			return func(c C) { f(c, k, zs) }, ref("ZADD", V(k), flag, w)
		}
		return func(c C) { f(c, k, zs) }, ref("ZADD", V(k), w)
	}}
}

func zaddArgs(g *gen, incr bool) (rueidiscompat.ZAddArgs, []tok) {
	var a rueidiscompat.ZAddArgs
	a.NX, a.XX, a.GT, a.LT, a.Ch = g.r.Intn(4) == 0, g.r.Intn(3) == 0, g.r.Intn(3) == 0, g.r.Intn(3) == 0, g.flip()
	var w []tok
	if a.NX {
		w = append(w, K("NX"))
	} else {
		if a.XX {
			w = append(w, K("XX"))
		}
		if a.GT {
			w = append(w, K("GT"))
		} else if a.LT {
			w = append(w, K("LT"))
		}
	}
	if a.Ch {
		w = append(w, K("CH"))
	}
	if incr {
		w = append(w, K("INCR"))
	}
	var mw []tok
	a.Members, mw = zmembers(g)
	return a, append(w, mw...)
}

func minmax(g *gen, lex bool) (string, string) {
	if lex {
		return g.pick("-", "[a", "(b"), g.pick("+", "[y", "(z")
	}
	return g.pick("-inf", "0", "(1", "1.5"), g.pick("+inf", "inf", "100", "(200")
}

func zrangeBy(name, cmd string, lex, rev, withScores bool, f func(c C, k string, by rueidiscompat.ZRangeBy)) entry {
	return entry{name, func(g *gen) (call, []tok) {
		k := g.key()
		var by rueidiscompat.ZRangeBy
		by.Min, by.Max = minmax(g, lex)
		switch g.r.Intn(4) {
		case 0:
			by.Offset, by.Count = g.pos(), g.i64()
		case 1:
			by.Count = g.pos()
			g.tagf("offset=0")
		case 2:
			by.Offset = g.pos()
			g.tagf("count=0")
		}
		w := ref(cmd, V(k), V(by.Min), V(by.Max))
		if rev {
			w = ref(cmd, V(k), V(by.Max), V(by.Min))
		}
		if withScores {
			w = append(w, K("WITHSCORES"))
		}
		if by.Offset != 0 || by.Count != 0 {
			w = append(w, K("LIMIT"), N(by.Offset), N(by.Count))
		}
		return func(c C) { f(c, k, by) }, w
	}}
}

// go-redis ZRangeArgs.appendArgs: with Rev and (ByScore or ByLex) it writes <Stop> <Start> (the caller gives the
// range low..high and go-redis puts it into the order ZRANGE ... REV wants); otherwise <Start> <Stop>.
func zrangeArgs(g *gen) (rueidiscompat.ZRangeArgs, []tok) {
	var z rueidiscompat.ZRangeArgs
	z.Key = g.key()
	var st, sp tok
	switch g.r.Intn(3) {
	case 0:
		z.ByScore = true
		a, b := minmax(g, false)
		z.Start, z.Stop, st, sp = a, b, V(a), V(b)
		if g.flip() {
			x, y := g.r.Intn(50), 50+g.r.Intn(50)
			z.Start, z.Stop, st, sp = x, y, N(int64(x)), N(int64(y))
		}
	case 1:
		z.ByLex = true
		a, b := minmax(g, true)
		z.Start, z.Stop, st, sp = a, b, V(a), V(b)
	default:
		x, y := g.i64(), g.i64()
		z.Start, z.Stop, st, sp = x, y, N(x), N(y)
	}
	z.Rev = g.flip()
	w := ref(V(z.Key), st, sp)
	if z.Rev && (z.ByScore || z.ByLex) {
		st.tag, sp.tag = "rev+by", "rev+by"
		w = ref(V(z.Key), sp, st)
	}
	if z.ByScore {
		w = append(w, K("BYSCORE"))
	} else if z.ByLex {
		w = append(w, K("BYLEX"))
	}
	if z.Rev {
		w = append(w, K("REV"))
	}
	if g.flip() {
		z.Offset, z.Count = g.i64(), g.pos()
		if z.Offset != 0 || z.Count != 0 {
			w = append(w, K("LIMIT"), N(z.Offset), N(z.Count))
		}
	}
	return z, w
}

func keyMember(name, cmd string, f func(c C, k, m string), tail ...string) entry {
	return entry{name, func(g *gen) (call, []tok) {
		k, m := g.key(), g.tok("mem:")
		w := ref(cmd, V(k), V(m))
		for _, t := range tail {
			w = append(w, K(t))
		}
		return func(c C) { f(c, k, m) }, w
	}}
}

func keyRange(name, cmd string, f func(c C, k string, a, b int64), tail ...string) entry {
	return entry{name, func(g *gen) (call, []tok) {
		k, a, b := g.key(), g.i64(), g.i64()
		w := ref(cmd, V(k), a, b)
		for _, t := range tail {
			w = append(w, K(t))
		}
		return func(c C) { f(c, k, a, b) }, w
	}}
}

func keyMinMax(name, cmd string, lex bool, f func(c C, k, min, max string)) entry {
	return entry{name, func(g *gen) (call, []tok) {
		k := g.key()
		a, b := minmax(g, lex)
		return func(c C) { f(c, k, a, b) }, ref(cmd, V(k), V(a), V(b))
	}}
}

func xgroup3(name, sub string, f func(c C, s, grp, x string), tail ...string) entry {
	return entry{name, func(g *gen) (call, []tok) {
		s, grp, x := g.key(), g.tok("grp:"), g.tok("x:")
		w := ref("XGROUP", sub, V(s), V(grp), V(x))
		for _, t := range tail {
			w = append(w, K(t))
		}
		return func(c C) { f(c, s, grp, x) }, w
	}}
}

func xtrim(name, strategy string, approx bool, f func(c C, k string, thr string, n, limit int64)) entry {
	return entry{name, func(g *gen) (call, []tok) {
		k, n, id, limit := g.key(), g.pos(), g.xid(), g.count("limit")
		w := ref("XTRIM", V(k), strategy)
		if approx {
			w = append(w, V("~"))
		}
		if strategy == "MAXLEN" {
			w = append(w, N(n))
		} else {
			w = append(w, V(id))
		}
		if approx && limit > 0 {
			w = append(w, K("LIMIT"), N(limit))
		}
		return func(c C) { f(c, k, id, n, limit) }, w
	}}
}

var table3 = []entry{
	// ------------------------------------------------------------------ streams
	{"XAdd", func(g *gen) (call, []tok) { // the option set of go-redis v9.7 (no producer id / idempotency fields)
		a := rueidiscompat.XAddArgs{Stream: g.key()}
		w := ref("XADD", V(a.Stream))
		if g.r.Intn(3) == 0 {
			a.NoMkStream = true
			w = append(w, K("NOMKSTREAM"))
		}
		a.Approx = g.flip()
		switch g.r.Intn(4) {
		case 0:
			a.MaxLen = g.pos()
			if g.r.Intn(3) == 0 {
				a.MinID = g.xid() // MaxLen wins
				g.tagf("maxlen+minid")
			}
			w = append(w, K("MAXLEN"))
			if a.Approx {
				w = append(w, V("~"))
			}
			w = append(w, N(a.MaxLen))
		case 1:
			a.MinID = g.xid()
			w = append(w, K("MINID"))
			if a.Approx {
				w = append(w, V("~"))
			}
			w = append(w, V(a.MinID))
		}
		a.Limit = []int64{0, 0, g.pos(), -3}[g.r.Intn(4)]
		if a.Limit > 0 {
			w = append(w, K("LIMIT"), N(a.Limit))
		}
		if g.flip() {
			a.ID = g.xid()
			w = append(w, V(a.ID))
		} else {
			g.tagf("id=auto")
			w = append(w, V("*"))
		}
		switch g.r.Intn(3) {
		case 0:
			ss := g.strs("xf:", 2, 2)
			a.Values = ss
			w = append(w, Vs(ss)...)
			g.tagf("values=[]string")
		case 1:
			f := g.tok("xf:")
			v, vt := g.any()
			a.Values = []any{f, v}
			w = append(w, V(f), vt)
			g.tagf("values=[]any")
		default:
			f := g.tok("xf:")
			v, vt := g.any()
			a.Values = map[string]any{f: v}
			w = append(w, V(f), vt)
			g.tagf("values=map")
		}
		return func(c C) { c.XAdd(ctx, a) }, w
	}},
	{"XDel", func(g *gen) (call, []tok) {
		k, ids := g.key(), []string{g.xid(), g.xid()}
		return func(c C) { c.XDel(ctx, k, ids...) }, ref("XDEL", V(k), ids)
	}},
	keyOnly("XLen", "XLEN", func(c C, k string) { c.XLen(ctx, k) }),
	{"XRange", func(g *gen) (call, []tok) {
		k, a, b := g.key(), g.pick("-", g.xid()), g.pick("+", g.xid())
		return func(c C) { c.XRange(ctx, k, a, b) }, ref("XRANGE", V(k), V(a), V(b))
	}},
	{"XRangeN", func(g *gen) (call, []tok) {
		k, a, b, n := g.key(), g.pick("-", g.xid()), g.pick("+", g.xid()), g.i64()
		return func(c C) { c.XRangeN(ctx, k, a, b, n) }, ref("XRANGE", V(k), V(a), V(b), "COUNT", n)
	}},
	{"XRevRange", func(g *gen) (call, []tok) {
		k, a, b := g.key(), g.pick("+", g.xid()), g.pick("-", g.xid())
		return func(c C) { c.XRevRange(ctx, k, a, b) }, ref("XREVRANGE", V(k), V(a), V(b))
	}},
	{"XRevRangeN", func(g *gen) (call, []tok) {
		k, a, b, n := g.key(), g.pick("+", g.xid()), g.pick("-", g.xid()), g.i64()
		return func(c C) { c.XRevRangeN(ctx, k, a, b, n) }, ref("XREVRANGE", V(k), V(a), V(b), "COUNT", n)
	}},
	{"XRead", func(g *gen) (call, []tok) { // Block: -1, 0 or whole milliseconds
		ks := g.keys(1, 3)
		a := rueidiscompat.XReadArgs{Streams: append([]string{}, ks...), Count: g.count("count"), Block: -1}
		for range ks {
			a.Streams = append(a.Streams, g.sid())
		}
		w := ref("XREAD")
		if a.Count > 0 {
			w = append(w, K("COUNT"), N(a.Count))
		}
		if g.flip() {
			a.Block = g.msDur()
			w = append(w, K("BLOCK"), N(int64(a.Block/time.Millisecond)))
		} else {
			g.tagf("noblock")
		}
		return func(c C) { c.XRead(ctx, a) }, ref(w, "STREAMS", a.Streams)
	}},
	{"XReadStreams", func(g *gen) (call, []tok) {
		ss := append(g.keys(2, 2), "0", "$")
		return func(c C) { c.XReadStreams(ctx, ss...) }, ref("XREAD", "STREAMS", ss)
	}},
	xgroup3("XGroupCreate", "CREATE", func(c C, s, grp, x string) { c.XGroupCreate(ctx, s, grp, x) }),
	xgroup3("XGroupCreateMkStream", "CREATE", func(c C, s, grp, x string) { c.XGroupCreateMkStream(ctx, s, grp, x) }, "MKSTREAM"),
	xgroup3("XGroupSetID", "SETID", func(c C, s, grp, x string) { c.XGroupSetID(ctx, s, grp, x) }),
	xgroup3("XGroupCreateConsumer", "CREATECONSUMER", func(c C, s, grp, x string) { c.XGroupCreateConsumer(ctx, s, grp, x) }),
	xgroup3("XGroupDelConsumer", "DELCONSUMER", func(c C, s, grp, x string) { c.XGroupDelConsumer(ctx, s, grp, x) }),
	{"XGroupDestroy", func(g *gen) (call, []tok) {
		s, grp := g.key(), g.tok("grp:")
		return func(c C) { c.XGroupDestroy(ctx, s, grp) }, ref("XGROUP", "DESTROY", V(s), V(grp))
	}},
	{"XReadGroup", func(g *gen) (call, []tok) {
		ks := g.keys(1, 2)
		a := rueidiscompat.XReadGroupArgs{Group: g.tok("grp:"), Consumer: g.tok("con:"), Streams: append([]string{}, ks...), Count: g.count("count"), Block: -1, NoAck: g.flip()}
		for range ks {
			a.Streams = append(a.Streams, g.sid())
		}
		w := ref("XREADGROUP", "GROUP", V(a.Group), V(a.Consumer))
		if a.Count > 0 {
			w = append(w, K("COUNT"), N(a.Count))
		}
		if g.flip() {
			a.Block = g.msDur()
			w = append(w, K("BLOCK"), N(int64(a.Block/time.Millisecond)))
		}
		if a.NoAck {
			w = append(w, K("NOACK"))
		}
		return func(c C) { c.XReadGroup(ctx, a) }, ref(w, "STREAMS", a.Streams)
	}},
	{"XAck", func(g *gen) (call, []tok) {
		s, grp, ids := g.key(), g.tok("grp:"), []string{g.xid(), g.xid()}
		return func(c C) { c.XAck(ctx, s, grp, ids...) }, ref("XACK", V(s), V(grp), ids)
	}},
	{"XPending", func(g *gen) (call, []tok) {
		s, grp := g.key(), g.tok("grp:")
		return func(c C) { c.XPending(ctx, s, grp) }, ref("XPENDING", V(s), V(grp))
	}},
	{"XPendingExt", func(g *gen) (call, []tok) {
		a := rueidiscompat.XPendingExtArgs{Stream: g.key(), Group: g.tok("grp:"), Start: "-", End: "+", Count: g.i64()}
		w := ref("XPENDING", V(a.Stream), V(a.Group))
		if g.flip() {
			a.Idle = g.dur("umsf")
			w = append(w, K("IDLE"), N(goFormatMs(a.Idle)))
		}
		w = append(w, V(a.Start), V(a.End), N(a.Count))
		if g.flip() {
			a.Consumer = g.tok("con:")
			w = append(w, V(a.Consumer))
		}
		return func(c C) { c.XPendingExt(ctx, a) }, w
	}},
	{"XClaim", func(g *gen) (call, []tok) { // MinIdle in whole milliseconds
		a := rueidiscompat.XClaimArgs{Stream: g.key(), Group: g.tok("grp:"), Consumer: g.tok("con:"), MinIdle: g.msDur(), Messages: []string{g.xid(), g.xid()}}
		return func(c C) { c.XClaim(ctx, a) }, ref("XCLAIM", V(a.Stream), V(a.Group), V(a.Consumer), int64(a.MinIdle/time.Millisecond), a.Messages)
	}},
	{"XClaimJustID", func(g *gen) (call, []tok) {
		a := rueidiscompat.XClaimArgs{Stream: g.key(), Group: g.tok("grp:"), Consumer: g.tok("con:"), MinIdle: g.msDur(), Messages: []string{g.xid()}}
		return func(c C) { c.XClaimJustID(ctx, a) }, ref("XCLAIM", V(a.Stream), V(a.Group), V(a.Consumer), int64(a.MinIdle/time.Millisecond), a.Messages, "JUSTID")
	}},
	{"XAutoClaim", func(g *gen) (call, []tok) {
		a := rueidiscompat.XAutoClaimArgs{Stream: g.key(), Group: g.tok("grp:"), Consumer: g.tok("con:"), MinIdle: g.dur("zumsf"), Start: g.pick("0", "0-0", g.xid()), Count: g.count("count")}
		w := ref("XAUTOCLAIM", V(a.Stream), V(a.Group), V(a.Consumer), goFormatMs(a.MinIdle), V(a.Start))
		if a.Count > 0 {
			w = append(w, K("COUNT"), N(a.Count))
		}
		return func(c C) { c.XAutoClaim(ctx, a) }, w
	}},
	{"XAutoClaimJustID", func(g *gen) (call, []tok) {
		a := rueidiscompat.XAutoClaimArgs{Stream: g.key(), Group: g.tok("grp:"), Consumer: g.tok("con:"), MinIdle: g.dur("zumsf"), Start: g.pick("0", "0-0"), Count: g.count("count")}
		w := ref("XAUTOCLAIM", V(a.Stream), V(a.Group), V(a.Consumer), goFormatMs(a.MinIdle), V(a.Start))
		if a.Count > 0 {
			w = append(w, K("COUNT"), N(a.Count))
		}
		return func(c C) { c.XAutoClaimJustID(ctx, a) }, append(w, K("JUSTID"))
	}},
	xtrim("XTrimMaxLen", "MAXLEN", false, func(c C, k, _ string, n, _ int64) { c.XTrimMaxLen(ctx, k, n) }),
	xtrim("XTrimMaxLenApprox", "MAXLEN", true, func(c C, k, _ string, n, l int64) { c.XTrimMaxLenApprox(ctx, k, n, l) }),
	xtrim("XTrimMinID", "MINID", false, func(c C, k, id string, _, _ int64) { c.XTrimMinID(ctx, k, id) }),
	xtrim("XTrimMinIDApprox", "MINID", true, func(c C, k, id string, _, l int64) { c.XTrimMinIDApprox(ctx, k, id, l) }),
	{"XInfoGroups", func(g *gen) (call, []tok) {
		k := g.key()
		return func(c C) { c.XInfoGroups(ctx, k) }, ref("XINFO", "GROUPS", V(k))
	}},
	{"XInfoStream", func(g *gen) (call, []tok) {
		k := g.key()
		return func(c C) { c.XInfoStream(ctx, k) }, ref("XINFO", "STREAM", V(k))
	}},
	// go-redis: "xinfo stream key full" and COUNT only when count > 0
	{"XInfoStreamFull", func(g *gen) (call, []tok) {
		k, n := g.key(), []int64{0, g.pos(), g.pos()}[g.r.Intn(3)]
		w := ref("XINFO", "STREAM", V(k), "FULL")
		if n > 0 {
			w = append(w, K("COUNT"), N(n))
		} else {
			g.tagf("count=0")
		}
		return func(c C) { c.XInfoStreamFull(ctx, k, n) }, w
	}},
	{"XInfoConsumers", func(g *gen) (call, []tok) {
		k, grp := g.key(), g.tok("grp:")
		return func(c C) { c.XInfoConsumers(ctx, k, grp) }, ref("XINFO", "CONSUMERS", V(k), V(grp))
	}},
	// ------------------------------------------------------------------ sorted sets
	blockPop("BZPopMax", "BZPOPMAX", func(c C, d time.Duration, ks []string) { c.BZPopMax(ctx, d, ks...) }),
	blockPop("BZPopMin", "BZPOPMIN", func(c C, d time.Duration, ks []string) { c.BZPopMin(ctx, d, ks...) }),
	{"BZMPop", func(g *gen) (call, []tok) { // count >= 1, see LMPop
		d, o, n, ks := g.dur("zmsf"), g.pick("min", "max", "MIN", "MAX"), g.pos(), g.keys(1, 3)
		return func(c C) { c.BZMPop(ctx, d, o, n, ks...) }, ref("BZMPOP", goFormatSec(d), len(ks), ks, K(o), "COUNT", n)
	}},
	{"ZMPop", func(g *gen) (call, []tok) {
		o, n, ks := g.pick("min", "max", "MIN", "MAX"), g.pos(), g.keys(1, 3)
		return func(c C) { c.ZMPop(ctx, o, n, ks...) }, ref("ZMPOP", len(ks), ks, K(o), "COUNT", n)
	}},
	zaddFixed("ZAdd", "", func(c C, k string, zs []rueidiscompat.Z) { c.ZAdd(ctx, k, zs...) }),
	zaddFixed("ZAddNX", "NX", func(c C, k string, zs []rueidiscompat.Z) { c.ZAddNX(ctx, k, zs...) }),
	zaddFixed("ZAddXX", "XX", func(c C, k string, zs []rueidiscompat.Z) { c.ZAddXX(ctx, k, zs...) }),
	zaddFixed("ZAddLT", "LT", func(c C, k string, zs []rueidiscompat.Z) { c.ZAddLT(ctx, k, zs...) }),
	zaddFixed("ZAddGT", "GT", func(c C, k string, zs []rueidiscompat.Z) { c.ZAddGT(ctx, k, zs...) }),
	{"ZAddArgs", func(g *gen) (call, []tok) {
		k := g.key()
		a, w := zaddArgs(g, false)
		return func(c C) { c.ZAddArgs(ctx, k, a) }, ref("ZADD", V(k), w)
	}},
	{"ZAddArgsIncr", func(g *gen) (call, []tok) {
		k := g.key()
		a, w := zaddArgs(g, true)
		return func(c C) { c.ZAddArgsIncr(ctx, k, a) }, ref("ZADD", V(k), w)
	}},
	keyOnly("ZCard", "ZCARD", func(c C, k string) { c.ZCard(ctx, k) }),
	keyMinMax("ZCount", "ZCOUNT", false, func(c C, k, a, b string) { c.ZCount(ctx, k, a, b) }),
	keyMinMax("ZLexCount", "ZLEXCOUNT", true, func(c C, k, a, b string) { c.ZLexCount(ctx, k, a, b) }),
	keyMinMax("ZRemRangeByScore", "ZREMRANGEBYSCORE", false, func(c C, k, a, b string) { c.ZRemRangeByScore(ctx, k, a, b) }),
	keyMinMax("ZRemRangeByLex", "ZREMRANGEBYLEX", true, func(c C, k, a, b string) { c.ZRemRangeByLex(ctx, k, a, b) }),
	{"ZIncrBy", func(g *gen) (call, []tok) {
		k, f, m := g.key(), g.f64(), g.tok("mem:")
		return func(c C) { c.ZIncrBy(ctx, k, f, m) }, ref("ZINCRBY", V(k), F(f), V(m))
	}},
	{"ZInter", func(g *gen) (call, []tok) {
		s, w := zstore(g)
		return func(c C) { c.ZInter(ctx, s) }, ref("ZINTER", w)
	}},
	{"ZInterWithScores", func(g *gen) (call, []tok) {
		s, w := zstore(g)
		return func(c C) { c.ZInterWithScores(ctx, s) }, ref("ZINTER", w, "WITHSCORES")
	}},
	{"ZUnion", func(g *gen) (call, []tok) {
		s, w := zstore(g)
		return func(c C) { c.ZUnion(ctx, s) }, ref("ZUNION", w)
	}},
	{"ZUnionWithScores", func(g *gen) (call, []tok) {
		s, w := zstore(g)
		return func(c C) { c.ZUnionWithScores(ctx, s) }, ref("ZUNION", w, "WITHSCORES")
	}},
	{"ZInterStore", func(g *gen) (call, []tok) {
		d := g.key()
		s, w := zstore(g)
		return func(c C) { c.ZInterStore(ctx, d, s) }, ref("ZINTERSTORE", V(d), w)
	}},
	{"ZUnionStore", func(g *gen) (call, []tok) {
		d := g.key()
		s, w := zstore(g)
		return func(c C) { c.ZUnionStore(ctx, d, s) }, ref("ZUNIONSTORE", V(d), w)
	}},
	{"ZInterCard", func(g *gen) (call, []tok) {
		n, ks := g.i64(), g.keys(1, 3)
		return func(c C) { c.ZInterCard(ctx, n, ks...) }, ref("ZINTERCARD", len(ks), ks, "LIMIT", n)
	}},
	{"ZMScore", func(g *gen) (call, []tok) {
		k, ms := g.key(), g.strs("mem:", 1, 3)
		return func(c C) { c.ZMScore(ctx, k, ms...) }, ref("ZMSCORE", V(k), ms)
	}},
	{"ZPopMax", func(g *gen) (call, []tok) {
		k := g.key()
		if g.flip() {
			g.tagf("nocount")
			return func(c C) { c.ZPopMax(ctx, k) }, ref("ZPOPMAX", V(k))
		}
		n := g.i64()
		return func(c C) { c.ZPopMax(ctx, k, n) }, ref("ZPOPMAX", V(k), n)
	}},
	{"ZPopMin", func(g *gen) (call, []tok) {
		k := g.key()
		if g.flip() {
			g.tagf("nocount")
			return func(c C) { c.ZPopMin(ctx, k) }, ref("ZPOPMIN", V(k))
		}
		n := g.i64()
		return func(c C) { c.ZPopMin(ctx, k, n) }, ref("ZPOPMIN", V(k), n)
	}},
	keyRange("ZRange", "ZRANGE", func(c C, k string, a, b int64) { c.ZRange(ctx, k, a, b) }),
	keyRange("ZRangeWithScores", "ZRANGE", func(c C, k string, a, b int64) { c.ZRangeWithScores(ctx, k, a, b) }, "WITHSCORES"),
	keyRange("ZRevRange", "ZREVRANGE", func(c C, k string, a, b int64) { c.ZRevRange(ctx, k, a, b) }),
	keyRange("ZRevRangeWithScores", "ZREVRANGE", func(c C, k string, a, b int64) { c.ZRevRangeWithScores(ctx, k, a, b) }, "WITHSCORES"),
	keyRange("ZRemRangeByRank", "ZREMRANGEBYRANK", func(c C, k string, a, b int64) { c.ZRemRangeByRank(ctx, k, a, b) }),
	zrangeBy("ZRangeByScore", "ZRANGEBYSCORE", false, false, false, func(c C, k string, by rueidiscompat.ZRangeBy) { c.ZRangeByScore(ctx, k, by) }),
	zrangeBy("ZRangeByLex", "ZRANGEBYLEX", true, false, false, func(c C, k string, by rueidiscompat.ZRangeBy) { c.ZRangeByLex(ctx, k, by) }),
	zrangeBy("ZRangeByScoreWithScores", "ZRANGEBYSCORE", false, false, true, func(c C, k string, by rueidiscompat.ZRangeBy) { c.ZRangeByScoreWithScores(ctx, k, by) }),
	zrangeBy("ZRevRangeByScore", "ZREVRANGEBYSCORE", false, true, false, func(c C, k string, by rueidiscompat.ZRangeBy) { c.ZRevRangeByScore(ctx, k, by) }),
	zrangeBy("ZRevRangeByLex", "ZREVRANGEBYLEX", true, true, false, func(c C, k string, by rueidiscompat.ZRangeBy) { c.ZRevRangeByLex(ctx, k, by) }),
	zrangeBy("ZRevRangeByScoreWithScores", "ZREVRANGEBYSCORE", false, true, true, func(c C, k string, by rueidiscompat.ZRangeBy) { c.ZRevRangeByScoreWithScores(ctx, k, by) }),
	{"ZRangeArgs", func(g *gen) (call, []tok) {
		z, w := zrangeArgs(g)
		return func(c C) { c.ZRangeArgs(ctx, z) }, ref("ZRANGE", w)
	}},
	{"ZRangeArgsWithScores", func(g *gen) (call, []tok) {
		z, w := zrangeArgs(g)
		return func(c C) { c.ZRangeArgsWithScores(ctx, z) }, ref("ZRANGE", w, "WITHSCORES")
	}},
	{"ZRangeStore", func(g *gen) (call, []tok) {
		d := g.key()
		z, w := zrangeArgs(g)
		return func(c C) { c.ZRangeStore(ctx, d, z) }, ref("ZRANGESTORE", V(d), w)
	}},
	keyMember("ZRank", "ZRANK", func(c C, k, m string) { c.ZRank(ctx, k, m) }),
	keyMember("ZRankWithScore", "ZRANK", func(c C, k, m string) { c.ZRankWithScore(ctx, k, m) }, "WITHSCORE"),
	keyMember("ZRevRank", "ZREVRANK", func(c C, k, m string) { c.ZRevRank(ctx, k, m) }),
	keyMember("ZRevRankWithScore", "ZREVRANK", func(c C, k, m string) { c.ZRevRankWithScore(ctx, k, m) }, "WITHSCORE"),
	keyMember("ZScore", "ZSCORE", func(c C, k, m string) { c.ZScore(ctx, k, m) }),
	pushLike("ZRem", "ZREM", func(c C, k string, vs []any) { c.ZRem(ctx, k, vs...) }),
	keyCount("ZRandMember", "ZRANDMEMBER", func(c C, k string, n int64) { c.ZRandMember(ctx, k, n) }),
	keyCount("ZRandMemberWithScores", "ZRANDMEMBER", func(c C, k string, n int64) { c.ZRandMemberWithScores(ctx, k, n) }, "WITHSCORES"),
	{"ZDiff", func(g *gen) (call, []tok) {
		ks := g.keys(1, 3)
		return func(c C) { c.ZDiff(ctx, ks...) }, ref("ZDIFF", len(ks), ks)
	}},
	{"ZDiffWithScores", func(g *gen) (call, []tok) {
		ks := g.keys(1, 3)
		return func(c C) { c.ZDiffWithScores(ctx, ks...) }, ref("ZDIFF", len(ks), ks, "WITHSCORES")
	}},
	{"ZDiffStore", func(g *gen) (call, []tok) {
		d, ks := g.key(), g.keys(1, 3)
		return func(c C) { c.ZDiffStore(ctx, d, ks...) }, ref("ZDIFFSTORE", V(d), len(ks), ks)
	}},
}
