package c42

import (
	"time"

	"github.com/redis/rueidis/rueidiscompat"
)

func (g *gen) lon() float64 { return float64(g.r.Intn(3600)-1800) / 10 }
func (g *gen) lat() float64 { return float64(g.r.Intn(1600)-800) / 10 }

func geoRadiusQuery(g *gen, store bool) (rueidiscompat.GeoRadiusQuery, []tok) {
	q := rueidiscompat.GeoRadiusQuery{Radius: float64(1+g.r.Intn(5000)) / 4, Unit: g.pick("", "m", "km", "mi", "ft")}
	w := ref(F(q.Radius))
	if q.Unit != "" {
		w = append(w, K(q.Unit))
	} else {
		w = append(w, K("km"))
	}
	if !store {
		if q.WithCoord = g.flip(); q.WithCoord {
			w = append(w, K("WITHCOORD"))
		}
		if q.WithDist = g.flip(); q.WithDist {
			w = append(w, K("WITHDIST"))
		}
		if q.WithGeoHash = g.flip(); q.WithGeoHash {
			w = append(w, K("WITHHASH"))
		}
	}
	if q.Count = g.count("count"); q.Count > 0 {
		w = append(w, K("COUNT"), N(q.Count))
	}
	if q.Sort = g.pick("", "ASC", "DESC"); q.Sort != "" {
		w = append(w, K(q.Sort))
	}
	if store {
		if g.flip() {
			q.Store = g.key()
			w = append(w, K("STORE"), V(q.Store))
		}
		if q.Store == "" || g.flip() {
			q.StoreDist = g.key()
			w = append(w, K("STOREDIST"), V(q.StoreDist))
		}
	}
	return q, w
}

func geoSearchQuery(g *gen) (rueidiscompat.GeoSearchQuery, []tok) {
	var q rueidiscompat.GeoSearchQuery
	var w []tok
	if g.flip() {
		q.Member = g.tok("mem:")
		w = append(w, K("FROMMEMBER"), V(q.Member))
	} else {
		q.Longitude, q.Latitude = g.lon(), g.lat()
		w = append(w, K("FROMLONLAT"), F(q.Longitude), F(q.Latitude))
	}
	if g.flip() {
		q.Radius, q.RadiusUnit = float64(1+g.r.Intn(5000))/4, g.pick("", "m", "km", "mi")
		u := q.RadiusUnit
		if u == "" {
			u = "km"
		}
		w = append(w, K("BYRADIUS"), F(q.Radius), K(u))
	} else {
		q.BoxWidth, q.BoxHeight, q.BoxUnit = float64(1+g.r.Intn(500)), float64(1+g.r.Intn(500))/2, g.pick("", "m", "km", "ft")
		u := q.BoxUnit
		if u == "" {
			u = "km"
		}
		w = append(w, K("BYBOX"), F(q.BoxWidth), F(q.BoxHeight), K(u))
	}
	if q.Sort = g.pick("", "ASC", "DESC"); q.Sort != "" {
		w = append(w, K(q.Sort))
	}
	q.Count, q.CountAny = g.count("count"), g.flip()
	if q.Count > 0 {
		w = append(w, K("COUNT"), N(q.Count))
		if q.CountAny {
			w = append(w, K("ANY"))
		}
	}
	return q, w
}

func evalLike(name, cmd string, f func(c C, s string, keys []string, args []any)) entry {
	return entry{name, func(g *gen) (call, []tok) {
		s := "return " + g.tok("'lit") + "'"
		var keys []string
		if g.r.Intn(4) != 0 {
			keys = g.keys(1, 3)
		}
		var args []any
		var aw []tok
		if g.r.Intn(4) != 0 {
			args, aw = g.members(1, 3)
		}
		return func(c C) { f(c, s, keys, args) }, ref(cmd, V(s), len(keys), keys, aw)
	}}
}

func fcallLike(name, cmd string, f func(c C, s string, keys []string, args []any)) entry {
	return entry{name, func(g *gen) (call, []tok) { // flat scalar args (go-redis appends them as they are)
		s := g.tok("fn")
		keys := g.keys(0, 2)
		n := g.r.Intn(3)
		args, aw := make([]any, 0, n), []tok{}
		for i := 0; i < n; i++ {
			x := g.tok("arg:")
			args, aw = append(args, x), append(aw, V(x))
		}
		if n == 2 && g.flip() {
			args[1], aw[1] = 42, V("42")
		}
		return func(c C) { f(c, s, keys, args) }, ref(cmd, V(s), len(keys), keys, aw)
	}}
}

func oneStr(name string, f func(c C, s string), words ...string) entry {
	return entry{name, func(g *gen) (call, []tok) {
		s := g.tok("s:")
		var w []tok
		for _, x := range words {
			w = append(w, K(x))
		}
		return func(c C) { f(c, s) }, append(w, V(s))
	}}
}

var table4 = []entry{
	// ------------------------------------------------------------------ geo
	{"GeoAdd", func(g *gen) (call, []tok) {
		k := g.key()
		var ls []rueidiscompat.GeoLocation
		var w []tok
		for i := 1 + g.r.Intn(2); i > 0; i-- {
			l := rueidiscompat.GeoLocation{Name: g.tok("place:"), Longitude: g.lon(), Latitude: g.lat()}
			ls = append(ls, l)
			w = append(w, F(l.Longitude), F(l.Latitude), V(l.Name))
		}
		return func(c C) { c.GeoAdd(ctx, k, ls...) }, ref("GEOADD", V(k), w)
	}},
	{"GeoPos", func(g *gen) (call, []tok) {
		k, ms := g.key(), g.strs("mem:", 1, 3)
		return func(c C) { c.GeoPos(ctx, k, ms...) }, ref("GEOPOS", V(k), ms)
	}},
	{"GeoHash", func(g *gen) (call, []tok) {
		k, ms := g.key(), g.strs("mem:", 1, 3)
		return func(c C) { c.GeoHash(ctx, k, ms...) }, ref("GEOHASH", V(k), ms)
	}},
	{"GeoDist", func(g *gen) (call, []tok) {
		k, a, b, u := g.key(), g.tok("mem:"), g.tok("mem:"), g.pick("", "m", "km", "mi", "ft", "KM")
		wu := u
		if wu == "" {
			wu = "km"
		}
		return func(c C) { c.GeoDist(ctx, k, a, b, u) }, ref("GEODIST", V(k), V(a), V(b), K(wu))
	}},
	{"GeoRadius", func(g *gen) (call, []tok) {
		k, lo, la := g.key(), g.lon(), g.lat()
		q, w := geoRadiusQuery(g, false)
		return func(c C) { c.GeoRadius(ctx, k, lo, la, q) }, ref("GEORADIUS_RO", V(k), F(lo), F(la), w)
	}},
	{"GeoRadiusStore", func(g *gen) (call, []tok) {
		k, lo, la := g.key(), g.lon(), g.lat()
		q, w := geoRadiusQuery(g, true)
		return func(c C) { c.GeoRadiusStore(ctx, k, lo, la, q) }, ref("GEORADIUS", V(k), F(lo), F(la), w)
	}},
	{"GeoRadiusByMember", func(g *gen) (call, []tok) {
		k, m := g.key(), g.tok("mem:")
		q, w := geoRadiusQuery(g, false)
		return func(c C) { c.GeoRadiusByMember(ctx, k, m, q) }, ref("GEORADIUSBYMEMBER_RO", V(k), V(m), w)
	}},
	{"GeoRadiusByMemberStore", func(g *gen) (call, []tok) {
		k, m := g.key(), g.tok("mem:")
		q, w := geoRadiusQuery(g, true)
		return func(c C) { c.GeoRadiusByMemberStore(ctx, k, m, q) }, ref("GEORADIUSBYMEMBER", V(k), V(m), w)
	}},
	{"GeoSearch", func(g *gen) (call, []tok) {
		k := g.key()
		q, w := geoSearchQuery(g)
		return func(c C) { c.GeoSearch(ctx, k, q) }, ref("GEOSEARCH", V(k), w)
	}},
	{"GeoSearchLocation", func(g *gen) (call, []tok) {
		k := g.key()
		q, w := geoSearchQuery(g)
		lq := rueidiscompat.GeoSearchLocationQuery{GeoSearchQuery: q, WithCoord: g.flip(), WithDist: g.flip(), WithHash: g.flip()}
		if lq.WithCoord {
			w = append(w, K("WITHCOORD"))
		}
		if lq.WithDist {
			w = append(w, K("WITHDIST"))
		}
		if lq.WithHash {
			w = append(w, K("WITHHASH"))
		}
		return func(c C) { c.GeoSearchLocation(ctx, k, lq) }, ref("GEOSEARCH", V(k), w)
	}},
	{"GeoSearchStore", func(g *gen) (call, []tok) {
		k, st := g.key(), g.key()
		q, w := geoSearchQuery(g)
		sq := rueidiscompat.GeoSearchStoreQuery{GeoSearchQuery: q, StoreDist: g.flip()}
		if sq.StoreDist {
			w = append(w, K("STOREDIST"))
		}
		return func(c C) { c.GeoSearchStore(ctx, k, st, sq) }, ref("GEOSEARCHSTORE", V(st), V(k), w)
	}},
	// ------------------------------------------------------------------ scripting, functions
	evalLike("Eval", "EVAL", func(c C, s string, k []string, a []any) { c.Eval(ctx, s, k, a...) }),
	evalLike("EvalSha", "EVALSHA", func(c C, s string, k []string, a []any) { c.EvalSha(ctx, s, k, a...) }),
	evalLike("EvalRO", "EVAL_RO", func(c C, s string, k []string, a []any) { c.EvalRO(ctx, s, k, a...) }),
	evalLike("EvalShaRO", "EVALSHA_RO", func(c C, s string, k []string, a []any) { c.EvalShaRO(ctx, s, k, a...) }),
	fcallLike("FCall", "FCALL", func(c C, s string, k []string, a []any) { c.FCall(ctx, s, k, a...) }),
	fcallLike("FCallRO", "FCALL_RO", func(c C, s string, k []string, a []any) { c.FCallRO(ctx, s, k, a...) }),
	{"ScriptExists", func(g *gen) (call, []tok) {
		hs := g.strs("sha", 1, 3)
		return func(c C) { c.ScriptExists(ctx, hs...) }, ref("SCRIPT", "EXISTS", hs)
	}},
	noArgs("ScriptFlush", func(c C) { c.ScriptFlush(ctx) }, "SCRIPT", "FLUSH"),
	noArgs("ScriptKill", func(c C) { c.ScriptKill(ctx) }, "SCRIPT", "KILL"),
	oneStr("ScriptLoad", func(c C, s string) { c.ScriptLoad(ctx, s) }, "SCRIPT", "LOAD"),
	oneStr("FunctionLoad", func(c C, s string) { c.FunctionLoad(ctx, s) }, "FUNCTION", "LOAD"),
	oneStr("FunctionLoadReplace", func(c C, s string) { c.FunctionLoadReplace(ctx, s) }, "FUNCTION", "LOAD", "REPLACE"),
	oneStr("FunctionDelete", func(c C, s string) { c.FunctionDelete(ctx, s) }, "FUNCTION", "DELETE"),
	oneStr("FunctionRestore", func(c C, s string) { c.FunctionRestore(ctx, s) }, "FUNCTION", "RESTORE"),
	noArgs("FunctionFlush", func(c C) { c.FunctionFlush(ctx) }, "FUNCTION", "FLUSH"),
	noArgs("FunctionFlushAsync", func(c C) { c.FunctionFlushAsync(ctx) }, "FUNCTION", "FLUSH", "ASYNC"),
	noArgs("FunctionKill", func(c C) { c.FunctionKill(ctx) }, "FUNCTION", "KILL"),
	noArgs("FunctionDump", func(c C) { c.FunctionDump(ctx) }, "FUNCTION", "DUMP"),
	noArgs("FunctionStats", func(c C) { c.FunctionStats(ctx) }, "FUNCTION", "STATS"),
	{"FunctionList", func(g *gen) (call, []tok) {
		q := rueidiscompat.FunctionListQuery{WithCode: g.flip()}
		w := ref("FUNCTION", "LIST")
		if g.flip() {
			q.LibraryNamePattern = g.tok("lib*")
			w = append(w, K("LIBRARYNAME"), V(q.LibraryNamePattern))
		}
		if q.WithCode {
			w = append(w, K("WITHCODE"))
		}
		return func(c C) { c.FunctionList(ctx, q) }, w
	}},
	// ------------------------------------------------------------------ pub/sub
	{"Publish", func(g *gen) (call, []tok) {
		ch := g.tok("chan:")
		m, mt := g.any()
		return func(c C) { c.Publish(ctx, ch, m) }, ref("PUBLISH", V(ch), mt)
	}},
	{"SPublish", func(g *gen) (call, []tok) {
		ch := g.tok("chan:")
		m, mt := g.any()
		return func(c C) { c.SPublish(ctx, ch, m) }, ref("SPUBLISH", V(ch), mt)
	}},
	// go-redis omits the pattern when it is "*" (same meaning): the normaliser drops a trailing "*"
	{"PubSubChannels", func(g *gen) (call, []tok) {
		p := g.pick("*", g.tok("ch*"))
		return func(c C) { c.PubSubChannels(ctx, p) }, ref("PUBSUB", "CHANNELS", V(p))
	}},
	{"PubSubShardChannels", func(g *gen) (call, []tok) {
		p := g.pick("*", g.tok("ch*"))
		return func(c C) { c.PubSubShardChannels(ctx, p) }, ref("PUBSUB", "SHARDCHANNELS", V(p))
	}},
	{"PubSubNumSub", func(g *gen) (call, []tok) {
		cs := g.strs("chan:", 0, 3)
		return func(c C) { c.PubSubNumSub(ctx, cs...) }, ref("PUBSUB", "NUMSUB", cs)
	}},
	{"PubSubShardNumSub", func(g *gen) (call, []tok) {
		cs := g.strs("chan:", 0, 3)
		return func(c C) { c.PubSubShardNumSub(ctx, cs...) }, ref("PUBSUB", "SHARDNUMSUB", cs)
	}},
	noArgs("PubSubNumPat", func(c C) { c.PubSubNumPat(ctx) }, "PUBSUB", "NUMPAT"),
	// ------------------------------------------------------------------ connection / server
	{"Echo", func(g *gen) (call, []tok) {
		m, mt := g.any()
		return func(c C) { c.Echo(ctx, m) }, ref("ECHO", mt)
	}},
	noArgs("Ping", func(c C) { c.Ping(ctx) }, "PING"),
	noArgs("BgRewriteAOF", func(c C) { c.BgRewriteAOF(ctx) }, "BGREWRITEAOF"),
	noArgs("BgSave", func(c C) { c.BgSave(ctx) }, "BGSAVE"),
	oneStr("ClientKill", func(c C, s string) { c.ClientKill(ctx, s) }, "CLIENT", "KILL"),
	{"ClientKillByFilter", func(g *gen) (call, []tok) {
		a := []string{g.pick("ID", "ADDR", "USER"), g.tok("x")}
		return func(c C) { c.ClientKillByFilter(ctx, a...) }, ref("CLIENT", "KILL", K(a[0]), V(a[1]))
	}},
	noArgs("ClientList", func(c C) { c.ClientList(ctx) }, "CLIENT", "LIST"),
	noArgs("ClientInfo", func(c C) { c.ClientInfo(ctx) }, "CLIENT", "INFO"),
	noArgs("ClientID", func(c C) { c.ClientID(ctx) }, "CLIENT", "ID"),
	noArgs("ClientGetName", func(c C) { c.ClientGetName(ctx) }, "CLIENT", "GETNAME"),
	noArgs("ClientUnpause", func(c C) { c.ClientUnpause(ctx) }, "CLIENT", "UNPAUSE"),
	// go-redis: "client pause" formatMs(dur) (CLIENT PAUSE takes milliseconds)
	{"ClientPause", func(g *gen) (call, []tok) {
		d := g.dur("msf")
		return func(c C) { c.ClientPause(ctx, d) }, ref("CLIENT", "PAUSE", tagged(N(goFormatMs(d)), "timeout"))
	}},
	{"ClientUnblock", func(g *gen) (call, []tok) {
		id := g.pos()
		return func(c C) { c.ClientUnblock(ctx, id) }, ref("CLIENT", "UNBLOCK", id)
	}},
	{"ClientUnblockWithError", func(g *gen) (call, []tok) {
		id := g.pos()
		return func(c C) { c.ClientUnblockWithError(ctx, id) }, ref("CLIENT", "UNBLOCK", id, "ERROR")
	}},
	oneStr("ConfigGet", func(c C, s string) { c.ConfigGet(ctx, s) }, "CONFIG", "GET"),
	noArgs("ConfigResetStat", func(c C) { c.ConfigResetStat(ctx) }, "CONFIG", "RESETSTAT"),
	noArgs("ConfigRewrite", func(c C) { c.ConfigRewrite(ctx) }, "CONFIG", "REWRITE"),
	{"ConfigSet", func(g *gen) (call, []tok) {
		p, v := g.tok("param"), g.tok("val:")
		return func(c C) { c.ConfigSet(ctx, p, v) }, ref("CONFIG", "SET", V(p), V(v))
	}},
	noArgs("DBSize", func(c C) { c.DBSize(ctx) }, "DBSIZE"),
	noArgs("FlushAll", func(c C) { c.FlushAll(ctx) }, "FLUSHALL"),
	noArgs("FlushAllAsync", func(c C) { c.FlushAllAsync(ctx) }, "FLUSHALL", "ASYNC"),
	noArgs("FlushDB", func(c C) { c.FlushDB(ctx) }, "FLUSHDB"),
	noArgs("FlushDBAsync", func(c C) { c.FlushDBAsync(ctx) }, "FLUSHDB", "ASYNC"),
	{"Info", func(g *gen) (call, []tok) {
		ss := g.strs("section", 0, 2)
		return func(c C) { c.Info(ctx, ss...) }, ref("INFO", ss)
	}},
	noArgs("LastSave", func(c C) { c.LastSave(ctx) }, "LASTSAVE"),
	noArgs("Save", func(c C) { c.Save(ctx) }, "SAVE"),
	noArgs("Shutdown", func(c C) { c.Shutdown(ctx) }, "SHUTDOWN"),
	noArgs("ShutdownSave", func(c C) { c.ShutdownSave(ctx) }, "SHUTDOWN", "SAVE"),
	noArgs("ShutdownNoSave", func(c C) { c.ShutdownNoSave(ctx) }, "SHUTDOWN", "NOSAVE"),
	{"SlaveOf", func(g *gen) (call, []tok) {
		h, p := g.tok("host"), g.tok("63")
		return func(c C) { c.SlaveOf(ctx, h, p) }, ref("SLAVEOF", V(h), V(p))
	}},
	{"SlowLogGet", func(g *gen) (call, []tok) {
		n := g.i64()
		return func(c C) { c.SlowLogGet(ctx, n) }, ref("SLOWLOG", "GET", n)
	}},
	noArgs("Time", func(c C) { c.Time(ctx) }, "TIME"),
	oneStr("DebugObject", func(c C, s string) { c.DebugObject(ctx, s) }, "DEBUG", "OBJECT"),
	noArgs("ReadOnly", func(c C) { c.ReadOnly(ctx) }, "READONLY"),
	noArgs("ReadWrite", func(c C) { c.ReadWrite(ctx) }, "READWRITE"),
	{"MemoryUsage", func(g *gen) (call, []tok) {
		k := g.key()
		if g.flip() {
			return func(c C) { c.MemoryUsage(ctx, k) }, ref("MEMORY", "USAGE", V(k))
		}
		n := g.i64()
		return func(c C) { c.MemoryUsage(ctx, k, n) }, ref("MEMORY", "USAGE", V(k), "SAMPLES", n)
	}},
	noArgs("Command", func(c C) { c.Command(ctx) }, "COMMAND"),
	{"CommandList", func(g *gen) (call, []tok) { // at most one filter field set
		var f rueidiscompat.FilterBy
		w := ref("COMMAND", "LIST")
		switch g.r.Intn(4) {
		case 0:
			f.Module = g.tok("mod")
			w = append(w, K("FILTERBY"), K("MODULE"), V(f.Module))
		case 1:
			f.ACLCat = g.tok("cat")
			w = append(w, K("FILTERBY"), K("ACLCAT"), V(f.ACLCat))
		case 2:
			f.Pattern = g.tok("pat*")
			w = append(w, K("FILTERBY"), K("PATTERN"), V(f.Pattern))
		}
		return func(c C) { c.CommandList(ctx, f) }, w
	}},
	{"CommandGetKeys", func(g *gen) (call, []tok) {
		k, v := g.key(), g.tok("val:")
		return func(c C) { c.CommandGetKeys(ctx, "SET", k, v) }, ref("COMMAND", "GETKEYS", "SET", V(k), V(v))
	}},
	{"CommandGetKeysAndFlags", func(g *gen) (call, []tok) {
		k, v := g.key(), g.tok("val:")
		return func(c C) { c.CommandGetKeysAndFlags(ctx, "SET", k, v) }, ref("COMMAND", "GETKEYSANDFLAGS", "SET", V(k), V(v))
	}},
	// ------------------------------------------------------------------ cluster
	noArgs("ClusterMyShardID", func(c C) { c.ClusterMyShardID(ctx) }, "CLUSTER", "MYSHARDID"),
	noArgs("ClusterSlots", func(c C) { c.ClusterSlots(ctx) }, "CLUSTER", "SLOTS"),
	noArgs("ClusterShards", func(c C) { c.ClusterShards(ctx) }, "CLUSTER", "SHARDS"),
	noArgs("ClusterLinks", func(c C) { c.ClusterLinks(ctx) }, "CLUSTER", "LINKS"),
	noArgs("ClusterNodes", func(c C) { c.ClusterNodes(ctx) }, "CLUSTER", "NODES"),
	noArgs("ClusterInfo", func(c C) { c.ClusterInfo(ctx) }, "CLUSTER", "INFO"),
	noArgs("ClusterResetSoft", func(c C) { c.ClusterResetSoft(ctx) }, "CLUSTER", "RESET", "SOFT"),
	noArgs("ClusterResetHard", func(c C) { c.ClusterResetHard(ctx) }, "CLUSTER", "RESET", "HARD"),
	noArgs("ClusterSaveConfig", func(c C) { c.ClusterSaveConfig(ctx) }, "CLUSTER", "SAVECONFIG"),
	noArgs("ClusterFailover", func(c C) { c.ClusterFailover(ctx) }, "CLUSTER", "FAILOVER"),
	oneStr("ClusterForget", func(c C, s string) { c.ClusterForget(ctx, s) }, "CLUSTER", "FORGET"),
	oneStr("ClusterReplicate", func(c C, s string) { c.ClusterReplicate(ctx, s) }, "CLUSTER", "REPLICATE"),
	oneStr("ClusterKeySlot", func(c C, s string) { c.ClusterKeySlot(ctx, s) }, "CLUSTER", "KEYSLOT"),
	oneStr("ClusterCountFailureReports", func(c C, s string) { c.ClusterCountFailureReports(ctx, s) }, "CLUSTER", "COUNT-FAILURE-REPORTS"),
	oneStr("ClusterSlaves", func(c C, s string) { c.ClusterSlaves(ctx, s) }, "CLUSTER", "SLAVES"),
	{"ClusterMeet", func(g *gen) (call, []tok) {
		h, p := g.tok("host"), int64(7000+g.r.Intn(100))
		return func(c C) { c.ClusterMeet(ctx, h, p) }, ref("CLUSTER", "MEET", V(h), p)
	}},
	{"ClusterGetKeysInSlot", func(g *gen) (call, []tok) {
		s, n := int64(g.r.Intn(16384)), g.pos()
		return func(c C) { c.ClusterGetKeysInSlot(ctx, s, n) }, ref("CLUSTER", "GETKEYSINSLOT", s, n)
	}},
	{"ClusterCountKeysInSlot", func(g *gen) (call, []tok) {
		s := int64(g.r.Intn(16384))
		return func(c C) { c.ClusterCountKeysInSlot(ctx, s) }, ref("CLUSTER", "COUNTKEYSINSLOT", s)
	}},
	{"ClusterAddSlots", func(g *gen) (call, []tok) {
		a, b := int64(g.r.Intn(16384)), int64(g.r.Intn(16384))
		return func(c C) { c.ClusterAddSlots(ctx, a, b) }, ref("CLUSTER", "ADDSLOTS", a, b)
	}},
	{"ClusterDelSlots", func(g *gen) (call, []tok) {
		a, b := int64(g.r.Intn(16384)), int64(g.r.Intn(16384))
		return func(c C) { c.ClusterDelSlots(ctx, a, b) }, ref("CLUSTER", "DELSLOTS", a, b)
	}},
	// ------------------------------------------------------------------ ACL
	{"ACLDryRun", func(g *gen) (call, []tok) {
		u, k := g.tok("user"), g.key()
		return func(c C) { c.ACLDryRun(ctx, u, "GET", k) }, ref("ACL", "DRYRUN", V(u), "GET", V(k))
	}},
	{"ACLLog", func(g *gen) (call, []tok) { // count >= 1 (go-redis omits a count <= 0)
		n := g.pos()
		return func(c C) { c.ACLLog(ctx, n) }, ref("ACL", "LOG", n)
	}},
	noArgs("ACLLogReset", func(c C) { c.ACLLogReset(ctx) }, "ACL", "LOG", "RESET"),
	noArgs("ACLList", func(c C) { c.ACLList(ctx) }, "ACL", "LIST"),
	oneStr("ACLDelUser", func(c C, s string) { c.ACLDelUser(ctx, s) }, "ACL", "DELUSER"),
	{"ACLSetUser", func(g *gen) (call, []tok) {
		u, rules := g.tok("user"), []string{"on", ">" + g.tok("pw"), "~*", "+@all"}[:1+g.r.Intn(4)]
		return func(c C) { c.ACLSetUser(ctx, u, rules...) }, ref("ACL", "SETUSER", V(u), rules)
	}},
}

var _ = time.Second
