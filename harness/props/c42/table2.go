package c42

import (
	"strings"
	"time"

	"github.com/redis/rueidis/rueidiscompat"
)

func keyField(name, cmd string, f func(c C, k, fld string)) entry {
	return entry{name, func(g *gen) (call, []tok) {
		k, fld := g.key(), g.tok("fld:")
		return func(c C) { f(c, k, fld) }, ref(cmd, V(k), V(fld))
	}}
}

// HEXPIRE-family: <CMD> key <n> [NX|XX|GT|LT] FIELDS numfields field...
func hexpire(name, cmd string, withArgs bool, val func(g *gen) (any, int64), f func(c C, k string, v any, a rueidiscompat.HExpireArgs, fields []string)) entry {
	return entry{name, func(g *gen) (call, []tok) {
		k, fields := g.key(), g.strs("fld:", 1, 3)
		v, n := val(g)
		w := ref(cmd, V(k), n)
		var a rueidiscompat.HExpireArgs
		if withArgs {
			switch g.r.Intn(5) { // go-redis: only one of the flags is honoured, in the order NX, XX, GT, LT
			case 0:
				a.NX = true
				w = append(w, K("NX"))
			case 1:
				a.XX = true
				w = append(w, K("XX"))
			case 2:
				a.GT = true
				w = append(w, K("GT"))
			case 3:
				a.LT = true
				w = append(w, K("LT"))
			default:
				g.tagf("noflag")
			}
		}
		w = append(w, ref("FIELDS", len(fields), fields)...)
		return func(c C) { f(c, k, v, a, fields) }, w
	}}
}

func secVal(g *gen) (any, int64) { d := g.dur("zmsf"); return d, goFormatSec(d) }
func msVal(g *gen) (any, int64)  { d := g.dur("zumsf"); return d, goFormatMs(d) }
func unixVal(g *gen) (any, int64) {
	t := g.tm()
	return t, t.Unix()
}
func unixMsVal(g *gen) (any, int64) {
	t := g.tm()
	return t, t.UnixNano() / int64(time.Millisecond)
}

func hfields(name, cmd string, f func(c C, k string, fields []string)) entry {
	return entry{name, func(g *gen) (call, []tok) {
		k, fields := g.key(), g.strs("fld:", 1, 3)
		return func(c C) { f(c, k, fields) }, ref(cmd, V(k), "FIELDS", len(fields), fields)
	}}
}

func keyCount(name, cmd string, f func(c C, k string, n int64), tail ...string) entry {
	return entry{name, func(g *gen) (call, []tok) {
		k, n := g.key(), g.i64()
		w := ref(cmd, V(k), n)
		for _, t := range tail {
			w = append(w, K(t))
		}
		return func(c C) { f(c, k, n) }, w
	}}
}

func pushLike(name, cmd string, f func(c C, k string, vs []any)) entry {
	return entry{name, func(g *gen) (call, []tok) {
		k := g.key()
		vs, w := g.members(1, 3)
		return func(c C) { f(c, k, vs) }, ref(cmd, V(k), w)
	}}
}

func destKeys(name, cmd string, f func(c C, d string, ks []string)) entry {
	return entry{name, func(g *gen) (call, []tok) {
		d, ks := g.key(), g.keys(1, 3)
		return func(c C) { f(c, d, ks) }, ref(cmd, V(d), ks)
	}}
}

func blockPop(name, cmd string, f func(c C, d time.Duration, ks []string)) entry {
	return entry{name, func(g *gen) (call, []tok) {
		d, ks := g.dur("zmsf"), g.keys(1, 3)
		return func(c C) { f(c, d, ks) }, ref(cmd, ks, goFormatSec(d))
	}}
}

var table2 = []entry{
	// ------------------------------------------------------------------ hashes
	{"HDel", func(g *gen) (call, []tok) {
		k, fs := g.key(), g.strs("fld:", 1, 3)
		return func(c C) { c.HDel(ctx, k, fs...) }, ref("HDEL", V(k), fs)
	}},
	keyField("HExists", "HEXISTS", func(c C, k, f string) { c.HExists(ctx, k, f) }),
	keyField("HGet", "HGET", func(c C, k, f string) { c.HGet(ctx, k, f) }),
	keyOnly("HGetAll", "HGETALL", func(c C, k string) { c.HGetAll(ctx, k) }),
	keyOnly("HKeys", "HKEYS", func(c C, k string) { c.HKeys(ctx, k) }),
	keyOnly("HVals", "HVALS", func(c C, k string) { c.HVals(ctx, k) }),
	keyOnly("HLen", "HLEN", func(c C, k string) { c.HLen(ctx, k) }),
	{"HIncrBy", func(g *gen) (call, []tok) {
		k, f, n := g.key(), g.tok("fld:"), g.i64()
		return func(c C) { c.HIncrBy(ctx, k, f, n) }, ref("HINCRBY", V(k), V(f), n)
	}},
	{"HIncrByFloat", func(g *gen) (call, []tok) {
		k, f, x := g.key(), g.tok("fld:"), g.f64()
		return func(c C) { c.HIncrByFloat(ctx, k, f, x) }, ref("HINCRBYFLOAT", V(k), V(f), F(x))
	}},
	{"HMGet", func(g *gen) (call, []tok) {
		k, fs := g.key(), g.strs("fld:", 1, 3)
		return func(c C) { c.HMGet(ctx, k, fs...) }, ref("HMGET", V(k), fs)
	}},
	{"HSet", func(g *gen) (call, []tok) {
		k := g.key()
		a, w := g.pairs(1, 3)
		return func(c C) { c.HSet(ctx, k, a...) }, ref("HSET", V(k), w)
	}},
	{"HMSet", func(g *gen) (call, []tok) {
		k := g.key()
		a, w := g.pairs(1, 3)
		return func(c C) { c.HMSet(ctx, k, a...) }, ref("HMSET", V(k), w)
	}},
	{"HSetNX", func(g *gen) (call, []tok) {
		k, f := g.key(), g.tok("fld:")
		v, vt := g.any()
		return func(c C) { c.HSetNX(ctx, k, f, v) }, ref("HSETNX", V(k), V(f), vt)
	}},
	keyCount("HRandField", "HRANDFIELD", func(c C, k string, n int64) { c.HRandField(ctx, k, n) }),
	keyCount("HRandFieldWithValues", "HRANDFIELD", func(c C, k string, n int64) { c.HRandFieldWithValues(ctx, k, n) }, "WITHVALUES"),
	hexpire("HExpire", "HEXPIRE", false, secVal, func(c C, k string, v any, _ rueidiscompat.HExpireArgs, f []string) {
		c.HExpire(ctx, k, v.(time.Duration), f...)
	}),
	hexpire("HExpireWithArgs", "HEXPIRE", true, secVal, func(c C, k string, v any, a rueidiscompat.HExpireArgs, f []string) {
		c.HExpireWithArgs(ctx, k, v.(time.Duration), a, f...)
	}),
	hexpire("HPExpire", "HPEXPIRE", false, msVal, func(c C, k string, v any, _ rueidiscompat.HExpireArgs, f []string) {
		c.HPExpire(ctx, k, v.(time.Duration), f...)
	}),
	hexpire("HPExpireWithArgs", "HPEXPIRE", true, msVal, func(c C, k string, v any, a rueidiscompat.HExpireArgs, f []string) {
		c.HPExpireWithArgs(ctx, k, v.(time.Duration), a, f...)
	}),
	hexpire("HExpireAt", "HEXPIREAT", false, unixVal, func(c C, k string, v any, _ rueidiscompat.HExpireArgs, f []string) {
		c.HExpireAt(ctx, k, v.(time.Time), f...)
	}),
	hexpire("HExpireAtWithArgs", "HEXPIREAT", true, unixVal, func(c C, k string, v any, a rueidiscompat.HExpireArgs, f []string) {
		c.HExpireAtWithArgs(ctx, k, v.(time.Time), a, f...)
	}),
	hexpire("HPExpireAt", "HPEXPIREAT", false, unixMsVal, func(c C, k string, v any, _ rueidiscompat.HExpireArgs, f []string) {
		c.HPExpireAt(ctx, k, v.(time.Time), f...)
	}),
	hexpire("HPExpireAtWithArgs", "HPEXPIREAT", true, unixMsVal, func(c C, k string, v any, a rueidiscompat.HExpireArgs, f []string) {
		c.HPExpireAtWithArgs(ctx, k, v.(time.Time), a, f...)
	}),
	hfields("HPersist", "HPERSIST", func(c C, k string, f []string) { c.HPersist(ctx, k, f...) }),
	hfields("HExpireTime", "HEXPIRETIME", func(c C, k string, f []string) { c.HExpireTime(ctx, k, f...) }),
	hfields("HPExpireTime", "HPEXPIRETIME", func(c C, k string, f []string) { c.HPExpireTime(ctx, k, f...) }),
	hfields("HTTL", "HTTL", func(c C, k string, f []string) { c.HTTL(ctx, k, f...) }),
	hfields("HPTTL", "HPTTL", func(c C, k string, f []string) { c.HPTTL(ctx, k, f...) }),
	hfields("HGetDel", "HGETDEL", func(c C, k string, f []string) { c.HGetDel(ctx, k, f...) }),
	hfields("HGetEX", "HGETEX", func(c C, k string, f []string) { c.HGetEX(ctx, k, f...) }),
	{"HGetEXWithArgs", func(g *gen) (call, []tok) { // the five expiration types go-redis defines (an empty type is not generated)
		k, fs := g.key(), g.strs("fld:", 1, 3)
		ty := []rueidiscompat.HGetEXExpirationType{rueidiscompat.HGetEXExpirationEX, rueidiscompat.HGetEXExpirationPX, rueidiscompat.HGetEXExpirationEXAT, rueidiscompat.HGetEXExpirationPXAT, rueidiscompat.HGetEXExpirationPERSIST}[g.r.Intn(5)]
		o := &rueidiscompat.HGetEXOptions{ExpirationType: ty, ExpirationVal: g.pos()}
		w := ref("HGETEX", V(k), K(string(ty)))
		if ty != rueidiscompat.HGetEXExpirationPERSIST {
			w = append(w, N(o.ExpirationVal))
		}
		return func(c C) { c.HGetEXWithArgs(ctx, k, o, fs...) }, ref(w, "FIELDS", len(fs), fs)
	}},
	{"HSetEX", func(g *gen) (call, []tok) {
		k, fv := g.key(), g.strs("fv:", 1, 3)
		fv = append(fv, g.strs("fv:", len(fv), len(fv))...)
		return func(c C) { c.HSetEX(ctx, k, fv...) }, ref("HSETEX", V(k), "FIELDS", len(fv)/2, fv)
	}},
	{"HSetEXWithArgs", func(g *gen) (call, []tok) {
		k, fv := g.key(), g.strs("fv:", 1, 3)
		fv = append(fv, g.strs("fv:", len(fv), len(fv))...)
		o := &rueidiscompat.HSetEXOptions{ExpirationVal: g.pos()}
		o.Condition = []rueidiscompat.HSetEXCondition{"", rueidiscompat.HSetEXFNX, rueidiscompat.HSetEXFXX}[g.r.Intn(3)]
		o.ExpirationType = []rueidiscompat.HSetEXExpirationType{"", rueidiscompat.HSetEXExpirationEX, rueidiscompat.HSetEXExpirationPX, rueidiscompat.HSetEXExpirationEXAT, rueidiscompat.HSetEXExpirationPXAT, rueidiscompat.HSetEXExpirationKEEPTTL}[g.r.Intn(6)]
		w := ref("HSETEX", V(k))
		if o.Condition != "" {
			w = append(w, K(string(o.Condition)))
		}
		if o.ExpirationType != "" {
			w = append(w, K(string(o.ExpirationType)))
			if o.ExpirationType != rueidiscompat.HSetEXExpirationKEEPTTL {
				w = append(w, N(o.ExpirationVal))
			}
		}
		return func(c C) { c.HSetEXWithArgs(ctx, k, o, fv...) }, ref(w, "FIELDS", len(fv)/2, fv)
	}},
	// ------------------------------------------------------------------ lists
	blockPop("BLPop", "BLPOP", func(c C, d time.Duration, ks []string) { c.BLPop(ctx, d, ks...) }),
	blockPop("BRPop", "BRPOP", func(c C, d time.Duration, ks []string) { c.BRPop(ctx, d, ks...) }),
	// go-redis LMPop / BLMPop document count > 0 and always send COUNT: count >= 1 only
	{"BLMPop", func(g *gen) (call, []tok) {
		d, dir, n, ks := g.dur("zmsf"), g.pick("left", "right", "LEFT", "RIGHT"), g.pos(), g.keys(1, 3)
		return func(c C) { c.BLMPop(ctx, d, dir, n, ks...) }, ref("BLMPOP", goFormatSec(d), len(ks), ks, K(dir), "COUNT", n)
	}},
	{"LMPop", func(g *gen) (call, []tok) {
		dir, n, ks := g.pick("left", "right", "LEFT", "RIGHT"), g.pos(), g.keys(1, 3)
		return func(c C) { c.LMPop(ctx, dir, n, ks...) }, ref("LMPOP", len(ks), ks, K(dir), "COUNT", n)
	}},
	{"BRPopLPush", func(g *gen) (call, []tok) {
		a, b, d := g.key(), g.key(), g.dur("zmsf")
		return func(c C) { c.BRPopLPush(ctx, a, b, d) }, ref("BRPOPLPUSH", V(a), V(b), goFormatSec(d))
	}},
	{"LCS", func(g *gen) (call, []tok) { // MinMatchLen >= 0
		q := &rueidiscompat.LCSQuery{Key1: g.key(), Key2: g.key()}
		w := ref("LCS", V(q.Key1), V(q.Key2))
		switch g.r.Intn(3) {
		case 0:
			q.Len = true
			q.Idx = g.flip() // LEN wins
			w = append(w, K("LEN"))
		case 1:
			q.Idx = true
			w = append(w, K("IDX"))
			if g.flip() {
				q.MinMatchLen = int(g.pos())
				w = append(w, K("MINMATCHLEN"), N(int64(q.MinMatchLen)))
			}
			if g.flip() {
				q.WithMatchLen = true
				w = append(w, K("WITHMATCHLEN"))
			}
		}
		return func(c C) { c.LCS(ctx, q) }, w
	}},
	{"LIndex", func(g *gen) (call, []tok) {
		k, i := g.key(), g.i64()
		return func(c C) { c.LIndex(ctx, k, i) }, ref("LINDEX", V(k), i)
	}},
	{"LInsert", func(g *gen) (call, []tok) {
		k, op := g.key(), g.pick("BEFORE", "AFTER", "before", "after")
		p, pt := g.any()
		v, vt := g.any()
		return func(c C) { c.LInsert(ctx, k, op, p, v) }, ref("LINSERT", V(k), K(op), pt, vt)
	}},
	{"LInsertBefore", func(g *gen) (call, []tok) {
		k := g.key()
		p, pt := g.any()
		v, vt := g.any()
		return func(c C) { c.LInsertBefore(ctx, k, p, v) }, ref("LINSERT", V(k), "BEFORE", pt, vt)
	}},
	{"LInsertAfter", func(g *gen) (call, []tok) {
		k := g.key()
		p, pt := g.any()
		v, vt := g.any()
		return func(c C) { c.LInsertAfter(ctx, k, p, v) }, ref("LINSERT", V(k), "AFTER", pt, vt)
	}},
	keyOnly("LLen", "LLEN", func(c C, k string) { c.LLen(ctx, k) }),
	keyOnly("LPop", "LPOP", func(c C, k string) { c.LPop(ctx, k) }),
	keyOnly("RPop", "RPOP", func(c C, k string) { c.RPop(ctx, k) }),
	keyCount("LPopCount", "LPOP", func(c C, k string, n int64) { c.LPopCount(ctx, k, n) }),
	keyCount("RPopCount", "RPOP", func(c C, k string, n int64) { c.RPopCount(ctx, k, n) }),
	{"LPos", func(g *gen) (call, []tok) {
		k, v := g.key(), g.tok("val:")
		a := rueidiscompat.LPosArgs{Rank: []int64{0, g.i64()}[g.r.Intn(2)], MaxLen: []int64{0, g.i64()}[g.r.Intn(2)]}
		w := ref("LPOS", V(k), V(v))
		if a.Rank != 0 {
			w = append(w, K("RANK"), N(a.Rank))
		}
		if a.MaxLen != 0 {
			w = append(w, K("MAXLEN"), N(a.MaxLen))
		}
		return func(c C) { c.LPos(ctx, k, v, a) }, w
	}},
	{"LPosCount", func(g *gen) (call, []tok) {
		k, v, n := g.key(), g.tok("val:"), g.i64()
		a := rueidiscompat.LPosArgs{Rank: []int64{0, g.i64()}[g.r.Intn(2)], MaxLen: []int64{0, g.i64()}[g.r.Intn(2)]}
		w := ref("LPOS", V(k), V(v), "COUNT", n)
		if a.Rank != 0 {
			w = append(w, K("RANK"), N(a.Rank))
		}
		if a.MaxLen != 0 {
			w = append(w, K("MAXLEN"), N(a.MaxLen))
		}
		return func(c C) { c.LPosCount(ctx, k, v, n, a) }, w
	}},
	pushLike("LPush", "LPUSH", func(c C, k string, vs []any) { c.LPush(ctx, k, vs...) }),
	pushLike("LPushX", "LPUSHX", func(c C, k string, vs []any) { c.LPushX(ctx, k, vs...) }),
	pushLike("RPush", "RPUSH", func(c C, k string, vs []any) { c.RPush(ctx, k, vs...) }),
	pushLike("RPushX", "RPUSHX", func(c C, k string, vs []any) { c.RPushX(ctx, k, vs...) }),
	{"LRange", func(g *gen) (call, []tok) {
		k, a, b := g.key(), g.i64(), g.i64()
		return func(c C) { c.LRange(ctx, k, a, b) }, ref("LRANGE", V(k), a, b)
	}},
	{"LTrim", func(g *gen) (call, []tok) {
		k, a, b := g.key(), g.i64(), g.i64()
		return func(c C) { c.LTrim(ctx, k, a, b) }, ref("LTRIM", V(k), a, b)
	}},
	{"LRem", func(g *gen) (call, []tok) {
		k, n := g.key(), g.i64()
		v, vt := g.any()
		return func(c C) { c.LRem(ctx, k, n, v) }, ref("LREM", V(k), n, vt)
	}},
	{"LSet", func(g *gen) (call, []tok) {
		k, n := g.key(), g.i64()
		v, vt := g.any()
		return func(c C) { c.LSet(ctx, k, n, v) }, ref("LSET", V(k), n, vt)
	}},
	{"RPopLPush", func(g *gen) (call, []tok) {
		a, b := g.key(), g.key()
		return func(c C) { c.RPopLPush(ctx, a, b) }, ref("RPOPLPUSH", V(a), V(b))
	}},
	{"LMove", func(g *gen) (call, []tok) {
		a, b, sp, dp := g.key(), g.key(), g.pick("LEFT", "RIGHT", "left"), g.pick("LEFT", "RIGHT", "right")
		return func(c C) { c.LMove(ctx, a, b, sp, dp) }, ref("LMOVE", V(a), V(b), K(sp), K(dp))
	}},
	{"BLMove", func(g *gen) (call, []tok) {
		a, b, sp, dp, d := g.key(), g.key(), g.pick("LEFT", "RIGHT"), g.pick("LEFT", "RIGHT"), g.dur("zmsf")
		return func(c C) { c.BLMove(ctx, a, b, sp, dp, d) }, ref("BLMOVE", V(a), V(b), K(sp), K(dp), goFormatSec(d))
	}},
	// ------------------------------------------------------------------ sets
	pushLike("SAdd", "SADD", func(c C, k string, vs []any) { c.SAdd(ctx, k, vs...) }),
	pushLike("SRem", "SREM", func(c C, k string, vs []any) { c.SRem(ctx, k, vs...) }),
	pushLike("SMIsMember", "SMISMEMBER", func(c C, k string, vs []any) { c.SMIsMember(ctx, k, vs...) }),
	keyOnly("SCard", "SCARD", func(c C, k string) { c.SCard(ctx, k) }),
	keyOnly("SMembers", "SMEMBERS", func(c C, k string) { c.SMembers(ctx, k) }),
	keyOnly("SMembersMap", "SMEMBERS", func(c C, k string) { c.SMembersMap(ctx, k) }),
	keyOnly("SPop", "SPOP", func(c C, k string) { c.SPop(ctx, k) }),
	keyOnly("SRandMember", "SRANDMEMBER", func(c C, k string) { c.SRandMember(ctx, k) }),
	keyCount("SPopN", "SPOP", func(c C, k string, n int64) { c.SPopN(ctx, k, n) }),
	keyCount("SRandMemberN", "SRANDMEMBER", func(c C, k string, n int64) { c.SRandMemberN(ctx, k, n) }),
	keysOnly("SDiff", "SDIFF", func(c C, ks []string) { c.SDiff(ctx, ks...) }),
	keysOnly("SInter", "SINTER", func(c C, ks []string) { c.SInter(ctx, ks...) }),
	keysOnly("SUnion", "SUNION", func(c C, ks []string) { c.SUnion(ctx, ks...) }),
	destKeys("SDiffStore", "SDIFFSTORE", func(c C, d string, ks []string) { c.SDiffStore(ctx, d, ks...) }),
	destKeys("SInterStore", "SINTERSTORE", func(c C, d string, ks []string) { c.SInterStore(ctx, d, ks...) }),
	destKeys("SUnionStore", "SUNIONSTORE", func(c C, d string, ks []string) { c.SUnionStore(ctx, d, ks...) }),
	{"SInterCard", func(g *gen) (call, []tok) {
		n, ks := g.i64(), g.keys(1, 3)
		return func(c C) { c.SInterCard(ctx, n, ks...) }, ref("SINTERCARD", len(ks), ks, "LIMIT", n)
	}},
	{"SIsMember", func(g *gen) (call, []tok) {
		k := g.key()
		v, vt := g.any()
		return func(c C) { c.SIsMember(ctx, k, v) }, ref("SISMEMBER", V(k), vt)
	}},
	{"SMove", func(g *gen) (call, []tok) {
		a, b := g.key(), g.key()
		v, vt := g.any()
		return func(c C) { c.SMove(ctx, a, b, v) }, ref("SMOVE", V(a), V(b), vt)
	}},
	// ------------------------------------------------------------------ HyperLogLog
	pushLike("PFAdd", "PFADD", func(c C, k string, vs []any) { c.PFAdd(ctx, k, vs...) }),
	keysOnly("PFCount", "PFCOUNT", func(c C, ks []string) { c.PFCount(ctx, ks...) }),
	destKeys("PFMerge", "PFMERGE", func(c C, d string, ks []string) { c.PFMerge(ctx, d, ks...) }),
}

var _ = strings.ToUpper
