//go:build verif

// Package c47 checks property C47: every new connection authenticates with the configured (or dynamically
// supplied) credentials and applies client name, database, tracking mode, READONLY, NO-TOUCH, NO-EVICT and
// library info before it serves a user command; RESP2 is used only when HELLO is rejected; a failed setup
// step fails the connection, except the tolerated READONLY and CLIENT SETINFO errors.
//
// Each case runs in a synctest bubble. A fault rule stalls every user command (VERIF.*) before it executes;
// while it is stalled the driver reads the server-side session record of that connection and compares it with
// what the options demand; the log gives the setup commands the connection received and their replies.
package c47

import (
	"bytes"
	"context"
	"errors"
	"fmt"
	"math/rand"
	"runtime"
	"sort"
	"strconv"
	"strings"
	"sync"
	"testing"
	"time"

	"github.com/redis/rueidis"
	"verifh/drv"
	"verifh/fakeredis"
	"verifh/mon"
	"verifh/resp"
)

const (
	aP1, aP2, aP3 = "127.0.0.1:7001", "127.0.0.1:7002", "127.0.0.1:7003"
	aR1, aR2, aR3 = "127.0.0.1:7101", "127.0.0.1:7102", "127.0.0.1:7103"
	aS            = "127.0.0.1:26379"
)

var users = map[string]string{"default": "dpw", "alice": "apw", "bob": "bpw", "sent": "spw"}

// ACL users without a password ("ACL SETUSER carol on nopass ..."): they are configured with a user name only and
// authenticate with an empty password
var nopassUsers = map[string]string{"carol": "", "dave": "", "sent0": ""}

type cfg struct {
	kind     string // single | auto-single | redirect | standalone-replicas | cluster | cluster-replicaonly | cluster-sendtoreplicas | sentinel | sentinel-replicaonly
	server   string // resp3 | nohello | notracking
	auth     string // none | password | userpass | fn-userpass | fn-password | user-nopass | fn-user-nopass (user name only, empty password)
	openDef  bool   // the server's default user has no password (sessions start as "default"); only with the named-user auth modes
	name     bool
	db       int
	tracking string // off | default | optin-noloop | bcast-prefix | optout | empty
	noTouch  bool
	noEvict  bool
	setInfo  string // default | custom | disabled
	resp2    bool
	step     string // "" or the setup step made to fail
	later    bool   // the step fails only on connections after the first one
	// transient mode (nth > 0): the step is answered with a server-state error (terr: LOADING, BUSY, MASTERDOWN - an
	// error that says nothing about the command) exactly once, the nth time any data-node connection tries it; every
	// other try, in particular the same step in a second setup sequence on the same connection, is answered normally
	nth  int
	terr string
}

var transientErrs = map[string]string{
	"LOADING":    "LOADING Redis is loading the dataset in memory",
	"BUSY":       "BUSY Redis is busy running a script. You can only call SCRIPT KILL or SHUTDOWN NOSAVE.",
	"MASTERDOWN": "MASTERDOWN Link with MASTER is down and replica-serve-stale-data is set to 'no'.",
}

func (c cfg) String() string {
	s := fmt.Sprintf("kind=%s server=%s auth=%s opendefault=%v name=%v db=%d tracking=%s notouch=%v noevict=%v setinfo=%s resp2=%v step=%q later=%v", c.kind, c.server, c.auth, c.openDef, c.name, c.db, c.tracking, c.noTouch, c.noEvict, c.setInfo, c.resp2, c.step, c.later)
	if c.nth > 0 {
		s += fmt.Sprintf(" transient=%s(try %d only)", c.terr, c.nth)
	}
	return s
}

func (c cfg) cluster() bool  { return strings.HasPrefix(c.kind, "cluster") }
func (c cfg) sentinel() bool { return strings.HasPrefix(c.kind, "sentinel") }
func (c cfg) replicaOnly() bool {
	return c.kind == "cluster-replicaonly" || c.kind == "sentinel-replicaonly"
}
func (c cfg) disableCache() bool { return c.tracking == "off" }
func (c cfg) nopass() bool       { return c.auth == "user-nopass" || c.auth == "fn-user-nopass" }
func (c cfg) namedUser() bool {
	return c.auth == "userpass" || c.auth == "fn-userpass" || c.nopass()
}

func (c cfg) trackingOpts() []string {
	switch c.tracking {
	case "optin-noloop":
		return []string{"OPTIN", "NOLOOP"}
	case "bcast-prefix":
		return []string{"BCAST", "PREFIX", "p:", "PREFIX", "k:"}
	case "optout":
		return []string{"OPTOUT"}
	case "empty":
		return []string{}
	}
	return nil
}

// creds returns what a connection to addr must authenticate with ("" user = no AUTH at all).
func (c cfg) creds(addr string) (user, pass string) {
	if c.auth == "none" {
		return "", ""
	}
	if addr == aS {
		if c.nopass() {
			return "sent0", ""
		}
		return "sent", "spw"
	}
	switch c.auth {
	case "password":
		return "default", "dpw"
	case "userpass":
		return "alice", "apw"
	case "fn-userpass":
		return "bob", "bpw"
	case "fn-password":
		return "default", "dpw"
	case "user-nopass":
		return "carol", ""
	case "fn-user-nopass":
		return "dave", ""
	}
	return "", ""
}

// serverUsers is the ACL of the generated server.
func (c cfg) serverUsers() map[string]string {
	if c.auth == "none" {
		return nil
	}
	m := map[string]string{}
	for k, v := range users {
		if k == "default" && c.openDef {
			continue
		}
		m[k] = v
	}
	for k, v := range nopassUsers {
		m[k] = v
	}
	return m
}

func (c cfg) options(s *fakeredis.Server) rueidis.ClientOption {
	var o rueidis.ClientOption
	switch {
	case c.sentinel():
		o = drv.Option(s, aS)
		o.Sentinel.MasterSet = "mymaster"
		o.Sentinel.ClientName = "sentinel-conn"
		if c.auth != "none" {
			o.Sentinel.Username, o.Sentinel.Password = c.creds(aS)
		}
	case c.cluster():
		o = drv.Option(s, aP1, aP2)
	default:
		o = drv.Option(s, aP1)
	}
	switch c.kind {
	case "single":
		o.ForceSingleClient = true
	case "redirect":
		o.Standalone.EnableRedirect = true
	case "standalone-replicas":
		o.Standalone.ReplicaAddress = []string{aR1}
		o.SendToReplicas = func(cmd rueidis.Completed) bool { return cmd.IsReadOnly() }
	case "cluster-replicaonly", "sentinel-replicaonly":
		o.ReplicaOnly = true
	case "cluster-sendtoreplicas":
		o.SendToReplicas = func(cmd rueidis.Completed) bool { return cmd.IsReadOnly() }
	}
	switch c.auth {
	case "password":
		o.Password = "dpw"
	case "userpass":
		o.Username, o.Password = "alice", "apw"
	case "user-nopass":
		o.Username = "carol"
	case "fn-userpass", "fn-password", "fn-user-nopass":
		o.AuthCredentialsFn = func(ac rueidis.AuthCredentialsContext) (rueidis.AuthCredentials, error) {
			u, p := c.creds(ac.Address.String())
			if c.auth == "fn-password" && u == "default" {
				u = ""
			}
			return rueidis.AuthCredentials{Username: u, Password: p}, nil
		}
	}
	if c.name {
		o.ClientName = "c47-conn"
	}
	o.SelectDB = c.db
	o.DisableCache = c.disableCache()
	o.ClientTrackingOptions = c.trackingOpts()
	o.ClientNoTouch, o.ClientNoEvict = c.noTouch, c.noEvict
	switch c.setInfo {
	case "custom":
		o.ClientSetInfo = []string{"mylib", "9.9.9"}
	case "disabled":
		o.ClientSetInfo = rueidis.DisableClientSetInfo
	}
	o.AlwaysRESP2 = c.resp2
	o.PipelineMultiplex = -1
	o.BlockingPoolSize = 4
	return o
}

// setupCmds is the reference: the setup commands (joined argv) a connection to addr sends in the RESP3 attempt and
// in the RESP2 sequence, derived from the documentation of the options.
func (c cfg) setupCmds(addr string, readonlyConn bool) (r3, r2 []string) {
	user, pass := c.creds(addr)
	name := ""
	if c.name {
		name = "c47-conn"
	}
	db := c.db
	if addr == aS {
		name, db = "sentinel-conn", 0
	}
	hello := "HELLO 3"
	if user != "" {
		hello += " AUTH " + user + " " + pass
	}
	if name != "" {
		hello += " SETNAME " + name
	}
	r3 = append(r3, hello)
	if user != "" {
		if user == "default" {
			r2 = append(r2, "AUTH "+pass)
		} else {
			r2 = append(r2, "AUTH "+user+" "+pass)
		}
	}
	r2 = append(r2, "HELLO 2")
	if name != "" {
		r2 = append(r2, "CLIENT SETNAME "+name)
	}
	var rest []string
	if !c.disableCache() {
		t := "CLIENT TRACKING ON"
		if c.tracking == "default" {
			t += " OPTIN"
		}
		for _, o := range c.trackingOpts() {
			t += " " + o
		}
		r3 = append(r3, t)
	}
	if db != 0 {
		rest = append(rest, "SELECT "+strconv.Itoa(db))
	}
	if readonlyConn {
		rest = append(rest, "READONLY")
	}
	if c.noTouch {
		rest = append(rest, "CLIENT NO-TOUCH ON")
	}
	if c.noEvict {
		rest = append(rest, "CLIENT NO-EVICT ON")
	}
	if c.kind == "redirect" {
		rest = append(rest, "CLIENT CAPA redirect")
	}
	switch c.setInfo {
	case "default":
		rest = append(rest, "CLIENT SETINFO LIB-NAME "+rueidis.LibName, "CLIENT SETINFO LIB-VER "+rueidis.LibVer)
	case "custom":
		rest = append(rest, "CLIENT SETINFO LIB-NAME mylib", "CLIENT SETINFO LIB-VER 9.9.9")
	}
	return append(r3, rest...), append(r2, rest...)
}

// readonlyConn says whether connections to addr are to be put into READONLY mode.
func (c cfg) readonlyConn(addr string) bool {
	switch c.kind {
	case "cluster-replicaonly":
		return true
	case "cluster-sendtoreplicas":
		return addr == aR1 || addr == aR2 || addr == aR3
	}
	return false
}

func isSetupName(a []string) bool {
	switch strings.ToUpper(a[0]) {
	case "HELLO", "AUTH", "SELECT", "READONLY":
		return true
	case "CLIENT":
		if len(a) > 1 {
			switch strings.ToUpper(a[1]) {
			case "TRACKING", "SETNAME", "NO-TOUCH", "NO-EVICT", "CAPA", "SETINFO":
				return true
			}
		}
	}
	return false
}

// stepOf names the setup step a command belongs to (the unit a fault rule makes fail).
func stepOf(a []string) string {
	n := strings.ToUpper(a[0])
	if n == "CLIENT" && len(a) > 1 {
		s := "CLIENT " + strings.ToUpper(a[1])
		if strings.ToUpper(a[1]) == "SETINFO" && len(a) > 2 {
			s += " " + strings.ToUpper(a[2])
		}
		return s
	}
	return n
}

func tolerated(step string) bool {
	return step == "READONLY" || strings.HasPrefix(step, "CLIENT SETINFO")
}

type userCall struct {
	uid  string
	what string
	err  error
	val  string
	done bool
}

type inspected struct {
	uid  string
	conn int64
	sess fakeredis.SessionInfo
	ok   bool
}

type world struct {
	run *mon.Run
	c   cfg
	id  int
	srv *fakeredis.Server

	mu        sync.Mutex
	calls     []*userCall
	newErr    error
	newDone   bool
	inspected []inspected

	sessionsAtEnd []fakeredis.SessionInfo
}

func (w *world) wit(extra map[string]any) map[string]any {
	m := map[string]any{"case": w.id, "config": w.c.String()}
	if w.newDone && w.newErr != nil {
		m["NewClient_error"] = w.newErr.Error()
	}
	var cs []string
	for _, u := range w.calls {
		e := ""
		if u.err != nil {
			e = " err=" + u.err.Error()
		}
		cs = append(cs, fmt.Sprintf("%s done=%v%s", u.what, u.done, e))
	}
	m["user_calls"] = cs
	for k, v := range extra {
		m[k] = v
	}
	return m
}

func (w *world) connLog(log []fakeredis.Event, node string, conn int64) []string {
	var out []string
	for _, e := range log {
		if e.Node == node && e.Conn == conn && (e.Kind == "recv" || e.Kind == "reply" || e.Kind == "fault" || e.Kind == "close") {
			s := e.Kind + " " + strings.Join(e.Argv, " ")
			if e.Kind == "reply" {
				s += " -> " + drv.Tail(e.Reply.String(), 60)
			}
			if len(s) > 160 {
				s = s[:160]
			}
			out = append(out, s)
		}
	}
	if len(out) > 40 {
		out = out[:40]
	}
	return out
}

func (w *world) client(cl rueidis.Client) {
	ctx := context.Background()
	add := func(what string) *userCall {
		u := &userCall{uid: fmt.Sprintf("c47.%d.%s", w.id, what), what: what}
		w.mu.Lock()
		w.calls = append(w.calls, u)
		w.mu.Unlock()
		return u
	}
	fin := func(u *userCall, r rueidis.RedisResult) {
		v, err := r.ToString()
		w.mu.Lock()
		u.val, u.err, u.done = v, err, true
		w.mu.Unlock()
	}
	key := "k:{c47}"
	u := add("read")
	fin(u, cl.Do(ctx, cl.B().Arbitrary("VERIF.ECHO").Keys(key).Args(u.uid).ReadOnly()))
	if w.c.kind != "sentinel-replicaonly" { // a replica refuses writes, that is not a matter of connection setup
		u = add("write")
		fin(u, cl.Do(ctx, cl.B().Arbitrary("VERIF.WRITE").Keys(key).Args(u.uid).Build()))
	}
	u = add("dedicated")
	_ = cl.Dedicated(func(dc rueidis.DedicatedClient) error {
		fin(u, dc.Do(ctx, dc.B().Arbitrary("VERIF.ECHO").Keys(key).Args(u.uid).ReadOnly()))
		return nil
	})
	u = add("stream")
	st := cl.DoStream(ctx, cl.B().Arbitrary("VERIF.ECHO").Keys(key).Args(u.uid).ReadOnly())
	var bb bytes.Buffer
	_, err := st.WriteTo(&bb)
	w.mu.Lock()
	u.val, u.err, u.done = bb.String(), err, true
	w.mu.Unlock()
	u = add("read2") // the pipelined connection again (or a fresh one when the first was refused)
	fin(u, cl.Do(ctx, cl.B().Arbitrary("VERIF.ECHO").Keys(key).Args(u.uid).ReadOnly()))
}

func (w *world) body() {
	c := w.c
	opts := fakeredis.Options{LogReplies: true, Seed: int64(w.id), NoHello: c.server == "nohello", NoTracking: c.server == "notracking"}
	opts.Users = c.serverUsers()
	var s *fakeredis.Server
	switch {
	case c.cluster():
		s = fakeredis.New(opts, aP1, aP2, aP3)
		s.AddNode(aR1, "slave", s.Node(aP1))
		s.AddNode(aR2, "slave", s.Node(aP2))
		s.AddNode(aR3, "slave", s.Node(aP3))
		s.EnableCluster()
	case c.sentinel():
		s = fakeredis.New(opts, aP1)
		s.AddNode(aR1, "slave", s.Node(aP1))
		sn := s.AddNode(aS, "sentinel", nil)
		sn.ConfigureSentinel("mymaster", aP1, []fakeredis.SentinelReplica{{Addr: aR1}}, nil)
	case c.kind == "standalone-replicas":
		s = fakeredis.New(opts, aP1)
		s.AddNode(aR1, "slave", s.Node(aP1))
	default:
		s = fakeredis.New(opts, aP1)
	}
	w.srv = s
	defer func() {
		s.Close()
		time.Sleep(time.Minute) // virtual: delayed refreshes and delayed closes of the client run out; what is still blocked then is a leak
	}()

	// the failing step: an error reply to that setup command on the data nodes
	if c.step != "" && c.nth > 0 {
		e := resp.Err(transientErrs[c.terr])
		s.Plan(&fakeredis.Rule{Name: "transient-step", Skip: c.nth - 1, Times: 1, Match: func(cn *fakeredis.Conn, a []string) bool {
			return cn.NodeAddr() != aS && isSetupName(a) && stepOf(a) == c.step
		}, Action: fakeredis.Action{Reply: &e}})
	} else if c.step != "" {
		e := resp.Err("ERR injected failure of " + c.step)
		skip := 0
		if c.later {
			skip = 1
		}
		s.Plan(&fakeredis.Rule{Name: "fail-step", Skip: skip, Match: func(cn *fakeredis.Conn, a []string) bool {
			return cn.NodeAddr() != aS && isSetupName(a) && stepOf(a) == c.step
		}, Action: fakeredis.Action{Reply: &e}})
	}
	// every user command waits before it executes until the driver has looked at the session
	s.Plan(&fakeredis.Rule{Name: "stall-user-command", Match: func(_ *fakeredis.Conn, a []string) bool {
		return strings.HasPrefix(strings.ToUpper(a[0]), "VERIF.")
	}, Action: fakeredis.Action{Stall: true}})

	done := make(chan struct{})
	var cl rueidis.Client
	go func() {
		defer close(done)
		defer func() {
			if p := recover(); p != nil {
				w.run.Violation("panic", c.kind+"|step="+c.step, w.wit(map[string]any{"panic": fmt.Sprint(p)}))
			}
		}()
		var err error
		cl, err = rueidis.NewClient(c.options(s))
		w.mu.Lock()
		w.newErr, w.newDone = err, true
		w.mu.Unlock()
		if err != nil {
			return
		}
		w.client(cl)
	}()
	seen := 0
	finished := false
	for iter := 0; iter < 3000 && !finished; iter++ {
		time.Sleep(10 * time.Millisecond) // virtual: everything that can run has run
		log := s.Log()
		for _, e := range log[seen:] {
			if e.Kind == "recv" && strings.HasPrefix(strings.ToUpper(e.Argv[0]), "VERIF.") && len(e.Argv) > 2 {
				si, ok := s.Session(e.Conn)
				w.inspected = append(w.inspected, inspected{uid: e.Argv[2], conn: e.Conn, sess: si, ok: ok})
			}
		}
		seen = len(log)
		s.Resume()
		select {
		case <-done:
			finished = true
		default:
		}
	}
	if !finished {
		buf := make([]byte, 1<<20)
		buf = buf[:runtime.Stack(buf, true)]
		w.run.Violation("hang", c.kind+"|server="+c.server+"|step="+c.step, w.wit(map[string]any{"rueidis_frames": drv.RueidisFrames(string(buf))}))
	}
	w.sessionsAtEnd = s.Sessions()
	if finished && w.newErr == nil && cl != nil { // NewClient returns typed nil pointers inside the interface on error
		go cl.Close()
		time.Sleep(3 * time.Second)
	}
	if finished {
		w.check(s.Log())
	}
}

func sortedCopy(a []string) []string {
	b := append([]string{}, a...)
	sort.Strings(b)
	return b
}

func eqStrs(a, b []string) bool {
	if len(a) != len(b) {
		return false
	}
	for i := range a {
		if a[i] != b[i] {
			return false
		}
	}
	return true
}

type connFacts struct {
	node       string
	setup      []string // joined argv of the setup commands received before the first user command, in order
	errors     map[string]string
	injected   map[string]bool // steps that got the injected failure
	everErr    map[string]bool // steps that were answered with an error at least once
	helloNoCmd bool            // HELLO 3 was answered "unknown command"
	transient  map[string]bool // steps that got the transient error (once)
	transHello int             // protocol version of the HELLO that got the transient error (0: none)
	userCmds   int
	firstUser  int // index in setup order at which the first user command arrived (len(setup) at that time)
}

func (w *world) facts(log []fakeredis.Event) map[int64]*connFacts {
	out := map[int64]*connFacts{}
	get := func(e fakeredis.Event) *connFacts {
		f := out[e.Conn]
		if f == nil {
			f = &connFacts{node: e.Node, errors: map[string]string{}, injected: map[string]bool{}, everErr: map[string]bool{}, transient: map[string]bool{}, firstUser: -1}
			out[e.Conn] = f
		}
		return f
	}
	for _, e := range log {
		if e.Conn == 0 || len(e.Argv) == 0 {
			continue
		}
		switch e.Kind {
		case "recv":
			f := get(e)
			if strings.HasPrefix(strings.ToUpper(e.Argv[0]), "VERIF.") {
				if f.firstUser < 0 {
					f.firstUser = len(f.setup)
				}
				f.userCmds++
			} else if isSetupName(e.Argv) {
				f.setup = append(f.setup, strings.Join(e.Argv, " "))
			}
		case "fault":
			if e.Note == "fail-step" {
				get(e).injected[stepOf(e.Argv)] = true
			}
			if e.Note == "transient-step" {
				f := get(e)
				f.transient[stepOf(e.Argv)] = true
				if stepOf(e.Argv) == "HELLO" && len(e.Argv) > 1 {
					f.transHello, _ = strconv.Atoi(e.Argv[1])
				}
			}
		case "reply":
			if isSetupName(e.Argv) {
				f := get(e)
				st := stepOf(e.Argv)
				isErr := e.Reply.T == '-' || e.Reply.T == '!'
				switch {
				case isErr && st == "HELLO" && strings.Contains(e.Reply.S, "unknown command"):
					f.helloNoCmd = true
				case isErr:
					f.errors[st] = e.Reply.S // what counts is the last time the step was tried
					f.everErr[st] = true
				default:
					delete(f.errors, st)
				}
			}
		}
	}
	return out
}

func (w *world) check(log []fakeredis.Event) {
	run, c := w.run, w.c
	facts := w.facts(log)
	keyBase := fmt.Sprintf("%s|server=%s|step=%s", c.kind, c.server, c.step)
	if c.nth > 0 {
		keyBase += "|transient=" + c.terr
	}

	// ---- 1. every user command that reached a server: the session it met
	for _, in := range w.inspected {
		f := facts[in.conn]
		if f == nil || !in.ok {
			continue
		}
		addr := f.node
		wit := func(extra map[string]any) map[string]any {
			m := w.wit(map[string]any{"uid": in.uid, "connection": in.conn, "node": addr, "session": fmt.Sprintf("%+v", in.sess), "connection_log": w.connLog(log, addr, in.conn)})
			for k, v := range extra {
				m[k] = v
			}
			return m
		}
		// a connection whose setup had a failed step that is not tolerated must not serve user commands
		for st, msg := range f.errors {
			if tolerated(st) {
				run.Observe("tolerated_step_errors_seen", 1)
				continue
			}
			// errors of the RESP3 attempt on a server without HELLO are repeated in the RESP2 sequence: what counts is
			// whether the step failed the last time it was tried - decided below through the session record
			run.Violation("user-command-after-failed-step", keyBase+"|failed="+st, wit(map[string]any{"failed_step": st, "reply": msg}))
		}
		// the same for a step that failed and was tried again on the same connection with success: only a server that
		// rejects HELLO as an unknown command gives the client a reason to run a second setup sequence
		if !f.helloNoCmd {
			for st := range f.everErr {
				if _, still := f.errors[st]; still || tolerated(st) {
					continue
				}
				run.Violation("user-command-after-failed-step", keyBase+"|failed="+st+"|then-retried", wit(map[string]any{"failed_step": st, "hello_rejected_as_unknown_command": false}))
			}
		}
		wantProto := 3
		if c.resp2 || c.server == "nohello" {
			wantProto = 2
		}
		if f.injected["HELLO"] {
			wantProto = in.sess.Proto // an injected HELLO error: falling back or failing are both within the statement
		}
		bad := []string{}
		if in.sess.Proto != wantProto {
			if in.sess.Proto == 2 {
				run.Violation("resp2-without-hello-rejected", keyBase, wit(nil))
			} else {
				bad = append(bad, fmt.Sprintf("proto=%d want %d", in.sess.Proto, wantProto))
			}
		}
		user, _ := c.creds(addr)
		if user == "" {
			user = "default"
		}
		if in.sess.User != user || !in.sess.Authed {
			bad = append(bad, fmt.Sprintf("user=%q authed=%v want %q", in.sess.User, in.sess.Authed, user))
		}
		name := ""
		if c.name {
			name = "c47-conn"
		}
		if in.sess.Name != name {
			bad = append(bad, fmt.Sprintf("name=%q want %q", in.sess.Name, name))
		}
		if in.sess.DB != c.db {
			bad = append(bad, fmt.Sprintf("db=%d want %d", in.sess.DB, c.db))
		}
		tr := c.trackingOpts()
		has := func(o string) bool {
			for _, x := range tr {
				if x == o {
					return true
				}
			}
			return false
		}
		wantOn := !c.disableCache()
		wantOptIn := c.tracking == "default" || has("OPTIN")
		if in.sess.Tracking != wantOn || (wantOn && (in.sess.OptIn != wantOptIn || in.sess.OptOut != has("OPTOUT") || in.sess.BCast != has("BCAST") || in.sess.NoLoop != has("NOLOOP"))) {
			bad = append(bad, fmt.Sprintf("tracking on=%v optin=%v optout=%v bcast=%v noloop=%v want on=%v opts=%v", in.sess.Tracking, in.sess.OptIn, in.sess.OptOut, in.sess.BCast, in.sess.NoLoop, wantOn, tr))
		}
		if wantOn && has("BCAST") && !eqStrs(sortedCopy(in.sess.Prefixes), []string{"k:", "p:"}) {
			bad = append(bad, fmt.Sprintf("prefixes=%v", in.sess.Prefixes))
		}
		if c.readonlyConn(addr) && !in.sess.ReadOnly {
			if _, failed := f.errors["READONLY"]; !failed {
				bad = append(bad, "readonly=false")
			}
		}
		if in.sess.NoTouch != c.noTouch {
			bad = append(bad, fmt.Sprintf("no-touch=%v want %v", in.sess.NoTouch, c.noTouch))
		}
		if in.sess.NoEvict != c.noEvict {
			bad = append(bad, fmt.Sprintf("no-evict=%v want %v", in.sess.NoEvict, c.noEvict))
		}
		if in.sess.CapaRedirect != (c.kind == "redirect") {
			bad = append(bad, fmt.Sprintf("capa-redirect=%v", in.sess.CapaRedirect))
		}
		wantLib, wantVer := rueidis.LibName, rueidis.LibVer
		switch c.setInfo {
		case "custom":
			wantLib, wantVer = "mylib", "9.9.9"
		case "disabled":
			wantLib, wantVer = "", ""
		}
		// a tolerated SETINFO failure leaves that attribute unset (or set by an earlier, successful try on a server without HELLO)
		libOK := in.sess.LibName == wantLib || (f.everErr["CLIENT SETINFO LIB-NAME"] && in.sess.LibName == "")
		verOK := in.sess.LibVer == wantVer || (f.everErr["CLIENT SETINFO LIB-VER"] && in.sess.LibVer == "")
		if !libOK || !verOK {
			bad = append(bad, fmt.Sprintf("lib=%q/%q want %q/%q", in.sess.LibName, in.sess.LibVer, wantLib, wantVer))
		}
		if len(bad) > 0 {
			what := make([]string, len(bad))
			for i, b := range bad {
				what[i] = strings.SplitN(b, "=", 2)[0]
			}
			run.Violation("session-mismatch", keyBase+"|"+strings.Join(what, ","), wit(map[string]any{"mismatch": bad}))
		}
		run.Observe("sessions_inspected_at_first_user_command", 1)
		if c.nopass() {
			run.Observe("sessions_of_username_only_credentials_inspected", 1)
			if in.sess.Proto == 2 {
				run.Observe("resp2_sessions_of_username_only_credentials_inspected", 1)
			}
		}
		if in.sess.ReadOnly {
			run.Observe("readonly_sessions", 1)
		}
		if in.sess.Proto == 2 {
			run.Observe("resp2_sessions", 1)
		}
	}

	// ---- 2. the setup commands of every connection that went on to serve user commands
	for id, f := range facts {
		if f.userCmds == 0 {
			continue
		}
		r3, r2 := c.setupCmds(f.node, c.readonlyConn(f.node))
		var want []string
		if !c.resp2 {
			want = append(want, r3...)
		}
		if c.resp2 || c.server == "nohello" || (f.injected["HELLO"] && len(f.setup) > len(r3)) {
			want = append(want, r2...)
		}
		got := f.setup
		if f.firstUser >= 0 && f.firstUser < len(got) {
			got = got[:f.firstUser]
		}
		if !eqStrs(sortedCopy(got), sortedCopy(want)) {
			run.Violation("setup-commands-differ", keyBase, w.wit(map[string]any{"connection": id, "node": f.node, "received": got, "expected": want}))
		}
		first := "HELLO"
		if c.resp2 {
			if u, _ := c.creds(f.node); u != "" {
				first = "AUTH"
			}
		}
		if len(got) > 0 && !strings.HasPrefix(got[0], first) {
			run.Violation("setup-order", keyBase, w.wit(map[string]any{"connection": id, "received": got}))
		}
		run.Observe("setup_sequences_checked", 1)
	}

	// ---- 2b. every setup attempt of every connection (data node or sentinel, whether or not it went on to serve user
	// commands) carries the credentials configured for that node: the RESP3 attempt inside HELLO 3, the RESP2 sequence
	// as an AUTH command in front of HELLO 2
	for id, f := range facts {
		user, pass := c.creds(f.node)
		if user == "" {
			continue
		}
		_, r2 := c.setupCmds(f.node, false)
		helloAuth := "HELLO 3 AUTH " + user + " " + pass
		authSeen := false
		for _, cmd := range f.setup {
			attempt, ok := "", true
			switch {
			case strings.HasPrefix(cmd, "AUTH"):
				if cmd == r2[0] {
					authSeen = true
				}
				continue
			case strings.HasPrefix(cmd, "HELLO 3"):
				attempt, ok = "resp3", cmd == helloAuth || strings.HasPrefix(cmd, helloAuth+" SETNAME ")
			case cmd == "HELLO 2":
				attempt, ok = "resp2", authSeen
				authSeen = false
			default:
				continue
			}
			if !ok {
				run.Violation("credentials-not-sent", keyBase+"|auth="+c.auth+"|attempt="+attempt, w.wit(map[string]any{"connection": id, "node": f.node,
					"credentials": user + " / " + strconv.Quote(pass), "setup_commands_received": f.setup, "connection_log": w.connLog(log, f.node, id)}))
			}
			run.Observe("setup_attempts_checked_for_credentials", 1)
			if pass == "" {
				run.Observe(attempt+"_setup_attempts_with_username_only_credentials", 1)
				if c.openDef {
					run.Observe(attempt+"_setup_attempts_with_username_only_credentials_and_open_default_user", 1)
				}
			}
		}
	}

	// ---- 2c. what became of the connections that met the transient error
	for _, f := range facts {
		for st := range f.transient {
			run.Observe("transient_step_errors_injected", 1)
			switch {
			case tolerated(st):
				run.Observe("transient_errors_on_tolerated_steps", 1)
			case f.userCmds == 0:
				run.Observe("connections_refused_after_transient_step_error", 1)
			case f.helloNoCmd:
				run.Observe("connections_serving_after_transient_error_in_the_attempt_rejected_by_a_server_without_hello", 1)
			}
			if st == "HELLO" && f.transHello == 3 {
				run.Observe("transient_errors_on_hello3", 1)
				if c.disableCache() && c.server != "nohello" {
					// nothing but the error itself stands between this connection and a working RESP2 session
					run.Observe("transient_errors_on_hello3_where_a_resp2_session_would_work", 1)
				}
			}
		}
	}

	// ---- 3. sentinel connections: sentinel credentials, sentinel client name, db 0
	if c.sentinel() && w.newErr == nil {
		n := 0
		for _, si := range w.sessionsAtEnd {
			if si.Node != aS {
				continue
			}
			n++
			u := "default"
			if c.auth != "none" {
				u, _ = c.creds(aS)
			}
			if si.User != u || si.Name != "sentinel-conn" || si.DB != 0 {
				run.Violation("sentinel-session-mismatch", keyBase, w.wit(map[string]any{"session": fmt.Sprintf("%+v", si)}))
			}
			run.Observe("sentinel_sessions_checked", 1)
		}
		_ = n
	}

	// ---- 4. outcome of the calls
	anyInjected, injectedFatal := false, false
	causes := map[string]bool{}
	for _, f := range facts {
		for st := range f.injected {
			anyInjected = true
			if !tolerated(st) && st != "HELLO" {
				injectedFatal = true
			}
		}
		for st := range f.errors {
			if !tolerated(st) {
				causes[st] = true
			}
		}
	}
	needNoCache := !c.disableCache() && (c.resp2 || c.server == "nohello")
	failed := w.newErr != nil
	var firstErr error = w.newErr
	okCalls := 0
	reached := map[string]bool{}
	for _, e := range log {
		if e.Kind == "recv" && len(e.Argv) > 2 && strings.HasPrefix(strings.ToUpper(e.Argv[0]), "VERIF.") {
			reached[e.Argv[2]] = true
		}
	}
	for _, u := range w.calls {
		if u.done && u.err != nil && reached[u.uid] {
			run.Observe("calls_served_with_an_error_reply", 1) // e.g. MOVED on a dedicated connection after a tolerated READONLY failure
			continue
		}
		if u.done && u.err != nil {
			failed = true
			if firstErr == nil {
				firstErr = u.err
			}
		}
		if u.done && u.err == nil {
			okCalls++
			if u.val != "echo:"+u.uid {
				run.Violation("wrong-reply", keyBase, w.wit(map[string]any{"uid": u.uid, "got": u.val}))
			}
		}
	}
	outcome := "ok"
	if failed {
		outcome = "failed"
	}
	run.Case(fmt.Sprintf("%s|outcome=%s|injected=%v", c.String(), outcome, anyInjected), len(facts) > 0)
	switch {
	case needNoCache:
		// RESP2 without DisableCache: the connection must be refused with ErrNoCache
		if w.newErr == nil && okCalls > 0 {
			run.Violation("resp2-with-cache-accepted", keyBase, w.wit(nil))
		} else if firstErr != nil && !errors.Is(firstErr, rueidis.ErrNoCache) && len(causes) == 0 {
			run.Violation("resp2-with-cache-wrong-error", keyBase, w.wit(map[string]any{"error": firstErr.Error()}))
		} else {
			run.Observe("errnocache_refusals", 1)
		}
	case failed && len(causes) == 0:
		// something failed although every setup step of every connection was answered OK (or tolerated)
		run.Violation("failed-without-failed-step", keyBase, w.wit(map[string]any{"error": fmt.Sprint(firstErr)}))
	case failed:
		run.Observe("refused_after_failed_step", 1)
	default:
		run.Observe("all_calls_served", 1)
		if anyInjected && !injectedFatal {
			run.Observe("tolerated_failures_survived", 1)
		}
	}
	if c.step != "" && !c.later && !tolerated(c.step) && c.step != "HELLO" && anyInjected && !failed {
		run.Violation("failed-step-not-reported", keyBase, w.wit(nil))
	}
	if anyInjected {
		run.Observe("injected_step_failures", 1)
	}
}

func pick[T any](r *rand.Rand, xs ...T) T { return xs[r.Intn(len(xs))] }

func genCfg(r, rx *rand.Rand, i int) cfg {
	kinds := []string{"single", "auto-single", "redirect", "standalone-replicas", "cluster", "cluster-replicaonly", "cluster-sendtoreplicas", "sentinel", "sentinel-replicaonly"}
	c := cfg{kind: kinds[i%len(kinds)]}
	c.server = pick(r, "resp3", "resp3", "resp3", "nohello", "notracking")
	c.auth = pick(r, "none", "password", "userpass", "fn-userpass", "fn-password")
	c.name = r.Intn(2) == 0
	if !c.cluster() && r.Intn(2) == 0 {
		c.db = 1 + r.Intn(15)
	}
	c.tracking = pick(r, "off", "off", "default", "default", "optin-noloop", "bcast-prefix", "optout", "empty")
	c.noTouch, c.noEvict = r.Intn(2) == 0, r.Intn(2) == 0
	c.setInfo = pick(r, "default", "default", "custom", "disabled")
	c.resp2 = r.Intn(5) == 0
	if c.server == "nohello" && r.Intn(3) != 0 {
		c.tracking = "off" // otherwise nearly every nohello case is the ErrNoCache refusal
	}
	if c.resp2 && r.Intn(3) != 0 {
		c.tracking = "off"
	}
	if r.Intn(5) < 3 {
		// a step this configuration really sends
		r3, r2 := c.setupCmds(aP1, true)
		all := append(append([]string{}, r3...), r2...)
		st := stepOf(strings.Fields(all[r.Intn(len(all))]))
		if st == "READONLY" && !(c.kind == "cluster-replicaonly" || c.kind == "cluster-sendtoreplicas") {
			st = "HELLO"
		}
		c.step = st
		c.later = (c.kind == "single" || c.kind == "auto-single") && r.Intn(2) == 0
	}
	// credentials that consist of a user name only (ACL user with nopass), statically or from AuthCredentialsFn, and
	// servers whose default user needs no password (a session that never authenticates is then a working session of
	// the wrong user). Drawn from a stream of their own (the step above depends only on the number of setup commands,
	// which is the same with and without a password).
	half, open := rx.Intn(2) == 0, rx.Intn(2) == 0
	if half {
		switch c.auth {
		case "userpass":
			c.auth = "user-nopass"
		case "fn-userpass":
			c.auth = "fn-user-nopass"
		}
	}
	c.openDef = open && c.namedUser()
	return c
}

// genTransient turns a generated configuration into one of the transient mode: one of the steps it sends (half of the
// time HELLO, the step that decides between the RESP3 and the RESP2 sequence) meets a server-state error exactly once.
func genTransient(c cfg, rt *rand.Rand) cfg {
	c.later = false
	c.terr = pick(rt, "LOADING", "BUSY", "MASTERDOWN")
	c.nth = 1 + rt.Intn(3)
	if rt.Intn(2) == 0 {
		c.tracking = "off" // a RESP2 session is refused (ErrNoCache) unless the cache is disabled
	}
	c.step = "HELLO"
	if rt.Intn(2) == 0 {
		r3, r2 := c.setupCmds(aP1, c.readonlyConn(aP1) || c.readonlyConn(aR1))
		all := append(append([]string{}, r3...), r2...)
		c.step = stepOf(strings.Fields(all[rt.Intn(len(all))]))
	}
	return c
}

func TestC47(t *testing.T) {
	run := mon.Start(t, "C47", "fault_enumeration",
		"random points of {9 client kinds (single, auto-detected single, standalone with redirect, standalone with replicas, cluster, cluster ReplicaOnly, cluster SendToReplicas, sentinel, sentinel ReplicaOnly)} x {RESP3, no-HELLO, no-tracking server} x "+
			"{no auth, password, user+password, user name only (user without password), AuthCredentialsFn x3 (password, user+password, user name only)} x {default user with, without password} x ClientName x SelectDB x {DisableCache, default tracking, 4 ClientTrackingOptions} x NO-TOUCH x NO-EVICT x {default, custom, disabled SETINFO} x AlwaysRESP2 x "+
			"{no fault, one setup step answered with an error on every connection or on every connection but the first}, plus a quarter as many cases again in which one setup step (half of the time HELLO) is answered with a transient LOADING / BUSY / MASTERDOWN error on its 1st, 2nd or 3rd try only; five user commands per case over the pipelined, dedicated and streaming connections; a case = the whole tuple plus its outcome")
	defer run.Finish()
	run.Assume("fakeredis keeps a per-connection session record (user, name, db, tracking, readonly, no-touch, no-evict, lib info, protocol) that reflects exactly the setup commands it answered OK")
	rueidis.VerifSetQueueType("flowbuffer")
	defer rueidis.VerifSetQueueType("")
	n := run.N(1200, 20000)
	base := run.Rand("cases").Int63()
	baseX := run.Rand("credentials").Int63()
	nt := n / 4 // the transient mode: cases of their own behind the others, from a stream of their own
	baseT := run.Rand("transient").Int63()
	for i := 0; i < n+nt; i++ {
		r := rand.New(rand.NewSource(base + int64(i)*6151))
		rx := rand.New(rand.NewSource(baseX + int64(i)*7919))
		w := &world{run: run, id: i, c: genCfg(r, rx, i)}
		if i >= n {
			w.c = genTransient(w.c, rand.New(rand.NewSource(baseT+int64(i)*104729)))
		}
		dl, stacks := drv.Bubble(t, w.body)
		if dl != "" {
			run.Violation("hang-or-leak", w.c.kind+"|server="+w.c.server+"|step="+w.c.step, w.wit(map[string]any{"synctest": dl, "rueidis_frames": drv.RueidisFrames(stacks), "stacks": drv.Tail(stacks, 9000)}))
		}
		if i < 6 {
			var ins []string
			for _, in := range w.inspected {
				ins = append(ins, fmt.Sprintf("%s conn=%d %+v", in.uid, in.conn, in.sess))
			}
			run.Sample(w.wit(map[string]any{"inspected": ins}))
		}
	}
	run.Require("sessions_inspected_at_first_user_command", "setup_sequences_checked", "sentinel_sessions_checked", "errnocache_refusals", "refused_after_failed_step", "all_calls_served",
		"tolerated_failures_survived", "injected_step_failures", "readonly_sessions", "resp2_sessions", "tolerated_step_errors_seen",
		"resp2_setup_attempts_with_username_only_credentials", "resp2_setup_attempts_with_username_only_credentials_and_open_default_user", "resp3_setup_attempts_with_username_only_credentials",
		"transient_errors_on_hello3_where_a_resp2_session_would_work", "connections_refused_after_transient_step_error")
}
