package c01

import (
	"fmt"
	"testing"
	"time"

	"verifh/drv"
	"verifh/mon"
	"verifh/stress"
)

func configs(run *mon.Run) []stress.Config {
	callers, ops := 16, 250
	if !run.Quick() {
		callers, ops = 32, 1500
	}
	cs := []stress.Config{
		{Name: "ring-default", Queue: "ring", Multiplex: 0, RingScale: 10, Callers: callers, Ops: ops, CancelPct: 15},
		{Name: "ring-tiny", Queue: "ring", Multiplex: -1, RingScale: 1, Callers: callers, Ops: ops, CancelPct: 20},
		{Name: "ring-tiny-always", Queue: "ring", Multiplex: 0, RingScale: 2, Always: true, Callers: callers, Ops: ops, CancelPct: 30},
		{Name: "flow-tiny", Queue: "flowbuffer", Multiplex: -1, RingScale: 1, Callers: callers, Ops: ops, CancelPct: 20},
		{Name: "flow-default-mux", Queue: "flowbuffer", Multiplex: 2, RingScale: 4, Callers: callers, Ops: ops, CancelPct: 10},
		{Name: "ring-mux-flush", Queue: "ring", Multiplex: 1, RingScale: 3, Flush: 20 * time.Microsecond, Callers: callers, Ops: ops, CancelPct: 10},
		{Name: "ring-resp2", Queue: "ring", RESP2: true, Multiplex: -1, RingScale: 2, Callers: callers, Ops: ops, CancelPct: 15},
		{Name: "flow-resp2", Queue: "flowbuffer", RESP2: true, Multiplex: 1, RingScale: 3, Callers: callers, Ops: ops, CancelPct: 0},
		{Name: "ring-nocancel-2callers", Queue: "ring", Multiplex: -1, RingScale: 1, Callers: 2, Ops: ops * 4, CancelPct: 0},
		{Name: "cluster-ring", Queue: "ring", Multiplex: -1, RingScale: 2, Cluster: true, Callers: callers, Ops: ops, CancelPct: 20},
		{Name: "cluster-flow-mux", Queue: "flowbuffer", Multiplex: 1, RingScale: 3, Cluster: true, Callers: callers, Ops: ops, CancelPct: 10},
		{Name: "ring-sync-to-pipe", Queue: "ring", Multiplex: -1, RingScale: 2, Callers: 3, Ops: ops * 3, CancelPct: 25},
	}
	for i := range cs {
		cs[i].Seed = run.Seed*100 + int64(i)
	}
	return cs
}

// C01: auto-pipelined calls always receive their own replies, in order.
func TestC01(t *testing.T) {
	run := mon.Start(t, "C01", "exploration",
		"2..32 concurrent callers on shared connections issuing Do / DoMulti (1-40 cmds) / MULTI-EXEC batches / DoCache / DoMultiCache / blocking-tagged Do / Receive, every command carrying a unique id whose reply is a deterministic function F(uid, shape) over 13 RESP shapes; "+
			"0-30% of calls cancelled at a random instant; pub/sub and invalidation pushes interleaved; replies chunked at random byte boundaries; ring and flowbuffer queues, RESP3 and RESP2, multiplex 0-2, ring scale 1-10, AlwaysPipelining on/off, MaxFlushDelay; "+
			"-race real-time runs plus deadline-driven runs in virtual time; a case = (config, call kind, shape/size, cancelled?) that overlapped with another in-flight call")
	defer run.Finish()
	run.Assume("fakeredis answers VERIF.ECHO with F(uid, shape) and keeps per-connection reply order", "schedules are those the Go scheduler produced on this machine; see observations for how many overlapped and how many wire-order inversions were seen")
	var tot stress.Stats
	// deadline-driven cancellation in virtual time, with server latency; the bubble also detects leaked/hung goroutines
	nb := run.N(6, 60)
	drv.BubbleLimit = 20 * time.Minute // a history lasts well under a virtual minute: a wedged one is ended after 20 virtual minutes
	for i := 0; i < nb; i++ {
		cfg := stress.Config{Name: fmt.Sprintf("bubble-%d", i), Queue: []string{"flowbuffer", "ring"}[i%2], Multiplex: i%3%2 - 1, RingScale: []int{1 + i%3, 10}[i%2], Always: i%4 == 1,
			Callers: 6, Ops: 40, CancelPct: 40, Deadline: true, Seed: run.Seed*1000 + int64(i), Latency: true}
		var st stress.Stats
		dl, stacks := drv.Bubble(t, func() { st = stress.Run(run, cfg, false) })
		if dl != "" {
			run.Violation("hang-or-leak", cfg.Name, map[string]any{"config": cfg.String(), "synctest": dl, "rueidis_frames": drv.RueidisFrames(stacks), "stacks": drv.Tail(stacks, 20000)})
		}
		add(&tot, st)
		run.Observe("bubble_runs", 1)
	}
	drv.BubbleLimit = 72 * time.Hour
	// real-time runs under the race detector: schedule diversity (a wedged run is recognised by stress.Run's frozen-state
	// inspection; the virtual-time runs with their deadlock detector come first all the same)
	for _, cfg := range configs(run) {
		st := stress.Run(run, cfg, false)
		run.Sample(map[string]any{"config": cfg.String(), "stats": fmt.Sprintf("%+v", st)})
		add(&tot, st)
	}
	run.Observe("calls", tot.Calls)
	run.Observe("commands", tot.Cmds)
	run.Observe("ok", tot.OK)
	run.Observe("ctx_errors", tot.CtxErr)
	run.Observe("other_errors", tot.OtherErr)
	run.Observe("overlapped_calls", tot.Overlapped)
	run.Observe("wire_order_inversions", tot.WireInversions)
	run.Observe("pushes_on_wire", tot.Pushes)
	run.Observe("pubsub_delivered", tot.PubSubDelivered)
	run.Observe("cache_hits", tot.CacheHits)
	run.Observe("receive_calls", tot.ReceiveCalls)
	run.Observe("connections", tot.Conns)
	run.Require("overlapped_calls", "wire_order_inversions", "pushes_on_wire", "pubsub_delivered", "ctx_errors", "cache_hits")
}

func add(a *stress.Stats, b stress.Stats) {
	a.Calls += b.Calls
	a.Cmds += b.Cmds
	a.OK += b.OK
	a.CtxErr += b.CtxErr
	a.OtherErr += b.OtherErr
	a.CancelledButExecuted += b.CancelledButExecuted
	a.Overlapped += b.Overlapped
	a.WireInversions += b.WireInversions
	a.Pushes += b.Pushes
	a.PubSubDelivered += b.PubSubDelivered
	a.CacheHits += b.CacheHits
	a.ReceiveCalls += b.ReceiveCalls
	a.BadFrames += b.BadFrames
	a.Conns += b.Conns
}
