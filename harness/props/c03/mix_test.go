//go:build verif

package c03

import (
	"fmt"
	"strings"

	"github.com/redis/rueidis"
	"verifh/fakeredis"
	"verifh/mon"
)

// Mixed batches: a DoMulti whose commands are not all of one kind. A pattern names the batch command by command:
//
//	W  a plain write (VERIF.WRITE): neither read-only nor marked retryable - the commands the oracle judges
//	R  a read-only command (VERIF.ECHO built with ReadOnly)
//	Y  a write the caller marked retryable (VERIF.WRITE + ToRetryable): may legitimately be executed again
//
// The fault of the case sits on any ONE command of the batch, so that a batch can fail at a command the client is
// allowed to re-send while other commands of the same batch, which it is not allowed to re-send, were already executed
// (and answered) or are still waiting behind it. Whatever the client decides to re-send, the statement only licenses it
// for commands that are read-only or marked retryable: the W uids must be executed at most once.
type mixed struct {
	pattern string
	uids    []string // uid of every command, by batch index
}

func mixOf(k kase) *mixed {
	if !strings.HasPrefix(k.shape, "mix:") {
		return nil
	}
	m := &mixed{pattern: strings.TrimPrefix(k.shape, "mix:")}
	for i, c := range m.pattern {
		m.uids = append(m.uids, fmt.Sprintf("%c%d-%s", c+'a'-'A', i, k.name))
	}
	return m
}

func mixShapes(run *mon.Run) []string {
	if run.Quick() {
		// re-sendable command after, between and before plain writes; both re-sendable kinds
		return []string{"mix:WR", "mix:WRW", "mix:YW"}
	}
	return []string{"mix:WR", "mix:RW", "mix:WY", "mix:YW", "mix:WRW", "mix:WWR", "mix:RWR", "mix:WYR", "mix:RRW", "mix:YWR"}
}

// build returns the judged uids (the plain writes) and the batch.
func (m *mixed) build(client rueidis.Client, key string) (judged []string, cmds rueidis.Commands) {
	for i, c := range m.pattern {
		switch c {
		case 'W':
			judged = append(judged, m.uids[i])
			cmds = append(cmds, client.B().Arbitrary("VERIF.WRITE").Keys(key).Args(m.uids[i], "str").Build())
		case 'R':
			cmds = append(cmds, client.B().Arbitrary("VERIF.ECHO").Keys(key).Args(m.uids[i], "str").ReadOnly())
		case 'Y':
			cmds = append(cmds, client.B().Arbitrary("VERIF.WRITE").Keys(key).Args(m.uids[i], "str").Build().ToRetryable())
		}
	}
	return judged, cmds
}

func (m *mixed) faultOn(pos int) string {
	kind := map[byte]string{'W': "plain-write", 'R': "read-only-command", 'Y': "retryable-marked-write"}[m.pattern[pos]]
	before, after := strings.Contains(m.pattern[:pos], "W"), strings.Contains(m.pattern[pos+1:], "W")
	switch {
	case m.pattern[pos] == 'W':
		return kind
	case before && after:
		return kind + "-between-plain-writes"
	case before:
		return kind + "-after-plain-write"
	default:
		return kind + "-before-plain-write"
	}
}

// observe counts what the servers saw of a mixed batch (measured from the server's log, not from the case's intent).
func (m *mixed) observe(run *mon.Run, k kase, log []fakeredis.Event, execs map[string]int) {
	run.Observe("mix_cases", 1)
	fired := int64(0) // logical time at which the case's fault rule first fired
	recv := map[string]int{}
	firstExec := map[string]int64{}
	for _, ev := range log {
		if ev.Kind == "fault" && ev.Note == k.fault && fired == 0 {
			fired = int64(ev.Seq)
		}
		if len(ev.Argv) > 2 && (ev.Argv[0] == "VERIF.WRITE" || ev.Argv[0] == "VERIF.ECHO") {
			switch ev.Kind {
			case "recv":
				recv[ev.Argv[2]]++
			case "exec":
				if _, ok := firstExec[ev.Argv[2]]; !ok {
					firstExec[ev.Argv[2]] = int64(ev.Seq)
				}
			}
		}
	}
	if fired == 0 {
		return
	}
	run.Observe("mix_fault_fired", 1)
	connFault := k.fault != "moved" && k.fault != "ask"
	if m.pattern[k.pos] == 'W' {
		run.Observe("mix_fault_on_plain_write", 1)
		return
	}
	run.Observe("mix_fault_on_resendable_command", 1)
	executedBefore := false // a plain write of the batch had been executed when the fault hit the re-sendable command
	for i, c := range m.pattern {
		if at, ok := firstExec[m.uids[i]]; c == 'W' && ok && at < fired {
			executedBefore = true
		}
	}
	if executedBefore && connFault {
		// the essential situation: the batch is partially done - a plain write was executed - and then the connection
		// fails (drop, cut reply, silence, latency beyond lifetime + grace) at a command the client may re-send
		run.Observe("mix_connection_fault_on_resendable_command_after_plain_write_executed", 1)
		run.Observe("mix_connection_fault_on_resendable_command_after_plain_write_executed_"+k.client, 1)
		if k.always {
			run.Observe("mix_connection_fault_on_resendable_command_after_plain_write_executed_pipelined", 1)
		}
	}
	if !executedBefore && connFault && strings.Contains(m.pattern[k.pos+1:], "W") {
		run.Observe("mix_connection_fault_on_resendable_command_before_plain_write", 1)
	}
	if recv[m.uids[k.pos]] > 1 {
		// the client did use its licence: the failed read-only / retryable command reached a server again
		run.Observe("mix_failed_resendable_command_sent_again", 1)
		if executedBefore && connFault {
			run.Observe("mix_failed_resendable_command_sent_again_after_plain_write_executed", 1)
		}
	}
}
