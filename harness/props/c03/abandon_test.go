//go:build verif

package c03

import (
	"context"
	"errors"
	"fmt"
	"math/rand"
	"os"
	"sort"
	"strings"
	"sync/atomic"
	"testing/synctest"
	"time"

	"github.com/redis/rueidis"
	"verifh/drv"
	"verifh/fakeredis"
	"verifh/mon"
)

// Second scenario family: calls that are GIVEN UP by their context (cancel or deadline: the statement's "timeouts")
// while the connection is busy, followed by further calls. A connection is made busy by a blocker command the server
// sits on (it stops reading that connection, so the client's writer ends up blocked in Flush or is not even started);
// the abandoned call's commands are then still in the client's queue (or half way through the socket) when the call
// returns, the next calls queue up behind them, and finally the server catches up with everything (or the connection
// is dropped). Every command belongs to exactly one call and no redirect is ever answered, so nothing licenses a
// second execution of anything.
type akase struct {
	name     string
	client   string // single | cluster | redirect
	queue    string // ring | flowbuffer
	end      string // cancel | deadline
	filler   bool   // another call occupies the writer (blocked in Flush) before the abandoned call is issued
	shapeA   string // do | multi2 | multi3 | tx
	succ     string // same | bigger | do | two
	lifetime time.Duration
	always   bool   // AlwaysPipelining
	bctx     string // background | cancelable: context of the blocker (background + !always = the blocker runs on the sync path)
	worker   string // same | other: the successors are issued by the goroutine that issued the abandoned call, or a fresh one
	release  string // resume | kill
	spread   bool   // cluster only: the batches also touch a second node that is not busy
}

func (k akase) String() string {
	return fmt.Sprintf("abandon client=%s queue=%s end=%s filler=%v A=%s succ=%s lifetime=%v always=%v blocker=%s worker=%s release=%s spread=%v",
		k.client, k.queue, k.end, k.filler, k.shapeA, k.succ, k.lifetime, k.always, k.bctx, k.worker, k.release, k.spread)
}

func (k akase) plain() bool {
	return k.worker == "same" && k.release == "resume" && !k.spread && (k.succ == "same" || k.succ == "two")
}

type acall struct {
	role string // abandoned | successor
	do   bool
	cmds rueidis.Commands
	uids []string // every VERIF.WRITE uid of the call
	busy []string // the uids addressed to the busy node
}

func abandonCases(run *mon.Run) []akase {
	rng := run.Rand("abandon")
	var out []akase
	i := 0
	reps := run.N(1, 12)
	for rep := 0; rep < reps; rep++ {
		for _, cl := range []string{"single", "cluster", "redirect"} {
			for _, q := range []string{"flowbuffer", "ring"} {
				for _, end := range []string{"cancel", "deadline"} {
					for _, filler := range []bool{true, false} {
						for _, sa := range []string{"do", "multi2", "multi3", "tx"} {
							for _, su := range []string{"same", "bigger", "do", "two"} {
								k := akase{client: cl, queue: q, end: end, filler: filler, shapeA: sa, succ: su}
								k.name = fmt.Sprintf("a%d", i)
								i++
								k.always = rng.Intn(2) == 0
								k.bctx = pick(rng, "background", "cancelable")
								k.worker = pick(rng, "same", "same", "same", "other")
								k.release = pick(rng, "resume", "resume", "resume", "kill")
								if rng.Intn(4) == 0 {
									k.lifetime = 500 * time.Millisecond
								}
								k.spread = cl == "cluster" && sa != "tx" && rng.Intn(3) == 0
								out = append(out, k)
							}
						}
					}
				}
			}
		}
	}
	// plain situations first, the variations after them (a crash of the code under test ends the whole run, and the
	// variations are the more likely ones to end that way: the plain cases should have been judged by then)
	sort.SliceStable(out, func(i, j int) bool { return out[i].plain() && !out[j].plain() })
	return out
}

func pick(rng *rand.Rand, s ...string) string { return s[rng.Intn(len(s))] }

func isCtxErr(err error) bool {
	return errors.Is(err, context.Canceled) || errors.Is(err, context.DeadlineExceeded)
}

func runAbandon(run *mon.Run, k akase) {
	rueidis.VerifSetQueueType(k.queue)
	defer rueidis.VerifSetQueueType("")
	var srv *fakeredis.Server
	var opt rueidis.ClientOption
	switch k.client {
	case "cluster":
		srv = fakeredis.New(fakeredis.Options{}, addrs...)
		srv.EnableCluster()
		opt = drv.Option(srv, addrs[0])
	case "redirect":
		srv = fakeredis.New(fakeredis.Options{}, addrs[0], addrs[1])
		opt = drv.Option(srv, addrs[0])
		opt.Standalone.EnableRedirect = true
	default:
		srv = fakeredis.New(fakeredis.Options{}, addrs[0])
		opt = drv.Option(srv, addrs[0])
		opt.ForceSingleClient = true
	}
	opt.PipelineMultiplex = -1
	opt.AlwaysPipelining = k.always
	opt.ConnLifetime = k.lifetime
	opt.ConnWriteTimeout = 2 * time.Second
	opt.Dialer.KeepAlive = time.Second
	opt.DisableCache = true
	client, err := rueidis.NewClient(opt)
	if err != nil {
		run.Inconclusive("client setup: " + err.Error())
		srv.Close()
		return
	}
	run.Observe("abandon_cases", 1)
	if os.Getenv("VERIF_DEBUG") != "" {
		fmt.Println("CASE", k.name, k.String())
	}

	// the busy node serves tag {t}; a second tag lives on another node (cluster + spread only)
	busyTag, freeTag := "{t}", "{t}"
	busyNode := addrs[0]
	if k.client == "cluster" {
		busyNode = srv.SlotOwner(fakeredis.Slot(busyTag))
		if k.spread {
			for j := 0; j < 1000; j++ {
				if tg := fmt.Sprintf("{u%d}", j); srv.SlotOwner(fakeredis.Slot(tg)) != busyNode {
					freeTag = tg
					break
				}
			}
		}
	}
	nuid := 0
	mk := func(role string, shape string) *acall {
		c := &acall{role: role}
		w := func() rueidis.Completed {
			uid := fmt.Sprintf("%s%d-%s", role[:1], nuid, k.name)
			tag := busyTag
			if nuid%2 == 1 {
				tag = freeTag
			}
			nuid++
			c.uids = append(c.uids, uid)
			if tag == busyTag {
				c.busy = append(c.busy, uid)
			}
			return client.B().Arbitrary("VERIF.WRITE").Keys(tag+"k").Args(uid, "str").Build()
		}
		switch shape {
		case "do":
			nuid += nuid % 2 // a single command always goes to the busy node
			c.do = true
			c.cmds = rueidis.Commands{w()}
		case "tx":
			c.cmds = rueidis.Commands{client.B().Multi().Build(), w(), w(), client.B().Exec().Build()}
		default:
			nuid += nuid % 2 // the first command of a batch goes to the busy node
			n := int(shape[len(shape)-1] - '0')
			for j := 0; j < n; j++ {
				c.cmds = append(c.cmds, w())
			}
		}
		return c
	}
	a := mk("abandoned", k.shapeA)
	var succ []*acall
	switch k.succ {
	case "same":
		succ = []*acall{mk("successor", k.shapeA)}
	case "bigger":
		succ = []*acall{mk("successor", "multi4")}
	case "do":
		succ = []*acall{mk("successor", "do")}
	case "two":
		sh := k.shapeA
		if sh == "do" {
			sh = "multi2"
		}
		succ = []*acall{mk("successor", sh), mk("successor", sh)}
	}

	received := func(uids []string) int { // how many of these commands the servers have read so far
		n := 0
		for _, ev := range srv.Log() {
			if ev.Kind == "recv" && len(ev.Argv) > 2 && ev.Argv[0] == "VERIF.WRITE" {
				for _, u := range uids {
					if ev.Argv[2] == u {
						n++
					}
				}
			}
		}
		return n
	}
	call := func(ctx context.Context, c *acall) (errs []error) {
		if c.do {
			return []error{client.Do(ctx, c.cmds[0]).Error()}
		}
		for _, r := range client.DoMulti(ctx, c.cmds...) {
			errs = append(errs, r.Error())
		}
		return errs
	}

	// 1. the blocker: the busy node reads it and then stops reading this connection
	blk := "blk-" + k.name
	srv.Plan(&fakeredis.Rule{Name: "busy", Match: fakeredis.MatchArg(blk), Times: 1, Action: fakeredis.Action{Stall: true}})
	bgctx, bgcancel := context.WithTimeout(context.Background(), 30*time.Second) // filler and successors
	defer bgcancel()
	bctx, bcancel := context.WithCancel(context.Background()) // a context that can end but has no deadline forces the pipelined path
	defer bcancel()
	side := make(chan struct{}, 2)
	go func() {
		ctx := context.Background()
		if k.bctx == "cancelable" {
			ctx = bctx
		}
		client.Do(ctx, client.B().Arbitrary("VERIF.ECHO").Keys(busyTag+"k").Args(blk, "str").Build())
		side <- struct{}{}
	}()
	time.Sleep(5 * time.Millisecond)
	stalled := false
	for _, ev := range srv.Log() {
		if ev.Kind == "fault" && ev.Note == "busy" {
			stalled = true
		}
	}
	if stalled {
		run.Observe("abandon_connection_busy", 1)
	}
	// 2. optionally a second call whose bytes the server does not take: the writer goroutine blocks in Flush
	sides := 1
	if k.filler {
		sides++
		go func() {
			client.Do(bgctx, client.B().Arbitrary("VERIF.ECHO").Keys(busyTag+"k").Args("fill-"+k.name, "str").Build())
			side <- struct{}{}
		}()
		time.Sleep(5 * time.Millisecond)
	}
	// 3. the call that will be given up, then its successors
	actx, acancel := context.WithCancel(context.Background())
	if k.end == "deadline" {
		actx, acancel = context.WithTimeout(context.Background(), 20*time.Millisecond)
	}
	defer acancel()
	var aErrs []error
	var issued atomic.Int32 // successors handed to the client so far
	aDone := make(chan struct{})
	done := make(chan struct{})
	var sErrs [][]error
	successors := func() {
		defer close(done)
		for _, c := range succ {
			issued.Add(1)
			sErrs = append(sErrs, call(bgctx, c))
		}
	}
	go func() {
		aErrs = call(actx, a)
		close(aDone)
		if k.worker == "same" {
			successors()
		}
	}()
	time.Sleep(5 * time.Millisecond)
	unreadAtAbandon := received(a.busy) == 0
	if k.end == "cancel" {
		acancel()
	}
	returned := false
	select {
	case <-aDone:
		returned = true
	case <-time.After(time.Second):
		// whether a call returns promptly when its context ends is not this property's business
		run.Observe("abandon_call_did_not_return_on_context_end", 1)
	}
	gaveUp := false
	if returned {
		for _, e := range aErrs {
			if isCtxErr(e) {
				gaveUp = true
			}
		}
		if gaveUp {
			run.Observe("abandon_call_ended_by_its_context", 1)
			if unreadAtAbandon && received(a.busy) == 0 {
				run.Observe("abandon_call_ended_with_its_commands_unread_by_server", 1)
			} else {
				unreadAtAbandon = false
			}
		}
		if k.worker == "other" {
			go successors()
		}
	}
	time.Sleep(5 * time.Millisecond)
	var sBusy []string
	for _, c := range succ {
		sBusy = append(sBusy, c.busy...)
	}
	queuedBehind := returned && int(issued.Load()) >= 1 && received(sBusy) == 0 && stalled
	// 4. the server catches up (or the connection is dropped)
	srv.ClearPlan()
	if k.release == "kill" {
		srv.KillAll(busyNode)
	}
	srv.Resume()
	if returned {
		select {
		case <-done:
		case <-time.After(40 * time.Second):
			run.Observe("calls_not_returned_in_40s", 1)
		}
	}
	for j := 0; j < sides; j++ {
		select {
		case <-side:
		case <-time.After(40 * time.Second):
			run.Observe("calls_not_returned_in_40s", 1)
		}
	}
	synctest.Wait()

	execs := map[string]int{}
	for _, ev := range srv.Log() {
		if os.Getenv("VERIF_DEBUG") != "" {
			fmt.Println("LOG", ev.Seq, ev.Conn, ev.Kind, ev.Argv, ev.Note)
		}
		if ev.Kind == "exec" && len(ev.Argv) > 2 && ev.Argv[0] == "VERIF.WRITE" {
			execs[ev.Argv[2]]++
		}
	}
	nontrivial := false
	drained := len(sBusy) > 0
	for _, c := range append([]*acall{a}, succ...) {
		for _, uid := range c.uids {
			n := execs[uid]
			if n > 1 {
				strs := func(es []error) (out []string) {
					for _, e := range es {
						out = append(out, fmt.Sprint(e))
					}
					return
				}
				w := map[string]any{"case": k.String(), "uid": uid, "belongs_to": c.role + " call", "executions": n, "redirect_replies": 0,
					"abandoned_call_results": strs(aErrs), "abandoned_call_unread_by_server_when_given_up": unreadAtAbandon}
				for j, es := range sErrs {
					w[fmt.Sprintf("successor_%d_results", j)] = strs(es)
				}
				run.Violation("executed-more-than-once", fmt.Sprintf("abandon|%s|%s|filler=%v|A=%s|succ=%s|release=%s|twice=%s-call",
					k.client, k.end, k.filler, k.shapeA, k.succ, k.release, c.role), w)
			}
			if n > 0 {
				nontrivial = true
			}
			run.Observe(fmt.Sprintf("abandon_%s_execs_%d", c.role, min(n, 3)), 1)
		}
	}
	for _, uid := range sBusy {
		if execs[uid] == 0 {
			drained = false
		}
	}
	if gaveUp && unreadAtAbandon && queuedBehind {
		run.Observe("abandon_successor_queued_behind_given_up_unread_call", 1)
		if drained {
			// the essential situation: the writer got past the queue entry of a call that had been given up before any of
			// its bytes reached the server, and went on to the calls issued after it
			run.Observe("abandon_given_up_unread_call_then_successors_drained", 1)
			if k.worker == "same" {
				run.Observe("abandon_given_up_unread_call_then_successors_drained_same_goroutine", 1)
			}
			if k.client == "cluster" && !a.do {
				run.Observe("abandon_given_up_unread_cluster_batch_then_successors_drained", 1)
			}
		}
	}
	run.Case(k.String(), nontrivial)
	client.Close()
	srv.Close()
	if !returned {
		<-aDone
		if k.worker == "other" {
			close(done)
		}
	}
	<-done
	time.Sleep(5 * time.Minute)
}

func abandonKey(k akase, stacks string) string {
	return "abandon|" + k.client + "|" + k.end + "|" + strings.Join(drv.RueidisFrames(stacks), ";")
}
