//go:build verif

package c03

import (
	"context"
	"fmt"
	"os"
	"runtime"
	"strings"
	"testing"
	"testing/synctest"
	"time"

	"github.com/redis/rueidis"
	"verifh/drv"
	"verifh/fakeredis"
	"verifh/mon"
	"verifh/resp"
)

type kase struct {
	name     string
	client   string        // single | cluster | redirect | sentinel
	queue    string        // ring | flowbuffer
	lifetime time.Duration // ConnLifetime
	fault    string
	shape    string // do | multi3 | tx0 | tx1 | mix:<pattern> (see mix_test.go)
	pos      int    // index (among the write commands; mix: among all commands of the batch) that carries the fault
	delay    time.Duration
	always   bool // AlwaysPipelining
}

func (k kase) String() string {
	return fmt.Sprintf("client=%s queue=%s always=%v lifetime=%v fault=%s shape=%s pos=%d delay=%v", k.client, k.queue, k.always, k.lifetime, k.fault, k.shape, k.pos, k.delay)
}

var addrs = []string{"127.0.0.1:7001", "127.0.0.1:7002", "127.0.0.1:7003"}

func runCase(run *mon.Run, k kase) {
	rueidis.VerifSetQueueType(k.queue)
	defer rueidis.VerifSetQueueType("")
	var srv *fakeredis.Server
	var opt rueidis.ClientOption
	switch k.client {
	case "cluster":
		srv = fakeredis.New(fakeredis.Options{}, addrs...)
		srv.EnableCluster()
		opt = drv.Option(srv, addrs[0])
	case "redirect":
		srv = fakeredis.New(fakeredis.Options{}, addrs[0], addrs[1])
		opt = drv.Option(srv, addrs[0])
		opt.Standalone.EnableRedirect = true
	case "sentinel":
		srv = fakeredis.New(fakeredis.Options{}, addrs[0])
		srv.AddNode(addrs[1], "slave", srv.Node(addrs[0]))
		srv.AddNode(addrs[2], "sentinel", nil).ConfigureSentinel("mymaster", addrs[0], []fakeredis.SentinelReplica{{Addr: addrs[1]}}, nil)
		opt = drv.Option(srv, addrs[2])
		opt.Sentinel.MasterSet = "mymaster"
	default:
		srv = fakeredis.New(fakeredis.Options{}, addrs[0])
		opt = drv.Option(srv, addrs[0])
		opt.ForceSingleClient = true
	}
	opt.PipelineMultiplex = -1
	opt.AlwaysPipelining = k.always
	opt.ConnLifetime = k.lifetime
	opt.ConnWriteTimeout = 2 * time.Second
	opt.Dialer.KeepAlive = time.Second
	opt.DisableCache = true
	client, err := rueidis.NewClient(opt)
	if err != nil {
		run.Inconclusive("client setup: " + err.Error())
		srv.Close()
		return
	}
	tag := "{t}" // one slot for every key of a case, so that a batch is one cluster sub-batch
	uids := []string{"w0-" + k.name, "w1-" + k.name, "w2-" + k.name}
	write := func(i int) rueidis.Completed {
		return client.B().Arbitrary("VERIF.WRITE").Keys(tag+"k").Args(uids[i], "str").Build()
	}
	mix := mixOf(k) // nil unless the shape is a mixed batch
	var mixCmds rueidis.Commands
	if mix != nil {
		// the judged uids are the plain writes of the batch; read-only and retryable-marked commands may be re-sent
		uids, mixCmds = mix.build(client, tag+"k")
	}
	var target string
	if mix != nil {
		target = mix.uids[k.pos]
	} else {
		target = uids[k.pos]
	}
	match := fakeredis.MatchArg(target)
	redirects := 0
	other := addrs[1]
	switch k.fault {
	case "close-before-exec":
		srv.Plan(&fakeredis.Rule{Name: k.fault, Match: match, Times: 1, Action: fakeredis.Action{Close: true}})
	case "close-after-exec":
		srv.Plan(&fakeredis.Rule{Name: k.fault, Match: match, Times: 1, Action: fakeredis.Action{Close: true, ExecFirst: true}})
	case "cut-reply":
		srv.Plan(&fakeredis.Rule{Name: k.fault, Match: match, Times: 1, Action: fakeredis.Action{CloseAfter: 1}})
	case "stall-after-exec":
		srv.Plan(&fakeredis.Rule{Name: k.fault, Match: match, Times: 1, Action: fakeredis.Action{Stall: true, ExecFirst: true}})
	case "slow-reply":
		srv.Plan(&fakeredis.Rule{Name: k.fault, Match: match, Action: fakeredis.Action{DelayReply: k.delay}})
	case "slow-exec":
		srv.Plan(&fakeredis.Rule{Name: k.fault, Match: match, Action: fakeredis.Action{DelayBefore: k.delay}})
	case "moved", "ask", "redirect":
		// a redirect proves the command was not executed: exactly these replies license a re-send
		text := map[string]string{"moved": "MOVED " + fmt.Sprint(fakeredis.Slot(tag+"k")) + " " + other, "ask": "ASK " + fmt.Sprint(fakeredis.Slot(tag+"k")) + " " + other, "redirect": "REDIRECT " + other}[k.fault]
		v := resp.Err(text)
		srv.Plan(&fakeredis.Rule{Name: k.fault, Match: func(c *fakeredis.Conn, a []string) bool { return c.NodeAddr() != other && match(c, a) }, Times: 1, Action: fakeredis.Action{Reply: &v}})
		redirects = 1
		if k.fault == "ask" {
			srv.Migrate(fakeredis.Slot(tag+"k"), other)
		}
	}
	var cmds rueidis.Commands
	switch k.shape {
	case "do":
		cmds = rueidis.Commands{write(k.pos)}
	case "multi3":
		cmds = rueidis.Commands{write(0), write(1), write(2)}
	case "tx0":
		cmds = rueidis.Commands{client.B().Multi().Build(), write(0), write(1), client.B().Exec().Build(), write(2)}
	case "tx1":
		cmds = rueidis.Commands{write(0), client.B().Multi().Build(), write(1), write(2), client.B().Exec().Build()}
	default:
		cmds = mixCmds
	}
	done := make(chan struct{})
	var errs []string
	go func() {
		defer close(done)
		ctx, cancel := context.WithTimeout(context.Background(), 30*time.Second)
		defer cancel()
		if k.shape == "do" {
			if err := client.Do(ctx, cmds[0]).Error(); err != nil {
				errs = append(errs, err.Error())
			}
			return
		}
		for _, r := range client.DoMulti(ctx, cmds...) {
			if err := r.Error(); err != nil {
				errs = append(errs, err.Error())
			}
		}
	}()
	// 40 virtual seconds: many connection lifetimes, write timeouts and grace periods
	select {
	case <-done:
	case <-time.After(40 * time.Second):
		run.Observe("calls_not_returned_in_40s", 1)
	}
	synctest.Wait()
	execs := map[string]int{}
	log := srv.Log()
	for _, ev := range log {
		if os.Getenv("VERIF_DEBUG") != "" {
			fmt.Println("LOG", ev.Seq, ev.Conn, ev.Kind, ev.Argv, ev.Note)
		}
		if ev.Kind == "exec" && len(ev.Argv) > 2 && ev.Argv[0] == "VERIF.WRITE" {
			execs[ev.Argv[2]]++
		}
	}
	if mix != nil {
		mix.observe(run, k, log, execs)
	}
	nontrivial := false
	for i, uid := range uids {
		n := execs[uid]
		allowed := 1
		if uid == target || k.shape != "do" {
			allowed += 0
		}
		_ = i
		if n > allowed {
			shape := k.shape
			if mix != nil {
				shape += "|fault-on=" + mix.faultOn(k.pos)
			}
			run.Violation("executed-more-than-once", fmt.Sprintf("%s|%s|%s|lifetime=%v|pipelined=%v", k.client, k.fault, shape, k.lifetime > 0, k.always), map[string]any{"case": k.String(), "uid": uid, "executions": n,
				"redirect_replies": redirects, "call_errors": errs})
		}
		if n > 0 {
			nontrivial = true
		}
		run.Observe(fmt.Sprintf("execs_%d", min(n, 3)), 1)
	}
	run.Case(k.String(), nontrivial)
	srv.ClearPlan()
	srv.Resume()
	client.Close()
	srv.Close()
	<-done
	// let delayed housekeeping goroutines (the cluster client's lazy topology refresh sleeps before it runs) finish:
	// time stops when the bubble's main function returns, and a sleeper would then look like a leak
	time.Sleep(5 * time.Minute)
}

func cases(run *mon.Run) []kase {
	var out []kase
	faults := []string{"none", "close-before-exec", "close-after-exec", "cut-reply", "stall-after-exec", "slow-reply", "slow-exec"}
	i := 0
	add := func(k kase) { k.name = fmt.Sprintf("c%d", i); i++; out = append(out, k) }
	delays := []time.Duration{700 * time.Millisecond, 3 * time.Second}
	if !run.Quick() {
		delays = append(delays, 1100*time.Millisecond, 1600*time.Millisecond, 10*time.Second)
	}
	for _, cl := range []string{"single", "cluster", "redirect", "sentinel"} {
		for _, q := range []string{"flowbuffer", "ring"} {
			for _, lt := range []time.Duration{0, 500 * time.Millisecond} {
				fs := append([]string{}, faults...)
				switch cl {
				case "cluster":
					fs = append(fs, "moved", "ask")
				case "redirect":
					fs = append(fs, "redirect")
				}
				for _, f := range fs {
					shapes := []string{"do", "multi3", "tx0", "tx1"}
					if cl == "sentinel" {
						shapes = []string{"do", "multi3"}
					}
					if f != "redirect" { // a REDIRECT inside a batch is the listed finding C03-K1 whatever the batch is made of
						shapes = append(shapes, mixShapes(run)...)
					}
					for _, sh := range shapes {
						positions := []int{0, 1, 2}
						if sh == "do" {
							positions = []int{0}
						}
						if strings.HasPrefix(sh, "mix:") {
							positions = positions[:len(sh)-len("mix:")]
						}
						for _, p := range positions {
							ds := []time.Duration{0}
							if strings.HasPrefix(f, "slow") {
								ds = delays
								if strings.HasPrefix(sh, "mix:") && run.Quick() {
									ds = delays[1:2]
								}
							}
							for _, d := range ds {
								for _, al := range []bool{false, true} {
									if run.Quick() && !al && q == "ring" && lt == 0 {
										continue // quick tier: the sync path without lifetime is covered on the flowbuffer half
									}
									if run.Quick() && strings.HasPrefix(sh, "mix:") && ((!al && q == "ring") || f == "none") {
										continue // quick tier, mixed batches: the sync path on the flowbuffer half only, no fault-free runs
									}
									add(kase{client: cl, queue: q, lifetime: lt, fault: f, shape: sh, pos: p, delay: d, always: al})
								}
							}
						}
					}
				}
			}
		}
	}
	return out
}

// C03: non-retryable commands are executed at most once per call.
func TestC03(t *testing.T) {
	run := mon.Start(t, "C03", "fault_enumeration",
		"client {single, cluster (3 primaries), standalone with EnableRedirect, sentinel (1 primary, 1 replica, 1 sentinel)} x queue {ring, flowbuffer} x ConnLifetime {off, 500 ms} x fault on one command {none, close before exec, close after exec, reply cut after 1 byte, silent after exec, reply slower than lifetime+grace, slow exec, MOVED, ASK, REDIRECT} "+
			"x batch shape {Do, DoMulti of 3, MULTI/EXEC block at index 0, at index 1, mixed DoMulti batches of plain writes W / read-only commands R / retryable-marked writes Y such as WR, RW, WRW, WYR with the fault on any one command (sentinel client: Do, DoMulti of 3 and the mixed batches)} x faulty position, each in a synctest bubble over 40 virtual seconds; oracle: every VERIF.WRITE uid that is not marked retryable is executed by the servers at most once (redirect replies are injected without executing); a case is non-trivial when something was executed. "+
			"Second family (abandon): client x queue x {cancel, deadline} x {writer blocked in Flush by an earlier call, not} x given-up call shape {Do, DoMulti of 2, of 3, MULTI/EXEC} x successors {same shape, DoMulti of 4, Do, two batches} "+
			"with seeded AlwaysPipelining / ConnLifetime / blocker on the sync or pipelined path / successors from the same or a fresh goroutine / release by resume or connection kill / cluster batches spread over a second node: "+
			"a node sits on a blocker command and stops reading, a call is given up by its context while its commands are still unread, further calls queue behind it, then the server catches up; same oracle over the uids of all calls")
	defer run.Finish()
	run.Assume("fakeredis logs one exec event per execution (also inside EXEC)", "redirect replies are produced by fault rules that do not execute the command")
	cs := cases(run)
	only := os.Getenv("VERIF_C03_ONLY") // debugging aid: run just these cases (comma separated names) - never set by check.sh
	if only != "" {
		cs = nil
	}
	for i, k := range cs {
		k := k
		dl, stacks := drv.Bubble(t, func() { runCase(run, k) })
		if dl != "" {
			run.Violation("hang-or-leak", k.client+"|"+k.fault+"|"+strings.Join(drv.RueidisFrames(stacks), ";"), map[string]any{"case": k.String(), "synctest": dl, "rueidis_frames": drv.RueidisFrames(stacks)})
		}
		if i%97 == 0 {
			run.Sample(k.String())
		}
	}
	for i, k := range abandonCases(run) {
		k := k
		if only != "" && !strings.Contains(","+only+",", ","+k.name+",") {
			continue
		}
		if k.plain() {
			// the plain cases start from empty sync.Pools (two collections drop a pool's content), so what a call finds in
			// rueidis's buffer pools is what the calls of THIS case left there; the variations inherit whatever the history left
			runtime.GC()
			runtime.GC()
		}
		dl, stacks := drv.Bubble(t, func() { runAbandon(run, k) })
		if dl != "" {
			run.Violation("hang-or-leak", abandonKey(k, stacks), map[string]any{"case": k.String(), "synctest": dl, "rueidis_frames": drv.RueidisFrames(stacks)})
		}
		if i%41 == 0 {
			run.Sample(k.String())
		}
	}
	run.Require("execs_1", "execs_0")
	// mixed batches must really have been cut in the middle: a plain write executed, then a connection fault on a command
	// of the same batch that the client is allowed to re-send - and the client must have been seen using that licence
	run.Require("mix_connection_fault_on_resendable_command_after_plain_write_executed_pipelined", "mix_failed_resendable_command_sent_again")
	// the second family must really have produced its situation: a call given up before the server had read any of its
	// commands, successors queued behind it, and the server then catching up with all of them
	run.Require("abandon_given_up_unread_call_then_successors_drained", "abandon_given_up_unread_cluster_batch_then_successors_drained")
}
