package c31

import (
	"context"
	"fmt"
	"math/rand"
	"sort"
	"strings"
	"testing"
	"time"

	"github.com/redis/rueidis"
	"verifh/drv"
	"verifh/fakeredis"
	"verifh/mon"
	"verifh/resp"
)

// C31: the multi-key helpers (MGet, MGetCache, JsonMGet, JsonMGetCache, MSet, MSetNX, MDel, JsonMSet) return a map
// whose key set is exactly the (de-duplicated) input key set and whose entry for each key is that key's own reply or
// error, on single, standalone, sentinel and cluster clients.
//
// Oracle. The driver keeps a model of the server state (type and unique value per key, written through the owner
// node directly). For a getter that returned (m, nil): keys(m) == set(input) and every entry is what the model says
// that key's command answers (its own unique value, nil, or the WRONGTYPE error of its own per-key command). For a
// setter: keys(ret) == set(input); an entry that is nil (success) means the server now holds exactly that key's value
// (MDel: the key is gone); a "not set" entry of MSetNX means the key still holds its previous value; with one node
// refusing connections or answering errors, keys living on the other nodes must not carry that node's error and the
// failing node's keys must not claim success unless the server really applied them. An error for a key (or for a whole
// getter) without any injected fault is reported too: it is not "that key's reply".

type kv struct {
	typ byte // 's' string, 'h' hash, 'j' json, 0 missing
	val string
}

type world struct {
	name     string
	kind     string // single | standalone | sentinel | cluster
	cache    bool
	srv      *fakeredis.Server
	client   rueidis.Client
	prims    []string
	replicas []string
	model    map[string]kv
	cluster  bool
	opt      rueidis.ClientOption
}

func (w *world) owner(key string) *fakeredis.Node {
	if w.cluster {
		return w.srv.Node(w.srv.SlotOwner(fakeredis.Slot(key)))
	}
	return w.srv.Node(w.prims[0])
}

func (w *world) put(key string, v kv) {
	n := w.owner(key)
	n.Exec("DEL", key)
	switch v.typ {
	case 's':
		n.Exec("SET", key, v.val)
	case 'h':
		n.Exec("HSET", key, "f", v.val)
	case 'j':
		n.Exec("JSON.SET", key, "$", jsonStr(v.val))
	}
	w.model[key] = v
}

// state reads the server's real state of key through its owner node.
func (w *world) state(key string) kv {
	n := w.owner(key)
	t := n.Exec("TYPE", key)
	switch t.S {
	case "none":
		return kv{}
	case "string":
		return kv{'s', n.Exec("GET", key).S}
	case "hash":
		return kv{'h', n.Exec("HGET", key, "f").S}
	case "ReJSON-RL":
		return kv{'j', n.Exec("JSON.GET", key, "$").S}
	}
	return kv{'?', t.S}
}

func jsonStr(s string) string { return `"` + s + `"` }

func newWorld(kind string, cache bool, resp2 bool, seed int64) (*world, error) {
	w := &world{kind: kind, cache: cache, model: map[string]kv{}, name: fmt.Sprintf("%s/cache=%v/resp2=%v", kind, cache, resp2)}
	var opt rueidis.ClientOption
	o := fakeredis.Options{Seed: seed, ChunkWrites: true, NoLog: true}
	switch kind {
	case "single":
		w.srv = fakeredis.New(o, "10.0.0.1:6379")
		w.prims = []string{"10.0.0.1:6379"}
		opt = drv.Option(w.srv, "10.0.0.1:6379")
		opt.ForceSingleClient = true
	case "standalone":
		w.srv = fakeredis.New(o, "10.0.0.1:6379")
		w.prims = []string{"10.0.0.1:6379"}
		m := w.srv.Node("10.0.0.1:6379")
		w.srv.AddNode("10.0.0.2:6379", "slave", m)
		w.srv.AddNode("10.0.0.3:6379", "slave", m)
		opt = drv.Option(w.srv, "10.0.0.1:6379")
		opt.Standalone.ReplicaAddress = []string{"10.0.0.2:6379", "10.0.0.3:6379"}
		w.replicas = opt.Standalone.ReplicaAddress
		opt.SendToReplicas = func(cmd rueidis.Completed) bool { return cmd.IsReadOnly() }
	case "sentinel":
		w.srv = fakeredis.New(o, "10.0.0.1:6379")
		w.prims = []string{"10.0.0.1:6379"}
		m := w.srv.Node("10.0.0.1:6379")
		w.srv.AddNode("10.0.0.2:6379", "slave", m)
		sn := w.srv.AddNode("10.0.0.9:26379", "sentinel", nil)
		sn.ConfigureSentinel("mymaster", "10.0.0.1:6379", []fakeredis.SentinelReplica{{Addr: "10.0.0.2:6379"}}, nil)
		w.replicas = []string{"10.0.0.2:6379"}
		opt = drv.Option(w.srv, "10.0.0.9:26379")
		opt.Sentinel.MasterSet = "mymaster"
		opt.SendToReplicas = func(cmd rueidis.Completed) bool { return cmd.IsReadOnly() }
	case "cluster":
		np := 3 + int(seed%4)
		for i := 0; i < np; i++ {
			w.prims = append(w.prims, fmt.Sprintf("10.0.1.%d:7000", i+1))
		}
		w.srv = fakeredis.New(o, w.prims...)
		w.srv.EnableCluster()
		w.cluster = true
		opt = drv.Option(w.srv, w.prims[0])
	}
	opt.DisableCache = !cache
	opt.AlwaysRESP2 = resp2
	opt.DisableRetry = true
	w.opt = opt
	c, err := rueidis.NewClient(opt)
	if err != nil {
		w.srv.Close()
		return nil, err
	}
	w.client = c
	return w, nil
}

// reconnect replaces the client (its connections were killed by a "down" fault; a broken connection is only noticed
// by the next command that uses it, which is not what this property is about).
func (w *world) reconnect() error {
	w.client.Close()
	c, err := rueidis.NewClient(w.opt)
	if err != nil {
		return err
	}
	w.client = c
	return nil
}

func (w *world) close() {
	w.client.Close()
	w.srv.Close()
}

// ---------------------------------------------------------------- key sets

var shapes = []string{"random", "dups", "tags", "oneslot", "perslot", "tags+dups"}

func genKeys(rng *rand.Rand, prefix, shape string, n int) []string {
	keys := make([]string, 0, n)
	switch shape {
	case "random":
		for i := 0; i < n; i++ {
			keys = append(keys, fmt.Sprintf("%s:r%d", prefix, i))
		}
	case "dups":
		pool := 1 + n/2
		for i := 0; i < n; i++ {
			keys = append(keys, fmt.Sprintf("%s:d%d", prefix, rng.Intn(pool)))
		}
	case "tags", "tags+dups":
		tags := 1 + rng.Intn(5)
		pool := n
		if shape == "tags+dups" {
			pool = 1 + n/3
		}
		for i := 0; i < n; i++ {
			j := i
			if shape == "tags+dups" {
				j = rng.Intn(pool)
			}
			keys = append(keys, fmt.Sprintf("{%s.t%d}:%d", prefix, j%tags, j))
		}
	case "oneslot":
		for i := 0; i < n; i++ {
			keys = append(keys, fmt.Sprintf("{%s}:%d", prefix, i))
		}
	case "perslot":
		seen := map[int]bool{}
		for i := 0; len(keys) < n; i++ {
			k := fmt.Sprintf("%s:p%d", prefix, i)
			if s := fakeredis.Slot(k); !seen[s] {
				seen[s] = true
				keys = append(keys, k)
			}
		}
	}
	rng.Shuffle(len(keys), func(i, j int) { keys[i], keys[j] = keys[j], keys[i] })
	return keys
}

func sizeOf(rng *rand.Rand) int {
	switch rng.Intn(6) {
	case 0:
		return 1
	case 1:
		return 2
	case 2:
		return 3 + rng.Intn(8)
	case 3, 4:
		return 11 + rng.Intn(40)
	default:
		return 51 + rng.Intn(150)
	}
}

func bucket(n int) string {
	switch {
	case n <= 2:
		return fmt.Sprint(n)
	case n <= 10:
		return "3-10"
	case n <= 50:
		return "11-50"
	}
	return "51-200"
}

func dedup(keys []string) map[string]bool {
	m := map[string]bool{}
	for _, k := range keys {
		m[k] = true
	}
	return m
}

func sortedKeys[T any](m map[string]T) []string {
	ks := make([]string, 0, len(m))
	for k := range m {
		ks = append(ks, k)
	}
	sort.Strings(ks)
	return ks
}

// ------------------------------------------------------------------ faults

type fault struct {
	kind  string // "" | down | err
	node  string // the faulty primary (cluster) or the primary of the faulty replication group (every node of it is faulty)
	nodes map[string]bool
	rule  *fakeredis.Rule
}

const injected = "injected-by-driver" // RedisError.Error() drops the ERR prefix

func (w *world) inject(rng *rand.Rand, kind string) fault {
	f := fault{kind: kind}
	if kind == "" {
		return f
	}
	f.node = w.prims[rng.Intn(len(w.prims))]
	f.nodes = map[string]bool{f.node: true}
	if !w.cluster { // reads may be served by replicas: the whole replication group is faulty
		for _, a := range w.replicas {
			f.nodes[a] = true
		}
	}
	switch kind {
	case "down":
		for a := range f.nodes {
			n := w.srv.Node(a)
			w.srv.Lock()
			n.Down = true
			w.srv.Unlock()
		}
		for a := range f.nodes {
			w.srv.KillAll(a)
		}
	case "err":
		e := resp.Err("ERR " + injected + " " + f.node)
		nodes := f.nodes
		f.rule = w.srv.Plan(&fakeredis.Rule{Name: "node-error", Match: func(c *fakeredis.Conn, a []string) bool {
			if !nodes[c.NodeAddr()] {
				return false
			}
			switch strings.ToUpper(a[0]) {
			case "MGET", "GET", "SET", "DEL", "MSET", "MSETNX", "JSON.MGET", "JSON.GET", "JSON.SET", "JSON.MSET":
				return true
			}
			return false
		}, Action: fakeredis.Action{Reply: &e}})
	}
	return f
}

func (w *world) heal(f fault) {
	switch f.kind {
	case "down":
		for a := range f.nodes {
			n := w.srv.Node(a)
			w.srv.Lock()
			n.Down = false
			w.srv.Unlock()
		}
		if err := w.reconnect(); err != nil {
			panic("reconnect after heal: " + err.Error())
		}
	case "err":
		w.srv.ClearPlan()
	}
}

// onFaulty reports whether key's commands are served by the faulty node.
func (w *world) onFaulty(f fault, key string) bool {
	if f.kind == "" {
		return false
	}
	if !w.cluster {
		return true
	}
	return w.srv.SlotOwner(fakeredis.Slot(key)) == f.node
}

// -------------------------------------------------------------------- cases

var helpers = []string{"MGet", "MGetCache", "JsonMGet", "JsonMGetCache", "MSet", "MSetNX", "MDel", "JsonMSet"}

type caseInfo struct {
	World  string   `json:"world"`
	Helper string   `json:"helper"`
	Shape  string   `json:"shape"`
	N      int      `json:"n"`
	Fault  string   `json:"fault"`
	Keys   []string `json:"keys,omitempty"`
}

func msgString(m rueidis.RedisMessage) string {
	if err := m.Error(); err != nil {
		if rueidis.IsRedisNil(err) {
			return "<nil>"
		}
		return "<err " + err.Error() + ">"
	}
	s, err := m.ToString()
	if err != nil {
		return "<" + m.String() + ">"
	}
	return s
}

func errString(err error) string {
	if err == nil {
		return "<ok>"
	}
	return err.Error()
}

func TestC31(t *testing.T) {
	run := mon.Start(t, "C31", "exploration",
		"client kinds single / standalone+2 replicas / sentinel / cluster (3-6 primaries), cache on and off, RESP3 and RESP2; every helper (MGet, MGetCache, JsonMGet, JsonMGetCache, MSet, MSetNX, MDel, JsonMSet) on key sets of 1-200 keys shaped random / duplicates / shared hash tags / all-in-one-slot / one-per-slot / tags+duplicates over a server pre-populated with a unique value per key (strings, JSON documents, wrong-typed hashes, missing keys); "+
			"with no fault, one node refusing connections, or one node answering errors; a case = (client kind, cache, helper, shape, size bucket, fault) and is non-trivial when it has >= 2 distinct keys or a fault")
	defer run.Finish()
	run.Assume("fakeredis implements GET/MGET/SET/SET NX/MSET/MSETNX/DEL/JSON.GET/JSON.MGET/JSON.SET/JSON.MSET like Redis for the value kinds used; the expected entry is computed from the driver's own model of what it stored, and the post-state is read back from the owner node")

	type wcfg struct {
		kind         string
		cache, resp2 bool
	}
	cfgs := []wcfg{{"single", true, false}, {"single", false, true}, {"standalone", true, false}, {"standalone", false, false},
		{"sentinel", true, false}, {"sentinel", false, true}, {"cluster", true, false}, {"cluster", false, false}, {"cluster", false, true}, {"cluster", true, false}}
	perWorld := run.N(1000, 30000)
	caseNo := 0
	ctx := context.Background()
	for wi, cfg := range cfgs {
		rng := run.Rand(fmt.Sprintf("world%d", wi))
		w, err := newWorld(cfg.kind, cfg.cache, cfg.resp2, run.Seed*31+int64(wi))
		if err != nil {
			run.Inconclusive("client setup failed for " + cfg.kind + ": " + err.Error())
			continue
		}
		for ci := 0; ci < perWorld; ci++ {
			caseNo++
			helper := helpers[rng.Intn(len(helpers))]
			shape := shapes[rng.Intn(len(shapes))]
			n := sizeOf(rng)
			fk := ""
			if r := rng.Intn(10); r == 0 {
				fk = "down"
			} else if r <= 2 {
				fk = "err"
			}
			info := caseInfo{World: w.name, Helper: helper, Shape: shape, N: n, Fault: fk}
			func() {
				defer func() {
					if p := recover(); p != nil {
						run.Violation("panic", fmt.Sprintf("%s|%s|%s", cfg.kind, helper, shape), map[string]any{"case": info, "panic": fmt.Sprint(p)})
					}
				}()
				runCase(run, w, rng, ctx, fmt.Sprintf("c%d", caseNo), info)
			}()
		}
		w.close()
	}
	run.Require("getter_entries_checked", "setter_entries_checked", "poststate_checked", "duplicate_inputs", "cross_slot_cases", "wrongtype_entries", "nil_entries",
		"fault_cases", "faulty_node_keys_failed", "healthy_node_keys_ok_under_fault", "msetnx_not_set")
}

func runCase(run *mon.Run, w *world, rng *rand.Rand, ctx context.Context, prefix string, info caseInfo) {
	helper, n := info.Helper, info.N
	keys := genKeys(rng, prefix, info.Shape, n)
	set := dedup(keys)
	if len(set) < len(keys) {
		run.Observe("duplicate_inputs", 1)
	}
	slots := map[int]bool{}
	for k := range set {
		slots[fakeredis.Slot(k)] = true
	}
	if w.cluster && len(slots) > 1 {
		run.Observe("cross_slot_cases", 1)
	}
	if len(keys) <= 12 {
		info.Keys = keys
	}
	isJSON := strings.HasPrefix(helper, "Json")
	// pre-populate: unique value per key
	for _, k := range sortedKeys(set) {
		r := rng.Intn(100)
		v := kv{}
		main, other := byte('s'), byte('j')
		if isJSON {
			main, other = 'j', 's'
		}
		switch {
		case r < 55:
			v = kv{main, "v|" + k + "|" + fmt.Sprint(rng.Intn(1<<30))}
		case r < 70:
			v = kv{other, "o|" + k + "|" + fmt.Sprint(rng.Intn(1<<30))}
		case r < 80:
			v = kv{'h', "h|" + k + "|" + fmt.Sprint(rng.Intn(1<<30))}
		}
		if (helper == "MSetNX") && rng.Intn(3) > 0 {
			v = kv{} // mostly fresh keys, so that MSETNX sometimes succeeds as a whole
		}
		if v.typ != 0 {
			w.put(k, v)
		} else {
			w.model[k] = kv{}
		}
	}
	defer func() { // the case's keys are never used again
		for k := range set {
			w.owner(k).Exec("DEL", k)
			delete(w.model, k)
		}
	}()
	if w.kind == "sentinel" && info.Fault == "down" {
		info.Fault = "err" // a sentinel client reacts to lost connections by re-resolving the master: not this property
	}
	f := w.inject(rng, info.Fault)
	defer w.heal(f)
	if f.kind != "" {
		run.Observe("fault_cases", 1)
	}
	fp := fmt.Sprintf("%s|%s|%s|%s|%s", w.name, helper, info.Shape, bucket(n), info.Fault)
	key := func(what string) string {
		return fmt.Sprintf("%s|%s|%s|fault=%s|%s", w.kind, helper, info.Shape, info.Fault, what)
	}
	wit := func(extra map[string]any) map[string]any {
		extra["case"] = info
		extra["fault_node"] = f.node
		return extra
	}
	checkKeySet := func(got []string) bool {
		want := sortedKeys(set)
		if strings.Join(got, "\x00") != strings.Join(want, "\x00") {
			run.Violation("key-set-mismatch", key("keyset"), wit(map[string]any{"returned_keys": trunc(got), "input_keys_dedup": trunc(want)}))
			return false
		}
		return true
	}

	switch helper {
	case "MGet", "MGetCache", "JsonMGet", "JsonMGetCache":
		var ret map[string]rueidis.RedisMessage
		var err error
		switch helper {
		case "MGet":
			ret, err = rueidis.MGet(w.client, ctx, keys)
		case "MGetCache":
			ret, err = rueidis.MGetCache(w.client, ctx, time.Minute, keys)
		case "JsonMGet":
			ret, err = rueidis.JsonMGet(w.client, ctx, keys, "$")
		case "JsonMGetCache":
			ret, err = rueidis.JsonMGetCache(w.client, ctx, time.Minute, keys, "$")
		}
		if err != nil {
			anyFaulty := false
			for k := range set {
				anyFaulty = anyFaulty || w.onFaulty(f, k)
			}
			if !anyFaulty {
				run.Violation("error-without-cause", key("getter"), wit(map[string]any{"err": err.Error()}))
			} else {
				run.Observe("getter_failed_as_a_whole_under_fault", 1)
			}
			run.Case(fp, len(set) >= 2 || f.kind != "")
			return
		}
		if !checkKeySet(sortedKeys(ret)) {
			run.Case(fp, true)
			return
		}
		perKeyCmd := (helper == "MGetCache" && w.cache) || helper == "JsonMGetCache"
		wantTyp := byte('s')
		if isJSON {
			wantTyp = 'j'
		}
		for _, k := range sortedKeys(set) {
			m := w.model[k]
			got := ret[k]
			gs := msgString(got)
			ok := false
			var want string
			switch {
			case w.onFaulty(f, k) && f.kind == "err":
				want = "<err " + injected + " " + f.node + ">  (or the whole helper fails)"
				ok = strings.Contains(gs, injected+" "+f.node)
				run.Observe("faulty_node_keys_failed", 1)
			case m.typ == wantTyp:
				want = m.val
				if isJSON {
					want = "[" + jsonStr(m.val) + "]"
				}
				ok = gs == want
			case m.typ == 0:
				want = "<nil>"
				ok = gs == want
				run.Observe("nil_entries", 1)
			default: // wrong type: the batched commands answer nil, the per-key commands answer WRONGTYPE
				want = "<nil> (MGET/JSON.MGET) or WRONGTYPE (per-key GET/JSON.GET)"
				if perKeyCmd {
					ok = strings.Contains(gs, "WRONGTYPE")
				} else {
					ok = gs == "<nil>"
				}
				run.Observe("wrongtype_entries", 1)
			}
			if !w.onFaulty(f, k) && strings.Contains(gs, injected) {
				run.Violation("foreign-node-error", key("getter"), wit(map[string]any{"key": k, "entry": gs, "key_owner": w.owner(k).Addr}))
				ok = true
			} else if f.kind != "" && !w.onFaulty(f, k) {
				run.Observe("healthy_node_keys_ok_under_fault", 1)
			}
			if !ok {
				run.Violation("wrong-entry", key("getter"), wit(map[string]any{"key": k, "entry": gs, "expected": want, "stored": fmt.Sprintf("%c %s", m.typ, m.val)}))
			}
			run.Observe("getter_entries_checked", 1)
		}
	default:
		kvs := map[string]string{}
		for k := range set {
			kvs[k] = "n|" + k + "|" + fmt.Sprint(rng.Intn(1<<30))
		}
		var ret map[string]error
		switch helper {
		case "MSet":
			ret = rueidis.MSet(w.client, ctx, kvs)
		case "MSetNX":
			ret = rueidis.MSetNX(w.client, ctx, kvs)
		case "MDel":
			ret = rueidis.MDel(w.client, ctx, keys)
		case "JsonMSet":
			jk := map[string]string{}
			for k, v := range kvs {
				jk[k] = jsonStr(v)
			}
			ret = rueidis.JsonMSet(w.client, ctx, jk, "$")
		}
		if !checkKeySet(sortedKeys(ret)) {
			run.Case(fp, true)
			return
		}
		for _, k := range sortedKeys(set) {
			e := ret[k]
			before := w.model[k]
			after := w.state(k)
			faulty := w.onFaulty(f, k)
			notSet := e != nil && (rueidis.IsRedisNil(e) || e == rueidis.ErrMSetNXNotSet)
			if notSet {
				run.Observe("msetnx_not_set", 1)
			}
			var intended kv
			switch helper {
			case "MSet", "MSetNX":
				intended = kv{'s', kvs[k]}
			case "JsonMSet":
				intended = kv{'j', "[" + jsonStr(kvs[k]) + "]"}
			}
			if before.typ == 'j' {
				before.val = "[" + jsonStr(before.val) + "]"
			}
			switch {
			case e == nil:
				if after != intended {
					run.Violation("success-entry-but-server-state-differs", key("setter"), wit(map[string]any{"key": k, "server_has": fmt.Sprintf("%c %s", after.typ, after.val), "intended": fmt.Sprintf("%c %s", intended.typ, intended.val), "on_faulty_node": faulty}))
				}
				run.Observe("poststate_checked", 1)
				if f.kind != "" && !faulty {
					run.Observe("healthy_node_keys_ok_under_fault", 1)
				}
			case notSet:
				if helper != "MSetNX" {
					run.Violation("wrong-entry", key("setter"), wit(map[string]any{"key": k, "entry": errString(e), "expected": "<ok> or that key's error"}))
				} else if after != before {
					run.Violation("not-set-entry-but-server-state-changed", key("setter"), wit(map[string]any{"key": k, "before": fmt.Sprintf("%c %s", before.typ, before.val), "server_has": fmt.Sprintf("%c %s", after.typ, after.val)}))
				} else if w.cluster && before.typ == 0 {
					// per-key SET NX on a missing key cannot answer nil
					run.Violation("wrong-entry", key("setter"), wit(map[string]any{"key": k, "entry": errString(e), "expected": "<ok> (key did not exist)"}))
				}
				run.Observe("poststate_checked", 1)
			default:
				// an error entry: it must be this key's error
				es := e.Error()
				switch {
				case faulty:
					run.Observe("faulty_node_keys_failed", 1)
					if f.kind == "err" && !strings.Contains(es, injected+" "+f.node) && !w.wrongTypeErrPossible(helper, before, es) {
						run.Violation("wrong-entry", key("setter"), wit(map[string]any{"key": k, "entry": es, "expected": injected + " " + f.node}))
					}
				case strings.Contains(es, injected):
					run.Violation("foreign-node-error", key("setter"), wit(map[string]any{"key": k, "entry": es, "key_owner": w.owner(k).Addr}))
				case w.wrongTypeErrPossible(helper, before, es):
					run.Observe("wrongtype_entries", 1)
				case !w.cluster && f.kind == "" && w.anyWrongType(helper, set):
					// one command for all keys: the command's error is every key's error
					run.Observe("wrongtype_entries", 1)
				default:
					run.Violation("error-without-cause", key("setter"), wit(map[string]any{"key": k, "entry": es, "key_owner": w.owner(k).Addr}))
				}
			}
			run.Observe("setter_entries_checked", 1)
		}
	}
	run.Case(fp, len(set) >= 2 || f.kind != "")
	run.Sample(info)
}

// wrongTypeErrPossible: JSON.SET on a key holding another type answers WRONGTYPE (SET and DEL never do).
func (w *world) wrongTypeErrPossible(helper string, before kv, es string) bool {
	return helper == "JsonMSet" && strings.Contains(es, "WRONGTYPE") && before.typ != 0 && before.typ != 'j'
}

func (w *world) anyWrongType(helper string, set map[string]bool) bool {
	if helper != "JsonMSet" {
		return false
	}
	for k := range set {
		if m := w.model[k]; m.typ != 0 && m.typ != 'j' {
			return true
		}
	}
	return false
}

func trunc(s []string) []string {
	if len(s) > 40 {
		return append(append([]string{}, s[:40]...), fmt.Sprintf("... %d more", len(s)-40))
	}
	return s
}
