package c14

import (
	"bufio"
	"context"
	"crypto/tls"
	"fmt"
	"io"
	"net"
	"sort"
	"strings"
	"sync"
	"testing"
	"time"

	"github.com/redis/rueidis"
	"verifh/drv"
	"verifh/resp"
)

// liveServer is the peer of the real client's connections (net.Pipe): it decodes every command with the
// independent parser, records it and answers +OK (HELLO: a RESP3 map). Replies are written by a second
// goroutine so that a client that writes a whole batch before reading never blocks on the unbuffered pipe.
type liveServer struct {
	mu    sync.Mutex
	got   [][]string
	errs  []string
	conns int
	wg    sync.WaitGroup
}

const helloReply = "%3\r\n$6\r\nserver\r\n$5\r\nredis\r\n$7\r\nversion\r\n$5\r\n7.2.0\r\n$5\r\nproto\r\n:3\r\n"

func (s *liveServer) serve(c net.Conn) {
	defer s.wg.Done()
	replies := make(chan string, 1<<16)
	done := make(chan struct{})
	go func() {
		defer close(done)
		for r := range replies {
			if _, err := io.WriteString(c, r); err != nil {
				for range replies {
				}
				return
			}
		}
	}()
	r := bufio.NewReaderSize(c, 1<<16)
	for {
		argv, err := resp.DecodeCmd(r)
		if err != nil {
			if err != io.EOF && err != io.ErrClosedPipe {
				s.mu.Lock()
				s.errs = append(s.errs, err.Error())
				s.mu.Unlock()
			}
			break
		}
		s.mu.Lock()
		s.got = append(s.got, argv)
		s.mu.Unlock()
		if len(argv) > 0 && argv[0] == "HELLO" {
			replies <- helloReply
		} else {
			replies <- "+OK\r\n"
		}
	}
	close(replies)
	<-done
	c.Close()
}

func (s *liveServer) dial(context.Context, string, *net.Dialer, *tls.Config) (net.Conn, error) {
	a, b := net.Pipe()
	s.mu.Lock()
	s.conns++
	s.mu.Unlock()
	s.wg.Add(1)
	go s.serve(b)
	return a, nil
}

const livePrefix = "C14X"

// live drives the real client (sync path, pipelined path, DoMulti, DoStream) and demands that the multiset of
// commands decoded on the server side equals the multiset of commands issued.
func (c *checker) live(t *testing.T) {
	run := c.run
	rng := run.Rand("live")
	lens := boundaries(1_000_000)
	for round, mode := range []string{"auto", "always-pipelining", "no-auto-pipelining"} {
		srv := &liveServer{}
		client, err := rueidis.NewClient(rueidis.ClientOption{
			InitAddress:           []string{"127.0.0.1:6379"},
			DialCtxFn:             srv.dial,
			Dialer:                net.Dialer{KeepAlive: -1, Timeout: 2 * time.Hour}, // no background PINGs; no wall-clock limit that load could trip
			DisableCache:          true,
			ForceSingleClient:     true,
			DisableRetry:          true,
			AlwaysPipelining:      mode == "always-pipelining",
			DisableAutoPipelining: mode == "no-auto-pipelining",
			ConnWriteTimeout:      2 * time.Hour,
		})
		if err != nil {
			run.Inconclusive("live client could not be created: " + err.Error())
			fmt.Printf("BROKEN property=C14 live client: %v\n", err)
			t.Errorf("live client: %v", err)
			return
		}
		id := 0
		var sentMu sync.Mutex
		sent := map[string][]string{}
		mk := func() []string {
			argc := 1 + rng.Intn(6)
			if rng.Intn(15) == 0 {
				argc = 8 + rng.Intn(5)
			}
			if rng.Intn(60) == 0 {
				argc = []int{99, 100, 101, 999, 1000, 1001}[rng.Intn(6)]
			}
			cmd := make([]string, argc)
			id++
			cmd[0] = fmt.Sprintf("%s%d.%d", livePrefix, round, id)
			for a := 1; a < argc; a++ {
				switch rng.Intn(12) {
				case 0:
					cmd[a] = payload(rng, lens[rng.Intn(len(lens))], rng.Intn(5))
				case 1:
					cmd[a] = payload(rng, []int{9, 10, 11, 99, 100, 101, 999, 1000, 1001}[rng.Intn(9)], rng.Intn(5))
				default:
					cmd[a] = resp.GenBytes(rng, true)
				}
			}
			sent[cmd[0]] = cmd
			return cmd
		}
		build := func(cmd []string) rueidis.Completed { return client.B().Arbitrary(cmd[0]).Args(cmd[1:]...).Build() }
		ctx, cancel := context.WithTimeout(context.Background(), 10*time.Minute)
		var callErrs []string
		noteErr := func(how string, err error) {
			if err != nil {
				sentMu.Lock()
				callErrs = append(callErrs, how+": "+err.Error())
				sentMu.Unlock()
			}
		}
		nseq := run.N(400, 8000)
		// 1. one goroutine, one command at a time
		for i := 0; i < nseq; i++ {
			noteErr("Do", client.Do(ctx, build(mk())).Error())
		}
		// 2. concurrent callers (pipelined through _backgroundWrite)
		var batches [][][]string
		for g := 0; g < 8; g++ {
			var b [][]string
			for i := 0; i < nseq/4; i++ {
				b = append(b, mk())
			}
			batches = append(batches, b)
		}
		var wg sync.WaitGroup
		for _, b := range batches {
			wg.Add(1)
			go func(b [][]string) {
				defer wg.Done()
				for _, cmd := range b {
					noteErr("Do(concurrent)", client.Do(ctx, build(cmd)).Error())
				}
			}(b)
		}
		wg.Wait()
		// 3. DoMulti batches
		for i := 0; i < run.N(30, 600); i++ {
			k := 1 + rng.Intn(40)
			if i%10 == 0 {
				k = 300
			}
			multi := make([]rueidis.Completed, k)
			for j := range multi {
				multi[j] = build(mk())
			}
			for _, r := range client.DoMulti(ctx, multi...) {
				noteErr("DoMulti", r.Error())
			}
		}
		// 4. DoStream
		for i := 0; i < run.N(40, 800); i++ {
			s := client.DoStream(ctx, build(mk()))
			for s.HasNext() {
				if _, err := s.WriteTo(io.Discard); err != nil {
					noteErr("DoStream", err)
					break
				}
			}
			if err := s.Error(); err != io.EOF { // io.EOF: every reply was consumed
				noteErr("DoStream", err)
			}
		}
		cancel()
		client.Close()
		srv.wg.Wait()

		if len(callErrs) > 0 && len(srv.errs) == 0 {
			// the client reported errors although the server could decode everything: not a C14 verdict
			run.Inconclusive("live calls failed: " + callErrs[0])
			fmt.Printf("BROKEN property=C14 live mode=%s: %d calls failed, first: %s\n", mode, len(callErrs), callErrs[0])
			t.Errorf("live calls failed")
			return
		}
		for _, e := range srv.errs {
			run.Violation("live-undecodable", "mode="+mode+" "+e, map[string]any{"mode": mode, "err": e, "call_errors": callErrs})
		}
		seen := map[string]int{}
		for _, got := range srv.got {
			if len(got) == 0 || !strings.HasPrefix(got[0], livePrefix) {
				run.Observe("live_handshake_commands", 1)
				continue // HELLO, CLIENT SETINFO … are the client's own
			}
			run.Observe("live_commands_received", 1)
			want, ok := sent[got[0]]
			seen[got[0]]++
			if !ok {
				run.Violation("live-unknown-command", "mode="+mode+" "+argvKey(got), map[string]any{"mode": mode, "got_head": drv.Hexs(drv.Trunc([]byte(strings.Join(got, " ")), 200))})
				continue
			}
			run.Case("live|"+mode+"|"+describe([][]string{want}), nontrivial([][]string{want}))
			if len(got) != len(want) {
				run.Violation("live-argc-mismatch", "mode="+mode+" "+argvKey(want), map[string]any{"mode": mode, "want_argc": len(want), "got_argc": len(got)})
				continue
			}
			for j := range want {
				if got[j] != want[j] {
					run.Violation("live-arg-mismatch", fmt.Sprintf("mode=%s %s arg#%d", mode, argvKey(want), j), map[string]any{"mode": mode, "arg_index": j, "want_len": len(want[j]), "got_len": len(got[j]),
						"want_head": drv.Hexs(drv.Trunc([]byte(want[j]), 80)), "got_head": drv.Hexs(drv.Trunc([]byte(got[j]), 80))})
					break
				}
			}
		}
		var missing, dup []string
		for k := range sent {
			switch n := seen[k]; {
			case n == 0:
				missing = append(missing, k)
			case n > 1:
				dup = append(dup, k)
			}
		}
		sort.Strings(missing)
		sort.Strings(dup)
		if len(missing) > 0 && len(srv.errs) == 0 {
			run.Violation("live-command-not-received", fmt.Sprintf("mode=%s n=%d", mode, len(missing)), map[string]any{"mode": mode, "missing": missing[:min(len(missing), 20)], "first": argvKey(sent[missing[0]])})
		}
		if len(dup) > 0 {
			run.Violation("live-command-duplicated", fmt.Sprintf("mode=%s n=%d", mode, len(dup)), map[string]any{"mode": mode, "duplicated": dup[:min(len(dup), 20)]})
		}
		run.Observe("live_connections", int64(srv.conns))
		run.Observe("live_commands_sent", int64(len(sent)))
	}
}
