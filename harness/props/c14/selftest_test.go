package c14

import (
	"bufio"
	"fmt"
	"os"
	"strconv"
	"testing"

	"verifh/mon"
)

// fakeTB swallows the failures of a monitor run over a deliberately broken writer.
type fakeTB struct{ errors int }

func (f *fakeTB) Helper()                   {}
func (f *fakeTB) Logf(string, ...any)       {}
func (f *fakeTB) Errorf(string, ...any)     { f.errors++ }
func (f *fakeTB) Fatalf(s string, a ...any) { panic(fmt.Sprintf(s, a...)) }
func (f *fakeTB) Name() string              { return "selftest" }

func goodWrite(w *bufio.Writer, cmd []string, mut string) error {
	n := len(cmd)
	if mut == "drop-last-arg-at-100" && n == 100 {
		cmd = cmd[:99]
	}
	if mut == "count-off-by-one-at-1000" && n == 1000 {
		n = 999
	}
	w.WriteString("*" + strconv.Itoa(n) + "\r\n")
	for _, a := range cmd {
		l := strconv.Itoa(len(a))
		if mut == "log10-imprecise-at-1000" && len(a) == 1000 {
			l = ":00" // what writeN prints when Log10(1000) comes out as 2.9999999999999996
		}
		if mut == "leading-zero-at-99999" && len(a) == 99999 {
			l = "099999"
		}
		w.WriteString("$" + l + "\r\n")
		w.WriteString(a)
		if !(mut == "no-crlf-after-empty" && len(a) == 0) {
			w.WriteString("\r\n")
		}
	}
	return nil
}

// TestC14SelfTest runs the static generators against broken writers; every mutant must be reported. VERIF_SELFTEST=1 only.
func TestC14SelfTest(t *testing.T) {
	if os.Getenv("VERIF_SELFTEST") == "" {
		t.Skip("VERIF_SELFTEST not set")
	}
	mon.Root = t.TempDir()
	for _, mut := range []string{"", "drop-last-arg-at-100", "count-off-by-one-at-1000", "log10-imprecise-at-1000", "leading-zero-at-99999", "no-crlf-after-empty"} {
		tb := &fakeTB{}
		run := mon.Start(tb, "C14", "exploration", "selftest")
		c := &checker{run: run, write: func(w *bufio.Writer, cmd []string) error { return goodWrite(w, cmd, mut) }}
		c.static()
		v := run.Violations()
		run.Finish()
		t.Logf("mutant %q: %d violations", mut, v)
		if (mut == "") != (v == 0) {
			t.Errorf("mutant %q: %d violations", mut, v)
		}
	}
}
