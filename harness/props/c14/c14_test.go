package c14

import (
	"bufio"
	"bytes"
	"fmt"
	"hash/fnv"
	"io"
	"math/rand"
	"strings"
	"testing"

	"github.com/redis/rueidis"
	"verifh/drv"
	"verifh/mon"
	"verifh/resp"
)

// sink is the io.Writer behind the bufio.Writer: it records the bytes and the sizes of the Write calls.
type sink struct {
	buf    bytes.Buffer
	writes int
}

func (s *sink) Write(p []byte) (int, error) { s.writes++; return s.buf.Write(p) }

// payload returns n deterministic bytes; kind selects the alphabet.
func payload(rng *rand.Rand, n int, kind int) string {
	if n == 0 {
		return ""
	}
	var pat []byte
	switch kind % 5 {
	case 0: // printable
		pat = []byte("abcdefghijklmnopqrstuvwxyz0123456789")
	case 1: // CR/LF heavy, looks like protocol
		pat = []byte("\r\n$5\r\nhello\r\n*2\r\n\r\r\n\n+OK\r\n:1\r\n")
	case 2: // every byte value
		pat = make([]byte, 256)
		for i := range pat {
			pat[i] = byte(i)
		}
	case 3: // random binary
		pat = make([]byte, 1021)
		for i := range pat {
			pat[i] = byte(rng.Intn(256))
		}
	default: // zero bytes and CRLF at the very end
		pat = []byte{0, 0, 0, '\r', '\n'}
	}
	off := rng.Intn(len(pat))
	b := make([]byte, n)
	for i := 0; i < n; {
		i += copy(b[i:], pat[off:])
		off = 0
	}
	if kind%5 == 4 && n >= 2 {
		b[n-2], b[n-1] = '\r', '\n'
	}
	return string(b)
}

// boundaries returns the values straddling every power of ten up to max: 10^k-2 .. 10^k+2.
func boundaries(max int) []int {
	seen := map[int]bool{}
	var out []int
	add := func(v int) {
		if v >= 0 && v <= max+2 && !seen[v] {
			seen[v] = true
			out = append(out, v)
		}
	}
	add(0)
	add(1)
	for p := 10; p <= max; p *= 10 {
		for d := -2; d <= 2; d++ {
			add(p + d)
		}
		// also a few leading digits per decade: 2*10^k, 5*10^k, 9..9 and 10^k+10^(k-1)
		add(2 * p)
		add(5*p - 1)
		add(5 * p)
		add(p + p/10)
	}
	return out
}

func describe(cmds [][]string) string {
	var sb strings.Builder
	h := fnv.New64a()
	for _, c := range cmds {
		fmt.Fprintf(&sb, "[%d:", len(c))
		for i, a := range c {
			h.Write([]byte(a))
			h.Write([]byte{0xff, 0})
			if i < 6 {
				fmt.Fprintf(&sb, " %d", len(a))
			} else if i == 6 {
				sb.WriteString(" …")
			}
		}
		sb.WriteString("]")
	}
	fmt.Fprintf(&sb, "#%016x", h.Sum64())
	return sb.String()
}

func nontrivial(cmds [][]string) bool {
	if len(cmds) > 1 {
		return true
	}
	for _, c := range cmds {
		if len(c) >= 10 {
			return true
		}
		for _, a := range c {
			if len(a) >= 10 || strings.ContainsAny(a, "\r\n\x00") {
				return true
			}
		}
	}
	return false
}

func argvKey(c []string) string {
	var sb strings.Builder
	fmt.Fprintf(&sb, "argc=%d lens=", len(c))
	for i, a := range c {
		if i >= 8 {
			sb.WriteString(",…")
			break
		}
		if i > 0 {
			sb.WriteByte(',')
		}
		fmt.Fprintf(&sb, "%d", len(a))
	}
	return sb.String()
}

type checker struct {
	run   *mon.Run
	write func(w *bufio.Writer, cmd []string) error // rueidis.VerifWriteCmd (a mutant in the driver's self test)
}

// check writes cmds back to back through one bufio.Writer of the given size and decodes the bytes with the independent parser.
func (c *checker) check(gen string, cmds [][]string, bufsize int, flushEach bool) {
	run := c.run
	run.Case(describe(cmds), nontrivial(cmds))
	s := &sink{}
	w := bufio.NewWriterSize(s, bufsize)
	key := fmt.Sprintf("%s buf=%d n=%d first{%s}", gen, bufsize, len(cmds), argvKey(cmds[0]))
	var perr any
	var werr error
	func() {
		defer func() { perr = recover() }()
		for _, cmd := range cmds {
			if err := c.write(w, cmd); err != nil {
				werr = err
			}
			if flushEach {
				if err := w.Flush(); err != nil {
					werr = err
				}
			}
		}
		if err := w.Flush(); err != nil {
			werr = err
		}
	}()
	if perr != nil {
		run.Violation("panic", key, map[string]any{"panic": fmt.Sprint(perr), "cmds": describe(cmds)})
		return
	}
	if werr != nil {
		run.Violation("write-error", key, map[string]any{"err": werr.Error(), "cmds": describe(cmds)})
		return
	}
	wire := s.buf.Bytes()
	run.Observe("commands_written", int64(len(cmds)))
	run.Observe("bytes_written", int64(len(wire)))
	r := bufio.NewReaderSize(bytes.NewReader(wire), 4096)
	for i, want := range cmds {
		got, err := resp.DecodeCmd(r)
		if err != nil {
			run.Violation("undecodable", key+fmt.Sprintf(" cmd#%d{%s}", i, argvKey(want)), map[string]any{"err": err.Error(), "cmd_index": i, "argc": len(want), "wire_head": drv.Hexs(drv.Trunc(wire, 200)), "wire_len": len(wire)})
			return
		}
		if len(got) != len(want) {
			run.Violation("argc-mismatch", key+fmt.Sprintf(" cmd#%d{%s}", i, argvKey(want)), map[string]any{"cmd_index": i, "want_argc": len(want), "got_argc": len(got), "wire_head": drv.Hexs(drv.Trunc(wire, 200))})
			return
		}
		for j := range want {
			if got[j] != want[j] {
				run.Violation("arg-mismatch", key+fmt.Sprintf(" cmd#%d{%s} arg#%d", i, argvKey(want), j), map[string]any{"cmd_index": i, "arg_index": j, "want_len": len(want[j]), "got_len": len(got[j]),
					"want_head": drv.Hexs(drv.Trunc([]byte(want[j]), 80)), "got_head": drv.Hexs(drv.Trunc([]byte(got[j]), 80)), "wire_head": drv.Hexs(drv.Trunc(wire, 200))})
				return
			}
		}
		run.Observe("args_compared", int64(len(want)))
	}
	// framing: nothing may be left over after the last command
	if _, err := r.ReadByte(); err != io.EOF {
		rest, _ := io.ReadAll(r)
		run.Violation("trailing-bytes", key, map[string]any{"extra_bytes": len(rest) + 1, "wire_len": len(wire)})
		return
	}
	// a RESP length is a plain decimal numeral: the lenient strconv based parser above would also take "+5" or "007", a server does not
	if !c.canonical(wire, cmds) {
		run.Violation("noncanonical-header", key, map[string]any{"wire_head": drv.Hexs(drv.Trunc(wire, 200)), "cmds": describe(cmds)})
	}
}

// canonical compares the wire with the unique canonical encoding, without materialising a second copy of large payloads.
func (c *checker) canonical(wire []byte, cmds [][]string) bool {
	p := 0
	eat := func(s string) bool {
		if len(wire)-p < len(s) || string(wire[p:p+len(s)]) != s {
			return false
		}
		p += len(s)
		return true
	}
	for _, cmd := range cmds {
		if !eat(fmt.Sprintf("*%d\r\n", len(cmd))) {
			return false
		}
		for _, a := range cmd {
			if !eat(fmt.Sprintf("$%d\r\n", len(a))) || !eat(a) || !eat("\r\n") {
				return false
			}
		}
	}
	return p == len(wire)
}

// C14: every command written to the wire is a RESP array of bulk strings decoding to exactly its argv; consecutive commands are framed independently.
func TestC14(t *testing.T) {
	run := mon.Start(t, "C14", "exploration",
		"argument vectors written by writeCmd through bufio.Writers of 7 sizes and decoded by the independent harness/resp parser: "+
			"(a) every argument length 0..2200, (b) lengths straddling every power of ten (10^k-2..10^k+2, 2*10^k, 5*10^k-1, 5*10^k, 1.1*10^k) up to 10^7 bytes (10^8 thorough) with 5 payload alphabets (printable, CRLF/protocol look-alike, all byte values, random binary, NUL+trailing CRLF), "+
			"(c) argument counts straddling every power of ten up to 10^5 (10^6 thorough), (d) count and length boundaries combined, (e) random argvs with binary/CRLF payloads, 1..6 commands back to back with and without intermediate flush; "+
			"(f) the real client over net.Pipe in 3 modes (auto, AlwaysPipelining, DisableAutoPipelining) issuing Do, 8-way concurrent Do, DoMulti (up to 300) and DoStream with argument lengths up to 10^6, the peer decoding with harness/resp: multiset of received argvs = multiset issued; "+
			"a case is distinct by (argc, arg lengths, content hash) of the sequence and non-trivial when a length or count has >= 2 digits, a payload contains CR/LF/NUL, or more than one command is framed")
	defer run.Finish()
	run.Assume("harness/resp decoder follows the RESP specification and shares no code with rueidis", "the io.Writer under the bufio.Writer accepts every write completely (error paths are not part of C14)",
		"a RESP length header is a plain decimal numeral without sign or leading zeros (checked in addition to decoding)")
	c := &checker{run: run, write: rueidis.VerifWriteCmd}
	c.static()
	c.live(t)
	run.Require("len_boundary_cases", "argc_boundary_cases", "args_compared", "live_commands_received")
}

func (c *checker) static() {
	run := c.run
	rng := run.Rand("argv")
	bufsizes := []int{1, 2, 16, 17, 512, 4096, 1 << 16}
	nb := 0
	buf := func() int { nb++; return bufsizes[nb%len(bufsizes)] }

	// (a) every length in a dense range: covers the 1/2/3/4 digit transitions exhaustively
	for l := 0; l <= 2200; l++ {
		c.check("dense-len", [][]string{{"SET", "k", payload(rng, l, l)}}, buf(), false)
	}
	run.Sample(map[string]any{"gen": "dense-len", "argv_lens": []int{3, 1, 1000}, "expect_wire_head": "*3\r\n$3\r\nSET\r\n$1\r\nk\r\n$1000\r\n…"})

	// (b) length boundaries up to 10^7 / 10^8
	maxLen := run.N(10_000_000, 100_000_000)
	lens := boundaries(maxLen)
	if !run.Quick() {
		lens = append(lens, 512<<20-1, 512<<20) // redis proto-max-bulk-len
	}
	for _, l := range lens {
		kinds := []int{0, 1, 2, 3, 4}
		if l > 2_000_000 {
			kinds = []int{l % 5, (l + 1) % 5}
		}
		if l > 20_000_000 {
			kinds = []int{l % 5}
		}
		for _, k := range kinds {
			bs := buf()
			if l > 100_000 && bs < 512 {
				bs = 4096 // byte-sized flushes of multi-megabyte payloads only burn time in the sink
			}
			pos := rng.Intn(3)
			cmd := []string{"SET", "key", "tail"}
			cmd[pos] = payload(rng, l, k)
			c.check("len-boundary", [][]string{cmd}, bs, false)
			run.Observe("len_boundary_cases", 1)
		}
	}
	run.Sample(map[string]any{"gen": "len-boundary", "lengths": boundaries(maxLen)})

	// (c) argument count boundaries
	maxArgs := run.N(100_000, 1_000_000)
	for _, n := range boundaries(maxArgs) {
		for rep := 0; rep < 2; rep++ {
			cmd := make([]string, n)
			for i := range cmd {
				switch rng.Intn(6) {
				case 0:
					cmd[i] = ""
				case 1:
					cmd[i] = "\r\n"
				default:
					cmd[i] = payload(rng, rng.Intn(12), rng.Intn(5))
				}
			}
			// follow it with a second command so that a wrong count mis-frames the stream
			c.check("argc-boundary", [][]string{cmd, {"PING"}}, buf(), rep == 1)
			run.Observe("argc_boundary_cases", 1)
		}
	}
	run.Sample(map[string]any{"gen": "argc-boundary", "counts": boundaries(maxArgs)})

	// (d) count and length boundaries together
	small := boundaries(10_000)
	for i := 0; i < run.N(300, 6000); i++ {
		n := small[rng.Intn(len(small))]
		if n == 0 {
			n = 1
		}
		cmd := make([]string, n)
		for j := range cmd {
			if rng.Intn(50) == 0 || j == n-1 {
				cmd[j] = payload(rng, small[rng.Intn(len(small))], rng.Intn(5))
			} else {
				cmd[j] = payload(rng, rng.Intn(4), rng.Intn(5))
			}
		}
		c.check("argc-x-len", [][]string{cmd, {"GET", "x"}}, buf(), false)
	}

	// (e) random argvs, back to back
	n := run.N(20000, 600000)
	for i := 0; i < n; i++ {
		k := 1 + rng.Intn(6)
		cmds := make([][]string, k)
		for j := range cmds {
			argc := 1 + rng.Intn(6)
			if rng.Intn(20) == 0 {
				argc = 9 + rng.Intn(4)
			}
			if rng.Intn(200) == 0 {
				argc = 0 // an empty vector still is an array header of its own
			}
			cmd := make([]string, argc)
			for a := range cmd {
				switch rng.Intn(8) {
				case 0:
					cmd[a] = payload(rng, []int{9, 10, 11, 99, 100, 101, 999, 1000, 1001, 4094, 4095, 4096, 4097}[rng.Intn(13)], rng.Intn(5))
				default:
					cmd[a] = resp.GenBytes(rng, rng.Intn(4) == 0)
				}
			}
			cmds[j] = cmd
		}
		if i == 0 {
			run.Sample(map[string]any{"gen": "random", "cmds": fmt.Sprintf("%q", cmds)})
		}
		c.check("random", cmds, buf(), rng.Intn(3) == 0)
	}
}
